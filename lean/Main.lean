/-
  kira_twin — the executable twin.  `kira_twin <suite> < ops > trace`: one trace line per op line.
  A suite is a state machine over op lines; `case …` resets the state and is echoed.
-/
import KiraModel.Exec.SuiteUnits
import KiraModel.Exec.SuiteParam
import KiraModel.Exec.SuiteFinal
import KiraModel.Exec.SuiteSrate
import KiraModel.Exec.SuiteModulator
import KiraModel.Exec.SuiteModSys
import KiraModel.Exec.SuiteClock
import KiraModel.Exec.SuiteSpatial
import KiraModel.Exec.SuiteWav
import KiraModel.Exec.SuiteStatic
import KiraModel.Exec.SuiteMixer
import KiraModel.Exec.SuiteFxA
import KiraModel.Exec.SuiteFxB
import KiraModel.Exec.SuiteFxRate
import KiraModel.Exec.SuiteChan
import KiraModel.Exec.SuiteStorage
import KiraModel.Exec.SuiteLife
import KiraModel.Exec.SuiteDeliver
import KiraModel.Exec.SuiteStream
import KiraModel.Exec.SuiteSysCore

open K.Exec K.Exec.Clock K.Exec.Wav K.Exec.FxA K.Exec.FxB K.Exec.FxRate K.Exec.Mix

/-- A suite: state, initial state, step on a tokenised op line. `none` = unparsable op. -/
structure Suite where
  σ : Type
  init : σ
  step : σ → List String → Option (σ × String)

def statelessSuite (f : List String → Option String) : Suite :=
  { σ := Unit, init := (), step := fun _ tok => (f tok).map (fun s => ((), s)) }

def suiteOf (name : String) : Option Suite :=
  match name with
  | "units" => some (statelessSuite unitsStep)
  | "param" => some { σ := ParamState, init := {}, step := paramStep }
  | "final" => some { σ := FinalState, init := {}, step := finalStep }
  | "srate" => some { σ := K.SR.State, init := K.SR.init 0, step := srateStep }
  | "lfo" => some { σ := LfoSt, init := {}, step := lfoStep }
  | "tweener" => some { σ := TweenerSt, init := {}, step := tweenerStep }
  | "modsys" => some { σ := SysSt, init := {}, step := sysStep }
  | "clock" => some { σ := ClockSuiteState, init := {}, step := clockStep }
  | "clocksys" => some { σ := SysSuiteState, init := {}, step := clockSysStep }
  | "clocktear" => some { σ := TearState, init := {}, step := tearStep }
  | "spatial" => some { σ := Option (K.Scene Float), init := none, step := spatialStep }
  | "wav" => some { σ := WavState, init := {}, step := wavStep }
  | "transport" => some { σ := Option K.Transport, init := none, step := Static.transportStep }
  | "psm" => some { σ := Static.PsmSuiteState, init := {}, step := Static.psmStep }
  | "static" | "static_ood" => some { σ := Static.StaticSuiteState, init := {}, step := Static.staticStep }
  | "mixer" | "mixtrk" | "mixpart" => some { σ := MixState, init := {}, step := mixStep }
  | "fxa" => some { σ := FxAState, init := {}, step := fxaStep }
  | "fxb" => some { σ := FxbState, init := {}, step := fxbStep }
  | "fxrate" => some { σ := FxRateState, init := {}, step := fxRateStep }
  | "chan" => some { σ := ChanState, init := {}, step := withSeq chanStep }
  | "storage" => some { σ := StoState, init := {}, step := withSeq storageStep }
  | "life" => some { σ := LifeState, init := {}, step := withSeq lifeStep }
  | "deliver" => some { σ := DeliverState, init := {}, step := withSeq deliverStep }
  | "stream" | "decthread" => some { σ := K.Exec.Strm.StrmState, init := {}, step := K.Exec.Strm.strmStep }
  | "syscore" => some { σ := K.Exec.SysCore.SCState, init := {}, step := K.Exec.SysCore.scStep }
  | _ => none

def tokens (line : String) : List String :=
  (line.trimAscii.toString.splitOn " ").filter (fun s => !s.isEmpty)

partial def loop (su : Suite) (h : IO.FS.Stream) (out : IO.FS.Stream) (st : su.σ) (dead : Bool) : IO Unit := do
  let line ← h.getLine
  if line.isEmpty then return ()
  let tok := tokens line
  match tok with
  | [] => loop su h out st dead
  | t :: _ =>
    if t.startsWith "#" then loop su h out st dead
    else if t == "case" then
      out.putStrLn (String.intercalate " " tok)
      loop su h out su.init false
    else if dead then
      out.putStrLn "dead"
      loop su h out st true
    else
      match su.step st tok with
      | some (st', s) =>
        out.putStrLn s
        loop su h out st' (s.startsWith "fault")
      | none =>
        out.putStrLn "bad-op"
        loop su h out st dead

def main (args : List String) : IO UInt32 := do
  match args with
  | [name] =>
    match suiteOf name with
    | some su =>
      let stdin ← IO.getStdin
      let stdout ← IO.getStdout
      loop su stdin stdout su.init false
      return 0
    | none => IO.eprintln s!"unknown suite {name}"; return 2
  | _ => IO.eprintln "usage: kira_twin <suite>"; return 2
