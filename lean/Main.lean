/-
  kira_twin — the executable twin.  `kira_twin <suite> < ops > trace`: one trace line per op line.
  A suite is a state machine over op lines; `case …` resets the state and is echoed.
-/
import KiraModel.Exec.SuiteUnits
import KiraModel.Exec.SuiteParam
import KiraModel.Exec.SuiteChan
import KiraModel.Exec.SuiteStorage
import KiraModel.Exec.SuiteLife
import KiraModel.Exec.SuiteDeliver

open K.Exec

/-- A suite: state, initial state, step on a tokenised op line. `none` = unparsable op. -/
structure Suite where
  σ : Type
  init : σ
  step : σ → List String → Option (σ × String)

def statelessSuite (f : List String → Option String) : Suite :=
  { σ := Unit, init := (), step := fun _ tok => (f tok).map (fun s => ((), s)) }

def suiteOf (name : String) : Option Suite :=
  match name with
  | "units" => some (statelessSuite unitsStep)
  | "param" => some { σ := ParamState, init := {}, step := paramStep }
  | "chan" => some { σ := ChanState, init := {}, step := withSeq chanStep }
  | "storage" => some { σ := StoState, init := {}, step := withSeq storageStep }
  | "life" => some { σ := LifeState, init := {}, step := withSeq lifeStep }
  | "deliver" => some { σ := DeliverState, init := {}, step := withSeq deliverStep }
  | _ => none

def tokens (line : String) : List String :=
  (line.trimAscii.toString.splitOn " ").filter (fun s => !s.isEmpty)

partial def loop (su : Suite) (h : IO.FS.Stream) (out : IO.FS.Stream) (st : su.σ) (dead : Bool) : IO Unit := do
  let line ← h.getLine
  if line.isEmpty then return ()
  let tok := tokens line
  match tok with
  | [] => loop su h out st dead
  | t :: _ =>
    if t.startsWith "#" then loop su h out st dead
    else if t == "case" then
      out.putStrLn (String.intercalate " " tok)
      loop su h out su.init false
    else if dead then
      out.putStrLn "dead"
      loop su h out st true
    else
      match su.step st tok with
      | some (st', s) =>
        out.putStrLn s
        loop su h out st' (s.startsWith "fault")
      | none =>
        out.putStrLn "bad-op"
        loop su h out st dead

def main (args : List String) : IO UInt32 := do
  match args with
  | [name] =>
    match suiteOf name with
    | some su =>
      let stdin ← IO.getStdin
      let stdout ← IO.getStdout
      loop su stdin stdout su.init false
      return 0
    | none => IO.eprintln s!"unknown suite {name}"; return 2
  | _ => IO.eprintln "usage: kira_twin <suite>"; return 2
