import KiraModel.Proofs.HandLemmas
namespace K.Hand
open K.Store

theorem inv_gReserve {ar : Bool} {cap : Nat} {s s' : St} (h : Inv ar cap s)
    (hs : step ar s .gReserve = some (.ok s')) : Inv ar cap s' := by
  obtain ⟨wf, dr, mg, nh, ub⟩ := h
  simp only [step] at hs
  cases hg : s.gpc with
  | reserved k => simp [hg] at hs
  | drained k => simp [hg] at hs
  | idle =>
    simp only [hg] at hs
    have hheld : s.held = [] := by simp [St.held, hg]
    rw [hheld] at wf
    have spec := wf_tryReserve wf
    cases hr : s.store.tryReserve with
    | error e => simp [hr, ReserveSpec] at spec
    | ok p =>
      obtain ⟨ko, st⟩ := p
      cases ko with
      | none =>
        simp only [hr, ReserveSpec] at spec hs
        obtain ⟨rfl, _⟩ := spec
        simp at hs; subst hs
        refine ⟨by simpa [St.held, hg] using wf, ?_, ?_, ?_, ?_⟩ <;>
          simp only [DrainInv, MustGoInv, St.stale, St.inHand, St.pending, St.held, hg] at * <;> grind
      | some k =>
        simp only [hr, ReserveSpec] at spec hs
        simp at hs; subst hs
        obtain ⟨wf', hlt, hlen, hk, hkg, hgen, ha, hn, hu, hd, hnot⟩ := spec
        refine ⟨by simpa [St.held] using wf', ?_, ?_, ?_, ?_⟩
        · simp only [DrainInv] at dr ⊢; simpa [ha] using dr
        · intro k' hk'
          rcases mg k' hk' with h1 | h1
          · left; simp only [St.stale] at h1 ⊢; rw [hgen]; exact h1
          · right; simpa [ha] using h1
        · simpa [St.inHand] using nh
        · intro har; have := ub har
          simp only [St.pending, hg, hu, hlen] at this ⊢; omega

end K.Hand
