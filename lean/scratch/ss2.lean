import KiraModel.Proofs.SelfStoreLemmas
namespace K.SelfStore
open K.Store
variable {τ : Type}

theorem swf_drainPhase (test : τ → Bool) {cap : Nat} {held : List Key} {ss : SelfStore τ} (h : SWF cap held ss) :
    ∃ ss', ss.drainPhase test = .ok ss' ∧ SWF cap held ss' ∧ ss'.keys.Sublist ss.keys ∧ ss'.dummy = ss.dummy
      ∧ ss'.base.newRing = ss.base.newRing ∧ ss'.base.dropped = ss.base.dropped
      ∧ (∀ k ∈ ss.keys, k ∉ ss'.keys → Flagged test ss.base k)
      ∧ (∀ k ∈ ss'.keys, Flagged test ss.base k → ss'.base.unused.isFull = true) := by
  obtain ⟨wf, nd, mem, gen⟩ := h
  have hall : ∀ k ∈ ss.keys, k.index ∈ ss.base.arena.order ∧
      ∃ sl, ss.base.arena.slots[k.index]? = some sl ∧ sl.generation = k.generation :=
    fun k hk => ⟨(mem k.index).mp (List.mem_map.mpr ⟨k, hk, rfl⟩), gen k hk⟩
  obtain ⟨ks, s1, hr, wf1, hsub, hn1, hdr1, hsame, hordiff, hgen, hflag, hfl⟩ :=
    wf_removeUnused test ss.keys ss.base wf nd hall
  refine ⟨{ ss with base := s1, keys := ks }, by simp [drainPhase, hr], ⟨wf1, ?_, ?_, hgen⟩, hsub, rfl, hn1, hdr1,
    hflag, hfl⟩
  · exact (hsub.map _).nodup nd
  · intro i
    rw [hordiff i, ← mem i]
    constructor
    · intro hi
      exact ⟨(hsub.map _).subset hi, fun _ => hi⟩
    · rintro ⟨hi, himp⟩; exact himp hi

theorem swf_addPhase {cap : Nat} {held : List Key} {ss ss' : SelfStore τ} (h : SWF cap held ss)
    (hs : ss.addPhase = .ok ss') :
    SWF cap held ss' ∧ ss'.keys = ss.keys ++ ss.base.newRing.items.map (·.1) ∧ ss'.dummy = ss.dummy
      ∧ ss'.base.newRing.items = [] := by
  obtain ⟨wf, nd, mem, gen⟩ := h
  simp only [addPhase, Store.addPhase] at hs
  cases hr : addItems ss.base.newRing.items ss.base with
  | error e => simp [hr] at hs
  | ok p =>
    obtain ⟨s2, ks⟩ := p
    simp [hr] at hs; subst hs
    obtain ⟨wf1, he1, hc1, hu1, hd1, hks, hord1, hin1, hout1⟩ :=
      wf_addItems ss.base.newRing.items ss.base s2 ks wf rfl hr
    have hown := wf.ownNodup
    simp only [ownIdx, List.nodup_append, List.mem_append] at hown
    obtain ⟨_, ⟨hnn, _, hdisj⟩, _⟩ := hown
    refine ⟨⟨wf1, ?_, ?_, ?_⟩, by simp [hks], rfl, he1⟩
    · simp only [hks, List.map_append, List.map_map, List.nodup_append]
      refine ⟨nd, by simpa [Function.comp_def] using hnn, ?_⟩
      intro a ha b hb hab
      subst hab
      have hbo := (mem a).mp ha
      simp only [List.mem_map, Function.comp] at hb
      obtain ⟨p, hp, rfl⟩ := hb
      exact hdisj _ (List.mem_map.mpr ⟨p, hp, rfl⟩) _ hbo rfl
    · intro i
      simp only [hks, hord1, List.map_append, List.map_map, List.mem_append, List.mem_reverse, ← mem i]
      simp only [Function.comp_def]
      constructor
      · rintro (h | h); exact Or.inr h; exact Or.inl h
      · rintro (h | h); exact Or.inr h; exact Or.inl h
    · intro k hk
      simp only [hks, List.mem_append, List.mem_map] at hk
      rcases hk with hk | ⟨p, hp, rfl⟩
      · have hnot : k.index ∉ ss.base.newRing.items.map (·.1.index) := by
          intro hin
          exact hdisj _ hin _ ((mem k.index).mp (List.mem_map.mpr ⟨k, hk, rfl⟩)) rfl
        rw [hout1 k.index hnot]; exact gen k hk
      · exact ⟨_, hin1 p hp, rfl⟩

end K.SelfStore
