#check @List.length_eq_countP_add_countP
#check @List.countP_eq_length_filter
#check @List.filter_length_add_filter_length
