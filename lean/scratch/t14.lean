import KiraModel.Proofs.HandLemmas
namespace K
namespace Hand
open K.Store

theorem inv_aPushUnused {ar : Bool} {cap : Nat} {s s' : St} (h : Inv ar cap s)
    (hs : step ar s .aPushUnused = some (.ok s')) : Inv ar cap s' := by
  obtain ⟨wf, dr, mg, nh, ub⟩ := h
  simp only [step] at hs
  cases ha : s.apc with
  | idle => simp [ha] at hs
  | adding => simp [ha] at hs
  | draining r hnd =>
    cases hnd with
    | none => simp [ha] at hs
    | some x =>
      simp only [ha] at hs
      cases ar with
      | true => have := nh rfl; simp [St.inHand, ha] at this
      | false =>
        cases hp : s.store.pushUnused x with
        | error e => simp [hp] at hs
        | ok st =>
          simp [hp] at hs; subst hs
          obtain ⟨wf2, hc2, ha2, hn2, hd2, hit2, _⟩ := wf_pushUnused x wf hp
          refine ⟨by simpa [St.held] using wf2, ?_, ?_, by simp, by simp⟩
          · simpa [DrainInv, ha, ha2] using dr
          · intro k hk
            rcases mg k hk with h1 | ⟨r', h', hap, hkr, sl', x', hs', hg', hd', hm'⟩
            · left; simpa [St.stale, hc2] using h1
            · right; rw [ha] at hap; cases hap
              exact ⟨_, _, rfl, hkr, sl', x', by simpa [ha2] using hs', hg', hd', hm'⟩

theorem inv_aEndDrain {ar : Bool} {cap : Nat} {s s' : St} (h : Inv ar cap s)
    (hs : step ar s .aEndDrain = some (.ok s')) : Inv ar cap s' := by
  obtain ⟨wf, dr, mg, nh, ub⟩ := h
  simp only [step] at hs
  cases ha : s.apc with
  | idle => simp [ha] at hs
  | adding => simp [ha] at hs
  | draining r hnd =>
    cases hnd with
    | some x => simp [ha] at hs
    | none =>
      cases r with
      | cons i rest => simp [ha] at hs
      | nil =>
        simp [ha] at hs; subst hs
        refine ⟨by simpa [St.held] using wf, by simp [DrainInv], ?_, by simp [St.inHand], by simpa [St.pending] using ub⟩
        intro k hk
        rcases mg k hk with h1 | ⟨r', h', hap, hkr, _⟩
        · left; exact h1
        · rw [ha] at hap; cases hap; simp at hkr

theorem inv_aPopNew {ar : Bool} {cap : Nat} {s s' : St} (h : Inv ar cap s)
    (hs : step ar s .aPopNew = some (.ok s')) : Inv ar cap s' := by
  obtain ⟨wf, dr, mg, nh, ub⟩ := h
  simp only [step] at hs
  cases ha : s.apc with
  | idle => simp [ha] at hs
  | draining r hnd => simp [ha] at hs
  | adding =>
    simp only [ha] at hs
    have spec := wf_popNewInsert wf
    have hmg0 : ∀ k ∈ s.mustGo, s.stale k := by
      intro k hk
      rcases mg k hk with h1 | ⟨r', h', hap, _⟩
      · exact h1
      · rw [ha] at hap; cases hap
    cases hp : s.store.popNewInsert with
    | error e => simp [hp, PopNewSpec] at spec
    | ok p =>
      obtain ⟨ko, st⟩ := p
      cases ko with
      | none =>
        simp only [hp, PopNewSpec] at spec
        obtain ⟨rfl, _⟩ := spec
        simp [hp] at hs; subst hs
        refine ⟨by simpa [St.held] using wf, by simp [DrainInv], fun k hk => Or.inl (hmg0 k hk), by simp [St.inHand],
          by simpa [St.pending] using ub⟩
      | some k =>
        simp only [hp, PopNewSpec] at spec
        obtain ⟨wf', hc, hu, hd, _⟩ := spec
        simp [hp] at hs; subst hs
        refine ⟨by simpa [St.held] using wf', by simp [DrainInv, ha], ?_, by simp [St.inHand, ha], ?_⟩
        · intro k' hk'; left; have := hmg0 k' hk'; simpa [St.stale, hc] using this
        · intro har; have := ub har; simpa [St.pending, hc, hu] using this

end Hand
end K
