import KiraModel.Proofs.StoreLemmas
namespace K.Store
variable {τ : Type}

/-- what one drain visit of an occupied slot does -/
def VisitSpec (test : τ → Bool) (cap : Nat) (held : List Key) (s : Store τ) (i : Nat) :
    Except SFault (Option τ × Store τ) → Prop
  | .error _ => False
  | .ok (none, s') => s' = s ∧ ∃ sl d, s.arena.slots[i]? = some sl ∧ sl.data = some d ∧ test d = false
  | .ok (some x, s') =>
      WF cap held s' ∧ test x = true
      ∧ (∃ sl, s.arena.slots[i]? = some sl ∧ sl.data = some x)
      ∧ s'.arena.order = s.arena.order.erase i
      ∧ s'.ctrl.len + 1 = s.ctrl.len
      ∧ s'.newRing = s.newRing ∧ s'.unused = s.unused ∧ s'.dropped = s.dropped
      ∧ s'.ctrl.generation i = s.ctrl.generation i + 1
      ∧ (∀ j, j ≠ i → s'.ctrl.generation j = s.ctrl.generation j ∧ s'.arena.slots[j]? = s.arena.slots[j]?)
      ∧ (∃ sl, s'.arena.slots[i]? = some sl ∧ sl.data = none)

theorem wf_drainVisit (test : τ → Bool) {cap : Nat} {held : List Key} {s : Store τ} {i : Nat}
    (h : WF cap held s) (hi : i ∈ s.arena.order) : VisitSpec test cap held s i (s.drainVisit test i) := by
  have hown : i ∈ ownIdx held s := by simp [ownIdx, hi]
  obtain ⟨hn', hl', hm'⟩ := nodup_erase_right (A := held.map (·.index)) (B := s.newRing.items.map (·.1.index)) h.ownNodup hi
  obtain ⟨cs, as, nc, uc, fn, fo, cnt, on, oo, oc, occ, gens, hg, ng⟩ := h
  obtain ⟨sl, hsl, hd⟩ := (occ i).mp hi
  obtain ⟨csl, hcsl, hcf⟩ := oo i hown
  cases hdd : sl.data with
  | none => simp [hdd] at hd
  | some d =>
    have hlen := len_set s.ctrl i csl ⟨true, csl.generation + 1⟩ hcsl
    simp [hcf] at hlen
    have hpos : 0 < (ownIdx held s).length := List.length_pos_of_mem hown
    have hil := getElem?_lt hcsl
    have hial := getElem?_lt hsl
    by_cases ht : test d = true
    · simp only [drainVisit, hsl, hdd, ht, Arena.removeFromSlot, Controller.free, hcsl, VisitSpec, if_true]
      refine ⟨⟨?_, ?_, ?_, ?_, ?_, ?_, ?_, ?_, ?_, ?_, ?_, ?_, ?_, ?_⟩, trivial, ?_, trivial, ?_, trivial, trivial, trivial, ?_, ?_, ?_⟩
      all_goals (simp only [Controller.len, Controller.generation, ownIdx, List.length_cons, List.length_append, List.length_map, List.mem_append, List.mem_cons, List.mem_map, List.length_set] at *)
      all_goals first | assumption | omega | grind
    · simp only [drainVisit, hsl, hdd, ht, VisitSpec]
      simp
      exact ⟨d, hdd, by simpa using ht⟩

end K.Store
