import KiraModel.Proofs.HandLemmas
namespace K
namespace Hand
open K.Store

/-- what any single step does, beyond preserving the invariant -/
structure StepFacts (l : Label) (s s' : St) : Prop where
  /-- slot generations never decrease -/
  genMono : ∀ j, s.store.ctrl.generation j ≤ s'.store.ctrl.generation j
  /-- a key that stops resolving is stale from then on -/
  lost : ∀ k x, s.store.arena.get? k = some x → s'.store.arena.get? k = none → s'.stale k
  /-- audio-thread steps neither create nor destroy resource objects -/
  objLen : l.isAudio = true → s'.objects.length = s.objects.length
  objMem : l.isAudio = true → ∀ x, x ∈ s'.objects ↔ x ∈ s.objects
  /-- resources are destroyed only by the gameplay thread's pop of the unused ring -/
  dropped : s'.store.dropped = s.store.dropped ∨
    (l = .gPopUnused ∧ ∃ x, s'.store.dropped = s.store.dropped ++ [x] ∧ s.store.unused.items = x :: s'.store.unused.items)

theorem facts_same {l : Label} {s s' : St} (hc : s'.store.ctrl = s.store.ctrl) (ha : s'.store.arena = s.store.arena)
    (hd : s'.store.dropped = s.store.dropped)
    (hobj : l.isAudio = true → s'.objects = s.objects) : StepFacts l s s' := by
  refine ⟨by simp [hc], ?_, ?_, ?_, Or.inl hd⟩
  · intro k x h1 h2; rw [ha, h1] at h2; cases h2
  · intro h; rw [hobj h]
  · intro h x; rw [hobj h]

theorem step_facts {ar : Bool} {cap : Nat} {s s' : St} {l : Label} (h : Inv ar cap s)
    (hs : step ar s l = some (.ok s')) : StepFacts l s s' := by
  have h' := inv_step h hs
  obtain ⟨wf, dr, mg, nh, ub⟩ := h
  cases l with
  | gReserve =>
    simp only [step] at hs
    cases hg : s.gpc with
    | reserved k => simp [hg] at hs
    | drained k => simp [hg] at hs
    | idle =>
      simp only [hg] at hs
      have hheld : s.held = [] := by simp [St.held, hg]
      rw [hheld] at wf
      have spec := wf_tryReserve wf
      cases hr : s.store.tryReserve with
      | error e => simp [hr, ReserveSpec] at spec
      | ok p =>
        obtain ⟨ko, st⟩ := p
        cases ko with
        | none =>
          simp only [hr, ReserveSpec] at spec hs
          obtain ⟨rfl, _⟩ := spec
          simp at hs; subst hs
          exact facts_same rfl rfl rfl (by simp [Label.isAudio])
        | some k =>
          simp only [hr, ReserveSpec] at spec hs
          simp at hs; subst hs
          obtain ⟨wf', hlt, hlen, hk, hkg, hgen, ha, hn, hu, hd, hnot⟩ := spec
          refine ⟨fun j => by simp [hgen], ?_, by simp [Label.isAudio], by simp [Label.isAudio], Or.inl hd⟩
          intro k x h1 h2; simp only [ha] at h2; rw [h1] at h2; cases h2
  | gPopUnused =>
    simp only [step] at hs
    cases hg : s.gpc with
    | idle => simp [hg] at hs
    | drained k => simp [hg] at hs
    | reserved k =>
      simp only [hg] at hs
      cases hp : s.store.popUnused with
      | none =>
        simp [hp] at hs; subst hs
        exact facts_same rfl rfl rfl (by simp [Label.isAudio])
      | some st =>
        simp [hp] at hs; subst hs
        cases hit : s.store.unused.items with
        | nil => simp [popUnused, Ring.pop, hit] at hp
        | cons x r =>
          simp [popUnused, Ring.pop, hit] at hp
          subst hp
          refine ⟨by simp, ?_, by simp [Label.isAudio], by simp [Label.isAudio], Or.inr ⟨rfl, x, rfl, by simp [hit]⟩⟩
          intro k y h1 h2; simp only [] at h2; rw [h1] at h2; cases h2
  | gPushNew =>
    simp only [step] at hs
    cases hg : s.gpc with
    | idle => simp [hg] at hs
    | reserved k => simp [hg] at hs
    | drained k =>
      simp only [hg] at hs
      have hheld : s.held = [k] := by simp [St.held, hg]
      rw [hheld] at wf
      obtain ⟨st, hp, wf', hc, ha, hu, hd, hn⟩ := wf_pushNew s.nextId wf
      simp [hp] at hs; subst hs
      exact facts_same hc ha hd (by simp [Label.isAudio])
  | mark x =>
    simp [step] at hs; subst hs
    exact facts_same rfl rfl rfl (by simp [Label.isAudio])
  | aBegin =>
    simp only [step] at hs
    cases ha : s.apc with
    | draining r hnd => simp [ha] at hs
    | adding => simp [ha] at hs
    | idle =>
      simp [ha] at hs; subst hs
      exact facts_same rfl rfl rfl (by intro _; simp [St.objects, St.inHand, ha])
  | aEndDrain =>
    simp only [step] at hs
    cases ha : s.apc with
    | idle => simp [ha] at hs
    | adding => simp [ha] at hs
    | draining r hnd =>
      cases hnd with
      | some x => simp [ha] at hs
      | none =>
        cases r with
        | cons i rest => simp [ha] at hs
        | nil =>
          simp [ha] at hs; subst hs
          exact facts_same rfl rfl rfl (by intro _; simp [St.objects, St.inHand, ha])
  | aPushUnused =>
    simp only [step] at hs
    cases ha : s.apc with
    | idle => simp [ha] at hs
    | adding => simp [ha] at hs
    | draining r hnd =>
      cases hnd with
      | none => simp [ha] at hs
      | some x =>
        simp only [ha] at hs
        cases hp : s.store.pushUnused x with
        | error e => simp [hp] at hs
        | ok st =>
          simp [hp] at hs; subst hs
          obtain ⟨wf2, hc2, ha2, hn2, hd2, hit2, _⟩ := wf_pushUnused x wf hp
          refine ⟨by simp [hc2], ?_, ?_, ?_, Or.inl hd2⟩
          · intro k y h1 h2; simp only [ha2] at h2; rw [h1] at h2; cases h2
          · intro _; simp [St.objects, St.inHand, ha, Store.objects, ha2, hn2, hit2]; omega
          · intro _ y; simp [St.objects, St.inHand, ha, Store.objects, ha2, hn2, hit2]; grind
  | aVisit =>
    simp only [step] at hs
    cases ha : s.apc with
    | idle => simp [ha] at hs
    | adding => simp [ha] at hs
    | draining r hnd =>
      cases hnd with
      | some y => simp [ha] at hs
      | none =>
      cases r with
      | nil => simp [ha] at hs
      | cons i rest =>
        simp only [ha] at hs
        simp only [DrainInv, ha] at dr
        obtain ⟨hnd, hall⟩ := dr
        have hi : i ∈ s.store.arena.order := hall i (by simp)
        have spec := wf_drainVisit s.test wf hi
        cases hv : s.store.drainVisit s.test i with
        | error e => simp [hv, VisitSpec] at spec
        | ok p =>
          obtain ⟨xo, st⟩ := p
          cases xo with
          | none =>
            simp only [hv, VisitSpec] at spec hs
            obtain ⟨rfl, _⟩ := spec
            simp at hs; subst hs
            exact facts_same rfl rfl rfl (by intro _; simp [St.objects, St.inHand, ha])
          | some x =>
            simp only [hv, VisitSpec] at spec
            obtain ⟨wf', htx, ⟨sl, hsl, hdx⟩, hord, hlen, hn, hu, hdr, hgi, hoth, ⟨sl2, hsl2, hd2⟩⟩ := spec
            have hond := order_nodup wf
            have hil := iter_length wf
            have hil' := iter_length wf'
            have hel : (s.store.arena.order.erase i).length + 1 = s.store.arena.order.length := by
              rw [List.length_erase_of_mem hi]; have := List.length_pos_of_mem hi; omega
            have hgm : ∀ j, s.store.ctrl.generation j ≤ st.ctrl.generation j := by
              intro j; by_cases hj : j = i
              · rw [hj, hgi]; omega
              · rw [(hoth j hj).1]; exact Nat.le_refl _
            have hlost : ∀ k y, s.store.arena.get? k = some y → st.arena.get? k = none →
                k.generation < st.ctrl.generation k.index := by
              intro k y h1 h2
              by_cases hk : k.index = i
              · rw [hk, hgi]
                have hg := wf.gens i
                simp only [Arena.get?, hk, hsl] at h1
                split at h1
                · cases h1
                · rename_i hge
                  simp only [hsl, Controller.generation] at hg ⊢
                  cases hc : s.store.ctrl.slots[i]? with
                  | none => simp [hc] at hg
                  | some c => simp [hc] at hg ⊢; simp at hge; omega
              · simp only [Arena.get?, (hoth _ hk).2] at h1 h2; rw [h1] at h2; cases h2
            have hmem : ∀ y, y ∈ st.arena.iter.map (·.2) ∨ y = x ↔ y ∈ s.store.arena.iter.map (·.2) := by
              intro y
              rw [Arena.mem_iter_snd, Arena.mem_iter_snd, hord]
              constructor
              · rintro (⟨j, hj, slj, hslj, hdj⟩ | rfl)
                · have hj' := (hond.mem_erase_iff).mp hj
                  exact ⟨j, hj'.2, slj, by rw [← (hoth j hj'.1).2]; exact hslj, hdj⟩
                · exact ⟨i, hi, sl, hsl, hdx⟩
              · rintro ⟨j, hj, slj, hslj, hdj⟩
                by_cases hji : j = i
                · right; subst hji; rw [hsl] at hslj; cases hslj; rw [hdx] at hdj; cases hdj; rfl
                · left; exact ⟨j, (hond.mem_erase_iff).mpr ⟨hji, hj⟩, slj, by rw [(hoth j hji).2]; exact hslj, hdj⟩
            cases ar with
            | false =>
              simp [hv] at hs; subst hs
              refine ⟨hgm, hlost, ?_, ?_, Or.inl hdr⟩
              · intro _
                simp only [St.objects, St.inHand, ha, Store.objects, hn, hu, List.length_append, List.length_map,
                  List.length_cons, List.length_nil, hil, hil', hord]
                omega
              · intro _ y
                have := hmem y
                simp only [St.objects, St.inHand, ha, Store.objects, hn, hu, List.mem_append, List.mem_cons,
                  List.not_mem_nil, or_false, false_or]
                grind
            | true =>
              simp only [hv, if_true] at hs
              cases hp : st.pushUnused x with
              | error e => simp [hp] at hs
              | ok st2 =>
                simp [hp] at hs; subst hs
                obtain ⟨wf2, hc2, ha2, hn2, hd2', hit2, _⟩ := wf_pushUnused x wf' hp
                refine ⟨by simpa [hc2] using hgm, by simpa [St.stale, hc2, ha2] using hlost, ?_, ?_,
                  Or.inl (by simp [hd2', hdr])⟩
                · intro _
                  simp only [St.objects, St.inHand, ha, Store.objects, hn, hu, hn2, ha2, hit2, List.length_append,
                    List.length_map, List.length_cons, List.length_nil, hil, hil', hord]
                  omega
                · intro _ y
                  have := hmem y
                  simp only [St.objects, St.inHand, ha, Store.objects, hn, hu, hn2, ha2, hit2, List.mem_append,
                    List.mem_cons, List.not_mem_nil, or_false, false_or]
                  grind
  | aPopNew =>
    simp only [step] at hs
    cases ha : s.apc with
    | idle => simp [ha] at hs
    | draining r hnd => simp [ha] at hs
    | adding =>
      simp only [ha] at hs
      have spec := wf_popNewInsert wf
      cases hp : s.store.popNewInsert with
      | error e => simp [hp, PopNewSpec] at spec
      | ok p =>
        obtain ⟨ko, st⟩ := p
        cases ko with
        | none =>
          simp only [hp, PopNewSpec] at spec
          obtain ⟨rfl, _⟩ := spec
          simp [hp] at hs; subst hs
          exact facts_same rfl rfl rfl (by intro _; simp [St.objects, St.inHand, ha])
        | some k =>
          simp only [hp, PopNewSpec] at spec
          obtain ⟨wf', hc, hu, hd, hord, x, rest, hit, hit', hslk, hoth, hbefore⟩ := spec
          simp [hp] at hs; subst hs
          have hil := iter_length wf
          have hil' := iter_length wf'
          have hknot : k.index ∉ s.store.arena.order := by
            intro hmem
            obtain ⟨sl, hsl, hd⟩ := (wf.occ _).mp hmem
            rw [hbefore] at hsl; cases hsl; simp at hd
          refine ⟨by simp [hc], ?_, ?_, ?_, Or.inl hd⟩
          · intro k' y h1 h2
            by_cases hk : k'.index = k.index
            · simp only [Arena.get?, hk, hbefore] at h1; split at h1 <;> cases h1
            · simp only [Arena.get?, hoth _ hk] at h1 h2; rw [h1] at h2; cases h2
          · intro _
            simp only [St.objects, St.inHand, ha, Store.objects, hu, hit, hit', List.length_append, List.length_map,
              List.length_cons, hil, hil', hord]
            omega
          · intro _ y
            have hmem : y ∈ st.arena.iter.map (·.2) ↔ y = x ∨ y ∈ s.store.arena.iter.map (·.2) := by
              rw [Arena.mem_iter_snd, Arena.mem_iter_snd, hord]
              constructor
              · rintro ⟨j, hj, slj, hslj, hdj⟩
                by_cases hjk : j = k.index
                · left; subst hjk; rw [hslk] at hslj; cases hslj; simp at hdj; exact hdj.symm
                · right
                  simp only [List.mem_cons] at hj
                  rcases hj with hj | hj
                  · exact absurd hj hjk
                  · exact ⟨j, hj, slj, by rw [← hoth j hjk]; exact hslj, hdj⟩
              · rintro (rfl | ⟨j, hj, slj, hslj, hdj⟩)
                · exact ⟨k.index, by simp, _, hslk, rfl⟩
                · have hjk : j ≠ k.index := by intro e; rw [e] at hj; exact hknot hj
                  exact ⟨j, by simp [hj], slj, by rw [hoth j hjk]; exact hslj, hdj⟩
            simp only [St.objects, St.inHand, ha, Store.objects, hu, hit, hit', List.mem_append, List.mem_cons,
              List.map_cons, List.not_mem_nil, false_or]
            grind

end Hand
end K
