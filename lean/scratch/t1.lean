import KiraModel.Model.Conc.CommandChan
namespace K.Chan
variable {V : Type}

theorem buf_setBuf (s : St V) (i j : Idx) (c : Cell V) :
    (s.setBuf i c).buf j = if j = i then c else s.buf j := by
  unfold St.setBuf St.buf
  grind

end K.Chan
