import KiraModel.Proofs.HandLemmas
namespace K.Hand
open K.Store

theorem inv_gPopUnused {ar : Bool} {cap : Nat} {s s' : St} (h : Inv ar cap s)
    (hs : step ar s .gPopUnused = some (.ok s')) : Inv ar cap s' := by
  obtain ⟨wf, dr, mg, nh, ub⟩ := h
  simp only [step] at hs
  cases hg : s.gpc with
  | idle => simp [hg] at hs
  | drained k => simp [hg] at hs
  | reserved k =>
    simp only [hg] at hs
    have hheld : s.held = [k] := by simp [St.held, hg]
    rw [hheld] at wf
    cases hp : s.store.popUnused with
    | some st =>
      simp [hp] at hs; subst hs
      obtain ⟨wf', hc, ha, hn, hl⟩ := wf_popUnused wf hp
      refine ⟨by simpa [St.held, hg] using wf', ?_, ?_, ?_, ?_⟩ <;>
        simp only [DrainInv, MustGoInv, St.stale, St.inHand, St.pending, St.held, hg, hc, ha, hn] at * <;> grind
    | none =>
      simp [hp] at hs; subst hs
      have he := popUnused_none hp
      have hle := len_le wf
      refine ⟨by simpa [St.held, hg] using wf, ?_, ?_, ?_, ?_⟩ <;>
        simp only [DrainInv, MustGoInv, St.stale, St.inHand, St.pending, St.held, hg, he] at * <;> grind

theorem inv_gPushNew {ar : Bool} {cap : Nat} {s s' : St} (h : Inv ar cap s)
    (hs : step ar s .gPushNew = some (.ok s')) : Inv ar cap s' := by
  obtain ⟨wf, dr, mg, nh, ub⟩ := h
  simp only [step] at hs
  cases hg : s.gpc with
  | idle => simp [hg] at hs
  | reserved k => simp [hg] at hs
  | drained k =>
    simp only [hg] at hs
    have hheld : s.held = [k] := by simp [St.held, hg]
    rw [hheld] at wf
    obtain ⟨st, hp, wf', hc, ha, hu, hd, hn⟩ := wf_pushNew s.nextId wf
    simp [hp] at hs; subst hs
    refine ⟨by simpa [St.held, hg] using wf', ?_, ?_, ?_, ?_⟩ <;>
      simp only [DrainInv, MustGoInv, St.stale, St.inHand, St.pending, St.held, hg, hc, ha, hu] at * <;> grind

theorem gPushNew_ok {ar : Bool} {cap : Nat} {s : St} (h : Inv ar cap s) (k : Key) (hg : s.gpc = .drained k) :
    ∃ s', step ar s .gPushNew = some (.ok s') := by
  have wf := h.wf
  have hheld : s.held = [k] := by simp [St.held, hg]
  rw [hheld] at wf
  obtain ⟨st, hp, _⟩ := wf_pushNew s.nextId wf
  simp [step, hg, hp]

theorem inv_mark {ar : Bool} {cap : Nat} {s s' : St} (x : Res) (h : Inv ar cap s)
    (hs : step ar s (.mark x) = some (.ok s')) : Inv ar cap s' := by
  obtain ⟨wf, dr, mg, nh, ub⟩ := h
  simp [step] at hs; subst hs
  refine ⟨by simpa [St.held] using wf, ?_, ?_, ?_, ?_⟩ <;>
      simp only [DrainInv, MustGoInv, St.stale, St.inHand, St.pending, St.held] at * <;> grind

end K.Hand
