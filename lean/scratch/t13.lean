import KiraModel.Proofs.HandLemmas
namespace K
namespace Hand
open K.Store

theorem test_of_marked (s : St) (x : Res) (h : x ∈ s.marked) : s.test x = true := by
  simp [St.test, h]

theorem inv_aVisit {ar : Bool} {cap : Nat} {s s' : St} (h : Inv ar cap s)
    (hs : step ar s .aVisit = some (.ok s')) : Inv ar cap s' := by
  obtain ⟨wf, dr, mg, nh, ub⟩ := h
  simp only [step] at hs
  cases ha : s.apc with
  | idle => simp [ha] at hs
  | adding => simp [ha] at hs
  | draining r hnd =>
    cases hnd with
    | some y => simp [ha] at hs
    | none =>
    cases r with
    | nil => simp [ha] at hs
    | cons i rest =>
      simp only [ha] at hs
      simp only [DrainInv, ha] at dr
      obtain ⟨hnd, hall⟩ := dr
      have hi : i ∈ s.store.arena.order := hall i (by simp)
      have spec := wf_drainVisit s.test wf hi
      have hnd' := List.nodup_cons.mp hnd
      cases hv : s.store.drainVisit s.test i with
      | error e => simp [hv, VisitSpec] at spec
      | ok p =>
        obtain ⟨xo, st⟩ := p
        cases xo with
        | none =>
          simp only [hv, VisitSpec] at spec hs
          obtain ⟨rfl, sl, d, hsl, hd, htd⟩ := spec
          simp at hs; subst hs
          refine ⟨by simpa [St.held] using wf, ?_, ?_, ?_, ?_⟩
          · simp only [DrainInv]; exact ⟨hnd'.2, fun j hj => hall j (by simp [hj])⟩
          · intro k hk
            rcases mg k hk with h1 | ⟨r', h', hap, hkr, sl', x', hs', hg', hd', hm'⟩
            · left; exact h1
            · right
              rw [ha] at hap; cases hap
              simp only [List.mem_cons] at hkr
              rcases hkr with hki | hkr
              · exfalso
                rw [hki] at hs'; rw [hsl] at hs'; cases hs'
                rw [hd] at hd'; cases hd'
                rw [test_of_marked s _ hm'] at htd; cases htd
              · exact ⟨_, _, rfl, hkr, sl', x', hs', hg', hd', hm'⟩
          · simp [St.inHand]
          · simpa [St.pending] using ub
        | some x =>
          simp only [hv, VisitSpec] at spec
          obtain ⟨wf', htx, ⟨sl, hsl, hdx⟩, hord, hlen, hn, hu, hdr, hgi, hoth, ⟨sl2, hsl2, hd2⟩⟩ := spec
          have hmg : ∀ st2 : Store Res, st2.ctrl = st.ctrl → st2.arena = st.arena → ∀ hnd2,
              MustGoInv { s with store := st2, apc := .draining rest hnd2 } := by
            intro st2 hc2 ha2 hnd2 k hk
            rcases mg k hk with h1 | ⟨r', h', hap, hkr, sl', x', hs', hg', hd', hm'⟩
            · left
              simp only [St.stale, hc2] at h1 ⊢
              by_cases hki : k.index = i
              · rw [hki, hgi]; rw [hki] at h1; omega
              · rw [(hoth _ hki).1]; exact h1
            · rw [ha] at hap; cases hap
              simp only [List.mem_cons] at hkr
              rcases hkr with hki | hkr
              · left
                simp only [St.stale, hc2]
                rw [hki, hgi]
                have h1 := wf.gens i
                rw [hki] at hs'
                simp [hs', Controller.generation] at h1 ⊢
                cases hcs : s.store.ctrl.slots[i]? with
                | none => simp [hcs] at h1
                | some cs => simp [hcs] at h1 ⊢; omega
              · right
                have hne : k.index ≠ i := by intro e; rw [e] at hkr; exact hnd'.1 hkr
                exact ⟨_, _, rfl, hkr, sl', x', by simpa [ha2, (hoth _ hne).2] using hs', hg', hd', hm'⟩
          have hdr2 : ∀ st2 : Store Res, st2.arena = st.arena → ∀ hnd2,
              DrainInv { s with store := st2, apc := .draining rest hnd2 } := by
            intro st2 ha2 hnd2
            simp only [DrainInv, ha2, hord]
            refine ⟨hnd'.2, fun j hj => ?_⟩
            have hne : j ≠ i := by intro e; rw [e] at hj; exact hnd'.1 hj
            exact (List.mem_erase_of_ne hne).mpr (hall j (by simp [hj]))
          cases ar with
          | false =>
            simp [hv] at hs; subst hs
            exact ⟨by simpa [St.held] using wf', hdr2 st rfl _, hmg st rfl rfl _, by simp, by simp⟩
          | true =>
            simp only [hv, if_true] at hs
            have hub := ub rfl
            have hheld : s.held.length ≥ s.pending := by
              simp only [St.held, St.pending]; cases s.gpc <;> simp
            have hown := wf.ownCount
            have hopos : 0 < s.store.arena.order.length := List.length_pos_of_mem hi
            simp only [ownIdx, List.length_append, List.length_map] at hown
            have hlt : st.unused.items.length < st.unused.cap := by
              rw [hu, wf.ucap]; omega
            obtain ⟨st2, hp⟩ := pushUnused_ok x hlt
            simp [hp] at hs; subst hs
            obtain ⟨wf2, hc2, ha2, hn2, hd2', hit2, _⟩ := wf_pushUnused x wf' hp
            refine ⟨by simpa [St.held] using wf2, hdr2 st2 ha2 _, hmg st2 hc2 ha2 _, by simp [St.inHand], ?_⟩
            intro _
            simp only [hit2, hc2, List.length_append, List.length_cons, List.length_nil, hu, St.pending] at hub ⊢
            omega

end Hand
end K
#print axioms K.Hand.inv_aVisit
