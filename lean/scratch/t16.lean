import KiraModel.Proofs.HandLemmas
namespace K
variable {τ : Type}

theorem filterMap_length_of_all {α β : Type} (f : α → Option β) (l : List α) (h : ∀ a ∈ l, (f a).isSome = true) :
    (l.filterMap f).length = l.length := by
  induction l with
  | nil => rfl
  | cons a t ih =>
    have ha := h a (by simp)
    cases hf : f a with
    | none => simp [hf] at ha
    | some b =>
      rw [List.filterMap_cons_some hf]
      simp [ih (fun x hx => h x (by simp [hx]))]

theorem Arena.mem_iter_snd (a : Arena τ) (x : τ) :
    x ∈ a.iter.map (·.2) ↔ ∃ i ∈ a.order, ∃ sl, a.slots[i]? = some sl ∧ sl.data = some x := by
  simp only [List.mem_map]
  constructor
  · rintro ⟨⟨k, y⟩, hm, rfl⟩
    obtain ⟨hi, sl, hsl, hd, _⟩ := (Arena.mem_iter a k y).mp hm
    exact ⟨k.index, hi, sl, hsl, hd⟩
  · rintro ⟨i, hi, sl, hsl, hd⟩
    exact ⟨(⟨i, sl.generation⟩, x), (Arena.mem_iter a _ _).mpr ⟨hi, sl, hsl, hd, rfl⟩, rfl⟩

theorem Store.iter_length {cap : Nat} {held : List Key} {s : Store τ} (h : Store.WF cap held s) :
    s.arena.iter.length = s.arena.order.length := by
  unfold Arena.iter
  apply filterMap_length_of_all
  intro i hi
  obtain ⟨sl, hsl, hd⟩ := (h.occ i).mp hi
  simp only [hsl]
  cases hdd : sl.data with
  | none => simp [hdd] at hd
  | some d => simp

theorem Store.stale_get? {cap : Nat} {held : List Key} {s : Store τ} (h : Store.WF cap held s) (k : Key)
    (hst : k.generation < s.ctrl.generation k.index) : s.arena.get? k = none := by
  have hg := h.gens k.index
  simp only [Arena.get?]
  cases hsl : s.arena.slots[k.index]? with
  | none => rfl
  | some sl =>
    simp only [hsl, Controller.generation] at hg hst ⊢
    cases hc : s.ctrl.slots[k.index]? with
    | none => simp [hc] at hg
    | some c =>
      simp [hc] at hg hst
      have : sl.generation ≠ k.generation := by omega
      simp [this]

end K
