import KiraModel.Proofs.StoreLemmas
namespace K.Store
variable {τ : Type}

theorem own_length_le {cap : Nat} {held : List Key} {s : Store τ} (h : WF cap held s) :
    (ownIdx held s).length ≤ cap := by
  have := h.count; have := h.ownCount; omega

theorem wf_popUnused {cap : Nat} {held : List Key} {s s' : Store τ} (h : WF cap held s)
    (hs : s.popUnused = some s') : WF cap held s' ∧ s'.ctrl = s.ctrl ∧ s'.arena = s.arena ∧ s'.newRing = s.newRing
      ∧ s'.unused.items.length + 1 = s.unused.items.length := by
  obtain ⟨cs, as, nc, uc, fn, fo, cnt, on, oo, oc, occ, gens, hg, ng⟩ := h
  cases hit : s.unused.items with
  | nil => simp [popUnused, Ring.pop, hit] at hs
  | cons x r =>
    simp [popUnused, Ring.pop, hit] at hs
    subst hs
    exact ⟨⟨cs, as, nc, uc, fn, fo, cnt, on, oo, oc, occ, gens, hg, ng⟩, rfl, rfl, rfl, by simp⟩

theorem popUnused_none {s : Store τ} (hs : s.popUnused = none) : s.unused.items = [] := by
  cases hit : s.unused.items with
  | nil => rfl
  | cons x r => simp [popUnused, Ring.pop, hit] at hs

theorem wf_pushNew {cap : Nat} {k : Key} {held : List Key} {s : Store τ} (x : τ) (h : WF cap (k :: held) s) :
    ∃ s', s.pushNew k x = .ok s' ∧ WF cap held s' ∧ s'.ctrl = s.ctrl ∧ s'.arena = s.arena ∧ s'.unused = s.unused
      ∧ s'.dropped = s.dropped ∧ s'.newRing.items = s.newRing.items ++ [(k, x)] := by
  have hle := own_length_le h
  obtain ⟨cs, as, nc, uc, fn, fo, cnt, on, oo, oc, occ, gens, hg, ng⟩ := h
  have hlt : s.newRing.items.length < s.newRing.cap := by
    simp only [ownIdx, List.map_cons, List.cons_append, List.length_cons, List.length_append, List.length_map] at hle
    omega
  refine ⟨{ s with newRing := { s.newRing with items := s.newRing.items ++ [(k, x)] } }, ?_, ⟨?_, ?_, ?_, ?_, ?_, ?_, ?_, ?_, ?_, ?_, ?_, ?_, ?_, ?_⟩, rfl, rfl, rfl, rfl, rfl⟩
  · simp [pushNew, Ring.push, hlt]
  all_goals (simp only [Controller.len, Controller.generation, ownIdx, List.map_cons, List.cons_append, List.length_cons, List.length_append, List.map_append, List.length_map, List.mem_append, List.mem_cons, List.mem_map] at *)
  all_goals first | assumption | omega | grind

end K.Store
