import KiraModel.Proofs.HandLemmas
namespace K
namespace Hand
open K.Store

/-- the only panic a reachable state can run into is the unused-ring push of the fine-grained system -/
theorem no_fault {ar : Bool} {cap : Nat} {s : St} {l : Label} {e : SFault} (h : Inv ar cap s)
    (hs : step ar s l = some (.error e)) : ar = false ∧ l = .aPushUnused ∧ e = .queueFull := by
  obtain ⟨wf, dr, mg, nh, ub⟩ := h
  cases l with
  | gReserve =>
    simp only [step] at hs
    cases hg : s.gpc with
    | reserved k => simp [hg] at hs
    | drained k => simp [hg] at hs
    | idle =>
      simp only [hg] at hs
      have hheld : s.held = [] := by simp [St.held, hg]
      rw [hheld] at wf
      have spec := wf_tryReserve wf
      cases hr : s.store.tryReserve with
      | error e => simp [hr, ReserveSpec] at spec
      | ok p =>
        obtain ⟨ko, st⟩ := p
        cases ko <;> simp [hr] at hs
  | gPopUnused =>
    simp only [step] at hs
    cases hg : s.gpc <;> simp [hg] at hs
    cases hp : s.store.popUnused <;> simp [hp] at hs
  | gPushNew =>
    simp only [step] at hs
    cases hg : s.gpc with
    | idle => simp [hg] at hs
    | reserved k => simp [hg] at hs
    | drained k =>
      simp only [hg] at hs
      have hheld : s.held = [k] := by simp [St.held, hg]
      rw [hheld] at wf
      obtain ⟨st, hp, _⟩ := wf_pushNew s.nextId wf
      simp [hp] at hs
  | mark x => simp [step] at hs
  | aBegin =>
    simp only [step] at hs
    cases ha : s.apc <;> simp [ha] at hs
  | aVisit =>
    simp only [step] at hs
    cases ha : s.apc with
    | idle => simp [ha] at hs
    | adding => simp [ha] at hs
    | draining r hnd =>
      cases hnd with
      | some y => simp [ha] at hs
      | none =>
      cases r with
      | nil => simp [ha] at hs
      | cons i rest =>
        simp only [ha] at hs
        simp only [DrainInv, ha] at dr
        obtain ⟨hnd, hall⟩ := dr
        have hi : i ∈ s.store.arena.order := hall i (by simp)
        have spec := wf_drainVisit s.test wf hi
        cases hv : s.store.drainVisit s.test i with
        | error e => simp [hv, VisitSpec] at spec
        | ok p =>
          obtain ⟨xo, st⟩ := p
          cases xo with
          | none => simp [hv] at hs
          | some x =>
            simp only [hv, VisitSpec] at spec
            obtain ⟨wf', htx, ⟨sl, hsl, hdx⟩, hord, hlen, hn, hu, hdr, hgi, hoth, _⟩ := spec
            cases ar with
            | false => simp [hv] at hs
            | true =>
              simp only [hv, if_true] at hs
              have hub := ub rfl
              have hheld : s.held.length ≥ s.pending := by
                simp only [St.held, St.pending]; cases s.gpc <;> simp
              have hown := wf.ownCount
              have hopos : 0 < s.store.arena.order.length := List.length_pos_of_mem hi
              simp only [ownIdx, List.length_append, List.length_map] at hown
              have hlt : st.unused.items.length < st.unused.cap := by
                rw [hu, wf.ucap]; omega
              obtain ⟨st2, hp⟩ := pushUnused_ok x hlt
              simp [hp] at hs
  | aPushUnused =>
    simp only [step] at hs
    cases ha : s.apc with
    | idle => simp [ha] at hs
    | adding => simp [ha] at hs
    | draining r hnd =>
      cases hnd with
      | none => simp [ha] at hs
      | some x =>
        simp only [ha] at hs
        cases ar with
        | true => have := nh rfl; simp [St.inHand, ha] at this
        | false =>
          refine ⟨rfl, rfl, ?_⟩
          cases hp : s.store.pushUnused x with
          | ok st => simp [hp] at hs
          | error e' =>
            simp [hp] at hs; subst hs
            simp only [pushUnused] at hp
            cases hq : s.store.unused.push x <;> simp [hq] at hp
            exact hp.symm
  | aEndDrain =>
    simp only [step] at hs
    cases ha : s.apc with
    | idle => simp [ha] at hs
    | adding => simp [ha] at hs
    | draining r hnd => cases hnd <;> cases r <;> simp [ha] at hs
  | aPopNew =>
    simp only [step] at hs
    cases ha : s.apc with
    | idle => simp [ha] at hs
    | draining r hnd => simp [ha] at hs
    | adding =>
      simp only [ha] at hs
      have spec := wf_popNewInsert wf
      cases hp : s.store.popNewInsert with
      | error e => simp [hp, PopNewSpec] at spec
      | ok p =>
        obtain ⟨ko, st⟩ := p
        cases ko <;> simp [hp] at hs

end Hand
end K
