import KiraModel.Model.Conc.ResourceHandshake
open K K.Hand
def witness : List Label :=
  [ .gReserve, .gPopUnused, .gPushNew,            -- create A
    .aBegin, .aEndDrain, .aPopNew, .aPopNew,      -- callback 1: A enters the arena
    .mark 0,                                      -- A's handle dropped
    .aBegin, .aVisit,                             -- callback 2: A taken out of the arena (slot freed) …
    .gReserve, .gPopUnused,                       -- … gameplay reserves the slot and drains (nothing yet)
    .aPushUnused, .aEndDrain,                     -- … A pushed to the unused ring
    .gPushNew,                                    -- B shipped
    .aPopNew, .aPopNew,                           -- B enters the arena
    .mark 1,
    .aBegin, .aVisit, .aPushUnused ]              -- callback 3: B removed; unused ring still holds A
#eval run false (init 1) witness
#eval run true (init 1) witness
#eval run false (init 1) (witness.take 18) 
example : run false (init 1) witness = .error .queueFull := by decide
