import KiraModel.Proofs.StoreLemmas
namespace K.SelfStore
open K.Store
variable {τ : Type}

/-- `keys` lists exactly the occupied slots, each once, with the generation under which it resolves -/
structure SWF (cap : Nat) (held : List Key) (ss : SelfStore τ) : Prop where
  base : WF cap held ss.base
  nodup : (ss.keys.map (·.index)).Nodup
  mem : ∀ i, i ∈ ss.keys.map (·.index) ↔ i ∈ ss.base.arena.order
  gen : ∀ k ∈ ss.keys, ∃ sl, ss.base.arena.slots[k.index]? = some sl ∧ sl.generation = k.generation

theorem swf_new (cap : Nat) (h : 0 < cap) (d : τ) : SWF cap [] (SelfStore.new cap d) :=
  ⟨wf_new cap h, by simp [SelfStore.new], by simp [SelfStore.new, Store.new, Arena.new], by simp [SelfStore.new]⟩

/-- removal through a key whose slot is occupied under that generation = one drain visit that removes -/
theorem remove_eq_visit {cap : Nat} {held : List Key} {s : Store τ} (wf : WF cap held s) (k : Key)
    (hk : k.index ∈ s.arena.order) (sl : ASlot τ) (hsl : s.arena.slots[k.index]? = some sl)
    (hg : sl.generation = k.generation) :
    ∃ x st, s.arena.remove s.ctrl k = .ok (some x, st.arena, st.ctrl) ∧ sl.data = some x
      ∧ WF cap held st ∧ st.arena.order = s.arena.order.erase k.index ∧ st.newRing = s.newRing
      ∧ st.unused = s.unused ∧ st.dropped = s.dropped
      ∧ (∀ j, j ≠ k.index → st.arena.slots[j]? = s.arena.slots[j]?)
      ∧ (∃ sl', st.arena.slots[k.index]? = some sl' ∧ sl'.data = none)
      ∧ st = { s with arena := st.arena, ctrl := st.ctrl } := by
  have spec := wf_drainVisit (fun _ => true) wf hk
  obtain ⟨sl0, hsl0, hd0⟩ := (wf.occ k.index).mp hk
  rw [hsl] at hsl0; cases hsl0
  cases hd : sl.data with
  | none => simp [hd] at hd0
  | some d =>
    simp only [drainVisit, hsl, hd, if_true] at spec
    cases hr : s.arena.removeFromSlot s.ctrl k.index with
    | error e => simp [hr, VisitSpec] at spec
    | ok p =>
      obtain ⟨xo, a, c⟩ := p
      simp only [hr] at spec
      cases xo with
      | none =>
        simp only [VisitSpec] at spec
        obtain ⟨_, sl1, d1, h1, h2, h3⟩ := spec
        simp at h3
      | some x =>
        simp only [VisitSpec] at spec
        obtain ⟨wf', _, ⟨sl1, hsl1, hdx⟩, hord, _, hn, hu, hdr, _, hoth, hfree⟩ := spec
        rw [hsl] at hsl1; cases hsl1
        refine ⟨x, { s with arena := a, ctrl := c }, ?_, by rw [hd] at hdx; exact hdx ▸ rfl, wf', hord, rfl, rfl, rfl,
          fun j hj => (hoth j hj).2, hfree, rfl⟩
        simp [Arena.remove, hsl, hg, hr]


/-- flagged: the resource under key `k` passes the remove test -/
def Flagged (test : τ → Bool) (s : Store τ) (k : Key) : Prop :=
  ∃ sl d, s.arena.slots[k.index]? = some sl ∧ sl.data = some d ∧ test d = true

theorem wf_removeUnused (test : τ → Bool) {cap : Nat} {held : List Key} :
    ∀ (l : List Key) (s : Store τ), WF cap held s → (l.map (·.index)).Nodup →
      (∀ k ∈ l, k.index ∈ s.arena.order ∧ ∃ sl, s.arena.slots[k.index]? = some sl ∧ sl.generation = k.generation) →
      ∃ ks s1, removeUnused test l s = .ok (ks, s1) ∧ WF cap held s1 ∧ ks.Sublist l ∧ s1.newRing = s.newRing
        ∧ s1.dropped = s.dropped
        ∧ (∀ j, j ∉ l.map (·.index) → s1.arena.slots[j]? = s.arena.slots[j]?)
        ∧ (∀ i, i ∈ s1.arena.order ↔ i ∈ s.arena.order ∧ (i ∈ l.map (·.index) → i ∈ ks.map (·.index)))
        ∧ (∀ k ∈ ks, ∃ sl, s1.arena.slots[k.index]? = some sl ∧ sl.generation = k.generation)
        ∧ (∀ k ∈ l, k ∉ ks → Flagged test s k)
        ∧ (∀ k ∈ ks, Flagged test s k → s1.unused.isFull = true) := by
  intro l
  induction l with
  | nil =>
    intro s wf _ _
    exact ⟨[], s, rfl, wf, List.Sublist.refl _, rfl, rfl, fun _ _ => rfl, by simp, by simp, by simp, by simp⟩
  | cons k rest ih =>
    intro s wf hnd hall
    simp only [List.map_cons, List.nodup_cons] at hnd
    obtain ⟨hk, sl, hsl, hg⟩ := hall k (by simp)
    have hrest : ∀ q ∈ rest, q.index ≠ k.index := by
      intro q hq e; exact hnd.1 (List.mem_map.mpr ⟨q, hq, e⟩)
    by_cases hfull : s.unused.isFull = true
    · -- the ring is full: the loop stops, nothing changes
      refine ⟨k :: rest, s, by simp [removeUnused, hfull], wf, List.Sublist.refl _, rfl, rfl, fun _ _ => rfl, ?_, ?_, ?_,
        fun _ _ _ => hfull⟩
      · intro i; simp
      · intro q hq; exact (hall q hq).2
      · intro q hq hn; exact absurd hq hn
    · obtain ⟨sl0, hsl0, hd0⟩ := (wf.occ k.index).mp hk
      rw [hsl] at hsl0; cases hsl0
      cases hd : sl.data with
      | none => simp [hd] at hd0
      | some d =>
        have hget : s.arena.get k = .ok (some d) := by simp [Arena.get, hsl, hg, hd]
        by_cases ht : test d = true
        · -- removed
          obtain ⟨x, st, hrem, hdx, wf', hord, hn, hu, hdr, hoth, hfree, hst⟩ := remove_eq_visit wf k hk sl hsl hg
          have hlt : st.unused.items.length < st.unused.cap := by
            rw [hu]; simpa [Ring.isFull] using hfull
          obtain ⟨st2, hp⟩ := pushUnused_ok x hlt
          obtain ⟨wf2, hc2, ha2, hn2, hd2, hit2, _⟩ := wf_pushUnused x wf' hp
          have hond := order_nodup' wf
          have hall2 : ∀ q ∈ rest, q.index ∈ st2.arena.order ∧
              ∃ sl, st2.arena.slots[q.index]? = some sl ∧ sl.generation = q.generation := by
            intro q hq
            obtain ⟨h1, h2⟩ := hall q (by simp [hq])
            rw [ha2, hord, hoth _ (hrest q hq)]
            exact ⟨(List.mem_erase_of_ne (hrest q hq)).mpr h1, h2⟩
          obtain ⟨ks, s1, hr, wf1, hsub, hn1, hdr1, hsame, hordiff, hgen, hflag, hfl⟩ := ih st2 wf2 hnd.2 hall2
          refine ⟨ks, s1, ?_, wf1, hsub.cons k, by rw [hn1, hn2, hn], by rw [hdr1, hd2, hdr], ?_, ?_, hgen, ?_, ?_⟩
          · simp only [removeUnused, hfull, hget, ht, hrem, if_true, Bool.false_eq_true, if_false]
            rw [← hst, hp]; exact hr
          · intro j hj
            simp only [List.map_cons, List.mem_cons, not_or] at hj
            rw [hsame j hj.2, ha2, hoth j hj.1]
          · intro i
            rw [hordiff i, ha2, hord, hond.mem_erase_iff]
            simp only [List.map_cons, List.mem_cons]
            constructor
            · rintro ⟨⟨hne, hin⟩, himp⟩
              exact ⟨hin, fun h => by rcases h with h | h; exact absurd h hne; exact himp h⟩
            · rintro ⟨hin, himp⟩
              have hne : i ≠ k.index := by
                intro e
                have := himp (Or.inl e)
                obtain ⟨q, hq, hqe⟩ := List.mem_map.mp this
                exact hrest q (hsub.subset hq) (hqe.trans e)
              exact ⟨⟨hne, hin⟩, fun h => himp (Or.inr h)⟩
          · intro q hq hnq
            simp only [List.mem_cons] at hq
            rcases hq with rfl | hq
            · exact ⟨sl, d, hsl, hd, ht⟩
            · obtain ⟨slq, dq, h1, h2, h3⟩ := hflag q hq hnq
              exact ⟨slq, dq, by rw [← hoth _ (hrest q hq), ← ha2]; exact h1, h2, h3⟩
          · intro q hq hfq
            apply hfl q hq
            obtain ⟨slq, dq, h1, h2, h3⟩ := hfq
            have hqr := hsub.subset hq
            exact ⟨slq, dq, by rw [ha2, hoth _ (hrest q hqr)]; exact h1, h2, h3⟩
        · -- kept
          have hall2 : ∀ q ∈ rest, q.index ∈ s.arena.order ∧
              ∃ sl, s.arena.slots[q.index]? = some sl ∧ sl.generation = q.generation :=
            fun q hq => hall q (by simp [hq])
          obtain ⟨ks, s1, hr, wf1, hsub, hn1, hdr1, hsame, hordiff, hgen, hflag, hfl⟩ := ih s wf hnd.2 hall2
          refine ⟨k :: ks, s1, ?_, wf1, hsub.cons_cons k, hn1, hdr1, ?_, ?_, ?_, ?_, ?_⟩
          · simp [removeUnused, hfull, hget, ht, hr]
          · intro j hj
            simp only [List.map_cons, List.mem_cons, not_or] at hj
            exact hsame j hj.2
          · intro i
            rw [hordiff i]
            simp only [List.map_cons, List.mem_cons]
            constructor
            · rintro ⟨hin, himp⟩
              exact ⟨hin, fun h => by rcases h with h | h; exact Or.inl h; exact Or.inr (himp h)⟩
            · rintro ⟨hin, himp⟩
              refine ⟨hin, fun h => ?_⟩
              rcases himp (Or.inr h) with h' | h'
              · obtain ⟨q, hq, hqe⟩ := List.mem_map.mp h
                exact absurd (hqe.trans h') (hrest q hq)
              · exact h'
          · intro q hq
            simp only [List.mem_cons] at hq
            rcases hq with rfl | hq
            · have : q.index ∉ rest.map (·.index) := hnd.1
              rw [hsame q.index this]; exact ⟨sl, hsl, hg⟩
            · exact hgen q hq
          · intro q hq hnq
            simp only [List.mem_cons, not_or] at hq hnq
            rcases hq with rfl | hq
            · exact absurd rfl hnq.1
            · exact hflag q hq hnq.2
          · intro q hq hfq
            simp only [List.mem_cons] at hq
            rcases hq with rfl | hq
            · obtain ⟨slq, dq, h1, h2, h3⟩ := hfq
              rw [hsl] at h1; cases h1; rw [hd] at h2; cases h2; exact absurd h3 ht
            · exact hfl q hq hfq

end K.SelfStore
