import KiraModel.Proofs.SelfStoreLemmas
namespace K
variable {τ : Type}

theorem filterMap_congr' {α β : Type} (f g : α → Option β) (l : List α) (h : ∀ x ∈ l, f x = g x) :
    l.filterMap f = l.filterMap g := by
  induction l with
  | nil => rfl
  | cons a t ih =>
    simp only [List.filterMap_cons, h a (by simp)]
    rw [ih (fun x hx => h x (by simp [hx]))]

/-- the resource stored in slot `i`, if any -/
def Arena.dataAt (a : Arena τ) (i : Nat) : Option τ := (a.slots[i]?).bind (·.data)

theorem Arena.setData_spec (a : Arena τ) (i : Nat) (d : τ) (sl : ASlot τ) (h : a.slots[i]? = some sl) :
    (a.setData i d).slots[i]? = some { sl with data := some d }
    ∧ (∀ j, j ≠ i → (a.setData i d).slots[j]? = a.slots[j]?)
    ∧ (a.setData i d).order = a.order ∧ (a.setData i d).slots.length = a.slots.length := by
  have hi := Store.getElem?_lt h
  simp only [Arena.setData, h]
  refine ⟨by simp [hi], fun j hj => ?_, trivial, by simp⟩
  simp [Ne.symm hj]

namespace SelfStore
open K.Store

/-- same shape: same order, same slot generations, same occupancy -/
def SameShape (a a' : Arena τ) : Prop :=
  a'.order = a.order ∧ a'.slots.length = a.slots.length
  ∧ ∀ j : Nat, (a'.slots[j]?).map ASlot.generation = (a.slots[j]?).map ASlot.generation
      ∧ (a'.dataAt j).isSome = (a.dataAt j).isSome

theorem SameShape.refl (a : Arena τ) : SameShape a a := ⟨rfl, rfl, fun _ => ⟨rfl, rfl⟩⟩

theorem SameShape.trans {a b c : Arena τ} (h1 : SameShape a b) (h2 : SameShape b c) : SameShape a c :=
  ⟨h2.1.trans h1.1, h2.2.1.trans h1.2.1, fun j => ⟨(h2.2.2 j).1.trans (h1.2.2 j).1, (h2.2.2 j).2.trans (h1.2.2 j).2⟩⟩

theorem wf_sameShape {cap : Nat} {held : List Key} {s : Store τ} (wf : WF cap held s) {a' : Arena τ}
    (h : SameShape s.arena a') : WF cap held { s with arena := a' } := by
  obtain ⟨cs, as, nc, uc, fn, fo, cnt, on, oo, oc, occ, gens, hg, ng⟩ := wf
  obtain ⟨ho, hl, hj⟩ := h
  refine ⟨cs, by rw [← as]; exact hl, nc, uc, fn, fo, cnt, ?_, ?_, ?_, ?_, ?_, hg, ng⟩
  · simpa [ownIdx, ho] using on
  · simpa [ownIdx, ho] using oo
  · simpa [ownIdx, ho] using oc
  · intro i
    simp only [ho]
    rw [occ i]
    have := (hj i).2
    simp only [Arena.dataAt] at this
    constructor
    · rintro ⟨sl, hsl, hd⟩
      cases hs' : a'.slots[i]? with
      | none => simp [hs', hsl] at this; simp [this] at hd
      | some sl' => exact ⟨sl', rfl, by simpa [hs', hsl, hd] using this⟩
    · rintro ⟨sl', hsl', hd'⟩
      cases hs : s.arena.slots[i]? with
      | none => simp [hs, hsl'] at this; simp [this] at hd'
      | some sl => exact ⟨sl, rfl, by simpa [hs, hsl', hd'] using this.symm⟩
  · intro i; rw [(hj i).1]; exact gens i

/-- one visit: the resource is handed to `f`, its own key resolves to the dummy meanwhile, the slot
    gets the (possibly modified) resource back, nothing else changes -/
theorem visit_spec (f : τ → Arena τ → τ) (dummy : τ) (a : Arena τ) (k : Key) (sl : ASlot τ) (d : τ)
    (hsl : a.slots[k.index]? = some sl) (hg : sl.generation = k.generation) (hd : sl.data = some d) :
    ∃ a' d', visit f dummy a k = .ok (a', (d, some dummy)) ∧ SameShape a a'
      ∧ a'.slots[k.index]? = some { sl with data := some d' }
      ∧ (∀ j, j ≠ k.index → a'.slots[j]? = a.slots[j]?) := by
  obtain ⟨h1, h2, h3, h4⟩ := Arena.setData_spec a k.index dummy sl hsl
  obtain ⟨g1, g2, g3, g4⟩ := Arena.setData_spec (a.setData k.index dummy) k.index
    (f d (a.setData k.index dummy)) _ h1
  refine ⟨_, f d (a.setData k.index dummy), ?_, ⟨by rw [g3, h3], by rw [g4, h4], fun j => ?_⟩, by simpa using g1,
    fun j hj => by rw [g2 j hj, h2 j hj]⟩
  · simp [visit, Arena.get, hsl, hg, hd, Arena.get?, h1]
  · by_cases hj : j = k.index
    · subst hj; simp [Arena.dataAt, g1, hsl, hd]
    · simp [Arena.dataAt, g2 j hj, h2 j hj]

theorem forEachLoop_spec (f : τ → Arena τ → τ) (dummy : τ) :
    ∀ (l : List Key) (a : Arena τ), (l.map (·.index)).Nodup →
      (∀ k ∈ l, ∃ sl d, a.slots[k.index]? = some sl ∧ sl.generation = k.generation ∧ sl.data = some d) →
      ∃ a' vs, forEachLoop f dummy l a = .ok (a', vs) ∧ SameShape a a'
        ∧ vs.map (·.1) = l.filterMap (fun k => a.dataAt k.index) ∧ vs.length = l.length
        ∧ (∀ v ∈ vs, v.2 = some dummy)
        ∧ (∀ j, j ∉ l.map (·.index) → a'.slots[j]? = a.slots[j]?) := by
  intro l
  induction l with
  | nil => intro a _ _; exact ⟨a, [], rfl, SameShape.refl a, rfl, rfl, by simp, fun _ _ => rfl⟩
  | cons k rest ih =>
    intro a hnd hocc
    simp only [List.map_cons, List.nodup_cons] at hnd
    obtain ⟨sl, d, hsl, hg, hd⟩ := hocc k (by simp)
    obtain ⟨a1, d', hv, hsh, hk1, hoth⟩ := visit_spec f dummy a k sl d hsl hg hd
    have hrest : ∀ q ∈ rest, q.index ≠ k.index := fun q hq e => hnd.1 (List.mem_map.mpr ⟨q, hq, e⟩)
    have hocc1 : ∀ q ∈ rest, ∃ sl d, a1.slots[q.index]? = some sl ∧ sl.generation = q.generation ∧ sl.data = some d := by
      intro q hq
      rw [hoth _ (hrest q hq)]; exact hocc q (by simp [hq])
    obtain ⟨a2, vs, hr, hsh2, hvs, hlen, hdum, hsame⟩ := ih a1 hnd.2 hocc1
    refine ⟨a2, (d, some dummy) :: vs, by simp [forEachLoop, hv, hr], hsh.trans hsh2, ?_, by simp [hlen], ?_, ?_⟩
    · simp only [List.map_cons, hvs]
      have hk : a.dataAt k.index = some d := by simp [Arena.dataAt, hsl, hd]
      simp only [List.filterMap_cons, hk]
      congr 1
      apply filterMap_congr'
      intro q hq
      simp [Arena.dataAt, hoth _ (hrest q hq)]
    · intro v hv'
      simp only [List.mem_cons] at hv'
      rcases hv' with rfl | hv'
      · rfl
      · exact hdum v hv'
    · intro j hj
      simp only [List.map_cons, List.mem_cons, not_or] at hj
      rw [hsame j hj.2, hoth j hj.1]

theorem swf_forEach (f : τ → Arena τ → τ) {cap : Nat} {held : List Key} {ss : SelfStore τ} (h : SWF cap held ss) :
    ∃ ss' vs, ss.forEach f = .ok (ss', vs) ∧ SWF cap held ss' ∧ ss'.keys = ss.keys ∧ ss'.dummy = ss.dummy
      ∧ vs.length = ss.base.arena.order.length
      ∧ vs.map (·.1) = ss.keys.filterMap (fun k => ss.base.arena.dataAt k.index)
      ∧ (∀ v ∈ vs, v.2 = some ss.dummy) := by
  obtain ⟨wf, nd, mem, gen⟩ := h
  have hocc : ∀ k ∈ ss.keys, ∃ sl d, ss.base.arena.slots[k.index]? = some sl ∧ sl.generation = k.generation
      ∧ sl.data = some d := by
    intro k hk
    obtain ⟨sl, hsl, hg⟩ := gen k hk
    obtain ⟨sl', hsl', hd'⟩ := (wf.occ k.index).mp ((mem k.index).mp (List.mem_map.mpr ⟨k, hk, rfl⟩))
    rw [hsl] at hsl'; cases hsl'
    cases hd : sl.data with
    | none => simp [hd] at hd'
    | some d => exact ⟨sl, d, hsl, hg, hd⟩
  obtain ⟨a', vs, hr, hsh, hvs, hlen, hdum, hsame⟩ := forEachLoop_spec f ss.dummy ss.keys ss.base.arena nd hocc
  have hklen : ss.keys.length = ss.base.arena.order.length := by
    have h1 : (ss.keys.map (·.index)).length = ss.base.arena.order.length := by
      apply Nat.le_antisymm
      · exact nd.length_le_of_subset (fun i hi => (mem i).mp hi)
      · exact (order_nodup' wf).length_le_of_subset (fun i hi => (mem i).mpr hi)
    simpa using h1
  refine ⟨{ ss with base := { ss.base with arena := a' } }, vs, by simp [forEach, hr],
    ⟨wf_sameShape wf hsh, nd, by intro i; rw [mem i]; simp [hsh.1], ?_⟩, rfl, rfl, by rw [hlen, hklen], hvs, hdum⟩
  intro k hk
  obtain ⟨sl, hsl, hg⟩ := gen k hk
  have := (hsh.2.2 k.index).1
  simp only [hsl, Option.map_some] at this
  cases hs' : a'.slots[k.index]? with
  | none => simp [hs'] at this
  | some sl' => simp [hs'] at this; exact ⟨sl', rfl, by rw [this, hg]⟩

end SelfStore
end K
