import KiraModel.Proofs.StoreLemmas
namespace K.Store
variable {τ : Type}

theorem getElem?_lt {α : Type} {l : List α} {i : Nat} {x : α} (h : l[i]? = some x) : i < l.length := by
  rcases Nat.lt_or_ge i l.length with h' | h'
  · exact h'
  · simp [List.getElem?_eq_none h'] at h

theorem len_set (c : Controller) (i : Nat) (sl sl' : CSlot) (h : c.slots[i]? = some sl) :
    (c.slots.set i sl').countP (fun s => !s.free)
      = (c.len - if !sl.free then 1 else 0) + if !sl'.free then 1 else 0 := by
  have hi := getElem?_lt h
  rw [List.countP_set hi]
  have : c.slots[i] = sl := by
    rw [List.getElem?_eq_getElem hi] at h; simpa using h
  simp [this, Controller.len]

/-- what a successful / unsuccessful `try_reserve` does to a well-formed store -/
def ReserveSpec (cap : Nat) (held : List Key) (s : Store τ) : Except SFault (Option Key × Store τ) → Prop
  | .error _ => False
  | .ok (none, s') => s' = s ∧ s.ctrl.len = cap
  | .ok (some k, s') =>
      WF cap (k :: held) s' ∧ s.ctrl.len < cap ∧ s'.ctrl.len = s.ctrl.len + 1 ∧ k.index < cap
      ∧ k.generation = s.ctrl.generation k.index ∧ (∀ j, s'.ctrl.generation j = s.ctrl.generation j)
      ∧ s'.arena = s.arena ∧ s'.newRing = s.newRing ∧ s'.unused = s.unused ∧ s'.dropped = s.dropped
      ∧ k.index ∉ ownIdx held s

theorem wf_tryReserve {cap : Nat} {held : List Key} {s : Store τ} (h : WF cap held s) :
    ReserveSpec cap held s s.tryReserve := by
  obtain ⟨cs, as, nc, uc, fn, fo, cnt, on, oo, oc, occ, gens, hg, ng⟩ := h
  cases hfl : s.ctrl.freeList with
  | nil =>
    simp [hfl] at cnt
    simp [tryReserve, Controller.tryReserve, hfl, ReserveSpec, cnt]
  | cons i rest =>
    obtain ⟨sl, hsl, hfree⟩ := fo i (by simp [hfl])
    have hi : i < cap := by have := getElem?_lt hsl; omega
    have hlen := len_set s.ctrl i sl { sl with free := false } hsl
    simp [hfree] at hlen
    simp [hfl] at cnt fn
    have hnot : i ∉ ownIdx held s := by
      intro hmem
      obtain ⟨sl2, h2, hf2⟩ := oo i hmem
      rw [hsl] at h2; cases h2; simp [hfree] at hf2
    simp only [tryReserve, Controller.tryReserve, hfl, hsl, ReserveSpec]
    have hil := getElem?_lt hsl
    refine ⟨⟨?_, ?_, ?_, ?_, ?_, ?_, ?_, ?_, ?_, ?_, ?_, ?_, ?_, ?_⟩, by omega, ?_, hi, ?_, ?_, trivial, trivial, trivial, trivial, hnot⟩
    all_goals (simp only [Controller.len, Controller.generation, ownIdx, List.map_cons, List.cons_append, List.length_cons, List.length_set] at *)
    all_goals first | assumption | omega | grind

end K.Store
