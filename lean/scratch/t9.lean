import KiraModel.Proofs.StoreLemmas
namespace K.Store
variable {τ : Type}

/-- what one iteration of the pop-new loop does -/
def PopNewSpec (cap : Nat) (held : List Key) (s : Store τ) : Except SFault (Option Key × Store τ) → Prop
  | .error _ => False
  | .ok (none, s') => s' = s ∧ s.newRing.items = []
  | .ok (some k, s') =>
      WF cap held s' ∧ s'.ctrl = s.ctrl ∧ s'.unused = s.unused ∧ s'.dropped = s.dropped
      ∧ s'.arena.order = k.index :: s.arena.order
      ∧ ∃ x rest, s.newRing.items = (k, x) :: rest ∧ s'.newRing.items = rest
          ∧ s'.arena.slots[k.index]? = some ⟨some x, k.generation⟩
          ∧ (∀ j, j ≠ k.index → s'.arena.slots[j]? = s.arena.slots[j]?)

theorem wf_popNewInsert {cap : Nat} {held : List Key} {s : Store τ} (h : WF cap held s) :
    PopNewSpec cap held s s.popNewInsert := by
  obtain ⟨cs, as, nc, uc, fn, fo, cnt, on, oo, oc, occ, gens, hg, ng⟩ := h
  cases hit : s.newRing.items with
  | nil => simp [popNewInsert, Ring.pop, hit, PopNewSpec]
  | cons p rest =>
    obtain ⟨k, x⟩ := p
    have hown : k.index ∈ ownIdx held s := by simp [ownIdx, hit]
    obtain ⟨csl, hcsl, hcf⟩ := oo _ hown
    have hil := getElem?_lt hcsl
    have hial : k.index < s.arena.slots.length := by omega
    have hgen := ng (k, x) (by simp [hit])
    have hg2 := gens k.index
    obtain ⟨sl, hsl⟩ : ∃ sl, s.arena.slots[k.index]? = some sl := ⟨_, List.getElem?_eq_getElem hial⟩
    have hnot : k.index ∉ s.arena.order := by
      simp only [ownIdx, hit, List.map_cons, List.nodup_append, List.mem_append, List.mem_cons] at on
      grind
    have hdata : sl.data = none := by
      cases hd : sl.data with
      | none => rfl
      | some d => exact absurd ((occ k.index).mpr ⟨sl, hsl, by simp [hd]⟩) hnot
    have hslg : sl.generation = k.generation := by
      simp [hsl, hcsl, Controller.generation] at hg2 hgen; omega
    simp only [popNewInsert, Ring.pop, hit, Arena.insertWithKey, hsl, hslg, hdata, PopNewSpec]
    simp
    refine ⟨⟨?_, ?_, ?_, ?_, ?_, ?_, ?_, ?_, ?_, ?_, ?_, ?_, ?_, ?_⟩, ?_, ?_⟩
    all_goals (simp only [Controller.len, Controller.generation, ownIdx, List.length_cons, List.length_append, List.length_map, List.mem_append, List.mem_cons, List.mem_map, List.length_set, hit, List.map_cons, List.nodup_append, List.nodup_cons] at *)
    all_goals first | assumption | omega | grind

theorem wf_pushUnused {cap : Nat} {held : List Key} {s : Store τ} (x : τ) (h : WF cap held s)
    (hlt : s.unused.items.length < cap) :
    ∃ s', s.pushUnused x = .ok s' ∧ WF cap held s' ∧ s'.ctrl = s.ctrl ∧ s'.arena = s.arena ∧ s'.newRing = s.newRing
      ∧ s'.dropped = s.dropped ∧ s'.unused.items = s.unused.items ++ [x] := by
  obtain ⟨cs, as, nc, uc, fn, fo, cnt, on, oo, oc, occ, gens, hg, ng⟩ := h
  refine ⟨{ s with unused := { s.unused with items := s.unused.items ++ [x] } }, ?_,
    ⟨cs, as, nc, uc, fn, fo, cnt, on, oo, oc, occ, gens, hg, ng⟩, rfl, rfl, rfl, rfl, rfl⟩
  have : s.unused.items.length < s.unused.cap := by omega
  simp [pushUnused, Ring.push, this]

theorem pushUnused_full {s : Store τ} (x : τ) (h : s.unused.cap ≤ s.unused.items.length) :
    s.pushUnused x = .error .queueFull := by
  have : ¬ s.unused.items.length < s.unused.cap := by omega
  simp [pushUnused, Ring.push, this]

end K.Store
