import KiraModel.Proofs.ChanLemmas
namespace K.Chan
variable {V : Type}

theorem inv_step (s s' : St V) (l : Label V) (r : Ret V) (h : Inv s) (hs : step s l = some (s', r)) : Inv s' := by
  obtain ⟨p, c, w, db, tg, ol, ri, ds, dp, tp, li, pt, pu⟩ := h
  cases l with
  | wHalf1 v =>
    simp only [step] at hs
    split at hs
    · simp at hs
      obtain ⟨rfl, _⟩ := hs
      refine ⟨?_, ?_, ?_, ?_, ?_, ?_, ?_, ?_, ?_, ?_, ?_, ?_, ?_⟩ <;> simp only [WInv, RInv] at * <;> grind
    · simp at hs
  | wHalf2 =>
    simp only [step] at hs
    split at hs
    · simp at hs
      obtain ⟨rfl, _⟩ := hs
      refine ⟨?_, ?_, ?_, ?_, ?_, ?_, ?_, ?_, ?_, ?_, ?_, ?_, ?_⟩ <;> simp only [WInv, RInv, Cell.full] at * <;> grind
    · simp at hs
  | wPublish =>
    simp only [step] at hs
    split at hs
    · simp at hs
      obtain ⟨rfl, _⟩ := hs
      refine ⟨?_, ?_, ?_, ?_, ?_, ?_, ?_, ?_, ?_, ?_, ?_, ?_, ?_⟩ <;> simp only [WInv, RInv, Cell.full, tagOf] at * <;> grind
    · simp at hs
  | rTest =>
    simp only [step] at hs
    split at hs
    · split at hs
      · simp at hs
        obtain ⟨rfl, _⟩ := hs
        refine ⟨?_, ?_, ?_, ?_, ?_, ?_, ?_, ?_, ?_, ?_, ?_, ?_, ?_⟩ <;> simp only [WInv, RInv, Cell.full, tagOf] at * <;> grind
      · simp at hs
        obtain ⟨rfl, _⟩ := hs
        refine ⟨?_, ?_, ?_, ?_, ?_, ?_, ?_, ?_, ?_, ?_, ?_, ?_, ?_⟩ <;> simp only [WInv, RInv, Cell.full, tagOf] at * <;> grind
    · simp at hs
  | rSwap =>
    simp only [step] at hs
    split at hs
    · simp at hs
      obtain ⟨rfl, _⟩ := hs
      refine ⟨?_, ?_, ?_, ?_, ?_, ?_, ?_, ?_, ?_, ?_, ?_, ?_, ?_⟩ <;> simp only [WInv, RInv, Cell.full, tagOf] at * <;> grind
    · simp at hs
  | rRead1 =>
    simp only [step] at hs
    split at hs
    · simp at hs
      obtain ⟨rfl, _⟩ := hs
      refine ⟨?_, ?_, ?_, ?_, ?_, ?_, ?_, ?_, ?_, ?_, ?_, ?_, ?_⟩ <;> simp only [WInv, RInv, Cell.full, tagOf] at * <;> grind
    · simp at hs
  | rRead2 =>
    simp only [step] at hs
    split at hs
    · simp at hs
      obtain ⟨rfl, _⟩ := hs
      refine ⟨?_, ?_, ?_, ?_, ?_, ?_, ?_, ?_, ?_, ?_, ?_, ?_, ?_⟩ <;> simp only [WInv, RInv, Cell.full, tagOf] at * <;> grind
    · simp at hs

end K.Chan
