import KiraModel.Proofs.StoreLemmas
namespace K.Store
variable {τ : Type}

theorem order_nodup' {cap : Nat} {held : List Key} {s : Store τ} (h : WF cap held s) : s.arena.order.Nodup := by
  have := h.ownNodup
  simp only [ownIdx, List.nodup_append] at this
  exact this.2.1.2.1

/-- the whole drain loop (no interleaving): well-formedness is kept, the new ring is untouched,
    slots outside the visited list are untouched, and every visited slot whose resource passes the
    test ends up free with a bumped generation -/
theorem wf_drainLoop (test : τ → Bool) {cap : Nat} {held : List Key} :
    ∀ (l : List Nat) (s s1 : Store τ), WF cap held s → l.Nodup → (∀ i ∈ l, i ∈ s.arena.order) →
      drainLoop test l s = .ok s1 →
      WF cap held s1 ∧ s1.newRing = s.newRing
      ∧ (∀ j, j ∉ l → s1.arena.slots[j]? = s.arena.slots[j]? ∧ s1.ctrl.generation j = s.ctrl.generation j)
      ∧ (∀ j, s.ctrl.generation j ≤ s1.ctrl.generation j)
      ∧ (∀ i ∈ l, ∀ sl d, s.arena.slots[i]? = some sl → sl.data = some d → test d = true →
            s.ctrl.generation i < s1.ctrl.generation i)
      ∧ (∀ j, j ∈ s1.arena.order → j ∈ s.arena.order) := by
  intro l
  induction l with
  | nil =>
    intro s s1 wf _ _ hs
    simp [drainLoop] at hs; subst hs
    exact ⟨wf, rfl, fun j _ => ⟨rfl, rfl⟩, fun j => Nat.le_refl _, by simp, fun j h => h⟩
  | cons i rest ih =>
    intro s s1 wf hnd hall hs
    have hnd' := List.nodup_cons.mp hnd
    have hi : i ∈ s.arena.order := hall i (by simp)
    have spec := wf_drainVisit test wf hi
    simp only [drainLoop] at hs
    cases hv : s.drainVisit test i with
    | error e => simp [hv, VisitSpec] at spec
    | ok p =>
      obtain ⟨xo, st⟩ := p
      cases xo with
      | none =>
        simp only [hv, VisitSpec] at spec hs
        obtain ⟨rfl, sl0, d0, hsl0, hd0, ht0⟩ := spec
        obtain ⟨wf1, hn1, hsame, hmono, hrem, hsub⟩ := ih st s1 wf hnd'.2 (fun j hj => hall j (by simp [hj])) hs
        refine ⟨wf1, hn1, fun j hj => hsame j (by simp at hj; exact hj.2), hmono, ?_, hsub⟩
        intro j hj sl d hsl hd ht
        simp only [List.mem_cons] at hj
        rcases hj with rfl | hj
        · rw [hsl0] at hsl; cases hsl; rw [hd0] at hd; cases hd; rw [ht0] at ht; cases ht
        · exact hrem j hj sl d hsl hd ht
      | some x =>
        simp only [hv, VisitSpec] at spec hs
        obtain ⟨wf', htx, ⟨sl, hsl, hdx⟩, hord, hlen, hn, hu, hdr, hgi, hoth, _⟩ := spec
        cases hp : st.pushUnused x with
        | error e => simp [hp] at hs
        | ok st2 =>
          simp only [hp] at hs
          obtain ⟨wf2, hc2, ha2, hn2, hd2, hit2, _⟩ := wf_pushUnused x wf' hp
          have hond := order_nodup' wf
          have hall2 : ∀ j ∈ rest, j ∈ st2.arena.order := by
            intro j hj
            rw [ha2, hord]
            have hne : j ≠ i := by intro e; rw [e] at hj; exact hnd'.1 hj
            exact (List.mem_erase_of_ne hne).mpr (hall j (by simp [hj]))
          obtain ⟨wf1, hn1, hsame, hmono, hrem, hsub⟩ := ih st2 s1 wf2 hnd'.2 hall2 hs
          have hgm : ∀ j, s.ctrl.generation j ≤ st2.ctrl.generation j := by
            intro j; rw [hc2]; by_cases hj : j = i
            · rw [hj, hgi]; omega
            · rw [(hoth j hj).1]; exact Nat.le_refl _
          refine ⟨wf1, by rw [hn1, hn2, hn], ?_, fun j => Nat.le_trans (hgm j) (hmono j), ?_, ?_⟩
          · intro j hj
            simp only [List.mem_cons, not_or] at hj
            obtain ⟨h1, h2⟩ := hsame j hj.2
            rw [h1, h2, ha2, hc2]
            exact ⟨(hoth j hj.1).2, (hoth j hj.1).1⟩
          · intro j hj slj d hslj hd ht
            simp only [List.mem_cons] at hj
            rcases hj with rfl | hj
            · have := hmono j; rw [hc2, hgi] at this; omega
            · have hne : j ≠ i := by intro e; rw [e] at hj; exact hnd'.1 hj
              have := hrem j hj slj d (by rw [ha2, (hoth j hne).2]; exact hslj) hd ht
              rw [hc2, (hoth j hne).1] at this; exact this
          · intro j hj
            have := hsub j hj
            rw [ha2, hord] at this
            exact List.mem_of_mem_erase this

/-- the whole insert loop: every (key, resource) that was in the new ring resolves in the arena afterwards -/
theorem wf_addItems {cap : Nat} {held : List Key} :
    ∀ (items : List (Key × τ)) (s s1 : Store τ) (ks : List Key), WF cap held s → s.newRing.items = items →
      addItems items s = .ok (s1, ks) →
      WF cap held s1 ∧ s1.newRing.items = [] ∧ s1.ctrl = s.ctrl ∧ s1.unused = s.unused ∧ s1.dropped = s.dropped
      ∧ ks = items.map (·.1)
      ∧ s1.arena.order = (items.map (·.1.index)).reverse ++ s.arena.order
      ∧ (∀ p ∈ items, s1.arena.slots[p.1.index]? = some ⟨some p.2, p.1.generation⟩)
      ∧ (∀ j, j ∉ items.map (·.1.index) → s1.arena.slots[j]? = s.arena.slots[j]?) := by
  intro items
  induction items with
  | nil =>
    intro s s1 ks wf hit hs
    simp [addItems] at hs
    obtain ⟨rfl, rfl⟩ := hs
    exact ⟨wf, hit, rfl, rfl, rfl, rfl, by simp, by simp, fun j _ => rfl⟩
  | cons p rest ih =>
    intro s s1 ks wf hit hs
    have spec := wf_popNewInsert wf
    simp only [addItems] at hs
    cases hp : s.popNewInsert with
    | error e => simp [hp, PopNewSpec] at spec
    | ok q =>
      obtain ⟨ko, st⟩ := q
      cases ko with
      | none =>
        simp only [hp, PopNewSpec] at spec
        rw [hit] at spec; simp at spec
      | some k =>
        simp only [hp, PopNewSpec] at spec hs
        obtain ⟨wf', hc, hu, hd, hord, x, rest', hit0, hit', hslk, hoth, hbefore⟩ := spec
        rw [hit] at hit0; cases hit0
        cases hr : addItems rest st with
        | error e => simp [hr] at hs
        | ok q2 =>
          obtain ⟨s2, ks2⟩ := q2
          simp [hr] at hs
          obtain ⟨rfl, rfl⟩ := hs
          obtain ⟨wf1, he1, hc1, hu1, hd1, hks, hord1, hin1, hout1⟩ := ih st s2 ks2 wf' hit' hr
          have hnd := wf.ownNodup
          have hknot : ∀ q ∈ rest, q.1.index ≠ k.index := by
            intro q hq
            simp only [ownIdx, hit, List.map_cons, List.nodup_append, List.nodup_cons, List.mem_map] at hnd
            intro e
            exact hnd.2.1.1.1 ⟨q, hq, e⟩
          refine ⟨wf1, he1, by rw [hc1, hc], by rw [hu1, hu], by rw [hd1, hd], by simp [hks], ?_, ?_, ?_⟩
          · rw [hord1, hord]; simp
          · intro q hq
            simp only [List.mem_cons] at hq
            rcases hq with rfl | hq
            · rw [(hout1 k.index (by simp only [List.mem_map, not_exists, not_and]; intro q hq e; exact hknot q hq e))]
              exact hslk
            · exact hin1 q hq
          · intro j hj
            simp only [List.map_cons, List.mem_cons, not_or] at hj
            rw [hout1 j hj.2, hoth j hj.1]

end K.Store
