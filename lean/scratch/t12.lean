import KiraModel.Proofs.HandLemmas
namespace K
theorem Arena.mem_iter {τ : Type} (a : Arena τ) (k : Key) (x : τ) :
    (k, x) ∈ a.iter ↔ k.index ∈ a.order ∧ ∃ sl, a.slots[k.index]? = some sl ∧ sl.data = some x
      ∧ sl.generation = k.generation := by
  simp only [Arena.iter, List.mem_filterMap]
  constructor
  · rintro ⟨i, hi, h⟩
    cases hs : a.slots[i]? with
    | none => simp [hs] at h
    | some sl =>
      simp [hs] at h
      obtain ⟨hd, hk⟩ := h
      subst hk
      exact ⟨hi, sl, hs, hd, rfl⟩
  · rintro ⟨hi, sl, hs, hd, hg⟩
    refine ⟨k.index, hi, ?_⟩
    simp [hs, hd]
    cases k; simp_all

namespace Hand
open K.Store

theorem order_nodup {cap : Nat} {held : List Key} {s : Store Res} (h : WF cap held s) : s.arena.order.Nodup := by
  have := h.ownNodup
  simp only [ownIdx, List.nodup_append] at this
  exact this.2.1.2.1

theorem inv_aBegin {ar : Bool} {cap : Nat} {s s' : St} (h : Inv ar cap s)
    (hs : step ar s .aBegin = some (.ok s')) : Inv ar cap s' := by
  obtain ⟨wf, dr, mg, nh, ub⟩ := h
  simp only [step] at hs
  cases ha : s.apc with
  | draining r hnd => simp [ha] at hs
  | adding => simp [ha] at hs
  | idle =>
    simp [ha] at hs; subst hs
    have hnd := order_nodup wf
    refine ⟨by simpa [St.held] using wf, ?_, ?_, ?_, ?_⟩
    · simp [DrainInv, hnd]
    · intro k hk
      right
      simp only [List.mem_map, List.mem_filter] at hk
      obtain ⟨⟨k', x⟩, ⟨hmem, ht⟩, rfl⟩ := hk
      obtain ⟨hi, sl, hsl, hd, hg⟩ := (Arena.mem_iter _ _ _).mp hmem
      refine ⟨_, _, rfl, hi, sl, x, hsl, hg, hd, ?_⟩
      simpa [St.test] using ht
    · simp [St.inHand]
    · simpa [St.pending] using ub

end Hand
end K
