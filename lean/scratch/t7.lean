import KiraModel.Proofs.StoreLemmas
namespace K.Store
variable {τ : Type}

theorem nodup_erase_right {A B C : List Nat} {i : Nat} (h : (A ++ (B ++ C)).Nodup) (hi : i ∈ C) :
    (A ++ (B ++ C.erase i)).Nodup ∧ (A ++ (B ++ C.erase i)).length + 1 = (A ++ (B ++ C)).length
    ∧ (∀ j, j ∈ A ++ (B ++ C.erase i) ↔ j ≠ i ∧ j ∈ A ++ (B ++ C)) := by
  simp only [List.nodup_append, List.mem_append] at h
  obtain ⟨hA, ⟨hB, hC, hBC⟩, hAB⟩ := h
  have hCe := hC.erase i
  have hmem : ∀ j, j ∈ C.erase i ↔ j ≠ i ∧ j ∈ C := fun j => hC.mem_erase_iff
  refine ⟨?_, ?_, ?_⟩
  · simp only [List.nodup_append, List.mem_append]
    grind
  · simp only [List.length_append, List.length_erase_of_mem hi]
    have : 0 < C.length := List.length_pos_of_mem hi
    omega
  · intro j
    simp only [List.mem_append]
    grind

end K.Store
