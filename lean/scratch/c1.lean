import KiraModel.Proofs.ChanLemmas
namespace K.Chan
variable {V : Type}

/-- a complete `write` from a quiescent writer -/
theorem writeOp_spec {s : St V} (h : Reachable s) (hw : s.wpc = .idle) (v : V) :
    Reachable (writeOp s v) ∧ (writeOp s v).wpc = .idle ∧ (writeOp s v).rpc = s.rpc
    ∧ (writeOp s v).dirty = true ∧ (writeOp s v).lastPub = some (s.nPub + 1, v)
    ∧ (writeOp s v).nPub = s.nPub + 1 ∧ (writeOp s v).delivered = s.delivered
    ∧ (writeOp s v).pubs = s.pubs ++ [(s.nPub + 1, v)] := by
  have e1 : ∃ s1, step s (.wHalf1 v) = some (s1, .none) ∧ s1.wpc = .half (s.nPub + 1, v) ∧ s1.rpc = s.rpc
      ∧ s1.nPub = s.nPub ∧ s1.delivered = s.delivered ∧ s1.pubs = s.pubs := by
    simp only [step, hw]; exact ⟨_, rfl, rfl, rfl, rfl, rfl, rfl⟩
  obtain ⟨s1, h1, w1, r1, n1, d1, p1⟩ := e1
  have e2 : ∃ s2, step s1 .wHalf2 = some (s2, .none) ∧ s2.wpc = .stored (s.nPub + 1, v) ∧ s2.rpc = s.rpc
      ∧ s2.nPub = s.nPub ∧ s2.delivered = s.delivered ∧ s2.pubs = s.pubs := by
    simp only [step, w1]; exact ⟨_, rfl, rfl, r1, n1, d1, p1⟩
  obtain ⟨s2, h2, w2, r2, n2, d2, p2⟩ := e2
  have e3 : ∃ s3, step s2 .wPublish = some (s3, .none) ∧ s3.wpc = .idle ∧ s3.rpc = s.rpc
      ∧ s3.dirty = true ∧ s3.lastPub = some (s.nPub + 1, v) ∧ s3.nPub = s.nPub + 1 ∧ s3.delivered = s.delivered
      ∧ s3.pubs = s.pubs ++ [(s.nPub + 1, v)] := by
    simp only [step, w2]; exact ⟨_, rfl, rfl, r2, rfl, rfl, by simp [n2], d2, by simp [p2]⟩
  obtain ⟨s3, h3, w3, r3, dd3, l3, n3, d3, p3⟩ := e3
  have hw : writeOp s v = s3 := by simp [writeOp, h1, h2, h3]
  rw [hw]
  exact ⟨Reachable.step (Reachable.step (Reachable.step h h1) h2) h3, w3, r3, dd3, l3, n3, d3, p3⟩

/-- a complete `read` from a quiescent reader when nothing new was published: `None`, no change -/
theorem readOp_clean {s : St V} (hr : s.rpc = .idle) (hd : s.dirty = false) : readOp s = (s, none) := by
  simp [readOp, step, hr, hd]

/-- a complete `read` from a quiescent reader after at least one publish: the latest published value -/
theorem readOp_dirty {s : St V} (h : Reachable s) (hr : s.rpc = .idle) (hd : s.dirty = true) :
    ∃ x, s.lastPub = some x ∧ (readOp s).2 = some x.2 ∧ Reachable (readOp s).1 ∧ (readOp s).1.rpc = .idle
      ∧ (readOp s).1.dirty = false ∧ (readOp s).1.wpc = s.wpc ∧ (readOp s).1.delivered = s.delivered ++ [x]
      ∧ (readOp s).1.nPub = s.nPub := by
  have inv := inv_reachable h
  obtain ⟨hb, v, hl⟩ := inv.dirtyBack hd
  have e1 : step s .rTest = some ({ s with rpc := .tested }, .none) := by simp [step, hr, hd]
  have e2 : ∃ s2, step { s with rpc := .tested } .rSwap = some (s2, .none) ∧ s2.rpc = .swapped ∧ s2.out = s.back
      ∧ s2.buf = s.buf ∧ s2.dirty = false ∧ s2.wpc = s.wpc ∧ s2.delivered = s.delivered ∧ s2.nPub = s.nPub := by
    simp only [step]; exact ⟨_, rfl, rfl, rfl, rfl, rfl, rfl, rfl, rfl⟩
  obtain ⟨s2, h2, r2, o2, b2, dd2, w2, d2, n2⟩ := e2
  have hbuf : s2.buf s2.out = .full (some (s.nPub, v)) := by rw [b2, o2, hb, hl]
  have e3 : ∃ s3, step s2 .rRead1 = some (s3, .none) ∧ s3.rpc = .half (some (s.nPub, v)) ∧ s3.out = s2.out
      ∧ s3.buf = s2.buf ∧ s3.dirty = false ∧ s3.wpc = s.wpc ∧ s3.delivered = s.delivered ∧ s3.nPub = s.nPub := by
    simp only [step, r2]; exact ⟨_, rfl, by simp [hbuf, Cell.full], rfl, rfl, dd2, w2, d2, n2⟩
  obtain ⟨s3, h3, r3, o3, b3, dd3, w3, d3, n3⟩ := e3
  have hbuf3 : s3.buf s3.out = .full (some (s.nPub, v)) := by rw [b3, o3, hbuf]
  have e4 : ∃ s4, step s3 .rRead2 = some (s4, .read (.full (some (s.nPub, v)))) ∧ s4.rpc = .idle
      ∧ s4.dirty = false ∧ s4.wpc = s.wpc ∧ s4.delivered = s.delivered ++ [(s.nPub, v)] ∧ s4.nPub = s.nPub := by
    simp only [step, r3, hbuf3, Cell.full]; exact ⟨_, rfl, rfl, dd3, w3, by simp [d3], n3⟩
  obtain ⟨s4, h4, r4, dd4, w4, d4, n4⟩ := e4
  have hro : readOp s = (s4, some v) := by simp [readOp, e1, h2, h3, h4, Cell.full]
  rw [hro]
  exact ⟨(s.nPub, v), hl, rfl, Reachable.step (Reachable.step (Reachable.step (Reachable.step h e1) h2) h3) h4,
    r4, dd4, w4, d4, n4⟩

end K.Chan
