/-
  Twin of harness suite `param` (C06): `Parameter<T>` for T ∈ f64 f32 db pan rate dur cs.
-/
import KiraModel.Exec.SuiteUnits
import KiraModel.Model.Parameter

namespace K.Exec
open K K.Proto

/-- value codec of one tweenable type -/
structure Codec (τ : Type) where
  tw : Tweenable Float τ
  parse : String → Option τ
  render : τ → String

def codec64 : Codec Float := ⟨tw64, f64?, show64⟩
def codec32 : Codec Float := ⟨tw32, f32?, show32⟩
def codecDur : Codec Nat := ⟨twDur, nat?, toString⟩
def parseCsEq (s : String) : Option (ClockSpeed Float) :=
  match s.splitOn "=" with
  | [k, v] => do let v ← f64? v; parseCs k v
  | _ => none
def showCsEq : ClockSpeed Float → String
  | .secondsPerTick v => s!"spt={show64 v}"
  | .ticksPerSecond v => s!"tps={show64 v}"
  | .ticksPerMinute v => s!"tpm={show64 v}"
def codecCs : Codec (ClockSpeed Float) := ⟨twCs, parseCsEq, showCsEq⟩

def parseStart (s : String) : Option (StartTime Float) :=
  if s == "imm" then some .immediate else
  match s.splitOn ":" with
  | ["del", ns] => (nat? ns).map .delayed
  | ["clk", id, t, f] => do
      let id ← nat? id; let t ← nat? t; let f ← f64? f
      pure (.clockTime id ⟨t, f⟩)
  | _ => none

def parseTween (s : String) : Option (Tween Float) :=
  match s.splitOn ";" with
  | [st, d, e] => do
      let st ← parseStart st; let d ← nat? d; let e ← parseEasing e
      pure ⟨st, d, e⟩
  | _ => none

def parseValue {τ : Type} (c : Codec τ) (s : String) : Option (Value Float τ) :=
  match s.splitOn ":" with
  | ["fix", v] => (c.parse v).map .fixed
  | ["mod", id, m] =>
    match m.splitOn "," with
    | [i0, i1, o0, o1, e] => do
        let id ← nat? id; let i0 ← f64? i0; let i1 ← f64? i1
        let o0 ← c.parse o0; let o1 ← c.parse o1
        -- the easing may itself contain ':' only in the form k:v which splitOn ":" above broke up
        let e ← parseEasing e
        pure (.fromModulator id ⟨i0, i1, o0, o1, e⟩)
    | _ => none
  | ["mod", id, m, ev] =>
    -- easing with a parameter: "…,ipf" ":" "<bits>" were split apart — re-join
    match m.splitOn "," with
    | [i0, i1, o0, o1, ek] => do
        let id ← nat? id; let i0 ← f64? i0; let i1 ← f64? i1
        let o0 ← c.parse o0; let o1 ← c.parse o1
        let e ← parseEasing (ek ++ ":" ++ ev)
        pure (.fromModulator id ⟨i0, i1, o0, o1, e⟩)
    | _ => none
  | _ => none

/-- the `Info` the mock builder produces: clocks 0..k-1 and modulators 0..m-1 exist -/
structure InfoState where
  clocks : List (ClockInfo Float) := []
  mods : List Float := []

def InfoState.toInfo (s : InfoState) : Info Float :=
  { clock := fun i => s.clocks[i]?, modulator := fun i => s.mods[i]?, listenerDistance := none }

def parseClocks : List String → Option (List (ClockInfo Float))
  | [] => some []
  | t :: k :: f :: rest => do
      let k ← nat? k; let f ← f64? f; let r ← parseClocks rest
      pure (⟨t == "1", ⟨k, f⟩⟩ :: r)
  | _ => none

def infoStep (s : InfoState) (tok : List String) : Option InfoState :=
  match tok with
  | "info.clocks" :: _ :: rest => (parseClocks rest).map (fun c => { s with clocks := c })
  | "info.mods" :: _ :: rest => (rest.mapM f64?).map (fun m => { s with mods := m })
  | _ => none

/-- one op on a parameter of type τ -/
def paramOp {τ : Type} (c : Codec τ) (info : Info Float) (p : Parameter Float τ) (tok : List String) :
    Option (Parameter Float τ × String) :=
  match tok with
  | ["set", v, tw] => do
      let v ← parseValue c v; let tw ← parseTween tw
      pure (p.set v tw, "ok")
  | ["update", dt] => do
      let dt ← f64? dt
      let (p', fin) := p.update c.tw dt info
      pure (p', s!"{c.render p'.value} {c.render p'.previousValue} {if fin then 1 else 0}")
  | ["interp", a] => do
      let a ← f64? a
      pure (p, c.render (p.interpolatedValue c.tw a))
  | _ => none

def paramNew {τ : Type} (c : Codec τ) (v d : String) : Option (Parameter Float τ × String) := do
  let v ← parseValue c v; let d ← c.parse d
  let p := Parameter.new v d
  pure (p, s!"{c.render p.value} {c.render p.previousValue}")

inductive PAny where
  | none
  | p64 (p : Parameter Float Float)
  | p32 (p : Parameter Float Float)
  | pdur (p : Parameter Float Nat)
  | pcs (p : Parameter Float (ClockSpeed Float))

structure ParamState where
  info : InfoState := {}
  p : PAny := .none

def paramStep (st : ParamState) (tok : List String) : Option (ParamState × String) :=
  match tok with
  | "info.clocks" :: _ | "info.mods" :: _ => (infoStep st.info tok).map (fun i => ({ st with info := i }, "ok"))
  | ["new", ty, v, d] =>
    if ty == "f64" || ty == "rate" then (paramNew codec64 v d).map (fun (p, s) => ({ st with p := .p64 p }, s))
    else if ty == "f32" || ty == "db" || ty == "pan" then
      (paramNew codec32 v d).map (fun (p, s) => ({ st with p := .p32 p }, s))
    else if ty == "dur" then (paramNew codecDur v d).map (fun (p, s) => ({ st with p := .pdur p }, s))
    else if ty == "cs" then (paramNew codecCs v d).map (fun (p, s) => ({ st with p := .pcs p }, s))
    else none
  | _ =>
    let info := st.info.toInfo
    match st.p with
    | .none => none
    | .p64 p => (paramOp codec64 info p tok).map (fun (p, s) => ({ st with p := .p64 p }, s))
    | .p32 p => (paramOp codec32 info p tok).map (fun (p, s) => ({ st with p := .p32 p }, s))
    | .pdur p => (paramOp codecDur info p tok).map (fun (p, s) => ({ st with p := .pdur p }, s))
    | .pcs p => (paramOp codecCs info p tok).map (fun (p, s) => ({ st with p := .pcs p }, s))

end K.Exec
