/-
  Twin of the harness suites `stream` (C09) and `decthread` (C10): a static sound and a streaming sound
  of the same audio side by side; the decoder is stepped by hand (`dec`) or as the gated real thread
  (`tstart` / `tstep`, one labelled step of `Conc/DecoderThread` each).
-/
import KiraModel.Exec.SuiteStatic
import KiraModel.Model.StreamingSound
import KiraModel.Model.Conc.DecoderThread

namespace K.Exec.Strm
open K K.Proto K.Exec K.Exec.Static K.Streaming

abbrev SysF := Sys (Script Float) Float

structure StrmState where
  info : InfoState := {}
  st : Option (StaticSound Float) := none
  /-- the streaming sound with its decoder thread (`none`: `split` failed) -/
  lts : Option (DT.St (Script Float) Float) := none
  /-- the decoder ended while it was stepped by hand (`dec`) -/
  handEnded : Bool := false
  /-- a decoder error has been seen in this case (seek / loop commands are skipped from then on) -/
  erred : Bool := false

def showErr : Wav.Err → String
  | .chan => "chan" | .rate => "rate" | .sym => "sym" | .panic => "panic" | .hang => "hang"

def showStatic (s : Option (StaticSound Float)) : String :=
  match s with
  | some s => s!"S {showHandle s}"
  | none => "S -"

def showStream (l : Option (DT.St (Script Float) Float)) : String :=
  match l with
  | none => "T -"
  | some l =>
    let s := l.sys
    let h := if l.handle then s!"{s.handleState.toNat} {show64 s.handlePosition}" else "- -"
    let f := if l.place == .inTrack then (if s.finished then "1" else "0") else "-"
    s!"T {h} {f}"

def showBoth (st : StrmState) : String := showStatic st.st ++ " " ++ showStream st.lts

def parsePackets (s : String) : Option (Array Nat) :=
  ((s.splitOn ",").mapM nat?).map List.toArray

def parseFail (s : String) : Option (Option Nat) :=
  if s == "none" then some none else (nat? s).map some

def showPc : DT.Pc → String
  | .top => "top" | .errPending _ => "err" | .flagPending => "flag" | .ended => "ended" | .panicked => "panicked"

def showOutcome : RunOutcome → String
  | .ok .continue => "cont" | .ok .wait => "wait" | .ok .end => "end"
  | .err e => "err:" ++ showErr e | .fault f => "fault:" ++ f.name

/-- `dec <max>`: raw `DecodeScheduler::run` calls by hand until Wait / End / Err or `max` calls -/
def decLoop : Nat → SysF → Nat → (SysF × Nat × Option RunOutcome)
  | 0, s, n => (s, n, none)
  | k + 1, s, n =>
    let r := Sys.run scriptDecoder twinFuel s
    match r.1 with
    | .ok .continue => match decLoop k r.2 (n + 1) with
      | (s', n', none) => (s', n', some (.ok .continue))
      | x => x
    | o => (r.2, n + 1, some o)

def ltsSteps : Nat → DT.St (Script Float) Float → DT.St (Script Float) Float
  | 0, l => l
  | k + 1, l => ltsSteps k (DT.gateStep scriptDecoder twinFuel l)

def strmStep (st : StrmState) (tok : List String) : Option (StrmState × String) :=
  match tok with
  | "info.clocks" :: _ | "info.mods" :: _ => (infoStep st.info tok).map (fun i => ({ st with info := i }, "ok"))
  | ["new", sr, len, coding, slice, stt, spos, loop, vol, rate, pan, fadeIn, packets, gran, fail] => do
      let sr ← nat? sr; let len ← nat? len
      let frames ← genFrames coding len
      let slice ← parseSlice slice sr len
      let stt ← parseStart stt; let spos ← parsePos spos; let loop ← parseRegion loop
      let vol ← parseValue codec32 vol; let rate ← parseValue codec64 rate; let pan ← parseValue codec32 pan
      let fadeIn ← parseOptTween fadeIn
      let packets ← parsePackets packets; let gran ← nat? gran; let fail ← parseFail fail
      let d : StaticSoundData Float :=
        { sampleRate := sr, frames := frames, slice := slice
          settings := { startTime := stt, startPosition := spos, loopRegion := loop, reverse := false
                        volume := vol, playbackRate := rate, panning := pan, fadeInTween := fadeIn } }
      let sd : StreamingSoundData (Script Float) Float :=
        { dec := { frames := frames, pos := 0, packets := packets, pkt := 0, gran := gran, calls := 0, failAt := fail }
          sampleRate := sr, decFrames := len, slice := slice
          settings := { startTime := stt, startPosition := spos, loopRegion := loop
                        volume := vol, playbackRate := rate, panning := pan, fadeInTween := fadeIn } }
      match StaticSound.new d with
      | .error f => pure ({ st with st := none, lts := none }, faultLine f)
      | .ok s =>
        match Sys.new scriptDecoder sd with
        | .ok ss =>
          let st' := { st with st := some s, lts := some (DT.St.init ss), handEnded := false, erred := false }
          pure (st', showBoth st')
        | .error .panic => pure ({ st with st := none, lts := none }, "fault overflow")
        | .error e =>
          let st' := { st with st := some s, lts := none, handEnded := false, erred := true }
          pure (st', showStatic (some s) ++ " T err:" ++ showErr e)
  | _ =>
    -- a command goes to both handles; seeks and loop changes are skipped once the decoder has failed
    let cmd (c : Command Float) (decoderSide : Bool) : Option (StrmState × String) :=
      if decoderSide && st.erred then some (st, "skip") else
      let st' := { st with
        st := st.st.map (fun s => { s with cmds := s.cmds.write c })
        lts := st.lts.map (fun l => if l.handle then { l with sys := l.sys.write c } else l) }
      some (st', showBoth st')
    match tok with
    | ["start"] =>
      let sres : Except Fault (Option (StaticSound Float)) :=
        match st.st with
        | none => .ok none
        | some s => match s.onStartProcessing with
          | .ok s' => .ok (some s')
          | .error f => .error f
      match sres with
      | .error f => some ({ st with st := none, lts := none }, faultLine f)
      | .ok s' =>
        let l' := st.lts.map (fun l => (DT.step scriptDecoder twinFuel l .aStart).getD l)
        let st' := { st with st := s', lts := l' }
        some (st', showBoth st')
    | ["proc", len, dt] => do
        let len ← nat? len; let dt ← f64? dt
        let info := st.info.toInfo
        let sres : Except Fault (Option (StaticSound Float) × List (Frame Float)) :=
          match st.st with
          | none => .ok (none, [])
          | some s => match s.process twinFuel len dt info with
            | .ok (s', out) => .ok (some s', out)
            | .error f => .error f
        match sres with
        | .error f => pure ({ st with st := none, lts := none }, faultLine f)
        | .ok (s', sout) =>
          match st.lts with
          | some l =>
            if l.place == .inTrack then
              match l.sys.process twinFuel len dt info with
              | .error f => pure ({ st with st := none, lts := none }, faultLine f)
              | .ok (sys', tout) =>
                let st' := { st with st := s', lts := some { l with sys := sys' } }
                let x := if showFrames sout == showFrames tout then " =" else showFrames sout
                pure (st', showBoth st' ++ " F" ++ showFrames tout ++ " X" ++ x)
            else
              let st' := { st with st := s' }
              pure (st', showBoth st' ++ " F X" ++ showFrames sout)
          | none =>
            let st' := { st with st := s' }
            pure (st', showBoth st' ++ " F X" ++ showFrames sout)
    | ["dec", max] => do
        let max ← nat? max
        match st.lts with
        | none => pure (st, "0 none")
        | some l =>
          if st.handEnded || l.pc != .top then pure (st, "0 none") else
          let (sys', n, o) := decLoop max l.sys 0
          match o with
          | some (.fault f) => pure ({ st with st := none, lts := none }, faultLine f)
          | _ =>
            let ended := match o with | some (.ok .end) => true | _ => false
            let erred := match o with | some (.err _) => true | _ => st.erred
            let st' := { st with lts := some { l with sys := sys' }, handEnded := ended, erred := erred }
            pure (st', s!"{n} {match o with | some o => showOutcome o | none => "none"} {showStream st'.lts}")
    | ["tstart"] =>
      match st.lts with
      | none => some (st, "none")
      | some _ => some (st, if st.handEnded then "ended" else "ok")
    | ["tstep", n] => do
        let n ← nat? n
        match st.lts with
        | none => pure (st, "pc=none")
        | some l =>
          if st.handEnded then pure (st, "pc=ended " ++ showStream st.lts) else
          let l' := ltsSteps n l
          let erred := st.erred || (match l'.pc with | .errPending _ => true | _ => false) || l'.sys.encounteredError
          let st' := { st with lts := some l', erred := erred }
          pure (st', s!"pc={showPc l'.pc} {showStream st'.lts}")
    | ["poperr"] =>
      match st.lts with
      | none => some (st, "none")
      | some l =>
        if !l.handle then some (st, "none") else
        let r := l.sys.popError
        some ({ st with lts := some { l with sys := r.2 } },
              match r.1 with | some e => showErr e | none => "none")
    | ["sdrop"] =>
      let st' := { st with lts := st.lts.map (fun l => (DT.step scriptDecoder twinFuel l .abandon).getD l) }
      some (st', showBoth st')
    | ["hdrop"] =>
      let st' := { st with lts := st.lts.map (fun l => (DT.step scriptDecoder twinFuel l .hDrop).getD l) }
      some (st', showBoth st')
    | "rt" :: _ => some (st, "ok")
    | ["vol", v, tw] => do let v ← parseValue codec32 v; let tw ← parseTween tw; cmd (.setVolume v tw) false
    | ["rate", v, tw] => do let v ← parseValue codec64 v; let tw ← parseTween tw; cmd (.setPlaybackRate v tw) false
    | ["pan", v, tw] => do let v ← parseValue codec32 v; let tw ← parseTween tw; cmd (.setPanning v tw) false
    | ["loop", r] => do let r ← parseRegion r; cmd (.setLoopRegion r) true
    | ["pause", tw] => do let tw ← parseTween tw; cmd (.pause tw) false
    | ["resume", stt, tw] => do let stt ← parseStart stt; let tw ← parseTween tw; cmd (.resume stt tw) false
    | ["stop", tw] => do let tw ← parseTween tw; cmd (.stop tw) false
    | ["seekby", x] => do let x ← f64? x; cmd (.seekBy x) true
    | ["seekto", x] => do let x ← f64? x; cmd (.seekTo x) true
    | _ => none

end K.Exec.Strm
