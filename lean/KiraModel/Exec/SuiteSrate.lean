/-
  Twin of harness suite `srate` (C16): runs the sample-rate protocol model on the same history.
-/
import KiraModel.Exec.Proto
import KiraModel.Model.Conc.SampleRateRace

namespace K.Exec
open K K.Proto K.SR

def srateStep (st : SR.State) (tok : List String) : Option (SR.State × String) :=
  match tok with
  | ["mgr", _, sr] => do let sr ← nat? sr; pure (SR.init sr, "ok")
  | ["add", _, _] => do
      let s1 ← SR.step st .gLoadInit
      let s2 ← SR.step s1 .gEnqueue
      pure (s2, "ok")
  | ["drop", _] => some (st, "ok")   -- a persisting track stays owned and processed after its handle is dropped
  | ["rate", r] => do let r ← nat? r; let s ← SR.step st (.aChange r); pure (s, "ok")
  | ["cb", _] => do
      let s ← SR.step st .aPickup
      let ks := String.intercalate "," (s.tracks.map (fun t => toString t.known))
      pure (s, s!"r={s.rate} k={ks}")
  | _ => none

end K.Exec
