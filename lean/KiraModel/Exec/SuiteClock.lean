/-
  Twins of the harness suites of C05:
    `clock`     — one `Clock` + its `ClockHandle` (kira::verif_hooks::HClock)
    `clocksys`  — clocks, tweener modulators and clock-started sounds through the AudioManager
    `clocktear` — controlled schedules of `ClockHandle::time/stop` against `Clock::on_start_processing`
-/
import KiraModel.Exec.SuiteParam
import KiraModel.Model.Clock
import KiraModel.Model.ClockSys
import KiraModel.Model.SoundCore
import KiraModel.Model.Track
import KiraModel.Model.Conc.ClockShared

namespace K.Exec.Clock
open K K.Proto K.Conc

def b01 (b : Bool) : String := if b then "1" else "0"

def showClockState (c : Clock Float) : String :=
  match c.state with
  | .notStarted => "-"
  | .started t f => s!"{t}:{show64 f}"

/-- `state ticking handle.time handle.ticking` -/
def showClock (c : Clock Float) : String :=
  s!"{showClockState c} {b01 c.ticking} {c.shared.ticks}:{show64 c.shared.frac} {b01 c.shared.ticking}"

/-! ### suite `clock` -/

structure ClockSuiteState where
  info : InfoState := {}
  c : Option (Clock Float) := none

def clockStep (st : ClockSuiteState) (tok : List String) : Option (ClockSuiteState × String) :=
  match tok with
  | "info.clocks" :: _ | "info.mods" :: _ => (infoStep st.info tok).map (fun i => ({ st with info := i }, "ok"))
  | ["new", v] => do
      let v ← parseValue codecCs v
      let c := Clock.new v
      pure ({ st with c := some c }, showClock c)
  -- a fresh clock at `v` ticks per second, started, one update of 1 s: the timer is exactly `v`
  -- (the harness compares kira's result with the tick loop the code used to run)
  | ["tick", v] => do
      let v ← f64? v
      let c0 := ((Clock.new (.fixed (.ticksPerSecond v))).hStart).onStartProcessing
      let (c', r) := c0.update 1.0 Info.empty
      let rs := match r with | none => "-" | some n => toString n
      pure (st, s!"{rs} {showClockState c'}")
  | _ => do
    let c ← st.c
    match tok with
    | ["start"] => let c := c.hStart; pure ({ st with c := some c }, showClock c)
    | ["pause"] => let c := c.hPause; pure ({ st with c := some c }, showClock c)
    | ["stop"] => let c := c.hStop; pure ({ st with c := some c }, showClock c)
    | ["speed", v, tw] => do
        let v ← parseValue codecCs v; let tw ← parseTween tw
        let c := c.hSetSpeed v tw
        pure ({ st with c := some c }, showClock c)
    | ["osp"] => let c := c.onStartProcessing; pure ({ st with c := some c }, showClock c)
    | ["update", dt] => do
        let dt ← f64? dt
        let (c', r) := c.update dt st.info.toInfo
        let rs := match r with | none => "-" | some n => toString n
        pure ({ st with c := some c' }, s!"{rs} {showClock c'}")
    | _ => none

/-! ### suite `clocksys` -/

/-- a silent, looping static sound on the main track as far as its life cycle goes (`qplay`): the `SoundCore` of
    Model/SoundCore.lean, its unread pause / resume commands, "unloaded by its track" -/
structure QSound where
  core : SoundCore Float := SoundCore.new .immediate none
  cmdPause : Option (Tween Float) := none
  cmdResume : Option (StartTime Float × Tween Float) := none
  unloaded : Bool := false

/-- what the main track's `on_start_processing` does with one of its sounds: `sounds.remove_and_add(|s| s.finished())`,
    then `StaticSound::on_start_processing` → `read_commands` (pause, then resume).
    mirrors: track/main.rs::MainTrack::on_start_processing, sound/static_sound/sound.rs::StaticSound::read_commands -/
def QSound.onStart (q : QSound) : QSound :=
  if q.unloaded then q
  else if q.core.finished then { q with unloaded := true }
  else
    let c1 := match q.cmdPause with | some tw => q.core.pause tw | none => q.core
    let c2 := match q.cmdResume with | some c => c1.resume c.1 c.2 | none => c1
    { q with core := c2, cmdPause := none, cmdResume := none }

/-- the gating prefix of `StaticSound::process` for one chunk (`dtc = dt * out.len()`) -/
def QSound.chunk (q : QSound) (dtc : Float) (info : Info Float) : QSound :=
  if q.unloaded then q else { q with core := (q.core.gate dtc info).1 }

/-- an empty sub-track of the main track as far as its life cycle goes (`track`) -/
structure QTrack where
  psm : Psm Float := Psm.new none
  /-- `TrackShared::state` -/
  pubState : PlaybackState := .playing
  cmdPause : Option (Tween Float) := none
  cmdResume : Option (StartTime Float × Tween Float) := none

/-- mirrors: track/sub.rs::Track::read_commands (pause, then resume; each publishes the state) -/
def QTrack.onStart (t : QTrack) : QTrack :=
  let t1 := match t.cmdPause with
    | some tw => let m := t.psm.pause tw; { t with psm := m, pubState := m.playbackState, cmdPause := none }
    | none => t
  match t1.cmdResume with
  | some c => let m := t1.psm.resume c.1 c.2; { t1 with psm := m, pubState := m.playbackState, cmdResume := none }
  | none => t1

/-- "update playback state" of track/sub.rs::Track::process for one chunk (a track never stays Stopped:
    `Trk.pausedIfStopped`) -/
def QTrack.chunk (t : QTrack) (dtc : Float) (info : Info Float) : QTrack :=
  let u := t.psm.update dtc info
  if u.2 then
    let m := Trk.pausedIfStopped u.1
    { t with psm := m, pubState := m.playbackState }
  else { t with psm := u.1 }

/-- mirrors: track.rs::TrackShared::state ("tracks are never stopping or stopped") -/
def QTrack.handleState (t : QTrack) : Nat :=
  if t.pubState.toNat ≤ 4 then t.pubState.toNat else 2

structure SysSuiteState where
  qs : List QSound := []
  ks : List QTrack := []
  s : Sys Float := Sys.empty
  ibs : Nat := 1
  sr : Nat := 1
  /-- per id: is it a clock (else a tweener) -/
  isClock : List Bool := []
  dropped : List Nat := []
  frame : Nat := 0
  /-- per sound: the global frame index of the first frame of the chunk it started in -/
  started : List (Option Nat) := []

def findClock (s : Sys Float) (id : Nat) : Option (Clock Float) :=
  match s.clocks.lookup id with
  | some c => some c
  | none => s.newClocks.lookup id

def showHandle (c : Clock Float) : String :=
  s!"{c.shared.ticks}:{show64 c.shared.frac}:{b01 c.shared.ticking}"

/-- what the spy sound sees in one chunk: every resource created so far, in id order -/
def spyLine (st : SysSuiteState) (s : Sys Float) : String :=
  let info := s.mixInfo
  let items := (List.range s.nextId).map (fun id =>
    if st.isClock.getD id false then
      match info.clock id with
      | none => "N"
      | some ci => s!"T{b01 ci.ticking}:{ci.time.ticks}:{show64 ci.time.fraction}"
    else
      match info.modulator id with
      | none => "N"
      | some v => s!"V{show64 v}")
  "{" ++ String.intercalate "," items ++ "}"

def chunkSizes (ibs frames : Nat) : List Nat :=
  if ibs = 0 then [] else
  (List.replicate (frames / ibs) ibs) ++ (if frames % ibs = 0 then [] else [frames % ibs])

def markStarted (started : List (Option Nat)) (waiters : List (Waiter Float)) (frame : Nat) : List (Option Nat) :=
  (List.range waiters.length).map (fun j =>
    match started.getD j none, waiters[j]? with
    | some f, _ => some f
    | none, some w => if w.audible then some frame else none
    | none, none => none)

/-- process the chunks of one callback; returns the new state and the spy lines -/
def runChunks (st : SysSuiteState) : List Nat → List String → Option (SysSuiteState × List String)
  | [], acc => some (st, acc.reverse)
  | n :: rest, acc =>
    let dt : Float := (1.0 / Float.ofNat st.sr) * Float.ofNat n
    match st.s.chunk dt with
    | none => none
    | some s' =>
      let started := markStarted st.started s'.waiters st.frame
      let info := s'.mixInfo
      let st' := { st with s := s', started := started, frame := st.frame + n,
                           qs := st.qs.map (fun q => q.chunk dt info), ks := st.ks.map (fun t => t.chunk dt info) }
      runChunks st' rest (spyLine st s' :: acc)

/-- frames between a static sound passing its start gate and its first non-zero output (none:
    `StaticSound::new` pre-fills the resampler) -/
def audibleLatency : Nat := 0

def showSounds (st : SysSuiteState) : String :=
  let ws := st.s.waiters ++ st.s.newWaiters
  let items := (List.range ws.length).map (fun j =>
    match st.started.getD j none, ws[j]? with
    | some f, _ => if f + audibleLatency < st.frame then s!"S{f}" else "W"
    | none, some w => if w.stopped then "X" else "W"
    | none, none => "?")
  String.intercalate "," items

def showHandles (st : SysSuiteState) : String :=
  let items := (List.range st.s.nextId).filterMap (fun id =>
    if st.isClock.getD id false then
      if st.dropped.contains id then some "D"
      else (findClock st.s id).map showHandle
    else none)
  String.intercalate "," items

def sysEv (st : SysSuiteState) (e : Ev Float) : Option SysSuiteState :=
  (st.s.step e).map (fun s => { st with s := s })

def clockSysStepCore (st : SysSuiteState) (tok : List String) : Option (SysSuiteState × String) :=
  match tok with
  | ["mgr", ibs, sr] => do
      let ibs ← nat? ibs; let sr ← nat? sr
      pure ({ ibs := ibs, sr := sr : SysSuiteState }, "ok")
  | ["clock", v] => do
      let v ← parseValue codecCs v
      let st' ← sysEv st (.addClock v)
      pure ({ st' with isClock := st.isClock ++ [true] }, "ok")
  | ["tweener", v] => do
      let v ← f64? v
      let st' ← sysEv st (.addTweener v)
      pure ({ st' with isClock := st.isClock ++ [false] }, "ok")
  | ["c.start", id] => do
      let id ← nat? id; let st' ← sysEv st (.clockCmd id .start)
      pure (st', ((findClock st'.s id).map showHandle).getD "?")
  | ["c.pause", id] => do
      let id ← nat? id; let st' ← sysEv st (.clockCmd id .pause)
      pure (st', ((findClock st'.s id).map showHandle).getD "?")
  | ["c.stop", id] => do
      let id ← nat? id; let st' ← sysEv st (.clockCmd id .stop)
      pure (st', ((findClock st'.s id).map showHandle).getD "?")
  | ["c.drop", id] => do
      let id ← nat? id; let st' ← sysEv st (.clockCmd id .drop)
      pure ({ st' with dropped := id :: st.dropped }, "ok")
  | ["c.speed", id, v, tw] => do
      let id ← nat? id; let v ← parseValue codecCs v; let tw ← parseTween tw
      let st' ← sysEv st (.clockCmd id (.setSpeed v tw))
      pure (st', ((findClock st'.s id).map showHandle).getD "?")
  | ["c.time", id] => do
      let id ← nat? id
      pure (st, ((findClock st.s id).map showHandle).getD "?")
  | ["t.set", id, target, tw] => do
      let id ← nat? id; let target ← f64? target; let tw ← parseTween tw
      let st' ← sysEv st (.tweenerSet id target tw)
      pure (st', "ok")
  | ["t.drop", id] => do
      let id ← nat? id; let st' ← sysEv st (.tweenerDrop id)
      pure (st', "ok")
  | ["play", start] => do
      let start ← parseStart start
      let st' ← sysEv st (.play start)
      pure ({ st' with started := st.started ++ [none] }, "ok")
  | ["qplay"] => pure ({ st with qs := st.qs ++ [{}] }, "ok")
  | ["track"] => pure ({ st with ks := st.ks ++ [{}] }, "ok")
  | ["q.pause", j, tw] => do
      let j ← nat? j; let tw ← parseTween tw; let q ← st.qs[j]?
      pure ({ st with qs := st.qs.set j { q with cmdPause := some tw } }, toString q.core.shared.toNat)
  | ["q.resume", j, start, tw] => do
      let j ← nat? j; let start ← parseStart start; let tw ← parseTween tw; let q ← st.qs[j]?
      pure ({ st with qs := st.qs.set j { q with cmdResume := some (start, tw) } }, toString q.core.shared.toNat)
  | ["k.pause", j, tw] => do
      let j ← nat? j; let tw ← parseTween tw; let t ← st.ks[j]?
      pure ({ st with ks := st.ks.set j { t with cmdPause := some tw } }, toString t.handleState)
  | ["k.resume", j, start, tw] => do
      let j ← nat? j; let start ← parseStart start; let tw ← parseTween tw; let t ← st.ks[j]?
      pure ({ st with ks := st.ks.set j { t with cmdResume := some (start, tw) } }, toString t.handleState)
  | ["cb", frames] => do
      let frames ← nat? frames
      let st0 ← sysEv st .startProcessing
      let st1 := { st0 with qs := st0.qs.map QSound.onStart, ks := st0.ks.map QTrack.onStart }
      match runChunks st1 (chunkSizes st1.ibs frames) [] with
      | none => pure (st, "fault hang")
      | some (st2, lines) =>
        let life := if st2.qs.isEmpty && st2.ks.isEmpty then "" else
          " | q" ++ String.intercalate "," (st2.qs.map (fun q => toString q.core.shared.toNat)) ++
          " | k" ++ String.intercalate "," (st2.ks.map (fun t => toString t.handleState))
        pure (st2, s!"{String.intercalate " " lines} | {showHandles st2} | {showSounds st2}{life}")
  | _ => none

/-- decode a `replay <ops joined by '~', blanks as '_'> :: comment` line into tokenised ops -/
def decodeReplay (enc : String) : List (List String) :=
  (enc.splitOn "~").filterMap (fun o =>
    let toks := ((o.replace "_" " ").splitOn " ").filter (fun s => !s.isEmpty)
    if toks.isEmpty then none else some toks)

/-- run an encoded case from a fresh state; the trace line is the last line of that run -/
def replayWith {σ : Type} (init : σ) (step : σ → List String → Option (σ × String)) (enc : String) : String :=
  let r := (decodeReplay enc).foldl (fun (acc : σ × String × Bool) tok =>
    if acc.2.2 then acc else
    match step acc.1 tok with
    | some (s', line) => (s', line, line.startsWith "fault")
    | none => (acc.1, "bad-op", false)) (init, "", false)
  r.2.1

def clockSysStep (st : SysSuiteState) (tok : List String) : Option (SysSuiteState × String) :=
  match tok with
  | "replay" :: enc :: _ => some (st, replayWith ({} : SysSuiteState) clockSysStepCore enc)
  | _ => clockSysStepCore st tok

/-! ### suite `clocktear` -/

structure TearState where
  c : Option (Clock Float) := none
  cs : CS Float := CS.init 0.0

/-- the LTS owns the two words; copy them into the sequential clock -/
def syncWords (c : Clock Float) (cs : CS Float) : Clock Float :=
  { c with shared := { c.shared with ticks := cs.ticks, frac := cs.frac } }

/-- one segment (the code between two yield points) of a thread, as LTS labels plus its effect on
    the sequential clock -/
inductive Seg where
  | audA | audB | stopA | stopB | loadA | loadB

def applyLabels (cs : CS Float) (ls : List (Lbl Float)) : Option (CS Float) := cs.run 0.0 ls

def segStep (c : Clock Float) (cs : CS Float) : Seg → Option (Clock Float × CS Float)
  | .audA =>
    let c' := c.onStartProcessing
    let t := c'.state.time
    let ls : List (Lbl Float) := (if c.cmds.reset then [Lbl.audReset] else []) ++ [Lbl.audStoreTicks t.ticks t.fraction]
    (applyLabels cs ls).map (fun cs' => (syncWords c' cs', cs'))
  | .audB => (applyLabels cs [.audStoreFrac]).map (fun cs' => (syncWords c cs', cs'))
  | .stopA => (applyLabels cs [.stopStoreTicks]).map (fun cs' => (syncWords c.hStop cs', cs'))
  | .stopB => (applyLabels cs [.stopStoreFrac]).map (fun cs' => (syncWords c cs', cs'))
  | .loadA => (applyLabels cs [.loadTicks]).map (fun cs' => (c, cs'))
  | .loadB => (applyLabels cs [.loadFrac]).map (fun cs' => (c, cs'))

def callerSegs : List Char → List Seg
  | [] => []
  | 't' :: r => .loadA :: .loadB :: callerSegs r
  | 's' :: r => .stopA :: .stopB :: callerSegs r
  | _ :: r => callerSegs r

/-- run a schedule of grants ('A' audio, 'C' caller); leftovers run audio first, then caller -/
def runSched (c : Clock Float) (cs : CS Float) (aud caller : List Seg) : List Char → Option (Clock Float × CS Float)
  | [] =>
    (aud ++ caller).foldlM (fun (p : Clock Float × CS Float) sg => segStep p.1 p.2 sg) (c, cs)
  | g :: rest =>
    if g == 'A' then
      match aud with
      | [] => runSched c cs aud caller rest
      | sg :: aud' => (segStep c cs sg).bind (fun p => runSched p.1 p.2 aud' caller rest)
    else
      match caller with
      | [] => runSched c cs aud caller rest
      | sg :: caller' => (segStep c cs sg).bind (fun p => runSched p.1 p.2 aud caller' rest)

def showRead (r : Nat × Float × Bool) : String := s!"{r.1}:{show64 r.2.1}"

def tearStepCore (st : TearState) (tok : List String) : Option (TearState × String) :=
  match tok with
  | ["new", v] => do
      let v ← parseValue codecCs v
      let c := (Clock.new v).hStart
      -- `start` then an unscheduled on_start_processing
      let cs := CS.init 0.0
      let (c, cs) ← runSched c cs [.audA, .audB] [] []
      pure ({ c := some c, cs := cs }, showClock c)
  | _ => do
    let c ← st.c
    match tok with
    | ["adv", dt] => do
        let dt ← f64? dt
        let (c', _) := c.update dt Info.empty
        pure ({ st with c := some c' }, showClock c')
    | ["pub"] => do
        let (c, cs) ← runSched c st.cs [.audA, .audB] [] []
        pure ({ c := some c, cs := cs }, showClock c)
    | ["start"] => let c := c.hStart; pure ({ st with c := some c }, showClock c)
    | ["race", prog, sched] => do
        let n0 := st.cs.reads.length
        let (c, cs) ← runSched c st.cs [.audA, .audB] (callerSegs prog.toList) sched.toList
        let reads := (cs.reads.take (cs.reads.length - n0)).reverse
        let rs := String.intercalate " " (reads.map showRead)
        pure ({ c := some c, cs := cs }, s!"r {rs} | w {cs.ticks}:{show64 cs.frac} | {showClock c}")
    | _ => none

def tearStep (st : TearState) (tok : List String) : Option (TearState × String) :=
  match tok with
  | "replay" :: enc :: _ => some (st, replayWith ({} : TearState) tearStepCore enc)
  | _ => tearStepCore st tok

end K.Exec.Clock
