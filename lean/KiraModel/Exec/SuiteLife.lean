/-
  Twin of harness suite `life` (C08): create / drop / finish histories through kira's public API
  (`AudioManager<ProbeBackend>`, callbacks on a dedicated thread) for sounds, sub-tracks (with their
  own sound storages), send tracks, clocks, modulators, listeners, with small capacities.
  The model is the composition of one resource store per kind in the order of
  `Renderer::on_start_processing` (mixer: sub-tracks → their sounds → send tracks → main-track sounds;
  clocks; listeners; modulators).
    mgr <sub> <send> <clock> <mod> <lis> <snd> | add sub <sndcap> | add send|clock|mod|lis | play <len>
    tplay <t> <len> | drop sub|send|clock|mod|lis <i> | cb <frames>
    add spat <l> <sndcap> (a spatial sub-track: the same storage as the plain ones) | playerr | tplayerr <t>
    (a play whose `into_sound()` fails: `Store.play _ none`)
    add sub <sndcap> <subcap> | add spat <l> <sndcap> <subcap> | tadd <p> sub <sndcap> <subcap> | tadd <p> spat <l> <sndcap> <subcap>
    (sub-tracks OF sub-tracks, plain or spatial, at any depth: every track has its own sub-track storage; a track leaves
    its parent's storage by `Track::should_be_removed`)
-/
import KiraModel.Exec.Proto
import KiraModel.Exec.Sched
import KiraModel.Exec.SuiteStorage
import KiraModel.Model.CommandReaders

namespace K.Exec
open K K.Proto

/-- a resource at this level: an id; sounds also have a length and a frame counter -/
structure LRes where
  id : Nat
  len : Nat := 0
  produced : Nat := 0
deriving DecidableEq, Repr

/-- one handle slot of a kind: `none` = the creation was refused -/
structure LHandle where
  id : Nat
  key : Key
  dropped : Bool := false

structure LKind where
  store : Store LRes
  keys : List Key := []           -- selfref kinds: `keys` in insertion order
  marks : List Nat := []
  handles : List (Option LHandle) := []
  nextId : Nat := 0

structure LifeState where
  live : Bool := false
  sub : LKind := ⟨Store.new 0, [], [], [], 0⟩
  send : LKind := ⟨Store.new 0, [], [], [], 0⟩
  clock : LKind := ⟨Store.new 0, [], [], [], 0⟩
  md : LKind := ⟨Store.new 0, [], [], [], 0⟩
  lis : LKind := ⟨Store.new 0, [], [], [], 0⟩
  snd : LKind := ⟨Store.new 0, [], [], [], 0⟩
  /-- the sound storage of every sub-track ever created, by sub-track id -/
  tsounds : List (Nat × Store LRes) := []
  /-- the sub-track storage of every sub-track ever created, by sub-track id (its resources carry the ids of the
      tracks in it). `sub.handles`, `sub.marks` and `sub.nextId` serve the sub-tracks of every depth. -/
  tsubs : List (Nat × Store LRes) := []
  nextSound : Nat := 0

def LKind.new (cap : Nat) : LKind := ⟨Store.new cap, [], [], [], 0⟩

/-- create a resource of a kind: `insert` (= `try_reserve` + `insert_with_key`) -/
def LKind.add (k : LKind) (r : LRes) : Except SFault (LKind × Bool) :=
  match k.store.insert r with
  | .error e => .error e
  | .ok (none, s) => .ok ({ k with store := s, handles := k.handles ++ [none], nextId := k.nextId + 1 }, false)
  | .ok (some key, s) =>
    .ok ({ k with store := s, handles := k.handles ++ [some ⟨r.id, key, false⟩], nextId := k.nextId + 1 }, true)

def LKind.drop (k : LKind) (i : Nat) : LKind × Bool :=
  match k.handles[i]? with
  | some (some h) =>
    if h.dropped then (k, false)
    else ({ k with marks := h.id :: k.marks, handles := k.handles.set i (some { h with dropped := true }) }, true)
  | _ => (k, false)

def LKind.test (k : LKind) : LRes → Bool := fun r => k.marks.contains r.id

/-- plain storage kinds -/
def LKind.raa (k : LKind) : Except SFault LKind :=
  match k.store.removeAndAdd k.test with
  | .error e => .error e
  | .ok s => .ok { k with store := s }

/-- self-referential storage kinds (clocks, modulators, listeners) -/
def LKind.raaSelf (k : LKind) : Except SFault LKind :=
  match (SelfStore.mk k.store k.keys ⟨dummyId, 0, 0⟩).removeAndAdd k.test with
  | .error e => .error e
  | .ok ss => .ok { k with store := ss.base, keys := ss.keys }

def finishedSound (r : LRes) : Bool := decide (r.len ≤ r.produced)

def advance (frames : Nat) (s : Store LRes) : Store LRes :=
  { s with arena := s.arena.mapData (fun r => { r with produced := r.produced + frames }) }

/-- the builder default of `sound_capacity` / `sub_track_capacity` -/
def defaultTrackCapacity : Nat := 128

def setStore (ts : List (Nat × Store LRes)) (id : Nat) (s : Store LRes) : List (Nat × Store LRes) :=
  ts.map (fun p => if p.1 == id then (p.1, s) else p)

/-- mirrors: backend/resources.rs::ResourceStorage::has_pending -/
def hasPending (s : Store LRes) : Bool := !s.newRing.items.isEmpty

/-- mirrors: track/sub.rs::Track::should_be_removed (tracks that do not persist until their sounds finish):
    no sub-track waiting to be added, every sub-track in the arena removable, the handle dropped -/
def shouldRemove (marks : List Nat) (tsubs : List (Nat × Store LRes)) : Nat → Nat → Bool
  | 0, _ => false
  | fuel + 1, id =>
    match tsubs.lookup id with
    | none => marks.contains id
    | some s => !hasPending s && s.iter.all (fun p => shouldRemove marks tsubs fuel p.2.id) && marks.contains id

/-- mirrors: track/sub.rs::Track::on_start_processing of the track `id` and, recursively, of every track in its
    sub-track arena: `sounds.remove_and_add(finished)`, `sub_tracks.remove_and_add(should_be_removed)`, the children -/
def trackOnStart (marks : List Nat) (n : Nat) : Nat → List (Nat × Store LRes) × List (Nat × Store LRes) → Nat →
    Except SFault (List (Nat × Store LRes) × List (Nat × Store LRes))
  | 0, ts, _ => .ok ts
  | fuel + 1, (tsounds, tsubs), id => do
    let tsounds1 ← (match tsounds.lookup id with
      | none => Except.ok tsounds
      | some s => match s.removeAndAdd finishedSound with
        | .error e => Except.error e
        | .ok s' => Except.ok (setStore tsounds id s'))
    match tsubs.lookup id with
    | none => pure (tsounds1, tsubs)
    | some s =>
      match s.removeAndAdd (fun r => shouldRemove marks tsubs n r.id) with
      | .error e => Except.error e
      | .ok s' =>
        (s'.iter.map (·.2.id)).foldlM (fun acc c => trackOnStart marks n fuel acc c) (tsounds1, setStore tsubs id s')

/-- the tracks that are processed in a callback: those in the mixer's arena, and those in the arena of a processed track -/
def activeTracks (tsubs : List (Nat × Store LRes)) : Nat → List Nat → List Nat
  | 0, ids => ids
  | fuel + 1, ids =>
    ids ++ activeTracks tsubs fuel (ids.flatMap (fun id => match tsubs.lookup id with
      | none => []
      | some s => s.iter.map (·.2.id)))

def resolves (k : LKind) : String :=
  let bits := k.handles.filterMap (fun h => h.map (fun h => if (k.store.arena.get? h.key).isSome then "1" else "0"))
  if bits.isEmpty then "-" else String.join bits

def lifeCb (st : LifeState) (frames : Nat) : Except SFault (LifeState × String) := do
  let n := st.sub.nextId + 1
  -- mirrors: backend/resources/mixer.rs::Mixer::on_start_processing: `sub_tracks.remove_and_add(should_be_removed)`, then every
  -- sub-track in the arena (and, recursively, the tracks in its arena)
  let sub ← (match st.sub.store.removeAndAdd (fun r => shouldRemove st.sub.marks st.tsubs n r.id) with
    | .error e => Except.error e
    | .ok s => Except.ok { st.sub with store := s })
  let top := sub.store.iter.map (·.2.id)
  let (ts, tsubs) ← top.foldlM (fun acc c => trackOnStart st.sub.marks n n acc c) (st.tsounds, st.tsubs)
  let inArena := activeTracks tsubs n top
  let send ← st.send.raa
  let snd ← (match st.snd.store.removeAndAdd finishedSound with
    | .error e => Except.error e
    | .ok s => Except.ok { st.snd with store := s })
  let clock ← st.clock.raaSelf
  let lis ← st.lis.raaSelf
  let md ← st.md.raaSelf
  -- process: every sound that is in an arena of the main track or of a sub-track in the arena advances
  let snd := { snd with store := advance frames snd.store }
  let ts := ts.map (fun p => if inArena.contains p.1 then (p.1, advance frames p.2) else p)
  let st' : LifeState := { st with sub := sub, send := send, snd := snd, clock := clock, lis := lis, md := md, tsounds := ts, tsubs := tsubs }
  let counts (stores : List (Nat × Store LRes)) : String :=
    let cs := sub.handles.filterMap (fun h => match h with
      | some h => if h.dropped then none else (stores.lookup h.id).map (fun s => toString s.len)
      | none => none)
    if cs.isEmpty then "-" else String.intercalate "." cs
  pure (st', s!"n sub={sub.store.len} send={send.store.len} clock={clock.store.len} mod={md.store.len} snd={snd.store.len} t={counts ts} s={counts tsubs} clk={resolves clock} md={resolves md}")

def showPlay : Store.PlayResult → String
  | .intoSoundError => "err"
  | .limit => "limit"
  | .ok _ => "ok"

/-- a (plain or spatial) sub-track of the mixer with sound capacity `sc` and sub-track capacity `tc`.
    mirrors: manager.rs::AudioManager::add_sub_track / add_spatial_sub_track, track/sub/builder.rs::TrackBuilder::build,
    track/sub/spatial_builder.rs::SpatialTrackBuilder::build (each storage sized by its own capacity field) -/
def addTop (st : LifeState) (sc tc : Nat) : Except SFault (LifeState × String) :=
  match st.sub.add ⟨st.sub.nextId, 0, 0⟩ with
  | .error e => .error e
  | .ok (k, ok) =>
    let st' := { st with sub := k,
                         tsounds := if ok then st.tsounds ++ [(st.sub.nextId, Store.new sc)] else st.tsounds,
                         tsubs := if ok then st.tsubs ++ [(st.sub.nextId, Store.new tc)] else st.tsubs }
    .ok (st', s!"{if ok then "ok" else "limit"} n={k.store.len}{if ok then s!" cap={sc}/{tc}" else ""}")

/-- a (plain or spatial) sub-track of the `p`-th sub-track (of any depth).
    mirrors: track/sub/handle.rs::TrackHandle::add_sub_track / add_spatial_sub_track and the same two of
    track/sub/spatial_handle.rs::SpatialTrackHandle -/
def addChild (st : LifeState) (p sc tc : Nat) : Except SFault (LifeState × String) :=
  match st.sub.handles[p]? with
  | some (some h) =>
    if h.dropped then .ok (st, "skip") else
    match st.tsubs.lookup h.id with
    | none => .ok (st, "skip")
    | some s =>
      let id := st.sub.nextId
      match s.insert ⟨id, 0, 0⟩ with
      | .error e => .error e
      | .ok (r, s') =>
        let ok := r.isSome
        let handle : Option LHandle := r.map (fun key => ⟨id, key, false⟩)
        let st' := { st with sub := { st.sub with handles := st.sub.handles ++ [handle], nextId := id + 1 },
                             tsubs := (setStore st.tsubs h.id s') ++ (if ok then [(id, Store.new tc)] else []),
                             tsounds := if ok then st.tsounds ++ [(id, Store.new sc)] else st.tsounds }
        .ok (st', s!"{if ok then "ok" else "limit"} n={s'.len}{if ok then s!" cap={sc}/{tc}" else ""}")
  | _ => .ok (st, "skip")

def lifeStepE (st : LifeState) (tok : List String) : Option (Except SFault (LifeState × String)) :=
  match tok with
  | ["mgr", a, b, c, d, e, f] => do
      let a ← nat? a; let b ← nat? b; let c ← nat? c; let d ← nat? d; let e ← nat? e; let f ← nat? f
      pure (.ok ({ live := true, sub := .new a, send := .new b, clock := .new c, md := .new d, lis := .new e, snd := .new f }, "ok"))
  | ["add", "sub", sc] => do
      let sc ← nat? sc
      pure (addTop st sc defaultTrackCapacity)
  | ["add", "sub", sc, tc] => do
      let sc ← nat? sc; let tc ← nat? tc
      pure (addTop st sc tc)
  | ["add", "spat", l, sc] => do
      -- a spatial sub-track lives in the same storage as the plain ones; it needs the id of a listener
      -- that was created (the l-th `add lis` succeeded)
      let l ← nat? l; let sc ← nat? sc
      match st.lis.handles[l]? with
      | some (some _) => pure (addTop st sc defaultTrackCapacity)
      | _ => pure (.ok (st, "skip"))
  | ["add", "spat", l, sc, tc] => do
      let l ← nat? l; let sc ← nat? sc; let tc ← nat? tc
      match st.lis.handles[l]? with
      | some (some _) => pure (addTop st sc tc)
      | _ => pure (.ok (st, "skip"))
  | ["tadd", p, "sub", sc, tc] => do
      let p ← nat? p; let sc ← nat? sc; let tc ← nat? tc
      pure (addChild st p sc tc)
  | ["tadd", p, "spat", l, sc, tc] => do
      let p ← nat? p; let l ← nat? l; let sc ← nat? sc; let tc ← nat? tc
      match st.lis.handles[l]? with
      | some (some _) => pure (addChild st p sc tc)
      | _ => pure (.ok (st, "skip"))
  | ["add", kind] =>
      let go (k : LKind) (set : LKind → LifeState) (showN : Bool) : Except SFault (LifeState × String) :=
        match k.add ⟨k.nextId, 0, 0⟩ with
        | .error e => .error e
        | .ok (k', ok) =>
          -- selfref kinds keep `keys` in insertion order; the key is appended when the audio thread picks it up
          .ok (set k', (if ok then "ok" else "limit") ++ (if showN then s!" n={k'.store.len}" else ""))
      if kind == "send" then some (go st.send (fun k => { st with send := k }) true)
      else if kind == "clock" then some (go st.clock (fun k => { st with clock := k }) true)
      else if kind == "mod" then some (go st.md (fun k => { st with md := k }) true)
      else if kind == "lis" then some (go st.lis (fun k => { st with lis := k }) false)
      else none
  | ["play", len] => do
      let len ← nat? len
      pure (match st.snd.add ⟨st.nextSound, len, 0⟩ with
        | .error e => .error e
        | .ok (k, ok) => .ok ({ st with snd := k, nextSound := st.nextSound + 1 }, s!"{if ok then "ok" else "limit"} n={k.store.len}"))
  | ["playerr"] =>
      -- `into_sound()` fails: `play` returns before the main track's sound storage is touched
      some (match st.snd.store.play none with
        | .error e => .error e
        | .ok (r, s') => .ok ({ st with snd := { st.snd with store := s' } }, s!"{showPlay r} n={s'.len}"))
  | ["tplayerr", t] => do
      let t ← nat? t
      match st.sub.handles[t]? with
      | some (some h) =>
        if h.dropped then pure (.ok (st, "skip")) else
        match st.tsounds.lookup h.id with
        | none => pure (.ok (st, "skip"))
        | some s =>
          pure (match s.play none with
            | .error e => .error e
            | .ok (r, s') =>
              let ts := st.tsounds.map (fun p => if p.1 == h.id then (p.1, s') else p)
              .ok ({ st with tsounds := ts }, s!"{showPlay r} n={s'.len}"))
      | _ => pure (.ok (st, "skip"))
  | ["tplay", t, len] => do
      let t ← nat? t; let len ← nat? len
      match st.sub.handles[t]? with
      | some (some h) =>
        if h.dropped then pure (.ok (st, "skip")) else
        match st.tsounds.lookup h.id with
        | none => pure (.ok (st, "skip"))
        | some s =>
          pure (match s.insert ⟨st.nextSound, len, 0⟩ with
            | .error e => .error e
            | .ok (r, s') =>
              let ts := st.tsounds.map (fun p => if p.1 == h.id then (p.1, s') else p)
              .ok ({ st with tsounds := ts, nextSound := st.nextSound + 1 },
                s!"{if r.isSome then "ok" else "limit"} n={s'.len}"))
      | _ => pure (.ok (st, "skip"))
  | ["drop", kind, i] => do
      let i ← nat? i
      let go (k : LKind) (set : LKind → LifeState) : Except SFault (LifeState × String) :=
        let (k', ok) := k.drop i
        .ok (set k', if ok then "ok" else "skip")
      if kind == "sub" then some (go st.sub (fun k => { st with sub := k }))
      else if kind == "send" then some (go st.send (fun k => { st with send := k }))
      else if kind == "clock" then some (go st.clock (fun k => { st with clock := k }))
      else if kind == "mod" then some (go st.md (fun k => { st with md := k }))
      else if kind == "lis" then some (go st.lis (fun k => { st with lis := k }))
      else none
  | ["cb", frames] => do
      let frames ← nat? frames
      pure (lifeCb st frames)
  | _ => none

def lifeStep (st : LifeState) (tok : List String) : Option (LifeState × String) :=
  match lifeStepE st tok with
  | none => none
  | some (.ok r) => some r
  | some (.error e) => some (st, fault e)

end K.Exec
