/-
  Sched.lean — the deterministic two-thread schedule used by the `par …` ops of the concurrency
  suites.  Thread `false` = gameplay (G), `true` = audio (A).  A thread's code is cut into
  *segments* at the yield sites of /repo (`verif_hooks::yield_point`); the script says whose
  segment runs next; an entry for a finished thread is skipped; when the script is exhausted G
  runs to its end, then A.  The Rust side (harness/src/sched.rs) implements the same rule with two
  real threads and a baton.
-/
namespace K.Exec

/-- `fin t` = thread has ended; `seg who t w` runs the next segment of thread `who`. -/
def sched {T W : Type} (fin : T → Bool) (seg : Bool → T → W → T × W) :
    Nat → List Bool → T → T → W → T × T × W
  | 0, _, g, a, w => (g, a, w)
  | n + 1, script, g, a, w =>
    if fin g && fin a then (g, a, w) else
    match script with
    | e :: rest =>
      if e then
        if fin a then sched fin seg n rest g a w
        else let (a', w') := seg true a w; sched fin seg n rest g a' w'
      else
        if fin g then sched fin seg n rest g a w
        else let (g', w') := seg false g w; sched fin seg n rest g' a w'
    | [] =>
      if !fin g then let (g', w') := seg false g w; sched fin seg n [] g' a w'
      else let (a', w') := seg true a w; sched fin seg n [] g a' w'

/-- parse a script: a word over {g, a} (`-` = empty) -/
def parseScript (s : String) : Option (List Bool) :=
  if s == "-" then some [] else
  s.toList.mapM (fun c => if c == 'g' then some false else if c == 'a' then some true else none)

/-- split `x,y,z` (`-` = empty list) -/
def splitList (s : String) : List String :=
  if s == "-" || s.isEmpty then [] else s.splitOn ","

/-- split a token list at the separator token `;` -/
def splitSemi : List String → List (List String)
  | [] => [[]]
  | t :: rest =>
    if t == ";" then [] :: splitSemi rest
    else match splitSemi rest with
      | [] => [[t]]
      | x :: xs => (t :: x) :: xs

/-- `seq <op> ; <op> ; …`: several ops on one line, results joined by ` ; ` (stops at a fault) -/
def withSeq {σ : Type} (step : σ → List String → Option (σ × String)) (st : σ) (tok : List String) :
    Option (σ × String) :=
  match tok with
  | "seq" :: rest =>
    let rec go (st : σ) (ops : List (List String)) (acc : List String) : Option (σ × String) :=
      match ops with
      | [] => some (st, String.intercalate " ; " acc.reverse)
      | op :: more =>
        match step st op with
        | none => none
        | some (st', r) =>
          if r.startsWith "fault" then some (st', r) else go st' more (r :: acc)
    go st (splitSemi rest) []
  | _ => step st tok

end K.Exec
