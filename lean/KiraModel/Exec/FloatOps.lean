/-
  FloatOps.lean — the IEEE-754 interpretation of the model (`KOps Float`), used by the
  executable twin.  `f32` values are carried as `Float` values that are exactly
  representable in binary32; `r32` rounds to binary32.  For `+ - * / sqrt` computing in
  binary64 and rounding once to binary32 equals the native binary32 operation.
-/
import KiraModel.Num

namespace K

/-- exact `Duration::from_secs_f64` (round half to even on nanoseconds); 0 for negative/NaN -/
def durFromSecsFloat (x : Float) : Nat :=
  if x.isNaN || x < 0.0 || x.isInf then 0 else
  let bits := x.toBits.toNat
  let mantField := bits % (2 ^ 52)
  let expField := (bits / 2 ^ 52) % 2048
  if expField == 0 then 0 else
  let mant := mantField + 2 ^ 52
  -- value = mant * 2^(expField - 1075)
  let num := mant * 1000000000
  if expField ≥ 1075 then num * 2 ^ (expField - 1075)
  else
    let sh := 1075 - expField
    let d := 2 ^ sh
    let q := num / d
    let r := num % d
    let half := d / 2
    if r > half then q + 1
    else if r == half then (if q % 2 == 0 then q else q + 1)
    else q

@[inline] def f32r (x : Float) : Float := x.toFloat32.toFloat

instance : KOps Float where
  r32 := f32r
  sqrt := Float.sqrt
  pow := Float.pow
  pow32 a b := (Float32.pow a.toFloat32 b.toFloat32).toFloat
  tan := Float.tan
  exp := Float.exp
  sin := Float.sin
  log10_32 a := (Float32.log10 a.toFloat32).toFloat
  exp32 a := (Float32.exp a.toFloat32).toFloat
  floor := Float.floor
  ceil := Float.ceil
  abs := Float.abs
  isNaN := Float.isNaN
  ofNat := Float.ofNat
  toNatSat x := x.toUInt64.toNat
  durFromSecs := durFromSecsFloat
  pi := Float.ofBits 0x400921FB54442D18
  sqrt2_32 := Float.ofBits 0x3FF6A09E60000000
  sin32 a := (Float32.sin a.toFloat32).toFloat
  cos32 a := (Float32.cos a.toFloat32).toFloat
  isFinite := Float.isFinite
  satU64 n := if n < 18446744073709551615 then n else 18446744073709551615

end K
