/-
  Twin of harness suite `deliver` (C07, component level): which commands a component applies in
  which callback.  Components driven through kira's public API: a sub-track (`set_volume`), a static
  sound (`seek_by`), a clock (`start`/`pause` = `set_ticking`), a streaming sound (`seek_to`, read by
  the decoder thread).  Each command kind is one channel of the component's product; a callback reads
  every channel of every component that the audio thread has picked up, once.
    mgr | newt | news | newc | tvol <k> | sseek | ctick <0|1> | cb <frames>
    stplay short|long | stseek | stcheck
-/
import KiraModel.Exec.Proto
import KiraModel.Exec.Sched
import KiraModel.Model.CommandReaders

namespace K.Exec
open K K.Proto K.Chan

structure DeliverState where
  /-- sub-track: exists?, its `set_volume` channel, the volume step currently applied -/
  t : Option (Chan.St Nat × Nat) := none
  /-- static sound: exists?, its `seek_by` channel, seeks applied so far, seeks applied before the latest callback -/
  s : Option (Chan.St Nat × Nat × Nat) := none
  /-- clock: exists?, its `set_ticking` channel, ticking -/
  c : Option (Chan.St Nat × Nat) := none
  /-- streaming sound: the decoder thread's view -/
  d : Option (Cmd.Decoder Nat) := none
  seq : Nat := 0

def snakeStatic : Cmd.StaticKind → String
  | .setVolume => "set_volume" | .setPlaybackRate => "set_playback_rate" | .setPanning => "set_panning"
  | .setLoopRegion => "set_loop_region" | .pause => "pause" | .resume => "resume" | .stop => "stop"
  | .seekBy => "seek_by" | .seekTo => "seek_to"
def snakeStream : Cmd.StreamKind → String
  | .setVolume => "set_volume" | .setPlaybackRate => "set_playback_rate" | .setPanning => "set_panning"
  | .setLoopRegion => "set_loop_region" | .pause => "pause" | .resume => "resume" | .stop => "stop"
  | .seekBy => "seek_by" | .seekTo => "seek_to"
def snakeTrack : Cmd.TrackKind → String
  | .setVolume => "set_volume" | .setPosition => "set_position"
  | .setSpatializationStrength => "set_spatialization_strength" | .pause => "pause" | .resume => "resume"
def snakeClock : Cmd.ClockKind → String
  | .setSpeed => "set_speed" | .setTicking => "set_ticking" | .reset => "reset"
def snakeListener : Cmd.ListenerKind → String
  | .setPosition => "set_position" | .setOrientation => "set_orientation"
def snakeLfo : Cmd.LfoKind → String
  | .setWaveform => "set_waveform" | .setFrequency => "set_frequency" | .setAmplitude => "set_amplitude"
  | .setOffset => "set_offset" | .setPhase => "set_phase"
def snakeFilter : Cmd.FilterKind → String
  | .setMode => "set_mode" | .setCutoff => "set_cutoff" | .setResonance => "set_resonance" | .setMix => "set_mix"

/-- the reader list of a component as Model/CommandReaders.lean has it (the harness extracts the same
    list from /repo's source) -/
def readersOf (c : String) : Option String :=
  let j := fun (l : List String) => String.intercalate "," l
  match c with
  | "static" => some (j (Cmd.staticReaders.map snakeStatic))
  | "stream_sound" => some (j (Cmd.streamSoundReaders.map snakeStream))
  | "stream_decoder" => some (j (Cmd.streamDecoderReaders.map snakeStream))
  | "track" => some (j ((Cmd.trackReaders true).map snakeTrack))
  | "clock" => some (j (Cmd.clockReaders.map snakeClock))
  | "listener" => some (j (Cmd.listenerReaders.map snakeListener))
  | "lfo" => some (j (Cmd.lfoReaders.map snakeLfo))
  | "tweener" => some (j (Cmd.tweenerReaders.map (fun _ => "set")))
  | "filter" => some (j (Cmd.filterReaders.map snakeFilter))
  | _ => none

def deliverStep (st : DeliverState) (tok : List String) : Option (DeliverState × String) :=
  match tok with
  | ["readers", c] => (readersOf c).map (fun r => (st, r))
  | ["mgr"] => some ({}, "ok")
  | ["newt"] => some ({ st with t := some (Chan.init, 0) }, "ok")
  | ["news"] => some ({ st with s := some (Chan.init, 0, 0) }, "ok")
  | ["newc"] => some ({ st with c := some (Chan.init, 0) }, "ok")
  | ["tvol", k] => do
      let k ← nat? k
      match st.t with
      | none => pure (st, "skip")
      | some (ch, v) => pure ({ st with t := some (writeOp ch k, v) }, "ok")
  | ["sseek"] =>
      match st.s with
      | none => some (st, "skip")
      | some (ch, n, p) => some ({ st with s := some (writeOp ch 1, n, p) }, "ok")
  | ["ctick", b] => do
      let b ← nat? b
      match st.c with
      | none => pure (st, "skip")
      | some (ch, v) => pure ({ st with c := some (writeOp ch b, v) }, "ok")
  | ["cb", _] =>
      -- every component created so far is picked up (or already there) and reads its readers once
      let t' := st.t.map (fun (ch, v) => let r := readOp ch; (r.1, r.2.getD v))
      let s' := st.s.map (fun (ch, n, _) => let r := readOp ch; (r.1, n + (if r.2.isSome then 1 else 0), n))
      let c' := st.c.map (fun (ch, v) => let r := readOp ch; (r.1, r.2.getD v))
      let vol := match t' with | some (_, v) => toString v | none => "-"
      -- the position a static sound publishes is the one it had *before* this callback's commands
      let seeks := match s' with | some (_, _, p) => toString p | none => "-"
      let tick := match c' with | some (_, v) => toString v | none => "-"
      some ({ st with t := t', s := s', c := c' }, s!"vol={vol} seeks={seeks} tick={tick}")
  | ["stplay", kind] =>
      -- `short`: the decoder thread decodes everything at once and exits (`NextStep::End`);
      -- `long`: it fills its ring and keeps running
      some ({ st with d := some { chans := Chan.Prod.init, stopped := false, ended := kind == "short", ringFull := false } }, "ok")
  | ["stseek"] =>
      match st.d with
      | none => some (st, "skip")
      | some d => some ({ st with d := some { d with chans := d.chans.writeOp .seekTo 1 } }, "ok")
  | ["stcheck"] =>
      match st.d with
      | none => some (st, "skip")
      | some d =>
        let (d', rs) := d.steps [false]
        let got := rs.any (fun r => r.1 == Cmd.StreamKind.seekTo && r.2.isSome)
        some ({ st with d := some d' }, s!"seek={if got then 1 else 0}")
  | _ => none

end K.Exec
