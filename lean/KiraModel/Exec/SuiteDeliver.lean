/-
  Twin of harness suite `deliver` (C07, component level): which commands a component applies in
  which callback.  Components driven through kira's public API: a sub-track (`set_volume`), a static
  sound (`seek_by`), a clock (`start`/`pause` = `set_ticking`), a streaming sound (`seek_to`, read by
  the decoder thread).  Each command kind is one channel of the component's product; a callback reads
  every channel of every component that the audio thread has picked up, once.
    mgr | newt | news | newc | tvol <k> | sseek | ctick <0|1> | cb <frames>
    stplay short|long | stseek | stcheck
    sthook | stcmd by|to <k> | ststep      (the decoder loop stepped by hand: `Cmd.Decoder.step`)
  Real static sounds (audible on the right channel only) on the main track, on a sub-track and on a
  sub-track of that sub-track; each is a `Cmd.StaticComp` (channels + `StaticSound` model) living in the
  sound storage (`Store`) of its track; a callback is `Cmd.soundsOnStart` of every track, then
  `process` in chunks of the internal buffer size:
    addt sub|nest | play <slot> main|sub|nest | sc <slot> pause|resume|stop|seekby <k>|seekto <k>|vol <k>|rate <k>
-/
import KiraModel.Exec.Proto
import KiraModel.Exec.Sched
import KiraModel.Model.CommandReaders
import KiraModel.Model.SoundDelivery

namespace K.Exec
open K K.Proto K.Chan

structure DeliverState where
  /-- a manager exists (`mgr` was executed) -/
  live : Bool := false
  /-- sub-track: exists?, its `set_volume` channel, the volume step currently applied -/
  t : Option (Chan.St Nat × Nat) := none
  /-- static sound: exists?, its `seek_by` channel, seeks applied so far, seeks applied before the latest callback -/
  s : Option (Chan.St Nat × Nat × Nat) := none
  /-- clock: exists?, its `set_ticking` channel, ticking -/
  c : Option (Chan.St Nat × Nat) := none
  /-- streaming sound: the decoder thread's view -/
  d : Option (Cmd.Decoder Nat) := none
  seq : Nat := 0
  /-- the sound storages of the main track, of the sub-track `sub` and of its child `nest` -/
  main : Store (Cmd.StaticComp Float) := Store.new 128
  sub : Option (Store (Cmd.StaticComp Float)) := none
  nest : Option (Store (Cmd.StaticComp Float)) := none
  /-- per handle slot: what `state()` / `position()` report -/
  hs : List (Option (Nat × Float)) := [none, none, none, none]

def snakeStatic : Cmd.StaticKind → String
  | .setVolume => "set_volume" | .setPlaybackRate => "set_playback_rate" | .setPanning => "set_panning"
  | .setLoopRegion => "set_loop_region" | .pause => "pause" | .resume => "resume" | .stop => "stop"
  | .seekBy => "seek_by" | .seekTo => "seek_to"
def snakeStream : Cmd.StreamKind → String
  | .setVolume => "set_volume" | .setPlaybackRate => "set_playback_rate" | .setPanning => "set_panning"
  | .setLoopRegion => "set_loop_region" | .pause => "pause" | .resume => "resume" | .stop => "stop"
  | .seekBy => "seek_by" | .seekTo => "seek_to"
def snakeTrack : Cmd.TrackKind → String
  | .setVolume => "set_volume" | .setPosition => "set_position"
  | .setSpatializationStrength => "set_spatialization_strength" | .pause => "pause" | .resume => "resume"
def snakeClock : Cmd.ClockKind → String
  | .setSpeed => "set_speed" | .setTicking => "set_ticking" | .reset => "reset"
def snakeListener : Cmd.ListenerKind → String
  | .setPosition => "set_position" | .setOrientation => "set_orientation"
def snakeLfo : Cmd.LfoKind → String
  | .setWaveform => "set_waveform" | .setFrequency => "set_frequency" | .setAmplitude => "set_amplitude"
  | .setOffset => "set_offset" | .setPhase => "set_phase"
def snakeFilter : Cmd.FilterKind → String
  | .setMode => "set_mode" | .setCutoff => "set_cutoff" | .setResonance => "set_resonance" | .setMix => "set_mix"

/-- the reader list of a component as Model/CommandReaders.lean has it (the harness extracts the same
    list from /repo's source) -/
def readersOf (c : String) : Option String :=
  let j := fun (l : List String) => String.intercalate "," l
  match c with
  | "static" => some (j (Cmd.staticReaders.map snakeStatic))
  | "stream_sound" => some (j (Cmd.streamSoundReaders.map snakeStream))
  | "stream_decoder" => some (j (Cmd.streamDecoderReaders.map snakeStream))
  | "track" => some (j ((Cmd.trackReaders true).map snakeTrack))
  | "clock" => some (j (Cmd.clockReaders.map snakeClock))
  | "listener" => some (j (Cmd.listenerReaders.map snakeListener))
  | "lfo" => some (j (Cmd.lfoReaders.map snakeLfo))
  | "tweener" => some (j (Cmd.tweenerReaders.map (fun _ => "set")))
  | "filter" => some (j (Cmd.filterReaders.map snakeFilter))
  | _ => none

/-! ### real static sounds -/

/-- the frames of every static sound of the suite: 60 000 × (0, 0.125) at 1000 Hz -/
def deliverFrames : Array (Frame Float) := Array.replicate 60000 ⟨0.0, 0.125⟩

/-- `StaticSoundData { sample_rate: 1000, frames, settings: Default::default(), slice: None }` -/
def deliverSoundData : StaticSoundData Float :=
  { sampleRate := 1000, frames := deliverFrames, slice := none,
    settings := { startTime := .immediate, startPosition := .seconds 0.0, loopRegion := none, reverse := false,
                  volume := .fixed 0.0, playbackRate := .fixed 1.0, panning := .fixed 0.0, fadeInTween := none } }

/-- `Tween { duration: Duration::ZERO, ..Default::default() }` -/
def instantTween : Tween Float := ⟨.immediate, 0, .linear⟩

def deliverFuel : Nat := 1048576

/-- `sc <slot> <cmd> [k]` -/
def parseSoundCmd : List String → Option (Command Float)
  | ["pause"] => some (.pause instantTween)
  | ["resume"] => some (.resume .immediate instantTween)
  | ["stop"] => some (.stop instantTween)
  | ["seekby", k] => (int? k).map (fun k => .seekBy (Float.ofInt k))
  | ["seekto", k] => (nat? k).map (fun k => .seekTo (Float.ofNat k))
  | ["vol", k] => (nat? k).map (fun k => .setVolume (.fixed (Float.ofInt (-(6 * (k : Int))))) instantTween)
  | ["rate", k] => (nat? k).map (fun k => .setPlaybackRate (.fixed (Float.ofNat k)) instantTween)
  | _ => none

abbrev SndStore := Store (Cmd.StaticComp Float)

/-- `process` of every sound in the arena on a chunk of `n` frames -/
def procChunk (n : Nat) (s : SndStore) : SndStore :=
  { s with arena := s.arena.mapData (fun c => c.process deliverFuel n (1.0 / 1000.0) Info.empty) }

/-- `Renderer::process`: chunks of the internal buffer size (8), the last one possibly shorter -/
def procChunks (frames : Nat) (s : SndStore) : SndStore :=
  let s := (List.range (frames / 8)).foldl (fun s _ => procChunk 8 s) s
  if frames % 8 = 0 then s else procChunk (frames % 8) s

def showHandles (hs : List (Option (Nat × Float))) : String :=
  String.intercalate "," (hs.map (fun h => match h with
    | none => "-"
    | some (st, pos) => s!"{st}:{show64 pos}"))

/-- the callback as far as the real static sounds go: `on_start_processing` of the track tree
    (mixer: sub-tracks, each: its sounds then its children; then the main track), then `process`;
    the right channel of the last output frame is the `f32` sum of the sounds' last frames in the
    order kira adds them up (child track, then the track's own sounds; the sub-tracks before the main
    track's sounds; each storage in arena iteration order). -/
def soundsCallback (st : DeliverState) (frames : Nat) : Except SFault (DeliverState × String) := do
  let sub ← st.sub.mapM Cmd.soundsOnStart
  let nest ← st.nest.mapM Cmd.soundsOnStart
  let main ← Cmd.soundsOnStart st.main
  let sub := sub.map (procChunks frames)
  let nest := nest.map (procChunks frames)
  let main := procChunks frames main
  let its := (nest.map (·.iter)).getD [] ++ (sub.map (·.iter)).getD [] ++ main.iter
  let hs := its.foldl (fun hs p => hs.set p.2.id (some (p.2.handleState, p.2.handlePosition))) st.hs
  let amp := its.foldl (fun acc p => f32r (acc + p.2.lastOut.right)) 0.0
  let flt := its.findSome? (fun p => p.2.fault)
  let line := match flt with
    | some f => "fault " ++ f.name
    | none => s!" snd={showHandles hs} amp={show32 amp}"
  pure ({ st with main := main, sub := sub, nest := nest, hs := hs }, line)

def onAllStores (st : DeliverState) (f : SndStore → SndStore) : DeliverState :=
  { st with main := f st.main, sub := st.sub.map f, nest := st.nest.map f }

/-- ops that need the manager (the harness answers `bad-op` without one) -/
def needsManager (op : String) : Bool :=
  ["cb", "newt", "news", "newc", "addt", "play", "stplay", "stcheck"].contains op

def deliverStep (st : DeliverState) (tok : List String) : Option (DeliverState × String) :=
  if !st.live && needsManager (tok.headD "") then some (st, "bad-op") else
  match tok with
  | ["readers", c] => (readersOf c).map (fun r => (st, r))
  | ["mgr"] => some ({ live := true }, "ok")
  | ["newt"] => some ({ st with t := some (Chan.init, 0) }, "ok")
  | ["news"] => some ({ st with s := some (Chan.init, 0, 0) }, "ok")
  | ["newc"] => some ({ st with c := some (Chan.init, 0) }, "ok")
  | ["tvol", k] => do
      let k ← nat? k
      match st.t with
      | none => pure (st, "skip")
      | some (ch, v) => pure ({ st with t := some (writeOp ch k, v) }, "ok")
  | ["sseek"] =>
      match st.s with
      | none => some (st, "skip")
      | some (ch, n, p) => some ({ st with s := some (writeOp ch 1, n, p) }, "ok")
  | ["ctick", b] => do
      let b ← nat? b
      match st.c with
      | none => pure (st, "skip")
      | some (ch, v) => pure ({ st with c := some (writeOp ch b, v) }, "ok")
  | ["cb", frames] =>
      -- every component created so far is picked up (or already there) and reads its readers once
      let t' := st.t.map (fun (ch, v) => let r := readOp ch; (r.1, r.2.getD v))
      let s' := st.s.map (fun (ch, n, _) => let r := readOp ch; (r.1, n + (if r.2.isSome then 1 else 0), n))
      let c' := st.c.map (fun (ch, v) => let r := readOp ch; (r.1, r.2.getD v))
      let vol := match t' with | some (_, v) => toString v | none => "-"
      -- the position a static sound publishes is the one it had *before* this callback's commands
      let seeks := match s' with | some (_, _, p) => toString p | none => "-"
      let tick := match c' with | some (_, v) => toString v | none => "-"
      let st1 : DeliverState := { st with t := t', s := s', c := c' }
      match frames.toNat? with
      | none => none
      | some n =>
        match soundsCallback st1 n with
        | .error e => some (st1, "fault " ++ e.name)
        | .ok (st2, line) =>
          if line.startsWith "fault" then some (st2, line)
          else some (st2, s!"vol={vol} seeks={seeks} tick={tick}" ++ line)
  | ["addt", "sub"] =>
      if st.sub.isSome then some (st, "skip") else some ({ st with sub := some (Store.new 128) }, "ok")
  | ["addt", "nest"] =>
      if st.sub.isNone || st.nest.isSome then some (st, "skip") else some ({ st with nest := some (Store.new 128) }, "ok")
  | ["play", slot, w] => do
      let slot ← nat? slot
      if slot ≥ st.hs.length then none else
      if (st.hs[slot]?.join).isSome then pure (st, "skip") else
      let target : Option SndStore :=
        if w == "main" then some st.main else if w == "sub" then st.sub else if w == "nest" then st.nest else none
      match target, StaticSound.new deliverSoundData with
      | none, _ => pure (st, "skip")
      | some _, .error f => pure (st, "fault " ++ f.name)
      | some store, .ok snd =>
        match store.insert (Cmd.StaticComp.new slot snd) with
        | .error e => pure (st, "fault " ++ e.name)
        | .ok (none, _) => pure (st, "limit")
        | .ok (some _, store') =>
          let st' : DeliverState :=
            if w == "main" then { st with main := store' }
            else if w == "sub" then { st with sub := some store' } else { st with nest := some store' }
          pure ({ st' with hs := st'.hs.set slot (some (0, 0.0)) }, "ok")
  | "sc" :: slot :: cmd => do
      let slot ← nat? slot
      let cmd ← parseSoundCmd cmd
      if (st.hs[slot]?.join).isNone then pure (st, "skip") else
      pure (onAllStores st (Store.mapWhere (fun c => c.id == slot) (fun c => c.write cmd)), "ok")
  | ["stplay", kind] =>
      -- `short`: the decoder thread decodes everything at once and exits (`NextStep::End`);
      -- `long`: it fills its ring and keeps running
      some ({ st with d := some { chans := Chan.Prod.init, stopped := false, ended := kind == "short", ringFull := false } }, "ok")
  | ["stseek"] =>
      match st.d with
      | none => some (st, "skip")
      | some d => some ({ st with d := some { d with chans := d.chans.writeOp .seekTo 1 } }, "ok")
  | ["stcheck"] =>
      match st.d with
      | none => some (st, "skip")
      | some d =>
        let (d', rs) := d.steps [false]
        let got := rs.any (fun r => r.1 == Cmd.StreamKind.seekTo && r.2.isSome)
        some ({ st with d := some d' }, s!"seek={if got then 1 else 0}")
  | ["sthook"] =>
      -- a stream that is not played: the ring never fills in the few steps of a case, the data never ends
      some ({ st with d := some { chans := Chan.Prod.init, stopped := false, ended := false, ringFull := false } }, "ok")
  | ["stcmd", which, k] => do
      let k ← nat? k
      match st.d with
      | none => pure (st, "skip")
      | some d =>
        if which == "by" then pure ({ st with d := some { d with chans := d.chans.writeOp .seekBy k } }, "ok")
        else if which == "to" then pure ({ st with d := some { d with chans := d.chans.writeOp .seekTo k } }, "ok")
        else pure (st, "bad-op")
  | ["ststep"] =>
      match st.d with
      | none => some (st, "skip")
      | some d =>
        let (d', rs) := d.step false
        -- every seek command read in this step makes the decoder seek once
        let n := (rs.filter (fun r => (r.1 == Cmd.StreamKind.seekBy || r.1 == Cmd.StreamKind.seekTo) && r.2.isSome)).length
        some ({ st with d := some d' }, s!"seeks={n}")
  | _ => none

end K.Exec
