/-
  Twin of harness suite `units` (C19): same ops in, same trace lines out.
-/
import KiraModel.Exec.Proto
import KiraModel.Model.Easing
import KiraModel.Model.ClockTime

namespace K.Exec
open K K.Proto

def parseEasing (s : String) : Option (Easing Float) :=
  if s == "lin" then some .linear else
  match s.splitOn ":" with
  | [k, v] =>
    match k with
    | "ipi" => (int? v).map .inPowi
    | "opi" => (int? v).map .outPowi
    | "iopi" => (int? v).map .inOutPowi
    | "ipf" => (f64? v).map .inPowf
    | "opf" => (f64? v).map .outPowf
    | "iopf" => (f64? v).map .inOutPowf
    | _ => none
  | _ => none

def parseCs (k : String) (v : Float) : Option (ClockSpeed Float) :=
  match k with
  | "spt" => some (.secondsPerTick v)
  | "tps" => some (.ticksPerSecond v)
  | "tpm" => some (.ticksPerMinute v)
  | _ => none

def showCt (t : ClockTime Float) : String := s!"{t.ticks} {show64 t.fraction}"

def unitsStep (tok : List String) : Option String :=
  match tok with
  | ["amp", x] => do let x ← f32? x; pure (show32 (asAmplitude x))
  | ["pan", l, r, p] => do
      let l ← f32? l; let r ← f32? r; let p ← f32? p
      let f := Frame.panned ⟨l, r⟩ p
      pure s!"{show32 f.left} {show32 f.right}"
  | ["mono", l, r] => do
      let l ← f32? l; let r ← f32? r
      let f := Frame.asMono (⟨l, r⟩ : Frame Float)
      pure s!"{show32 f.left} {show32 f.right}"
  | ["semi", x] => do let x ← f64? x; pure (show64 (semitonesToRate x))
  | ["cs", k, v] => do
      let v ← f64? v; let c ← parseCs k v
      pure s!"{show64 c.asSecondsPerTick} {show64 c.asTicksPerSecond} {show64 c.asTicksPerMinute}"
  | ["cslerp", ka, va, kb, vb, t] => do
      let va ← f64? va; let vb ← f64? vb; let t ← f64? t
      let a ← parseCs ka va; let b ← parseCs kb vb
      pure (match ClockSpeed.lerp a b t with
        | .secondsPerTick v => s!"spt {show64 v}"
        | .ticksPerSecond v => s!"tps {show64 v}"
        | .ticksPerMinute v => s!"tpm {show64 v}")
  | ["ct.from", x] => do let x ← f64? x; pure (showCt (ClockTime.fromTicksF64 x))
  | ["ct.add", t, f, x] => do
      let t ← nat? t; let f ← f64? f; let x ← f64? x
      pure (showCt (ClockTime.addF64 ⟨t, f⟩ x))
  | ["ct.sub", t, f, x] => do
      let t ← nat? t; let f ← f64? f; let x ← f64? x
      pure (showCt (ClockTime.subF64 ⟨t, f⟩ x))
  | ["ct.addu", t, f, n] => do
      let t ← nat? t; let f ← f64? f; let n ← nat? n
      pure (showCt (ClockTime.addU64 ⟨t, f⟩ n))
  | ["ct.subu", t, f, n] => do
      let t ← nat? t; let f ← f64? f; let n ← nat? n
      match ClockTime.subU64 (⟨t, f⟩ : ClockTime Float) n with
      | some r => pure (showCt r)
      | none => pure "fault overflow"
  | ["ct.cmp", t1, f1, t2, f2] => do
      let t1 ← nat? t1; let f1 ← f64? f1; let t2 ← nat? t2; let f2 ← f64? f2
      pure (toString (ClockTime.cmp (⟨t1, f1⟩ : ClockTime Float) ⟨t2, f2⟩))
  | ["ct.adda", t, f, x] => do
      let t ← nat? t; let f ← f64? f; let x ← f64? x
      pure (showCt (ClockTime.addAssignF64 ⟨t, f⟩ x))
  | ["ct.suba", t, f, x] => do
      let t ← nat? t; let f ← f64? f; let x ← f64? x
      pure (showCt (ClockTime.subAssignF64 ⟨t, f⟩ x))
  | ["ct.addua", t, f, n] => do
      let t ← nat? t; let f ← f64? f; let n ← nat? n
      pure (showCt (ClockTime.addAssignU64 ⟨t, f⟩ n))
  | ["ct.subua", t, f, n] => do
      let t ← nat? t; let f ← f64? f; let n ← nat? n
      match ClockTime.subAssignU64 (⟨t, f⟩ : ClockTime Float) n with
      | some r => pure (showCt r)
      | none => pure "fault overflow"
  | ["ct.fromu", n] => do let n ← nat? n; pure (showCt (ClockTime.fromTicksU64 n))
  | ["ct.ord", t1, f1, t2, f2] => do
      let t1 ← nat? t1; let f1 ← f64? f1; let t2 ← nat? t2; let f2 ← f64? f2
      let a : ClockTime Float := ⟨t1, f1⟩
      let b : ClockTime Float := ⟨t2, f2⟩
      let bit := fun (c : Bool) => if c then "1" else "0"
      pure (String.intercalate " " [bit (a.lt b), bit (a.le b), bit (a.gt b), bit (a.ge b), bit (a.eqv b)])
  | ["ct.seq", t, f, items] => do
      let t ← nat? t; let f ← f64? f
      let r ← (items.splitOn ",").foldlM (fun (acc : ClockTime Float) (item : String) =>
        let arg := (item.drop 1).toString
        match (item.take 1).toString with
        | "a" => (f64? arg).map (fun x => ClockTime.addAssignF64 acc x)
        | "s" => (f64? arg).map (fun x => ClockTime.subAssignF64 acc x)
        | "A" => (nat? arg).map (fun n => ClockTime.addAssignU64 acc n)
        | "S" => (nat? arg).bind (fun n => ClockTime.subAssignU64 acc n)
        | _ => none) (⟨t, f⟩ : ClockTime Float)
      pure (showCt r)
  | ["ease", e, x] => do let e ← parseEasing e; let x ← f64? x; pure (show64 (e.apply x))
  | ["map64", i0, i1, o0, o1, e, x] => do
      let i0 ← f64? i0; let i1 ← f64? i1; let o0 ← f64? o0; let o1 ← f64? o1
      let e ← parseEasing e; let x ← f64? x
      pure (show64 (Mapping.map64 ⟨i0, i1, o0, o1, e⟩ x))
  | ["map32", i0, i1, o0, o1, e, x] => do
      let i0 ← f64? i0; let i1 ← f64? i1; let o0 ← f32? o0; let o1 ← f32? o1
      let e ← parseEasing e; let x ← f64? x
      pure (show32 (Mapping.map32 ⟨i0, i1, o0, o1, e⟩ x))
  | ["lerp64", a, b, t] => do
      let a ← f64? a; let b ← f64? b; let t ← f64? t; pure (show64 (lerp64 a b t))
  | ["lerp32", a, b, t] => do
      let a ← f32? a; let b ← f32? b; let t ← f64? t; pure (show32 (lerp32 a b t))
  | ["tween", e, ns, t] => do
      let e ← parseEasing e; let ns ← nat? ns; let t ← f64? t
      pure (show64 (tweenValue e ns t))
  | _ => none

end K.Exec
