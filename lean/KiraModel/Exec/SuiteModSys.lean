/-
  Twin of harness suite `modsys` (C17, system level): modulators added / commanded / dropped between
  device callbacks; every callback is split into internal chunks, each chunk is `processChunk`
  (Model/ModulatorChunk.lean: modulators in insertion order, then the readers).
  Readers: the main track's volume (`Parameter<Decibels>`: observed as the gain of the constant sum of
  the sounds) and the `Parameter<f64>` of each `ParamProbeSound`.
  mirrors (glue): manager.rs::add_modulator, track/main.rs::{on_start_processing, process},
                  renderer.rs::{on_start_processing, process}
-/
import KiraModel.Exec.SuiteModulator
import KiraModel.Model.ModulatorChunk

namespace K.Exec
open K K.Proto

structure SysSt where
  ready : Bool := false
  dtFrame : Float := 0.0
  ibs : Nat := 1
  cap : Nat := 0
  /-- number of modulators allocated so far = next id = length of the probes' watch list -/
  nextId : Nat := 0
  /-- kind of each allocated modulator: 0 lfo, 1 tweener, 2 probe -/
  kinds : List Nat := []
  /-- the new-resource ring -/
  pending : ModStore (Mod Float) := []
  store : ModStore (Mod Float) := []
  dropped : List Nat := []
  lfoCmds : List (Nat × LfoCommands Float) := []
  twCmds : List (Nat × (Float × Tween Float)) := []
  mainVol : Parameter Float Float := Parameter.new (.fixed 0.0) 0.0
  mainCmd : Option (Value Float Float × Tween Float) := none
  s0 : Parameter Float Float := Parameter.new (.fixed 0.0) 0.0
  soundsPending : List (Parameter Float Float) := []
  sounds : List (Parameter Float Float) := []

def lookupCmd {β : Type} (l : List (Nat × β)) (k : Nat) : Option β :=
  (l.find? (fun e => e.1 == k)).map (·.2)

def setCmd {β : Type} (l : List (Nat × β)) (k : Nat) (b : β) : List (Nat × β) :=
  (k, b) :: l.filter (fun e => e.1 != k)

def seenStr (l : List (Option Float)) : String :=
  String.intercalate "," (l.map (fun v => match v with | some x => show64 x | none => "-"))

def sysAdd (st : SysSt) (kind : Nat) (m : Mod Float) : SysSt × String :=
  if st.pending.length + st.store.length < st.cap then
    ({ st with nextId := st.nextId + 1, kinds := st.kinds ++ [kind],
               pending := st.pending ++ [(st.nextId, m)] }, s!"ok {st.nextId}")
  else (st, "full")

def hasHandle (st : SysSt) (k kind : Nat) : Bool :=
  st.kinds[k]? == some kind && !st.dropped.contains k

/-- mirrors: Modulators::on_start_processing on the twin's store (commands held per id) -/
def modsOnStart (st : SysSt) : ModStore (Mod Float) :=
  let s := ModStore.removeAndAdd st.store (fun id => st.dropped.contains id) st.pending
  s.map (fun e =>
    match e.2 with
    | .lfo l => (e.1, .lfo (l.onStartProcessing ((lookupCmd st.lfoCmds e.1).getD {})))
    | .tweener t => (e.1, .tweener (t.onStartProcessing (lookupCmd st.twCmds e.1)))
    | m => (e.1, m))

def setWatch (n : Nat) (s : ModStore (Mod Float)) : ModStore (Mod Float) :=
  s.map (fun e =>
    match e.2 with
    | .counter c _ seen => (e.1, .counter c (List.range n) seen)
    | m => (e.1, m))

def findMod (s : ModStore (Mod Float)) (id : Nat) : Option (Mod Float) :=
  (s.find? (fun e => e.1 == id)).map (·.2)

/-- one internal chunk: new state and its trace fragment -/
def sysChunk (st : SysSt) (n : Nat) : SysSt × String :=
  let mods := setWatch st.nextId st.store
  let readers : List (Reader Float) := (tw32, st.mainVol) :: (tw64, st.s0) :: st.sounds.map (fun p => (tw64, p))
  let cs : ChunkState (Mod Float) Float := { mods := mods, clockParams := [], listenerParams := [], mixerParams := readers }
  let bases : ChunkBases Float := ⟨Info.empty, Info.empty, Info.empty, Info.empty⟩
  let (cs', events) := processChunk Mod.ops st.dtFrame n bases cs
  let dt := st.dtFrame * Float.ofNat n
  let us := events.filterMap (fun ev =>
    match ev with
    | .modulator id =>
      match findMod cs'.mods id with
      | some (.counter c _ seen) => some s!"{id}@{show64 dt}:{show64 c}:{seenStr seen}"
      | _ => none
    | _ => none)
  let rinfo := readerInfo Mod.ops Info.empty cs'.mods
  let m := (List.range st.nextId).map rinfo.modulator
  let (mainVol', s0', sounds') : Parameter Float Float × Parameter Float Float × List (Parameter Float Float) :=
    match cs'.mixerParams with
    | a :: b :: rest => (a.2, b.2, rest.map (fun (r : Reader Float) => r.2))
    | _ => (st.mainVol, st.s0, st.sounds)
  let level : Float := 0.25 + 0.0625 * Float.ofNat st.sounds.length
  let samples := (List.range n).map (fun i =>
    let amount := Float.ofNat (i + 1) / Float.ofNat n
    let vol := Parameter.interpolatedValue tw32 mainVol' amount
    let x := KOps.r32 (level * asAmplitude vol)
    clamp (nanToZero x) (-1.0) 1.0)
  let frag := s!" / n={n} d={show64 st.dtFrame} u=[{String.intercalate ";" us}] m={seenStr m} p=[{String.intercalate "," (sounds'.map (fun (p : Parameter Float Float) => show64 p.value))}] o={String.intercalate "," (samples.map show32)}"
  ({ st with store := cs'.mods, mainVol := mainVol', s0 := s0', sounds := sounds' }, frag)

def sysChunks (st : SysSt) : List Nat → SysSt × String
  | [] => (st, "")
  | n :: rest =>
    let (st1, f1) := sysChunk st n
    let (st2, f2) := sysChunks st1 rest
    (st2, f1 ++ f2)

def sysCallback (st : SysSt) (frames : Nat) : Option (SysSt × String) := do
  let sizes ← modChunkSizes frames st.ibs
  -- on_start_processing: mixer (main track), …, modulators
  let mainVol := Lfo.readCommand st.mainVol st.mainCmd
  let sounds := st.sounds ++ st.soundsPending
  let store := modsOnStart st
  let st := { st with mainVol := mainVol, mainCmd := none, sounds := sounds, soundsPending := [],
                      store := store, pending := [], lfoCmds := [], twCmds := [] }
  let (st', frags) := sysChunks st sizes
  pure (st', s!"cb {sizes.length}{frags}")

def sysStep (st : SysSt) (tok : List String) : Option (SysSt × String) :=
  match tok with
  | ["init", sr, ibs, cap] => do
      let sr ← nat? sr; let ibs ← nat? ibs; let cap ← nat? cap
      pure ({ ready := true, dtFrame := 1.0 / Float.ofNat sr, ibs := ibs, cap := cap }, "ok")
  | ["add_lfo", w, f, a, o, ph] => do
      let w ← parseWaveform w
      let f ← parseValue codec64 f; let a ← parseValue codec64 a; let o ← parseValue codec64 o
      let ph ← f64? ph
      pure (sysAdd st 0 (.lfo (Lfo.new ⟨w, f, a, o, ph⟩)))
  | ["add_tw", v] => do
      let v ← f64? v
      pure (sysAdd st 1 (.tweener (Tweener.new v)))
  | ["add_probe"] => some (sysAdd st 2 (.counter 0.0 [] []))
  | ["drop", k] => do
      let k ← nat? k
      pure ({ st with dropped := k :: st.dropped }, "ok")
  | ["tw.set", k, target, tween] => do
      let k ← nat? k; let target ← f64? target; let tween ← parseTween tween
      if hasHandle st k 1 then pure ({ st with twCmds := setCmd st.twCmds k (target, tween) }, "ok")
      else pure (st, "nohandle")
  | ["main.set_volume", v, tween] => do
      let c ← (do let v ← parseValue codec32 v; let tw ← parseTween tween; pure (v, tw))
      pure ({ st with mainCmd := some c }, "ok")
  | ["play", v, d] => do
      let v ← parseValue codec64 v; let d ← f64? d
      pure ({ st with soundsPending := st.soundsPending ++ [Parameter.new v d] }, "ok")
  | ["callback", frames] => do
      let frames ← nat? frames
      sysCallback st frames
  | cmd :: k :: args => do
      let k ← nat? k
      if !hasHandle st k 0 then pure (st, "nohandle") else
      let c := (lookupCmd st.lfoCmds k).getD {}
      let c' ← match cmd, args with
        | "lfo.set_waveform", [w] => (parseWaveform w).map (fun w => { c with setWaveform := some w })
        | "lfo.set_phase", [p] => (f64? p).map (fun p => { c with setPhase := some p })
        | "lfo.set_frequency", [v, tw] => (parseVC v tw).map (fun x => { c with setFrequency := some x })
        | "lfo.set_amplitude", [v, tw] => (parseVC v tw).map (fun x => { c with setAmplitude := some x })
        | "lfo.set_offset", [v, tw] => (parseVC v tw).map (fun x => { c with setOffset := some x })
        | _, _ => none
      pure ({ st with lfoCmds := setCmd st.lfoCmds k c' }, "ok")
  | _ => none

end K.Exec
