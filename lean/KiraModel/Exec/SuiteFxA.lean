/-
  Twin of harness suite `fxa` (C13/C14, first half): the effects volume_control, panning_control,
  filter, eq_filter, distortion, compressor, built and driven exactly as the harness drives the
  real `Box<dyn Effect>`s.
-/
import KiraModel.Exec.SuiteParam
import KiraModel.Model.Effects.VolumeControl
import KiraModel.Model.Effects.PanningControl
import KiraModel.Model.Effects.Filter
import KiraModel.Model.Effects.EqFilter
import KiraModel.Model.Effects.Distortion
import KiraModel.Model.Effects.Compressor

namespace K.Exec.FxA
open K K.Proto

inductive FxAny where
  | none
  | vol (s : VolumeControl Float)
  | pan (s : PanningControl Float)
  | filter (s : Filter Float)
  | eq (s : EqFilter Float)
  | dist (s : Distortion Float)
  | comp (s : Compressor Float)

structure FxAState where
  info : InfoState := {}
  fx : FxAny := .none

def parseFilterMode : String → Option FilterMode
  | "lp" => some .lowPass | "bp" => some .bandPass | "hp" => some .highPass | "notch" => some .notch
  | _ => none
def parseEqKind : String → Option EqFilterKind
  | "bell" => some .bell | "ls" => some .lowShelf | "hs" => some .highShelf
  | _ => none
def parseDistKind : String → Option DistortionKind
  | "hard" => some .hardClip | "soft" => some .softClip
  | _ => none

def fxNew (tok : List String) : Option FxAny :=
  match tok with
  | ["vol", v] => do let v ← parseValue codec32 v; pure (.vol (VolumeControl.new v))
  | ["pan", v] => do let v ← parseValue codec32 v; pure (.pan (PanningControl.new v))
  | ["filter", m, c, r, x] => do
      let m ← parseFilterMode m; let c ← parseValue codec64 c; let r ← parseValue codec64 r
      let x ← parseValue codec32 x
      pure (.filter (Filter.new m c r x))
  | ["eq", k, f, g, q] => do
      let k ← parseEqKind k; let f ← parseValue codec64 f; let g ← parseValue codec32 g
      let q ← parseValue codec64 q
      pure (.eq (EqFilter.new k f g q))
  | ["dist", k, d, x] => do
      let k ← parseDistKind k; let d ← parseValue codec32 d; let x ← parseValue codec32 x
      pure (.dist (Distortion.new k d x))
  | ["comp", t, r, a, rl, m, x] => do
      let t ← parseValue codec64 t; let r ← parseValue codec64 r
      let a ← parseValue codecDur a; let rl ← parseValue codecDur rl
      let m ← parseValue codec32 m; let x ← parseValue codec32 x
      pure (.comp (Compressor.new t r a rl m x))
  | _ => none

def fxInit (fx : FxAny) (sr ibs : Nat) : FxAny :=
  match fx with
  | .none => .none
  | .vol s => .vol (s.init sr ibs)
  | .pan s => .pan (s.init sr ibs)
  | .filter s => .filter (s.init sr ibs)
  | .eq s => .eq (s.init sr ibs)
  | .dist s => .dist (s.init sr ibs)
  | .comp s => .comp (s.init sr ibs)

def fxChangeSr (fx : FxAny) (sr : Nat) : FxAny :=
  match fx with
  | .none => .none
  | .vol s => .vol (s.onChangeSampleRate sr)
  | .pan s => .pan (s.onChangeSampleRate sr)
  | .filter s => .filter (s.onChangeSampleRate sr)
  | .eq s => .eq (s.onChangeSampleRate sr)
  | .dist s => .dist (s.onChangeSampleRate sr)
  | .comp s => .comp (s.onChangeSampleRate sr)

def fxStart (fx : FxAny) : FxAny :=
  match fx with
  | .none => .none
  | .vol s => .vol s.onStartProcessing
  | .pan s => .pan s.onStartProcessing
  | .filter s => .filter s.onStartProcessing
  | .eq s => .eq s.onStartProcessing
  | .dist s => .dist s.onStartProcessing
  | .comp s => .comp s.onStartProcessing

def fxSet (fx : FxAny) (param v tw : String) : Option FxAny := do
  let tw ← parseTween tw
  match fx, param with
  | .vol s, "volume" => do let v ← parseValue codec32 v; pure (.vol (s.setVolume v tw))
  | .pan s, "panning" => do let v ← parseValue codec32 v; pure (.pan (s.setPanning v tw))
  | .filter s, "cutoff" => do let v ← parseValue codec64 v; pure (.filter (s.setCutoff v tw))
  | .filter s, "resonance" => do let v ← parseValue codec64 v; pure (.filter (s.setResonance v tw))
  | .filter s, "mix" => do let v ← parseValue codec32 v; pure (.filter (s.setMix v tw))
  | .eq s, "frequency" => do let v ← parseValue codec64 v; pure (.eq (s.setFrequency v tw))
  | .eq s, "gain" => do let v ← parseValue codec32 v; pure (.eq (s.setGain v tw))
  | .eq s, "q" => do let v ← parseValue codec64 v; pure (.eq (s.setQ v tw))
  | .dist s, "drive" => do let v ← parseValue codec32 v; pure (.dist (s.setDrive v tw))
  | .dist s, "mix" => do let v ← parseValue codec32 v; pure (.dist (s.setMix v tw))
  | .comp s, "threshold" => do let v ← parseValue codec64 v; pure (.comp (s.setThreshold v tw))
  | .comp s, "ratio" => do let v ← parseValue codec64 v; pure (.comp (s.setRatio v tw))
  | .comp s, "attack" => do let v ← parseValue codecDur v; pure (.comp (s.setAttackDuration v tw))
  | .comp s, "release" => do let v ← parseValue codecDur v; pure (.comp (s.setReleaseDuration v tw))
  | .comp s, "makeup" => do let v ← parseValue codec32 v; pure (.comp (s.setMakeupGain v tw))
  | .comp s, "mix" => do let v ← parseValue codec32 v; pure (.comp (s.setMix v tw))
  | _, _ => none

def fxMode (fx : FxAny) (m : String) : Option FxAny :=
  match fx with
  | .filter s => (parseFilterMode m).map (fun m => .filter (s.setMode m))
  | .eq s => (parseEqKind m).map (fun m => .eq (s.setKind m))
  | .dist s => (parseDistKind m).map (fun m => .dist (s.setKind m))
  | _ => none

def fxProcess (fx : FxAny) (input : List (Frame Float)) (dt : Float) (info : Info Float) :
    FxAny × List (Frame Float) :=
  match fx with
  | .none => (.none, input)
  | .vol s => let r := s.process input dt info; (.vol r.1, r.2)
  | .pan s => let r := s.process input dt info; (.pan r.1, r.2)
  | .filter s => let r := s.process input dt info; (.filter r.1, r.2)
  | .eq s => let r := s.process input dt info; (.eq r.1, r.2)
  | .dist s => let r := s.process input dt info; (.dist r.1, r.2)
  | .comp s => let r := s.process input dt info; (.comp r.1, r.2)

def parseFrames : List String → Option (List (Frame Float))
  | [] => some []
  | l :: r :: rest => do
      let l ← f32? l; let r ← f32? r; let fs ← parseFrames rest
      pure (⟨l, r⟩ :: fs)
  | _ => none

def showFrames (fs : List (Frame Float)) : String :=
  fs.foldl (fun acc f => acc ++ " " ++ show32 f.left ++ " " ++ show32 f.right) "="

/-- process `input` in consecutive slices of the given sizes (one `process` call per slice) -/
def procPartition (fx : FxAny) (dt : Float) (info : Info Float) :
    List Nat → List (Frame Float) → List (Frame Float) → FxAny × List (Frame Float)
  | [], _, acc => (fx, acc)
  | k :: ks, input, acc =>
    let r := fxProcess fx (input.take k) dt info
    procPartition r.1 dt info ks (input.drop k) (acc ++ r.2)

/-! deterministic test signals for `run` (same formulas in harness/src/suites/fxa.rs) -/

def lcgNext (s : Nat) : Nat := (s * 6364136223846793005 + 1442695040888963407) % 18446744073709551616
def lcgVal (s : Nat) : Float := (Float.ofNat (s / 1099511627776) - 8388608.0) / 8388608.0

def twoPi : Float := 2.0 * (KOps.pi : Float)

/-- frame number `k` of signal `sig`; returns the frame and the new noise state -/
def sigFrame (sig : String) (amp freq dt : Float) (k : Nat) (st : Nat) : Frame Float × Nat :=
  let neg (v : Float) : Frame Float := ⟨v, -v⟩
  if sig == "zero" then (⟨0.0, 0.0⟩, st)
  else if sig == "dc" then (neg amp, st)
  else if sig == "imp" then ((if k == 0 then neg amp else ⟨0.0, 0.0⟩), st)
  else if sig == "step" then ((if k < 8 then ⟨0.0, 0.0⟩ else neg amp), st)
  else if sig == "nyq" then ((if k % 2 == 0 then neg amp else neg (-amp)), st)
  else if sig == "sine" then
    let v := f32r (f32r (Float.sin (twoPi * freq * Float.ofNat k * dt)) * amp)
    (neg v, st)
  else
    let s1 := lcgNext st
    let s2 := lcgNext s1
    (⟨f32r (lcgVal s1 * amp), f32r (lcgVal s2 * amp)⟩, s2)

def sigBuffer (sig : String) (amp freq dt : Float) : Nat → Nat → Nat → List (Frame Float) → List (Frame Float) × Nat
  | 0, _, st, acc => (acc.reverse, st)
  | n + 1, k, st, acc =>
    let r := sigFrame sig amp freq dt k st
    sigBuffer sig amp freq dt n (k + 1) r.2 (r.1 :: acc)

structure Digest where
  lastL : Float := 0.0
  lastR : Float := 0.0
  sum : Nat := 0
  nonFinite : Nat := 0

def Digest.add (d : Digest) (f : Frame Float) : Digest :=
  let one (d : Digest) (x : Float) : Digest :=
    let d := if x.isFinite then d else { d with nonFinite := d.nonFinite + 1 }
    if x.isNaN then d else { d with sum := (d.sum + x.toFloat32.toBits.toNat) % 4294967296 }
  let d := one (one d f.left) f.right
  { d with lastL := f.left, lastR := f.right }

def runBuffers (sig : String) (amp freq dt : Float) (ibs : Nat) (info : Info Float) :
    Nat → Nat → Nat → FxAny → Digest → FxAny × Digest
  | 0, _, _, fx, d => (fx, d)
  | c + 1, k, st, fx, d =>
    let b := sigBuffer sig amp freq dt ibs k st []
    let r := fxProcess fx b.1 dt info
    runBuffers sig amp freq dt ibs info c (k + ibs) b.2 r.1 (r.2.foldl Digest.add d)

def parsePartition (s : String) : Option (List Nat) := (s.splitOn ",").mapM nat?

def fxaStep (st : FxAState) (tok : List String) : Option (FxAState × String) :=
  match tok with
  | "info.clocks" :: _ | "info.mods" :: _ => (infoStep st.info tok).map (fun i => ({ st with info := i }, "ok"))
  | "new" :: rest => (fxNew rest).map (fun fx => ({ st with fx := fx }, "ok"))
  | ["init", sr, ibs] => do
      let sr ← nat? sr; let ibs ← nat? ibs
      pure ({ st with fx := fxInit st.fx sr ibs }, "ok")
  | ["sr", sr] => do let sr ← nat? sr; pure ({ st with fx := fxChangeSr st.fx sr }, "ok")
  | ["start"] => some ({ st with fx := fxStart st.fx }, "ok")
  -- an oracle-only op (tween timing across block sizes, checked on the real code): nothing to mirror
  | "twchk" :: _ => some (st, "ok")
  | ["set", p, v, tw] => (fxSet st.fx p v tw).map (fun fx => ({ st with fx := fx }, "ok"))
  | ["mode", m] => (fxMode st.fx m).map (fun fx => ({ st with fx := fx }, "ok"))
  | "proc" :: dt :: part :: frames => do
      let dt ← f64? dt; let part ← parsePartition part; let frames ← parseFrames frames
      let r := procPartition st.fx dt st.info.toInfo part frames []
      pure ({ st with fx := r.1 }, showFrames r.2)
  | ["run", sig, amp, freq, seed, dt, ibs, count] => do
      let amp ← f32? amp; let freq ← f64? freq; let seed ← nat? seed; let dt ← f64? dt
      let ibs ← nat? ibs; let count ← nat? count
      let r := runBuffers sig amp freq dt ibs st.info.toInfo count 0 seed st.fx {}
      let d := r.2
      pure ({ st with fx := r.1 }, s!"{show32 d.lastL} {show32 d.lastR} {d.sum} {d.nonFinite}")
  | _ => none

end K.Exec.FxA
