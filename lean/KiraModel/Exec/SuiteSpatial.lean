/-
  Twin of harness suite `spatial` (C15): a spatial scene driven through the public manager API.
  ops:  init <ibs> <sr> | listener <lid> <pos> <quat> | droplistener <lid>
        strack <tid> <parent|main> <lid> <pos> <min> <max> <atten|none> <strength> <volume> <probe>
        track <tid> <parent|main> <volume> <probe> | sound <tid> <l> <r>
        setpos <tid> <pos> <tween> | setstr <tid> <f32> <tween> | lpos <lid> <pos> <tween>
        lori <lid> <quat> <tween> | cb <frames>
        qtween <qa> <qb> <t> | vtween <va> <vb> <t> | linterp <pos> <ori> <ppos> <pori> <t>   (glam kernels)
        scene <lpos> <lquat> <epos> <min> <max> <atten|none> <strength> <l> <r>   (self-contained)
  `cb` and `scene` end with `def|undef`: is every frame on the main bus finite before the device stage?
  vectors are `x,y,z` / `x,y,z,w` (f32 bits); values are `fix,<f32>` or `dist,<i0>,<i1>,<o0>,<o1>,<easing>`.
-/
import KiraModel.Exec.SuiteParam
import KiraModel.Model.SpatialScene

namespace K.Exec
open K K.Proto

def parseVec3 (s : String) : Option (Vec3 Float) :=
  match s.splitOn "," with
  | [x, y, z] => do let x ← f32? x; let y ← f32? y; let z ← f32? z; pure ⟨x, y, z⟩
  | _ => none

def parseQuat (s : String) : Option (Quat Float) :=
  match s.splitOn "," with
  | [x, y, z, w] => do
      let x ← f32? x; let y ← f32? y; let z ← f32? z; let w ← f32? w; pure ⟨x, y, z, w⟩
  | _ => none

/-- `fix,<f32>` or `dist,<i0 f64>,<i1 f64>,<o0 f32>,<o1 f32>,<easing>` -/
def parseVal32 (s : String) : Option (Value Float Float) :=
  match s.splitOn "," with
  | ["fix", v] => (f32? v).map .fixed
  | ["dist", i0, i1, o0, o1, e] => do
      let i0 ← f64? i0; let i1 ← f64? i1; let o0 ← f32? o0; let o1 ← f32? o1
      let e ← parseEasing e
      pure (.fromListenerDistance ⟨i0, i1, o0, o1, e⟩)
  | _ => none

def parseAtten (s : String) : Option (Option (Easing Float)) :=
  if s == "none" then some none else (parseEasing s).map some

def parseParent (s : String) : Option (Option Nat) :=
  if s == "main" then some none else (nat? s).map some

def showFrames (fs : List (Frame Float)) : String :=
  String.intercalate " " (fs.map (fun f => s!"{show32 f.left} {show32 f.right}"))

/-- probe log, chunk-major as produced, one `p<tid> <bits|none>` pair per entry -/
def showLog (log : List (Nat × Option Float)) : String :=
  String.intercalate "" (log.map (fun (t, d) =>
    s!" p{t} " ++ (match d with | some x => show32 x | none => "none")))

def spatialScene0 (ibs sr : Nat) : Scene Float :=
  { ibs := ibs, dt := 1.0 / Float.ofNat sr, listeners := [], pending := [], tracks := [] }

def mkListener (lid : Nat) (p : Vec3 Float) (q : Quat Float) : ListenerSt Float :=
  { id := lid, removed := false, position := Parameter.new (.fixed p) Vec3.zero,
    orientation := Parameter.new (.fixed q) Quat.identity, cmdPos := none, cmdOri := none }

def mkSpatialTrack (tid : Nat) (parent : Option Nat) (lid : Nat) (p : Vec3 Float) (mn mx : Float)
    (att : Option (Easing Float)) (str vol : Value Float Float) (probe : Bool) : TrackSt Float :=
  { id := tid, parent := parent,
    spatial := some { listenerId := lid, position := Parameter.new (.fixed p) Vec3.zero,
                      minDistance := mn, maxDistance := mx, attenuation := att,
                      strength := Parameter.new str 0.75 },
    volume := Parameter.new vol 0.0, sounds := [], probe := probe, cmdPos := none, cmdStr := none }

def mapTrack (sc : Scene Float) (tid : Nat) (f : TrackSt Float → TrackSt Float) : Scene Float :=
  { sc with tracks := sc.tracks.map (fun t => if t.id == tid then f t else t) }

def mapListener (sc : Scene Float) (lid : Nat) (f : ListenerSt Float → ListenerSt Float) : Scene Float :=
  { sc with listeners := sc.listeners.map (fun l => if l.id == lid then f l else l),
            pending := sc.pending.map (fun l => if l.id == lid then f l else l) }

def spatialStep (st : Option (Scene Float)) (tok : List String) : Option (Option (Scene Float) × String) :=
  match tok with
  | ["init", ibs, sr] => do
      let ibs ← nat? ibs; let sr ← nat? sr
      pure (some (spatialScene0 ibs sr), "ok")
  | ["qtween", a, b, t] => do
      let a ← parseQuat a; let b ← parseQuat b; let t ← f64? t
      let r := Quat.tweenSlerp a b t
      pure (st, s!"{show32 r.x} {show32 r.y} {show32 r.z} {show32 r.w}")
  | ["vtween", a, b, t] => do
      let a ← parseVec3 a; let b ← parseVec3 b; let t ← f64? t
      let r := Vec3.tweenLerp a b t
      pure (st, s!"{show32 r.x} {show32 r.y} {show32 r.z}")
  | ["linterp", p, q, pp, pq, t] => do
      let p ← parseVec3 p; let q ← parseQuat q; let pp ← parseVec3 pp; let pq ← parseQuat pq; let t ← f32? t
      let li : ListenerInfo Float := ⟨p, q, pp, pq⟩
      let ip := li.interpolatedPosition t
      let iq := li.interpolatedOrientation t
      pure (st, s!"{show32 ip.x} {show32 ip.y} {show32 ip.z} {show32 iq.x} {show32 iq.y} {show32 iq.z} {show32 iq.w}")
  | ["scene", lp, lq, ep, mn, mx, att, str, l, r] => do
      let lp ← parseVec3 lp; let lq ← parseQuat lq; let ep ← parseVec3 ep
      let mn ← f32? mn; let mx ← f32? mx; let att ← parseAtten att; let str ← f32? str
      let l ← f32? l; let r ← f32? r
      let sc := spatialScene0 4 48000
      let tr := { mkSpatialTrack 1 none 1 ep mn mx att (.fixed str) (.fixed 0.0) false with
                  sounds := [⟨l, r⟩] }
      let sc := { sc with pending := [mkListener 1 lp lq], tracks := [tr] }
      let strength := clamp str 0.0 1.0
      -- "def": no divisor is zero (`spatializeChecked`, the notion `C15_defined` is about) — which has to
      -- coincide with "every frame on the main bus, before the renderer's NaN scrub, is finite" (the flag
      -- the harness prints, seen by an effect on the main track); anything else is printed as such
      let checked := match spatializeChecked att mn mx ep strength (⟨l, r⟩ : Frame Float) lp lq lq 0.0 with
        | .ok _ => true
        | .error _ => false
      let r := sc.callback 1
      let busFinite := r.bus.all (fun f => f.left.isFinite && f.right.isFinite)
      let flag := if checked && busFinite then "def" else if !checked && !busFinite then "undef"
        else s!"inconsistent(checked={checked},bus={busFinite})"
      pure (st, s!"{showFrames r.out} {flag}")
  | _ =>
    match st with
    | none => none
    | some sc =>
      match tok with
      | ["listener", lid, p, q] => do
          let lid ← nat? lid; let p ← parseVec3 p; let q ← parseQuat q
          pure (some { sc with pending := sc.pending ++ [mkListener lid p q] }, "ok")
      | ["droplistener", lid] => do
          let lid ← nat? lid
          pure (some (mapListener sc lid (fun l => { l with removed := true })), "ok")
      | ["strack", tid, parent, lid, p, mn, mx, att, str, vol, probe] => do
          let tid ← nat? tid; let parent ← parseParent parent; let lid ← nat? lid
          let p ← parseVec3 p; let mn ← f32? mn; let mx ← f32? mx; let att ← parseAtten att
          let str ← parseVal32 str; let vol ← parseVal32 vol
          let tr := mkSpatialTrack tid parent lid p mn mx att str vol (probe == "1")
          pure (some { sc with tracks := tr :: sc.tracks }, "ok")
      | ["track", tid, parent, vol, probe] => do
          let tid ← nat? tid; let parent ← parseParent parent; let vol ← parseVal32 vol
          let tr : TrackSt Float :=
            { id := tid, parent := parent, spatial := none, volume := Parameter.new vol 0.0,
              sounds := [], probe := probe == "1", cmdPos := none, cmdStr := none }
          pure (some { sc with tracks := tr :: sc.tracks }, "ok")
      | ["sound", tid, l, r] => do
          let tid ← nat? tid; let l ← f32? l; let r ← f32? r
          pure (some (mapTrack sc tid (fun t => { t with sounds := ⟨l, r⟩ :: t.sounds })), "ok")
      | ["setpos", tid, p, tw] => do
          let tid ← nat? tid; let p ← parseVec3 p; let tw ← parseTween tw
          pure (some (mapTrack sc tid (fun t => { t with cmdPos := some (.fixed p, tw) })), "ok")
      | ["setstr", tid, s, tw] => do
          let tid ← nat? tid; let s ← f32? s; let tw ← parseTween tw
          pure (some (mapTrack sc tid (fun t => { t with cmdStr := some (.fixed s, tw) })), "ok")
      | ["setvol", tid, v, tw] => do
          let tid ← nat? tid; let v ← parseVal32 v; let tw ← parseTween tw
          pure (some (mapTrack sc tid (fun t => { t with cmdVol := some (v, tw) })), "ok")
      | ["lpos", lid, p, tw] => do
          let lid ← nat? lid; let p ← parseVec3 p; let tw ← parseTween tw
          pure (some (mapListener sc lid (fun l => { l with cmdPos := some (.fixed p, tw) })), "ok")
      | ["lori", lid, q, tw] => do
          let lid ← nat? lid; let q ← parseQuat q; let tw ← parseTween tw
          pure (some (mapListener sc lid (fun l => { l with cmdOri := some (.fixed q, tw) })), "ok")
      | "cb" :: frames :: _ => do
          let frames ← nat? frames
          let r := sc.callback frames
          let busFinite := r.bus.all (fun f => f.left.isFinite && f.right.isFinite)
          pure (some r.scene, showFrames r.out ++ showLog r.log ++ (if busFinite then " def" else " undef"))
      | _ => none

end K.Exec
