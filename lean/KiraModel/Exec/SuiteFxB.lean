/-
  Twin of harness suite `fxb` (C13/C14, delay + reverb): same ops in, same trace lines out.
  ops:  delay.new <delay ns> <feedback value> <mix value> <chain>     chain: `-` | g,o,f[;g,o,f]*  (f32 bits)
        reverb.new <feedback value> <damping value> <stereo width value> <mix value>
        init <sample rate> <internal buffer size>      rate <sample rate>      start
        set <fb|mix|damp|sw> <value> <tween>           info.clocks … / info.mods …   (as in suite `param`)
        proc <dt> <n> {<left> <right>}*n               → `o <output frames> s <slice lengths seen by the 1st nested effect>`
        run <dt> <slice> <count> <kind> <a> <b>        → `h <fnv hash of all output bits> <non-finite count> <last frame>`
-/
import KiraModel.Exec.SuiteParam
import KiraModel.Model.Effects.Reverb

namespace K.Exec.FxB
open K K.Proto

/-- the feedback chain of the twin: probe effects + the slice lengths the first one was given -/
abbrev FxbChainState := List (ProbeFx Float) × List Nat

def fxbChain : FxChain Float FxbChainState :=
  { init := fun s _ _ => s, changeRate := fun s _ => s, startProcessing := fun s => s
    process := fun s xs _ _ =>
      let r := ProbeFx.chainProcess s.1 xs
      ((r.1, if s.1.isEmpty then s.2 else s.2 ++ [xs.length]), r.2) }

inductive FxObj where
  | none
  | delay (d : Delay Float FxbChainState)
  | reverb (r : Reverb Float)

structure FxbState where
  info : InfoState := {}
  obj : FxObj := .none
  /-- input generator state of `run` (LCG) -/
  lcg : Nat := 0

def parseProbe (s : String) : Option (ProbeFx Float) :=
  match s.splitOn "," with
  | [g, o, f] => do
      let g ← f32? g; let o ← f32? o; let f ← f32? f
      pure ⟨g, o, f, Frame.zero⟩
  | _ => none

def parseChain (s : String) : Option (List (ProbeFx Float)) :=
  if s == "-" then some [] else (s.splitOn ";").mapM parseProbe

def parseFrames : List String → Option (List (Frame Float))
  | [] => some []
  | l :: r :: rest => do
      let l ← f32? l; let r ← f32? r; let fs ← parseFrames rest
      pure (⟨l, r⟩ :: fs)
  | _ => none

def showFrames (fs : List (Frame Float)) : String :=
  String.intercalate " " (fs.map (fun f => s!"{show32 f.left} {show32 f.right}"))

def showNats (ns : List Nat) : String := String.intercalate " " (ns.map toString)

def fxbProc (obj : FxObj) (input : List (Frame Float)) (dt : Float) (info : Info Float) :
    Except FxFault (FxObj × List (Frame Float) × List Nat) :=
  match obj with
  | .none => .error .panic
  | .delay d =>
    match d.process fxbChain input dt info with
    | .error e => .error e
    | .ok (d', out) => .ok (.delay { d' with fx := (d'.fx.1, []) }, out, d'.fx.2)
  | .reverb r =>
    match r.process input dt info with
    | .error e => .error e
    | .ok (r', out) => .ok (.reverb r', out, [])

/-- canonical bits of an f32 sample for the hash (all NaNs alike) -/
def sampleBits (x : Float) : UInt64 :=
  if x.isNaN then 0x7fc00000 else x.toFloat32.toBits.toUInt64

def fnvStep (h : UInt64) (x : Float) : UInt64 := (h ^^^ sampleBits x) * 0x100000001b3

def lcgNext (s : Nat) : Nat := (s * 1664525 + 1013904223) % 4294967296
/-- a sample in [-1, 1) with 24 significant bits (exact in f32) -/
def lcgSample (s : Nat) : Float := (Float.ofNat (s / 256)) / 16777216.0 * 2.0 - 1.0

/-- the input slice `k` (of `n` frames) of a `run` op -/
def genSlice (kind : String) (a b : Float) (k n : Nat) (lcg : Nat) : List (Frame Float) × Nat :=
  if kind == "noise" then
    let rec go : Nat → Nat → List (Frame Float) → List (Frame Float) × Nat
      | 0, s, acc => (acc.reverse, s)
      | m + 1, s, acc =>
        let s1 := lcgNext s
        let s2 := lcgNext s1
        go m s2 (⟨f32r (lcgSample s1 * a), f32r (lcgSample s2 * b)⟩ :: acc)
    go n lcg []
  else if kind == "dc" then (List.replicate n ⟨a, b⟩, lcg)
  else if kind == "imp" then
    (if k == 0 then (List.replicate n Frame.zero).set 0 ⟨a, b⟩ else List.replicate n Frame.zero, lcg)
  else (List.replicate n Frame.zero, lcg)

structure RunAcc where
  obj : FxObj
  lcg : Nat
  hash : UInt64 := 0xcbf29ce484222325
  bad : Nat := 0
  last : Frame Float := Frame.zero

def fxbRun (kind : String) (a b dt : Float) (info : Info Float) (slice : Nat) :
    Nat → Nat → RunAcc → Except FxFault RunAcc
  | 0, _, acc => .ok acc
  | cnt + 1, k, acc =>
    let (input, lcg) := genSlice kind a b k slice acc.lcg
    match fxbProc acc.obj input dt info with
    | .error e => .error e
    | .ok (obj, out, _) =>
      let hash := out.foldl (fun h f => fnvStep (fnvStep h f.left) f.right) acc.hash
      let bad := out.foldl (fun c f => c + (if f.left.isFinite then 0 else 1) + (if f.right.isFinite then 0 else 1)) acc.bad
      let last := match out.getLast? with | some f => f | none => acc.last
      fxbRun kind a b dt info slice cnt (k + 1) { obj := obj, lcg := lcg, hash := hash, bad := bad, last := last }

def fxbStep (st : FxbState) (tok : List String) : Option (FxbState × String) :=
  match tok with
  | "info.clocks" :: _ | "info.mods" :: _ => (infoStep st.info tok).map (fun i => ({ st with info := i }, "ok"))
  | ["delay.new", ns, fb, mix, chain] => do
      let ns ← nat? ns; let fb ← parseValue codec32 fb; let mix ← parseValue codec32 mix
      let chain ← parseChain chain
      pure ({ st with obj := .delay (Delay.new ns fb mix (chain, [])) }, "ok")
  | ["reverb.new", fb, dp, sw, mix] => do
      let fb ← parseValue codec64 fb; let dp ← parseValue codec64 dp; let sw ← parseValue codec64 sw
      let mix ← parseValue codec32 mix
      pure ({ st with obj := .reverb (Reverb.new fb dp sw mix) }, "ok")
  | ["init", sr, ibs] => do
      let sr ← nat? sr; let ibs ← nat? ibs
      match st.obj with
      | .none => none
      | .delay d => pure ({ st with obj := .delay (d.init fxbChain sr ibs) }, "ok")
      | .reverb r => pure ({ st with obj := .reverb (r.init sr) }, "ok")
  | ["rate", sr] => do
      let sr ← nat? sr
      match st.obj with
      | .none => none
      | .delay d => pure ({ st with obj := .delay (d.changeRate fxbChain sr) }, "ok")
      | .reverb r => pure ({ st with obj := .reverb (r.init sr) }, "ok")
  -- an oracle-only op (tween timing across block sizes, checked on the real code): nothing to mirror
  | "twchk" :: _ => some (st, "ok")
  | ["start"] =>
      match st.obj with
      | .none => none
      | .delay d => pure ({ st with obj := .delay (d.startProcessing fxbChain) }, "ok")
      | .reverb r => pure ({ st with obj := .reverb r.startProcessing }, "ok")
  | ["set", which, v, tw] => do
      let tw ← parseTween tw
      match st.obj with
      | .none => none
      | .delay d =>
        if which == "fb" then do
          let v ← parseValue codec32 v; pure ({ st with obj := .delay (d.setFeedback v tw) }, "ok")
        else if which == "mix" then do
          let v ← parseValue codec32 v; pure ({ st with obj := .delay (d.setMix v tw) }, "ok")
        else none
      | .reverb r =>
        if which == "fb" then do
          let v ← parseValue codec64 v; pure ({ st with obj := .reverb (r.setFeedback v tw) }, "ok")
        else if which == "damp" then do
          let v ← parseValue codec64 v; pure ({ st with obj := .reverb (r.setDamping v tw) }, "ok")
        else if which == "sw" then do
          let v ← parseValue codec64 v; pure ({ st with obj := .reverb (r.setStereoWidth v tw) }, "ok")
        else if which == "mix" then do
          let v ← parseValue codec32 v; pure ({ st with obj := .reverb (r.setMix v tw) }, "ok")
        else none
  | "proc" :: dt :: n :: rest => do
      let dt ← f64? dt; let n ← nat? n; let input ← parseFrames rest
      if input.length != n then none else
      match fxbProc st.obj input dt st.info.toInfo with
      | .error e => pure (st, s!"fault {e.name}")
      | .ok (obj, out, slices) =>
        pure ({ st with obj := obj }, s!"o {showFrames out} s {showNats slices}")
  | ["run", dt, slice, count, kind, a, b] => do
      let dt ← f64? dt; let slice ← nat? slice; let count ← nat? count; let a ← f32? a; let b ← f32? b
      match fxbRun kind a b dt st.info.toInfo slice count 0 { obj := st.obj, lcg := st.lcg } with
      | .error e => pure (st, s!"fault {e.name}")
      | .ok acc =>
        pure ({ st with obj := acc.obj, lcg := acc.lcg },
              s!"h {toHex acc.hash.toNat 16} {acc.bad} {show32 acc.last.left} {show32 acc.last.right}")
  | _ => none

end K.Exec.FxB
