/-
  Proto.lean — line-protocol helpers for the twin: hex bit patterns in, hex bit patterns out.
  Numbers travel as 16 hex digits (f64 bits) or 8 hex digits (f32 bits); all NaNs print as `nan`.
-/
import KiraModel.Exec.FloatOps

namespace K.Proto

def hexDigit (c : Char) : Option Nat :=
  if '0' ≤ c ∧ c ≤ '9' then some (c.toNat - '0'.toNat)
  else if 'a' ≤ c ∧ c ≤ 'f' then some (c.toNat - 'a'.toNat + 10)
  else if 'A' ≤ c ∧ c ≤ 'F' then some (c.toNat - 'A'.toNat + 10)
  else none

def parseHex (s : String) : Option Nat :=
  if s.isEmpty then none else
  s.toList.foldl (fun acc c => match acc, hexDigit c with
    | some a, some d => some (a * 16 + d)
    | _, _ => none) (some 0)

/-- parse an f64 given as 16 hex digits -/
def f64? (s : String) : Option Float := (parseHex s).map (fun n => Float.ofBits n.toUInt64)

/-- parse an f32 given as 8 hex digits, widened to Float -/
def f32? (s : String) : Option Float :=
  (parseHex s).map (fun n => (Float32.ofBits n.toUInt32).toFloat)

def hexChar (n : Nat) : Char :=
  if n < 10 then Char.ofNat ('0'.toNat + n) else Char.ofNat ('a'.toNat + n - 10)

def toHex (n : Nat) (digits : Nat) : String :=
  let rec go (k : Nat) (n : Nat) (acc : List Char) : List Char :=
    match k with
    | 0 => acc
    | k + 1 => go k (n / 16) (hexChar (n % 16) :: acc)
  String.ofList (go digits n [])

def show64 (x : Float) : String :=
  if x.isNaN then "nan" else toHex x.toBits.toNat 16

def show32 (x : Float) : String :=
  if x.isNaN then "nan" else toHex x.toFloat32.toBits.toNat 8

def nat? (s : String) : Option Nat := s.toNat?
def int? (s : String) : Option Int := s.toInt?

end K.Proto
