/-
  Twin of harness suite `final` (C01): endless constant sounds on the main track (0 dB, no effects),
  summed newest-first, then the renderer's final stage, chunk by chunk.
-/
import KiraModel.Exec.Proto
import KiraModel.Model.RendererFinal

namespace K.Exec
open K K.Proto

structure FinalState where
  ibs : Nat := 1
  /-- newest first (arena iteration order) -/
  sounds : List (Frame Float) := []
  /-- sounds played since the last callback (picked up by the next `on_start_processing`) -/
  pending : List (Frame Float) := []

/-- the main-track bus frame: zero plus each sound, newest first; then `*= as_amplitude(0 dB) = 1` -/
def finalBus (sounds : List (Frame Float)) : Frame Float :=
  let s := sounds.foldl (fun acc f => Frame.add acc f) (Frame.zero : Frame Float)
  Frame.scale s (asAmplitude (0.0 : Float))

def finalStep (st : FinalState) (tok : List String) : Option (FinalState × String) :=
  match tok with
  | ["mgr", ibs, _] => do let ibs ← nat? ibs; pure ({ ibs := ibs }, "ok")
  | ["snd", l, r] => do
      let l ← f32? l; let r ← f32? r
      pure ({ st with pending := st.pending ++ [⟨l, r⟩] }, "ok")
  | ["cb", frames, ch] => do
      let frames ← nat? frames; let ch ← nat? ch
      -- new resources are popped FIFO and each inserted at the head of the arena's occupied list
      let sounds := st.pending.foldl (fun acc f => f :: acc) st.sounds
      let bus := finalBus sounds
      let chunks := finalChunkSizes st.ibs (frames + 1) frames
      let samples := chunks.flatMap (fun n => convertChunk ch (List.replicate n bus))
      pure ({ st with sounds := sounds, pending := [] }, String.intercalate " " (samples.map show32))
  | _ => none

end K.Exec
