/-
  Twin of harness suite `fxrate` (C16, effect level): the rate-dependent effects — delay (with probe
  effects, a real filter and a real delay nested in its feedback loop), reverb, filter, eq_filter — under
  histories of `init sr` / `rate sr'` (`Effect::on_change_sample_rate`) / process calls whose `dt` is
  always `1 / (rate in force)`.
  ops:  delay.new <ns> <feedback dB f32> <mix f32> <nest>      nest: `-` | item[;item]*
            item: p:<gain>,<offset>,<feedback>                 probe effect (f32 bits); logs the rate it is told
                | f:<lp|bp|hp|notch>,<cutoff f64>,<resonance f64>,<mix f32>      a kira filter
                | d:<ns>,<feedback dB f32>,<mix f32>[,<gain>,<offset>,<feedback>]  a kira delay (one probe inside)
        reverb.new <feedback f64> <damping f64> <stereo width f64> <mix f32>
        filter.new <mode> <cutoff f64> <resonance f64> <mix f32>
        eq.new <bell|ls|hs> <frequency f64> <gain dB f32> <q f64>
        init <sr> <ibs>     rate <sr>     start              → `ok k=<rate each probe was last told>`
        proc <n> {<l> <r>}*n                                  → `o <output frames> k=<…>`
        run <slice> <count> <zero|dc|imp|noise|sine> <a f32> <b f32> <freq f64>
                                                              → `h <fnv hash> <non-finite> <last frame> z=<first non-zero output frame> k=<…>`
  The twin's feedback chain is built from the effect models themselves (`Filter`, `Delay` with a probe
  chain), so nested real effects are compared bit for bit as well.
-/
import KiraModel.Exec.SuiteFxA
import KiraModel.Exec.SuiteFxB
import KiraModel.Model.Effects.Filter
import KiraModel.Model.Effects.EqFilter

namespace K.Exec.FxRate
open K K.Proto

/-- a probe effect and the sample rate it was last told (`init` or `on_change_sample_rate`; 0 = never) -/
structure RProbe where
  fx : ProbeFx Float
  known : Nat := 0

/-- mirrors: harness/src/probe.rs::ProbeEffect::{init, on_change_sample_rate, process} for a `Vec` of them -/
def rprobeChain : FxChain Float (List RProbe) :=
  { init := fun s sr _ => s.map (fun p => { p with known := sr })
    changeRate := fun s sr => s.map (fun p => { p with known := sr })
    startProcessing := fun s => s
    process := fun s xs _ _ =>
      let r := ProbeFx.chainProcess (s.map (·.fx)) xs
      (List.zipWith (fun p fx => { p with fx := fx }) s r.1, r.2) }

/-- an effect nested in the delay's feedback loop -/
inductive Nest where
  | probe (p : RProbe)
  | filter (f : Filter Float)
  | delay (d : Delay Float (List RProbe))

namespace Nest

def init (sr ibs : Nat) : Nest → Nest
  | .probe p => .probe { p with known := sr }
  | .filter f => .filter (f.init sr ibs)
  | .delay d => .delay (d.init rprobeChain sr ibs)

def changeRate (sr : Nat) : Nest → Nest
  | .probe p => .probe { p with known := sr }
  | .filter f => .filter (f.onChangeSampleRate sr)
  | .delay d => .delay (d.changeRate rprobeChain sr)

def start : Nest → Nest
  | .probe p => .probe p
  | .filter f => .filter f.onStartProcessing
  | .delay d => .delay (d.startProcessing rprobeChain)

def process (n : Nest) (xs : List (Frame Float)) (dt : Float) (info : Info Float) :
    Except FxFault (Nest × List (Frame Float)) :=
  match n with
  | .probe p => let r := p.fx.process xs; .ok (.probe { p with fx := r.1 }, r.2)
  | .filter f => let r := f.process xs dt info; .ok (.filter r.1, r.2)
  | .delay d =>
    match d.process rprobeChain xs dt info with
    | .ok (d', out) => .ok (.delay d', out)
    | .error e => .error e

def known : Nest → List Nat
  | .probe p => [p.known]
  | .filter _ => []
  | .delay d => d.fx.map (·.known)

end Nest

/-- `for effect in &mut self.feedback_effects { effect.process(slice, dt, info) }` -/
def nestProcess : List Nest → List (Frame Float) → Float → Info Float →
    Except FxFault (List Nest × List (Frame Float))
  | [], xs, _, _ => .ok ([], xs)
  | n :: ns, xs, dt, info =>
    match n.process xs dt info with
    | .error e => .error e
    | .ok (n', ys) =>
      match nestProcess ns ys dt info with
      | .error e => .error e
      | .ok (ns', zs) => .ok (n' :: ns', zs)

/-- the nested effects and, once one of them has panicked, the fault (the outer call then reports it) -/
abbrev NestState := List Nest × Option FxFault

def nestChain : FxChain Float NestState :=
  { init := fun s sr ibs => (s.1.map (Nest.init sr ibs), s.2)
    changeRate := fun s sr => (s.1.map (Nest.changeRate sr), s.2)
    startProcessing := fun s => (s.1.map Nest.start, s.2)
    process := fun s xs dt info =>
      match s.2 with
      | some _ => (s, xs)
      | none =>
        match nestProcess s.1 xs dt info with
        | .ok (ns, out) => ((ns, none), out)
        | .error e => ((s.1, some e), xs) }

inductive Obj where
  | none
  | delay (d : Delay Float NestState)
  | reverb (r : Reverb Float)
  | filter (f : Filter Float)
  | eq (e : EqFilter Float)

structure FxRateState where
  obj : Obj := .none
  /-- the sample rate in force (last `init` / `rate`) -/
  sr : Nat := 0
  lcg : Nat := 0

def Obj.known : Obj → List Nat
  | .delay d => d.fx.1.flatMap Nest.known
  | _ => []

def showKnown (o : Obj) : String := "k=" ++ String.intercalate "," (o.known.map toString)

def fixed32 (s : String) : Option (Value Float Float) := (f32? s).map Value.fixed
def fixed64 (s : String) : Option (Value Float Float) := (f64? s).map Value.fixed

def parseRProbe (g o f : String) : Option RProbe := do
  let g ← f32? g; let o ← f32? o; let f ← f32? f
  pure { fx := ⟨g, o, f, Frame.zero⟩ }

def parseNestItem (s : String) : Option Nest :=
  match s.splitOn ":" with
  | ["p", rest] =>
    match rest.splitOn "," with
    | [g, o, f] => (parseRProbe g o f).map Nest.probe
    | _ => none
  | ["f", rest] =>
    match rest.splitOn "," with
    | [m, c, r, x] => do
        let m ← FxA.parseFilterMode m; let c ← fixed64 c; let r ← fixed64 r; let x ← fixed32 x
        pure (.filter (Filter.new m c r x))
    | _ => none
  | ["d", rest] =>
    match rest.splitOn "," with
    | [ns, fb, mix] => do
        let ns ← nat? ns; let fb ← fixed32 fb; let mix ← fixed32 mix
        pure (.delay (Delay.new ns fb mix []))
    | [ns, fb, mix, g, o, f] => do
        let ns ← nat? ns; let fb ← fixed32 fb; let mix ← fixed32 mix; let p ← parseRProbe g o f
        pure (.delay (Delay.new ns fb mix [p]))
    | _ => none
  | _ => none

def parseNest (s : String) : Option (List Nest) :=
  if s == "-" then some [] else (s.splitOn ";").mapM parseNestItem

/-- `dt` of every process call: one over the rate in force, as the renderer computes it -/
def dtOf (sr : Nat) : Float := 1.0 / Float.ofNat sr

def objProc (obj : Obj) (input : List (Frame Float)) (dt : Float) :
    Except FxFault (Obj × List (Frame Float)) :=
  let info : Info Float := Info.empty
  match obj with
  | .none => .error .panic
  | .delay d =>
    match d.process nestChain input dt info with
    | .error e => .error e
    | .ok (d', out) =>
      match d'.fx.2 with
      | some e => .error e
      | none => .ok (.delay d', out)
  | .reverb r =>
    match r.process input dt info with
    | .error e => .error e
    | .ok (r', out) => .ok (.reverb r', out)
  | .filter f => let r := f.process input dt info; .ok (.filter r.1, r.2)
  | .eq e => let r := e.process input dt info; .ok (.eq r.1, r.2)

/-- the input slice `k` (of `n` frames) of a `run` op; `sine` continues over the whole run (frame index `k·n + i`) -/
def genSlice (kind : String) (a b freq dt : Float) (k n : Nat) (lcg : Nat) : List (Frame Float) × Nat :=
  if kind == "sine" then
    ((List.range n).map (fun i =>
      let v := f32r (Float.sin (FxA.twoPi * freq * Float.ofNat (k * n + i) * dt))
      (⟨f32r (v * a), f32r (v * b)⟩ : Frame Float)), lcg)
  else FxB.genSlice kind a b k n lcg

structure RunAcc where
  obj : Obj
  lcg : Nat
  hash : UInt64 := 0xcbf29ce484222325
  bad : Nat := 0
  last : Frame Float := Frame.zero
  /-- index of the first output frame with a non-zero sample -/
  firstNonZero : Option Nat := none
  pos : Nat := 0

def firstNz (out : List (Frame Float)) : Option Nat :=
  out.findIdx? (fun f => f.left != 0.0 || f.right != 0.0)

def fxRun (kind : String) (a b freq dt : Float) (slice : Nat) : Nat → Nat → RunAcc → Except FxFault RunAcc
  | 0, _, acc => .ok acc
  | cnt + 1, k, acc =>
    let (input, lcg) := genSlice kind a b freq dt k slice acc.lcg
    match objProc acc.obj input dt with
    | .error e => .error e
    | .ok (obj, out) =>
      let hash := out.foldl (fun h f => FxB.fnvStep (FxB.fnvStep h f.left) f.right) acc.hash
      let bad := out.foldl
        (fun c f => c + (if f.left.isFinite then 0 else 1) + (if f.right.isFinite then 0 else 1)) acc.bad
      let last := match out.getLast? with | some f => f | none => acc.last
      let fnz := match acc.firstNonZero with
        | some i => some i
        | none => (firstNz out).map (· + acc.pos)
      fxRun kind a b freq dt slice cnt (k + 1)
        { obj := obj, lcg := lcg, hash := hash, bad := bad, last := last, firstNonZero := fnz,
          pos := acc.pos + out.length }

def fxRateStep (st : FxRateState) (tok : List String) : Option (FxRateState × String) :=
  let ok (o : Obj) (sr : Nat) : Option (FxRateState × String) :=
    some ({ st with obj := o, sr := sr }, "ok " ++ showKnown o)
  match tok with
  | ["delay.new", ns, fb, mix, nest] => do
      let ns ← nat? ns; let fb ← fixed32 fb; let mix ← fixed32 mix; let nest ← parseNest nest
      ok (.delay (Delay.new ns fb mix (nest, none))) st.sr
  | ["reverb.new", fb, dp, sw, mix] => do
      let fb ← fixed64 fb; let dp ← fixed64 dp; let sw ← fixed64 sw; let mix ← fixed32 mix
      ok (.reverb (Reverb.new fb dp sw mix)) st.sr
  | ["filter.new", m, c, r, x] => do
      let m ← FxA.parseFilterMode m; let c ← fixed64 c; let r ← fixed64 r; let x ← fixed32 x
      ok (.filter (Filter.new m c r x)) st.sr
  | ["eq.new", k, f, g, q] => do
      let k ← FxA.parseEqKind k; let f ← fixed64 f; let g ← fixed32 g; let q ← fixed64 q
      ok (.eq (EqFilter.new k f g q)) st.sr
  | ["init", sr, ibs] => do
      let sr ← nat? sr; let ibs ← nat? ibs
      match st.obj with
      | .none => none
      | .delay d => ok (.delay (d.init nestChain sr ibs)) sr
      | .reverb r => ok (.reverb (r.init sr)) sr
      | .filter f => ok (.filter (f.init sr ibs)) sr
      | .eq e => ok (.eq (e.init sr ibs)) sr
  | ["rate", sr] => do
      let sr ← nat? sr
      match st.obj with
      | .none => none
      | .delay d => ok (.delay (d.changeRate nestChain sr)) sr
      | .reverb r => ok (.reverb (r.init sr)) sr
      | .filter f => ok (.filter (f.onChangeSampleRate sr)) sr
      | .eq e => ok (.eq (e.onChangeSampleRate sr)) sr
  | ["start"] =>
      match st.obj with
      | .none => none
      | .delay d => ok (.delay (d.startProcessing nestChain)) st.sr
      | .reverb r => ok (.reverb r.startProcessing) st.sr
      | .filter f => ok (.filter f.onStartProcessing) st.sr
      | .eq e => ok (.eq e.onStartProcessing) st.sr
  | "proc" :: n :: rest => do
      let n ← nat? n; let input ← FxB.parseFrames rest
      if input.length != n then none else
      match objProc st.obj input (dtOf st.sr) with
      | .error e => pure (st, s!"fault {e.name}")
      | .ok (obj, out) => pure ({ st with obj := obj }, s!"o {FxB.showFrames out} {showKnown obj}")
  | ["run", slice, count, kind, a, b, freq] => do
      let slice ← nat? slice; let count ← nat? count; let a ← f32? a; let b ← f32? b; let freq ← f64? freq
      match fxRun kind a b freq (dtOf st.sr) slice count 0 { obj := st.obj, lcg := st.lcg } with
      | .error e => pure (st, s!"fault {e.name}")
      | .ok acc =>
        let z := match acc.firstNonZero with | some i => toString i | none => "-"
        pure ({ st with obj := acc.obj, lcg := acc.lcg },
              s!"h {toHex acc.hash.toNat 16} {acc.bad} {show32 acc.last.left} {show32 acc.last.right} z={z} {showKnown acc.obj}")
  | _ => none

end K.Exec.FxRate
