/-
  Twins of the harness suites `transport`, `psm` and `static` (C03, C04).
-/
import KiraModel.Exec.SuiteParam
import KiraModel.Model.StaticSound

namespace K.Exec.Static
open K K.Proto K.Exec

/-! ### shared parsing / printing -/

/-- `s=<f64 bits>` | `n=<nat>` -/
def parsePos (s : String) : Option (PlaybackPosition Float) :=
  match s.splitOn "=" with
  | ["s", v] => (f64? v).map .seconds
  | ["n", v] => (nat? v).map .samples
  | _ => none

/-- `none` | `<pos>~end` | `<pos>~<pos>` -/
def parseRegion (s : String) : Option (Option (Region Float)) :=
  if s == "none" then some none else
  match s.splitOn "~" with
  | [a, b] => do
      let a ← parsePos a
      let b ← if b == "end" then some EndPosition.endOfAudio else (parsePos b).map .custom
      pure (some ⟨a, b⟩)
  | _ => none

def showLoop : Option (Nat × Nat) → String
  | none => "none"
  | some (a, b) => s!"{a},{b}"

/-- kira's `usize` play head saturates (`saturating_add(1)`), the model's is an unbounded natural: what kira
    holds is `min position usize::MAX` (exact without a loop region; the generators never walk a looping
    transport across `usize::MAX`) -/
def showTransport (t : Transport) : String :=
  s!"{min t.position 18446744073709551615} {if t.playing then 1 else 0} {showLoop t.loopRegion}"

def faultLine (f : Fault) : String := "fault " ++ f.name

/-! ### suite `transport` -/

def transportStep (st : Option Transport) (tok : List String) : Option (Option Transport × String) :=
  let fin (r : Except Fault Transport) : Option (Option Transport × String) :=
    match r with
    | .ok t => some (some t, showTransport t)
    | .error f => some (none, faultLine f)
  match tok, st with
  | ["new", start, region, rev, sr, n], _ => do
      let start ← nat? start; let region ← parseRegion region; let sr ← nat? sr; let n ← nat? n
      fin (Transport.new start (region.map (fun r => r.toSamples sr n)) (rev == "1") n)
  | ["inc", n], some t => do let n ← nat? n; fin (t.increment n)
  | ["dec"], some t => fin t.decrement
  | ["seek", p, n], some t => do let p ← nat? p; let n ← nat? n; fin (t.seekTo p n)
  | ["loop", region, sr, n], some t => do
      let region ← parseRegion region; let sr ← nat? sr; let n ← nat? n
      fin (.ok (t.setLoopRegion (region.map (fun r => r.toSamples sr n))))
  | _, _ => none

/-! ### suite `psm` -/

structure PsmSuiteState where
  info : InfoState := {}
  m : Option (Psm Float) := none

def parseOptTween (s : String) : Option (Option (Tween Float)) :=
  if s == "none" then some none else (parseTween s).map some

def showPsm (m : Psm Float) : String :=
  s!"{m.playbackState.toNat} {show32 (m.interpolatedFadeVolume 1.0)} {show32 (m.interpolatedFadeVolume 0.0)}"

def psmStep (st : PsmSuiteState) (tok : List String) : Option (PsmSuiteState × String) :=
  match tok with
  | "info.clocks" :: _ | "info.mods" :: _ => (infoStep st.info tok).map (fun i => ({ st with info := i }, "ok"))
  | ["new", tw] => do
      let tw ← parseOptTween tw
      let m := Psm.new tw
      pure ({ st with m := some m }, showPsm m)
  | _ =>
    match st.m with
    | none => none
    | some m =>
      let ret (m : Psm Float) (s : String) : Option (PsmSuiteState × String) := some ({ st with m := some m }, s)
      match tok with
      | ["pause", tw] => do let tw ← parseTween tw; let m := m.pause tw; ret m (showPsm m)
      | ["resume", stt, tw] => do
          let stt ← parseStart stt; let tw ← parseTween tw
          let m := m.resume stt tw; ret m (showPsm m)
      | ["stop", tw] => do let tw ← parseTween tw; let m := m.stop tw; ret m (showPsm m)
      | ["mark"] => let m := m.markAsStopped; ret m (showPsm m)
      | ["update", dt] => do
          let dt ← f64? dt
          let r := m.update dt st.info.toInfo
          ret r.1 s!"{showPsm r.1} {if r.2 then 1 else 0}"
      | ["fade", a] => do let a ← f64? a; ret m (show32 (m.interpolatedFadeVolume a))
      | _ => none

/-! ### suite `static` -/

/-- the twin of `harness/src/suites/static_sound.rs::lcg` -/
def lcgNext (s : Nat) : Nat := (s * 6364136223846793005 + 1442695040888963407) % 2 ^ 64
def lcgSample (s : Nat) : Float := Float.ofNat ((s / 2 ^ 33) % 4096) / 4096.0 - 0.5

/-- `idx` (frame k = (k+1, k+1)), `lr` (frame k = (k+1, -(k+1))), `dc=<f32 bits>`, `rnd=<seed>` -/
def genFrames (coding : String) (len : Nat) : Option (Array (Frame Float)) :=
  if coding == "idx" then some (Array.ofFn (n := len) (fun k => ⟨Float.ofNat (k.val + 1), Float.ofNat (k.val + 1)⟩))
  else if coding == "lr" then some (Array.ofFn (n := len) (fun k => ⟨Float.ofNat (k.val + 1), -Float.ofNat (k.val + 1)⟩))
  else match coding.splitOn "=" with
  | ["dc", v] => (f32? v).map (fun v => Array.replicate len ⟨v, v⟩)
  | ["rnd", seed] => (nat? seed).map (fun seed =>
      let rec go (k : Nat) (s : Nat) (acc : Array (Frame Float)) : Array (Frame Float) :=
        match k with
        | 0 => acc
        | k + 1 =>
          let s1 := lcgNext s
          let s2 := lcgNext s1
          go k s2 (acc.push ⟨lcgSample s1, lcgSample s2⟩)
      go len seed #[])
  | _ => none

/-- `none` | `raw=a,b` | `reg=<region>` -/
def parseSlice (s : String) (sr len : Nat) : Option (Option (Nat × Nat)) :=
  if s == "none" then some none
  else if s.startsWith "raw=" then
    match ((s.drop 4).toString.splitOn ",") with
    | [a, b] => do let a ← nat? a; let b ← nat? b; pure (some (a, b))
    | _ => none
  else if s.startsWith "reg=" then
    (parseRegion (s.drop 4).toString).map (fun r => r.map (fun r => r.toSamples sr len))
  else none

structure StaticSuiteState where
  info : InfoState := {}
  s : Option (StaticSound Float) := none

def twinFuel : Nat := 1048576

def showHandle (s : StaticSound Float) : String :=
  s!"{s.core.shared.toNat} {show64 s.sharedPosition} {if s.finished then 1 else 0}"

def showFrames (fs : List (Frame Float)) : String :=
  fs.foldl (fun acc f => acc ++ " " ++ show32 f.left ++ " " ++ show32 f.right) ""

/-- `count` process calls of `len` frames: the handle after the last one and the index of the first call whose
    output was not silent (`-1`: none) -/
def procN (st : StaticSuiteState) (len : Nat) (dt : Float) :
    Nat → Nat → Option Nat → StaticSound Float → StaticSuiteState × String
  | 0, _, first, s =>
    ({ st with s := some s }, showHandle s ++ " first=" ++ (match first with | some j => toString j | none => "-1"))
  | n + 1, j, first, s =>
    match s.process twinFuel len dt st.info.toInfo with
    | .ok (s', out) =>
      let first' := match first with
        | some k => some k
        | none => if out.any (fun f => f.left != 0.0 || f.right != 0.0) then some j else none
      procN st len dt n (j + 1) first' s'
    | .error f => ({ st with s := none }, faultLine f)

def staticStep (st : StaticSuiteState) (tok : List String) : Option (StaticSuiteState × String) :=
  match tok with
  | "info.clocks" :: _ | "info.mods" :: _ => (infoStep st.info tok).map (fun i => ({ st with info := i }, "ok"))
  | ["new", sr, len, coding, slice, stt, spos, loop, rev, vol, rate, pan, fadeIn] => do
      let sr ← nat? sr; let len ← nat? len
      let frames ← genFrames coding len
      let slice ← parseSlice slice sr len
      let stt ← parseStart stt; let spos ← parsePos spos; let loop ← parseRegion loop
      let vol ← parseValue codec32 vol; let rate ← parseValue codec64 rate; let pan ← parseValue codec32 pan
      let fadeIn ← parseOptTween fadeIn
      let d : StaticSoundData Float :=
        { sampleRate := sr, frames := frames, slice := slice
          settings := { startTime := stt, startPosition := spos, loopRegion := loop, reverse := rev == "1"
                        volume := vol, playbackRate := rate, panning := pan, fadeInTween := fadeIn } }
      match StaticSound.new d with
      | .ok s => pure ({ st with s := some s }, showHandle s)
      | .error f => pure ({ st with s := none }, faultLine f)
  | _ =>
    match st.s with
    | none => none
    | some s =>
      let cmd (c : Command Float) : Option (StaticSuiteState × String) :=
        let s' : StaticSound Float := { s with cmds := s.cmds.write c }
        some ({ st with s := some s' }, showHandle s')
      match tok with
      | ["start"] =>
        match s.onStartProcessing with
        | .ok s' => some ({ st with s := some s' }, showHandle s')
        | .error f => some ({ st with s := none }, faultLine f)
      | ["proc", len, dt] => do
          let len ← nat? len; let dt ← f64? dt
          match s.process twinFuel len dt st.info.toInfo with
          | .ok (s', out) => pure ({ st with s := some s' }, showHandle s' ++ showFrames out)
          | .error f => pure ({ st with s := none }, faultLine f)
      | "procn" :: len :: dt :: count :: _ => do
          let len ← nat? len; let dt ← f64? dt; let count ← nat? count
          pure (procN st len dt count 0 none s)
      | ["vol", v, tw] => do let v ← parseValue codec32 v; let tw ← parseTween tw; cmd (.setVolume v tw)
      | ["rate", v, tw] => do let v ← parseValue codec64 v; let tw ← parseTween tw; cmd (.setPlaybackRate v tw)
      | ["pan", v, tw] => do let v ← parseValue codec32 v; let tw ← parseTween tw; cmd (.setPanning v tw)
      | ["loop", r] => do let r ← parseRegion r; cmd (.setLoopRegion r)
      | ["pause", tw] => do let tw ← parseTween tw; cmd (.pause tw)
      | ["resume", stt, tw] => do let stt ← parseStart stt; let tw ← parseTween tw; cmd (.resume stt tw)
      | ["stop", tw] => do let tw ← parseTween tw; cmd (.stop tw)
      | ["seekby", x] => do let x ← f64? x; cmd (.seekBy x)
      | ["seekto", x] => do let x ← f64? x; cmd (.seekTo x)
      | _ => none

end K.Exec.Static
