/-
  Twin of harness suite `storage` (C08): `kira::verif_hooks::{HStorage, HSelfRefStorage, HController}`
  driven by histories of reserve / insert / insert_with_key / mark / remove_and_add / for_each, at
  whole-operation granularity and on two threads under a script (yield sites
  `resources.insert_with_key.after_drain`, `resources.remove_and_add.between`,
  `resources.selfref.remove_and_add.between`, and — when /repo has it — `resources.remove_and_add.in_drain`).
-/
import KiraModel.Exec.Proto
import KiraModel.Exec.Sched
import KiraModel.Model.ResourceStorage

namespace K.Exec
open K K.Proto

/-- the probe resource: an id and a counter that `for_each` increments -/
structure TRes where
  id : Nat
  visits : Nat
deriving DecidableEq, Repr

def dummyId : Nat := 999999

inductive Sto where
  | none
  | plain (s : Store TRes)
  | self (s : SelfStore TRes)

structure StoState where
  sto : Sto := .none
  /-- every key ever reserved, in order (ops refer to them by position) -/
  keys : List Key := []
  nextId : Nat := 0
  marked : List Nat := []
  /-- the key of the latest `reserve` if it succeeded and has not been used by `inskl` yet -/
  fresh : Option Key := Option.none

def showKey (k : Key) : String := s!"{k.index}.{k.generation}"
def showIds (l : List Nat) : String := if l.isEmpty then "-" else String.intercalate "." (l.map toString)
def showItems (l : List (Key × TRes)) : String :=
  if l.isEmpty then "-" else String.intercalate "," (l.map (fun p => s!"{showKey p.1}:{p.2.id}:{p.2.visits}"))

def Sto.base : Sto → Option (Store TRes)
  | .none => Option.none
  | .plain s => some s
  | .self s => some s.base

def Sto.setBase : Sto → Store TRes → Sto
  | .none, _ => .none
  | .plain _, b => .plain b
  | .self s, b => .self { s with base := b }

def StoState.test (st : StoState) : TRes → Bool := fun r => st.marked.contains r.id

def fault (e : SFault) : String := "fault " ++ e.name

/-- ids dropped between two states of the store's ghost log -/
def droppedDelta (old new : Store TRes) : String :=
  showIds ((new.dropped.drop old.dropped.length).map (·.id))

/-- outcome of (a part of) an op: the new state and either a result line or a fault -/
abbrev Res := StoState × Except SFault String

def opReserve (st : StoState) (b : Store TRes) : Res :=
  match b.tryReserve with
  | .error e => (st, .error e)
  | .ok (none, b') => ({ st with sto := st.sto.setBase b', fresh := Option.none }, .ok s!"limit len={b'.len}")
  | .ok (some k, b') =>
    ({ st with sto := st.sto.setBase b', keys := st.keys ++ [k], fresh := some k }, .ok s!"ok {showKey k} len={b'.len}")

/-- the part of `insert_with_key` after the yield site -/
def opPush (st : StoState) (b0 : Store TRes) (k : Key) (pre : String) : Res :=
  match st.sto.base with
  | Option.none => (st, .ok "bad")
  | some b =>
    match b.pushNew k ⟨st.nextId, 0⟩ with
    | .error e => (st, .error e)
    | .ok b' =>
      ({ st with sto := st.sto.setBase b', nextId := st.nextId + 1 },
        .ok s!"{pre}len={b'.len} dropped={droppedDelta b0 b'}")

def showVisit (v : TRes × Option TRes) : String :=
  let selfs := match v.2 with
    | some r => if r.id == dummyId then "dummy" else toString r.id
    | Option.none => "none"
  s!"{v.1.id}>{selfs}"

def opEach (st : StoState) : Res :=
  match st.sto with
  | .self ss =>
    match ss.forEach (fun r _ => { r with visits := r.visits + 1 }) with
    | .error e => (st, .error e)
    | .ok (ss', vs) =>
      ({ st with sto := .self ss' },
        .ok ("each " ++ (if vs.isEmpty then "-" else String.intercalate "," (vs.map showVisit))))
  | _ => (st, .ok "na")

def raaResult (b0 b : Store TRes) : String :=
  s!"ok len={b.len} items={showItems b.iter} dropped={droppedDelta b0 b}"

/-- whole `remove_and_add` -/
def opRaa (st : StoState) : Res :=
  match st.sto with
  | .none => (st, .ok "bad")
  | .plain s =>
    match s.removeAndAdd st.test with
    | .error e => (st, .error e)
    | .ok s' => ({ st with sto := .plain s' }, .ok (raaResult s s'))
  | .self ss =>
    match ss.removeAndAdd st.test with
    | .error e => (st, .error e)
    | .ok ss' => ({ st with sto := .self ss' }, .ok (raaResult ss.base ss'.base))

def opGet (st : StoState) (j : Nat) : Res :=
  match st.sto, st.keys[j]? with
  | .plain s, some k =>
    match s.get k with
    | .error e => (st, .error e)
    | .ok (some r) => (st, .ok s!"some {r.id}")
    | .ok Option.none => (st, .ok "none")
  | _, _ => (st, .ok "na")

def stoSeqStep (st : StoState) (tok : List String) : Option Res :=
  match tok with
  | ["new", kind, cap] => do
      let cap ← nat? cap
      let sto ← if kind == "plain" then some (Sto.plain (Store.new cap))
                else if kind == "self" then some (Sto.self (SelfStore.new cap ⟨dummyId, 0⟩)) else Option.none
      pure ({ sto := sto }, .ok "ok")
  | ["reserve"] => do let b ← st.sto.base; pure (opReserve st b)
  | ["insk", j] => do
      let j ← nat? j; let b ← st.sto.base; let k ← st.keys[j]?
      let b1 := b.drainUnused
      pure (opPush { st with sto := st.sto.setBase b1 } b k "ok ")
  | ["inskl"] => do
      let b ← st.sto.base
      match st.fresh with
      | Option.none => pure (st, .ok "skip")
      | some k =>
        let b1 := b.drainUnused
        pure (opPush { st with sto := st.sto.setBase b1, fresh := Option.none } b k "ok ")
  | ["ins"] => do
      let b ← st.sto.base
      match b.tryReserve with
      | .error e => pure (st, .error e)
      | .ok (Option.none, b') =>
        pure ({ st with sto := st.sto.setBase b', nextId := st.nextId + 1 },
          .ok s!"limit len={b'.len} dropped={st.nextId}")
      | .ok (some k, b') =>
        let b1 := b'.drainUnused
        pure (opPush { st with sto := st.sto.setBase b1, keys := st.keys ++ [k] } b k s!"ok {showKey k} ")
  | ["mark", id] => do let id ← nat? id; pure ({ st with marked := id :: st.marked }, .ok "ok")
  | ["raa"] => some (opRaa st)
  | ["get", j] => do let j ← nat? j; pure (opGet st j)
  | ["each"] => some (opEach st)
  | ["len"] => do let b ← st.sto.base; pure (st, .ok s!"len={b.len} cap={b.capacity}")
  | ["items"] => do let b ← st.sto.base; pure (st, .ok s!"items={showItems b.iter}")
  | _ => Option.none

/-! ### two threads under a script -/

/-- what is left of an op after a yield site -/
inductive Cont where
  /-- gameplay: push (key, new resource) — after `resources.insert_with_key.after_drain` -/
  | push (b0 : Store TRes) (k : Key) (pre : String)
  /-- audio: the pop-new loop — after `resources.remove_and_add.between` -/
  | add (b0 : Store TRes)
  /-- audio, fine mode: in the drain loop — after `resources.remove_and_add.in_drain` -/
  | drain (b0 : Store TRes) (rest : List Nat) (hand : Option TRes)

structure StoThread where
  started : Bool := false
  ops : List (List String)
  cont : Option Cont := Option.none
  done : Bool := false

structure StoWorld where
  st : StoState
  fine : Bool
  gRes : List String := []
  aRes : List String := []
  err : Option SFault := Option.none

def StoWorld.put (w : StoWorld) (who : Bool) (r : Res) : StoWorld :=
  match r.2 with
  | .error e => { w with st := r.1, err := some e }
  | .ok s => if who then { w with st := r.1, aRes := w.aRes ++ [s] } else { w with st := r.1, gRes := w.gRes ++ [s] }

/-- fine-mode drain: visit slots until one is removed (then yield with it in hand) or the list ends -/
def fineDrain (test : TRes → Bool) : List Nat → Store TRes → Except SFault (Store TRes × Option (List Nat × TRes))
  | [], s => .ok (s, Option.none)
  | i :: rest, s =>
    match s.drainVisit test i with
    | .error e => .error e
    | .ok (Option.none, s1) => fineDrain test rest s1
    | .ok (some x, s1) => .ok (s1, some (rest, x))

/-- start an op of a thread: returns the continuation if the op reaches a yield site -/
def startOp (who : Bool) (w : StoWorld) (tok : List String) : StoWorld × Option Cont :=
  let st := w.st
  match tok, st.sto.base with
  | ["insk", j], some b =>
    match (nat? j).bind (fun j => st.keys[j]?) with
    | some k => ({ w with st := { st with sto := st.sto.setBase b.drainUnused } }, some (.push b k "ok "))
    | Option.none => (w.put who (st, .ok "bad"), Option.none)
  | ["inskl"], some b =>
    match st.fresh with
    | some k =>
      ({ w with st := { st with sto := st.sto.setBase b.drainUnused, fresh := Option.none } }, some (.push b k "ok "))
    | Option.none => (w.put who (st, .ok "skip"), Option.none)
  | ["ins"], some b =>
    match b.tryReserve with
    | .error e => ({ w with err := some e }, Option.none)
    | .ok (Option.none, b') =>
      (w.put who ({ st with sto := st.sto.setBase b', nextId := st.nextId + 1 },
        .ok s!"limit len={b'.len} dropped={st.nextId}"), Option.none)
    | .ok (some k, b') =>
      ({ w with st := { st with sto := st.sto.setBase b'.drainUnused, keys := st.keys ++ [k] } },
        some (.push b k s!"ok {showKey k} "))
  | ["raa"], some b =>
    match st.sto with
    | .plain s =>
      if w.fine then
        match fineDrain st.test s.arena.order s with
        | .error e => ({ w with err := some e }, Option.none)
        | .ok (s1, Option.none) => ({ w with st := { st with sto := .plain s1 } }, some (.add b))
        | .ok (s1, some (rest, x)) => ({ w with st := { st with sto := .plain s1 } }, some (.drain b rest (some x)))
      else
        match s.drainPhase st.test with
        | .error e => ({ w with err := some e }, Option.none)
        | .ok s1 => ({ w with st := { st with sto := .plain s1 } }, some (.add b))
    | .self ss =>
      match ss.drainPhase st.test with
      | .error e => ({ w with err := some e }, Option.none)
      | .ok ss1 => ({ w with st := { st with sto := .self ss1 } }, some (.add b))
    | .none => (w, Option.none)
  | _, _ =>
    match stoSeqStep st tok with
    | some r => (w.put who r, Option.none)
    | Option.none => (w.put who (st, .ok "bad"), Option.none)

/-- resume after a yield site; may yield again (fine mode) -/
def resume (who : Bool) (w : StoWorld) : Cont → StoWorld × Option Cont
  | .push b0 k pre => (w.put who (opPush w.st b0 k pre), Option.none)
  | .add _b0 =>
    let st := w.st
    match st.sto with
    | .plain s =>
      match s.addPhase with
      | .error e => ({ w with err := some e }, Option.none)
      | .ok (s', _) => (w.put who ({ st with sto := .plain s' }, .ok s!"ok items={showItems s'.iter}"), Option.none)
    | .self ss =>
      match ss.addPhase with
      | .error e => ({ w with err := some e }, Option.none)
      | .ok ss' => (w.put who ({ st with sto := .self ss' }, .ok s!"ok items={showItems ss'.base.iter}"), Option.none)
    | .none => (w, Option.none)
  | .drain b0 rest hand =>
    let st := w.st
    match st.sto, hand with
    | .plain s, some x =>
      match s.pushUnused x with
      | .error e => ({ w with err := some e }, Option.none)
      | .ok s1 =>
        match fineDrain st.test rest s1 with
        | .error e => ({ w with err := some e }, Option.none)
        | .ok (s2, Option.none) => ({ w with st := { st with sto := .plain s2 } }, some (.add b0))
        | .ok (s2, some (rest', y)) => ({ w with st := { st with sto := .plain s2 } }, some (.drain b0 rest' (some y)))
    | _, _ => (w, Option.none)

/-- run one segment of a thread: from where it stands to the next yield site or to its end -/
def stoSegFuel : Nat → Bool → StoThread → StoWorld → StoThread × StoWorld
  | 0, _, t, w => ({ t with done := true }, w)
  | n + 1, who, t, w =>
    if w.err.isSome then ({ t with done := true }, w) else
    match t.cont with
    | some c =>
      let (w', c') := resume who w c
      match c' with
      | some c'' => ({ t with cont := some c'' }, w')          -- yielded again
      | Option.none => stoSegFuel n who { t with cont := Option.none } w'
    | Option.none =>
      match t.ops with
      | [] => ({ t with done := true }, w)
      | op :: rest =>
        let (w', c) := startOp who w op
        match c with
        | some c' => ({ t with ops := rest, cont := some c' }, w')    -- reached a yield site
        | Option.none => stoSegFuel n who { t with ops := rest } w'

def stoSeg (who : Bool) (t : StoThread) (w : StoWorld) : StoThread × StoWorld :=
  stoSegFuel (2 * t.ops.length + 64) who { t with started := true } w

def parseProg (s : String) : List (List String) :=
  (splitList s).map (fun o => o.splitOn ":")

def joinRes (l : List String) : String :=
  if l.isEmpty then "-" else String.intercalate ";" (l.map (fun s => s.replace " " "_"))

def storageStep (st : StoState) (tok : List String) : Option (StoState × String) :=
  match tok with
  | ["par", fine, script, gs, as] => do
      let script ← parseScript script
      let g := parseProg gs
      let a := parseProg as
      let fuel := script.length + 4 * (g.length + a.length) + 64
      let (_, _, w) := sched (fun t : StoThread => t.done) stoSeg fuel script ⟨false, g, Option.none, false⟩
        ⟨false, a, Option.none, false⟩ { st := st, fine := fine == "1" }
      match w.err with
      | some e => pure (w.st, fault e)
      | Option.none => pure (w.st, s!"par g={joinRes w.gRes} a={joinRes w.aRes}")
  | _ =>
    match stoSeqStep st tok with
    | some (st', .ok s) => some (st', s)
    | some (st', .error e) => some (st', fault e)
    | Option.none => Option.none

end K.Exec
