/-
  Twin of harness suite `chan` (C07): real `kira::command::command_writer_and_reader` pairs driven
  at whole-operation granularity, sequentially and on two threads under a script.
    new <K> | w <k> <v> | r <k> | par <script> <w:k:v,…|-> <r:k,…|-> | stress <k> <base> <n>
-/
import KiraModel.Exec.Proto
import KiraModel.Exec.Sched
import KiraModel.Model.Conc.CommandChan

namespace K.Exec
open K K.Proto K.Chan

structure ChanState where
  p : Chan.Prod Nat Nat := Chan.Prod.init

inductive ChanOp where
  | w (k v : Nat)
  | r (k : Nat)

def parseChanOp (s : String) : Option ChanOp :=
  match s.splitOn ":" with
  | ["w", k, v] => do let k ← nat? k; let v ← nat? v; pure (.w k v)
  | ["r", k] => do let k ← nat? k; pure (.r k)
  | _ => none

def showRead : Option Nat → String
  | some v => s!"some:{v}"
  | none => "none"

/-- a thread of the `par` op: not yet started / remaining ops; every op is preceded by a yield
    (`command.write` / `command.read` sit at the very start of `write` / `read`) -/
structure ChanThread where
  started : Bool := false
  ops : List ChanOp
  done : Bool := false

structure ChanWorld where
  p : Chan.Prod Nat Nat
  reads : List String := []

def chanSeg (_who : Bool) (t : ChanThread) (w : ChanWorld) : ChanThread × ChanWorld :=
  if !t.started then
    -- from thread start to the first yield (or to the end if there is nothing to do)
    match t.ops with
    | [] => ({ t with started := true, done := true }, w)
    | _ => ({ t with started := true }, w)
  else
    match t.ops with
    | [] => ({ t with done := true }, w)
    | op :: rest =>
      let w' := match op with
        | .w k v => { w with p := w.p.writeOp k v }
        | .r k => let (p', r) := w.p.readOp k; { w with p := p', reads := w.reads ++ [showRead r] }
      ({ t with ops := rest, done := rest.isEmpty }, w')

def chanStep (st : ChanState) (tok : List String) : Option (ChanState × String) :=
  match tok with
  | ["new", _] => some ({ p := Chan.Prod.init }, "ok")
  | ["w", k, v] => do
      let k ← nat? k; let v ← nat? v
      pure ({ p := st.p.writeOp k v }, "ok")
  | ["r", k] => do
      let k ← nat? k
      let (p', r) := st.p.readOp k
      pure ({ p := p' }, showRead r)
  | ["par", script, gs, as] => do
      let script ← parseScript script
      let g ← (splitList gs).mapM parseChanOp
      let a ← (splitList as).mapM parseChanOp
      let fuel := script.length + g.length + a.length + 8
      let (_, _, w) := sched (fun t : ChanThread => t.done) chanSeg fuel script ⟨false, g, false⟩ ⟨false, a, false⟩
        ⟨st.p, []⟩
      pure ({ p := w.p }, "par " ++ (if w.reads.isEmpty then "-" else String.intercalate "," w.reads))
  | ["stress", k, base, n] => do
      -- real-thread race: the trace only says that it ran; after it the channel has delivered the
      -- last value (the harness drains it), so the model performs the writes and one read
      let k ← nat? k; let base ← nat? base; let n ← nat? n
      let p1 := (List.range n).foldl (fun p i => p.writeOp k (base + i + 1)) st.p
      let (p2, _) := p1.readOp k
      pure ({ p := p2 }, "ok")
  | _ => none

end K.Exec
