/-
  Twin of harness suite `wav` (C18).  The twin runs FIRST (`twin_first` suite): it encodes the
  generated (spec, samples) with the Lean encoder, prints the bytes, and the harness feeds those
  very bytes to kira.

  ops (a case keeps: the original file, the current file, an optional open stream):
    wav <fmt> <channels> <rate> <n> <codes-hex>   encode; file := orig := bytes; static load
    raw <bytes-hex>                               file := orig := bytes; static load
    mut.xor <pos> <mask>                          file := orig with byte pos xor mask; static load
    mut.trunc <len>                               file := first len bytes of orig; static load
    mut.lie <dRiff> <dData>                       file := orig with the RIFF length field (offset 4) and the
                                                  data-chunk length field (offset 40) increased; static load
    st.new <start> <a> <b>|- -                    open a stream on file (slice a..b or none)
    st.run <k>                                    k scheduler iterations, frames pushed
    st.seek <idx> <k>                             seek_to(idx) then k iterations
    st.thread                                     hand the stream to a real decoder thread and play it out:
                                                  `thread finished` | `thread stopped <error on the handle>`
    asset …                                       implementation-side only (echoed)
-/
import KiraModel.Exec.Proto
import KiraModel.Model.Decoder

namespace K.Exec.Wav
open K K.Proto K.Wav K.Dec

def fdFloat : FloatDec Float :=
  { f32 := fun c => (Float32.ofBits c.toUInt32).toFloat, f64 := fun c => Float.ofBits c.toUInt64 }

def parseFmtName (s : String) : Option Fmt :=
  match s with
  | "u8" => some .u8 | "s16" => some .s16 | "s24" => some .s24 | "s32" => some .s32
  | "f32" => some .f32 | "f64" => some .f64 | _ => none

def hexOfBytes (bs : List UInt8) : String :=
  String.ofList (bs.foldr (fun b acc => hexChar (b.toNat / 16) :: hexChar (b.toNat % 16) :: acc) [])

def bytesOfHexChars : List Char → Option (List UInt8)
  | [] => some []
  | [_] => none
  | a :: b :: rest => do
      let x ← hexDigit a; let y ← hexDigit b; let r ← bytesOfHexChars rest
      pure (UInt8.ofNat (x * 16 + y) :: r)

def bytesOfHex (s : String) : Option (List UInt8) :=
  if s == "-" then some [] else bytesOfHexChars s.toList

/-- codes: `n` groups of `2·bytes` hex digits (numeric value of the code) -/
def codesOfHexChars (w : Nat) : Nat → List Char → Option (List Nat)
  | 0, [] => some []
  | 0, _ => none
  | n + 1, cs =>
    if (cs.take w).length < w then none else do
      let v ← (cs.take w).foldl (fun acc c => match acc, hexDigit c with
        | some a, some d => some (a * 16 + d)
        | _, _ => none) (some 0)
      let r ← codesOfHexChars w n (cs.drop w)
      pure (v :: r)

def show32n (x : Float) : String := if x.isNaN then "nnnnnnnn" else toHex x.toFloat32.toBits.toNat 8

def showFrames (fs : List (Frame Float)) : String :=
  if fs.isEmpty then "-" else String.join (fs.map (fun f => show32n f.left ++ show32n f.right))

/-- zero sign canonicalised (the streaming path adds `c0` to a signed zero) -/
def canonZ (x : Float) : Float := if x == 0.0 then 0.0 else x
def showFramesZ (fs : List (Frame Float)) : String :=
  if fs.isEmpty then "-" else
  String.join (fs.map (fun f => show32n (canonZ f.left) ++ show32n (canonZ f.right)))

def errName : Err → String
  | .chan => "err chan" | .rate => "err rate" | .sym => "err sym"
  | .panic => "panic" | .hang => "hang"

/-- the probe only reaches the WAV reader when the file starts with `RIFF`; otherwise other
    format readers are tried (not modelled): no prediction -/
def predictable (bs : List UInt8) : Bool := bs.take 4 == tagRIFF

def showLoad (bs : List UInt8) : String :=
  if !predictable bs then "nopred" else
  match loadStatic fdFloat bs with
  | .ok (rate, fs) => s!"ok rate={rate} n={fs.length} frames={showFrames fs}"
  | .error e => errName e

structure Stream where
  fc : FmtChunk
  r : Reader
  cfg : Cfg
  st : Sched Nat Float
  ended : Bool

structure WavState where
  orig : List UInt8 := []
  file : List UInt8 := []
  stream : Option Stream := none

def streamFuel : Nat := 1000000

/-- run up to `k` scheduler iterations; returns frames pushed (reversed), final stream, error -/
def runK (D : Decoder Nat Float) : Nat → Stream → List (Frame Float) → (List (Frame Float) × Stream × Option Err)
  | 0, s, acc => (acc, s, none)
  | k + 1, s, acc =>
    if s.ended then (acc, s, none) else
    match runStep D s.cfg streamFuel s.st with
    | .error e => (acc, { s with ended := true }, some e)
    | .ok (f, _, go, st') => runK D k { s with st := st', ended := !go } (f :: acc)

def showRun (acc : List (Frame Float)) (s : Stream) (e : Option Err) : String :=
  let tail := match e with
    | some e => " " ++ errName e
    | none => if s.ended then " end" else ""
  s!"n={acc.length} frames={showFramesZ acc.reverse}{tail}"

def xorAt (bs : List UInt8) (pos mask : Nat) : List UInt8 :=
  match bs[pos]? with
  | some b => bs.set pos (b ^^^ UInt8.ofNat mask)
  | none => bs

/-- add `d` (mod 2³²) to the little-endian u32 at byte offset `off` (files too short: unchanged) -/
def addLE32 (bs : List UInt8) (off d : Nat) : List UInt8 :=
  if bs.length < off + 4 then bs else
  bs.take off ++ leBytes 4 ((leVal ((bs.drop off).take 4) + d) % 4294967296) ++ bs.drop (off + 4)

/-- iterations allowed to the decoder-thread model (`runThread`); a stream has far fewer frames -/
def threadSteps : Nat := 1000000

def setFile (st : WavState) (bs : List UInt8) (orig : Bool) (pre : String) : Option (WavState × String) :=
  let r := showLoad bs
  let line := if r == "nopred" then r else pre ++ r
  some ({ st with file := bs, orig := if orig then bs else st.orig, stream := none }, line)

def wavStep (st : WavState) (tok : List String) : Option (WavState × String) :=
  match tok with
  | ["wav", f, ch, rate, n, codes] => do
      let f ← parseFmtName f; let ch ← nat? ch; let rate ← nat? rate; let n ← nat? n
      let codes ← if codes == "-" then some [] else codesOfHexChars (2 * f.bytes) n codes.toList
      let bs := encode ⟨f, ch, rate⟩ codes
      setFile st bs true s!"bytes={hexOfBytes bs} "
  | "raw" :: hex :: _ => do   -- (an oracle's replay line carries a ` :: explanation` tail)
      let bs ← bytesOfHex hex
      setFile st bs true ""
  | ["mut.xor", pos, mask] => do
      let pos ← nat? pos; let mask ← nat? mask
      setFile st (xorAt st.orig pos mask) false ""
  | ["mut.trunc", len] => do
      let len ← nat? len
      setFile st (st.orig.take len) false ""
  | ["mut.lie", dr, dd] => do
      let dr ← nat? dr; let dd ← nat? dd
      setFile st (addLE32 (addLE32 st.orig 4 dr) 40 dd) false ""
  | ["st.new", start, a, b] => do
      let start ← nat? start
      let slice ← if a == "-" then some none else do
        let a ← nat? a; let b ← nat? b; pure (some (a, b))
      if !predictable st.file then pure ({ st with stream := none }, "nopred") else
      match openStream st.file with
      | .error e => pure ({ st with stream := none }, errName e)
      | .ok (fc, r, nf) =>
        match Sched.new (wavDecoder fdFloat fc r) 0 slice nf start with
        | .error e => pure ({ st with stream := none }, errName e)
        | .ok (cfg, sch) =>
          pure ({ st with stream := some ⟨fc, r, cfg, sch, false⟩ },
                s!"ok n={cfg.numFrames}")
  | ["st.run", k] => do
      let k ← nat? k
      match st.stream with
      | none => pure (st, "nostream")
      | some s =>
        if s.ended then pure (st, "ended") else
        let (acc, s', e) := runK (wavDecoder fdFloat s.fc s.r) k s []
        pure ({ st with stream := some s' }, showRun acc s' e)
  | ["st.seek", idx, k] => do
      let idx ← nat? idx; let k ← nat? k
      match st.stream with
      | none => pure (st, "nostream")
      | some s =>
        if s.ended then pure (st, "ended") else
        let D := wavDecoder fdFloat s.fc s.r
        match seekToIndex D s.cfg s.st idx with
        | .error e => pure ({ st with stream := some { s with ended := true } }, s!"n=0 frames=- {errName e}")
        | .ok sch =>
          let (acc, s', e) := runK D k { s with st := sch } []
          pure ({ st with stream := some s' }, showRun acc s' e)
  | ["st.thread"] =>
      match st.stream with
      | none => pure (st, "nostream")
      | some s =>
        if s.ended then pure (st, "ended") else
        let line := match runThread (wavDecoder fdFloat s.fc s.r) s.cfg streamFuel threadSteps s.st [] with
          | .error e => s!"thread {errName e}"
          | .ok ⟨_, none⟩ => "thread finished"
          | .ok ⟨_, some e⟩ => s!"thread stopped {errName e}"
        pure ({ st with stream := some { s with ended := true } }, line)
  | "asset" :: _ => pure (st, "asset ok")
  | "asset.mut" :: _ => pure (st, "asset ok")
  | _ => none

end K.Exec.Wav
