/-
  Twin of harness suite `mixer` (C02, C11, C12): a whole `Renderer` with probe sounds / effects, driven
  like the public API drives kira (see harness/src/suites/mixer.rs for the op grammar).
-/
import KiraModel.Exec.SuiteParam
import KiraModel.Model.Probe

namespace K.Exec.Mix
open K K.Proto

/-- a fixed-speed clock, just enough of clock.rs for `resume_at(ClockTime)` histories
    (mirrors: clock.rs::Clock::{on_start_processing, update}, info.rs::Info::clock_info,
    backend/resources/clocks.rs) -/
structure MxClock where
  id : Nat
  tps : Float
  ticking : Bool := false
  started : Bool := false
  ticks : Nat := 0
  frac : Float := 0.0
  marked : Bool := false
  cmdTicking : Option Bool := none

structure MxEnv where
  clocks : List MxClock := []
  pending : List MxClock := []

/-- mirrors: the tick counting of clock.rs::Clock::update (all the whole ticks at once) -/
def tickCount (t : Float) (k : Nat) : Float × Nat :=
  if t >= 1.0 then
    let w := t.floor
    (if w.isFinite then t - w else 0.0, KOps.satU64 (α := Float) (k + w.toUInt64.toNat))
  else (t, k)

def MxClock.update (c : MxClock) (dt : Float) : MxClock :=
  if !c.ticking then c
  else
    let c := if !c.started then { c with started := true, ticks := 0, frac := 0.0 } else c
    let r := tickCount (c.frac + c.tps * dt) c.ticks
    { c with frac := r.1, ticks := r.2 }

def MxClock.onStart (c : MxClock) : MxClock :=
  match c.cmdTicking with
  | some b => { c with ticking := b, cmdTicking := none }
  | none => c

def mxEnvOps : EnvOps Float MxEnv :=
  { start := fun e =>
      { clocks := ((e.clocks.filter (fun c => !c.marked)) ++ e.pending).map MxClock.onStart, pending := [] }
    step := fun e dt => { e with clocks := e.clocks.map (fun c => c.update dt) }
    info := fun e =>
      { clock := fun id => (e.clocks.find? (fun c => c.id == id)).map (fun c =>
          { ticking := c.ticking, time := if c.started then ⟨c.ticks, c.frac⟩ else ⟨0, 0.0⟩ })
        modulator := fun _ => none
        listenerDistance := none } }

abbrev MxTrk := Trk Float (PSnd Float) (PFx Float) Unit
abbrev MxRenderer := Renderer Float (PSnd Float) (PFx Float) Unit MxEnv

def mxC : Comps Float (PSnd Float) (PFx Float) Unit := probeComps

/-- a track handle whose track no longer exists on the audio side (the track was dropped while in a
    removed parent's ring): what the handle still answers.  Since kira fix "parent track was removed with
    a sub-track still waiting to be added" no live handle can lose its track (`C12_removal_rule`); the
    bookkeeping is kept so that a regression replays as the old zombie behaviour. -/
structure Ghost where
  id : Nat
  pubState : Nat
  numSounds : Nat
  numSubs : Nat

structure MixState where
  r : Option MxRenderer := none
  nextTrack : Nat := 0
  nextSend : Nat := 0
  nextClock : Nat := 0
  nextSound : Nat := 0
  nextFx : Nat := 0
  /-- ids of live track handles, ascending -/
  handles : List Nat := []
  ghosts : List Ghost := []
  dead : Bool := false

def parseRef (pre : Char) (s : String) : Option Nat :=
  match s.toList with
  | c :: rest => if c == pre then (String.ofList rest).toNat? else none
  | [] => none

/-- `-` or `g,o,f;g,o,f` — effect ids are assigned in order from `next` -/
def parseFxList (s : String) (next : Nat) : Option (List (PFx Float) × Nat) :=
  if s == "-" then some ([], next) else
  (s.splitOn ";").foldlM (fun (acc : List (PFx Float) × Nat) item =>
    match item.splitOn "," with
    | [g, o, f] => do
        let g ← f32? g; let o ← f32? o; let f ← f32? f
        pure (acc.1 ++ [{ id := acc.2, gain := g, offset := o, feedback := f, prev := Frame.zero,
                          slices := [], starts := 0 }], acc.2 + 1)
    | _ => none) ([], next)

/-- `-` or `sK:db;sK:db` -/
def parseSendList (s : String) : Option (List (Nat × Float)) :=
  if s == "-" then some [] else
  (s.splitOn ";").mapM (fun item =>
    match item.splitOn ":" with
    | [k, db] => do let k ← parseRef 's' k; let db ← f32? db; pure (k, db)
    | _ => none)

def parseSignal (s : String) : Option (PSignal Float) :=
  match s.splitOn ":" with
  | ["idx", b] => (f32? b).map .index
  | ["const", l, r] => do let l ← f32? l; let r ← f32? r; pure (.const l r)
  | _ => none

def parseLen (s : String) : Option (Option Nat) :=
  if s == "inf" then some none else (nat? s).map some

/-! logs: activity since the last report, then cleared -/

def showSlices (l : List Nat) : String := String.intercalate "," (l.reverse.map toString)

def sndReport (s : PSnd Float) : List (Nat × String) :=
  if s.starts == 0 && s.slices.isEmpty then [] else [(s.id, s!"x{s.id}={s.starts}:{showSlices s.slices}")]
def fxReport (e : PFx Float) : List (Nat × String) :=
  if e.starts == 0 && e.slices.isEmpty then [] else [(e.id, s!"f{e.id}={e.starts}:{showSlices e.slices}")]
def sndClear (s : PSnd Float) : PSnd Float := { s with slices := [], starts := 0 }
def fxClear (e : PFx Float) : PFx Float := { e with slices := [], starts := 0 }

mutual
def trkReport : MxTrk → List (Nat × String) × List (Nat × String)
  | .node d c p =>
    let a := trkReportList c
    let b := trkReportList p
    ((d.sounds ++ d.pendingSounds).flatMap sndReport ++ a.1 ++ b.1, d.effects.flatMap fxReport ++ a.2 ++ b.2)
def trkReportList : List MxTrk → List (Nat × String) × List (Nat × String)
  | [] => ([], [])
  | t :: ts => let a := trkReport t; let b := trkReportList ts; (a.1 ++ b.1, a.2 ++ b.2)
end

mutual
def trkClear : MxTrk → MxTrk
  | .node d c p =>
    .node { d with sounds := d.sounds.map sndClear, pendingSounds := d.pendingSounds.map sndClear,
                   effects := d.effects.map fxClear } (trkClearList c) (trkClearList p)
def trkClearList : List MxTrk → List MxTrk
  | [] => []
  | t :: ts => trkClear t :: trkClearList ts
end

def insertSorted (x : Nat × String) : List (Nat × String) → List (Nat × String)
  | [] => [x]
  | y :: ys => if x.1 < y.1 then x :: y :: ys else y :: insertSorted x ys
def sortById (l : List (Nat × String)) : List (Nat × String) := l.foldr insertSorted []

def mixerReport (m : Mixer Float (PSnd Float) (PFx Float) Unit) : String :=
  let t := trkReportList (m.subTracks ++ m.pendingSubTracks)
  let snd := (m.main.sounds ++ m.main.pendingSounds).flatMap sndReport ++ t.1
  let fx := m.main.effects.flatMap fxReport
    ++ (m.sendTracks ++ m.pendingSendTracks).flatMap (fun s => s.effects.flatMap fxReport) ++ t.2
  String.intercalate " " ((sortById snd ++ sortById fx).map (·.2))

def mixerClear (m : Mixer Float (PSnd Float) (PFx Float) Unit) : Mixer Float (PSnd Float) (PFx Float) Unit :=
  { m with
    main := { m.main with sounds := m.main.sounds.map sndClear, pendingSounds := m.main.pendingSounds.map sndClear,
                          effects := m.main.effects.map fxClear },
    subTracks := trkClearList m.subTracks, pendingSubTracks := trkClearList m.pendingSubTracks,
    sendTracks := m.sendTracks.map (fun s => { s with effects := s.effects.map fxClear }),
    pendingSendTracks := m.pendingSendTracks.map (fun s => { s with effects := s.effects.map fxClear }) }

def insertNat (x : Nat) : List Nat → List Nat
  | [] => [x]
  | y :: ys => if x < y then x :: y :: ys else y :: insertNat x ys

/-- the answers of a live track handle: published state, num_sounds, num_sub_tracks -/
def handleInfo (st : MixState) (m : Mixer Float (PSnd Float) (PFx Float) Unit) (id : Nat) : Option (Nat × Nat × Nat) :=
  match m.findTrack id with
  | some t => some (t.data.pubState, t.hNumSounds, t.hNumSubTracks)
  | none => (st.ghosts.find? (fun g => g.id == id)).map (fun g => (g.pubState, g.numSounds, g.numSubs))

def stateName : TrackPlaybackState → String
  | .playing => "playing" | .pausing => "pausing" | .paused => "paused"
  | .waitingToResume => "waiting" | .resuming => "resuming"

/-- apply a handle operation to a track: in the tree if it is there, on the ghost otherwise -/
def onTrack (st : MixState) (r : MxRenderer) (id : Nat) (f : MxTrk → MxTrk) (g : Ghost → Ghost) : MixState :=
  match r.mixer.findTrack id with
  | some _ => { st with r := some { r with mixer := r.mixer.mapTrack id f } }
  | none => { st with ghosts := st.ghosts.map (fun x => if x.id == id then g x else x) }

def showSamples (l : List Float) : String := String.intercalate " " (l.map show32)

def mixStep1 (st : MixState) (tok : List String) : Option (MixState × String) :=
  match st.r, tok with
  | _, ["init", ibs, sr, vol, fx] => do
      let ibs ← nat? ibs; let sr ← nat? sr; let vol ← f32? vol
      let (fx, nfx) ← parseFxList fx st.nextFx
      let r : MxRenderer := { dt := 1.0 / Float.ofNat sr, mixer := Mixer.new vol fx ibs, env := {}, ibs := ibs,
                              temp := zeros ibs }
      pure ({ st with r := some r, nextFx := nfx }, "ok")
  | none, _ => none
  | some r, ["send.add", vol, fx] => do
      let vol ← f32? vol
      let (fx, nfx) ← parseFxList fx st.nextFx
      let s := SendTrk.build st.nextSend vol fx r.ibs
      pure ({ st with r := some { r with mixer := r.mixer.hAddSendTrack s }, nextFx := nfx,
                      nextSend := st.nextSend + 1 }, s!"s{st.nextSend}")
  | some r, ["track.add", parent, vol, persist, fx, sends] => do
      let vol ← f32? vol
      let (fx, nfx) ← parseFxList fx st.nextFx
      let sends ← parseSendList sends
      let id := st.nextTrack
      let t : MxTrk := Trk.build id vol fx sends (persist == "1") r.ibs
      let st1 := { st with nextFx := nfx, nextTrack := id + 1, handles := insertNat id st.handles }
      if parent == "m" then
        pure ({ st1 with r := some { r with mixer := r.mixer.hAddSubTrack t } }, s!"t{id}")
      else do
        let pid ← parseRef 't' parent
        -- a child added through the handle of a ghost is lost with it
        let st2 := onTrack st1 r pid (Trk.hAddSubTrack t) (fun g => { g with numSubs := g.numSubs + 1 })
        let st3 := if (r.mixer.findTrack pid).isNone then
            { st2 with ghosts := st2.ghosts ++ [{ id := id, pubState := 0, numSounds := 0, numSubs := 0 }] }
          else st2
        pure (st3, s!"t{id}")
  | some r, ["play", wher, sig, len] => do
      let sig ← parseSignal sig; let len ← parseLen len
      let s : PSnd Float := { id := st.nextSound, signal := sig, length := len, produced := 0, slices := [], starts := 0 }
      let st1 := { st with nextSound := st.nextSound + 1 }
      if wher == "m" then
        pure ({ st1 with r := some { r with mixer := r.mixer.hPlayMain s } }, s!"x{s.id}")
      else do
        let id ← parseRef 't' wher
        pure (onTrack st1 r id (Trk.hPlay s) (fun g => { g with numSounds := g.numSounds + 1 }), s!"x{s.id}")
  | some r, ["track.vol", t, db, tw] => do
      let id ← parseRef 't' t; let db ← f32? db; let tw ← parseTween tw
      pure (onTrack st r id (Trk.hSetVolume (.fixed db) tw) (fun g => g), "ok")
  | some r, ["track.send", t, s, db, tw] => do
      let id ← parseRef 't' t; let sid ← parseRef 's' s; let db ← f32? db; let tw ← parseTween tw
      pure (onTrack st r id (Trk.hSetSend sid (.fixed db) tw) (fun g => g), "ok")
  | some r, ["main.vol", db, tw] => do
      let db ← f32? db; let tw ← parseTween tw
      pure ({ st with r := some { r with mixer := r.mixer.hSetMainVolume (.fixed db) tw } }, "ok")
  | some r, ["send.vol", s, db, tw] => do
      let sid ← parseRef 's' s; let db ← f32? db; let tw ← parseTween tw
      pure ({ st with r := some { r with mixer := r.mixer.hSetSendVolume sid (.fixed db) tw } }, "ok")
  | some r, ["track.pause", t, tw] => do
      let id ← parseRef 't' t; let tw ← parseTween tw
      pure (onTrack st r id (Trk.hPause tw) (fun g => g), "ok")
  | some r, ["track.resume", t, start, tw] => do
      let id ← parseRef 't' t; let start ← parseStart start; let tw ← parseTween tw
      pure (onTrack st r id (Trk.hResumeAt start tw) (fun g => g), "ok")
  | some r, ["track.drop", t] => do
      let id ← parseRef 't' t
      let st1 := onTrack st r id Trk.hDrop (fun g => g)
      pure ({ st1 with handles := st1.handles.filter (· != id), ghosts := st1.ghosts.filter (·.id != id) }, "ok")
  | some r, ["send.drop", s] => do
      let sid ← parseRef 's' s
      pure ({ st with r := some { r with mixer := r.mixer.hDropSend sid } }, "ok")
  | some r, ["clock.add", tps] => do
      let tps ← f64? tps
      let c : MxClock := { id := st.nextClock, tps := tps }
      pure ({ st with r := some { r with env := { r.env with pending := r.env.pending ++ [c] } },
                      nextClock := st.nextClock + 1 }, s!"c{c.id}")
  | some r, ["clock.start", c] => do
      let id ← parseRef 'c' c
      let f := fun (c : MxClock) => if c.id == id then { c with cmdTicking := some true } else c
      pure ({ st with r := some { r with env := { clocks := r.env.clocks.map f, pending := r.env.pending.map f } } }, "ok")
  | some r, ["clock.stop", c] => do
      let id ← parseRef 'c' c
      let f := fun (c : MxClock) => if c.id == id then { c with cmdTicking := some false } else c
      pure ({ st with r := some { r with env := { clocks := r.env.clocks.map f, pending := r.env.pending.map f } } }, "ok")
  | some r, ["clock.drop", c] => do
      let id ← parseRef 'c' c
      let f := fun (c : MxClock) => if c.id == id then { c with marked := true } else c
      pure ({ st with r := some { r with env := { clocks := r.env.clocks.map f, pending := r.env.pending.map f } } }, "ok")
  | some r, ["cb", frames, ch] => do
      let frames ← nat? frames; let ch ← nat? ch
      -- what the live handles answer before the callback (kept for tracks that are lost in it)
      let before := st.handles.filterMap (fun id => (handleInfo st r.mixer id).map (fun x => (id, x)))
      let r1 := r.onStart mxC mxEnvOps
      match r1.process mxC mxEnvOps frames ch with
      | .error .zeroChunk => pure ({ st with r := some r1 }, "fault zeroChunk")
      | .ok (r2, samples) =>
        let rep := mixerReport r2.mixer
        let r3 := { r2 with mixer := mixerClear r2.mixer }
        let lost := before.filter (fun x => (r3.mixer.findTrack x.1).isNone && !(st.ghosts.any (·.id == x.1)))
        let ghosts := st.ghosts ++ lost.map (fun x => { id := x.1, pubState := x.2.1, numSounds := x.2.2.1, numSubs := x.2.2.2 })
        pure ({ st with r := some r3, ghosts := ghosts }, s!"{showSamples samples} ; {rep}")
  | some r, ["q"] =>
      let m := r.mixer
      let infos := st.handles.filterMap (fun id => (handleInfo st m id).map (fun x => (id, x)))
      -- `TrackShared::state` is total: the query cannot panic
      let parts := infos.map (fun x => s!"t{x.1}={stateName (decodeTrackState x.2.1)}/{x.2.2.1}/{x.2.2.2}")
      some (st, String.intercalate " "
        ([s!"subs={m.hNumSubTracks}", s!"sends={m.hNumSendTracks}",
          s!"main={m.main.sounds.length + m.main.pendingSounds.length}"] ++ parts))
  | _, _ => none

/-- split a token list at the `|` tokens -/
def splitBar : List String → List (List String)
  | [] => [[]]
  | t :: ts =>
    let r := splitBar ts
    if t == "|" then [] :: r
    else match r with
      | h :: rest => (t :: h) :: rest
      | [] => [[t]]

/-- `seq <op> | <op> | …` runs the ops in order (outputs joined by ` || `); a fault ends the sequence -/
def mixStep (st : MixState) (tok : List String) : Option (MixState × String) :=
  match tok with
  | "seq" :: rest =>
    let ops := (splitBar rest).filter (fun o => !o.isEmpty)
    let r := ops.foldl (fun (acc : Option (MixState × List String × Bool)) o =>
      match acc with
      | none => none
      | some (s, outs, dead) =>
        if dead then some (s, outs, dead)
        else match mixStep1 s o with
          | some (s', out) => some (s', outs ++ [out], out.startsWith "fault")
          | none => none) (some (st, [], false))
    r.map (fun (s, outs, dead) =>
      (s, if dead then (outs.getLast?.getD "fault panic") else String.intercalate " || " outs))
  | _ => mixStep1 st tok

end K.Exec.Mix
