/-
  Twins of harness suites `lfo` and `tweener` (C17): one built-in modulator driven through
  on_start_processing / update / value, its handle writing commands in between.
-/
import KiraModel.Exec.SuiteParam
import KiraModel.Model.Lfo
import KiraModel.Model.Tweener

namespace K.Exec
open K K.Proto

def parseWaveform (s : String) : Option (Waveform Float) :=
  if s == "sin" then some .sine
  else if s == "tri" then some .triangle
  else if s == "saw" then some .saw
  else match s.splitOn ":" with
    | ["pul", w] => (f64? w).map .pulse
    | _ => none

/-- `ValueChangeCommand<f64>` operands -/
def parseVC (v tw : String) : Option (Value Float Float × Tween Float) := do
  let v ← parseValue codec64 v; let tw ← parseTween tw
  pure (v, tw)

structure LfoSt where
  info : InfoState := {}
  lfo : Option (Lfo Float) := none
  cmds : LfoCommands Float := {}
  handle : Bool := true

def b01 (b : Bool) : String := if b then "1" else "0"

def lfoStep (st : LfoSt) (tok : List String) : Option (LfoSt × String) :=
  match tok with
  | "info.clocks" :: _ | "info.mods" :: _ => (infoStep st.info tok).map (fun i => ({ st with info := i }, "ok"))
  | ["new", w, f, a, o, ph] => do
      let w ← parseWaveform w
      let f ← parseValue codec64 f; let a ← parseValue codec64 a; let o ← parseValue codec64 o
      let ph ← f64? ph
      let l := Lfo.new ⟨w, f, a, o, ph⟩
      pure ({ st with lfo := some l, cmds := {}, handle := true }, show64 l.value)
  | ["drop"] => some ({ st with handle := false }, "ok")
  | ["start"] => do
      let l ← st.lfo
      pure ({ st with lfo := some (l.onStartProcessing st.cmds), cmds := {} }, "ok")
  | ["update", dt] => do
      let l ← st.lfo; let dt ← f64? dt
      let l' := l.update dt st.info.toInfo
      pure ({ st with lfo := some l' }, s!"{show64 l'.value} {b01 (!st.handle)}")
  | cmd :: args =>
    if !st.handle then some (st, "nohandle") else
    match cmd, args with
    | "set_waveform", [w] => (parseWaveform w).map (fun w => ({ st with cmds := { st.cmds with setWaveform := some w } }, "ok"))
    | "set_phase", [p] => (f64? p).map (fun p => ({ st with cmds := { st.cmds with setPhase := some p } }, "ok"))
    | "set_frequency", [v, tw] => (parseVC v tw).map (fun c => ({ st with cmds := { st.cmds with setFrequency := some c } }, "ok"))
    | "set_amplitude", [v, tw] => (parseVC v tw).map (fun c => ({ st with cmds := { st.cmds with setAmplitude := some c } }, "ok"))
    | "set_offset", [v, tw] => (parseVC v tw).map (fun c => ({ st with cmds := { st.cmds with setOffset := some c } }, "ok"))
    | _, _ => none
  | _ => none

structure TweenerSt where
  info : InfoState := {}
  tw : Option (Tweener Float) := none
  cmd : Option (Float × Tween Float) := none
  handle : Bool := true

def tweenerStep (st : TweenerSt) (tok : List String) : Option (TweenerSt × String) :=
  match tok with
  | "info.clocks" :: _ | "info.mods" :: _ => (infoStep st.info tok).map (fun i => ({ st with info := i }, "ok"))
  | ["new", v] => do
      let v ← f64? v
      let t := Tweener.new v
      pure ({ st with tw := some t, cmd := none, handle := true }, show64 t.value)
  | ["drop"] => some ({ st with handle := false }, "ok")
  | ["set", target, tween] =>
    if !st.handle then some (st, "nohandle") else do
      let target ← f64? target; let tween ← parseTween tween
      pure ({ st with cmd := some (target, tween) }, "ok")
  | ["start"] => do
      let t ← st.tw
      pure ({ st with tw := some (t.onStartProcessing st.cmd), cmd := none }, "ok")
  | ["update", dt] => do
      let t ← st.tw; let dt ← f64? dt
      let t' := t.update dt st.info.toInfo
      pure ({ st with tw := some t' }, s!"{show64 t'.value} {b01 (!st.handle)}")
  | _ => none

end K.Exec
