/-
  Twin of harness suite `syscore` (C01, C02, C11): the WHOLE-SYSTEM twin.  A complete scene — main track,
  sub-track trees, send tracks, static sounds with all their settings and handle commands, kira's eight
  built-in effects (delay feedback chains nested to depth 2), clocks, LFO / tweener modulators linked to
  sound / track / effect parameters, callbacks of any size and channel count, sample-rate changes — is
  driven like the public API drives kira (harness/src/suites/syscore.rs has the op grammar) and every
  device sample, sound state / position and resource count is printed.

  The model run here is `Model/System.lean` (`System Float 2`): the mixer / renderer model instantiated
  with the real component models.  This file only parses ops, keeps the handle tables (an index is taken
  modulo the table length; an op on an empty table prints `skip`) and prints observables.
-/
import KiraModel.Exec.SuiteStatic
import KiraModel.Exec.SuiteModulator
import KiraModel.Exec.SuiteFxA
import KiraModel.Exec.SuiteSpatial
import KiraModel.Model.System

namespace K.Exec.SysCore
open K K.Proto K.Exec

/-- nesting depth of delay feedback chains in this suite -/
abbrev depth : Nat := 2
abbrev Sy := System Float depth
abbrev Fx := SysFx Float depth

def scFuel : Nat := 1048576

structure SCState where
  sys : Option Sy := none
  /-- handle tables: the model identities of the live handles, in creation order -/
  tracks : List Nat := []
  sends : List Nat := []
  clocks : List Nat := []
  lfos : List Nat := []
  tweeners : List Nat := []
  sounds : List Nat := []
  fxs : List Nat := []
  /-- the kind of every effect handle ever created (a handle outlives its effect) -/
  fxKinds : List (Nat × String) := []
  /-- handles of nested feedback effects: (owning top-level effect, path inside it, kind), in the order
      `DelayBuilder::add_feedback_effect` returned them; never dropped -/
  subfxs : List (Nat × List Nat × String) := []
  nextTrack : Nat := 0
  nextSend : Nat := 0
  nextClock : Nat := 0
  nextMod : Nat := 0
  nextSound : Nat := 0
  nextFx : Nat := 0
  /-- live listener handles, the ids of dropped listeners, and which track ids are spatial -/
  listeners : List Nat := []
  ghosts : List Nat := []
  spatialTracks : List Nat := []
  nextListener : Nat := 0
  /-- what each sound's handle last read from `Shared` (kept after the sound is unloaded) -/
  snap : List (Nat × (PlaybackState × Float)) := []

/-- table lookup: index modulo length -/
def pick (tbl : List Nat) (i : Nat) : Option Nat :=
  if tbl.isEmpty then none else tbl[i % tbl.length]?

def removeAt (tbl : List Nat) (i : Nat) : List Nat :=
  if tbl.isEmpty then tbl else tbl.eraseIdx (i % tbl.length)

/-! ### values, start times, tweens -/

/-- `f<v>` | `m<l|t><idx>_<in0>_<in1>_<out0>_<out1>` (modulator taken from the LFO / tweener handle table;
    an empty table gives the fixed value `out0`) | `d<in0>_<in1>_<out0>_<out1>` (`Value::FromListenerDistance`);
    `parse` reads the fixed value / the mapping outputs -/
def parseVG {τ : Type} (parse : String → Option τ) (st : SCState) (s : String) : Option (Value Float τ) :=
  match s.toList with
  | 'f' :: rest => (parse (String.ofList rest)).map .fixed
  | 'd' :: rest =>
    match (String.ofList rest).splitOn "_" with
    | [i0, i1, o0, o1] => do
        let i0 ← f64? i0; let i1 ← f64? i1; let o0 ← parse o0; let o1 ← parse o1
        pure (.fromListenerDistance ⟨i0, i1, o0, o1, .linear⟩)
    | _ => none
  | 'm' :: k :: rest =>
    match (String.ofList rest).splitOn "_" with
    | [idx, i0, i1, o0, o1] => do
        let idx ← nat? idx; let i0 ← f64? i0; let i1 ← f64? i1
        let o0 ← parse o0; let o1 ← parse o1
        let tbl := if k == 'l' then st.lfos else st.tweeners
        match pick tbl idx with
        | some id => pure (.fromModulator id ⟨i0, i1, o0, o1, .linear⟩)
        | none => pure (.fixed o0)
    | _ => none
  | _ => none

def parseV (c : Codec Float) (st : SCState) (s : String) : Option (Value Float Float) := parseVG c.parse st s

/-- a clock speed value: `<spt|tps|tpm>=<f64>` | `m<l|t><idx>_<in0>_<in1>_<speed>_<speed>` -/
def parseVCs (st : SCState) (s : String) : Option (Value Float (ClockSpeed Float)) :=
  match s.toList with
  | 'm' :: k :: rest =>
    match (String.ofList rest).splitOn "_" with
    | [idx, i0, i1, o0, o1] => do
        let idx ← nat? idx; let i0 ← f64? i0; let i1 ← f64? i1
        let o0 ← parseCsEq o0; let o1 ← parseCsEq o1
        let tbl := if k == 'l' then st.lfos else st.tweeners
        match pick tbl idx with
        | some id => pure (.fromModulator id ⟨i0, i1, o0, o1, .linear⟩)
        | none => pure (.fixed o0)
    | _ => none
  | _ => (parseCsEq s).map .fixed

/-- `f<ns>`: a fixed `Duration` -/
def parseVDur (s : String) : Option (Value Float Nat) :=
  match s.toList with
  | 'f' :: rest => (nat? (String.ofList rest)).map .fixed
  | _ => none

/-- a clock index in a start time refers to the clock handle table (empty table: immediate) -/
def resolveStart (st : SCState) : StartTime Float → StartTime Float
  | .clockTime i t =>
    match pick st.clocks i with
    | some id => .clockTime id t
    | none => .immediate
  | x => x

def parseStartR (st : SCState) (s : String) : Option (StartTime Float) := (parseStart s).map (resolveStart st)

def parseTweenR (st : SCState) (s : String) : Option (Tween Float) :=
  (parseTween s).map (fun tw => { tw with startTime := resolveStart st tw.startTime })

/-! ### effect descriptors (tokens separated by `:`; a delay is followed by its nested effects) -/

def filterModeOf : Nat → FilterMode
  | 0 => .lowPass | 1 => .bandPass | 2 => .highPass | _ => .notch
def eqKindOf : Nat → EqFilterKind
  | 0 => .bell | 1 => .lowShelf | _ => .highShelf
def distKindOf : Nat → DistortionKind
  | 0 => .hardClip | _ => .softClip

def parseBase (st : SCState) : List String → Option (BaseFx Float × List String)
  | "filter" :: m :: c :: r :: x :: rest => do
      let m ← nat? m; let c ← parseV codec64 st c; let r ← parseV codec64 st r; let x ← parseV codec32 st x
      pure (.filter (Filter.new (filterModeOf m) c r x), rest)
  | "eq" :: k :: f :: g :: q :: rest => do
      let k ← nat? k; let f ← parseV codec64 st f; let g ← parseV codec32 st g; let q ← parseV codec64 st q
      pure (.eq (EqFilter.new (eqKindOf k) f g q), rest)
  | "dist" :: k :: d :: x :: rest => do
      let k ← nat? k; let d ← parseV codec32 st d; let x ← parseV codec32 st x
      pure (.dist (Distortion.new (distKindOf k) d x), rest)
  | "comp" :: t :: r :: a :: rl :: m :: x :: rest => do
      let t ← parseV codec64 st t; let r ← parseV codec64 st r
      let a ← parseVDur a; let rl ← parseVDur rl
      let m ← parseV codec32 st m; let x ← parseV codec32 st x
      pure (.comp (Compressor.new t r a rl m x), rest)
  | "reverb" :: f :: d :: w :: x :: rest => do
      let f ← parseV codec64 st f; let d ← parseV codec64 st d; let w ← parseV codec64 st w
      let x ← parseV codec32 st x
      pure (.reverb (Reverb.new f d w x), rest)
  | "vol" :: v :: rest => do let v ← parseV codec32 st v; pure (.vol (VolumeControl.new v), rest)
  | "pan" :: v :: rest => do let v ← parseV codec32 st v; pure (.pan (PanningControl.new v), rest)
  | _ => none

/-- the header of a delay descriptor: `delay:<ns>:<feedback>:<mix>:<k>` -/
def parseDelayHead (st : SCState) : List String → Option ((Nat × Value Float Float × Value Float Float × Nat) × List String)
  | "delay" :: ns :: fb :: mx :: k :: rest => do
      let ns ← nat? ns; let fb ← parseV codec32 st fb; let mx ← parseV codec32 st mx; let k ← nat? k
      pure ((ns, fb, mx, k), rest)
  | _ => none

/-- `k` effects of type `φ` parsed one after the other -/
def parseMany {φ : Type} (p : List String → Option (φ × List String)) : Nat → List String → Option (List φ × List String)
  | 0, toks => some ([], toks)
  | k + 1, toks => do
      let (e, rest) ← p toks
      let (es, rest') ← parseMany p k rest
      pure (e :: es, rest')

/-- one effect of nesting depth `n` -/
def parseFxN (st : SCState) : (n : Nat) → List String → Option (FxN Float n × List String)
  | 0, toks =>
    match parseDelayHead st toks with
    | some ((ns, fb, mx, k), rest) =>
      if k = 0 then some (FxOver.delay (Delay.new ns fb mx ([], none)), rest) else none
    | none => (parseBase st toks).map (fun (b, rest) => (FxOver.base b, rest))
  | n + 1, toks =>
    match parseDelayHead st toks with
    | some ((ns, fb, mx, k), rest) => do
        let (inner, rest') ← parseMany (parseFxN st n) k rest
        pure (FxOver.delay (Delay.new ns fb mx (inner, none)), rest')
    | none => (parseBase st toks).map (fun (b, rest) => (FxOver.base b, rest))

/-- `-` or descriptors joined by `,`; ids are assigned in order from `next` -/
def parseFxList (st : SCState) (s : String) (next : Nat) : Option (List Fx × Nat) :=
  if s == "-" then some ([], next) else
  (s.splitOn ",").foldlM (fun (acc : List Fx × Nat) item => do
    let (fx, rest) ← parseFxN st depth (item.splitOn ":")
    if !rest.isEmpty then none
    else pure (acc.1 ++ [{ id := acc.2, fx := fx, fault := none }], acc.2 + 1)) ([], next)

def fxKindName (e : Fx) : String :=
  match e.fx with
  | FxOver.base (.filter _) => "filter" | FxOver.base (.eq _) => "eq"
  | FxOver.base (.dist _) => "dist" | FxOver.base (.comp _) => "comp"
  | FxOver.base (.reverb _) => "reverb" | FxOver.base (.vol _) => "vol"
  | FxOver.base (.pan _) => "pan" | FxOver.delay _ => "delay"

def fxKindOver {φ : Type} : FxOver Float φ → String
  | FxOver.base (.filter _) => "filter" | FxOver.base (.eq _) => "eq"
  | FxOver.base (.dist _) => "dist" | FxOver.base (.comp _) => "comp"
  | FxOver.base (.reverb _) => "reverb" | FxOver.base (.vol _) => "vol"
  | FxOver.base (.pan _) => "pan" | FxOver.delay _ => "delay"

def fxKindN : (n : Nat) → FxN Float n → String
  | 0, e => fxKindOver (φ := Empty) e
  | n + 1, e => fxKindOver (φ := FxN Float n) e

/-- the effects nested inside one effect with their paths, a delay's children (and theirs) before the next sibling:
    the order in which the harness receives their handles -/
def subPathsN : (n : Nat) → FxN Float n → List (List Nat × String)
  | 0, _ => []
  | n + 1, e =>
    match (e : FxOver Float (FxN Float n)) with
    | .delay d =>
      d.fx.1.zipIdx.flatMap (fun (c, i) =>
        (subPathsN n c).map (fun (p, k) => (i :: p, k)) ++
          [([i], fxKindN n c)])
    | .base _ => []

def subsOf (fx : List Fx) : List (Nat × List Nat × String) :=
  fx.flatMap (fun e => (subPathsN depth e.fx).map (fun (p, k) => (e.id, p, k)))

def kindsOf (fx : List Fx) : List (Nat × String) := fx.map (fun e => (e.id, fxKindName e))

/-- `-` or `<send idx>=<V32>,…` (send handle table; an empty table drops the route) -/
def parseSends (st : SCState) (s : String) : Option (List (Nat × Value Float Float)) :=
  if s == "-" then some [] else do
  let items ← (s.splitOn ",").mapM (fun item =>
    match item.splitOn "=" with
    | [k, v] => do
        let k ← nat? k; let v ← parseV codec32 st v
        pure ((pick st.sends k).map (fun id => (id, v)))
    | _ => none)
  -- `TrackBuilder::with_send` keeps one route per send track (the later write wins)
  let routes := items.filterMap (fun x => x)
  pure (routes.foldl (fun acc r => acc.filter (fun q => q.1 != r.1) ++ [r]) [])

/-! ### observables -/

def stateName : PlaybackState → String
  | .playing => "playing" | .pausing => "pausing" | .paused => "paused"
  | .waitingToResume => "waitingtoresume" | .resuming => "resuming"
  | .stopping => "stopping" | .stopped => "stopped"

def trackStateName : TrackPlaybackState → String
  | .playing => "playing" | .pausing => "pausing" | .paused => "paused"
  | .waitingToResume => "waitingtoresume" | .resuming => "resuming"

def fnv (l : List Float) : UInt64 :=
  l.foldl (fun h x => (h ^^^ x.toFloat32.toBits.toUInt64) * 0x100000001b3) 0xcbf29ce484222325

/-- all samples when there are few, otherwise count, FNV-1a hash of all sample bits, head and tail -/
def showOut (l : List Float) : String :=
  if l.length ≤ 192 then String.intercalate " " (l.map show32)
  else
    s!"#{l.length} {toHex (fnv l).toNat 16} " ++ String.intercalate " " ((l.take 16).map show32)
      ++ " .. " ++ String.intercalate " " ((l.drop (l.length - 16)).map show32)

def refreshSnap (st : SCState) (sy : Sy) : List (Nat × (PlaybackState × Float)) :=
  let live := sy.r.mixer.comps.1
  st.snap.map (fun e =>
    match live.find? (fun x => x.id == e.1) with
    | some x => (e.1, (x.snd.core.shared, x.snd.sharedPosition))
    | none => e)

def showSound (st : SCState) (id : Nat) : String :=
  match st.snap.lookup id with
  | some (s, p) => s!"{stateName s}@{show64 p}"
  | none => "?"

def showTrack (sy : Sy) (id : Nat) : String :=
  match sy.r.mixer.findTrack id with
  | some t => s!"{trackStateName t.hState}/{t.hNumSounds}/{t.hNumSubTracks}"
  | none => "gone"

/-- what a `ClockHandle` reads: `ticking()` and `time()` -/
def showClock (sy : Sy) (id : Nat) : String :=
  match (sy.r.env.clocks ++ sy.r.env.newClocks).lookup id with
  | some c => s!"{if c.hTicking then 1 else 0}/{c.hTime.ticks}/{show64 c.hTime.fraction}"
  | none => "gone"

def showScene (st : SCState) (sy : Sy) : String :=
  let m := sy.r.mixer
  let snd := String.intercalate " " (st.sounds.map (showSound st))
  let trk := String.intercalate " " (st.tracks.map (showTrack sy))
  let clk := String.intercalate " " (st.clocks.map (showClock sy))
  s!"subs={m.hNumSubTracks} sends={m.hNumSendTracks} main={m.main.sounds.length + m.main.pendingSounds.length} ; {snd} ; {trk} ; {clk}"

/-! ### the step function -/

/-- the handle method a parameter name selects on a handle of the given kind (`none`: the handle has no such method) -/
def fxCmdOf (st : SCState) (kind param v : String) (tw : Tween Float) : Option (FxCmd Float) :=
  let v32 := parseV codec32 st v
  let v64 := parseV codec64 st v
  -- the parameter name selects the handle method; a name the effect's handle does not have is `nop`
  -- (the handle outlives its effect: the kind is the handle's, recorded when it was built)
  match kind, param with
    | "filter", "cutoff" => v64.map (fun v => .filterCutoff v tw)
    | "filter", "resonance" => v64.map (fun v => .filterResonance v tw)
    | "filter", "mix" => v32.map (fun v => .filterMix v tw)
    | "eq", "frequency" => v64.map (fun v => .eqFrequency v tw)
    | "eq", "gain" => v32.map (fun v => .eqGain v tw)
    | "eq", "q" => v64.map (fun v => .eqQ v tw)
    | "dist", "drive" => v32.map (fun v => .distDrive v tw)
    | "dist", "mix" => v32.map (fun v => .distMix v tw)
    | "comp", "threshold" => v64.map (fun v => .compThreshold v tw)
    | "comp", "ratio" => v64.map (fun v => .compRatio v tw)
    | "comp", "attack" => (parseVDur v).map (fun v => .compAttack v tw)
    | "comp", "release" => (parseVDur v).map (fun v => .compRelease v tw)
    | "comp", "makeup" => v32.map (fun v => .compMakeup v tw)
    | "comp", "mix" => v32.map (fun v => .compMix v tw)
    | "reverb", "rfeedback" => v64.map (fun v => .reverbFeedback v tw)
    | "reverb", "damping" => v64.map (fun v => .reverbDamping v tw)
    | "reverb", "width" => v64.map (fun v => .reverbStereoWidth v tw)
    | "reverb", "mix" => v32.map (fun v => .reverbMix v tw)
    | "vol", "volume" => v32.map (fun v => .volVolume v tw)
    | "pan", "panning" => v32.map (fun v => .panPanning v tw)
    | "delay", "feedback" => v32.map (fun v => .delayFeedback v tw)
    | "delay", "mix" => v32.map (fun v => .delayMix v tw)
    | _, _ => none

def setSys (st : SCState) (sy : Sy) : SCState := { st with sys := some sy }

def scStep (st : SCState) (tok : List String) : Option (SCState × String) :=
  match st.sys, tok with
  | _, ["mgr", ibs, sr, vol, fx] => do
      let ibs ← nat? ibs; let sr ← nat? sr
      let st0 : SCState := {}
      let vol ← parseV codec32 st0 vol
      let (fx, nfx) ← parseFxList st0 fx 0
      let sy : Sy := System.new scFuel ibs sr vol fx
      pure ({ st0 with sys := some sy, nextFx := nfx, fxs := fx.map (·.id), fxKinds := kindsOf fx, subfxs := subsOf fx }, "ok")
  -- an oracle-only op (nested command delivery, checked on the real code): nothing to mirror
  | _, "nest" :: _ => pure (st, "ok")
  | none, _ => none
  | some sy, ["send", vol, fx] => do
      let vol ← parseV codec32 st vol
      let (fx, nfx) ← parseFxList st fx st.nextFx
      let id := st.nextSend
      pure ({ st with sys := some (sy.addSendTrack id vol fx), nextFx := nfx, fxs := st.fxs ++ fx.map (·.id), fxKinds := st.fxKinds ++ kindsOf fx, subfxs := st.subfxs ++ subsOf fx,
                      nextSend := id + 1, sends := st.sends ++ [id] }, "ok")
  | some sy, ["track", parent, vol, persist, sends, fx] => do
      let parent ← int? parent
      let vol ← parseV codec32 st vol
      let sends ← parseSends st sends
      let (fx, nfx) ← parseFxList st fx st.nextFx
      let id := st.nextTrack
      let par := if parent < 0 then none else pick st.tracks parent.toNat
      let sy' := sy.addSubTrack par id vol fx sends (persist == "1")
      let cnt := match par with
        | none => sy'.r.mixer.hNumSubTracks
        | some p => ((sy'.r.mixer.findTrack p).map Trk.hNumSubTracks).getD 0
      pure ({ st with sys := some sy', nextFx := nfx, fxs := st.fxs ++ fx.map (·.id), fxKinds := st.fxKinds ++ kindsOf fx, subfxs := st.subfxs ++ subsOf fx,
                      nextTrack := id + 1, tracks := st.tracks ++ [id] }, s!"ok {cnt}")
  | some sy, ["listener", p, q] => do
      let p ← parseVG parseVec3 st p; let q ← parseVG parseQuat st q
      let id := st.nextListener
      pure ({ st with sys := some (sy.addListener id p q), nextListener := id + 1, listeners := st.listeners ++ [id] }, "ok")
  | some sy, ["lis.pos", i, p, tw] => do
      let i ← nat? i; let p ← parseVG parseVec3 st p; let tw ← parseTweenR st tw
      match pick st.listeners i with
      | none => pure (st, "skip")
      | some id => pure (setSys st (sy.listenerCommand id (fun l => { l with cmdPos := some (p, tw) })), "ok")
  | some sy, ["lis.ori", i, q, tw] => do
      let i ← nat? i; let q ← parseVG parseQuat st q; let tw ← parseTweenR st tw
      match pick st.listeners i with
      | none => pure (st, "skip")
      | some id => pure (setSys st (sy.listenerCommand id (fun l => { l with cmdOri := some (q, tw) })), "ok")
  | some sy, ["strack", parent, lref, pos, mn, mx, att, str, vol, persist, sends, fx] => do
      let parent ← int? parent
      let k ← nat? (lref.drop 1).toString
      let lid := if lref.startsWith "l" then (pick st.listeners k).orElse (fun _ => pick st.ghosts k)
                 else (pick st.ghosts k).orElse (fun _ => pick st.listeners k)
      match lid with
      | none => pure (st, "skip")
      | some lid =>
        let pos ← parseVG parseVec3 st pos
        let mn ← f32? mn; let mx ← f32? mx; let att ← parseAtten att
        let str ← parseV codec32 st str; let vol ← parseV codec32 st vol
        let sends ← parseSends st sends
        let (fx, nfx) ← parseFxList st fx st.nextFx
        let id := st.nextTrack
        let par := if parent < 0 then none else pick st.tracks parent.toNat
        let sy' := sy.addSpatialSubTrack par id (SysSpatial.new lid pos mn mx att str) vol fx sends (persist == "1")
        let cnt := match par with
          | none => sy'.r.mixer.hNumSubTracks
          | some p => ((sy'.r.mixer.findTrack p).map Trk.hNumSubTracks).getD 0
        pure ({ st with sys := some sy', nextFx := nfx, fxs := st.fxs ++ fx.map (·.id), fxKinds := st.fxKinds ++ kindsOf fx, subfxs := st.subfxs ++ subsOf fx,
                        nextTrack := id + 1, tracks := st.tracks ++ [id], spatialTracks := id :: st.spatialTracks },
              s!"ok {cnt}")
  | some sy, ["clock", cs] => do
      let cs ← parseVCs st cs
      let id := st.nextClock
      pure ({ st with sys := some (sy.addClock id cs), nextClock := id + 1, clocks := st.clocks ++ [id] }, "ok")
  | some sy, ["clock.cmd", i, c] => do
      let i ← nat? i
      match pick st.clocks i with
      | none => pure (st, "skip")
      | some id =>
        let cmd : HCmd Float ← match c with
          | "start" => some .start | "pause" => some .pause | "stop" => some .stop | _ => none
        pure (setSys st (sy.clockCommand id cmd), "ok")
  | some sy, ["clock.speed", i, cs, tw] => do
      let i ← nat? i; let cs ← parseVCs st cs; let tw ← parseTweenR st tw
      match pick st.clocks i with
      | none => pure (st, "skip")
      | some id => pure (setSys st (sy.clockCommand id (.setSpeed cs tw)), "ok")
  | some sy, ["lfo", w, f, a, o, ph] => do
      let w ← parseWaveform w
      let f ← parseV codec64 st f; let a ← parseV codec64 st a; let o ← parseV codec64 st o
      let ph ← f64? ph
      let id := st.nextMod
      pure ({ st with sys := some (sy.addModulator id (.lfo (Lfo.new ⟨w, f, a, o, ph⟩))), nextMod := id + 1,
                      lfos := st.lfos ++ [id] }, "ok")
  | some sy, ["lfo.set", i, what, v, tw] => do
      let i ← nat? i; let v ← parseV codec64 st v; let tw ← parseTweenR st tw
      match pick st.lfos i with
      | none => pure (st, "skip")
      | some id =>
        let f : SysMod Float → SysMod Float ← match what with
          | "freq" => some (fun m => { m with lfoCmds := { m.lfoCmds with setFrequency := some (v, tw) } })
          | "amp" => some (fun m => { m with lfoCmds := { m.lfoCmds with setAmplitude := some (v, tw) } })
          | "off" => some (fun m => { m with lfoCmds := { m.lfoCmds with setOffset := some (v, tw) } })
          | _ => none
        pure (setSys st (sy.modCommand id f), "ok")
  | some sy, ["lfo.wave", i, w] => do
      let i ← nat? i; let w ← parseWaveform w
      match pick st.lfos i with
      | none => pure (st, "skip")
      | some id =>
        pure (setSys st (sy.modCommand id (fun m => { m with lfoCmds := { m.lfoCmds with setWaveform := some w } })), "ok")
  | some sy, ["lfo.phase", i, p] => do
      let i ← nat? i; let p ← f64? p
      match pick st.lfos i with
      | none => pure (st, "skip")
      | some id =>
        pure (setSys st (sy.modCommand id (fun m => { m with lfoCmds := { m.lfoCmds with setPhase := some p } })), "ok")
  | some sy, ["tweener", v] => do
      let v ← f64? v
      let id := st.nextMod
      pure ({ st with sys := some (sy.addModulator id (.tweener (Tweener.new v))), nextMod := id + 1,
                      tweeners := st.tweeners ++ [id] }, "ok")
  | some sy, ["tweener.set", i, v, tw] => do
      let i ← nat? i; let v ← f64? v; let tw ← parseTweenR st tw
      match pick st.tweeners i with
      | none => pure (st, "skip")
      | some id => pure (setSys st (sy.modCommand id (fun m => { m with twCmd := some (v, tw) })), "ok")
  | some sy, ["play", trk, coding, len, sr, vol, rate, pan, loop, rev, spos, fadeIn, stt] => do
      let trk ← int? trk; let len ← nat? len; let sr ← nat? sr
      let frames ← Static.genFrames coding len
      let vol ← parseV codec32 st vol; let rate ← parseV codec64 st rate; let pan ← parseV codec32 st pan
      let loop ← Static.parseRegion loop; let spos ← Static.parsePos spos
      let fadeIn ← if fadeIn == "-" then some none else (parseTweenR st fadeIn).map some
      let stt ← parseStartR st stt
      let d : StaticSoundData Float :=
        { sampleRate := sr, frames := frames, slice := none
          settings := { startTime := stt, startPosition := spos, loopRegion := loop, reverse := rev == "1"
                        volume := vol, playbackRate := rate, panning := pan, fadeInTween := fadeIn } }
      let target := if trk < 0 then none else pick st.tracks trk.toNat
      let id := st.nextSound
      match sy.play target id d with
      | .error f => pure (st, s!"fault {f.name}")
      | .ok sy' =>
        let cnt := match target with
          | none => sy'.r.mixer.main.sounds.length + sy'.r.mixer.main.pendingSounds.length
          | some t => ((sy'.r.mixer.findTrack t).map Trk.hNumSounds).getD 0
        let shared := (sy'.soundShared id).getD (.playing, 0.0)
        let st' := { st with sys := some sy', nextSound := id + 1, sounds := st.sounds ++ [id],
                             snap := st.snap ++ [(id, shared)] }
        pure (st', s!"ok {cnt} {showSound st' id}")
  | some sy, "snd" :: i :: what :: args => do
      let i ← nat? i
      match pick st.sounds i with
      | none => pure (st, "skip")
      | some id =>
        let c : Command Float ← match what, args with
          | "pause", [tw] => (parseTweenR st tw).map .pause
          | "resume", [tw] => (parseTweenR st tw).map (.resume .immediate)
          | "stop", [tw] => (parseTweenR st tw).map .stop
          | "resume_at", [s, tw] => do let s ← parseStartR st s; let tw ← parseTweenR st tw; pure (.resume s tw)
          | _, _ => none
        pure (setSys st (sy.soundCommand id c), showSound st id)
  | some sy, ["snd.seek", i, what, x] => do
      let i ← nat? i; let x ← f64? x
      match pick st.sounds i with
      | none => pure (st, "skip")
      | some id =>
        pure (setSys st (sy.soundCommand id (if what == "to" then .seekTo x else .seekBy x)), "ok")
  | some sy, ["snd.set", i, what, v, tw] => do
      let i ← nat? i; let tw ← parseTweenR st tw
      match pick st.sounds i with
      | none => pure (st, "skip")
      | some id =>
        let c : Command Float ← match what with
          | "vol" => (parseV codec32 st v).map (fun v => .setVolume v tw)
          | "rate" => (parseV codec64 st v).map (fun v => .setPlaybackRate v tw)
          | "pan" => (parseV codec32 st v).map (fun v => .setPanning v tw)
          | _ => none
        pure (setSys st (sy.soundCommand id c), "ok")
  | some sy, ["snd.loop", i, r] => do
      let i ← nat? i; let r ← Static.parseRegion r
      match pick st.sounds i with
      | none => pure (st, "skip")
      | some id => pure (setSys st (sy.soundCommand id (.setLoopRegion r)), "ok")
  | some sy, "trk" :: i :: what :: args => do
      let i ← nat? i
      match pick st.tracks i with
      | none => pure (st, "skip")
      | some id =>
        let onT (f : Trk Float (SysSnd Float) Fx (SysSpatial Float) → Trk Float (SysSnd Float) Fx (SysSpatial Float)) : Option (SCState × String) :=
          some (setSys st (sy.withMixer (Mixer.mapTrack id f)), "ok")
        match what, args with
        | "vol", [v, tw] => do let v ← parseV codec32 st v; let tw ← parseTweenR st tw; onT (Trk.hSetVolume v tw)
        | "pause", [tw] => do let tw ← parseTweenR st tw; onT (Trk.hPause tw)
        | "resume", [tw] => do let tw ← parseTweenR st tw; onT (Trk.hResumeAt .immediate tw)
        | "resume_at", [s, tw] => do
            let s ← parseStartR st s; let tw ← parseTweenR st tw; onT (Trk.hResumeAt s tw)
        | "pos", [p, tw] => do
            let p ← parseVG parseVec3 st p; let tw ← parseTweenR st tw
            if st.spatialTracks.contains id then pure (setSys st (sy.setSpatialPosition id p tw), "ok") else pure (st, "nop")
        | "str", [v, tw] => do
            let v ← parseV codec32 st v; let tw ← parseTweenR st tw
            if st.spatialTracks.contains id then pure (setSys st (sy.setSpatialStrength id v tw), "ok") else pure (st, "nop")
        | "send", [k, v, tw] => do
            let k ← nat? k; let v ← parseV codec32 st v; let tw ← parseTweenR st tw
            match pick st.sends k with
            | none => pure (st, "skip")
            | some sid =>
              let has := ((sy.r.mixer.findTrack id).map (fun t => t.data.routes.any (fun r => r.to == sid))).getD false
              if has then onT (Trk.hSetSend sid v tw) else pure (st, "noroute")
        | _, _ => none
  | some sy, ["main.vol", v, tw] => do
      let v ← parseV codec32 st v; let tw ← parseTweenR st tw
      pure (setSys st (sy.withMixer (Mixer.hSetMainVolume v tw)), "ok")
  | some sy, ["send.vol", i, v, tw] => do
      let i ← nat? i; let v ← parseV codec32 st v; let tw ← parseTweenR st tw
      match pick st.sends i with
      | none => pure (st, "skip")
      | some id => pure (setSys st (sy.withMixer (Mixer.hSetSendVolume id v tw)), "ok")
  | some sy, ["fx.set", i, param, v, tw] => do
      let i ← nat? i; let tw ← parseTweenR st tw
      match pick st.fxs i with
      | none => pure (st, "skip")
      | some id =>
        let kind : String := (st.fxKinds.lookup id).getD "gone"
        let c : Option (FxCmd Float) := fxCmdOf st kind param v tw
        match c with
        | some c => pure (setSys st (sy.fxCommand id c), s!"ok {kind}")
        | none => pure (st, s!"nop {kind}")
  | some sy, ["fx.sub", i, param, v, tw] => do
      let i ← nat? i; let tw ← parseTweenR st tw
      if st.subfxs.isEmpty then pure (st, "skip") else
      match st.subfxs[i % st.subfxs.length]? with
      | none => pure (st, "skip")
      | some (id, path, kind) =>
        if param == "mode" then do
          let k ← nat? v
          let sy1 := sy.fxCommandAt id path (.filterMode (filterModeOf k))
          let sy2 := sy1.fxCommandAt id path (.eqKind (eqKindOf k))
          let sy3 := sy2.fxCommandAt id path (.distKind (distKindOf k))
          pure (setSys st sy3, s!"ok {kind}")
        else
        match fxCmdOf st kind param v tw with
        | some c => pure (setSys st (sy.fxCommandAt id path c), s!"ok {kind}")
        | none => pure (st, s!"nop {kind}")
  | some sy, ["fx.mode", i, k] => do
      let i ← nat? i; let k ← nat? k
      match pick st.fxs i with
      | none => pure (st, "skip")
      | some id =>
        -- each of the three commands only reaches an effect of its own kind
        let sy1 := sy.fxCommand id (.filterMode (filterModeOf k))
        let sy2 := sy1.fxCommand id (.eqKind (eqKindOf k))
        let sy3 := sy2.fxCommand id (.distKind (distKindOf k))
        pure (setSys st sy3, "ok")
  | some sy, ["drop", kind, i] => do
      let i ← nat? i
      match kind with
      | "track" =>
        match pick st.tracks i with
        | none => pure (st, "skip")
        | some id => pure ({ st with sys := some (sy.withMixer (Mixer.mapTrack id Trk.hDrop)), tracks := removeAt st.tracks i }, "ok")
      | "send" =>
        match pick st.sends i with
        | none => pure (st, "skip")
        | some id => pure ({ st with sys := some (sy.withMixer (Mixer.hDropSend id)), sends := removeAt st.sends i }, "ok")
      | "clock" =>
        match pick st.clocks i with
        | none => pure (st, "skip")
        | some id => pure ({ st with sys := some (sy.clockCommand id .drop), clocks := removeAt st.clocks i }, "ok")
      | "lfo" =>
        match pick st.lfos i with
        | none => pure (st, "skip")
        | some id => pure ({ st with sys := some (sy.modCommand id (fun m => { m with removed := true })),
                                     lfos := removeAt st.lfos i }, "ok")
      | "tweener" =>
        match pick st.tweeners i with
        | none => pure (st, "skip")
        | some id => pure ({ st with sys := some (sy.modCommand id (fun m => { m with removed := true })),
                                     tweeners := removeAt st.tweeners i }, "ok")
      | "listener" =>
        match pick st.listeners i with
        | none => pure (st, "skip")
        | some id => pure ({ st with sys := some (sy.listenerCommand id (fun l => { l with removed := true })),
                                     listeners := removeAt st.listeners i, ghosts := st.ghosts ++ [id] }, "ok")
      | "sound" => if st.sounds.isEmpty then pure (st, "skip") else pure ({ st with sounds := removeAt st.sounds i }, "ok")
      | "fx" => if st.fxs.isEmpty then pure (st, "skip") else pure ({ st with fxs := removeAt st.fxs i }, "ok")
      | _ => none
  | some sy, ["rate", sr] => do
      let sr ← nat? sr
      pure (setSys st (sy.changeRate sr), "ok")
  | some sy, ["cb", frames, ch] => do
      let frames ← nat? frames; let ch ← nat? ch
      match sy.callback frames ch with
      | .error f => pure (st, s!"fault {f.name}")
      | .ok (sy', samples) =>
        let st' := { st with sys := some sy', snap := refreshSnap st sy' }
        pure (st', s!"{showOut samples} ; {showScene st' sy'}")
  | _, _ => none

end K.Exec.SysCore
