/-
  GenAgreeTransport.lean — the hand-written transport model (Model/Transport.lean: `increment`, `decrement`, `seekTo`,
  factored through `wrapDown` / `wrapUpDec` / `wrapUpSeek` because the C04/C09 proofs reason about the wraps) is EQUAL,
  for every state and every argument (faults included), to the functions the translator generates from the current
  `&mut self` methods of crates/kira/src/sound/transport.rs (tools/rs2lean_mut.py → `Gen.transport*` in GenFn.lean).
  A change of `increment_position`, `decrement_position` or `seek_to` in the Rust changes the generated definitions and
  breaks these theorems (a proof obligation of C04, C09), or makes the translator exit 1.
  The generated functions check every `usize` subtraction (`.overflow`) and remainder (`.panic`) in Rust's evaluation
  order; the hand model checks only the ones that can fire — the theorems show the others are dead.
-/
import KiraModel.GenFn
import KiraModel.Model.Transport

namespace K
namespace Transport

theorem increment_eq_gen (t : Transport) (numFrames : Nat) :
    t.increment numFrames = Gen.transportIncrementPosition t numFrames := by
  obtain ⟨p, lr, pl⟩ := t
  cases pl
  · simp [increment, Gen.transportIncrementPosition]
  · rcases lr with _ | ⟨ls, le⟩
    · simp only [increment, incWrap, Gen.transportIncrementPosition]
      by_cases h : numFrames ≤ p + 1 <;> simp [h] <;> omega
    · simp only [increment, incWrap, wrapDown, Gen.transportIncrementPosition]
      by_cases h1 : le ≤ p + 1
      · by_cases h2 : le < ls
        · have : p + 1 < ls ∨ ¬ p + 1 < ls := by omega
          rcases this with h3 | h3 <;> simp [h1, h2, h3, Nat.not_lt.mpr h1]
        · by_cases h3 : le = ls
          · subst h3; simp [h1, Nat.not_lt.mpr h1]
          · have h4 : ¬ p + 1 < ls := by omega
            have h5 : ¬ le - ls = 0 := by omega
            simp only [Nat.not_lt.mpr h1, h1, h2, h3, h4, h5, if_true, if_false, Bool.not_true, Bool.false_eq_true]
            by_cases h : numFrames ≤ ls + (p + 1 - ls) % (le - ls) <;> simp [h] <;> omega
      · have h2 : p + 1 < le := by omega
        simp only [h1, h2, if_true, if_false, Bool.not_true, Bool.false_eq_true]
        by_cases h : numFrames ≤ p + 1 <;> simp [h] <;> omega

theorem decrement_eq_gen (t : Transport) :
    t.decrement = Gen.transportDecrementPosition t := by
  obtain ⟨p, lr, pl⟩ := t
  cases pl
  · simp [decrement, Gen.transportDecrementPosition]
  · rcases lr with _ | ⟨ls, le⟩
    · simp only [decrement, decWrap, Gen.transportDecrementPosition]
      by_cases h : p = 0 <;> simp [h] <;> omega
    · simp only [decrement, decWrap, wrapUpDec, Gen.transportDecrementPosition]
      by_cases h1 : p ≤ ls
      · have h1' : ¬ ls < p := by omega
        by_cases h2 : le < ls
        · simp [h1, h1', h2]
        · by_cases h3 : le = ls
          · subst h3; simp [h1, h1']
          · have h5 : ¬ le - ls = 0 := by omega
            have h6 : ¬ le < (ls - p) % (le - ls) := by
              have := Nat.mod_lt (ls - p) (show 0 < le - ls by omega); omega
            simp only [h1, h1', h2, h3, h5, h6, if_true, if_false, Bool.not_true, Bool.false_eq_true]
            by_cases h : le - (ls - p) % (le - ls) = 0 <;> simp [h] <;> omega
      · have h1' : ls < p := by omega
        simp only [h1, h1', if_true, if_false, Bool.not_true, Bool.false_eq_true]
        by_cases h : p = 0 <;> simp [h] <;> omega

theorem seekTo_eq_gen (t : Transport) (position numFrames : Nat) :
    t.seekTo position numFrames = Gen.transportSeekTo t position numFrames := by
  obtain ⟨p, lr, pl⟩ := t
  rcases lr with _ | ⟨ls, le⟩
  · simp only [seekTo, seekWrap, Gen.transportSeekTo]
    by_cases h : numFrames ≤ position <;> simp [h]
  · simp only [seekTo, seekWrap, wrapDown, wrapUpSeek, Gen.transportSeekTo]
    by_cases h0 : p < position
    · by_cases h1 : le ≤ position
      · have h1' : ¬ position < le := by omega
        by_cases h2 : le < ls
        · have : position < ls ∨ ¬ position < ls := by omega
          rcases this with h3 | h3 <;> simp [h0, h1, h1', h2, h3]
        · by_cases h3 : le = ls
          · subst h3; simp [h0, h1, h1']
          · have h4 : ¬ position < ls := by omega
            have h5 : ¬ le - ls = 0 := by omega
            simp only [h0, h1, h1', h2, h3, h4, h5, if_true, if_false]
            by_cases h : numFrames ≤ ls + (position - ls) % (le - ls) <;> simp [h]
      · have h1' : position < le := by omega
        simp only [h0, h1, h1', if_true, if_false]
        by_cases h : numFrames ≤ position <;> simp [h]
    · by_cases h1 : position < ls
      · have h1' : ¬ ls ≤ position := by omega
        by_cases h2 : le < ls
        · have : le < 1 ∨ ¬ le < 1 := by omega
          rcases this with h7 | h7 <;> simp [h0, h1, h1', h2, h7] <;> omega
        · by_cases h3 : le = ls
          · subst h3
            have h7 : ¬ le < 1 := by omega
            have h8 : ¬ le < position := by omega
            have h9 : ¬ le - position < 1 := by omega
            simp [h0, h1, h1', h7, h8, h9]
          · have h5 : ¬ le - ls = 0 := by omega
            have h7 : ¬ le < 1 := by omega
            have h8 : ¬ ls < position := by omega
            have h9 : ¬ ls - position < 1 := by omega
            have h6 : ¬ le - 1 < (ls - position - 1) % (le - ls) := by
              have := Nat.mod_lt (ls - position - 1) (show 0 < le - ls by omega); omega
            simp only [h0, h1, h1', h2, h3, h5, h6, h7, h8, h9, if_true, if_false]
            by_cases h : numFrames ≤ le - 1 - (ls - position - 1) % (le - ls) <;> simp [h]
      · have h1' : ls ≤ position := by omega
        simp only [h0, h1, h1', if_true, if_false]
        by_cases h : numFrames ≤ position <;> simp [h]

end Transport
end K
