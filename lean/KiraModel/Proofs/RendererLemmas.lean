/-
  RendererLemmas.lean — the chunk loop of `Renderer::process`: chunk sizes, the device buffer as the
  concatenation of chunk conversions, clean buses.  Generic in the number type.
-/
import KiraModel.Proofs.MixerLemmas

set_option linter.unusedSectionVars false

namespace K

variable {α : Type} [Add α] [Sub α] [Mul α] [Div α] [Neg α] [LT α] [LE α]
  [DecidableLT α] [DecidableLE α] [OfScientific α] [KOps α]

/-- the chunk lengths `out.chunks_mut(ibs * channels)` produces for a device buffer of `frames` frames -/
def chunkSizes : Nat → Nat → Nat → List Nat
  | 0, _, _ => []
  | fuel + 1, ibs, frames =>
    if frames = 0 then [] else min ibs frames :: chunkSizes fuel ibs (frames - min ibs frames)

theorem chunkSizes_bound (fuel ibs frames : Nat) : ∀ c ∈ chunkSizes fuel ibs frames, c ≤ ibs ∧ c ≤ frames := by
  induction fuel generalizing frames with
  | zero => simp [chunkSizes]
  | succ k ih =>
    intro c hc
    simp only [chunkSizes] at hc
    split at hc
    · simp at hc
    · rcases List.mem_cons.mp hc with rfl | h
      · exact ⟨Nat.min_le_left _ _, Nat.min_le_right _ _⟩
      · have := ih _ c h; omega

theorem chunkSizes_pos (fuel ibs frames : Nat) (hibs : 0 < ibs) : ∀ c ∈ chunkSizes fuel ibs frames, 0 < c := by
  induction fuel generalizing frames with
  | zero => simp [chunkSizes]
  | succ k ih =>
    intro c hc
    simp only [chunkSizes] at hc
    split at hc
    · simp at hc
    · rcases List.mem_cons.mp hc with rfl | h
      · omega
      · exact ih _ c h

/-- the chunk lengths add up to the callback length (nothing is skipped, nothing rendered twice) -/
theorem chunkSizes_sum (fuel ibs frames : Nat) (hibs : 0 < ibs) (hf : frames ≤ fuel) :
    (chunkSizes fuel ibs frames).sum = frames := by
  induction fuel generalizing frames with
  | zero => simp [chunkSizes]; omega
  | succ k ih =>
    simp only [chunkSizes]
    split
    · simp; omega
    · rename_i h0
      have hm : 0 < min ibs frames := by omega
      rw [List.sum_cons, ih (frames - min ibs frames) (by omega)]
      have := Nat.min_le_right ibs frames
      omega

/-- full chunks first, then the remainder: `[ibs, …, ibs, frames % ibs]` -/
theorem chunkSizes_pattern (fuel ibs frames : Nat) (hibs : 0 < ibs) (hf : frames ≤ fuel) :
    chunkSizes fuel ibs frames
      = List.replicate (frames / ibs) ibs ++ (if frames % ibs = 0 then [] else [frames % ibs]) := by
  induction fuel generalizing frames with
  | zero =>
    have : frames = 0 := by omega
    subst this; simp [chunkSizes]
  | succ k ih =>
    simp only [chunkSizes]
    split
    · rename_i h0; subst h0; simp
    · rename_i h0
      by_cases hlt : frames < ibs
      · have hmin : min ibs frames = frames := Nat.min_eq_right (Nat.le_of_lt hlt)
        rw [hmin, Nat.sub_self]
        have h1 : frames / ibs = 0 := Nat.div_eq_of_lt hlt
        have h2 : frames % ibs = frames := Nat.mod_eq_of_lt hlt
        cases k <;> simp [chunkSizes, h1, h2, h0]
      · have hge : ibs ≤ frames := Nat.le_of_not_lt hlt
        have hmin : min ibs frames = ibs := Nat.min_eq_left hge
        rw [hmin, ih (frames - ibs) (by omega)]
        have h1 : frames / ibs = (frames - ibs) / ibs + 1 := by
          rw [Nat.div_eq frames ibs]; simp [hibs, hge]
        have h2 : (frames - ibs) % ibs = frames % ibs := by
          rw [← Nat.mod_eq_sub_mod hge]
        rw [h1, h2, List.replicate_succ, List.cons_append]

section
variable {S E P X : Type} (C : Comps α S E P) (V : EnvOps α X)

/-- process the chunks of the given lengths one after the other, concatenating the device samples -/
def Renderer.runChunks (numChannels : Nat) : Renderer α S E P X → List Nat → Renderer α S E P X × List α
  | r, [] => (r, [])
  | r, n :: ns =>
    let c := r.processChunk C V n numChannels
    let rest := Renderer.runChunks numChannels c.1 ns
    (rest.1, c.2 ++ rest.2)

@[simp] theorem Renderer.processChunk_ibs (r : Renderer α S E P X) (n ch : Nat) :
    (r.processChunk C V n ch).1.ibs = r.ibs := rfl

/-- `Renderer::process` is the chunk loop over `chunkSizes` -/
theorem Renderer.processLoop_eq (ch fuel : Nat) (r : Renderer α S E P X) (frames : Nat) :
    Renderer.processLoop C V ch fuel r frames = Renderer.runChunks C V ch r (chunkSizes fuel r.ibs frames) := by
  induction fuel generalizing r frames with
  | zero => simp [Renderer.processLoop, chunkSizes, Renderer.runChunks]
  | succ k ih =>
    simp only [Renderer.processLoop, chunkSizes]
    split
    · simp [Renderer.runChunks]
    · simp only [Renderer.runChunks]
      rw [ih]; rfl

/-- bus and mixer scratch buffers are silent -/
def Renderer.Clean (r : Renderer α S E P X) : Prop := r.temp = zeros r.ibs ∧ Mixer.Clean r.ibs r.mixer

/-- the specification of one chunk: step the environment, render the mixer's signal flow, convert -/
def Renderer.specChunk (r : Renderer α S E P X) (n numChannels : Nat) : Renderer α S E P X × List α :=
  let env := V.step r.env (r.dt * (KOps.ofNat n : α))
  let rm := Mixer.spec C r.mixer n r.dt (V.info env)
  ({ r with env := env, mixer := rm.1 }, (rm.2.map (frameToChannels numChannels)).flatten)

theorem Renderer.processChunk_spec (hC : C.LenPres) (r : Renderer α S E P X) (hr : r.Clean) (n ch : Nat)
    (hn : n ≤ r.ibs) :
    r.processChunk C V n ch = r.specChunk C V n ch ∧ (r.specChunk C V n ch).1.Clean := by
  obtain ⟨ht, hm⟩ := hr
  obtain ⟨h1, h2, h3⟩ := Mixer.refines C hC r.ibs r.mixer hm n hn r.dt (V.info (V.step r.env (r.dt * (KOps.ofNat n : α))))
  obtain ⟨e1, _, e3⟩ := lend_round r.ibs n hn _ (zeros n : List (Frame α)) h2 (by simp)
  simp only [length_zeros] at e1
  constructor
  · unfold Renderer.processChunk Renderer.specChunk
    simp only [ht, e1, h1, e3]
    have : (writeBack (Mixer.spec C r.mixer n r.dt (V.info (V.step r.env (r.dt * (KOps.ofNat n : α))))).2
        (zeros r.ibs)).take n = (Mixer.spec C r.mixer n r.dt (V.info (V.step r.env (r.dt * (KOps.ofNat n : α))))).2 := by
      unfold writeBack; rw [List.take_append_of_le_length (by omega)]; rw [List.take_of_length_le (by omega)]
    rw [this, ← ht]
  · exact ⟨ht, h3⟩

/-- process the chunks of the given lengths by the specification -/
def Renderer.specChunks (numChannels : Nat) : Renderer α S E P X → List Nat → Renderer α S E P X × List α
  | r, [] => (r, [])
  | r, n :: ns =>
    let c := r.specChunk C V n numChannels
    let rest := Renderer.specChunks numChannels c.1 ns
    (rest.1, c.2 ++ rest.2)

theorem Renderer.runChunks_spec (hC : C.LenPres) (ch : Nat) (r : Renderer α S E P X) (hr : r.Clean) (ns : List Nat)
    (hns : ∀ n ∈ ns, n ≤ r.ibs) :
    Renderer.runChunks C V ch r ns = Renderer.specChunks C V ch r ns
      ∧ (Renderer.specChunks C V ch r ns).1.Clean := by
  induction ns generalizing r with
  | nil => exact ⟨rfl, hr⟩
  | cons n ns ih =>
    obtain ⟨h1, h2⟩ := Renderer.processChunk_spec C V hC r hr n ch (hns n (by simp))
    simp only [Renderer.runChunks, Renderer.specChunks, h1]
    have hibs : (r.specChunk C V n ch).1.ibs = r.ibs := rfl
    obtain ⟨g1, g2⟩ := ih (r.specChunk C V n ch).1 h2 (fun m hm => by rw [hibs]; exact hns m (by simp [hm]))
    rw [g1]; exact ⟨rfl, g2⟩

end
end K
