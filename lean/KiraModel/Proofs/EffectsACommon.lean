/-
  Helper lemmas shared by the effect proofs (C13/C14, first half): frames over ℝ as a vector
  space, the per-frame loop as a fold, settled parameters, the wet/dry blend.
-/
import KiraModel.Proofs.RealOps
import KiraModel.Proofs.ParameterLemmas
import KiraModel.Model.Effects.CommonA
import Mathlib.Tactic.Linarith
import Mathlib.Tactic.Ring
import Mathlib.Tactic.NormNum
import Mathlib.Tactic.Positivity
import Mathlib.Tactic.FieldSimp

namespace K

/-! ### more literals of the effect code -/
@[simp] theorem litA_1e_4 : (0.0001 : ℝ) = 1 / 10000 := by norm_num
@[simp] theorem litA_1_9 : (1.9 : ℝ) = 19 / 10 := by norm_num
@[simp] theorem litA_0_01 : (0.01 : ℝ) = 1 / 100 := by norm_num
@[simp] theorem litA_40 : (40.0 : ℝ) = 40 := by norm_num
@[simp] theorem litA_500 : (500.0 : ℝ) = 500 := by norm_num
@[simp] theorem litA_1000 : (1000.0 : ℝ) = 1000 := by norm_num

/-! ### frames over ℝ -/
namespace Frame

@[ext] theorem ext' {a b : Frame ℝ} (hl : a.left = b.left) (hr : a.right = b.right) : a = b := by
  cases a; cases b; simp_all

/-- pointwise sum / scalar multiple of frames over ℝ (the vector-space structure the linearity
    theorems are stated with) -/
noncomputable instance : Add (Frame ℝ) := ⟨fun a b => ⟨a.left + b.left, a.right + b.right⟩⟩
noncomputable instance : SMul ℝ (Frame ℝ) := ⟨fun c a => ⟨c * a.left, c * a.right⟩⟩
noncomputable instance : Zero (Frame ℝ) := ⟨⟨0, 0⟩⟩

@[simp] theorem add_left (a b : Frame ℝ) : (a + b).left = a.left + b.left := rfl
@[simp] theorem add_right (a b : Frame ℝ) : (a + b).right = a.right + b.right := rfl
@[simp] theorem smul_left (c : ℝ) (a : Frame ℝ) : (c • a).left = c * a.left := rfl
@[simp] theorem smul_right (c : ℝ) (a : Frame ℝ) : (c • a).right = c * a.right := rfl
@[simp] theorem zero_left : (0 : Frame ℝ).left = 0 := rfl
@[simp] theorem zero_right : (0 : Frame ℝ).right = 0 := rfl

@[simp] theorem fadd_left (a b : Frame ℝ) : (a.add b).left = a.left + b.left := rfl
@[simp] theorem fadd_right (a b : Frame ℝ) : (a.add b).right = a.right + b.right := rfl
@[simp] theorem fsub_left (a b : Frame ℝ) : (a.sub b).left = a.left - b.left := rfl
@[simp] theorem fsub_right (a b : Frame ℝ) : (a.sub b).right = a.right - b.right := rfl
@[simp] theorem fscale_left (a : Frame ℝ) (k : ℝ) : (a.scale k).left = a.left * k := rfl
@[simp] theorem fscale_right (a : Frame ℝ) (k : ℝ) : (a.scale k).right = a.right * k := rfl
@[simp] theorem fdivs_left (a : Frame ℝ) (k : ℝ) : (a.divs k).left = a.left / k := rfl
@[simp] theorem fdivs_right (a : Frame ℝ) (k : ℝ) : (a.divs k).right = a.right / k := rfl

theorem zero_eq : (Frame.zero : Frame ℝ) = 0 := by
  ext <;> simp [Frame.zero]

end Frame

/-- pointwise sum of two signals -/
noncomputable def sigAdd (xs ys : List (Frame ℝ)) : List (Frame ℝ) := List.zipWith (· + ·) xs ys
/-- scalar multiple of a signal -/
noncomputable def sigSmul (c : ℝ) (xs : List (Frame ℝ)) : List (Frame ℝ) := xs.map (c • ·)

/-! ### the per-frame loop -/

/-- a plain fold of a per-frame transition over a signal (what `frameLoop` is once the
    parameters no longer depend on `time_in_chunk`) -/
def runTick {V : Type} (tick : V → Frame ℝ → V × Frame ℝ) : V → List (Frame ℝ) → V × List (Frame ℝ)
  | v, [] => (v, [])
  | v, f :: fs =>
    let r := tick v f
    let r' := runTick tick r.1 fs
    (r'.1, r.2 :: r'.2)

theorem runTick_append {V : Type} (tick : V → Frame ℝ → V × Frame ℝ) (v : V) (xs ys : List (Frame ℝ)) :
    runTick tick v (xs ++ ys)
      = ((runTick tick (runTick tick v xs).1 ys).1, (runTick tick v xs).2 ++ (runTick tick (runTick tick v xs).1 ys).2) := by
  induction xs generalizing v with
  | nil => simp [runTick]
  | cons f fs ih => simp [runTick, ih]

theorem runTick_length {V : Type} (tick : V → Frame ℝ → V × Frame ℝ) (v : V) (xs : List (Frame ℝ)) :
    (runTick tick v xs).2.length = xs.length := by
  induction xs generalizing v with
  | nil => simp [runTick]
  | cons f fs ih => simp [runTick, ih]

/-- a memoryless loop is a `map` -/
theorem runTick_unit (g : Frame ℝ → Frame ℝ) (xs : List (Frame ℝ)) :
    runTick (fun (_ : Unit) f => ((), g f)) () xs = ((), xs.map g) := by
  induction xs with
  | nil => simp [runTick]
  | cons f fs ih => simp [runTick, ih]

/-- additivity of a fold whose transition is additive in (state, frame) -/
theorem runTick_add {V : Type} [Add V] (tick : V → Frame ℝ → V × Frame ℝ)
    (hadd : ∀ v w f g, tick (v + w) (f + g) = ((tick v f).1 + (tick w g).1, (tick v f).2 + (tick w g).2))
    (v w : V) (xs ys : List (Frame ℝ)) (hlen : xs.length = ys.length) :
    runTick tick (v + w) (sigAdd xs ys)
      = ((runTick tick v xs).1 + (runTick tick w ys).1, sigAdd (runTick tick v xs).2 (runTick tick w ys).2) := by
  induction xs generalizing v w ys with
  | nil =>
    cases ys with
    | nil => simp [runTick, sigAdd]
    | cons _ _ => simp at hlen
  | cons f fs ih =>
    cases ys with
    | nil => simp at hlen
    | cons g gs =>
      have hl : fs.length = gs.length := by simpa using hlen
      simp only [sigAdd, List.zipWith_cons_cons, runTick, hadd]
      have := ih (tick v f).1 (tick w g).1 gs hl
      simp only [sigAdd] at this
      rw [this]

/-- homogeneity of a fold whose transition is homogeneous in (state, frame) -/
theorem runTick_smul {V : Type} [SMul ℝ V] (tick : V → Frame ℝ → V × Frame ℝ) (c : ℝ)
    (hsmul : ∀ v f, tick (c • v) (c • f) = (c • (tick v f).1, c • (tick v f).2))
    (v : V) (xs : List (Frame ℝ)) :
    runTick tick (c • v) (sigSmul c xs)
      = (c • (runTick tick v xs).1, sigSmul c (runTick tick v xs).2) := by
  induction xs generalizing v with
  | nil => simp [runTick, sigSmul]
  | cons f fs ih =>
    simp only [sigSmul, List.map_cons, runTick, hsmul]
    have := ih (tick v f).1
    simp only [sigSmul] at this
    rw [this]

/-- silence in, silence out for a fold whose transition fixes (0, 0) -/
theorem runTick_zero {V : Type} (tick : V → Frame ℝ → V × Frame ℝ) (z : V)
    (hz : tick z 0 = (z, 0)) (n : ℕ) :
    runTick tick z (List.replicate n 0) = (z, List.replicate n 0) := by
  induction n with
  | zero => simp [runTick]
  | succ n ih => simp [List.replicate_succ, runTick, hz, ih]

/-! ### settled parameters -/

namespace Parameter

/-- a parameter at rest: not tweening, not linked to a modulator (`stagnant`) -/
def Stagnant {τ : Type} (p : Parameter ℝ τ) : Prop := p.stagnant = true

/-- at rest and already seen by one `update` (`previous_value = value`) -/
def Settled {τ : Type} (p : Parameter ℝ τ) : Prop := p.stagnant = true ∧ p.prev = p.raw

theorem settleA {τ : Type} (tw : Tweenable ℝ τ) (p : Parameter ℝ τ) (d : ℝ) (info : Info ℝ) (h : Stagnant p) :
    (p.update tw d info).1 = { p with prev := p.raw } := by
  rw [update_stagnant tw p d info h]

theorem settle_settled {τ : Type} (p : Parameter ℝ τ) (h : Stagnant p) :
    Settled ({ p with prev := p.raw } : Parameter ℝ τ) := ⟨h, rfl⟩

theorem settled_fix {τ : Type} (p : Parameter ℝ τ) (h : Settled p) :
    ({ p with prev := p.raw } : Parameter ℝ τ) = p := by
  cases p; simp_all [Settled]

theorem settled_update {τ : Type} (tw : Tweenable ℝ τ) (p : Parameter ℝ τ) (d : ℝ) (info : Info ℝ)
    (h : Settled p) : (p.update tw d info).1 = p := by
  rw [settleA tw p d info h.1, settled_fix p h]

theorem settled_interp64 (p : Parameter ℝ ℝ) (t : ℝ) (h : Settled p) :
    p.interpolatedValue tw64 t = p.raw := by
  unfold interpolatedValue tw64 lerp64; rw [h.2]; ring

theorem settled_interp32 (p : Parameter ℝ ℝ) (t : ℝ) (h : Settled p) :
    p.interpolatedValue tw32 t = p.raw := by
  rw [tw32_eq_tw64]; exact settled_interp64 p t h

/-- a freshly built parameter with a fixed value is settled -/
theorem new_fixed_settled {τ : Type} (v d : τ) : Settled (Parameter.new (.fixed v) d : Parameter ℝ τ) :=
  ⟨rfl, rfl⟩

@[simp] theorem new_fixed_raw {τ : Type} (v d : τ) : (Parameter.new (.fixed v) d : Parameter ℝ τ).raw = v := rfl

end Parameter

/-! ### wet/dry blend -/

theorem dryWet_real (o f : Frame ℝ) (m : ℝ) :
    dryWet o f m = ⟨o.left * Real.sqrt m + f.left * Real.sqrt (1 - m),
                    o.right * Real.sqrt m + f.right * Real.sqrt (1 - m)⟩ := by
  unfold dryWet; ext <;> simp

/-- fully dry: the output is the input, whatever the wet signal is -/
theorem dryWet_dry (o f : Frame ℝ) : dryWet o f 0 = f := by
  rw [dryWet_real]; ext <;> simp

/-- fully wet -/
theorem dryWet_wet (o f : Frame ℝ) : dryWet o f 1 = o := by
  rw [dryWet_real]; ext <;> simp

theorem clamp01_mem (x : ℝ) : 0 ≤ clamp x (0.0 : ℝ) (1.0 : ℝ) ∧ clamp x (0.0 : ℝ) (1.0 : ℝ) ≤ 1 := by
  have := clamp_mem x 0 1 (by norm_num)
  simpa using this

theorem clamp01_of_le_zero (x : ℝ) (h : x ≤ 0) : clamp x (0.0 : ℝ) (1.0 : ℝ) = 0 := by
  unfold clamp
  simp only [lit_0, lit_1]
  split
  · rfl
  · rename_i h1
    have : x = 0 := le_antisymm h (not_lt.mp h1)
    subst this; norm_num

theorem clamp01_of_ge_one (x : ℝ) (h : 1 ≤ x) : clamp x (0.0 : ℝ) (1.0 : ℝ) = 1 := by
  unfold clamp
  simp only [lit_0, lit_1]
  have h0 : ¬ x < 0 := by linarith
  simp only [h0, if_false]
  split
  · rfl
  · rename_i h1; linarith [not_lt.mp h1]

/-- both square-root arguments of the blend lie in [0, 1] for the clamped mix -/
theorem dryWet_args (x : ℝ) :
    0 ≤ clamp x (0.0 : ℝ) (1.0 : ℝ) ∧ clamp x (0.0 : ℝ) (1.0 : ℝ) ≤ 1
      ∧ 0 ≤ 1 - clamp x (0.0 : ℝ) (1.0 : ℝ) ∧ 1 - clamp x (0.0 : ℝ) (1.0 : ℝ) ≤ 1 := by
  have := clamp01_mem x
  exact ⟨this.1, this.2, by linarith, by linarith⟩

end K

namespace K

/-- the loop of an effect whose body, on the states `inj v`, is a transition `tick` on `v` that
    does not look at `time_in_chunk`: it is the plain fold -/
theorem frameLoop_fold {σ V : Type} (body : ℝ → σ → Frame ℝ → σ × Frame ℝ)
    (tick : V → Frame ℝ → V × Frame ℝ) (inj : V → σ)
    (h : ∀ t v f, body t (inj v) f = (inj (tick v f).1, (tick v f).2))
    (n i : ℕ) (v : V) (xs : List (Frame ℝ)) :
    frameLoop body n i (inj v) xs = (inj (runTick tick v xs).1, (runTick tick v xs).2) := by
  induction xs generalizing i v with
  | nil => simp [frameLoop, runTick]
  | cons f fs ih =>
    simp only [frameLoop, runTick, h]
    rw [ih]

/-- the loop of a memoryless effect is a `map` -/
theorem frameLoop_map {σ : Type} (body : ℝ → σ → Frame ℝ → σ × Frame ℝ) (g : Frame ℝ → Frame ℝ) (s : σ)
    (h : ∀ t f, body t s f = (s, g f)) (n i : ℕ) (xs : List (Frame ℝ)) :
    frameLoop body n i s xs = (s, xs.map g) := by
  have := frameLoop_fold body (fun (_ : Unit) f => ((), g f)) (fun _ => s) (by intro t v f; simp [h]) n i () xs
  rw [this, runTick_unit]

end K

namespace K

/-- a loop whose body maps a zero frame to a zero frame on states satisfying an invariant maps
    silence to silence — whatever the parameters do meanwhile -/
theorem frameLoop_zero {σ : Type} (body : ℝ → σ → Frame ℝ → σ × Frame ℝ) (P : σ → Prop)
    (h : ∀ t s, P s → P (body t s 0).1 ∧ (body t s 0).2 = 0) (n i m : ℕ) (s : σ) (hs : P s) :
    P (frameLoop body n i s (List.replicate m 0)).1
      ∧ (frameLoop body n i s (List.replicate m 0)).2 = List.replicate m 0 := by
  induction m generalizing i s with
  | zero => simpa [frameLoop] using hs
  | succ m ih =>
    simp only [List.replicate_succ, frameLoop]
    obtain ⟨h1, h2⟩ := h ((KOps.ofNat (i + 1) : ℝ) / (KOps.ofNat n : ℝ)) s hs
    obtain ⟨h3, h4⟩ := ih (i + 1) _ h1
    exact ⟨h3, by rw [h2, h4]⟩

/-- a fold whose transition always outputs its input frame is the identity on signals -/
theorem runTick_out_id {V : Type} (tick : V → Frame ℝ → V × Frame ℝ) (h : ∀ v f, (tick v f).2 = f)
    (v : V) (xs : List (Frame ℝ)) : (runTick tick v xs).2 = xs := by
  induction xs generalizing v with
  | nil => simp [runTick]
  | cons f fs ih => simp [runTick, h, ih]

/-- a fold whose transition outputs `g frame` whatever the state is a `map` on the output side -/
theorem runTick_out_map {V : Type} (tick : V → Frame ℝ → V × Frame ℝ) (g : Frame ℝ → Frame ℝ)
    (h : ∀ v f, (tick v f).2 = g f) (v : V) (xs : List (Frame ℝ)) : (runTick tick v xs).2 = xs.map g := by
  induction xs generalizing v with
  | nil => simp [runTick]
  | cons f fs ih => simp [runTick, h, ih]

theorem sigAdd_map (g : Frame ℝ → Frame ℝ) (hg : ∀ a b, g (a + b) = g a + g b) (xs ys : List (Frame ℝ)) :
    (sigAdd xs ys).map g = sigAdd (xs.map g) (ys.map g) := by
  induction xs generalizing ys with
  | nil => simp [sigAdd]
  | cons f fs ih =>
    cases ys with
    | nil => simp [sigAdd]
    | cons y ys =>
      have := ih ys
      simp only [sigAdd] at this ⊢
      simp [hg, this]

theorem sigSmul_map (g : Frame ℝ → Frame ℝ) (c : ℝ) (hg : ∀ a, g (c • a) = c • g a) (xs : List (Frame ℝ)) :
    (sigSmul c xs).map g = sigSmul c (xs.map g) := by
  induction xs with
  | nil => simp [sigSmul]
  | cons f fs ih =>
    simp only [sigSmul] at ih ⊢
    simp [hg, ih]

end K

namespace K

/-- process a signal slice by slice (one `process` call per slice), collecting the outputs -/
def procChunks {σ : Type} (proc : σ → List (Frame ℝ) → σ × List (Frame ℝ)) :
    σ → List (List (Frame ℝ)) → σ × List (Frame ℝ)
  | s, [] => (s, [])
  | s, c :: cs =>
    let r := proc s c
    let r' := procChunks proc r.1 cs
    (r'.1, r.2 ++ r'.2)

/-- from the two-slice law to every partition into (possibly empty) slices -/
theorem procChunks_of_pair {σ : Type} (proc : σ → List (Frame ℝ) → σ × List (Frame ℝ)) (P : σ → Prop)
    (hP : ∀ s xs, P s → P (proc s xs).1)
    (hpair : ∀ s xs ys, P s →
      proc s (xs ++ ys) = ((proc (proc s xs).1 ys).1, (proc s xs).2 ++ (proc (proc s xs).1 ys).2))
    (s : σ) (hs : P s) (c : List (Frame ℝ)) (cs : List (List (Frame ℝ))) :
    procChunks proc s (c :: cs) = proc s (c :: cs).flatten := by
  induction cs generalizing s c with
  | nil => simp [procChunks]
  | cons d ds ih =>
    have h1 := ih (proc s c).1 (hP s c hs) d
    have h2 := hpair s c (d :: ds).flatten hs
    rw [List.flatten_cons, h2]
    simp only [procChunks] at h1 ⊢
    rw [← h1]

end K

namespace K

/-- a fixed point of the transition: constant input gives constant output for ever -/
theorem runTick_const {V : Type} (tick : V → Frame ℝ → V × Frame ℝ) (z : V) (f o : Frame ℝ)
    (h : tick z f = (z, o)) (n : ℕ) :
    runTick tick z (List.replicate n f) = (z, List.replicate n o) := by
  induction n with
  | zero => simp [runTick]
  | succ n ih => simp [List.replicate_succ, runTick, h, ih]

/-- the signal `f, f', f, f', …` of `2n` frames -/
def altSig (n : ℕ) (f f' : Frame ℝ) : List (Frame ℝ) := (List.replicate n [f, f']).flatten

/-- a period-2 orbit of the transition: alternating input gives alternating output for ever -/
theorem runTick_alt {V : Type} (tick : V → Frame ℝ → V × Frame ℝ) (z z' : V) (f f' o o' : Frame ℝ)
    (h : tick z f = (z', o)) (h' : tick z' f' = (z, o')) (n : ℕ) :
    runTick tick z (altSig n f f') = (z, altSig n o o') := by
  induction n with
  | zero => simp [runTick, altSig]
  | succ n ih =>
    simp only [altSig, List.replicate_succ, List.flatten_cons, List.cons_append, List.nil_append,
      runTick, h, h'] at ih ⊢
    rw [ih]

end K

namespace K

/-- a state the transition returns to on every frame of the signal: the output is a `map` -/
theorem runTick_inv {V : Type} (tick : V → Frame ℝ → V × Frame ℝ) (z : V) (g : Frame ℝ → Frame ℝ)
    (xs : List (Frame ℝ)) (h : ∀ f ∈ xs, tick z f = (z, g f)) : runTick tick z xs = (z, xs.map g) := by
  induction xs with
  | nil => simp [runTick]
  | cons f fs ih =>
    have h1 := h f (by simp)
    have h2 := ih (fun f' hf' => h f' (by simp [hf']))
    simp [runTick, h1, h2]

end K

namespace K

/-- the signal `inp j, inp (j+1), …, inp (j+n-1)` -/
def sigFrom (inp : ℕ → Frame ℝ) (j n : ℕ) : List (Frame ℝ) := (List.range n).map (fun i => inp (j + i))

theorem sigFrom_succ (inp : ℕ → Frame ℝ) (j n : ℕ) :
    sigFrom inp j (n + 1) = inp j :: sigFrom inp (j + 1) n := by
  unfold sigFrom
  rw [List.range_succ_eq_map]
  simp only [List.map_cons, List.map_map, Nat.add_zero]
  congr 1
  apply List.map_congr_left
  intro i _
  simp only [Function.comp]
  congr 1; omega

/-- following a known orbit of the transition: if `tick (st i) (inp i) = (st (i+1), outp i)` for
    every `i`, the fold over `inp j …` from `st j` produces `outp j …` and ends in `st (j+n)` -/
theorem runTick_orbit {V : Type} (tick : V → Frame ℝ → V × Frame ℝ) (st : ℕ → V) (inp outp : ℕ → Frame ℝ)
    (h : ∀ i, tick (st i) (inp i) = (st (i + 1), outp i)) (j n : ℕ) :
    runTick tick (st j) (sigFrom inp j n) = (st (j + n), sigFrom outp j n) := by
  induction n generalizing j with
  | zero => simp [sigFrom, runTick]
  | succ n ih =>
    rw [sigFrom_succ, sigFrom_succ]
    simp only [runTick, h, ih (j + 1)]
    congr 2; omega

end K
