/-
  The inductive invariant of the two-word clock-time protocol (Model/Conc/ClockShared.lean).
-/
import KiraModel.Model.Conc.ClockShared
import Mathlib.Tactic.Common

namespace K.Conc

variable {φ : Type}

/-- what holds in every reachable state, whatever the interleaving -/
structure CS.Inv (z : φ) (s : CS φ) : Prop where
  /-- while flagged, the two words are a pair the clock had -/
  pair : s.pairOK = true → (s.ticks, s.frac) ∈ s.hist
  /-- a publication in progress publishes a value the clock has; untouched ⇒ its first store stands -/
  audMid : ∀ t f u, s.aud = some (t, f, u) → (t, f) ∈ s.hist ∧ (u = true → s.ticks = t)
  /-- a `stop()` in progress: zero is a value the clock has; untouched ⇒ its first store stands -/
  stopMid : ∀ u, s.caller = .stopMid u → (0, z) ∈ s.hist ∧ (u = true → s.ticks = 0)
  /-- a read in progress that is still good loaded the ticks of a flagged pair that still stands -/
  good : ∀ t, s.caller = .gotTicks t true → s.pairOK = true ∧ s.ticks = t
  /-- good reads returned values the clock had -/
  goodReads : ∀ t f, (t, f, true) ∈ s.reads → (t, f) ∈ s.hist
  wordT : s.ticks ∈ s.ticksHist
  wordF : s.frac ∈ s.fracHist
  gotT : ∀ t g, s.caller = .gotTicks t g → t ∈ s.ticksHist
  readWords : ∀ t f g, (t, f, g) ∈ s.reads → t ∈ s.ticksHist ∧ f ∈ s.fracHist

theorem CS.inv_init (z : φ) : CS.Inv z (CS.init z) := by
  constructor <;> simp [CS.init]

theorem taint_gotTicks_true (c : CallerPc) (t : Nat) : c.taint ≠ .gotTicks t true := by
  cases c <;> simp [CallerPc.taint]

theorem taint_gotTicks (c : CallerPc) (t : Nat) (g : Bool) (h : c.taint = .gotTicks t g) :
    ∃ g', c = .gotTicks t g' := by
  cases c <;> simp_all [CallerPc.taint]

theorem taint_stopMid (c : CallerPc) (u : Bool) (h : c.taint = .stopMid u) :
    u = false ∧ ∃ u', c = .stopMid u' := by
  cases c <;> simp_all [CallerPc.taint]

theorem taintAud_some (a : Option (Nat × φ × Bool)) (t : Nat) (f : φ) (u : Bool)
    (h : taintAud a = some (t, f, u)) : u = false ∧ ∃ u', a = some (t, f, u') := by
  cases a with
  | none => simp [taintAud] at h
  | some p => obtain ⟨t', f', u'⟩ := p; simp [taintAud] at h; obtain ⟨rfl, rfl, rfl⟩ := h; exact ⟨rfl, u', rfl⟩

theorem CS.inv_step (z : φ) (s s' : CS φ) (l : Lbl φ) (h : CS.Inv z s) (hs : s.step z l = some s') :
    CS.Inv z s' := by
  cases l with
  | audStoreTicks t f =>
    simp only [CS.step] at hs
    split at hs
    · exact absurd hs (by simp)
    · rename_i haud
      simp only [Option.some.injEq] at hs; subst hs
      constructor
      · intro hp; simp at hp
      · intro t' f' u' he
        simp only [Option.some.injEq, Prod.mk.injEq] at he
        obtain ⟨rfl, rfl, rfl⟩ := he
        exact ⟨by simp, fun _ => rfl⟩
      · intro u hu
        obtain ⟨rfl, u', hu'⟩ := taint_stopMid _ _ hu
        exact ⟨List.mem_cons_of_mem _ (h.stopMid u' hu').1, by simp⟩
      · intro t' ht; exact absurd ht (taint_gotTicks_true _ _)
      · intro t' f' hr; exact List.mem_cons_of_mem _ (h.goodReads t' f' hr)
      · simp
      · exact h.wordF
      · intro t' g hg
        obtain ⟨g', hg'⟩ := taint_gotTicks _ _ _ hg
        exact List.mem_cons_of_mem _ (h.gotT t' g' hg')
      · intro t' f' g hr
        exact ⟨List.mem_cons_of_mem _ (h.readWords t' f' g hr).1, (h.readWords t' f' g hr).2⟩
  | audStoreFrac =>
    simp only [CS.step] at hs
    split at hs
    · exact absurd hs (by simp)
    · rename_i t f u haud
      simp only [Option.some.injEq] at hs; subst hs
      obtain ⟨hmem, hstand⟩ := h.audMid t f u haud
      constructor
      · intro hp
        simp only at hp
        simp only
        rw [hstand hp]; exact hmem
      · intro t' f' u' he; simp at he
      · intro u' hu
        obtain ⟨rfl, u'', hu''⟩ := taint_stopMid _ _ hu
        exact ⟨(h.stopMid u'' hu'').1, by simp⟩
      · intro t' ht; exact absurd ht (taint_gotTicks_true _ _)
      · exact h.goodReads
      · exact h.wordT
      · simp
      · intro t' g hg
        obtain ⟨g', hg'⟩ := taint_gotTicks _ _ _ hg
        exact h.gotT t' g' hg'
      · intro t' f' g hr
        exact ⟨(h.readWords t' f' g hr).1, List.mem_cons_of_mem _ (h.readWords t' f' g hr).2⟩
  | audReset =>
    simp only [CS.step] at hs
    split at hs
    · exact absurd hs (by simp)
    · rename_i haud
      simp only [Option.some.injEq] at hs; subst hs
      constructor
      · intro hp; simp at hp
      · intro t' f' u' he; simp only at he; rw [haud] at he; simp at he
      · intro u hu
        obtain ⟨rfl, u', hu'⟩ := taint_stopMid _ _ hu
        exact ⟨by simp, by simp⟩
      · intro t' ht; exact absurd ht (taint_gotTicks_true _ _)
      · intro t' f' hr; exact List.mem_cons_of_mem _ (h.goodReads t' f' hr)
      · simp
      · exact h.wordF
      · intro t' g hg
        obtain ⟨g', hg'⟩ := taint_gotTicks _ _ _ hg
        exact List.mem_cons_of_mem _ (h.gotT t' g' hg')
      · intro t' f' g hr
        exact ⟨List.mem_cons_of_mem _ (h.readWords t' f' g hr).1, (h.readWords t' f' g hr).2⟩
  | stopStoreTicks =>
    simp only [CS.step] at hs
    split at hs
    · rename_i hc
      simp only [Option.some.injEq] at hs; subst hs
      constructor
      · intro hp; simp at hp
      · intro t' f' u' he
        obtain ⟨rfl, u'', hu''⟩ := taintAud_some _ _ _ _ he
        exact ⟨List.mem_cons_of_mem _ (h.audMid t' f' u'' hu'').1, by simp⟩
      · intro u hu; exact ⟨by simp, fun _ => rfl⟩
      · intro t' ht; simp at ht
      · intro t' f' hr; exact List.mem_cons_of_mem _ (h.goodReads t' f' hr)
      · simp
      · exact h.wordF
      · intro t' g hg; simp at hg
      · intro t' f' g hr
        exact ⟨List.mem_cons_of_mem _ (h.readWords t' f' g hr).1, (h.readWords t' f' g hr).2⟩
    · exact absurd hs (by simp)
  | stopStoreFrac =>
    simp only [CS.step] at hs
    split at hs
    · rename_i u hc
      simp only [Option.some.injEq] at hs; subst hs
      obtain ⟨hmem, hstand⟩ := h.stopMid u hc
      constructor
      · intro hp
        simp only at hp
        simp only
        rw [hstand hp]; exact hmem
      · intro t' f' u' he
        obtain ⟨rfl, u'', hu''⟩ := taintAud_some _ _ _ _ he
        exact ⟨(h.audMid t' f' u'' hu'').1, by simp⟩
      · intro u' hu; simp at hu
      · intro t' ht; simp at ht
      · exact h.goodReads
      · exact h.wordT
      · simp
      · intro t' g hg; simp at hg
      · intro t' f' g hr
        exact ⟨(h.readWords t' f' g hr).1, List.mem_cons_of_mem _ (h.readWords t' f' g hr).2⟩
    · exact absurd hs (by simp)
  | loadTicks =>
    simp only [CS.step] at hs
    split at hs
    · rename_i hc
      simp only [Option.some.injEq] at hs; subst hs
      constructor
      · exact h.pair
      · exact h.audMid
      · intro u hu; simp at hu
      · intro t' ht
        simp only [CallerPc.gotTicks.injEq] at ht
        exact ⟨ht.2, ht.1⟩
      · exact h.goodReads
      · exact h.wordT
      · exact h.wordF
      · intro t' g hg
        simp only [CallerPc.gotTicks.injEq] at hg
        rw [← hg.1]; exact h.wordT
      · exact h.readWords
    · exact absurd hs (by simp)
  | loadFrac =>
    simp only [CS.step] at hs
    split at hs
    · rename_i t g hc
      simp only [Option.some.injEq] at hs; subst hs
      constructor
      · exact h.pair
      · exact h.audMid
      · intro u hu; simp at hu
      · intro t' ht; simp at ht
      · intro t' f' hr
        simp only [List.mem_cons, Prod.mk.injEq] at hr
        rcases hr with ⟨rfl, rfl, rfl⟩ | hr
        · obtain ⟨hp, ht⟩ := h.good t' hc
          rw [← ht]; exact h.pair hp
        · exact h.goodReads t' f' hr
      · exact h.wordT
      · exact h.wordF
      · intro t' g' hg; simp at hg
      · intro t' f' g' hr
        simp only [List.mem_cons, Prod.mk.injEq] at hr
        rcases hr with ⟨rfl, rfl, rfl⟩ | hr
        · exact ⟨h.gotT t' g' hc, h.wordF⟩
        · exact h.readWords t' f' g' hr
    · exact absurd hs (by simp)

theorem CS.inv_reachable (z : φ) (s : CS φ) (h : CS.Reachable z s) : CS.Inv z s := by
  induction h with
  | init => exact CS.inv_init z
  | step l _ hs ih => exact CS.inv_step z _ _ l ih hs

theorem CS.reachable_run (z : φ) : ∀ (ls : List (Lbl φ)) (s s' : CS φ),
    CS.Reachable z s → s.run z ls = some s' → CS.Reachable z s' := by
  intro ls
  induction ls with
  | nil => intro s s' h hr; simp only [CS.run, Option.some.injEq] at hr; subst hr; exact h
  | cons l rest ih =>
    intro s s' h hr
    simp only [CS.run] at hr
    cases hs : s.step z l with
    | none => rw [hs] at hr; exact absurd hr (by simp)
    | some s1 => rw [hs] at hr; exact ih s1 s' (CS.Reachable.step l h hs) hr

end K.Conc
