/-
  Proofs/HandLemmas.lean — the inductive invariant of the resource handshake LTS
  (Model/Conc/ResourceHandshake.lean).  Core Lean only.
-/
import KiraModel.Proofs.StoreLemmas

namespace K.Hand
open K.Store

/-- 1 while the gameplay thread has reserved a key but has not yet seen the unused ring empty -/
def St.pending (s : St) : Nat :=
  match s.gpc with
  | .reserved _ => 1
  | _ => 0

/-- a key whose slot has been freed since the key was issued -/
def St.stale (s : St) (k : Key) : Prop := k.generation < s.store.ctrl.generation k.index

/-- the drain iterator only holds slots that are still occupied, each once -/
def DrainInv (s : St) : Prop :=
  match s.apc with
  | .draining rest _ => rest.Nodup ∧ ∀ i ∈ rest, i ∈ s.store.arena.order
  | _ => True

/-- every key that must go in this callback is either gone already or still ahead of the iterator -/
def MustGoInv (s : St) : Prop :=
  ∀ k ∈ s.mustGo, s.stale k ∨
    ∃ rest hand, s.apc = .draining rest hand ∧ k.index ∈ rest
      ∧ ∃ sl x, s.store.arena.slots[k.index]? = some sl ∧ sl.generation = k.generation ∧ sl.data = some x
          ∧ x ∈ s.marked

structure Inv (ar : Bool) (cap : Nat) (s : St) : Prop where
  wf : WF cap s.held s.store
  drain : DrainInv s
  mustGo : MustGoInv s
  /-- at the coarse granularity nothing is ever in the audio thread's hands between steps -/
  noHand : ar = true → s.inHand = []
  /-- at the coarse granularity the unused ring never holds more than the free slots (+ a pending drain) -/
  unusedBound : ar = true → s.store.unused.items.length + s.store.ctrl.len ≤ cap + s.pending

theorem inv_init (ar : Bool) (cap : Nat) (h : 0 < cap) : Inv ar cap (init cap) := by
  refine ⟨wf_new cap h, trivial, by simp [MustGoInv, init], by simp [St.inHand, init], ?_⟩
  intro _
  simp [init, Store.new, Ring.new, Controller.new, Controller.len, List.countP_replicate, St.pending]

theorem len_le {cap : Nat} {held : List Key} {s : Store Res} (h : WF cap held s) : s.ctrl.len ≤ cap := by
  have := h.count; omega

theorem inv_gReserve {ar : Bool} {cap : Nat} {s s' : St} (h : Inv ar cap s)
    (hs : step ar s .gReserve = some (.ok s')) : Inv ar cap s' := by
  obtain ⟨wf, dr, mg, nh, ub⟩ := h
  simp only [step] at hs
  cases hg : s.gpc with
  | reserved k => simp [hg] at hs
  | drained k => simp [hg] at hs
  | idle =>
    simp only [hg] at hs
    have hheld : s.held = [] := by simp [St.held, hg]
    rw [hheld] at wf
    have spec := wf_tryReserve wf
    cases hr : s.store.tryReserve with
    | error e => simp [hr, ReserveSpec] at spec
    | ok p =>
      obtain ⟨ko, st⟩ := p
      cases ko with
      | none =>
        simp only [hr, ReserveSpec] at spec hs
        obtain ⟨rfl, _⟩ := spec
        simp at hs; subst hs
        refine ⟨by simpa [St.held, hg] using wf, ?_, ?_, ?_, ?_⟩ <;>
          simp only [DrainInv, MustGoInv, St.stale, St.inHand, St.pending, St.held, hg] at * <;> grind
      | some k =>
        simp only [hr, ReserveSpec] at spec hs
        simp at hs; subst hs
        obtain ⟨wf', hlt, hlen, hk, hkg, hgen, ha, hn, hu, hd, hnot⟩ := spec
        refine ⟨by simpa [St.held] using wf', ?_, ?_, ?_, ?_⟩
        · simp only [DrainInv] at dr ⊢; simpa [ha] using dr
        · intro k' hk'
          rcases mg k' hk' with h1 | h1
          · left; simp only [St.stale] at h1 ⊢; rw [hgen]; exact h1
          · right; simpa [ha] using h1
        · simpa [St.inHand] using nh
        · intro har; have := ub har
          simp only [St.pending, hg, hu, hlen] at this ⊢; omega

theorem inv_gPopUnused {ar : Bool} {cap : Nat} {s s' : St} (h : Inv ar cap s)
    (hs : step ar s .gPopUnused = some (.ok s')) : Inv ar cap s' := by
  obtain ⟨wf, dr, mg, nh, ub⟩ := h
  simp only [step] at hs
  cases hg : s.gpc with
  | idle => simp [hg] at hs
  | drained k => simp [hg] at hs
  | reserved k =>
    simp only [hg] at hs
    have hheld : s.held = [k] := by simp [St.held, hg]
    rw [hheld] at wf
    cases hp : s.store.popUnused with
    | some st =>
      simp [hp] at hs; subst hs
      obtain ⟨wf', hc, ha, hn, hl⟩ := wf_popUnused wf hp
      refine ⟨by simpa [St.held, hg] using wf', ?_, ?_, ?_, ?_⟩ <;>
        simp only [DrainInv, MustGoInv, St.stale, St.inHand, St.pending, St.held, hg, hc, ha, hn] at * <;> grind
    | none =>
      simp [hp] at hs; subst hs
      have he := popUnused_none hp
      have hle := len_le wf
      refine ⟨by simpa [St.held, hg] using wf, ?_, ?_, ?_, ?_⟩ <;>
        simp only [DrainInv, MustGoInv, St.stale, St.inHand, St.pending, St.held, hg, he] at * <;> grind

theorem inv_gPushNew {ar : Bool} {cap : Nat} {s s' : St} (h : Inv ar cap s)
    (hs : step ar s .gPushNew = some (.ok s')) : Inv ar cap s' := by
  obtain ⟨wf, dr, mg, nh, ub⟩ := h
  simp only [step] at hs
  cases hg : s.gpc with
  | idle => simp [hg] at hs
  | reserved k => simp [hg] at hs
  | drained k =>
    simp only [hg] at hs
    have hheld : s.held = [k] := by simp [St.held, hg]
    rw [hheld] at wf
    obtain ⟨st, hp, wf', hc, ha, hu, hd, hn⟩ := wf_pushNew s.nextId wf
    simp [hp] at hs; subst hs
    refine ⟨by simpa [St.held, hg] using wf', ?_, ?_, ?_, ?_⟩ <;>
      simp only [DrainInv, MustGoInv, St.stale, St.inHand, St.pending, St.held, hg, hc, ha, hu] at * <;> grind

theorem gPushNew_ok {ar : Bool} {cap : Nat} {s : St} (h : Inv ar cap s) (k : Key) (hg : s.gpc = .drained k) :
    ∃ s', step ar s .gPushNew = some (.ok s') := by
  have wf := h.wf
  have hheld : s.held = [k] := by simp [St.held, hg]
  rw [hheld] at wf
  obtain ⟨st, hp, _⟩ := wf_pushNew s.nextId wf
  simp [step, hg, hp]

theorem inv_mark {ar : Bool} {cap : Nat} {s s' : St} (x : Res) (h : Inv ar cap s)
    (hs : step ar s (.mark x) = some (.ok s')) : Inv ar cap s' := by
  obtain ⟨wf, dr, mg, nh, ub⟩ := h
  simp [step] at hs; subst hs
  refine ⟨by simpa [St.held] using wf, ?_, ?_, ?_, ?_⟩ <;>
      simp only [DrainInv, MustGoInv, St.stale, St.inHand, St.pending, St.held] at * <;> grind

end K.Hand

namespace K
theorem Arena.mem_iter {τ : Type} (a : Arena τ) (k : Key) (x : τ) :
    (k, x) ∈ a.iter ↔ k.index ∈ a.order ∧ ∃ sl, a.slots[k.index]? = some sl ∧ sl.data = some x
      ∧ sl.generation = k.generation := by
  simp only [Arena.iter, List.mem_filterMap]
  constructor
  · rintro ⟨i, hi, h⟩
    cases hs : a.slots[i]? with
    | none => simp [hs] at h
    | some sl =>
      simp [hs] at h
      obtain ⟨hd, hk⟩ := h
      subst hk
      exact ⟨hi, sl, hs, hd, rfl⟩
  · rintro ⟨hi, sl, hs, hd, hg⟩
    refine ⟨k.index, hi, ?_⟩
    simp [hs, hd]
    cases k; simp_all

namespace Hand
open K.Store

theorem order_nodup {cap : Nat} {held : List Key} {s : Store Res} (h : WF cap held s) : s.arena.order.Nodup := by
  have := h.ownNodup
  simp only [ownIdx, List.nodup_append] at this
  exact this.2.1.2.1

theorem inv_aBegin {ar : Bool} {cap : Nat} {s s' : St} (h : Inv ar cap s)
    (hs : step ar s .aBegin = some (.ok s')) : Inv ar cap s' := by
  obtain ⟨wf, dr, mg, nh, ub⟩ := h
  simp only [step] at hs
  cases ha : s.apc with
  | draining r hnd => simp [ha] at hs
  | adding => simp [ha] at hs
  | idle =>
    simp [ha] at hs; subst hs
    have hnd := order_nodup wf
    refine ⟨by simpa [St.held] using wf, ?_, ?_, ?_, ?_⟩
    · simp [DrainInv, hnd]
    · intro k hk
      right
      simp only [List.mem_map, List.mem_filter] at hk
      obtain ⟨⟨k', x⟩, ⟨hmem, ht⟩, rfl⟩ := hk
      obtain ⟨hi, sl, hsl, hd, hg⟩ := (Arena.mem_iter _ _ _).mp hmem
      refine ⟨_, _, rfl, hi, sl, x, hsl, hg, hd, ?_⟩
      simpa [St.test] using ht
    · simp [St.inHand]
    · simpa [St.pending] using ub

theorem test_of_marked (s : St) (x : Res) (h : x ∈ s.marked) : s.test x = true := by
  simp [St.test, h]

theorem inv_aVisit {ar : Bool} {cap : Nat} {s s' : St} (h : Inv ar cap s)
    (hs : step ar s .aVisit = some (.ok s')) : Inv ar cap s' := by
  obtain ⟨wf, dr, mg, nh, ub⟩ := h
  simp only [step] at hs
  cases ha : s.apc with
  | idle => simp [ha] at hs
  | adding => simp [ha] at hs
  | draining r hnd =>
    cases hnd with
    | some y => simp [ha] at hs
    | none =>
    cases r with
    | nil => simp [ha] at hs
    | cons i rest =>
      simp only [ha] at hs
      simp only [DrainInv, ha] at dr
      obtain ⟨hnd, hall⟩ := dr
      have hi : i ∈ s.store.arena.order := hall i (by simp)
      have spec := wf_drainVisit s.test wf hi
      have hnd' := List.nodup_cons.mp hnd
      cases hv : s.store.drainVisit s.test i with
      | error e => simp [hv, VisitSpec] at spec
      | ok p =>
        obtain ⟨xo, st⟩ := p
        cases xo with
        | none =>
          simp only [hv, VisitSpec] at spec hs
          obtain ⟨rfl, sl, d, hsl, hd, htd⟩ := spec
          simp at hs; subst hs
          refine ⟨by simpa [St.held] using wf, ?_, ?_, ?_, ?_⟩
          · simp only [DrainInv]; exact ⟨hnd'.2, fun j hj => hall j (by simp [hj])⟩
          · intro k hk
            rcases mg k hk with h1 | ⟨r', h', hap, hkr, sl', x', hs', hg', hd', hm'⟩
            · left; exact h1
            · right
              rw [ha] at hap; cases hap
              simp only [List.mem_cons] at hkr
              rcases hkr with hki | hkr
              · exfalso
                rw [hki] at hs'; rw [hsl] at hs'; cases hs'
                rw [hd] at hd'; cases hd'
                rw [test_of_marked s _ hm'] at htd; cases htd
              · exact ⟨_, _, rfl, hkr, sl', x', hs', hg', hd', hm'⟩
          · simp [St.inHand]
          · simpa [St.pending] using ub
        | some x =>
          simp only [hv, VisitSpec] at spec
          obtain ⟨wf', htx, ⟨sl, hsl, hdx⟩, hord, hlen, hn, hu, hdr, hgi, hoth, ⟨sl2, hsl2, hd2⟩⟩ := spec
          have hmg : ∀ st2 : Store Res, st2.ctrl = st.ctrl → st2.arena = st.arena → ∀ hnd2,
              MustGoInv { s with store := st2, apc := .draining rest hnd2 } := by
            intro st2 hc2 ha2 hnd2 k hk
            rcases mg k hk with h1 | ⟨r', h', hap, hkr, sl', x', hs', hg', hd', hm'⟩
            · left
              simp only [St.stale, hc2] at h1 ⊢
              by_cases hki : k.index = i
              · rw [hki, hgi]; rw [hki] at h1; omega
              · rw [(hoth _ hki).1]; exact h1
            · rw [ha] at hap; cases hap
              simp only [List.mem_cons] at hkr
              rcases hkr with hki | hkr
              · left
                simp only [St.stale, hc2]
                rw [hki, hgi]
                have h1 := wf.gens i
                rw [hki] at hs'
                simp [hs', Controller.generation] at h1 ⊢
                cases hcs : s.store.ctrl.slots[i]? with
                | none => simp [hcs] at h1
                | some cs => simp [hcs] at h1 ⊢; omega
              · right
                have hne : k.index ≠ i := by intro e; rw [e] at hkr; exact hnd'.1 hkr
                exact ⟨_, _, rfl, hkr, sl', x', by simpa [ha2, (hoth _ hne).2] using hs', hg', hd', hm'⟩
          have hdr2 : ∀ st2 : Store Res, st2.arena = st.arena → ∀ hnd2,
              DrainInv { s with store := st2, apc := .draining rest hnd2 } := by
            intro st2 ha2 hnd2
            simp only [DrainInv, ha2, hord]
            refine ⟨hnd'.2, fun j hj => ?_⟩
            have hne : j ≠ i := by intro e; rw [e] at hj; exact hnd'.1 hj
            exact (List.mem_erase_of_ne hne).mpr (hall j (by simp [hj]))
          cases ar with
          | false =>
            simp [hv] at hs; subst hs
            exact ⟨by simpa [St.held] using wf', hdr2 st rfl _, hmg st rfl rfl _, by simp, by simp⟩
          | true =>
            simp only [hv, if_true] at hs
            have hub := ub rfl
            have hheld : s.held.length ≥ s.pending := by
              simp only [St.held, St.pending]; cases s.gpc <;> simp
            have hown := wf.ownCount
            have hopos : 0 < s.store.arena.order.length := List.length_pos_of_mem hi
            simp only [ownIdx, List.length_append, List.length_map] at hown
            have hlt : st.unused.items.length < st.unused.cap := by
              rw [hu, wf.ucap]; omega
            obtain ⟨st2, hp⟩ := pushUnused_ok x hlt
            simp [hp] at hs; subst hs
            obtain ⟨wf2, hc2, ha2, hn2, hd2', hit2, _⟩ := wf_pushUnused x wf' hp
            refine ⟨by simpa [St.held] using wf2, hdr2 st2 ha2 _, hmg st2 hc2 ha2 _, by simp [St.inHand], ?_⟩
            intro _
            simp only [hit2, hc2, List.length_append, List.length_cons, List.length_nil, hu, St.pending] at hub ⊢
            omega

theorem inv_aPushUnused {ar : Bool} {cap : Nat} {s s' : St} (h : Inv ar cap s)
    (hs : step ar s .aPushUnused = some (.ok s')) : Inv ar cap s' := by
  obtain ⟨wf, dr, mg, nh, ub⟩ := h
  simp only [step] at hs
  cases ha : s.apc with
  | idle => simp [ha] at hs
  | adding => simp [ha] at hs
  | draining r hnd =>
    cases hnd with
    | none => simp [ha] at hs
    | some x =>
      simp only [ha] at hs
      cases ar with
      | true => have := nh rfl; simp [St.inHand, ha] at this
      | false =>
        cases hp : s.store.pushUnused x with
        | error e => simp [hp] at hs
        | ok st =>
          simp [hp] at hs; subst hs
          obtain ⟨wf2, hc2, ha2, hn2, hd2, hit2, _⟩ := wf_pushUnused x wf hp
          refine ⟨by simpa [St.held] using wf2, ?_, ?_, by simp, by simp⟩
          · simpa [DrainInv, ha, ha2] using dr
          · intro k hk
            rcases mg k hk with h1 | ⟨r', h', hap, hkr, sl', x', hs', hg', hd', hm'⟩
            · left; simpa [St.stale, hc2] using h1
            · right; rw [ha] at hap; cases hap
              exact ⟨_, _, rfl, hkr, sl', x', by simpa [ha2] using hs', hg', hd', hm'⟩

theorem inv_aEndDrain {ar : Bool} {cap : Nat} {s s' : St} (h : Inv ar cap s)
    (hs : step ar s .aEndDrain = some (.ok s')) : Inv ar cap s' := by
  obtain ⟨wf, dr, mg, nh, ub⟩ := h
  simp only [step] at hs
  cases ha : s.apc with
  | idle => simp [ha] at hs
  | adding => simp [ha] at hs
  | draining r hnd =>
    cases hnd with
    | some x => simp [ha] at hs
    | none =>
      cases r with
      | cons i rest => simp [ha] at hs
      | nil =>
        simp [ha] at hs; subst hs
        refine ⟨by simpa [St.held] using wf, by simp [DrainInv], ?_, by simp [St.inHand], by simpa [St.pending] using ub⟩
        intro k hk
        rcases mg k hk with h1 | ⟨r', h', hap, hkr, _⟩
        · left; exact h1
        · rw [ha] at hap; cases hap; simp at hkr

theorem inv_aPopNew {ar : Bool} {cap : Nat} {s s' : St} (h : Inv ar cap s)
    (hs : step ar s .aPopNew = some (.ok s')) : Inv ar cap s' := by
  obtain ⟨wf, dr, mg, nh, ub⟩ := h
  simp only [step] at hs
  cases ha : s.apc with
  | idle => simp [ha] at hs
  | draining r hnd => simp [ha] at hs
  | adding =>
    simp only [ha] at hs
    have spec := wf_popNewInsert wf
    have hmg0 : ∀ k ∈ s.mustGo, s.stale k := by
      intro k hk
      rcases mg k hk with h1 | ⟨r', h', hap, _⟩
      · exact h1
      · rw [ha] at hap; cases hap
    cases hp : s.store.popNewInsert with
    | error e => simp [hp, PopNewSpec] at spec
    | ok p =>
      obtain ⟨ko, st⟩ := p
      cases ko with
      | none =>
        simp only [hp, PopNewSpec] at spec
        obtain ⟨rfl, _⟩ := spec
        simp [hp] at hs; subst hs
        refine ⟨by simpa [St.held] using wf, by simp [DrainInv], fun k hk => Or.inl (hmg0 k hk), by simp [St.inHand],
          by simpa [St.pending] using ub⟩
      | some k =>
        simp only [hp, PopNewSpec] at spec
        obtain ⟨wf', hc, hu, hd, _⟩ := spec
        simp [hp] at hs; subst hs
        refine ⟨by simpa [St.held] using wf', by simp [DrainInv], ?_, by simp [St.inHand], ?_⟩
        · intro k' hk'; left; have := hmg0 k' hk'; simpa [St.stale, hc] using this
        · intro har; have := ub har; simpa [St.pending, hc, hu] using this


theorem inv_step {ar : Bool} {cap : Nat} {s s' : St} {l : Label} (h : Inv ar cap s)
    (hs : step ar s l = some (.ok s')) : Inv ar cap s' := by
  cases l with
  | gReserve => exact inv_gReserve h hs
  | gPopUnused => exact inv_gPopUnused h hs
  | gPushNew => exact inv_gPushNew h hs
  | mark x => exact inv_mark x h hs
  | aBegin => exact inv_aBegin h hs
  | aVisit => exact inv_aVisit h hs
  | aPushUnused => exact inv_aPushUnused h hs
  | aEndDrain => exact inv_aEndDrain h hs
  | aPopNew => exact inv_aPopNew h hs

theorem inv_reachable {ar : Bool} {cap : Nat} (hc : 0 < cap) {s : St} (h : Reachable ar cap s) : Inv ar cap s := by
  induction h with
  | init => exact inv_init ar cap hc
  | step _ hs ih => exact inv_step ih hs

/-- the only panic a reachable state can run into is the unused-ring push of the fine-grained system -/
theorem no_fault {ar : Bool} {cap : Nat} {s : St} {l : Label} {e : SFault} (h : Inv ar cap s)
    (hs : step ar s l = some (.error e)) : ar = false ∧ l = .aPushUnused ∧ e = .queueFull := by
  obtain ⟨wf, dr, mg, nh, ub⟩ := h
  cases l with
  | gReserve =>
    simp only [step] at hs
    cases hg : s.gpc with
    | reserved k => simp [hg] at hs
    | drained k => simp [hg] at hs
    | idle =>
      simp only [hg] at hs
      have hheld : s.held = [] := by simp [St.held, hg]
      rw [hheld] at wf
      have spec := wf_tryReserve wf
      cases hr : s.store.tryReserve with
      | error e => simp [hr, ReserveSpec] at spec
      | ok p =>
        obtain ⟨ko, st⟩ := p
        cases ko <;> simp [hr] at hs
  | gPopUnused =>
    simp only [step] at hs
    cases hg : s.gpc <;> simp [hg] at hs
    cases hp : s.store.popUnused <;> simp [hp] at hs
  | gPushNew =>
    simp only [step] at hs
    cases hg : s.gpc with
    | idle => simp [hg] at hs
    | reserved k => simp [hg] at hs
    | drained k =>
      simp only [hg] at hs
      have hheld : s.held = [k] := by simp [St.held, hg]
      rw [hheld] at wf
      obtain ⟨st, hp, _⟩ := wf_pushNew s.nextId wf
      simp [hp] at hs
  | mark x => simp [step] at hs
  | aBegin =>
    simp only [step] at hs
    cases ha : s.apc <;> simp [ha] at hs
  | aVisit =>
    simp only [step] at hs
    cases ha : s.apc with
    | idle => simp [ha] at hs
    | adding => simp [ha] at hs
    | draining r hnd =>
      cases hnd with
      | some y => simp [ha] at hs
      | none =>
      cases r with
      | nil => simp [ha] at hs
      | cons i rest =>
        simp only [ha] at hs
        simp only [DrainInv, ha] at dr
        obtain ⟨hnd, hall⟩ := dr
        have hi : i ∈ s.store.arena.order := hall i (by simp)
        have spec := wf_drainVisit s.test wf hi
        cases hv : s.store.drainVisit s.test i with
        | error e => simp [hv, VisitSpec] at spec
        | ok p =>
          obtain ⟨xo, st⟩ := p
          cases xo with
          | none => simp [hv] at hs
          | some x =>
            simp only [hv, VisitSpec] at spec
            obtain ⟨wf', htx, ⟨sl, hsl, hdx⟩, hord, hlen, hn, hu, hdr, hgi, hoth, _⟩ := spec
            cases ar with
            | false => simp [hv] at hs
            | true =>
              simp only [hv, if_true] at hs
              have hub := ub rfl
              have hheld : s.held.length ≥ s.pending := by
                simp only [St.held, St.pending]; cases s.gpc <;> simp
              have hown := wf.ownCount
              have hopos : 0 < s.store.arena.order.length := List.length_pos_of_mem hi
              simp only [ownIdx, List.length_append, List.length_map] at hown
              have hlt : st.unused.items.length < st.unused.cap := by
                rw [hu, wf.ucap]; omega
              obtain ⟨st2, hp⟩ := pushUnused_ok x hlt
              simp [hp] at hs
  | aPushUnused =>
    simp only [step] at hs
    cases ha : s.apc with
    | idle => simp [ha] at hs
    | adding => simp [ha] at hs
    | draining r hnd =>
      cases hnd with
      | none => simp [ha] at hs
      | some x =>
        simp only [ha] at hs
        cases ar with
        | true => have := nh rfl; simp [St.inHand, ha] at this
        | false =>
          refine ⟨rfl, rfl, ?_⟩
          cases hp : s.store.pushUnused x with
          | ok st => simp [hp] at hs
          | error e' =>
            simp [hp] at hs; subst hs
            simp only [pushUnused] at hp
            cases hq : s.store.unused.push x <;> simp [hq] at hp
            exact hp.symm
  | aEndDrain =>
    simp only [step] at hs
    cases ha : s.apc with
    | idle => simp [ha] at hs
    | adding => simp [ha] at hs
    | draining r hnd => cases hnd <;> cases r <;> simp [ha] at hs
  | aPopNew =>
    simp only [step] at hs
    cases ha : s.apc with
    | idle => simp [ha] at hs
    | draining r hnd => simp [ha] at hs
    | adding =>
      simp only [ha] at hs
      have spec := wf_popNewInsert wf
      cases hp : s.store.popNewInsert with
      | error e => simp [hp, PopNewSpec] at spec
      | ok p =>
        obtain ⟨ko, st⟩ := p
        cases ko <;> simp [hp] at hs

end Hand

variable {τ : Type}

theorem filterMap_length_of_all {α β : Type} (f : α → Option β) (l : List α) (h : ∀ a ∈ l, (f a).isSome = true) :
    (l.filterMap f).length = l.length := by
  induction l with
  | nil => rfl
  | cons a t ih =>
    have ha := h a (by simp)
    cases hf : f a with
    | none => simp [hf] at ha
    | some b =>
      rw [List.filterMap_cons_some hf]
      simp [ih (fun x hx => h x (by simp [hx]))]

theorem Arena.mem_iter_snd (a : Arena τ) (x : τ) :
    x ∈ a.iter.map (·.2) ↔ ∃ i ∈ a.order, ∃ sl, a.slots[i]? = some sl ∧ sl.data = some x := by
  simp only [List.mem_map]
  constructor
  · rintro ⟨⟨k, y⟩, hm, rfl⟩
    obtain ⟨hi, sl, hsl, hd, _⟩ := (Arena.mem_iter a k y).mp hm
    exact ⟨k.index, hi, sl, hsl, hd⟩
  · rintro ⟨i, hi, sl, hsl, hd⟩
    exact ⟨(⟨i, sl.generation⟩, x), (Arena.mem_iter a _ _).mpr ⟨hi, sl, hsl, hd, rfl⟩, rfl⟩

theorem Store.iter_length {cap : Nat} {held : List Key} {s : Store τ} (h : Store.WF cap held s) :
    s.arena.iter.length = s.arena.order.length := by
  unfold Arena.iter
  apply filterMap_length_of_all
  intro i hi
  obtain ⟨sl, hsl, hd⟩ := (h.occ i).mp hi
  simp only [hsl]
  cases hdd : sl.data with
  | none => simp [hdd] at hd
  | some d => simp

theorem Store.stale_get? {cap : Nat} {held : List Key} {s : Store τ} (h : Store.WF cap held s) (k : Key)
    (hst : k.generation < s.ctrl.generation k.index) : s.arena.get? k = none := by
  have hg := h.gens k.index
  simp only [Arena.get?]
  cases hsl : s.arena.slots[k.index]? with
  | none => rfl
  | some sl =>
    simp only [hsl, Controller.generation] at hg hst ⊢
    cases hc : s.ctrl.slots[k.index]? with
    | none => simp [hc] at hg
    | some c =>
      simp [hc] at hg hst
      have : sl.generation ≠ k.generation := by omega
      simp [this]

namespace Hand
open K.Store

/-- what any single step does, beyond preserving the invariant -/
structure StepFacts (l : Label) (s s' : St) : Prop where
  /-- slot generations never decrease -/
  genMono : ∀ j, s.store.ctrl.generation j ≤ s'.store.ctrl.generation j
  /-- a key that stops resolving is stale from then on -/
  lost : ∀ k x, s.store.arena.get? k = some x → s'.store.arena.get? k = none → s'.stale k
  /-- audio-thread steps neither create nor destroy resource objects -/
  objLen : l.isAudio = true → s'.objects.length = s.objects.length
  objMem : l.isAudio = true → ∀ x, x ∈ s'.objects ↔ x ∈ s.objects
  /-- resources are destroyed only by the gameplay thread's pop of the unused ring -/
  dropped : s'.store.dropped = s.store.dropped ∨
    (l = .gPopUnused ∧ ∃ x, s'.store.dropped = s.store.dropped ++ [x] ∧ s.store.unused.items = x :: s'.store.unused.items)

theorem facts_same {l : Label} {s s' : St} (hc : s'.store.ctrl = s.store.ctrl) (ha : s'.store.arena = s.store.arena)
    (hd : s'.store.dropped = s.store.dropped)
    (hobj : l.isAudio = true → s'.objects = s.objects) : StepFacts l s s' := by
  refine ⟨by simp [hc], ?_, ?_, ?_, Or.inl hd⟩
  · intro k x h1 h2; rw [ha, h1] at h2; cases h2
  · intro h; rw [hobj h]
  · intro h x; rw [hobj h]

theorem step_facts {ar : Bool} {cap : Nat} {s s' : St} {l : Label} (h : Inv ar cap s)
    (hs : step ar s l = some (.ok s')) : StepFacts l s s' := by
  have h' := inv_step h hs
  obtain ⟨wf, dr, mg, nh, ub⟩ := h
  cases l with
  | gReserve =>
    simp only [step] at hs
    cases hg : s.gpc with
    | reserved k => simp [hg] at hs
    | drained k => simp [hg] at hs
    | idle =>
      simp only [hg] at hs
      have hheld : s.held = [] := by simp [St.held, hg]
      rw [hheld] at wf
      have spec := wf_tryReserve wf
      cases hr : s.store.tryReserve with
      | error e => simp [hr, ReserveSpec] at spec
      | ok p =>
        obtain ⟨ko, st⟩ := p
        cases ko with
        | none =>
          simp only [hr, ReserveSpec] at spec hs
          obtain ⟨rfl, _⟩ := spec
          simp at hs; subst hs
          exact facts_same rfl rfl rfl (by simp [Label.isAudio])
        | some k =>
          simp only [hr, ReserveSpec] at spec hs
          simp at hs; subst hs
          obtain ⟨wf', hlt, hlen, hk, hkg, hgen, ha, hn, hu, hd, hnot⟩ := spec
          refine ⟨fun j => by simp [hgen], ?_, by simp [Label.isAudio], by simp [Label.isAudio], Or.inl hd⟩
          intro k x h1 h2; simp only [ha] at h2; rw [h1] at h2; cases h2
  | gPopUnused =>
    simp only [step] at hs
    cases hg : s.gpc with
    | idle => simp [hg] at hs
    | drained k => simp [hg] at hs
    | reserved k =>
      simp only [hg] at hs
      cases hp : s.store.popUnused with
      | none =>
        simp [hp] at hs; subst hs
        exact facts_same rfl rfl rfl (by simp [Label.isAudio])
      | some st =>
        simp [hp] at hs; subst hs
        cases hit : s.store.unused.items with
        | nil => simp [popUnused, Ring.pop, hit] at hp
        | cons x r =>
          simp [popUnused, Ring.pop, hit] at hp
          subst hp
          refine ⟨by simp, ?_, by simp [Label.isAudio], by simp [Label.isAudio], Or.inr ⟨rfl, x, rfl, by simp [hit]⟩⟩
          intro k y h1 h2; simp only [] at h2; rw [h1] at h2; cases h2
  | gPushNew =>
    simp only [step] at hs
    cases hg : s.gpc with
    | idle => simp [hg] at hs
    | reserved k => simp [hg] at hs
    | drained k =>
      simp only [hg] at hs
      have hheld : s.held = [k] := by simp [St.held, hg]
      rw [hheld] at wf
      obtain ⟨st, hp, wf', hc, ha, hu, hd, hn⟩ := wf_pushNew s.nextId wf
      simp [hp] at hs; subst hs
      exact facts_same hc ha hd (by simp [Label.isAudio])
  | mark x =>
    simp [step] at hs; subst hs
    exact facts_same rfl rfl rfl (by simp [Label.isAudio])
  | aBegin =>
    simp only [step] at hs
    cases ha : s.apc with
    | draining r hnd => simp [ha] at hs
    | adding => simp [ha] at hs
    | idle =>
      simp [ha] at hs; subst hs
      exact facts_same rfl rfl rfl (by intro _; simp [St.objects, St.inHand, ha])
  | aEndDrain =>
    simp only [step] at hs
    cases ha : s.apc with
    | idle => simp [ha] at hs
    | adding => simp [ha] at hs
    | draining r hnd =>
      cases hnd with
      | some x => simp [ha] at hs
      | none =>
        cases r with
        | cons i rest => simp [ha] at hs
        | nil =>
          simp [ha] at hs; subst hs
          exact facts_same rfl rfl rfl (by intro _; simp [St.objects, St.inHand, ha])
  | aPushUnused =>
    simp only [step] at hs
    cases ha : s.apc with
    | idle => simp [ha] at hs
    | adding => simp [ha] at hs
    | draining r hnd =>
      cases hnd with
      | none => simp [ha] at hs
      | some x =>
        simp only [ha] at hs
        cases hp : s.store.pushUnused x with
        | error e => simp [hp] at hs
        | ok st =>
          simp [hp] at hs; subst hs
          obtain ⟨wf2, hc2, ha2, hn2, hd2, hit2, _⟩ := wf_pushUnused x wf hp
          refine ⟨by simp [hc2], ?_, ?_, ?_, Or.inl hd2⟩
          · intro k y h1 h2; simp only [ha2] at h2; rw [h1] at h2; cases h2
          · intro _; simp [St.objects, St.inHand, ha, Store.objects, ha2, hn2, hit2]; omega
          · intro _ y; simp [St.objects, St.inHand, ha, Store.objects, ha2, hn2, hit2]; grind
  | aVisit =>
    simp only [step] at hs
    cases ha : s.apc with
    | idle => simp [ha] at hs
    | adding => simp [ha] at hs
    | draining r hnd =>
      cases hnd with
      | some y => simp [ha] at hs
      | none =>
      cases r with
      | nil => simp [ha] at hs
      | cons i rest =>
        simp only [ha] at hs
        simp only [DrainInv, ha] at dr
        obtain ⟨hnd, hall⟩ := dr
        have hi : i ∈ s.store.arena.order := hall i (by simp)
        have spec := wf_drainVisit s.test wf hi
        cases hv : s.store.drainVisit s.test i with
        | error e => simp [hv, VisitSpec] at spec
        | ok p =>
          obtain ⟨xo, st⟩ := p
          cases xo with
          | none =>
            simp only [hv, VisitSpec] at spec hs
            obtain ⟨rfl, _⟩ := spec
            simp at hs; subst hs
            exact facts_same rfl rfl rfl (by intro _; simp [St.objects, St.inHand, ha])
          | some x =>
            simp only [hv, VisitSpec] at spec
            obtain ⟨wf', htx, ⟨sl, hsl, hdx⟩, hord, hlen, hn, hu, hdr, hgi, hoth, ⟨sl2, hsl2, hd2⟩⟩ := spec
            have hond := order_nodup wf
            have hil := iter_length wf
            have hil' := iter_length wf'
            have hel : (s.store.arena.order.erase i).length + 1 = s.store.arena.order.length := by
              rw [List.length_erase_of_mem hi]; have := List.length_pos_of_mem hi; omega
            have hgm : ∀ j, s.store.ctrl.generation j ≤ st.ctrl.generation j := by
              intro j; by_cases hj : j = i
              · rw [hj, hgi]; omega
              · rw [(hoth j hj).1]; exact Nat.le_refl _
            have hlost : ∀ k y, s.store.arena.get? k = some y → st.arena.get? k = none →
                k.generation < st.ctrl.generation k.index := by
              intro k y h1 h2
              by_cases hk : k.index = i
              · rw [hk, hgi]
                have hg := wf.gens i
                simp only [Arena.get?, hk, hsl] at h1
                split at h1
                · cases h1
                · rename_i hge
                  simp only [hsl, Controller.generation] at hg ⊢
                  cases hc : s.store.ctrl.slots[i]? with
                  | none => simp [hc] at hg
                  | some c => simp [hc] at hg ⊢; simp at hge; omega
              · simp only [Arena.get?, (hoth _ hk).2] at h1 h2; rw [h1] at h2; cases h2
            have hmem : ∀ y, y ∈ st.arena.iter.map (·.2) ∨ y = x ↔ y ∈ s.store.arena.iter.map (·.2) := by
              intro y
              rw [Arena.mem_iter_snd, Arena.mem_iter_snd, hord]
              constructor
              · rintro (⟨j, hj, slj, hslj, hdj⟩ | rfl)
                · have hj' := (hond.mem_erase_iff).mp hj
                  exact ⟨j, hj'.2, slj, by rw [← (hoth j hj'.1).2]; exact hslj, hdj⟩
                · exact ⟨i, hi, sl, hsl, hdx⟩
              · rintro ⟨j, hj, slj, hslj, hdj⟩
                by_cases hji : j = i
                · right; subst hji; rw [hsl] at hslj; cases hslj; rw [hdx] at hdj; cases hdj; rfl
                · left; exact ⟨j, (hond.mem_erase_iff).mpr ⟨hji, hj⟩, slj, by rw [(hoth j hji).2]; exact hslj, hdj⟩
            cases ar with
            | false =>
              simp [hv] at hs; subst hs
              refine ⟨hgm, hlost, ?_, ?_, Or.inl hdr⟩
              · intro _
                simp only [St.objects, St.inHand, ha, Store.objects, hn, hu, List.length_append, List.length_map,
                  List.length_cons, List.length_nil, hil, hil', hord]
                omega
              · intro _ y
                have := hmem y
                simp only [St.objects, St.inHand, ha, Store.objects, hn, hu, List.mem_append, List.mem_cons,
                  List.not_mem_nil, or_false, false_or]
                grind
            | true =>
              simp only [hv, if_true] at hs
              cases hp : st.pushUnused x with
              | error e => simp [hp] at hs
              | ok st2 =>
                simp [hp] at hs; subst hs
                obtain ⟨wf2, hc2, ha2, hn2, hd2', hit2, _⟩ := wf_pushUnused x wf' hp
                refine ⟨by simpa [hc2] using hgm, by simpa [St.stale, hc2, ha2] using hlost, ?_, ?_,
                  Or.inl (by simp [hd2', hdr])⟩
                · intro _
                  simp only [St.objects, St.inHand, ha, Store.objects, hn, hu, hn2, ha2, hit2, List.length_append,
                    List.length_map, List.length_cons, List.length_nil, hil, hil', hord]
                  omega
                · intro _ y
                  have := hmem y
                  simp only [St.objects, St.inHand, ha, Store.objects, hn, hu, hn2, ha2, hit2, List.mem_append,
                    List.mem_cons, List.not_mem_nil, or_false, false_or]
                  grind
  | aPopNew =>
    simp only [step] at hs
    cases ha : s.apc with
    | idle => simp [ha] at hs
    | draining r hnd => simp [ha] at hs
    | adding =>
      simp only [ha] at hs
      have spec := wf_popNewInsert wf
      cases hp : s.store.popNewInsert with
      | error e => simp [hp, PopNewSpec] at spec
      | ok p =>
        obtain ⟨ko, st⟩ := p
        cases ko with
        | none =>
          simp only [hp, PopNewSpec] at spec
          obtain ⟨rfl, _⟩ := spec
          simp [hp] at hs; subst hs
          exact facts_same rfl rfl rfl (by intro _; simp [St.objects, St.inHand, ha])
        | some k =>
          simp only [hp, PopNewSpec] at spec
          obtain ⟨wf', hc, hu, hd, hord, x, rest, hit, hit', hslk, hoth, hbefore⟩ := spec
          simp [hp] at hs; subst hs
          have hil := iter_length wf
          have hil' := iter_length wf'
          have hknot : k.index ∉ s.store.arena.order := by
            intro hmem
            obtain ⟨sl, hsl, hd⟩ := (wf.occ _).mp hmem
            rw [hbefore] at hsl; cases hsl; simp at hd
          refine ⟨by simp [hc], ?_, ?_, ?_, Or.inl hd⟩
          · intro k' y h1 h2
            by_cases hk : k'.index = k.index
            · simp only [Arena.get?, hk, hbefore] at h1; split at h1 <;> cases h1
            · simp only [Arena.get?, hoth _ hk] at h1 h2; rw [h1] at h2; cases h2
          · intro _
            simp only [St.objects, St.inHand, ha, Store.objects, hu, hit, hit', List.length_append, List.length_map,
              List.length_cons, hil, hil', hord]
            omega
          · intro _ y
            have hmem : y ∈ st.arena.iter.map (·.2) ↔ y = x ∨ y ∈ s.store.arena.iter.map (·.2) := by
              rw [Arena.mem_iter_snd, Arena.mem_iter_snd, hord]
              constructor
              · rintro ⟨j, hj, slj, hslj, hdj⟩
                by_cases hjk : j = k.index
                · left; subst hjk; rw [hslk] at hslj; cases hslj; simp at hdj; exact hdj.symm
                · right
                  simp only [List.mem_cons] at hj
                  rcases hj with hj | hj
                  · exact absurd hj hjk
                  · exact ⟨j, hj, slj, by rw [← hoth j hjk]; exact hslj, hdj⟩
              · rintro (rfl | ⟨j, hj, slj, hslj, hdj⟩)
                · exact ⟨k.index, by simp, _, hslk, rfl⟩
                · have hjk : j ≠ k.index := by intro e; rw [e] at hj; exact hknot hj
                  exact ⟨j, by simp [hj], slj, by rw [hoth j hjk]; exact hslj, hdj⟩
            simp only [St.objects, St.inHand, ha, Store.objects, hu, hit, hit', List.mem_append, List.mem_cons,
              List.map_cons, List.not_mem_nil, false_or]
            grind

end Hand
open Hand Store

/-- the resources in the arena whose handle is still alive / that are doomed (flag set, not yet removed) -/
def Hand.St.alive (s : St) : Nat := s.store.arena.iter.countP (fun p => !s.test p.2)
def Hand.St.doomed (s : St) : Nat := s.store.arena.iter.countP (fun p => s.test p.2)

/-- the interleaving that overflows the unused ring of a capacity-1 storage (three callbacks) -/
def Hand.overflowWitness : List Label :=
  [ .gReserve, .gPopUnused, .gPushNew,            -- create A
    .aBegin, .aEndDrain, .aPopNew, .aPopNew,      -- callback 1: A enters the arena
    .mark 0,                                      -- A's handle is dropped
    .aBegin, .aVisit,                             -- callback 2: A is taken out of the arena, its slot is free …
    .gReserve, .gPopUnused,                       -- … the gameplay thread reserves that slot and finds the unused ring empty …
    .aPushUnused, .aEndDrain,                     -- … only now is A pushed onto the unused ring
    .gPushNew,                                    -- B is shipped
    .aPopNew, .aPopNew,                           -- B enters the arena (still callback 2)
    .mark 1,                                      -- B's handle is dropped; nothing is created any more
    .aBegin, .aVisit, .aPushUnused ]              -- callback 3: B is removed; the ring (capacity 1) still holds A

/-- runs of the protocol: any number of steps from `s` to `s'` -/
inductive Hand.Steps (ar : Bool) : St → St → Prop where
  | refl (s : St) : Steps ar s s
  | tail {s s' s'' : St} {l : Label} : Steps ar s s' → step ar s' l = some (.ok s'') → Steps ar s s''

theorem Hand.Steps.reachable {ar : Bool} {cap : Nat} {s s' : St} (h : Reachable ar cap s) (hs : Steps ar s s') :
    Reachable ar cap s' := by
  induction hs with
  | refl => exact h
  | tail _ hst ih => exact Reachable.step ih hst

theorem Hand.run_reachable {ar : Bool} {cap : Nat} {s s' : St} (h : Reachable ar cap s) (ls : List Label)
    (hr : run ar s ls = .ok s') : Reachable ar cap s' := by
  induction ls generalizing s with
  | nil => simp [run] at hr; subst hr; exact h
  | cons l ls ih =>
    simp only [run] at hr
    cases hst : step ar s l with
    | none => simp [hst] at hr; exact ih h hr
    | some r =>
      cases r with
      | error e => simp [hst] at hr
      | ok s1 => simp [hst] at hr; exact ih (Reachable.step h hst) hr

def Hand.finalOf (r : Except SFault St) : St := match r with | .ok s => s | .error _ => init 0
def Hand.isOk (r : Except SFault St) : Bool := match r with | .ok _ => true | .error _ => false
theorem Hand.ok_of_isOk {r : Except SFault St} (h : isOk r = true) : r = .ok (finalOf r) := by
  cases r <;> simp_all [isOk, finalOf]

/-! ### capacity 0: nothing can ever be created -/

/-- what every state of a capacity-0 storage looks like: the store is the empty initial store, no
    creation is in flight, the audio thread's loops run over nothing -/
structure Hand.Zero (s : St) : Prop where
  store : s.store = Store.new 0
  gpc : s.gpc = .idle
  apc : s.apc = .idle ∨ s.apc = .draining [] none ∨ s.apc = .adding
  mustGo : s.mustGo = []

theorem Hand.zero_init : Zero (init 0) := ⟨rfl, rfl, .inl rfl, rfl⟩

/-- `try_reserve` on the capacity-0 store: the limit error, store unchanged, no panic -/
theorem Store.tryReserve_new_zero {τ : Type} : (Store.new 0 : Store τ).tryReserve = .ok (none, Store.new 0) := rfl

theorem Hand.zero_step {ar : Bool} {s s' : St} {l : Label} (h : Zero s) (hs : step ar s l = some (.ok s')) : Zero s' := by
  obtain ⟨store, marked, gpc, apc, nextId, mustGo⟩ := s
  obtain ⟨h1, h2, h3, h4⟩ := h
  simp only at h1 h2 h3 h4
  subst h1 h2 h4
  cases l with
  | gReserve =>
    simp only [step, Store.tryReserve_new_zero, Option.some.injEq, Except.ok.injEq] at hs
    subst hs; exact ⟨rfl, rfl, h3, rfl⟩
  | gPopUnused => simp [step] at hs
  | gPushNew => simp [step] at hs
  | mark x =>
    simp only [step, Option.some.injEq, Except.ok.injEq] at hs
    subst hs; exact ⟨rfl, rfl, h3, rfl⟩
  | aBegin =>
    rcases h3 with h3 | h3 | h3 <;> subst h3 <;> simp only [step, reduceCtorEq] at hs
    simp only [Option.some.injEq, Except.ok.injEq] at hs
    subst hs; exact ⟨rfl, rfl, .inr (.inl rfl), rfl⟩
  | aVisit => rcases h3 with h3 | h3 | h3 <;> subst h3 <;> simp [step] at hs
  | aPushUnused => rcases h3 with h3 | h3 | h3 <;> subst h3 <;> simp [step] at hs
  | aEndDrain =>
    rcases h3 with h3 | h3 | h3 <;> subst h3 <;> simp only [step, reduceCtorEq] at hs
    simp only [Option.some.injEq, Except.ok.injEq] at hs
    subst hs; exact ⟨rfl, rfl, .inr (.inr rfl), rfl⟩
  | aPopNew =>
    rcases h3 with h3 | h3 | h3 <;> subst h3 <;> simp only [step, reduceCtorEq] at hs
    have hp : (Store.new 0 : Store Res).popNewInsert = .ok (none, Store.new 0) := rfl
    simp only [hp, Option.some.injEq, Except.ok.injEq] at hs
    subst hs; exact ⟨rfl, rfl, .inl rfl, rfl⟩

theorem Hand.zero_reachable {ar : Bool} {s : St} (h : Reachable ar 0 s) : Zero s := by
  induction h with
  | init => exact zero_init
  | step _ hs ih => exact zero_step ih hs

/-- no step of a capacity-0 storage panics -/
theorem Hand.zero_no_fault {ar : Bool} {s : St} (h : Zero s) (l : Label) (e : SFault) :
    step ar s l ≠ some (.error e) := by
  obtain ⟨store, marked, gpc, apc, nextId, mustGo⟩ := s
  obtain ⟨h1, h2, h3, h4⟩ := h
  simp only at h1 h2 h3 h4
  subst h1 h2 h4
  have hp : (Store.new 0 : Store Res).popNewInsert = .ok (none, Store.new 0) := rfl
  cases l <;> rcases h3 with h3 | h3 | h3 <;> subst h3 <;> simp [step, Store.tryReserve_new_zero, hp]


end K
