/-
  Proofs/HandLemmas.lean — the inductive invariant of the resource handshake LTS
  (Model/Conc/ResourceHandshake.lean).  Core Lean only.
-/
import KiraModel.Proofs.StoreLemmas

namespace K.Hand
open K.Store

/-- 1 while the gameplay thread has reserved a key but has not yet seen the unused ring empty -/
def St.pending (s : St) : Nat :=
  match s.gpc with
  | .reserved _ => 1
  | _ => 0

/-- a key whose slot has been freed since the key was issued -/
def St.stale (s : St) (k : Key) : Prop := k.generation < s.store.ctrl.generation k.index

/-- the drain iterator only holds slots that are still occupied, each once -/
def DrainInv (s : St) : Prop :=
  match s.apc with
  | .draining rest _ => rest.Nodup ∧ ∀ i ∈ rest, i ∈ s.store.arena.order
  | _ => True

/-- every key that must go in this callback is either gone already or still ahead of the iterator -/
def MustGoInv (s : St) : Prop :=
  ∀ k ∈ s.mustGo, s.stale k ∨
    ∃ rest hand, s.apc = .draining rest hand ∧ k.index ∈ rest
      ∧ ∃ sl x, s.store.arena.slots[k.index]? = some sl ∧ sl.generation = k.generation ∧ sl.data = some x
          ∧ x ∈ s.marked

structure Inv (ar : Bool) (cap : Nat) (s : St) : Prop where
  wf : WF cap s.held s.store
  drain : DrainInv s
  mustGo : MustGoInv s
  /-- at the coarse granularity nothing is ever in the audio thread's hands between steps -/
  noHand : ar = true → s.inHand = []
  /-- at the coarse granularity the unused ring never holds more than the free slots (+ a pending drain) -/
  unusedBound : ar = true → s.store.unused.items.length + s.store.ctrl.len ≤ cap + s.pending

theorem inv_init (ar : Bool) (cap : Nat) (h : 0 < cap) : Inv ar cap (init cap) := by
  refine ⟨wf_new cap h, trivial, by simp [MustGoInv, init], by simp [St.inHand, init], ?_⟩
  intro _
  simp [init, Store.new, Ring.new, Controller.new, Controller.len, List.countP_replicate, St.pending]

theorem len_le {cap : Nat} {held : List Key} {s : Store Res} (h : WF cap held s) : s.ctrl.len ≤ cap := by
  have := h.count; omega

theorem inv_gReserve {ar : Bool} {cap : Nat} {s s' : St} (h : Inv ar cap s)
    (hs : step ar s .gReserve = some (.ok s')) : Inv ar cap s' := by
  obtain ⟨wf, dr, mg, nh, ub⟩ := h
  simp only [step] at hs
  cases hg : s.gpc with
  | reserved k => simp [hg] at hs
  | drained k => simp [hg] at hs
  | idle =>
    simp only [hg] at hs
    have hheld : s.held = [] := by simp [St.held, hg]
    rw [hheld] at wf
    have spec := wf_tryReserve wf
    cases hr : s.store.tryReserve with
    | error e => simp [hr, ReserveSpec] at spec
    | ok p =>
      obtain ⟨ko, st⟩ := p
      cases ko with
      | none =>
        simp only [hr, ReserveSpec] at spec hs
        obtain ⟨rfl, _⟩ := spec
        simp at hs; subst hs
        refine ⟨by simpa [St.held, hg] using wf, ?_, ?_, ?_, ?_⟩ <;>
          simp only [DrainInv, MustGoInv, St.stale, St.inHand, St.pending, St.held, hg] at * <;> grind
      | some k =>
        simp only [hr, ReserveSpec] at spec hs
        simp at hs; subst hs
        obtain ⟨wf', hlt, hlen, hk, hkg, hgen, ha, hn, hu, hd, hnot⟩ := spec
        refine ⟨by simpa [St.held] using wf', ?_, ?_, ?_, ?_⟩
        · simp only [DrainInv] at dr ⊢; simpa [ha] using dr
        · intro k' hk'
          rcases mg k' hk' with h1 | h1
          · left; simp only [St.stale] at h1 ⊢; rw [hgen]; exact h1
          · right; simpa [ha] using h1
        · simpa [St.inHand] using nh
        · intro har; have := ub har
          simp only [St.pending, hg, hu, hlen] at this ⊢; omega

theorem inv_gPopUnused {ar : Bool} {cap : Nat} {s s' : St} (h : Inv ar cap s)
    (hs : step ar s .gPopUnused = some (.ok s')) : Inv ar cap s' := by
  obtain ⟨wf, dr, mg, nh, ub⟩ := h
  simp only [step] at hs
  cases hg : s.gpc with
  | idle => simp [hg] at hs
  | drained k => simp [hg] at hs
  | reserved k =>
    simp only [hg] at hs
    have hheld : s.held = [k] := by simp [St.held, hg]
    rw [hheld] at wf
    cases hp : s.store.popUnused with
    | some st =>
      simp [hp] at hs; subst hs
      obtain ⟨wf', hc, ha, hn, hl⟩ := wf_popUnused wf hp
      refine ⟨by simpa [St.held, hg] using wf', ?_, ?_, ?_, ?_⟩ <;>
        simp only [DrainInv, MustGoInv, St.stale, St.inHand, St.pending, St.held, hg, hc, ha, hn] at * <;> grind
    | none =>
      simp [hp] at hs; subst hs
      have he := popUnused_none hp
      have hle := len_le wf
      refine ⟨by simpa [St.held, hg] using wf, ?_, ?_, ?_, ?_⟩ <;>
        simp only [DrainInv, MustGoInv, St.stale, St.inHand, St.pending, St.held, hg, he] at * <;> grind

theorem inv_gPushNew {ar : Bool} {cap : Nat} {s s' : St} (h : Inv ar cap s)
    (hs : step ar s .gPushNew = some (.ok s')) : Inv ar cap s' := by
  obtain ⟨wf, dr, mg, nh, ub⟩ := h
  simp only [step] at hs
  cases hg : s.gpc with
  | idle => simp [hg] at hs
  | reserved k => simp [hg] at hs
  | drained k =>
    simp only [hg] at hs
    have hheld : s.held = [k] := by simp [St.held, hg]
    rw [hheld] at wf
    obtain ⟨st, hp, wf', hc, ha, hu, hd, hn⟩ := wf_pushNew s.nextId wf
    simp [hp] at hs; subst hs
    refine ⟨by simpa [St.held, hg] using wf', ?_, ?_, ?_, ?_⟩ <;>
      simp only [DrainInv, MustGoInv, St.stale, St.inHand, St.pending, St.held, hg, hc, ha, hu] at * <;> grind

theorem gPushNew_ok {ar : Bool} {cap : Nat} {s : St} (h : Inv ar cap s) (k : Key) (hg : s.gpc = .drained k) :
    ∃ s', step ar s .gPushNew = some (.ok s') := by
  have wf := h.wf
  have hheld : s.held = [k] := by simp [St.held, hg]
  rw [hheld] at wf
  obtain ⟨st, hp, _⟩ := wf_pushNew s.nextId wf
  simp [step, hg, hp]

theorem inv_mark {ar : Bool} {cap : Nat} {s s' : St} (x : Res) (h : Inv ar cap s)
    (hs : step ar s (.mark x) = some (.ok s')) : Inv ar cap s' := by
  obtain ⟨wf, dr, mg, nh, ub⟩ := h
  simp [step] at hs; subst hs
  refine ⟨by simpa [St.held] using wf, ?_, ?_, ?_, ?_⟩ <;>
      simp only [DrainInv, MustGoInv, St.stale, St.inHand, St.pending, St.held] at * <;> grind

end K.Hand

namespace K
theorem Arena.mem_iter {τ : Type} (a : Arena τ) (k : Key) (x : τ) :
    (k, x) ∈ a.iter ↔ k.index ∈ a.order ∧ ∃ sl, a.slots[k.index]? = some sl ∧ sl.data = some x
      ∧ sl.generation = k.generation := by
  simp only [Arena.iter, List.mem_filterMap]
  constructor
  · rintro ⟨i, hi, h⟩
    cases hs : a.slots[i]? with
    | none => simp [hs] at h
    | some sl =>
      simp [hs] at h
      obtain ⟨hd, hk⟩ := h
      subst hk
      exact ⟨hi, sl, hs, hd, rfl⟩
  · rintro ⟨hi, sl, hs, hd, hg⟩
    refine ⟨k.index, hi, ?_⟩
    simp [hs, hd]
    cases k; simp_all

namespace Hand
open K.Store

theorem order_nodup {cap : Nat} {held : List Key} {s : Store Res} (h : WF cap held s) : s.arena.order.Nodup := by
  have := h.ownNodup
  simp only [ownIdx, List.nodup_append] at this
  exact this.2.1.2.1

theorem inv_aBegin {ar : Bool} {cap : Nat} {s s' : St} (h : Inv ar cap s)
    (hs : step ar s .aBegin = some (.ok s')) : Inv ar cap s' := by
  obtain ⟨wf, dr, mg, nh, ub⟩ := h
  simp only [step] at hs
  cases ha : s.apc with
  | draining r hnd => simp [ha] at hs
  | adding => simp [ha] at hs
  | idle =>
    simp [ha] at hs; subst hs
    have hnd := order_nodup wf
    refine ⟨by simpa [St.held] using wf, ?_, ?_, ?_, ?_⟩
    · simp [DrainInv, hnd]
    · intro k hk
      right
      simp only [List.mem_map, List.mem_filter] at hk
      obtain ⟨⟨k', x⟩, ⟨hmem, ht⟩, rfl⟩ := hk
      obtain ⟨hi, sl, hsl, hd, hg⟩ := (Arena.mem_iter _ _ _).mp hmem
      refine ⟨_, _, rfl, hi, sl, x, hsl, hg, hd, ?_⟩
      simpa [St.test] using ht
    · simp [St.inHand]
    · simpa [St.pending] using ub

theorem test_of_marked (s : St) (x : Res) (h : x ∈ s.marked) : s.test x = true := by
  simp [St.test, h]

theorem inv_aVisit {ar : Bool} {cap : Nat} {s s' : St} (h : Inv ar cap s)
    (hs : step ar s .aVisit = some (.ok s')) : Inv ar cap s' := by
  obtain ⟨wf, dr, mg, nh, ub⟩ := h
  simp only [step] at hs
  cases ha : s.apc with
  | idle => simp [ha] at hs
  | adding => simp [ha] at hs
  | draining r hnd =>
    cases hnd with
    | some y => simp [ha] at hs
    | none =>
    cases r with
    | nil => simp [ha] at hs
    | cons i rest =>
      simp only [ha] at hs
      simp only [DrainInv, ha] at dr
      obtain ⟨hnd, hall⟩ := dr
      have hi : i ∈ s.store.arena.order := hall i (by simp)
      have spec := wf_drainVisit s.test wf hi
      have hnd' := List.nodup_cons.mp hnd
      cases hv : s.store.drainVisit s.test i with
      | error e => simp [hv, VisitSpec] at spec
      | ok p =>
        obtain ⟨xo, st⟩ := p
        cases xo with
        | none =>
          simp only [hv, VisitSpec] at spec hs
          obtain ⟨rfl, sl, d, hsl, hd, htd⟩ := spec
          simp at hs; subst hs
          refine ⟨by simpa [St.held] using wf, ?_, ?_, ?_, ?_⟩
          · simp only [DrainInv]; exact ⟨hnd'.2, fun j hj => hall j (by simp [hj])⟩
          · intro k hk
            rcases mg k hk with h1 | ⟨r', h', hap, hkr, sl', x', hs', hg', hd', hm'⟩
            · left; exact h1
            · right
              rw [ha] at hap; cases hap
              simp only [List.mem_cons] at hkr
              rcases hkr with hki | hkr
              · exfalso
                rw [hki] at hs'; rw [hsl] at hs'; cases hs'
                rw [hd] at hd'; cases hd'
                rw [test_of_marked s _ hm'] at htd; cases htd
              · exact ⟨_, _, rfl, hkr, sl', x', hs', hg', hd', hm'⟩
          · simp [St.inHand]
          · simpa [St.pending] using ub
        | some x =>
          simp only [hv, VisitSpec] at spec
          obtain ⟨wf', htx, ⟨sl, hsl, hdx⟩, hord, hlen, hn, hu, hdr, hgi, hoth, ⟨sl2, hsl2, hd2⟩⟩ := spec
          have hmg : ∀ st2 : Store Res, st2.ctrl = st.ctrl → st2.arena = st.arena → ∀ hnd2,
              MustGoInv { s with store := st2, apc := .draining rest hnd2 } := by
            intro st2 hc2 ha2 hnd2 k hk
            rcases mg k hk with h1 | ⟨r', h', hap, hkr, sl', x', hs', hg', hd', hm'⟩
            · left
              simp only [St.stale, hc2] at h1 ⊢
              by_cases hki : k.index = i
              · rw [hki, hgi]; rw [hki] at h1; omega
              · rw [(hoth _ hki).1]; exact h1
            · rw [ha] at hap; cases hap
              simp only [List.mem_cons] at hkr
              rcases hkr with hki | hkr
              · left
                simp only [St.stale, hc2]
                rw [hki, hgi]
                have h1 := wf.gens i
                rw [hki] at hs'
                simp [hs', Controller.generation] at h1 ⊢
                cases hcs : s.store.ctrl.slots[i]? with
                | none => simp [hcs] at h1
                | some cs => simp [hcs] at h1 ⊢; omega
              · right
                have hne : k.index ≠ i := by intro e; rw [e] at hkr; exact hnd'.1 hkr
                exact ⟨_, _, rfl, hkr, sl', x', by simpa [ha2, (hoth _ hne).2] using hs', hg', hd', hm'⟩
          have hdr2 : ∀ st2 : Store Res, st2.arena = st.arena → ∀ hnd2,
              DrainInv { s with store := st2, apc := .draining rest hnd2 } := by
            intro st2 ha2 hnd2
            simp only [DrainInv, ha2, hord]
            refine ⟨hnd'.2, fun j hj => ?_⟩
            have hne : j ≠ i := by intro e; rw [e] at hj; exact hnd'.1 hj
            exact (List.mem_erase_of_ne hne).mpr (hall j (by simp [hj]))
          cases ar with
          | false =>
            simp [hv] at hs; subst hs
            exact ⟨by simpa [St.held] using wf', hdr2 st rfl _, hmg st rfl rfl _, by simp, by simp⟩
          | true =>
            simp only [hv, if_true] at hs
            have hub := ub rfl
            have hheld : s.held.length ≥ s.pending := by
              simp only [St.held, St.pending]; cases s.gpc <;> simp
            have hown := wf.ownCount
            have hopos : 0 < s.store.arena.order.length := List.length_pos_of_mem hi
            simp only [ownIdx, List.length_append, List.length_map] at hown
            have hlt : st.unused.items.length < st.unused.cap := by
              rw [hu, wf.ucap]; omega
            obtain ⟨st2, hp⟩ := pushUnused_ok x hlt
            simp [hp] at hs; subst hs
            obtain ⟨wf2, hc2, ha2, hn2, hd2', hit2, _⟩ := wf_pushUnused x wf' hp
            refine ⟨by simpa [St.held] using wf2, hdr2 st2 ha2 _, hmg st2 hc2 ha2 _, by simp [St.inHand], ?_⟩
            intro _
            simp only [hit2, hc2, List.length_append, List.length_cons, List.length_nil, hu, St.pending] at hub ⊢
            omega

theorem inv_aPushUnused {ar : Bool} {cap : Nat} {s s' : St} (h : Inv ar cap s)
    (hs : step ar s .aPushUnused = some (.ok s')) : Inv ar cap s' := by
  obtain ⟨wf, dr, mg, nh, ub⟩ := h
  simp only [step] at hs
  cases ha : s.apc with
  | idle => simp [ha] at hs
  | adding => simp [ha] at hs
  | draining r hnd =>
    cases hnd with
    | none => simp [ha] at hs
    | some x =>
      simp only [ha] at hs
      cases ar with
      | true => have := nh rfl; simp [St.inHand, ha] at this
      | false =>
        cases hp : s.store.pushUnused x with
        | error e => simp [hp] at hs
        | ok st =>
          simp [hp] at hs; subst hs
          obtain ⟨wf2, hc2, ha2, hn2, hd2, hit2, _⟩ := wf_pushUnused x wf hp
          refine ⟨by simpa [St.held] using wf2, ?_, ?_, by simp, by simp⟩
          · simpa [DrainInv, ha, ha2] using dr
          · intro k hk
            rcases mg k hk with h1 | ⟨r', h', hap, hkr, sl', x', hs', hg', hd', hm'⟩
            · left; simpa [St.stale, hc2] using h1
            · right; rw [ha] at hap; cases hap
              exact ⟨_, _, rfl, hkr, sl', x', by simpa [ha2] using hs', hg', hd', hm'⟩

theorem inv_aEndDrain {ar : Bool} {cap : Nat} {s s' : St} (h : Inv ar cap s)
    (hs : step ar s .aEndDrain = some (.ok s')) : Inv ar cap s' := by
  obtain ⟨wf, dr, mg, nh, ub⟩ := h
  simp only [step] at hs
  cases ha : s.apc with
  | idle => simp [ha] at hs
  | adding => simp [ha] at hs
  | draining r hnd =>
    cases hnd with
    | some x => simp [ha] at hs
    | none =>
      cases r with
      | cons i rest => simp [ha] at hs
      | nil =>
        simp [ha] at hs; subst hs
        refine ⟨by simpa [St.held] using wf, by simp [DrainInv], ?_, by simp [St.inHand], by simpa [St.pending] using ub⟩
        intro k hk
        rcases mg k hk with h1 | ⟨r', h', hap, hkr, _⟩
        · left; exact h1
        · rw [ha] at hap; cases hap; simp at hkr

theorem inv_aPopNew {ar : Bool} {cap : Nat} {s s' : St} (h : Inv ar cap s)
    (hs : step ar s .aPopNew = some (.ok s')) : Inv ar cap s' := by
  obtain ⟨wf, dr, mg, nh, ub⟩ := h
  simp only [step] at hs
  cases ha : s.apc with
  | idle => simp [ha] at hs
  | draining r hnd => simp [ha] at hs
  | adding =>
    simp only [ha] at hs
    have spec := wf_popNewInsert wf
    have hmg0 : ∀ k ∈ s.mustGo, s.stale k := by
      intro k hk
      rcases mg k hk with h1 | ⟨r', h', hap, _⟩
      · exact h1
      · rw [ha] at hap; cases hap
    cases hp : s.store.popNewInsert with
    | error e => simp [hp, PopNewSpec] at spec
    | ok p =>
      obtain ⟨ko, st⟩ := p
      cases ko with
      | none =>
        simp only [hp, PopNewSpec] at spec
        obtain ⟨rfl, _⟩ := spec
        simp [hp] at hs; subst hs
        refine ⟨by simpa [St.held] using wf, by simp [DrainInv], fun k hk => Or.inl (hmg0 k hk), by simp [St.inHand],
          by simpa [St.pending] using ub⟩
      | some k =>
        simp only [hp, PopNewSpec] at spec
        obtain ⟨wf', hc, hu, hd, _⟩ := spec
        simp [hp] at hs; subst hs
        refine ⟨by simpa [St.held] using wf', by simp [DrainInv], ?_, by simp [St.inHand], ?_⟩
        · intro k' hk'; left; have := hmg0 k' hk'; simpa [St.stale, hc] using this
        · intro har; have := ub har; simpa [St.pending, hc, hu] using this


theorem inv_step {ar : Bool} {cap : Nat} {s s' : St} {l : Label} (h : Inv ar cap s)
    (hs : step ar s l = some (.ok s')) : Inv ar cap s' := by
  cases l with
  | gReserve => exact inv_gReserve h hs
  | gPopUnused => exact inv_gPopUnused h hs
  | gPushNew => exact inv_gPushNew h hs
  | mark x => exact inv_mark x h hs
  | aBegin => exact inv_aBegin h hs
  | aVisit => exact inv_aVisit h hs
  | aPushUnused => exact inv_aPushUnused h hs
  | aEndDrain => exact inv_aEndDrain h hs
  | aPopNew => exact inv_aPopNew h hs

theorem inv_reachable {ar : Bool} {cap : Nat} (hc : 0 < cap) {s : St} (h : Reachable ar cap s) : Inv ar cap s := by
  induction h with
  | init => exact inv_init ar cap hc
  | step _ hs ih => exact inv_step ih hs

end Hand
end K
