/-
  DecoderLemmas.lean — the `Decoder` contract and the correctness of
  `DecodeScheduler::frame_at_index` / `seek_to_index` / `run` under it (core Lean only).
-/
import KiraModel.Model.Decoder

namespace K
namespace Dec

open Wav (Err)

variable {α σ : Type} [OfScientific α]

/-- **the contract of streaming/decoder.rs `trait Decoder`** relative to the audio `src` the
    decoder stands for, with `pos s` the index of the next frame `decode` will return:
    * `decode` before the end returns the next non-empty packet of `src` (any size ≥ 1) and advances;
    * `seek i` (for `i` inside the audio) lands on some `j ≤ i` and returns that `j`
      (any seek granularity).
    `good` is a representation invariant of the decoder's own state (e.g. "the byte offset is
    frame aligned"), established by `seek` and kept by `decode`. -/
structure Contract (D : Decoder σ α) (src : List (Frame α)) (pos : σ → Nat) (good : σ → Prop) : Prop where
  decode_ok : ∀ s, good s → pos s < src.length → ∃ fs s', D.decode s = .ok (fs, s') ∧ fs ≠ [] ∧
      pos s' = pos s + fs.length ∧ pos s + fs.length ≤ src.length ∧
      (∀ k, k < fs.length → fs[k]? = src[pos s + k]?) ∧ good s'
  seek_ok : ∀ s i, i ≤ src.length → ∃ j s', D.seek s i = .ok (j, s') ∧ j ≤ i ∧ pos s' = j ∧ good s'

/-- a decoded chunk holds true frames of `src` at their indices -/
def ChunkOk (src : List (Frame α)) (c : Chunk α) : Prop :=
  ∀ i f, c.frameAt i = some f → src[i]? = some f

/-- scheduler invariant: the frame counter is the decoder's real position and the cached
    chunk is genuine -/
structure Inv (src : List (Frame α)) (pos : σ → Nat) (good : σ → Prop) (st : Sched σ α) : Prop where
  good_dec : good st.dec
  cur_eq : st.cur = pos st.dec
  chunk_ok : ∀ c, st.chunk = some c → ChunkOk src c

omit [OfScientific α] in
theorem chunk_of_decode (src : List (Frame α)) (cur : Nat) (fs : List (Frame α))
    (h : ∀ k, k < fs.length → fs[k]? = src[cur + k]?) : ChunkOk src ⟨cur, fs⟩ := by
  intro i f hf
  unfold Chunk.frameAt at hf
  simp only at hf
  split at hf
  · cases hf
  · rename_i hge
    have hlt : i - cur < fs.length := by
      rcases Nat.lt_or_ge (i - cur) fs.length with h' | h'
      · exact h'
      · rw [List.getElem?_eq_none h'] at hf; cases hf
    have := h (i - cur) hlt
    rw [hf] at this
    have e : cur + (i - cur) = i := by omega
    rw [e] at this
    exact this.symm

omit [OfScientific α] in
/-- the decode-forward loop reaches the wanted frame within `index − cur + 1` packets -/
theorem decodeUntil_correct (D : Decoder σ α) (src : List (Frame α)) (pos : σ → Nat) (good : σ → Prop)
    (C : Contract D src pos good) (index : Nat) (hi : index < src.length) :
    ∀ (fuel : Nat) (s : σ) (cur : Nat), good s → cur = pos s → cur ≤ index → index - cur < fuel →
      ∃ f s' cur' chunk, decodeUntil D index fuel s cur = .ok (f, s', cur', chunk) ∧
        src[index]? = some f ∧ cur' = pos s' ∧ ChunkOk src chunk ∧ good s' := by
  intro fuel
  induction fuel with
  | zero => intro s cur _ _ _ h; omega
  | succ fuel ih =>
    intro s cur hgood hcur hle hfuel
    obtain ⟨fs, s', hdec, hne, hpos, hbound, hfs, hgood'⟩ := C.decode_ok s hgood (by omega)
    have hck : ChunkOk src ⟨cur, fs⟩ := chunk_of_decode src cur fs (by rw [hcur]; exact hfs)
    unfold decodeUntil
    simp only [hdec]
    cases hfa : (Chunk.frameAt (⟨cur, fs⟩ : Chunk α) index) with
    | some f =>
      exact ⟨f, s', cur + fs.length, ⟨cur, fs⟩, rfl, hck index f hfa, by rw [hpos, hcur], hck, hgood'⟩
    | none =>
      have hlen : 0 < fs.length := List.length_pos_iff.mpr hne
      have hge : cur + fs.length ≤ index := by
        unfold Chunk.frameAt at hfa
        simp only at hfa
        split at hfa
        · omega
        · rcases Nat.lt_or_ge (index - cur) fs.length with h' | h'
          · rw [List.getElem?_eq_getElem h'] at hfa; cases hfa
          · omega
      exact ih s' (cur + fs.length) hgood' (by rw [hpos, hcur]) hge (by omega)

/-- static configuration agrees with the audio: the slice (or the whole) lies inside `src` -/
def CfgOk (src : List (Frame α)) (cfg : Cfg) : Prop :=
  match cfg.slice with
  | some (a, b) => a ≤ b ∧ b ≤ src.length ∧ cfg.numFrames = b - a
  | none => cfg.numFrames ≤ src.length

def Cfg.start (cfg : Cfg) : Nat := match cfg.slice with | some (a, _) => a | none => 0
def Cfg.span (cfg : Cfg) : Nat := match cfg.slice with | some (a, b) => b - a | none => cfg.numFrames

/-- what `frame_at_index i` must return: source frame `slice.start + i` inside the slice, zero outside -/
def want (src : List (Frame α)) (cfg : Cfg) (i : Nat) : Option (Frame α) :=
  if i < cfg.span then src[cfg.start + i]? else some ⟨(0.0 : α), (0.0 : α)⟩

/-- **frame_at_index is correct** for every decoder satisfying the contract, from every state
    satisfying the invariant (i.e. after any history, see `runCalls_correct`), for every index;
    and it needs at most `src.length + 1` packets (no hang). -/
theorem frameAtIndex_correct (D : Decoder σ α) (src : List (Frame α)) (pos : σ → Nat) (good : σ → Prop)
    (C : Contract D src pos good) (cfg : Cfg) (hcfg : CfgOk src cfg) (fuel : Nat) (hfuel : src.length < fuel)
    (st : Sched σ α) (hinv : Inv src pos good st) (i : Nat) :
    ∃ f st', frameAtIndex D cfg fuel st i = .ok (f, st') ∧ want src cfg i = some f ∧
      Inv src pos good st' ∧ st'.position = st.position ∧ st'.playing = st.playing := by
  unfold frameAtIndex want Cfg.span Cfg.start
  unfold CfgOk at hcfg
  -- normalise start/stop
  rcases hsl : cfg.slice with _ | ⟨a, b⟩
  all_goals simp only [hsl] at hcfg ⊢
  case none =>
    simp only [Nat.not_lt_zero, if_false, Nat.sub_zero, Nat.zero_add, ge_iff_le]
    by_cases hi : cfg.numFrames ≤ i
    · simp only [hi, if_true]
      exact ⟨_, st, rfl, by simp [Nat.not_lt.mpr hi], hinv, rfl, rfl⟩
    · simp only [hi, if_false]
      have hi' : i < cfg.numFrames := Nat.lt_of_not_le hi
      simp only [hi', if_true]
      have hlt : i < src.length := by omega
      cases hc : st.chunk.bind (·.frameAt i) with
      | some f =>
        refine ⟨f, st, rfl, ?_, hinv, rfl, rfl⟩
        cases hch : st.chunk with
        | none => rw [hch] at hc; cases hc
        | some c => rw [hch] at hc; exact hinv.chunk_ok c hch i f hc
      | none =>
        simp only []
        by_cases hb : i < st.cur
        · simp only [hb, if_true]
          obtain ⟨j, s', hseek, hj, hp, hg⟩ := C.seek_ok st.dec i (by omega)
          simp only [hseek]
          obtain ⟨f, s'', cur', chunk, hd, hsrc, hcur', hck, hg''⟩ :=
            decodeUntil_correct D src pos good C i hlt fuel s' j hg hp.symm hj (by omega)
          simp only [hd]
          exact ⟨f, _, rfl, hsrc, ⟨hg'', hcur', fun c hc => by cases hc; exact hck⟩, rfl, rfl⟩
        · simp only [hb, if_false]
          obtain ⟨f, s'', cur', chunk, hd, hsrc, hcur', hck, hg''⟩ :=
            decodeUntil_correct D src pos good C i hlt fuel st.dec st.cur hinv.good_dec hinv.cur_eq (by omega) (by omega)
          simp only [hd]
          exact ⟨f, _, rfl, hsrc, ⟨hg'', hcur', fun c hc => by cases hc; exact hck⟩, rfl, rfl⟩
  case some =>
    obtain ⟨hab, hb, _⟩ := hcfg
    have hnlt : ¬ b < a := by omega
    simp only [hnlt, if_false, ge_iff_le]
    by_cases hi : b - a ≤ i
    · simp only [hi, if_true]
      exact ⟨_, st, rfl, by simp [Nat.not_lt.mpr hi], hinv, rfl, rfl⟩
    · simp only [hi, if_false]
      have hi' : i < b - a := Nat.lt_of_not_le hi
      simp only [hi', if_true]
      have hlt : a + i < src.length := by omega
      cases hc : st.chunk.bind (·.frameAt (a + i)) with
      | some f =>
        refine ⟨f, st, rfl, ?_, hinv, rfl, rfl⟩
        cases hch : st.chunk with
        | none => rw [hch] at hc; cases hc
        | some c => rw [hch] at hc; exact hinv.chunk_ok c hch (a + i) f hc
      | none =>
        simp only []
        by_cases hb' : a + i < st.cur
        · simp only [hb', if_true]
          obtain ⟨j, s', hseek, hj, hp, hg⟩ := C.seek_ok st.dec (a + i) (by omega)
          simp only [hseek]
          obtain ⟨f, s'', cur', chunk, hd, hsrc, hcur', hck, hg''⟩ :=
            decodeUntil_correct D src pos good C (a + i) hlt fuel s' j hg hp.symm hj (by omega)
          simp only [hd]
          exact ⟨f, _, rfl, hsrc, ⟨hg'', hcur', fun c hc => by cases hc; exact hck⟩, rfl, rfl⟩
        · simp only [hb', if_false]
          obtain ⟨f, s'', cur', chunk, hd, hsrc, hcur', hck, hg''⟩ :=
            decodeUntil_correct D src pos good C (a + i) hlt fuel st.dec st.cur hinv.good_dec hinv.cur_eq (by omega) (by omega)
          simp only [hd]
          exact ⟨f, _, rfl, hsrc, ⟨hg'', hcur', fun c hc => by cases hc; exact hck⟩, rfl, rfl⟩

/-! ## seeks, scheduler iterations, arbitrary histories -/

omit [OfScientific α] in
/-- `seek_to_index i` (for `i` inside the decoder's audio) keeps the invariant and moves the transport -/
theorem seekToIndex_correct (D : Decoder σ α) (src : List (Frame α)) (pos : σ → Nat) (good : σ → Prop)
    (C : Contract D src pos good) (cfg : Cfg) (st : Sched σ α) (hinv : Inv src pos good st) (i : Nat)
    (hi : i ≤ src.length) :
    ∃ st', seekToIndex D cfg st i = .ok st' ∧ Inv src pos good st' ∧ st'.position = i ∧
      st'.playing = (if i ≥ cfg.numFrames then false else st.playing) := by
  unfold seekToIndex
  obtain ⟨j, s', hseek, _, hp, hg⟩ := C.seek_ok st.dec i hi
  simp only [hseek]
  exact ⟨_, rfl, ⟨hg, hp.symm, fun c hc => hinv.chunk_ok c hc⟩, rfl, rfl⟩

omit [OfScientific α] in
/-- `DecodeScheduler::new` establishes the invariant for every start position inside the audio -/
theorem new_correct (D : Decoder σ α) (src : List (Frame α)) (pos : σ → Nat) (good : σ → Prop)
    (C : Contract D src pos good) (s0 : σ) (slice : Option (Nat × Nat))
    (hslice : ∀ a b, slice = some (a, b) → a ≤ b ∧ b ≤ src.length) (startPos : Nat)
    (hstart : startPos ≤ src.length) :
    ∃ cfg st, Sched.new D s0 slice src.length startPos = .ok (cfg, st) ∧ CfgOk src cfg ∧
      Inv src pos good st ∧ st.position = startPos ∧ st.playing = true ∧ cfg.slice = slice := by
  unfold Sched.new
  obtain ⟨j, s', hseek, _, hp, hg⟩ := C.seek_ok s0 startPos hstart
  rcases slice with _ | ⟨a, b⟩
  · simp only [hseek]
    refine ⟨_, _, rfl, ?_, ⟨hg, hp.symm, fun c hc => by cases hc⟩, rfl, rfl, rfl⟩
    simp [CfgOk]
  · obtain ⟨hab, hb⟩ := hslice a b rfl
    have : ¬ b < a := by omega
    simp only [this, if_false, hseek]
    refine ⟨_, _, rfl, ?_, ⟨hg, hp.symm, fun c hc => by cases hc⟩, rfl, rfl, rfl⟩
    simp [CfgOk, hab, hb]

/-- one call of the scheduler's decoder-facing interface -/
inductive Call where
  | frame (i : Nat)     -- frame_at_index i
  | seek (i : Nat)      -- seek_to_index i  (a `seek_to` command)
  | step                -- one `run` iteration: push the frame at the transport position, advance

/-- the model's answer to one call: the frame produced (if the call produces one) and the new state -/
def applyCall (D : Decoder σ α) (cfg : Cfg) (fuel : Nat) (st : Sched σ α) :
    Call → Except Err (Option (Frame α) × Sched σ α)
  | .frame i => match frameAtIndex D cfg fuel st i with
    | .ok (f, st') => .ok (some f, st')
    | .error e => .error e
  | .seek i => match seekToIndex D cfg st i with
    | .ok st' => .ok (none, st')
    | .error e => .error e
  | .step => match runStep D cfg fuel st with
    | .ok (f, _, _, st') => .ok (some f, st')
    | .error e => .error e

/-- a history of calls -/
def runCalls (D : Decoder σ α) (cfg : Cfg) (fuel : Nat) :
    Sched σ α → List Call → Except Err (List (Option (Frame α)) × Sched σ α)
  | st, [] => .ok ([], st)
  | st, c :: cs =>
    match applyCall D cfg fuel st c with
    | .error e => .error e
    | .ok (o, st') =>
      match runCalls D cfg fuel st' cs with
      | .error e => .error e
      | .ok (os, st'') => .ok (o :: os, st'')

/-- the decoder-free specification: the same calls answered by reading `src` directly
    (this is what a static sound over the loaded frames does); state = transport (position, playing) -/
def specCalls (src : List (Frame α)) (cfg : Cfg) : Nat × Bool → List Call → List (Option (Option (Frame α)))
  | _, [] => []
  | (p, pl), .frame i :: cs => some (want src cfg i) :: specCalls src cfg (p, pl) cs
  | (_, pl), .seek i :: cs => none :: specCalls src cfg (i, if i ≥ cfg.numFrames then false else pl) cs
  | (p, pl), .step :: cs =>
    some (want src cfg p) ::
      specCalls src cfg (if pl then (p + 1, if p + 1 ≥ cfg.numFrames then false else true) else (p, pl)) cs

/-- seeks of a history stay inside the decoder's audio (the WAV reader rejects others) -/
def SeeksInRange (n : Nat) : List Call → Prop
  | [] => True
  | .seek i :: cs => i ≤ n ∧ SeeksInRange n cs
  | _ :: cs => SeeksInRange n cs

/-- **any history**: from a state satisfying the invariant, every history of `frame_at_index`,
    `seek_to` and `run` calls succeeds (no error, no hang) and every frame produced is the one
    the decoder-free specification reads from `src`. -/
theorem runCalls_correct (D : Decoder σ α) (src : List (Frame α)) (pos : σ → Nat) (good : σ → Prop)
    (C : Contract D src pos good) (cfg : Cfg) (hcfg : CfgOk src cfg) (fuel : Nat) (hfuel : src.length < fuel) :
    ∀ (calls : List Call) (st : Sched σ α), Inv src pos good st → SeeksInRange src.length calls →
      ∃ outs st', runCalls D cfg fuel st calls = .ok (outs, st') ∧ Inv src pos good st' ∧
        outs.map (·.map some) = specCalls src cfg (st.position, st.playing) calls := by
  intro calls
  induction calls with
  | nil => intro st hinv _; exact ⟨[], st, rfl, hinv, rfl⟩
  | cons c cs ih =>
    intro st hinv hr
    cases c with
    | frame i =>
      obtain ⟨f, st1, h1, hw, hinv1, hp1, hpl1⟩ := frameAtIndex_correct D src pos good C cfg hcfg fuel hfuel st hinv i
      obtain ⟨outs, st2, h2, hinv2, hs2⟩ := ih st1 hinv1 hr
      refine ⟨some f :: outs, st2, ?_, hinv2, ?_⟩
      · simp only [runCalls, applyCall, h1, h2]
      · simp only [List.map_cons, Option.map_some, specCalls, hw, hs2, hp1, hpl1]
    | seek i =>
      obtain ⟨hi, hr'⟩ := hr
      obtain ⟨st1, h1, hinv1, hp1, hpl1⟩ := seekToIndex_correct D src pos good C cfg st hinv i hi
      obtain ⟨outs, st2, h2, hinv2, hs2⟩ := ih st1 hinv1 hr'
      refine ⟨none :: outs, st2, ?_, hinv2, ?_⟩
      · simp only [runCalls, applyCall, h1, h2]
      · simp only [List.map_cons, Option.map_none, specCalls, hs2, hp1, hpl1]
    | step =>
      obtain ⟨f, st1, h1, hw, hinv1, hp1, hpl1⟩ :=
        frameAtIndex_correct D src pos good C cfg hcfg fuel hfuel st hinv st.position
      -- the state after the transport increment
      let st1' : Sched σ α :=
        if st1.playing then
          { st1 with position := st1.position + 1,
                     playing := if st1.position + 1 ≥ cfg.numFrames then false else true }
        else st1
      have hinv1' : Inv src pos good st1' := by
        show Inv src pos good (if st1.playing then _ else st1)
        split
        · exact ⟨hinv1.good_dec, hinv1.cur_eq, hinv1.chunk_ok⟩
        · exact hinv1
      obtain ⟨outs, st2, h2, hinv2, hs2⟩ := ih st1' hinv1' hr
      refine ⟨some f :: outs, st2, ?_, hinv2, ?_⟩
      · simp only [runCalls, applyCall, runStep, h1]
        exact (by rw [show (if st1.playing = true then
              { st1 with position := st1.position + 1,
                         playing := if st1.position + 1 ≥ cfg.numFrames then false else true }
            else st1) = st1' from rfl, h2])
      · simp only [List.map_cons, Option.map_some, specCalls, hw]
        congr 1
        rw [hs2]
        congr 1
        show (st1'.position, st1'.playing) = _
        rw [← hp1, ← hpl1]
        show ((if st1.playing then _ else st1 : Sched σ α).position,
              (if st1.playing then _ else st1 : Sched σ α).playing) = _
        cases h : st1.playing <;> simp [h]

end Dec
end K
