/-
  StreamSeekLemmas.lean — seeks of the streaming sound (C09, `C09_seek_*`).

  The decoder thread applies a pending `seek_by` / `seek_to` at the start of a `run` iteration: the transport is
  moved with `Transport::seek_to` (the function the static sound calls), the decoder is sought, the command slot
  is emptied — and the frame ring is NOT flushed: the frames buffered before the seek stay in front of the new
  ones.  So after a seek the ring is `old ++ (future of the re-based walk)`, and the ring invariant of the seek-free
  theorems holds again for the world re-based at the landing transport once the old frames are gone.
-/
import KiraModel.Proofs.StreamLemmas

namespace K
namespace Streaming

open StaticSound
open Wav (Err)
open Dec (Decoder)

/-- the world whose walk starts at transport `t` (same audio, same slice): what is played after a seek landed on `t` -/
def World.rebase (W : World) (t : Transport) : World := { W with t0 := t }

theorem World.rebase_ok (W : World) (hW : W.Ok) (t : Transport) (hv : t.ValidLoop W.n) (hp : t.playing = true) :
    (W.rebase t).Ok :=
  { slice_ok := hW.slice_ok, valid := hv, playing := hp }

/-- `(position * sample_rate as f64).round() as usize` of `DecodeScheduler::seek_to` -/
noncomputable def seekIndex (sampleRate : Nat) (x : ℝ) : Nat :=
  KOps.toNatSat (roundHalfAway (x * (KOps.ofNat sampleRate : ℝ)))

/-- the loop-wrapped landing index of `Transport::seek_to` (the body of C04's `seekLanding`) -/
def seekLands (t : Transport) (idx : Nat) : Nat :=
  match t.loopRegion with
  | some (ls, le) => if t.position < idx then wrapDownCF idx ls le else wrapUpCF idx ls ls le
  | none => idx

/-- `Transport::seek_to` in closed form, for a valid loop region: never faults, lands on `seekLands`, stops the
    transport iff the landing is at or beyond the end, keeps the loop region -/
theorem transport_seekTo_closed (t : Transport) (p n : Nat) (hv : t.ValidLoop n) :
    t.seekTo p n = .ok { t with position := seekLands t p
                                playing := if n ≤ seekLands t p then false else t.playing } := by
  unfold Transport.ValidLoop at hv
  cases hl : t.loopRegion with
  | none =>
    have e : seekLands t p = p := by simp [seekLands, hl]
    rw [e, Transport.seekTo_noLoop t p n hl, hl]
  | some r =>
    obtain ⟨ls, le⟩ := r
    simp only [hl] at hv
    have e : seekLands t p = if t.position < p then wrapDownCF p ls le else wrapUpCF p ls ls le := by
      simp [seekLands, hl]
    rw [e, Transport.seekTo_loop t p n ls le hl hv.1, hl]

/-- `DecodeScheduler::seek_to_index p` on a sound that plays `W` through a contract-meeting decoder, `p` inside the
    decoder's audio: transport moved by `Transport::seek_to`, decoder sought (invariant kept), nothing else touched -/
theorem seekToIndex_spec {σ : Type} {W : World} {D : Decoder σ ℝ} {pos : σ → Nat} {good : σ → Prop}
    (C : Dec.Contract D W.frames.toList pos good) {s : Sys σ ℝ} (hinv : Dec.Inv W.frames.toList pos good s.ds)
    (p : Nat) (hp : p ≤ W.frames.size) (t : Transport) (ht : s.transport.seekTo p s.cfg.numFrames = .ok t) :
    ∃ ds', Dec.Inv W.frames.toList pos good ds' ∧
      Sys.seekToIndex D s p = .ok { s with transport := t, ds := ds' } := by
  obtain ⟨ds', h1, hinv', _, _⟩ := Dec.seekToIndex_correct D W.frames.toList pos good C s.cfg s.ds hinv p
    (by simpa using hp)
  refine ⟨ds', hinv', ?_⟩
  unfold Sys.seekToIndex
  rw [ht]
  simp only [h1]

/-- `run` with only a `seek_to x` pending = the seek (slot emptied first), then `produce` -/
theorem run_seekTo {σ : Type} (D : Decoder σ ℝ) (fuel : Nat) (s : Sys σ ℝ) (h0 : s.core.shared ≠ .stopped)
    (hd : s.soundDropped = false) (hfull : s.ring.isFull = false) (h1 : s.cmds.setLoopRegion = none)
    (h2 : s.cmds.seekBy = none) (x : ℝ) (h3 : s.cmds.seekTo = some x) (s1 : Sys σ ℝ)
    (hs : Sys.seekToIndex D { s with cmds := { s.cmds with seekTo := none } } (seekIndex s.sampleRate x) = .ok s1) :
    Sys.run D fuel s = Sys.produce D fuel s1 := by
  unfold Sys.run
  have hl : Sys.readLoopCmd s = s := by unfold Sys.readLoopCmd; simp [h1]
  simp only [h0, if_false, hd, hfull, Bool.false_eq_true, hl]
  unfold Sys.readSeekByCmd
  simp only [h2]
  unfold Sys.readSeekToCmd
  simp only [h3]
  unfold Sys.seekTo
  unfold seekIndex at hs
  rw [hs]

/-- `run` with only a `seek_by k` pending = a `seek_to` of `shared.position() + k`, then `produce` -/
theorem run_seekBy {σ : Type} (D : Decoder σ ℝ) (fuel : Nat) (s : Sys σ ℝ) (h0 : s.core.shared ≠ .stopped)
    (hd : s.soundDropped = false) (hfull : s.ring.isFull = false) (h1 : s.cmds.setLoopRegion = none)
    (k : ℝ) (h2 : s.cmds.seekBy = some k) (s1 : Sys σ ℝ)
    (hs : Sys.seekToIndex D { s with cmds := { s.cmds with seekBy := none } }
      (seekIndex s.sampleRate (s.sharedPosition + k)) = .ok s1)
    (hk : s1.cmds.seekTo = none) :
    Sys.run D fuel s = Sys.produce D fuel s1 := by
  unfold Sys.run
  have hl : Sys.readLoopCmd s = s := by unfold Sys.readLoopCmd; simp [h1]
  simp only [h0, if_false, hd, hfull, Bool.false_eq_true, hl]
  unfold Sys.readSeekByCmd
  simp only [h2]
  unfold Sys.seekBy Sys.seekTo
  unfold seekIndex at hs
  rw [hs]
  simp only []
  unfold Sys.readSeekToCmd
  simp only [hk]

/-- `run` with a `seek_by k` AND a `seek_to x` pending: the `seek_by` is applied first, the `seek_to` second -/
theorem run_seekBy_seekTo {σ : Type} (D : Decoder σ ℝ) (fuel : Nat) (s : Sys σ ℝ) (h0 : s.core.shared ≠ .stopped)
    (hd : s.soundDropped = false) (hfull : s.ring.isFull = false) (h1 : s.cmds.setLoopRegion = none)
    (k : ℝ) (h2 : s.cmds.seekBy = some k) (x : ℝ) (s1 s2 : Sys σ ℝ)
    (hs1 : Sys.seekToIndex D { s with cmds := { s.cmds with seekBy := none } }
      (seekIndex s.sampleRate (s.sharedPosition + k)) = .ok s1)
    (h3 : s1.cmds.seekTo = some x)
    (hs2 : Sys.seekToIndex D { s1 with cmds := { s1.cmds with seekTo := none } } (seekIndex s1.sampleRate x) = .ok s2) :
    Sys.run D fuel s = Sys.produce D fuel s2 := by
  unfold Sys.run
  have hl : Sys.readLoopCmd s = s := by unfold Sys.readLoopCmd; simp [h1]
  simp only [h0, if_false, hd, hfull, Bool.false_eq_true, hl]
  unfold Sys.readSeekByCmd
  simp only [h2]
  unfold Sys.seekBy Sys.seekTo
  unfold seekIndex at hs1 hs2
  rw [hs1]
  simp only []
  unfold Sys.readSeekToCmd
  simp only [h3]
  unfold Sys.seekTo
  rw [hs2]

/-- **what `produce` pushes when older frames are still buffered**: `produce_at` with a prefix `old` of frames
    that are not part of the walk (the frames buffered before a seek) in front of the ring -/
theorem produce_old {σ : Type} {W : World} (hW : W.Ok) {D : Decoder σ ℝ} {pos : σ → Nat} {good : σ → Prop}
    (C : Dec.Contract D W.frames.toList pos good) {s : Sys σ ℝ} {old : List (TimestampedFrame ℝ)} {a m : Nat}
    (hin : StreamIn W pos good s) (hring : s.ring.items = old ++ W.ringSlice a m)
    (htr : s.transport = W.trAt (m - 1)) (hm : 1 ≤ m) (hle : a ≤ m)
    (hroom : old.length + (m - a) < s.ring.cap) (hre : s.reachedEnd = false)
    (fuel : Nat) (hfuel : W.frames.size < fuel) :
    ∃ ds', Dec.Inv W.frames.toList pos good ds' ∧
      Sys.produce D fuel s = (if W.pl m = true then RunOutcome.ok .continue else RunOutcome.ok .end,
        { s with ds := ds', ring := { s.ring with items := old ++ W.ringSlice a (m + 1) }, transport := W.trAt m,
                 reachedEnd := !W.pl m }) := by
  have hcfg := cfgOk_of_world W hW s.cfg hin.cfg_slice hin.cfg_n
  obtain ⟨f, ds', hfa, hwant, hinv', _, _⟩ := Dec.frameAtIndex_correct D W.frames.toList pos good C s.cfg hcfg fuel
    (by simpa using hfuel) s.ds hin.inv s.transport.position
  have hf := want_eq_srcAt W hW s.cfg hin.cfg_slice hin.cfg_n _ f hwant
  refine ⟨ds', hinv', ?_⟩
  unfold Sys.produce
  rw [hfa]
  simp only []
  have hentry : (⟨f, s.transport.position⟩ : TimestampedFrame ℝ) = W.ringSeq m := by
    rw [hf, htr]
    have : m = (m - 1) + 1 := by omega
    conv_rhs => rw [this]
    rfl
  have hpush : s.ring.push ⟨f, s.transport.position⟩ =
      some { s.ring with items := old ++ W.ringSlice a (m + 1) } := by
    unfold Ring.push
    have hl : s.ring.items.length < s.ring.cap := by
      rw [hring, List.length_append, W.ringSlice_length]; exact hroom
    simp only [hl, if_true]
    rw [hentry, hring, List.append_assoc, W.ringSlice_push a m hle]
  rw [hpush]
  simp only []
  have hinc : s.transport.increment s.cfg.numFrames = .ok (W.trAt m) := by
    rw [htr, hin.cfg_n]
    have := W.trAt_step hW (m - 1)
    have e : m - 1 + 1 = m := by omega
    rw [e] at this; exact this
  rw [hinc]
  simp only []
  cases hp : W.pl m with
  | true =>
    have : (W.trAt m).playing = true := hp
    simp [this, hre]
  | false =>
    have : (W.trAt m).playing = false := hp
    simp [this]

/-- the state of a streaming sound some time after a seek landed on `W.t0`: `old` = frames buffered before the seek
    and not yet consumed, then entries `a … m − 1` (`a ≥ 1`: no pre-seeded entry) of the re-based walk; decoder
    transport at step `m − 1` -/
structure SeekInv {σ : Type} (W : World) (pos : σ → Nat) (good : σ → Prop) (s : Sys σ ℝ)
    (old : List (TimestampedFrame ℝ)) (a m : Nat) : Prop where
  tIn : StreamIn W pos good s
  ring : s.ring.items = old ++ W.ringSlice a m
  transport : s.transport = W.trAt (m - 1)
  a_pos : 1 ≤ a
  a_le : a ≤ m
  played : ∀ k, k + 1 < m → W.pl k = true
  reached : s.reachedEnd = !W.pl (m - 1)
  noSeek : s.cmds.setLoopRegion = none ∧ s.cmds.seekBy = none ∧ s.cmds.seekTo = none
  cap : s.ring.cap = bufferSize

/-- once the frames buffered before the seek are gone, `SeekInv` IS the ring invariant of the seek-free theorems,
    for the world re-based at the landing transport -/
theorem SeekInv.ringInv {σ : Type} {W : World} {pos : σ → Nat} {good : σ → Prop} {s : Sys σ ℝ} {a m : Nat}
    (h : SeekInv W pos good s [] a m) : RingInv W pos good s a m :=
  { tIn := h.tIn
    tAt := { ring := by rw [h.ring]; rfl, transport := h.transport, m_pos := Nat.le_trans h.a_pos h.a_le,
             played := h.played, reached := h.reached }
    a_le := h.a_le, noSeek := h.noSeek, cap := h.cap }

/-- a further decoder iteration (`run`, ring not full, sound alive, decoder not at the end) keeps `SeekInv`,
    with one more entry of the re-based walk -/
theorem SeekInv.run {σ : Type} {W : World} (hW : W.Ok) {D : Decoder σ ℝ} {pos : σ → Nat} {good : σ → Prop}
    (C : Dec.Contract D W.frames.toList pos good) {s : Sys σ ℝ} {old : List (TimestampedFrame ℝ)} {a m : Nat}
    (h : SeekInv W pos good s old a m) (h0 : s.core.shared ≠ .stopped) (hd : s.soundDropped = false)
    (hfull : s.ring.isFull = false) (hre : s.reachedEnd = false) (fuel : Nat) (hfuel : W.frames.size < fuel) :
    ∃ s', (Sys.run D fuel s = (.ok .continue, s') ∨ Sys.run D fuel s = (.ok .end, s')) ∧
      SeekInv W pos good s' old a (m + 1) := by
  rw [run_eq_produce D fuel s h0 hd hfull h.noSeek.1 h.noSeek.2.1 h.noSeek.2.2]
  have hm : 1 ≤ m := Nat.le_trans h.a_pos h.a_le
  have hroom : old.length + (m - a) < s.ring.cap := by
    have := hfull
    unfold Ring.isFull at this
    rw [h.ring, List.length_append, W.ringSlice_length] at this
    simpa using this
  obtain ⟨ds', hinv', hp⟩ := produce_old hW C h.tIn h.ring h.transport hm h.a_le hroom hre fuel hfuel
  rw [hp]
  have hplm : W.pl (m - 1) = true := by
    have := h.reached; rw [hre] at this
    cases hq : W.pl (m - 1) with
    | true => rfl
    | false => rw [hq] at this; simp at this
  have hS : SeekInv W pos good ({ s with ds := ds', ring := { s.ring with items := old ++ W.ringSlice a (m + 1) }, transport := W.trAt m, reachedEnd := !W.pl m } : Sys σ ℝ) old a (m + 1) :=
    { tIn := ⟨h.tIn.cfg_slice, h.tIn.cfg_n, hinv'⟩
      ring := rfl
      transport := by show W.trAt m = W.trAt (m + 1 - 1); simp
      a_pos := h.a_pos
      a_le := by have := h.a_le; omega
      played := fun k hk => by
        by_cases hk' : k + 1 < m
        · exact h.played k hk'
        · have : k = m - 1 := by omega
          rw [this]; exact hplm
      reached := by show (!W.pl m) = !W.pl (m + 1 - 1); simp
      noSeek := h.noSeek
      cap := h.cap }
  refine ⟨_, ?_, hS⟩
  cases W.pl m <;> simp

/-- the audio thread only pops: `SeekInv` survives, the old frames go first, then entries of the re-based walk -/
theorem SeekInv.audioOnly {σ : Type} {W : World} {pos : σ → Nat} {good : σ → Prop} {s s' : Sys σ ℝ}
    {old : List (TimestampedFrame ℝ)} {a m : Nat} (h : SeekInv W pos good s old a m) (ha : AudioOnly s s') :
    ∃ old' a', old'.length ≤ old.length ∧ a ≤ a' ∧ SeekInv W pos good s' old' a' m := by
  obtain ⟨k, hk⟩ := ha.ring
  refine ⟨old.drop k, min (a + (k - old.length)) m, by simp, by have := h.a_le; omega, ?_⟩
  refine
    { tIn := ⟨by rw [ha.cfg]; exact h.tIn.cfg_slice, by rw [ha.cfg]; exact h.tIn.cfg_n, by rw [ha.ds]; exact h.tIn.inv⟩
      ring := ?_
      transport := by rw [ha.transport]; exact h.transport
      a_pos := by have := h.a_pos; have := h.a_le; omega
      a_le := Nat.min_le_right _ _
      played := h.played
      reached := by rw [ha.reachedEnd]; exact h.reached
      noSeek := by rw [ha.cmds]; exact h.noSeek
      cap := by rw [ha.cap]; exact h.cap }
  rw [hk, h.ring, List.drop_append, W.ringSlice_drop]
  by_cases hle : a + (k - old.length) ≤ m
  · rw [Nat.min_eq_left hle]
  · rw [Nat.min_eq_right (by omega), W.ringSlice_empty (a + (k - old.length)) m (by omega),
      W.ringSlice_empty m m (Nat.le_refl _)]

/-- every step of a seek-free history keeps `SeekInv` (the old frames only shrink) -/
theorem seekInv_step {σ : Type} {W : World} (hW : W.Ok) {D : Decoder σ ℝ} {pos : σ → Nat} {good : σ → Prop}
    (C : Dec.Contract D W.frames.toList pos good) (fuel : Nat) (hfuel : W.frames.size < fuel)
    {s s' : Sys σ ℝ} {old : List (TimestampedFrame ℝ)} {a m : Nat} (R : SeekInv W pos good s old a m) (op : Op ℝ)
    (hop : ∀ c, op = .command c → AudioCmd c) (out : List (Frame ℝ)) (h : Sys.step D fuel s op = .ok (s', out)) :
    ∃ old' a' m', old'.length ≤ old.length ∧ a ≤ a' ∧ m ≤ m' ∧ SeekInv W pos good s' old' a' m' := by
  have keep : ∀ s'' : Sys σ ℝ, s''.cfg = s.cfg → s''.ds = s.ds → s''.ring = s.ring → s''.transport = s.transport →
      s''.reachedEnd = s.reachedEnd →
      (s''.cmds.setLoopRegion = none ∧ s''.cmds.seekBy = none ∧ s''.cmds.seekTo = none) →
      SeekInv W pos good s'' old a m := fun s'' e1 e2 e3 e4 e5 e6 =>
    { tIn := ⟨by rw [e1]; exact R.tIn.cfg_slice, by rw [e1]; exact R.tIn.cfg_n, by rw [e2]; exact R.tIn.inv⟩
      ring := by rw [e3]; exact R.ring
      transport := by rw [e4]; exact R.transport
      a_pos := R.a_pos, a_le := R.a_le, played := R.played
      reached := by rw [e5]; exact R.reached
      noSeek := e6
      cap := by rw [e3]; exact R.cap }
  cases op with
  | command c =>
    have hc := hop c rfl
    injection h with h; injection h with h1 _; subst h1
    refine ⟨old, a, m, Nat.le_refl _, Nat.le_refl _, Nat.le_refl _, keep _ rfl rfl rfl rfl rfl ?_⟩
    obtain ⟨h1, h2, h3⟩ := R.noSeek
    cases c with
    | setLoopRegion r => exact absurd hc (by simp [AudioCmd])
    | seekBy x => exact absurd hc (by simp [AudioCmd])
    | seekTo x => exact absurd hc (by simp [AudioCmd])
    | _ => exact ⟨h1, h2, h3⟩
  | popError =>
    injection h with h; injection h with h1 _; subst h1
    refine ⟨old, a, m, Nat.le_refl _, Nat.le_refl _, Nat.le_refl _, ?_⟩
    unfold Sys.popError
    cases s.errRing.pop with
    | none => exact R
    | some r => exact keep _ rfl rfl rfl rfl rfl R.noSeek
  | startProcessing =>
    injection h with h; injection h with h1 _; subst h1
    refine ⟨old, a, m, Nat.le_refl _, Nat.le_refl _, Nat.le_refl _, ?_⟩
    rw [onStartProcessing_eq]
    exact keep _ rfl rfl rfl rfl rfl R.noSeek
  | process len dt info =>
    obtain ⟨old', a', hl, hle, R'⟩ := R.audioOnly (process_audioOnly fuel s s' len dt info out h)
    exact ⟨old', a', m, hl, hle, Nat.le_refl _, R'⟩
  | decode =>
    injection h with h; injection h with h1 _; subst h1
    by_cases hgone : (s.reachedEnd || s.encounteredError) = true
    · simp only [hgone, if_true]; exact ⟨old, a, m, Nat.le_refl _, Nat.le_refl _, Nat.le_refl _, R⟩
    · have hre' : s.reachedEnd = false := by
        cases h : s.reachedEnd with
        | false => rfl
        | true => rw [h] at hgone; simp at hgone
      simp only [hgone, Bool.false_eq_true, if_false]
      unfold Sys.threadIter
      by_cases h0 : s.core.shared = .stopped
      · have : Sys.run D fuel s = (.ok .end, s) := by unfold Sys.run; simp [h0]
        rw [this]; exact ⟨old, a, m, Nat.le_refl _, Nat.le_refl _, Nat.le_refl _, R⟩
      · by_cases hd : s.soundDropped = true
        · have : Sys.run D fuel s = (.ok .end, s) := by unfold Sys.run; simp [h0, hd]
          rw [this]; exact ⟨old, a, m, Nat.le_refl _, Nat.le_refl _, Nat.le_refl _, R⟩
        · have hd' : s.soundDropped = false := by simpa using hd
          by_cases hfull : s.ring.isFull = true
          · have : Sys.run D fuel s = (.ok .wait, s) := by unfold Sys.run; simp [h0, hd', hfull]
            rw [this]; exact ⟨old, a, m, Nat.le_refl _, Nat.le_refl _, Nat.le_refl _, R⟩
          · have hfull' : s.ring.isFull = false := by simpa using hfull
            obtain ⟨s1, hr, R1⟩ := R.run hW C h0 hd' hfull' hre' fuel hfuel
            refine ⟨old, a, m + 1, Nat.le_refl _, Nat.le_refl _, by omega, ?_⟩
            rcases hr with hr | hr <;> rw [hr] <;> exact R1

/-- every seek-free history keeps `SeekInv` -/
theorem seekInv_run {σ : Type} {W : World} (hW : W.Ok) {D : Decoder σ ℝ} {pos : σ → Nat} {good : σ → Prop}
    (C : Dec.Contract D W.frames.toList pos good) (fuel : Nat) (hfuel : W.frames.size < fuel) :
    ∀ (ops : List (Op ℝ)) (s s' : Sys σ ℝ) (old : List (TimestampedFrame ℝ)) (a m : Nat) (outs : List (Frame ℝ)),
      (∀ c, Op.command c ∈ ops → AudioCmd c) → SeekInv W pos good s old a m →
      Sys.runOps D fuel s ops = .ok (s', outs) →
      ∃ old' a' m', old'.length ≤ old.length ∧ a ≤ a' ∧ m ≤ m' ∧ SeekInv W pos good s' old' a' m' := by
  intro ops
  induction ops with
  | nil =>
    intro s s' old a m outs _ R h
    rw [Sys.runOps] at h; injection h with h; injection h with h1 _; subst h1
    exact ⟨old, a, m, Nat.le_refl _, Nat.le_refl _, Nat.le_refl _, R⟩
  | cons op ops ih =>
    intro s s' old a m outs hc R h
    rw [Sys.runOps] at h
    cases h1 : Sys.step D fuel s op with
    | error e => rw [h1] at h; exact absurd h (by simp)
    | ok r =>
      obtain ⟨s1, o1⟩ := r
      simp only [h1] at h
      cases h2 : Sys.runOps D fuel s1 ops with
      | error e => rw [h2] at h; exact absurd h (by simp)
      | ok r2 =>
        obtain ⟨s2, o2⟩ := r2
        simp only [h2] at h
        injection h with h; injection h with h3 _; subst h3
        obtain ⟨old1, a1, m1, hl1, ha1, hm1, R1⟩ := seekInv_step hW C fuel hfuel R op
          (fun c hc' => hc c (by rw [hc']; exact List.mem_cons_self)) o1 h1
        obtain ⟨old2, a2, m2, hl2, ha2, hm2, R2⟩ := ih s1 s2 old1 a1 m1 o2
          (fun c hc' => hc c (List.mem_cons_of_mem _ hc')) R1 h2
        exact ⟨old2, a2, m2, by omega, by omega, by omega, R2⟩

/-! ### a pending `seek_to` is applied -/

/-- `seek_to_index p` in closed form -/
theorem seekToIndex_closed {σ : Type} {W : World} {D : Decoder σ ℝ} {pos : σ → Nat} {good : σ → Prop}
    (C : Dec.Contract D W.frames.toList pos good) {s : Sys σ ℝ} (hin : StreamIn W pos good s)
    (hv : s.transport.ValidLoop W.n) (p : Nat) (hp : p ≤ W.frames.size) :
    ∃ ds', Dec.Inv W.frames.toList pos good ds' ∧
      Sys.seekToIndex D s p = .ok { s with
        transport := { s.transport with position := seekLands s.transport p
                                        playing := if W.n ≤ seekLands s.transport p then false else s.transport.playing }
        ds := ds' } := by
  have ht := transport_seekTo_closed s.transport p W.n hv
  rw [← hin.cfg_n] at ht
  obtain ⟨ds', hinv', h⟩ := seekToIndex_spec C hin.inv p hp _ ht
  rw [hin.cfg_n] at h
  exact ⟨ds', hinv', h⟩

/-- a sound in the middle of a seek-free history (ring = entries `a … m − 1` of the walk of `W`, decoder alive and
    not at the end, ring not full) whose handle has just written `seek_to(x)`; the target index lies inside the
    decoder's audio and the (loop-wrapped) landing position inside the sound -/
structure SeekPending {σ : Type} (W : World) (pos : σ → Nat) (good : σ → Prop) (s : Sys σ ℝ) (a m : Nat) (x : ℝ) :
    Prop where
  tIn : StreamIn W pos good s
  tAt : StreamAt W s a m
  a_le : a ≤ m
  cap : s.ring.cap = bufferSize
  alive : s.core.shared ≠ .stopped
  kept : s.soundDropped = false
  room : s.ring.isFull = false
  running : s.reachedEnd = false
  noLoop : s.cmds.setLoopRegion = none
  noBy : s.cmds.seekBy = none
  pending : s.cmds.seekTo = some x
  inData : seekIndex s.sampleRate x ≤ W.frames.size
  inside : seekLands s.transport (seekIndex s.sampleRate x) < W.n

/-- the transport a seek to index `p` lands on (from a playing transport, landing inside the sound) -/
def landT (t : Transport) (p : Nat) : Transport := { t with position := seekLands t p }

/-- **the seek is applied**: the `run` iteration that finds the pending `seek_to(x)` leaves the ring as
    "what was buffered before ++ the first entry of the walk re-based at the landing transport", the decoder
    transport one step into that walk, the command slot empty -/
theorem seek_applied {σ : Type} {W : World} (hW : W.Ok) {D : Decoder σ ℝ} {pos : σ → Nat} {good : σ → Prop}
    (C : Dec.Contract D W.frames.toList pos good) {s : Sys σ ℝ} {a m : Nat} {x : ℝ}
    (P : SeekPending W pos good s a m x) (fuel : Nat) (hfuel : W.frames.size < fuel) :
    (W.rebase (landT s.transport (seekIndex s.sampleRate x))).Ok ∧
    SeekInv (W.rebase (landT s.transport (seekIndex s.sampleRate x))) pos good (Sys.run D fuel s).2 s.ring.items 1 2 ∧
    (Sys.run D fuel s).2.ring.items =
      s.ring.items ++ [⟨W.srcAt (seekLands s.transport (seekIndex s.sampleRate x)),
                        seekLands s.transport (seekIndex s.sampleRate x)⟩] := by
  have hm := P.tAt.m_pos
  have hpl : s.transport.playing = true := by
    have := P.tAt.reached
    rw [P.running] at this
    rw [P.tAt.transport]
    cases hq : W.pl (m - 1) with
    | true => exact hq
    | false => rw [hq] at this; simp at this
  have hv : s.transport.ValidLoop W.n := by rw [P.tAt.transport]; exact (W.trAt_valid hW _).1
  let s0 : Sys σ ℝ := { s with cmds := { s.cmds with seekTo := none } }
  have hin0 : StreamIn W pos good s0 := ⟨P.tIn.cfg_slice, P.tIn.cfg_n, P.tIn.inv⟩
  obtain ⟨ds', hinv', hs⟩ := seekToIndex_closed (D := D) C hin0 hv (seekIndex s.sampleRate x) P.inData
  have hnot : ¬ W.n ≤ seekLands s.transport (seekIndex s.sampleRate x) := by have := P.inside; omega
  have ht : ({ s.transport with position := seekLands s.transport (seekIndex s.sampleRate x)
                                playing := if W.n ≤ seekLands s.transport (seekIndex s.sampleRate x) then false
                                           else s.transport.playing } : Transport) =
      landT s.transport (seekIndex s.sampleRate x) := by
    simp [landT, hnot]
  change Sys.seekToIndex D s0 _ = _ at hs
  rw [show s0.transport = s.transport from rfl, ht] at hs
  have hrun := run_seekTo D fuel s P.alive P.kept P.room P.noLoop P.noBy x P.pending _ hs
  generalize hT : landT s.transport (seekIndex s.sampleRate x) = T at hs hrun ⊢
  have hTv : T.ValidLoop W.n := by
    rw [← hT]; unfold Transport.ValidLoop landT; exact hv
  have hTp : T.playing = true := by rw [← hT]; exact hpl
  have hTpos : T.position = seekLands s.transport (seekIndex s.sampleRate x) := by rw [← hT]; rfl
  have hW' : (W.rebase T).Ok := W.rebase_ok hW T hTv hTp
  have C' : Dec.Contract D (W.rebase T).frames.toList pos good := C
  have hroom : s.ring.items.length + (1 - 1) < s.ring.cap := by
    have := P.room
    unfold Ring.isFull at this
    simpa using this
  obtain ⟨ds'', hinv'', hp⟩ := produce_old (W := W.rebase T) (old := s.ring.items) (a := 1) (m := 1) hW' C'
    (s := { s0 with transport := T, ds := ds' })
    ⟨P.tIn.cfg_slice, P.tIn.cfg_n, hinv'⟩
    (by rw [World.ringSlice_empty _ 1 1 (Nat.le_refl _)]; simp [s0]) rfl (Nat.le_refl _) (Nat.le_refl _) hroom P.running
    fuel hfuel
  rw [hrun, hp]
  refine ⟨hW', ?_, ?_⟩
  · exact
      { tIn := ⟨P.tIn.cfg_slice, P.tIn.cfg_n, hinv''⟩
        ring := rfl
        transport := rfl
        a_pos := Nat.le_refl _
        a_le := by omega
        played := fun k hk => by
          have : k = 0 := by omega
          subst this; exact hTp
        reached := rfl
        noSeek := ⟨P.noLoop, P.noBy, rfl⟩
        cap := P.cap }
  · show s.ring.items ++ (W.rebase T).ringSlice 1 2 = _
    rw [← hTpos]
    rfl

/-- the transport `Transport::seek_to p` produces, for `n` frames (closed form of `transport_seekTo_closed`) -/
def seekT (n : Nat) (t : Transport) (p : Nat) : Transport :=
  { t with position := seekLands t p, playing := if n ≤ seekLands t p then false else t.playing }

/-- **both seek commands pending in one iteration**: `seek_by k` is applied first (relative to the position the
    audio thread last published), `seek_to x` second (so it decides where the decoder stands); each slot is emptied;
    the ring is not touched -/
theorem run_two_seeks {σ : Type} {W : World} {D : Decoder σ ℝ} {pos : σ → Nat} {good : σ → Prop}
    (C : Dec.Contract D W.frames.toList pos good) {s : Sys σ ℝ} (hin : StreamIn W pos good s)
    (hv : s.transport.ValidLoop W.n) (h0 : s.core.shared ≠ .stopped) (hd : s.soundDropped = false)
    (hfull : s.ring.isFull = false) (h1 : s.cmds.setLoopRegion = none) (k x : ℝ) (h2 : s.cmds.seekBy = some k)
    (h3 : s.cmds.seekTo = some x) (hk : seekIndex s.sampleRate (s.sharedPosition + k) ≤ W.frames.size)
    (hx : seekIndex s.sampleRate x ≤ W.frames.size) (fuel : Nat) :
    ∃ s2, Sys.run D fuel s = Sys.produce D fuel s2 ∧
      s2.transport = seekT W.n (seekT W.n s.transport (seekIndex s.sampleRate (s.sharedPosition + k)))
        (seekIndex s.sampleRate x) ∧
      s2.cmds.seekBy = none ∧ s2.cmds.seekTo = none ∧ s2.cmds.setLoopRegion = none ∧ s2.ring = s.ring ∧
      StreamIn W pos good s2 := by
  let sa : Sys σ ℝ := { s with cmds := { s.cmds with seekBy := none } }
  have hina : StreamIn W pos good sa := ⟨hin.cfg_slice, hin.cfg_n, hin.inv⟩
  obtain ⟨ds1, hinv1, hs1⟩ := seekToIndex_closed (D := D) C hina hv _ hk
  let T1 : Transport := seekT W.n s.transport (seekIndex s.sampleRate (s.sharedPosition + k))
  let s1 : Sys σ ℝ := { sa with transport := T1, ds := ds1 }
  let sb : Sys σ ℝ := { s1 with cmds := { s1.cmds with seekTo := none } }
  have hinb : StreamIn W pos good sb := ⟨hin.cfg_slice, hin.cfg_n, hinv1⟩
  have hv1 : sb.transport.ValidLoop W.n := hv
  obtain ⟨ds2, hinv2, hs2⟩ := seekToIndex_closed (D := D) C hinb hv1 _ hx
  refine ⟨_, run_seekBy_seekTo D fuel s h0 hd hfull h1 k h2 x s1 _ hs1 h3 hs2, rfl, rfl, rfl, h1, rfl,
    ⟨hin.cfg_slice, hin.cfg_n, hinv2⟩⟩

theorem seekIndex_zero (sr : Nat) : seekIndex sr 0 = 0 := by
  have h : trunc (0 : ℝ) = 0 := by rw [trunc_nonneg 0 (le_refl _)]; simp
  unfold seekIndex roundHalfAway
  simp only [zero_mul, h]
  norm_num

/-! ### a concrete state with a seek pending (non-vacuity of the `C09_seek_*` theorems) -/

noncomputable def exSeekWorld : World :=
  { frames := #[⟨1, 1⟩, ⟨2, 2⟩, ⟨3, 3⟩], slice := none, t0 := ⟨1, some (1, 3), true⟩ }

noncomputable def exSeekSys (cmds : Commands ℝ) : Sys Nat ℝ :=
  { cfg := ⟨none, 3⟩, sampleRate := 4, cmds := cmds
    ring := { cap := bufferSize, items := [⟨Frame.zero, 0⟩] }, errRing := Ring.new errorBufferCapacity
    reachedEnd := false, encounteredError := false, soundDropped := false, sharedPosition := 0
    ds := ⟨0, 0, none, 0, true⟩, transport := ⟨1, some (1, 3), true⟩
    core := SoundCore.new .immediate none, currentFrame := 1, frac := 0
    volume := Parameter.new (.fixed 0) Psm.identityDb, playbackRate := Parameter.new (.fixed 1) (1.0 : ℝ)
    panning := Parameter.new (.fixed 0) (0.0 : ℝ) }

theorem exSeekWorld_ok : exSeekWorld.Ok :=
  { slice_ok := by simp [exSeekWorld]
    valid := by simp [exSeekWorld, Transport.ValidLoop, World.n]
    playing := rfl }

theorem exSeek_in (cmds : Commands ℝ) : StreamIn exSeekWorld (fun p => p) (fun _ => True) (exSeekSys cmds) :=
  { cfg_slice := rfl, cfg_n := by simp [exSeekSys, exSeekWorld, World.n]
    inv := { good_dec := trivial, cur_eq := rfl, chunk_ok := fun c hc => by simp [exSeekSys] at hc } }

theorem exSeek_room (cmds : Commands ℝ) : (exSeekSys cmds).ring.isFull = false := by
  simp [exSeekSys, Ring.isFull, bufferSize]

/-- hypotheses of `C09_seek_reestablishes_ring_invariant` / `C09_seek_applied_once` -/
theorem exSeek_pending : SeekPending exSeekWorld (fun p => p) (fun _ => True) (exSeekSys { seekTo := some 0 }) 0 1 0 :=
  { tIn := exSeek_in _
    tAt := { ring := by simp [exSeekSys, World.ringSlice, World.ringSeq], transport := rfl, m_pos := Nat.le_refl _
             played := fun k hk => by omega, reached := rfl }
    a_le := by omega, cap := rfl
    alive := by simp [exSeekSys, SoundCore.new]
    kept := rfl, room := exSeek_room _, running := rfl, noLoop := rfl, noBy := rfl, pending := rfl
    inData := by rw [seekIndex_zero]; exact Nat.zero_le _
    inside := by
      rw [seekIndex_zero]
      show seekLands ⟨1, some (1, 3), true⟩ 0 < exSeekWorld.n
      simp [exSeekWorld, World.n]
      decide }

end Streaming
end K
