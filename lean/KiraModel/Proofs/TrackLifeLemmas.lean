/-
  TrackLifeLemmas.lean — removal rule, published playback state, reachable-state invariants of the
  sub-track tree (C12).  Generic in the number type.
-/
import KiraModel.Proofs.FlowLemmas

set_option linter.unusedSectionVars false

namespace K

variable {α : Type} [Add α] [Sub α] [Mul α] [Div α] [Neg α] [LT α] [LE α]
  [DecidableLT α] [DecidableLE α] [OfScientific α] [KOps α]

section
variable {S E P : Type} (C : Comps α S E P)

/-! ### removal rule -/

theorem Trk.anyNotRemovable_iff (ts : List (Trk α S E P)) :
    Trk.anyNotRemovable ts = true ↔ ∃ t ∈ ts, Trk.shouldBeRemoved t = false := by
  induction ts with
  | nil => simp [Trk.anyNotRemovable]
  | cons t ts ih =>
    rw [Trk.anyNotRemovable, Bool.or_eq_true, ih]
    simp

theorem Trk.shouldBeRemoved_iff (d : TrkData α S E P) (children pending : List (Trk α S E P)) :
    Trk.shouldBeRemoved (.node d children pending) = true
      ↔ d.marked = true ∧ (d.persist = true → d.sounds = [] ∧ d.pendingSounds = []) ∧ pending = []
          ∧ ∀ c ∈ children, Trk.shouldBeRemoved c = true := by
  rw [Trk.shouldBeRemoved]
  cases pending with
  | cons p ps => simp
  | nil =>
  simp only [List.isEmpty_nil, Bool.not_true, Bool.false_eq_true, if_false, true_and]
  by_cases hany : Trk.anyNotRemovable children = true
  · simp only [hany, if_true]
    obtain ⟨c, hc, hcr⟩ := (Trk.anyNotRemovable_iff children).mp hany
    constructor
    · intro h; cases h
    · rintro ⟨_, _, h3⟩; rw [h3 c hc] at hcr; cases hcr
  · have hall : ∀ c ∈ children, Trk.shouldBeRemoved c = true := by
      intro c hc
      cases hr : Trk.shouldBeRemoved c with
      | true => rfl
      | false => exact absurd ((Trk.anyNotRemovable_iff children).mpr ⟨c, hc, hr⟩) hany
    simp only [hany, Bool.false_eq_true, if_false]
    by_cases hp : d.persist = true
    · simp only [hp, if_true, Bool.and_eq_true, List.isEmpty_iff]
      exact ⟨fun h => ⟨h.1, fun _ => h.2, hall⟩, fun h => ⟨h.1, h.2.1 trivial⟩⟩
    · simp only [hp, Bool.false_eq_true, if_false]
      exact ⟨fun h => ⟨h, fun e => e.elim, hall⟩, fun h => h.1⟩

mutual
/-- every track below `t`, transitively: the sub-tracks the audio thread has inserted and the ones
    still waiting in a new-resource ring -/
def Trk.descendants : Trk α S E P → List (Trk α S E P)
  | .node _ children pending => Trk.descendantsList children ++ Trk.descendantsList pending
def Trk.descendantsList : List (Trk α S E P) → List (Trk α S E P)
  | [] => []
  | t :: ts => t :: (Trk.descendants t ++ Trk.descendantsList ts)
end

/-- a removable track has only removable (hence marked: handle dropped) descendants, and none of them
    is waiting in a ring -/
theorem Trk.removable_descendants (t : Trk α S E P) :
    Trk.shouldBeRemoved t = true → ∀ x ∈ Trk.descendants t, Trk.shouldBeRemoved x = true ∧ x.data.marked = true := by
  refine Trk.rec
    (motive_1 := fun t => Trk.shouldBeRemoved t = true →
      ∀ x ∈ Trk.descendants t, Trk.shouldBeRemoved x = true ∧ x.data.marked = true)
    (motive_2 := fun ts => (∀ c ∈ ts, Trk.shouldBeRemoved c = true) →
      ∀ x ∈ Trk.descendantsList ts, Trk.shouldBeRemoved x = true ∧ x.data.marked = true) ?_ ?_ ?_ t
  · intro d children pending ihc _ h x hx
    obtain ⟨_, _, hp, hc⟩ := (Trk.shouldBeRemoved_iff d children pending).mp h
    subst hp
    rw [Trk.descendants, Trk.descendantsList, List.append_nil] at hx
    exact ihc hc x hx
  · intro _ x hx; simp [Trk.descendantsList] at hx
  · intro t ts iht ihts h x hx
    rw [Trk.descendantsList] at hx
    have ht := h t (by simp)
    rcases List.mem_cons.mp hx with rfl | hx
    · refine ⟨ht, ?_⟩
      cases x with
      | node d c p => exact ((Trk.shouldBeRemoved_iff d c p).mp ht).1
    · rcases List.mem_append.mp hx with hx | hx
      · exact iht ht x hx
      · exact ihts (fun c hc => h c (by simp [hc])) x hx

theorem Trk.readCommands_id (d : TrkData α S E P) : (Trk.readCommands d).id = d.id := by
  unfold Trk.readCommands Trk.publish; dsimp only
  split <;> split <;> rfl

theorem Trk.onStart_id (t : Trk α S E P) : (Trk.onStart C t).data.id = t.data.id := by
  cases t with
  | node d c p => rw [Trk.onStart]; simp [Trk.data, Trk.readCommands_id]

theorem Trk.onStartList_ids (ts : List (Trk α S E P)) :
    (Trk.onStartList C ts).map (·.data.id) = ts.map (·.data.id) := by
  induction ts with
  | nil => simp [Trk.onStartList]
  | cons t ts ih => rw [Trk.onStartList]; simp [ih, Trk.onStart_id]

theorem Trk.onStartKept_ids (ts : List (Trk α S E P)) :
    (Trk.onStartKept C ts).map (·.data.id) = (ts.filter (fun t => !Trk.shouldBeRemoved t)).map (·.data.id) := by
  induction ts with
  | nil => simp [Trk.onStartKept]
  | cons t ts ih =>
    rw [Trk.onStartKept]
    by_cases h : Trk.shouldBeRemoved t = true
    · simp [h, ih]
    · simp [h, ih, Trk.onStart_id]

theorem Trk.onStartKept_mem (ts : List (Trk α S E P)) (t : Trk α S E P) (ht : t ∈ ts)
    (hr : Trk.shouldBeRemoved t = false) : Trk.onStart C t ∈ Trk.onStartKept C ts := by
  induction ts with
  | nil => cases ht
  | cons u us ih =>
    rw [Trk.onStartKept]
    rcases List.mem_cons.mp ht with rfl | ht
    · simp [hr]
    · split
      · exact ih ht
      · exact List.mem_cons_of_mem _ (ih ht)

theorem Trk.onStartList_mem (ts : List (Trk α S E P)) (t : Trk α S E P) (ht : t ∈ ts) :
    Trk.onStart C t ∈ Trk.onStartList C ts := by
  induction ts with
  | nil => cases ht
  | cons u us ih =>
    rw [Trk.onStartList]
    rcases List.mem_cons.mp ht with rfl | ht
    · simp
    · exact List.mem_cons_of_mem _ (ih ht)

/-! ### the published state -/

/-- the manager has not been stopped (tracks never call `stop`) -/
def Psm.Live (m : Psm α) : Prop :=
  match m.state with
  | .stopping => False
  | .stopped => False
  | _ => True

/-- the sound-level playback state a track state stands for (track.rs: `From<PlaybackState> for
    TrackPlaybackState` read backwards) -/
def TrackPlaybackState.toPlayback : TrackPlaybackState → PlaybackState
  | .playing => .playing | .pausing => .pausing | .paused => .paused
  | .waitingToResume => .waitingToResume | .resuming => .resuming

/-- the byte published by a live manager decodes to exactly the manager's state (no fallback arm) -/
theorem Psm.live_decodable (m : Psm α) (h : m.Live) :
    (decodeTrackState m.playbackState.toNat).toPlayback = m.playbackState := by
  unfold Psm.Live at h
  unfold Psm.playbackState
  cases hs : m.state <;> simp [hs] at h ⊢ <;> rfl

theorem Psm.pause_live (m : Psm α) (tw : Tween α) (h : m.Live) : (m.pause tw).Live := by
  unfold Psm.pause; split
  · exact h
  · simp [Psm.Live]

theorem Psm.resume_live (m : Psm α) (st : StartTime α) (tw : Tween α) (h : m.Live) : (m.resume st tw).Live := by
  unfold Psm.resume; split
  · exact h
  · cases st <;> simp [Psm.Live]

/-- one update of a live manager, whatever clocks exist: it is live again after the track's
    `Stopped → Paused` fallback; and when the flag is not raised it is live as it is and the playback
    state has not changed -/
theorem Psm.update_live (m : Psm α) (dt : α) (info : Info α) (h : m.Live) :
    (Trk.pausedIfStopped (m.update dt info).1).Live
      ∧ ((m.update dt info).2 = false →
          (m.update dt info).1.Live ∧ (m.update dt info).1.playbackState = m.playbackState) := by
  unfold Psm.Live at h
  unfold Psm.update
  cases hs : m.state with
  | playing => simp [Trk.pausedIfStopped, Psm.Live, Psm.playbackState, hs]
  | pausing => dsimp only; split <;> simp [Trk.pausedIfStopped, Psm.Live, Psm.playbackState, hs]
  | paused => simp [Trk.pausedIfStopped, Psm.Live, Psm.playbackState, hs]
  | resuming => dsimp only; split <;> simp [Trk.pausedIfStopped, Psm.Live, Psm.playbackState, hs]
  | stopping => simp [hs] at h
  | stopped => simp [hs] at h
  | waitingToResume st fadeIn =>
    dsimp only
    split
    · simp [Trk.pausedIfStopped, Psm.markAsPaused, Psm.Live, Psm.playbackState]
    · split
      · simp [Trk.pausedIfStopped, Psm.resume, Psm.isStopped, Psm.Live, Psm.playbackState]
      · simp [Trk.pausedIfStopped, Psm.Live, Psm.playbackState, hs]

/-- a track's manager is live and the published byte is the manager's state -/
def TrkData.Ok (d : TrkData α S E P) : Prop := d.psm.Live ∧ d.pubState = d.psm.playbackState.toNat

theorem TrkData.ok_decodable (d : TrkData α S E P) (h : d.Ok) :
    (decodeTrackState d.pubState).toPlayback = d.psm.playbackState := by
  rw [h.2]; exact Psm.live_decodable d.psm h.1

theorem Trk.readCommands_ok (d : TrkData α S E P) (h : d.Ok) : (Trk.readCommands d).Ok := by
  unfold Trk.readCommands Trk.publish; dsimp only
  cases hp : d.cmdPause <;> cases hr : d.cmdResume <;> dsimp only
  · exact h
  · exact ⟨Psm.resume_live _ _ _ h.1, rfl⟩
  · exact ⟨Psm.pause_live _ _ h.1, rfl⟩
  · exact ⟨Psm.resume_live _ _ _ (Psm.pause_live _ _ h.1), rfl⟩

theorem Trk.preUpdate_ok (dt : α) (info : Info α) (n : Nat) (d : TrkData α S E P) (h : d.Ok) :
    (Trk.preUpdate dt info n d).Ok := by
  obtain ⟨h1, h2⟩ := Psm.update_live d.psm (dt * (KOps.ofNat n : α)) info h.1
  unfold Trk.preUpdate Trk.publish; dsimp only
  split
  · exact ⟨h1, rfl⟩
  · rename_i hf
    obtain ⟨h3, h4⟩ := h2 (by simpa using hf)
    exact ⟨h3, by dsimp only; rw [h.2, h4]⟩

mutual
/-- every track of the tree (rings included) has a live manager and a faithful published state -/
def Trk.Ok : Trk α S E P → Prop
  | .node d children pending => d.Ok ∧ Trk.OkList children ∧ Trk.OkList pending
def Trk.OkList : List (Trk α S E P) → Prop
  | [] => True
  | t :: ts => Trk.Ok t ∧ Trk.OkList ts
end

theorem Trk.okList_append (a b : List (Trk α S E P)) : Trk.OkList (a ++ b) ↔ Trk.OkList a ∧ Trk.OkList b := by
  induction a with
  | nil => simp [Trk.OkList]
  | cons t ts ih => simp [Trk.OkList, ih, and_assoc]

theorem Trk.okList_iff (ts : List (Trk α S E P)) : Trk.OkList ts ↔ ∀ t ∈ ts, Trk.Ok t := by
  induction ts with
  | nil => simp [Trk.OkList]
  | cons t ts ih => simp [Trk.OkList, ih]

theorem Trk.okList_reverse (a : List (Trk α S E P)) : Trk.OkList a.reverse ↔ Trk.OkList a := by
  simp [Trk.okList_iff]

/-- `Track::process` keeps the invariant — whatever clocks exist -/
theorem Trk.process_ok (t : Trk α S E P) :
    ∀ (dt : α) (pinfo : Info α) (out : List (Frame α)) (sends : List (SendTrk α E)),
      Trk.Ok t → Trk.Ok (Trk.process C dt pinfo t out sends).1 := by
  refine Trk.rec
    (motive_1 := fun t => ∀ (dt : α) (pinfo : Info α) (out : List (Frame α)) (sends : List (SendTrk α E)),
      Trk.Ok t → Trk.Ok (Trk.process C dt pinfo t out sends).1)
    (motive_2 := fun ts => ∀ (dt : α) (info : Info α) (out temp : List (Frame α)) (sends : List (SendTrk α E)),
      Trk.OkList ts → Trk.OkList (Trk.processChildren C dt info ts out temp sends).1) ?_ ?_ ?_ t
  · intro d children pending ihc _ dt pinfo out sends hok
    obtain ⟨hd, hc, hp⟩ := hok
    have hd2 := Trk.preUpdate_ok dt (Trk.trackInfo C d pinfo) out.length d hd
    rw [Trk.process]; dsimp only
    split
    · exact ⟨hd2, hc, hp⟩
    · unfold Trk.postChildren; dsimp only
      exact ⟨hd2, ihc dt _ out _ sends hc, hp⟩
  · intro dt info out temp sends _; simp [Trk.processChildren, Trk.OkList]
  · intro t ts iht ihts dt info out temp sends hok
    rw [Trk.processChildren]; dsimp only
    exact ⟨iht dt info _ sends hok.1, ihts dt info _ _ _ hok.2⟩

theorem Trk.processChildren_ok (ts : List (Trk α S E P)) (dt : α) (info : Info α)
    (out temp : List (Frame α)) (sends : List (SendTrk α E)) (hok : Trk.OkList ts) :
    Trk.OkList (Trk.processChildren C dt info ts out temp sends).1 := by
  induction ts generalizing out temp sends with
  | nil => simp [Trk.processChildren, Trk.OkList]
  | cons t ts ih =>
    rw [Trk.processChildren]; dsimp only
    exact ⟨Trk.process_ok C t dt info _ sends hok.1, ih _ _ _ hok.2⟩

theorem Trk.onStart_ok (t : Trk α S E P) : Trk.Ok t → Trk.Ok (Trk.onStart C t) := by
  refine Trk.rec (motive_1 := fun t => Trk.Ok t → Trk.Ok (Trk.onStart C t))
    (motive_2 := fun ts => Trk.OkList ts →
      Trk.OkList (Trk.onStartKept C ts) ∧ Trk.OkList (Trk.onStartList C ts)) ?_ ?_ ?_ t
  · intro d children pending ihc ihp h
    obtain ⟨hd, hc, hp⟩ := h
    rw [Trk.onStart, Trk.Ok]
    refine ⟨?_, ?_, trivial⟩
    · have := Trk.readCommands_ok d hd
      exact ⟨this.1, this.2⟩
    · rw [Trk.okList_append, Trk.okList_reverse]; exact ⟨(ihp hp).2, (ihc hc).1⟩
  · intro _; simp [Trk.onStartKept, Trk.onStartList, Trk.OkList]
  · intro t ts iht ihts h
    rw [Trk.onStartKept, Trk.onStartList]
    refine ⟨?_, iht h.1, (ihts h.2).2⟩
    split
    · exact (ihts h.2).1
    · exact ⟨iht h.1, (ihts h.2).1⟩

theorem Trk.onStartLists_ok (ts : List (Trk α S E P)) (h : Trk.OkList ts) :
    Trk.OkList (Trk.onStartKept C ts) ∧ Trk.OkList (Trk.onStartList C ts) := by
  induction ts with
  | nil => simp [Trk.onStartKept, Trk.onStartList, Trk.OkList]
  | cons t ts ih =>
    rw [Trk.onStartKept, Trk.onStartList]
    refine ⟨?_, Trk.onStart_ok C t h.1, (ih h.2).2⟩
    split
    · exact (ih h.2).1
    · exact ⟨Trk.onStart_ok C t h.1, (ih h.2).1⟩

theorem Trk.mapAt_ok (id : Nat) (f : Trk α S E P → Trk α S E P) (hf : ∀ t, Trk.Ok t → Trk.Ok (f t))
    (t : Trk α S E P) : Trk.Ok t → Trk.Ok (Trk.mapAt id f t) := by
  refine Trk.rec (motive_1 := fun t => Trk.Ok t → Trk.Ok (Trk.mapAt id f t))
    (motive_2 := fun ts => Trk.OkList ts → Trk.OkList (Trk.mapAtList id f ts)) ?_ ?_ ?_ t
  · intro d children pending ihc ihp h
    rw [Trk.mapAt]
    split
    · exact hf _ h
    · exact ⟨h.1, ihc h.2.1, ihp h.2.2⟩
  · intro _; simp [Trk.mapAtList, Trk.OkList]
  · intro t ts iht ihts h
    rw [Trk.mapAtList]; exact ⟨iht h.1, ihts h.2⟩

theorem Trk.mapAtList_ok (id : Nat) (f : Trk α S E P → Trk α S E P) (hf : ∀ t, Trk.Ok t → Trk.Ok (f t))
    (ts : List (Trk α S E P)) (h : Trk.OkList ts) : Trk.OkList (Trk.mapAtList id f ts) := by
  induction ts with
  | nil => simp [Trk.mapAtList, Trk.OkList]
  | cons t ts ih => rw [Trk.mapAtList]; exact ⟨Trk.mapAt_ok id f hf t h.1, ih h.2⟩

theorem Trk.mapData_ok (g : TrkData α S E P → TrkData α S E P)
    (hg : ∀ d, (g d).psm = d.psm ∧ (g d).pubState = d.pubState) (t : Trk α S E P) (h : Trk.Ok t) :
    Trk.Ok (Trk.mapData g t) := by
  cases t with
  | node d c p =>
    obtain ⟨hd, hc, hp⟩ := h
    refine ⟨?_, hc, hp⟩
    unfold TrkData.Ok; rw [(hg d).1, (hg d).2]; exact hd

theorem Trk.build_ok (id : Nat) (v : α) (fx : List E) (sends : List (Nat × α)) (persist : Bool) (ibs : Nat) :
    Trk.Ok (Trk.build (S := S) (P := P) id v fx sends persist ibs) := by
  simp [Trk.build, Trk.Ok, Trk.OkList, TrkData.Ok, Psm.Live, Psm.new, Psm.playbackState]

mutual
/-- what `find` returns is a track of the tree, so it inherits the invariant -/
theorem Trk.find_ok (id : Nat) : ∀ (t x : Trk α S E P), Trk.find id t = some x → Trk.Ok t → Trk.Ok x
  | .node d children pending, x, h, hok => by
    rw [Trk.find] at h
    split at h
    · cases h; exact hok
    · split at h
      · rename_i y hy; cases h; exact Trk.findList_ok id children x hy hok.2.1
      · exact Trk.findList_ok id pending x h hok.2.2
theorem Trk.findList_ok (id : Nat) : ∀ (ts : List (Trk α S E P)) (x : Trk α S E P),
    Trk.findList id ts = some x → Trk.OkList ts → Trk.Ok x
  | [], x, h, _ => by simp [Trk.findList] at h
  | t :: ts, x, h, hok => by
    rw [Trk.findList] at h
    split at h
    · rename_i y hy; cases h; exact Trk.find_ok id t x hy hok.1
    · exact Trk.findList_ok id ts x h hok.2
end

end
end K
