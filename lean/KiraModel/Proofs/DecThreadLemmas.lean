/-
  DecThreadLemmas.lean — helper lemmas for C10 (the decoder-thread transition system of
  Model/Conc/DecoderThread.lean over the functions of Model/StreamingSound.lean).
-/
import KiraModel.Proofs.StreamLemmas
import KiraModel.Model.Conc.DecoderThread

namespace K
namespace Streaming

open Wav (Err)
open Dec (Decoder)

variable {σ : Type}

/-! ### what one `DecodeScheduler::run` can touch -/

/-- the command-reading prefix of `run` touches only the decoder's command slots, its transport and its decoder state -/
structure PreOnly (s s' : Sys σ ℝ) : Prop where
  errRing : s'.errRing = s.errRing
  encounteredError : s'.encounteredError = s.encounteredError
  core : s'.core = s.core
  ring : s'.ring = s.ring
  reachedEnd : s'.reachedEnd = s.reachedEnd
  soundDropped : s'.soundDropped = s.soundDropped

theorem PreOnly.refl (s : Sys σ ℝ) : PreOnly s s := ⟨rfl, rfl, rfl, rfl, rfl, rfl⟩

theorem PreOnly.trans {a b c : Sys σ ℝ} (h1 : PreOnly a b) (h2 : PreOnly b c) : PreOnly a c :=
  ⟨by rw [h2.errRing, h1.errRing], by rw [h2.encounteredError, h1.encounteredError], by rw [h2.core, h1.core],
   by rw [h2.ring, h1.ring], by rw [h2.reachedEnd, h1.reachedEnd], by rw [h2.soundDropped, h1.soundDropped]⟩

theorem seekToIndex_preOnly (D : Decoder σ ℝ) (s : Sys σ ℝ) (i : Nat) :
    match Sys.seekToIndex D s i with
    | .ok s' => PreOnly s s'
    | .error (_, s') => PreOnly s s' := by
  unfold Sys.seekToIndex
  cases s.transport.seekTo i s.cfg.numFrames with
  | error f => exact PreOnly.refl s
  | ok t =>
    simp only []
    cases Dec.seekToIndex D s.cfg s.ds i with
    | error e => exact ⟨rfl, rfl, rfl, rfl, rfl, rfl⟩
    | ok ds' => exact ⟨rfl, rfl, rfl, rfl, rfl, rfl⟩

theorem readSeekByCmd_preOnly (D : Decoder σ ℝ) (s : Sys σ ℝ) :
    match Sys.readSeekByCmd D s with
    | .ok s' => PreOnly s s'
    | .error (_, s') => PreOnly s s' := by
  unfold Sys.readSeekByCmd
  cases s.cmds.seekBy with
  | none => exact PreOnly.refl s
  | some amount =>
    simp only [Sys.seekBy, Sys.seekTo]
    have h0 : PreOnly s ({ s with cmds := { s.cmds with seekBy := none } } : Sys σ ℝ) := ⟨rfl, rfl, rfl, rfl, rfl, rfl⟩
    have := seekToIndex_preOnly D ({ s with cmds := { s.cmds with seekBy := none } } : Sys σ ℝ)
      (KOps.toNatSat (roundHalfAway ((s.sharedPosition + amount) * (KOps.ofNat s.sampleRate : ℝ))))
    revert this
    cases Sys.seekToIndex D ({ s with cmds := { s.cmds with seekBy := none } } : Sys σ ℝ)
      (KOps.toNatSat (roundHalfAway ((s.sharedPosition + amount) * (KOps.ofNat s.sampleRate : ℝ)))) with
    | ok s' => intro h; exact h0.trans h
    | error p => obtain ⟨a, s'⟩ := p; intro h; exact h0.trans h

theorem readSeekToCmd_preOnly (D : Decoder σ ℝ) (s : Sys σ ℝ) :
    match Sys.readSeekToCmd D s with
    | .ok s' => PreOnly s s'
    | .error (_, s') => PreOnly s s' := by
  unfold Sys.readSeekToCmd
  cases s.cmds.seekTo with
  | none => exact PreOnly.refl s
  | some position =>
    simp only [Sys.seekTo]
    have h0 : PreOnly s ({ s with cmds := { s.cmds with seekTo := none } } : Sys σ ℝ) := ⟨rfl, rfl, rfl, rfl, rfl, rfl⟩
    have := seekToIndex_preOnly D ({ s with cmds := { s.cmds with seekTo := none } } : Sys σ ℝ)
      (KOps.toNatSat (roundHalfAway (position * (KOps.ofNat s.sampleRate : ℝ))))
    revert this
    cases Sys.seekToIndex D ({ s with cmds := { s.cmds with seekTo := none } } : Sys σ ℝ)
      (KOps.toNatSat (roundHalfAway (position * (KOps.ofNat s.sampleRate : ℝ)))) with
    | ok s' => intro h; exact h0.trans h
    | error p => obtain ⟨a, s'⟩ := p; intro h; exact h0.trans h

theorem readLoopCmd_preOnly (s : Sys σ ℝ) : PreOnly s (Sys.readLoopCmd s) := by
  unfold Sys.readLoopCmd
  cases s.cmds.setLoopRegion with
  | none => exact PreOnly.refl s
  | some r => exact ⟨rfl, rfl, rfl, rfl, rfl, rfl⟩

/-- what a whole `run` can do: it never touches the error ring, the error flag or the life-cycle core; it pushes
    exactly one frame when it says `Continue`, at most one otherwise; and it sets `reached_end` only when it says `End` -/
structure RunFacts (s : Sys σ ℝ) (o : RunOutcome) (s' : Sys σ ℝ) : Prop where
  errRing : s'.errRing = s.errRing
  encounteredError : s'.encounteredError = s.encounteredError
  core : s'.core = s.core
  cap : s'.ring.cap = s.ring.cap
  pushed : o = .ok .continue → s'.ring.items.length = s.ring.items.length + 1
  grows : s.ring.items.length ≤ s'.ring.items.length
  reached : s'.reachedEnd = true → s.reachedEnd = true ∨ o = .ok .end
  soundDropped : s'.soundDropped = s.soundDropped

theorem produce_facts (D : Decoder σ ℝ) (fuel : Nat) (s : Sys σ ℝ) :
    RunFacts s (Sys.produce D fuel s).1 (Sys.produce D fuel s).2 := by
  unfold Sys.produce
  cases Dec.frameAtIndex D s.cfg fuel s.ds s.transport.position with
  | error e =>
    refine ⟨rfl, rfl, rfl, rfl, ?_, Nat.le_refl _, fun h => Or.inl h, rfl⟩
    intro h; cases e <;> simp [abortOfErr, Abort.outcome] at h
  | ok r =>
    obtain ⟨frame, ds'⟩ := r
    simp only []
    cases hp : s.ring.push ⟨frame, s.transport.position⟩ with
    | none => exact ⟨rfl, rfl, rfl, rfl, (fun h => by cases h), Nat.le_refl _, fun h => Or.inl h, rfl⟩
    | some ring' =>
      have hpush : ring'.items = s.ring.items ++ [⟨frame, s.transport.position⟩] ∧ ring'.cap = s.ring.cap := by
        unfold Ring.push at hp
        split at hp
        · injection hp with hp; subst hp; exact ⟨rfl, rfl⟩
        · cases hp
      simp only []
      cases s.transport.increment s.cfg.numFrames with
      | error f =>
        exact ⟨rfl, rfl, rfl, hpush.2, (fun h => by cases h), (by simp [hpush.1]), fun h => Or.inl h, rfl⟩
      | ok t =>
        simp only []
        cases ht : t.playing with
        | true =>
          simp only [Bool.not_true, Bool.false_eq_true, if_false]
          exact ⟨rfl, rfl, rfl, hpush.2, (fun _ => by simp [hpush.1]), (by simp [hpush.1]), fun h => Or.inl h, rfl⟩
        | false =>
          simp only [Bool.not_false, if_true]
          exact ⟨rfl, rfl, rfl, hpush.2, (fun h => by cases h), (by simp [hpush.1]), fun _ => Or.inr rfl, rfl⟩

theorem RunFacts.of_preOnly {s s1 s' : Sys σ ℝ} {o : RunOutcome} (h1 : PreOnly s s1) (h2 : RunFacts s1 o s') :
    RunFacts s o s' :=
  ⟨by rw [h2.errRing, h1.errRing], by rw [h2.encounteredError, h1.encounteredError], by rw [h2.core, h1.core],
   by rw [h2.cap, h1.ring], (fun h => by rw [h2.pushed h, h1.ring]), (by rw [← h1.ring]; exact h2.grows),
   fun h => by rw [← h1.reachedEnd]; exact h2.reached h, by rw [h2.soundDropped, h1.soundDropped]⟩

theorem RunFacts.abort {s s' : Sys σ ℝ} (a : Abort) (h : PreOnly s s') : RunFacts s a.outcome s' :=
  ⟨h.errRing, h.encounteredError, h.core, by rw [h.ring],
   (fun ho => by cases a <;> simp [Abort.outcome] at ho), (by rw [h.ring]), fun hr => by rw [h.reachedEnd] at hr; exact Or.inl hr,
   h.soundDropped⟩

/-- **every `run`** -/
theorem run_facts (D : Decoder σ ℝ) (fuel : Nat) (s : Sys σ ℝ) :
    RunFacts s (Sys.run D fuel s).1 (Sys.run D fuel s).2 := by
  unfold Sys.run
  by_cases h0 : s.core.shared = .stopped
  · simp only [h0, if_true]
    exact ⟨rfl, rfl, rfl, rfl, (fun h => by cases h), Nat.le_refl _, fun h => Or.inl h, rfl⟩
  · simp only [h0, if_false]
    by_cases hd : s.soundDropped = true
    · simp only [hd, if_true]
      exact ⟨rfl, rfl, rfl, rfl, (fun h => by cases h), Nat.le_refl _, fun h => Or.inl h, rfl⟩
    · simp only [hd, Bool.false_eq_true, if_false]
      by_cases hf : s.ring.isFull = true
      · simp only [hf, if_true]
        exact ⟨rfl, rfl, rfl, rfl, (fun h => by cases h), Nat.le_refl _, fun h => Or.inl h, rfl⟩
      · simp only [hf, Bool.false_eq_true, if_false]
        have hl := readLoopCmd_preOnly s
        have hb := readSeekByCmd_preOnly D (Sys.readLoopCmd s)
        revert hb
        cases Sys.readSeekByCmd D (Sys.readLoopCmd s) with
        | error p => obtain ⟨a, s'⟩ := p; intro hb; exact RunFacts.abort a (hl.trans hb)
        | ok s1 =>
          intro hb
          simp only []
          have ht := readSeekToCmd_preOnly D s1
          revert ht
          cases Sys.readSeekToCmd D s1 with
          | error p => obtain ⟨a, s'⟩ := p; intro ht; exact RunFacts.abort a ((hl.trans hb).trans ht)
          | ok s2 =>
            intro ht
            exact RunFacts.of_preOnly ((hl.trans hb).trans ht) (produce_facts D fuel s2)

/-- a Stopped sound: `run` says `End` at once and changes nothing -/
theorem run_stopped (D : Decoder σ ℝ) (fuel : Nat) (s : Sys σ ℝ) (h : s.core.shared = .stopped) :
    Sys.run D fuel s = (.ok .end, s) := by
  unfold Sys.run; simp [h]

/-- a sound that was dropped (refused by a full track, discarded with its track or manager): `run` says `End` at
    once and changes nothing -/
theorem run_dropped (D : Decoder σ ℝ) (fuel : Nat) (s : Sys σ ℝ) (h : s.soundDropped = true) :
    Sys.run D fuel s = (.ok .end, s) := by
  unfold Sys.run; by_cases h0 : s.core.shared = .stopped <;> simp [h0, h]

/-- a full ring (sound neither Stopped nor dropped): `run` says `Wait` and changes nothing -/
theorem run_full (D : Decoder σ ℝ) (fuel : Nat) (s : Sys σ ℝ) (h0 : s.core.shared ≠ .stopped)
    (hd : s.soundDropped = false) (h : s.ring.isFull = true) : Sys.run D fuel s = (.ok .wait, s) := by
  unfold Sys.run; simp [h0, hd, h]

/-- `produce` never says `Wait` -/
theorem produce_not_wait (D : Decoder σ ℝ) (fuel : Nat) (s : Sys σ ℝ) : (Sys.produce D fuel s).1 ≠ .ok .wait := by
  unfold Sys.produce
  cases Dec.frameAtIndex D s.cfg fuel s.ds s.transport.position with
  | error e => cases e <;> simp [abortOfErr, Abort.outcome]
  | ok r =>
    obtain ⟨frame, ds'⟩ := r
    simp only []
    cases s.ring.push ⟨frame, s.transport.position⟩ with
    | none => simp
    | some ring' =>
      simp only []
      cases s.transport.increment s.cfg.numFrames with
      | error f => simp
      | ok t => simp only []; split <;> simp

/-- `Wait` comes from the full-ring test only: nothing was read, nothing changed -/
theorem run_wait (D : Decoder σ ℝ) (fuel : Nat) (s : Sys σ ℝ) (h : (Sys.run D fuel s).1 = .ok .wait) :
    (Sys.run D fuel s).2 = s := by
  unfold Sys.run at h ⊢
  by_cases h0 : s.core.shared = .stopped
  · simp [h0] at h
  · by_cases hd : s.soundDropped = true
    · simp [h0, hd] at h
    · by_cases hf : s.ring.isFull = true
      · simp [h0, hd, hf]
      · exfalso
        simp only [h0, hd, hf, if_false, Bool.false_eq_true] at h
        revert h
        cases Sys.readSeekByCmd D (Sys.readLoopCmd s) with
        | error p => obtain ⟨a, s'⟩ := p; cases a <;> simp [Abort.outcome]
        | ok s1 =>
          simp only []
          cases Sys.readSeekToCmd D s1 with
          | error p => obtain ⟨a, s'⟩ := p; cases a <;> simp [Abort.outcome]
          | ok s2 => simp only []; exact produce_not_wait D fuel s2

/-! ### what the interpolator sees, at any pace -/

/-- entry `i` of the walk's sequence if the decoder has produced it (`i < m`), silence otherwise -/
noncomputable def World.entryOrSilence (W : World) (m i : Nat) : Frame ℝ :=
  if i < m then (W.ringSeq i).frame else Frame.zero

theorem nextFrame_window {W : World} {pos : σ → Nat} {good : σ → Prop} {s : Sys σ ℝ} {a m : Nat}
    (R : RingInv W pos good s a m) (i : Nat) : s.nextFrame i = W.entryOrSilence m (a + i) := by
  unfold Sys.nextFrame World.entryOrSilence
  rw [R.tAt.ring, W.ringSlice_getElem?]
  by_cases h : a + i < m <;> simp [h]

/-- the interpolated frame: Hermite interpolation of four *consecutive* entries of the decoded sequence (silence
    where the decoder has not got yet), at the current fraction -/
theorem rawFrame_window {W : World} {pos : σ → Nat} {good : σ → Prop} {s : Sys σ ℝ} {a m : Nat}
    (R : RingInv W pos good s a m) :
    s.rawFrame = interpolateFrame (W.entryOrSilence m a) (W.entryOrSilence m (a + 1)) (W.entryOrSilence m (a + 2))
      (W.entryOrSilence m (a + 3)) s.frac := by
  unfold Sys.rawFrame
  rw [nextFrame_window R 0, nextFrame_window R 1, nextFrame_window R 2, nextFrame_window R 3]
  simp

/-- at an integer position the frame heard is entry `a + 1` itself (or silence) -/
theorem rawFrame_integer {W : World} {pos : σ → Nat} {good : σ → Prop} {s : Sys σ ℝ} {a m : Nat}
    (R : RingInv W pos good s a m) (h0 : s.frac = 0) : s.rawFrame = W.entryOrSilence m (a + 1) := by
  rw [rawFrame_window R, h0]
  exact interpolateFrame_zero _ _ _ _

/-- one rendered frame at any pace: the output is the shaded interpolated frame, and the ring invariant holds again
    with the consumer no further back and never past the producer -/
theorem renderFrame_window {W : World} {pos : σ → Nat} {good : σ → Prop} {s s' : Sys σ ℝ} {a m : Nat}
    (R : RingInv W pos good s a m) (fuel : Nat) (t dt : ℝ) (out : Frame ℝ)
    (h : s.renderFrame fuel t dt = .ok (s', out)) :
    out = s.shade t s.rawFrame ∧ ∃ a', a ≤ a' ∧ a' ≤ m ∧ RingInv W pos good s' a' m := by
  have hA := renderFrame_audioOnly fuel s s' t dt out h
  obtain ⟨a', hle, R'⟩ := audioOnly_ringInv R hA
  refine ⟨?_, a', hle, R'.a_le, R'⟩
  unfold Sys.renderFrame at h
  cases hs : Sys.stepPos fuel { s with frac := s.frac + s.fracStep t dt } with
  | error e => rw [hs] at h; exact absurd h (by simp)
  | ok s1 =>
    simp only [hs] at h
    injection h with h; injection h with _ h2
    exact h2.symm

/-! ### frames that trickle in while the audio thread starves inside one `process` call are consumed unheard -/

/-- what a decoder-loop iteration does to the ring (`produce_at`): one more entry at the back -/
def pushEntry (s : Sys σ ℝ) (y : TimestampedFrame ℝ) : Sys σ ℝ :=
  { s with ring := { s.ring with items := s.ring.items ++ [y] } }

/-- frame-granular interleaving inside ONE `process` call (the `slots() < 2` test is made once, before the loop):
    before each output frame the decoder thread delivers exactly one more entry -/
noncomputable def trickle (fuel : Nat) (t dt : ℝ) : List (TimestampedFrame ℝ) → Sys σ ℝ → Except Fault (Sys σ ℝ × List (Frame ℝ))
  | [], s => .ok (s, [])
  | y :: ys, s =>
    match (pushEntry s y).renderFrame fuel t dt with
    | .error f => .error f
    | .ok (s', out) =>
      match trickle fuel t dt ys s' with
      | .error f => .error f
      | .ok (s'', outs) => .ok (s'', out :: outs)

/-- the ring is empty, the fraction 0, the end not reached, unit step (`sample_rate · rate · dt = 1`) -/
structure Starved (s : Sys σ ℝ) (dt : ℝ) : Prop where
  empty : s.ring.items = []
  frac : s.frac = 0
  notEnd : s.reachedEnd = false
  unit : ∀ t, s.fracStep t dt = 1

theorem starved_frame (fuel : Nat) (hfuel : 2 ≤ fuel) (s : Sys σ ℝ) (t dt : ℝ) (h : Starved s dt)
    (y : TimestampedFrame ℝ) :
    ∃ s', (pushEntry s y).renderFrame fuel t dt = .ok (s', s.shade t Frame.zero) ∧ Starved s' dt ∧
      (∀ t' f, s'.shade t' f = s.shade t' f) := by
  have hf : (pushEntry s y).frac = 0 := h.frac
  have hstep : (pushEntry s y).fracStep t dt = 1 := h.unit t
  have hraw : (pushEntry s y).rawFrame = Frame.zero := by
    unfold Sys.rawFrame
    rw [hf]
    simp only [r32_real]
    rw [interpolateFrame_zero]
    unfold Sys.nextFrame pushEntry
    simp [h.empty]
  unfold Sys.renderFrame
  rw [stepPos_spec fuel _ (by show (0 : ℝ) ≤ (pushEntry s y).frac + (pushEntry s y).fracStep t dt; rw [hf, hstep]; norm_num)
    (by show ⌊(pushEntry s y).frac + (pushEntry s y).fracStep t dt⌋₊ < fuel; rw [hf, hstep]; simp; omega)]
  simp only []
  have hk : ⌊(pushEntry s y).frac + (pushEntry s y).fracStep t dt⌋₊ = 1 := by rw [hf, hstep]; simp
  rw [hk, hraw]
  refine ⟨_, rfl, ?_, ?_⟩
  · unfold Sys.checkEnd
    have hre : (pushEntry s y).reachedEnd = false := h.notEnd
    simp only [hre, Bool.false_and, Bool.false_eq_true, if_false]
    exact { empty := by show List.drop 1 (s.ring.items ++ [y]) = []; rw [h.empty]; rfl
            frac := by show (pushEntry s y).frac + (pushEntry s y).fracStep t dt - ((1 : ℕ) : ℝ) = 0; rw [hf, hstep]; norm_num
            notEnd := rfl
            unit := h.unit }
  · intro t' f
    unfold Sys.checkEnd
    have hre : (pushEntry s y).reachedEnd = false := h.notEnd
    simp only [hre, Bool.false_and, Bool.false_eq_true, if_false]
    rfl

theorem trickle_all_lost (fuel : Nat) (hfuel : 2 ≤ fuel) (t dt : ℝ) : ∀ (ys : List (TimestampedFrame ℝ)) (s : Sys σ ℝ),
    Starved s dt → ∃ s', trickle fuel t dt ys s = .ok (s', List.replicate ys.length (s.shade t Frame.zero)) ∧
      Starved s' dt := by
  intro ys
  induction ys with
  | nil => intro s h; exact ⟨s, rfl, h⟩
  | cons y ys ih =>
    intro s h
    obtain ⟨s1, h1, hs1, hsh⟩ := starved_frame fuel hfuel s t dt h y
    obtain ⟨s2, h2, hs2⟩ := ih s1 hs1
    refine ⟨s2, ?_, hs2⟩
    rw [trickle, h1]
    simp only [h2, hsh, List.length_cons, List.replicate_succ]

end Streaming

namespace DT
open Streaming

variable {σ : Type}

/-! ### a Stopped sound stays Stopped, whatever happens -/

/-- the sound is Stopped (state manager and the state mirrored to handle and decoder thread) -/
def IsStopped (s : Sys σ ℝ) : Prop := s.core.psm.playbackState = .stopped ∧ s.core.shared = .stopped

theorem IsStopped.inSync {s : Sys σ ℝ} (h : IsStopped s) : s.core.InSync := by
  unfold SoundCore.InSync; rw [h.1, h.2]

theorem isStopped_of_core {s s' : Sys σ ℝ} (h : IsStopped s) (hr : SoundCore.Reach s.core s'.core) : IsStopped s' := by
  have h1 := SoundCore.reach_stopped hr h.1
  have h2 := SoundCore.reach_inSync hr h.inSync
  exact ⟨h1, by rw [h2, h1]⟩

/-- `process` of a Stopped sound: exact zeros, still Stopped -/
theorem process_stopped (fuel : Nat) (s : Sys σ ℝ) (len : Nat) (dt : ℝ) (info : Info ℝ) (h : IsStopped s) :
    ∃ s', s.process fuel len dt info = .ok (s', List.replicate len Frame.zero) ∧ IsStopped s' := by
  unfold Sys.process
  by_cases he : s.encounteredError = true
  · simp only [he, if_true]
    refine ⟨_, rfl, ?_⟩
    have := StaticSound.markStopped_isStopped s.core
    exact ⟨by simp [Psm.playbackState, this.1], this.2⟩
  · simp only [he, Bool.false_eq_true, if_false]
    rw [stream_processOk_eq]
    have hg1 : (s.core.gate (dt * (KOps.ofNat len : ℝ)) info).1.psm.playbackState = .stopped :=
      SoundCore.apply_stopped s.core (.gate _ info) h.1
    have hg2 : (s.core.gate (dt * (KOps.ofNat len : ℝ)) info).2 = false := by
      rw [SoundCore.gate_open_iff, hg1]; simp [PlaybackState.isAdvancing]
    simp only [hg2, Bool.false_eq_true, if_false]
    refine ⟨_, rfl, ?_⟩
    have hsync : (s.core.gate (dt * (KOps.ofNat len : ℝ)) info).1.InSync :=
      SoundCore.apply_inSync s.core (.gate _ info) h.inSync
    exact ⟨hg1, by show (s.core.gate _ info).1.shared = _; rw [hsync, hg1]⟩

/-- every transition keeps a Stopped sound Stopped -/
theorem step_stopped (D : Dec.Decoder σ ℝ) (fuel : Nat) (l l' : St σ ℝ) (x : Label ℝ) (h : IsStopped l.sys)
    (hs : step D fuel l x = some l') : IsStopped l'.sys := by
  cases x with
  | dStep =>
    simp only [step, dStep] at hs
    cases hpc : l.pc with
    | top =>
      simp only [hpc, run_stopped D fuel l.sys h.2] at hs
      injection hs with hs; subst hs; exact h
    | errPending e =>
      simp only [hpc] at hs; injection hs with hs; subst hs
      unfold Sys.pushError; split <;> exact h
    | flagPending => simp only [hpc] at hs; injection hs with hs; subst hs; exact h
    | ended => simp [hpc] at hs
    | panicked => simp [hpc] at hs
  | aStart =>
    simp only [step] at hs
    split at hs
    · split at hs
      · injection hs with hs; subst hs; exact h
      · injection hs with hs; subst hs
        apply isStopped_of_core h
        rw [onStartProcessing_eq]
        exact lifeCmds_reach l.sys.cmds l.sys.core
    · cases hs
  | aProcess len dt info =>
    simp only [step] at hs
    split at hs
    · obtain ⟨s', hp, hst⟩ := process_stopped fuel l.sys len dt info h
      rw [hp] at hs
      injection hs with hs; subst hs; exact hst
    · cases hs
  | hCmd c =>
    simp only [step] at hs
    split at hs
    · injection hs with hs; subst hs; exact h
    · cases hs
  | hPopError =>
    simp only [step] at hs
    split at hs
    · injection hs with hs; subst hs
      unfold Sys.popError; split <;> exact h
    · cases hs
  | hDrop =>
    simp only [step] at hs
    split at hs
    · injection hs with hs; subst hs; exact h
    · cases hs
  | abandon =>
    simp only [step] at hs
    split at hs
    · injection hs with hs; subst hs; exact h
    · cases hs

/-- only the decoder thread moves its own program counter -/
theorem step_pc (D : Dec.Decoder σ ℝ) (fuel : Nat) (l l' : St σ ℝ) (x : Label ℝ) (hx : x ≠ .dStep)
    (hs : step D fuel l x = some l') : l'.pc = l.pc := by
  cases x with
  | dStep => exact absurd rfl hx
  | aStart =>
    simp only [step] at hs
    split at hs
    · split at hs <;> (injection hs with hs; subst hs; rfl)
    · cases hs
  | aProcess len dt info =>
    simp only [step] at hs
    split at hs
    · split at hs
      · injection hs with hs; subst hs; rfl
      · cases hs
    · cases hs
  | hCmd c => simp only [step] at hs; split at hs <;> first | (injection hs with hs; subst hs; rfl) | cases hs
  | hPopError => simp only [step] at hs; split at hs <;> first | (injection hs with hs; subst hs; rfl) | cases hs
  | hDrop => simp only [step] at hs; split at hs <;> first | (injection hs with hs; subst hs; rfl) | cases hs
  | abandon => simp only [step] at hs; split at hs <;> first | (injection hs with hs; subst hs; rfl) | cases hs

/-- what a label of another thread leaves alone: the decoder thread's program counter, the error flag, the record
    of the first error -/
theorem step_other (D : Dec.Decoder σ ℝ) (fuel : Nat) (l l' : St σ ℝ) (x : Label ℝ) (hx : x ≠ .dStep)
    (hs : step D fuel l x = some l') :
    l'.pc = l.pc ∧ l'.sys.encounteredError = l.sys.encounteredError ∧ l'.firstErr = l.firstErr := by
  refine ⟨step_pc D fuel l l' x hx hs, ?_⟩
  cases x with
  | dStep => exact absurd rfl hx
  | aStart =>
    simp only [step] at hs
    split at hs
    · split at hs
      · injection hs with hs; subst hs; exact ⟨rfl, rfl⟩
      · injection hs with hs; subst hs
        exact ⟨by show l.sys.onStartProcessing.encounteredError = _; rw [onStartProcessing_eq], rfl⟩
    · cases hs
  | aProcess len dt info =>
    simp only [step] at hs
    split at hs
    · cases hp : l.sys.process fuel len dt info with
      | error f => rw [hp] at hs; cases hs
      | ok r =>
        obtain ⟨s', outs⟩ := r
        rw [hp] at hs
        injection hs with hs; subst hs
        exact ⟨(process_audioOnly fuel l.sys s' len dt info outs hp).encounteredError, rfl⟩
    · cases hs
  | hCmd c => simp only [step] at hs; split at hs <;> first | (injection hs with hs; subst hs; exact ⟨rfl, rfl⟩) | cases hs
  | hPopError =>
    simp only [step] at hs
    split at hs
    · injection hs with hs; subst hs
      refine ⟨?_, rfl⟩
      show (l.sys.popError).2.encounteredError = _
      unfold Sys.popError; split <;> rfl
    · cases hs
  | hDrop => simp only [step] at hs; split at hs <;> first | (injection hs with hs; subst hs; exact ⟨rfl, rfl⟩) | cases hs
  | abandon => simp only [step] at hs; split at hs <;> first | (injection hs with hs; subst hs; exact ⟨rfl, rfl⟩) | cases hs

/-- has the thread ended (by `break` or by unwinding)? Either way the scheduler, hence the decoder, is dropped -/
def Pc.gone : Pc → Bool
  | .ended => true
  | .panicked => true
  | _ => false

/-- how many of its own steps a decoder thread needs to end once there is a reason to (the sound is Stopped or was
    dropped, or a `run` has failed): 1 at the loop top (the next `run` says `End`), 2 right after a failed `run`
    (error push; flag store + `break`), 1 between the two -/
def Pc.rank : Pc → Nat
  | .top => 1
  | .errPending _ => 2
  | .flagPending => 1
  | .ended => 0
  | .panicked => 0

theorem Pc.rank_le_two (pc : Pc) : pc.rank ≤ 2 := by cases pc <;> simp [Pc.rank]

/-! ### a dropped sound stays dropped, a thread that left the loop top never comes back -/

/-- every transition keeps a dropped sound dropped (`is_abandoned()` never becomes false again) -/
theorem step_dropped (D : Dec.Decoder σ ℝ) (fuel : Nat) (l l' : St σ ℝ) (x : Label ℝ) (h : l.sys.soundDropped = true)
    (hs : step D fuel l x = some l') : l'.sys.soundDropped = true := by
  cases x with
  | dStep =>
    simp only [step, dStep] at hs
    cases hpc : l.pc with
    | top =>
      simp only [hpc, run_dropped D fuel l.sys h] at hs
      injection hs with hs; subst hs; exact h
    | errPending e =>
      simp only [hpc] at hs; injection hs with hs; subst hs
      show (l.sys.pushError e).soundDropped = true
      unfold Sys.pushError; split <;> exact h
    | flagPending => simp only [hpc] at hs; injection hs with hs; subst hs; exact h
    | ended => simp [hpc] at hs
    | panicked => simp [hpc] at hs
  | aStart =>
    simp only [step] at hs
    split at hs
    · split at hs
      · injection hs with hs; subst hs; exact h
      · injection hs with hs; subst hs
        show l.sys.onStartProcessing.soundDropped = true
        rw [onStartProcessing_eq]; exact h
    · cases hs
  | aProcess len dt info =>
    simp only [step] at hs
    split at hs
    · cases hp : l.sys.process fuel len dt info with
      | error f => rw [hp] at hs; cases hs
      | ok r =>
        obtain ⟨s', outs⟩ := r
        rw [hp] at hs
        injection hs with hs; subst hs
        show s'.soundDropped = true
        rw [(process_audioOnly fuel l.sys s' len dt info outs hp).soundDropped]; exact h
    · cases hs
  | hCmd c => simp only [step] at hs; split at hs <;> first | (injection hs with hs; subst hs; exact h) | cases hs
  | hPopError =>
    simp only [step] at hs
    split at hs
    · injection hs with hs; subst hs
      show (l.sys.popError).2.soundDropped = true
      unfold Sys.popError; split <;> exact h
    · cases hs
  | hDrop => simp only [step] at hs; split at hs <;> first | (injection hs with hs; subst hs; exact h) | cases hs
  | abandon => simp only [step] at hs; split at hs <;> first | (injection hs with hs; subst hs; rfl) | cases hs

/-- the decoder thread never comes back to its loop top once it has left it: after a failed `run` the only way on is
    error push → flag store → `break` -/
theorem step_offTop (D : Dec.Decoder σ ℝ) (fuel : Nat) (l l' : St σ ℝ) (x : Label ℝ) (h : l.pc ≠ .top)
    (hs : step D fuel l x = some l') : l'.pc ≠ .top := by
  by_cases hx : x = .dStep
  · subst hx
    simp only [step, dStep] at hs
    cases hpc : l.pc with
    | top => exact absurd hpc h
    | errPending e => simp only [hpc] at hs; injection hs with hs; subst hs; intro h'; cases h'
    | flagPending => simp only [hpc] at hs; injection hs with hs; subst hs; intro h'; cases h'
    | ended => simp [hpc] at hs
    | panicked => simp [hpc] at hs
  · rw [step_pc D fuel l l' x hx hs]; exact h

/-- **a reason for the thread to end**: the sound is Stopped, or it was dropped, or the thread has already left its
    loop top for good (a `run` failed — or it is gone already) -/
def Ending (l : St σ ℝ) : Prop := IsStopped l.sys ∨ l.sys.soundDropped = true ∨ l.pc ≠ .top

/-- a reason to end never goes away -/
theorem step_ending (D : Dec.Decoder σ ℝ) (fuel : Nat) (l l' : St σ ℝ) (x : Label ℝ) (h : Ending l)
    (hs : step D fuel l x = some l') : Ending l' := by
  rcases h with h | h | h
  · exact Or.inl (step_stopped D fuel l l' x h hs)
  · exact Or.inr (Or.inl (step_dropped D fuel l l' x h hs))
  · exact Or.inr (Or.inr (step_offTop D fuel l l' x h hs))

/-- with a reason to end, every step of the thread takes it one closer to the loop exit -/
theorem dStep_ending_rank (D : Dec.Decoder σ ℝ) (fuel : Nat) (l : St σ ℝ) (h : Ending l) :
    (l.pc.gone = true ∧ dStep D fuel l = none) ∨ (∃ l', dStep D fuel l = some l' ∧ l'.pc.rank + 1 = l.pc.rank) := by
  unfold dStep
  cases hpc : l.pc with
  | top =>
    right
    have hrun : Sys.run D fuel l.sys = (.ok .end, l.sys) := by
      rcases h with h | h | h
      · exact run_stopped D fuel l.sys h.2
      · exact run_dropped D fuel l.sys h
      · exact absurd hpc h
    simp only [hrun]; exact ⟨_, rfl, rfl⟩
  | errPending e => right; exact ⟨_, rfl, rfl⟩
  | flagPending => right; exact ⟨_, rfl, rfl⟩
  | ended => left; exact ⟨rfl, rfl⟩
  | panicked => left; exact ⟨rfl, rfl⟩

/-- the number of decoder-thread steps in a schedule -/
def countD : List (Label ℝ) → Nat
  | [] => 0
  | .dStep :: xs => countD xs + 1
  | _ :: xs => countD xs

/-- a property every transition keeps is kept by every schedule -/
theorem runSched_keeps (D : Dec.Decoder σ ℝ) (fuel : Nat) (P : St σ ℝ → Prop)
    (hP : ∀ l l' x, P l → step D fuel l x = some l' → P l') : ∀ (xs : List (Label ℝ)) (l : St σ ℝ),
    P l → P (runSched D fuel l xs) := by
  intro xs
  induction xs with
  | nil => intro l h; exact h
  | cons x xs ih =>
    intro l h
    simp only [runSched]
    cases hs : step D fuel l x with
    | none => exact ih l h
    | some l' => exact ih l' (hP l l' x h hs)

theorem runSched_ending_ends (D : Dec.Decoder σ ℝ) (fuel : Nat) : ∀ (xs : List (Label ℝ)) (l : St σ ℝ),
    Ending l → l.pc.rank ≤ countD xs → (runSched D fuel l xs).pc.gone = true ∧ Ending (runSched D fuel l xs) := by
  intro xs
  induction xs with
  | nil =>
    intro l h hr
    simp only [countD, Nat.le_zero_eq] at hr
    refine ⟨?_, h⟩
    show l.pc.gone = true
    cases hpc : l.pc <;> simp [hpc, Pc.rank] at hr <;> rfl
  | cons x xs ih =>
    intro l h hr
    by_cases hx : x = .dStep
    · subst hx
      simp only [countD] at hr
      rcases dStep_ending_rank D fuel l h with ⟨hg, hn⟩ | ⟨l', hl', hrk⟩
      · have : step D fuel l .dStep = none := hn
        simp only [runSched, this, Option.getD_none]
        have hr0 : l.pc.rank = 0 := by cases hpc : l.pc <;> simp [hpc, Pc.gone] at hg <;> rfl
        exact ih l h (by omega)
      · have : step D fuel l .dStep = some l' := hl'
        simp only [runSched, this, Option.getD_some]
        exact ih l' (step_ending D fuel l l' .dStep h this) (by omega)
    · have hc : countD (x :: xs) = countD xs := by cases x <;> first | rfl | exact absurd rfl hx
      rw [hc] at hr
      simp only [runSched]
      cases hs : step D fuel l x with
      | none => simp only [Option.getD_none]; exact ih l h hr
      | some l' =>
        simp only [Option.getD_some]
        have hpc := step_pc D fuel l l' x hx hs
        exact ih l' (step_ending D fuel l l' x h hs) (by rw [hpc]; exact hr)

/-- a Stopped sound is still Stopped after any schedule -/
theorem runSched_stopped (D : Dec.Decoder σ ℝ) (fuel : Nat) (xs : List (Label ℝ)) (l : St σ ℝ) (h : IsStopped l.sys) :
    IsStopped (runSched D fuel l xs).sys :=
  runSched_keeps D fuel (fun l => IsStopped l.sys) (fun l l' x h hs => step_stopped D fuel l l' x h hs) xs l h


/-! ### invariants of every reachable state -/

/-- what `into_sound` hands to the three threads: nothing reached, no error yet, an empty 1-slot error ring -/
structure Fresh (s : Sys σ ℝ) : Prop where
  reachedEnd : s.reachedEnd = false
  encounteredError : s.encounteredError = false
  errItems : s.errRing.items = []
  errCap : s.errRing.cap = 1

/-- the invariant -/
structure Inv (l : St σ ℝ) : Prop where
  /-- the decoder reached the end of the data ⇒ its thread has ended (in that very step) -/
  endEnded : l.sys.reachedEnd = true → l.pc = .ended
  errCap : l.sys.errRing.cap = 1
  errSome : ∀ e, l.pc = .errPending e → l.firstErr.isSome = true
  /-- until the handle pops: the error ring is empty (no error yet, or the first one is about to be pushed) or
      holds exactly the first error -/
  errRing : l.pops = 0 →
    (l.sys.errRing.items = [] ∧ (l.firstErr = none ∨ ∃ e, l.pc = .errPending e ∧ l.firstErr = some e)) ∨
    (∃ e, l.sys.errRing.items = [e] ∧ l.firstErr = some e)
  /-- once the flag is (about to be) set the first error is in the ring -/
  flagged : l.pops = 0 → (l.pc = .flagPending ∨ l.sys.encounteredError = true) →
    ∃ e, l.sys.errRing.items = [e] ∧ l.firstErr = some e

theorem inv_init (sys0 : Sys σ ℝ) (h : Fresh sys0) : Inv (St.init sys0) :=
  { endEnded := fun hr => by rw [show (St.init sys0).sys.reachedEnd = sys0.reachedEnd from rfl, h.reachedEnd] at hr; cases hr
    errCap := h.errCap
    errSome := fun e he => by cases he
    errRing := fun _ => Or.inl ⟨h.errItems, Or.inl rfl⟩
    flagged := fun _ hf => by
      rcases hf with hf | hf
      · cases hf
      · rw [show (St.init sys0).sys.encounteredError = sys0.encounteredError from rfl, h.encounteredError] at hf; cases hf }

theorem inv_step (D : Dec.Decoder σ ℝ) (fuel : Nat) (l l' : St σ ℝ) (x : Label ℝ) (I : Inv l)
    (hs : step D fuel l x = some l') : Inv l' := by
  cases x with
  | dStep =>
    simp only [step, dStep] at hs
    cases hpc : l.pc with
    | top =>
      simp only [hpc] at hs
      have F := run_facts D fuel l.sys
      have hnotEnd : l.sys.reachedEnd = false := by
        cases hre : l.sys.reachedEnd with
        | false => rfl
        | true => have := I.endEnded hre; rw [hpc] at this; cases this
      have hnoflagpc : ¬ (l.pc = .flagPending) := by rw [hpc]; intro h; cases h
      have hring0 := I.errRing
      have hflag0 := I.flagged
      rw [hpc] at hring0
      generalize hr : Sys.run D fuel l.sys = r at hs F
      obtain ⟨o, s'⟩ := r
      simp only [] at hs F
      have hreached : s'.reachedEnd = true → o = .ok .end := by
        intro h
        rcases F.reached h with h1 | h1
        · rw [hnotEnd] at h1; cases h1
        · exact h1
      have hringA : l.pops = 0 → (s'.errRing.items = [] ∧ l.firstErr = none) ∨ (∃ e, s'.errRing.items = [e] ∧ l.firstErr = some e) := by
        intro hp
        rw [F.errRing]
        rcases hring0 hp with ⟨h1, h2⟩ | h2
        · rcases h2 with h2 | ⟨e, he, _⟩
          · exact Or.inl ⟨h1, h2⟩
          · cases he
        · exact Or.inr h2
      have hflagA : l.pops = 0 → s'.encounteredError = true → ∃ e, s'.errRing.items = [e] ∧ l.firstErr = some e := by
        intro hp he
        rw [F.encounteredError] at he
        rw [F.errRing]
        exact hflag0 hp (Or.inr he)
      cases o with
      | ok n =>
        cases n with
        | «continue» =>
          simp only [] at hs; injection hs with hs; subst hs
          exact { endEnded := fun h => by have := hreached h; cases this
                  errCap := by show s'.errRing.cap = 1; rw [F.errRing]; exact I.errCap
                  errSome := fun e he => by cases he
                  errRing := fun hp => by
                    rcases hringA hp with ⟨h1, h2⟩ | h2
                    · exact Or.inl ⟨h1, Or.inl h2⟩
                    · exact Or.inr h2
                  flagged := fun hp hf => by
                    rcases hf with hf | hf
                    · cases hf
                    · exact hflagA hp hf }
        | wait =>
          simp only [] at hs; injection hs with hs; subst hs
          exact { endEnded := fun h => by have := hreached h; cases this
                  errCap := by show s'.errRing.cap = 1; rw [F.errRing]; exact I.errCap
                  errSome := fun e he => by cases he
                  errRing := fun hp => by
                    rcases hringA hp with ⟨h1, h2⟩ | h2
                    · exact Or.inl ⟨h1, Or.inl h2⟩
                    · exact Or.inr h2
                  flagged := fun hp hf => by
                    rcases hf with hf | hf
                    · cases hf
                    · exact hflagA hp hf }
        | «end» =>
          simp only [] at hs; injection hs with hs; subst hs
          exact { endEnded := fun _ => rfl
                  errCap := by show s'.errRing.cap = 1; rw [F.errRing]; exact I.errCap
                  errSome := fun e he => by cases he
                  errRing := fun hp => by
                    rcases hringA hp with ⟨h1, h2⟩ | h2
                    · exact Or.inl ⟨h1, Or.inl h2⟩
                    · exact Or.inr h2
                  flagged := fun hp hf => by
                    rcases hf with hf | hf
                    · cases hf
                    · exact hflagA hp hf }
      | err e =>
        simp only [] at hs; injection hs with hs; subst hs
        exact { endEnded := fun h => by have := hreached h; cases this
                errCap := by show s'.errRing.cap = 1; rw [F.errRing]; exact I.errCap
                errSome := fun e' _ => by
                  show (match l.firstErr with | some f => some f | none => some e).isSome = true
                  cases l.firstErr <;> rfl
                errRing := fun hp => by
                  rcases hringA hp with ⟨h1, h2⟩ | ⟨e0, h1, h2⟩
                  · refine Or.inl ⟨h1, Or.inr ⟨e, rfl, ?_⟩⟩
                    show (match l.firstErr with | some f => some f | none => some e) = some e
                    rw [h2]
                  · refine Or.inr ⟨e0, h1, ?_⟩
                    show (match l.firstErr with | some f => some f | none => some e) = some e0
                    rw [h2]
                flagged := fun hp hf => by
                  rcases hf with hf | hf
                  · cases hf
                  · obtain ⟨e0, h1, h2⟩ := hflagA hp hf
                    refine ⟨e0, h1, ?_⟩
                    show (match l.firstErr with | some f => some f | none => some e) = some e0
                    rw [h2] }
      | fault f =>
        simp only [] at hs; injection hs with hs; subst hs
        exact { endEnded := fun h => by have := hreached h; cases this
                errCap := by show s'.errRing.cap = 1; rw [F.errRing]; exact I.errCap
                errSome := fun e he => by cases he
                errRing := fun hp => by
                  rcases hringA hp with ⟨h1, h2⟩ | h2
                  · exact Or.inl ⟨h1, Or.inl h2⟩
                  · exact Or.inr h2
                flagged := fun hp hf => by
                  rcases hf with hf | hf
                  · cases hf
                  · exact hflagA hp hf }
    | errPending e =>
      simp only [hpc] at hs; injection hs with hs; subst hs
      have hnotEnd : l.sys.reachedEnd = false := by
        cases hre : l.sys.reachedEnd with
        | false => rfl
        | true => have := I.endEnded hre; rw [hpc] at this; cases this
      have hsome := I.errSome e hpc
      have hpush : ∀ (hp : l.pops = 0), ∃ e0, (l.sys.pushError e).errRing.items = [e0] ∧ l.firstErr = some e0 := by
        intro hp
        unfold Sys.pushError Ring.push
        rcases I.errRing hp with ⟨h1, h2⟩ | ⟨e0, h1, h2⟩
        · rcases h2 with h2 | ⟨e1, he1, h2⟩
          · rw [h2] at hsome; cases hsome
          · rw [hpc] at he1; injection he1 with he1; subst he1
            have : l.sys.errRing.items.length < l.sys.errRing.cap := by rw [h1, I.errCap]; simp
            simp only [this, if_true]
            exact ⟨e, by simp [h1], h2⟩
        · have : ¬ l.sys.errRing.items.length < l.sys.errRing.cap := by rw [h1, I.errCap]; simp
          simp only [this, if_false]
          exact ⟨e0, h1, h2⟩
      have hre : (l.sys.pushError e).reachedEnd = l.sys.reachedEnd := by unfold Sys.pushError; split <;> rfl
      have hcap : (l.sys.pushError e).errRing.cap = 1 := by
        unfold Sys.pushError Ring.push
        split
        · rename_i r hr; split at hr
          · injection hr with hr; subst hr; exact I.errCap
          · cases hr
        · exact I.errCap
      exact { endEnded := fun h => by rw [show ({ l with sys := l.sys.pushError e, pc := Pc.flagPending } : St σ ℝ).sys.reachedEnd = (l.sys.pushError e).reachedEnd from rfl, hre, hnotEnd] at h; cases h
              errCap := hcap
              errSome := fun e' he => by cases he
              errRing := fun hp => Or.inr (hpush hp)
              flagged := fun hp _ => hpush hp }
    | flagPending =>
      simp only [hpc] at hs; injection hs with hs; subst hs
      have hnotEnd : l.sys.reachedEnd = false := by
        cases hre : l.sys.reachedEnd with
        | false => rfl
        | true => have := I.endEnded hre; rw [hpc] at this; cases this
      exact { endEnded := fun _ => rfl
              errCap := I.errCap
              errSome := fun e he => by cases he
              errRing := fun hp => Or.inr (I.flagged hp (Or.inl hpc))
              flagged := fun hp _ => I.flagged hp (Or.inl hpc) }
    | ended => simp [hpc] at hs
    | panicked => simp [hpc] at hs
  | aStart =>
    simp only [step] at hs
    split at hs
    · split at hs
      · injection hs with hs; subst hs
        exact ⟨I.endEnded, I.errCap, I.errSome, I.errRing, I.flagged⟩
      · injection hs with hs; subst hs
        have e1 : l.sys.onStartProcessing.reachedEnd = l.sys.reachedEnd := by rw [onStartProcessing_eq]
        have e2 : l.sys.onStartProcessing.errRing = l.sys.errRing := by rw [onStartProcessing_eq]
        have e3 : l.sys.onStartProcessing.encounteredError = l.sys.encounteredError := by rw [onStartProcessing_eq]
        exact { endEnded := fun h => I.endEnded (by rw [← e1]; exact h)
                errCap := by show l.sys.onStartProcessing.errRing.cap = 1; rw [e2]; exact I.errCap
                errSome := I.errSome
                errRing := fun hp => by show (l.sys.onStartProcessing.errRing.items = [] ∧ _) ∨ _; rw [e2]; exact I.errRing hp
                flagged := fun hp hf => by
                  show ∃ e, l.sys.onStartProcessing.errRing.items = [e] ∧ _
                  rw [e2]
                  refine I.flagged hp ?_
                  rcases hf with hf | hf
                  · exact Or.inl hf
                  · exact Or.inr (by rw [← e3]; exact hf) }
    · cases hs
  | aProcess len dt info =>
    simp only [step] at hs
    split at hs
    · cases hp : l.sys.process fuel len dt info with
      | error f => rw [hp] at hs; cases hs
      | ok r =>
        obtain ⟨s', outs⟩ := r
        rw [hp] at hs
        injection hs with hs; subst hs
        have A := process_audioOnly fuel l.sys s' len dt info outs hp
        exact { endEnded := fun h => I.endEnded (by rw [← A.reachedEnd]; exact h)
                errCap := by show s'.errRing.cap = 1; rw [A.errRing]; exact I.errCap
                errSome := I.errSome
                errRing := fun hp => by show (s'.errRing.items = [] ∧ _) ∨ _; rw [A.errRing]; exact I.errRing hp
                flagged := fun hp hf => by
                  show ∃ e, s'.errRing.items = [e] ∧ _
                  rw [A.errRing]
                  refine I.flagged hp ?_
                  rcases hf with hf | hf
                  · exact Or.inl hf
                  · exact Or.inr (by rw [← A.encounteredError]; exact hf) }
    · cases hs
  | hCmd c =>
    simp only [step] at hs
    split at hs
    · injection hs with hs; subst hs
      exact ⟨I.endEnded, I.errCap, I.errSome, I.errRing, I.flagged⟩
    · cases hs
  | hPopError =>
    simp only [step] at hs
    split at hs
    · injection hs with hs; subst hs
      unfold Sys.popError Ring.pop
      cases hitems : l.sys.errRing.items with
      | nil =>
        simp only []
        exact ⟨I.endEnded, I.errCap, I.errSome, I.errRing, I.flagged⟩
      | cons e es =>
        simp only []
        exact { endEnded := I.endEnded
                errCap := I.errCap
                errSome := I.errSome
                errRing := fun hp => by simp at hp
                flagged := fun hp => by simp at hp }
    · cases hs
  | hDrop =>
    simp only [step] at hs
    split at hs
    · injection hs with hs; subst hs
      exact ⟨I.endEnded, I.errCap, I.errSome, I.errRing, I.flagged⟩
    · cases hs
  | abandon =>
    simp only [step] at hs
    split at hs
    · injection hs with hs; subst hs
      exact ⟨I.endEnded, I.errCap, I.errSome, I.errRing, I.flagged⟩
    · cases hs

/-- **every reachable state satisfies the invariant** -/
theorem inv_reachable (D : Dec.Decoder σ ℝ) (fuel : Nat) (sys0 : Sys σ ℝ) (h0 : Fresh sys0) (l : St σ ℝ)
    (hr : Reachable D fuel sys0 l) : Inv l := by
  induction hr with
  | init => exact inv_init sys0 h0
  | step x _ hs ih => exact inv_step D fuel _ _ x ih hs


/-! ### after the first error: no further decoder call, and the flag means the thread is gone -/

/-- a second invariant of every reachable state -/
structure Once (l : St σ ℝ) : Prop where
  /-- the error flag is stored in the very step that `break`s -/
  flagEnded : l.sys.encounteredError = true → l.pc = .ended
  /-- once a `run` has returned an error the thread is never at its loop top again: `run` — hence the decoder — is
      never called again -/
  errOnce : l.firstErr ≠ none → l.pc ≠ .top

theorem once_init (sys0 : Sys σ ℝ) (h : Fresh sys0) : Once (St.init sys0) :=
  { flagEnded := fun hf => by
      rw [show (St.init sys0).sys.encounteredError = sys0.encounteredError from rfl, h.encounteredError] at hf; cases hf
    errOnce := fun hf => absurd rfl hf }

theorem once_step (D : Dec.Decoder σ ℝ) (fuel : Nat) (l l' : St σ ℝ) (x : Label ℝ) (I : Once l)
    (hs : step D fuel l x = some l') : Once l' := by
  by_cases hx : x = .dStep
  · subst hx
    simp only [step, dStep] at hs
    cases hpc : l.pc with
    | top =>
      simp only [hpc] at hs
      have hflag : l.sys.encounteredError = false := by
        cases hf : l.sys.encounteredError with
        | false => rfl
        | true => have := I.flagEnded hf; rw [hpc] at this; cases this
      have hfirst : l.firstErr = none := by
        cases hf : l.firstErr with
        | none => rfl
        | some e => exact absurd hpc (I.errOnce (by rw [hf]; intro h; cases h))
      have F := run_facts D fuel l.sys
      generalize Sys.run D fuel l.sys = r at hs F
      obtain ⟨o, s'⟩ := r
      simp only [] at hs F
      have hflag' : s'.encounteredError = false := by rw [F.encounteredError]; exact hflag
      cases o with
      | ok n =>
        cases n with
        | «continue» =>
          simp only [] at hs; injection hs with hs; subst hs
          exact ⟨fun hf => (by rw [show s'.encounteredError = false from hflag'] at hf; cases hf),
                 fun hf => absurd hfirst hf⟩
        | wait =>
          simp only [] at hs; injection hs with hs; subst hs
          exact ⟨fun hf => (by rw [show s'.encounteredError = false from hflag'] at hf; cases hf),
                 fun hf => absurd hfirst hf⟩
        | «end» =>
          simp only [] at hs; injection hs with hs; subst hs
          exact ⟨fun _ => rfl, fun _ h => (by cases h)⟩
      | err e =>
        simp only [] at hs; injection hs with hs; subst hs
        exact ⟨fun hf => (by rw [show s'.encounteredError = false from hflag'] at hf; cases hf), fun _ h => (by cases h)⟩
      | fault f =>
        simp only [] at hs; injection hs with hs; subst hs
        exact ⟨fun hf => (by rw [show s'.encounteredError = false from hflag'] at hf; cases hf), fun _ h => (by cases h)⟩
    | errPending e =>
      simp only [hpc] at hs; injection hs with hs; subst hs
      have hflag : l.sys.encounteredError = false := by
        cases hf : l.sys.encounteredError with
        | false => rfl
        | true => have := I.flagEnded hf; rw [hpc] at this; cases this
      have hpush : (l.sys.pushError e).encounteredError = l.sys.encounteredError := by
        unfold Sys.pushError; split <;> rfl
      exact ⟨fun hf => (by rw [show (l.sys.pushError e).encounteredError = false from hpush.trans hflag] at hf; cases hf),
             fun _ h => (by cases h)⟩
    | flagPending =>
      simp only [hpc] at hs; injection hs with hs; subst hs
      exact ⟨fun _ => rfl, fun _ h => (by cases h)⟩
    | ended => simp [hpc] at hs
    | panicked => simp [hpc] at hs
  · obtain ⟨h1, h2, h3⟩ := step_other D fuel l l' x hx hs
    exact ⟨fun hf => (by rw [h1]; exact I.flagEnded (by rw [← h2]; exact hf)),
           fun hf => by rw [h1]; exact I.errOnce (by rw [← h3]; exact hf)⟩

theorem once_reachable (D : Dec.Decoder σ ℝ) (fuel : Nat) (sys0 : Sys σ ℝ) (h0 : Fresh sys0) (l : St σ ℝ)
    (hr : Reachable D fuel sys0 l) : Once l := by
  induction hr with
  | init => exact once_init sys0 h0
  | step x _ hs ih => exact once_step D fuel _ _ x ih hs


/-! ### two concrete sounds (non-vacuity; they were the witnesses of the two defects before the repair) -/

/-- a decoder of one silent frame (one packet; every seek lands on frame 0) -/
def oneDecoder : Dec.Decoder Unit ℝ where
  decode _ := .ok ([Frame.zero], ())
  seek _ _ := .ok (0, ())

/-- a one-frame sound that loops for ever: `StreamingSoundData::from_decoder(..).loop_region(0..)` -/
noncomputable def loopData : StreamingSoundData Unit ℝ :=
  { dec := (), sampleRate := 1, decFrames := 1, slice := none
    settings := { startTime := .immediate, startPosition := .samples 0
                  loopRegion := some ⟨.samples 0, .endOfAudio⟩
                  volume := .fixed 0, playbackRate := .fixed 1, panning := .fixed 0, fadeInTween := none } }

/-- the looping sound with `items` in its ring and decoder-facing state `ds` -/
noncomputable def loopSys (items : List (TimestampedFrame ℝ)) (ds : Dec.Sched Unit ℝ) : Sys Unit ℝ :=
  { cfg := ⟨none, 1⟩, sampleRate := 1, cmds := {}, ring := { cap := bufferSize, items := items }
    errRing := Ring.new errorBufferCapacity, reachedEnd := false, encounteredError := false, soundDropped := false
    sharedPosition := (KOps.ofNat 0 : ℝ) / (KOps.ofNat 1 : ℝ), ds := ds
    transport := { position := 0, loopRegion := some (0, 1), playing := true }
    core := SoundCore.new .immediate none, currentFrame := 0, frac := (0.0 : ℝ)
    volume := Parameter.new (.fixed 0) Psm.identityDb, playbackRate := Parameter.new (.fixed 1) (1.0 : ℝ)
    panning := Parameter.new (.fixed 0) (0.0 : ℝ) }

/-- decoder-facing state right after `split` / once the single packet is cached -/
def ds0 : Dec.Sched Unit ℝ := ⟨(), 0, none, 0, true⟩
def ds1 : Dec.Sched Unit ℝ := ⟨(), 1, some ⟨0, [Frame.zero]⟩, 0, true⟩

theorem loop_new : Sys.new oneDecoder loopData = .ok (loopSys [⟨Frame.zero, 0⟩] ds0) := by
  simp [Sys.new, Dec.Sched.new, oneDecoder, loopData, PlaybackPosition.intoSamples, Transport.new, loopSys, ds0,
    Region.toSamples]

theorem loop_run (fuel : Nat) (items : List (TimestampedFrame ℝ)) (ds : Dec.Sched Unit ℝ) (hds : ds = ds0 ∨ ds = ds1) :
    Sys.run oneDecoder (fuel + 1) (loopSys items ds) =
      if bufferSize ≤ items.length then (.ok .wait, loopSys items ds)
      else (.ok .continue, loopSys (items ++ [⟨Frame.zero, 0⟩]) ds1) := by
  have hshared : (loopSys items ds).core.shared ≠ .stopped := by simp [loopSys, SoundCore.new]
  by_cases hfull : bufferSize ≤ items.length
  · simp only [hfull, if_true]
    exact run_full oneDecoder (fuel + 1) _ hshared rfl (by simp [loopSys, Ring.isFull, hfull])
  · simp only [hfull, if_false]
    rw [run_eq_produce oneDecoder (fuel + 1) _ hshared rfl (by simp [loopSys, Ring.isFull, hfull]) rfl rfl rfl]
    have hlt : items.length < bufferSize := by omega
    rcases hds with rfl | rfl
    · simp [Sys.produce, loopSys, ds0, ds1, Dec.frameAtIndex, Dec.decodeUntil, oneDecoder, Dec.Chunk.frameAt, Ring.push,
        hlt, Transport.increment, Transport.incWrap, wrapDown, Frame.zero]
    · simp [Sys.produce, loopSys, ds1, Dec.frameAtIndex, Dec.Chunk.frameAt, Ring.push,
        hlt, Transport.increment, Transport.incWrap, wrapDown, Frame.zero]

/-- a decoder whose every call fails (a broken stream) -/
def failDecoder : Dec.Decoder Unit ℝ where
  decode _ := .error .sym
  seek _ _ := .error .sym

/-- a playing one-frame sound whose decoder fails, with error ring `er` and error flag `flag` -/
noncomputable def spinSys (er : Ring Wav.Err) (flag : Bool) : Sys Unit ℝ :=
  { loopSys [⟨Frame.zero, 0⟩] ds0 with errRing := er, encounteredError := flag }

theorem spin_run (fuel : Nat) (er : Ring Wav.Err) (flag : Bool) :
    Sys.run failDecoder (fuel + 1) (spinSys er flag) = (.err .sym, spinSys er flag) := by
  have hshared : (spinSys er flag).core.shared ≠ .stopped := by simp [spinSys, loopSys, SoundCore.new]
  rw [run_eq_produce failDecoder (fuel + 1) _ hshared rfl (by simp [spinSys, loopSys, Ring.isFull, bufferSize]) rfl rfl rfl]
  simp [Sys.produce, spinSys, loopSys, ds0, Dec.frameAtIndex, Dec.decodeUntil, failDecoder, abortOfErr, Abort.outcome]

/-- one loop iteration of the failing sound: an error, no frame pushed — reported (pushed if the slot is free, flag
    set); the thread ends with it -/
theorem spin_iter (fuel : Nat) (er : Ring Wav.Err) (flag : Bool) :
    ∃ er', Sys.threadIter failDecoder (fuel + 1) (spinSys er flag) = (.erred, spinSys er' true) := by
  unfold Sys.threadIter
  rw [spin_run]
  simp only []
  unfold Sys.pushError
  cases hp : (spinSys er flag).errRing.push .sym with
  | none => exact ⟨er, by rfl⟩
  | some r => exact ⟨r, by rfl⟩

end DT
end K
