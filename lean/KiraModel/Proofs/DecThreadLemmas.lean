/-
  DecThreadLemmas.lean — helper lemmas for C10 (the decoder-thread transition system).
-/
import KiraModel.Proofs.StreamLemmas
import KiraModel.Model.Conc.DecoderThread

namespace K
end K
