/-
  GenAgreeSound.lean — agreement of the GENERATED layer (KiraModel/Gen.lean, KiraModel/GenFn.lean; regenerated from
  the Rust source by tools/gen_lean.py on every check run) with the hand-written model of static and streaming
  sounds.  See Proofs/GenAgree.lean for how these theorems are used.  Imports the model only.
-/
import KiraModel.Model.StaticSound
import KiraModel.Model.StreamingSound

set_option linter.unusedSectionVars false

namespace K

variable {α : Type} [Add α] [Sub α] [Mul α] [Div α] [Neg α] [LT α] [LE α]
  [DecidableLT α] [DecidableLE α] [OfScientific α] [KOps α]

namespace Pinned
/-- frame.rs::interpolate_frame (4-point, 3rd-order Hermite, x-form; all `f32`), over the frame operators as
    pinned here (Proofs/GenAgree.lean pins the same readings of `impl Add/Sub/Mul<f32> for Frame`) -/
def interpolateFrame (previous current next1 next2 : Frame α) (fraction : α) : Frame α :=
  let add (a b : Frame α) : Frame α := ⟨KOps.r32 (a.left + b.left), KOps.r32 (a.right + b.right)⟩
  let sub (a b : Frame α) : Frame α := ⟨KOps.r32 (a.left - b.left), KOps.r32 (a.right - b.right)⟩
  let scale (a : Frame α) (k : α) : Frame α := ⟨KOps.r32 (a.left * k), KOps.r32 (a.right * k)⟩
  let c0 := current
  let c1 := scale (sub next1 previous) (0.5 : α)
  let c2 := sub (add (sub previous (scale current (2.5 : α))) (scale next1 (2.0 : α))) (scale next2 (0.5 : α))
  let c3 := add (scale (sub next2 previous) (0.5 : α)) (scale (sub current next1) (1.5 : α))
  add (scale (add (scale (add (scale c3 fraction) c2) fraction) c1) fraction) c0
end Pinned

/-- `interpolate_frame` (4-point, 3rd-order Hermite, x-form) -/
theorem Gen.interpolateFrame_eq (p c n1 n2 : Frame α) (x : α) :
    Gen.interpolateFrame p c n1 n2 x = Pinned.interpolateFrame p c n1 n2 x
    ∧ interpolateFrame p c n1 n2 x = Pinned.interpolateFrame p c n1 n2 x := ⟨rfl, rfl⟩

/-- the resampler keeps a window of four frames -/
theorem Gen.resamplerWindow_eq : Gen.resamplerWindow = 4
    ∧ ∀ r : Resampler α, [r.f0, r.f1, r.f2, r.f3].length = Gen.resamplerWindow := ⟨rfl, fun _ => rfl⟩

/-- `BUFFER_SIZE` of the streaming ring, `ERROR_BUFFER_CAPACITY` -/
theorem Gen.streamingSizes_eq : Gen.streamingBufferSize = 16384 ∧ Streaming.bufferSize = 16384
    ∧ Gen.streamingErrorBufferCapacity = 1 ∧ Streaming.errorBufferCapacity = 1 := ⟨rfl, rfl, rfl, rfl⟩

/-- the default capacities and internal buffer size of `AudioManagerSettings::default()` -/
theorem Gen.managerDefaults_eq : Gen.defaultSubTrackCapacity = 128 ∧ Gen.defaultSendTrackCapacity = 16
    ∧ Gen.defaultClockCapacity = 8 ∧ Gen.defaultModulatorCapacity = 16 ∧ Gen.defaultListenerCapacity = 8
    ∧ Gen.defaultInternalBufferSize = 128 := ⟨rfl, rfl, rfl, rfl, rfl, rfl⟩

/-- the default raw values of a sound's three parameters (`Decibels::IDENTITY`, rate 1, `Panning::CENTER`) -/
theorem Gen.soundDefaults_eq : (Gen.staticSoundDefaultVolume : α) = Psm.identityDb
    ∧ (Gen.staticSoundDefaultPlaybackRate : α) = (1.0 : α) ∧ (Gen.staticSoundDefaultPanning : α) = (0.0 : α)
    ∧ (Gen.streamingSoundDefaultVolume : α) = Psm.identityDb
    ∧ (Gen.streamingSoundDefaultPlaybackRate : α) = (1.0 : α) ∧ (Gen.streamingSoundDefaultPanning : α) = (0.0 : α) :=
  ⟨rfl, rfl, rfl, rfl, rfl, rfl⟩

/-- hand `EndPosition` ↔ `enum EndPosition` of sound.rs (names and order) -/
def EndPosition.toTag : EndPosition α → Gen.Shape.EndPositionTag
  | .endOfAudio => .endOfAudio | .custom _ => .custom
theorem EndPosition.tag_order (e : EndPosition α) : e.ctorIdx = e.toTag.ctorIdx := by cases e <;> rfl
theorem EndPosition.tag_onto (t : Gen.Shape.EndPositionTag) : ∃ e : EndPosition α, e.toTag = t := by
  cases t
  · exact ⟨.endOfAudio, rfl⟩
  · exact ⟨.custom (.samples 0), rfl⟩

end K
