/-
  GenAgreeSound.lean — agreement of the GENERATED layer (KiraModel/Gen.lean, KiraModel/GenFn.lean; regenerated from
  the Rust source by tools/gen_lean.py on every check run) with the hand-written model of static and streaming
  sounds.  See Proofs/GenAgree.lean for how these theorems are used.  Imports the model only.
-/
import KiraModel.Model.StaticSound
import KiraModel.Model.StreamingSound

set_option linter.unusedSectionVars false

namespace K

variable {α : Type} [Add α] [Sub α] [Mul α] [Div α] [Neg α] [LT α] [LE α]
  [DecidableLT α] [DecidableLE α] [OfScientific α] [KOps α]

/-- `interpolate_frame` (4-point, 3rd-order Hermite, x-form) -/
theorem Gen.interpolateFrame_eq (p c n1 n2 : Frame α) (x : α) :
    Gen.interpolateFrame p c n1 n2 x = interpolateFrame p c n1 n2 x := rfl

/-- the resampler keeps a window of four frames -/
theorem Gen.resamplerWindow_eq : Gen.resamplerWindow = 4
    ∧ ∀ r : Resampler α, [r.f0, r.f1, r.f2, r.f3].length = Gen.resamplerWindow := ⟨rfl, fun _ => rfl⟩

/-- `BUFFER_SIZE` of the streaming ring, `ERROR_BUFFER_CAPACITY` -/
theorem Gen.streamingSizes_eq : Gen.streamingBufferSize = Streaming.bufferSize
    ∧ Gen.streamingErrorBufferCapacity = Streaming.errorBufferCapacity := ⟨rfl, rfl⟩

/-- the default raw values of a sound's three parameters (`Decibels::IDENTITY`, rate 1, `Panning::CENTER`) -/
theorem Gen.soundDefaults_eq : (Gen.staticSoundDefaultVolume : α) = Psm.identityDb
    ∧ (Gen.staticSoundDefaultPlaybackRate : α) = (1.0 : α) ∧ (Gen.staticSoundDefaultPanning : α) = (0.0 : α)
    ∧ (Gen.streamingSoundDefaultVolume : α) = Psm.identityDb
    ∧ (Gen.streamingSoundDefaultPlaybackRate : α) = (1.0 : α) ∧ (Gen.streamingSoundDefaultPanning : α) = (0.0 : α) :=
  ⟨rfl, rfl, rfl, rfl, rfl, rfl⟩

/-- hand `EndPosition` ↔ `enum EndPosition` of sound.rs (names and order) -/
def EndPosition.toTag : EndPosition α → Gen.Shape.EndPositionTag
  | .endOfAudio => .endOfAudio | .custom _ => .custom
theorem EndPosition.tag_order (e : EndPosition α) : e.ctorIdx = e.toTag.ctorIdx := by cases e <;> rfl

end K
