/-
  Helper lemmas about easing curves over ℝ.
-/
import KiraModel.Proofs.RealOps
import KiraModel.Model.Easing
import Mathlib.Tactic.Linarith
import Mathlib.Tactic.Ring
import Mathlib.Tactic.NormNum
import Mathlib.Tactic.Positivity

namespace K

/-- square-and-multiply computes `r * a^b` once the fuel covers the bits of `b`. -/
theorem powiNat_spec : ∀ (fuel : ℕ) (a r : ℝ) (b : ℕ), b < 2 ^ fuel → powiNat fuel a r b = r * a ^ b := by
  intro fuel
  induction fuel with
  | zero =>
    intro a r b hb
    have : b = 0 := by simpa using hb
    subst this; simp [powiNat]
  | succ n ih =>
    intro a r b hb
    unfold powiNat
    have hb2 : b / 2 < 2 ^ n := by
      rw [Nat.div_lt_iff_lt_mul (by norm_num)]; rw [pow_succ] at hb; exact hb
    have hdecomp : b = 2 * (b / 2) + b % 2 := (Nat.div_add_mod b 2).symm
    simp only
    by_cases hz : b / 2 = 0
    · simp only [hz, if_true]
      have hlt : b = 0 ∨ b = 1 := by omega
      rcases hlt with rfl | rfl <;> simp
    · simp only [hz, if_false]
      rw [ih _ _ _ hb2]
      have hsq : ∀ k : ℕ, a ^ (2 * k) = (a * a) ^ k := fun k => by rw [pow_mul, sq]
      by_cases hodd : b % 2 = 1
      · simp only [hodd, if_true]
        have : a ^ b = (a * a) ^ (b / 2) * a := by
          conv_lhs => rw [hdecomp, hodd]
          rw [pow_add, hsq, pow_one]
        rw [this]; ring
      · have heven : b % 2 = 0 := by omega
        have h01 : ¬ ((0 : ℕ) = 1) := by decide
        simp only [heven, h01, if_false]
        have : a ^ b = (a * a) ^ (b / 2) := by
          conv_lhs => rw [hdecomp, heven]
          rw [Nat.add_zero, hsq]
        rw [this]

theorem powi_pos_exp (x : ℝ) (p : ℤ) (hp : 0 < p) (hb : p < 2 ^ 31) : powi x p = x ^ p.natAbs := by
  unfold powi
  have hn : ¬ p < 0 := by omega
  have hlt : p.natAbs < 2 ^ 64 := by omega
  simp only [hn, if_false]
  rw [powiNat_spec 64 x _ _ hlt]; simp

/-- the easing's exponent is positive (the property's domain) -/
def Easing.PosPower : Easing ℝ → Prop
  | .linear => True
  | .inPowi p => 0 < p ∧ p < 2 ^ 31
  | .outPowi p => 0 < p ∧ p < 2 ^ 31
  | .inOutPowi p => 0 < p ∧ p < 2 ^ 31
  | .inPowf p => 0 < p
  | .outPowf p => 0 < p
  | .inOutPowf p => 0 < p

/-- Every built-in easing is, over ℝ, one of three shapes applied to a monotone power function
    `g` on `[0, ∞)` with `g 0 = 0`, `g 1 = 1`. -/
structure PowLike (g : ℝ → ℝ) : Prop where
  zero : g 0 = 0
  one : g 1 = 1
  mono : ∀ a b, 0 ≤ a → a ≤ b → g a ≤ g b

theorem powLike_natpow (n : ℕ) (hn : 0 < n) : PowLike (fun x => x ^ n) where
  zero := by simp [Nat.pos_iff_ne_zero.mp hn]
  one := by simp
  mono := fun a b ha hab => pow_le_pow_left₀ ha hab n

theorem powLike_rpow (p : ℝ) (hp : 0 < p) : PowLike (fun x => x ^ p) where
  zero := Real.zero_rpow (ne_of_gt hp)
  one := Real.one_rpow p
  mono := fun a b ha hab => Real.rpow_le_rpow ha hab hp.le

theorem PowLike.nonneg {g : ℝ → ℝ} (h : PowLike g) (a : ℝ) (ha : 0 ≤ a) : 0 ≤ g a := by
  have := h.mono 0 a le_rfl ha; rwa [h.zero] at this

theorem PowLike.le_one {g : ℝ → ℝ} (h : PowLike g) (a : ℝ) (ha : 0 ≤ a) (ha1 : a ≤ 1) : g a ≤ 1 := by
  have := h.mono a 1 ha ha1; rwa [h.one] at this

/-- "in-out" shape -/
noncomputable def inOut (g : ℝ → ℝ) (x : ℝ) : ℝ :=
  if x * 2 < 1 then 1 / 2 * g (x * 2) else 1 / 2 * (1 - g (2 - x * 2)) + 1 / 2

theorem inOut_zero {g : ℝ → ℝ} (h : PowLike g) : inOut g 0 = 0 := by
  unfold inOut; simp [h.zero]

theorem inOut_one {g : ℝ → ℝ} (h : PowLike g) : inOut g 1 = 1 := by
  unfold inOut; norm_num [h.zero]

theorem inOut_mono {g : ℝ → ℝ} (h : PowLike g) (x y : ℝ) (hx : 0 ≤ x) (hxy : x ≤ y) (hy : y ≤ 1) :
    inOut g x ≤ inOut g y := by
  unfold inOut
  by_cases h1 : x * 2 < 1
  · by_cases h2 : y * 2 < 1
    · simp only [h1, h2, if_true]
      have := h.mono (x * 2) (y * 2) (by linarith) (by linarith)
      linarith
    · simp only [h1, h2, if_true, if_false]
      have a1 := h.le_one (x * 2) (by linarith) (by linarith)
      have a2 := h.le_one (2 - y * 2) (by linarith) (by linarith)
      linarith
  · have h2 : ¬ y * 2 < 1 := by linarith
    simp only [h1, h2, if_false]
    have := h.mono (2 - y * 2) (2 - x * 2) (by linarith) (by linarith)
    linarith

theorem inOut_range {g : ℝ → ℝ} (h : PowLike g) (x : ℝ) (hx : 0 ≤ x) (hx1 : x ≤ 1) :
    0 ≤ inOut g x ∧ inOut g x ≤ 1 := by
  have a := inOut_mono h 0 x le_rfl hx hx1
  have b := inOut_mono h x 1 hx hx1 le_rfl
  rw [inOut_zero h] at a; rw [inOut_one h] at b; exact ⟨a, b⟩

/-- the easing as a real function in closed form -/
theorem Easing.apply_real (e : Easing ℝ) (he : e.PosPower) (x : ℝ) :
    e.apply x = match e with
      | .linear => x
      | .inPowi p => x ^ p.natAbs
      | .outPowi p => 1 - (1 - x) ^ p.natAbs
      | .inOutPowi p => inOut (fun z => z ^ p.natAbs) x
      | .inPowf p => x ^ p
      | .outPowf p => 1 - (1 - x) ^ p
      | .inOutPowf p => inOut (fun z => z ^ p) x := by
  cases e with
  | linear => rfl
  | inPowi p => simp only [Easing.apply]; exact powi_pos_exp x p he.1 he.2
  | outPowi p => simp only [Easing.apply, lit_1]; rw [powi_pos_exp _ p he.1 he.2]
  | inOutPowi p =>
    simp only [Easing.apply, inOut, lit_1, lit_2, lit_half]
    rw [powi_pos_exp _ p he.1 he.2, powi_pos_exp _ p he.1 he.2]
  | inPowf p => rfl
  | outPowf p => simp only [Easing.apply, lit_1, pow_real]
  | inOutPowf p => simp only [Easing.apply, inOut, lit_1, lit_2, lit_half, pow_real]

theorem Easing.endpoints (e : Easing ℝ) (he : e.PosPower) : e.apply 0 = 0 ∧ e.apply 1 = 1 := by
  rw [Easing.apply_real e he, Easing.apply_real e he]
  cases e with
  | linear => simp
  | inPowi p =>
    have : p.natAbs ≠ 0 := by have := he.1; omega
    simp [this]
  | outPowi p =>
    have : p.natAbs ≠ 0 := by have := he.1; omega
    simp [this]
  | inOutPowi p =>
    have hn : 0 < p.natAbs := by have := he.1; omega
    exact ⟨inOut_zero (powLike_natpow _ hn), inOut_one (powLike_natpow _ hn)⟩
  | inPowf p =>
    have hp : 0 < p := he
    simp [Real.zero_rpow (ne_of_gt hp)]
  | outPowf p =>
    have hp : 0 < p := he
    simp [Real.zero_rpow (ne_of_gt hp)]
  | inOutPowf p =>
    have hp : 0 < p := he
    exact ⟨inOut_zero (powLike_rpow _ hp), inOut_one (powLike_rpow _ hp)⟩

theorem Easing.mono (e : Easing ℝ) (he : e.PosPower) (x y : ℝ) (hx : 0 ≤ x) (hxy : x ≤ y) (hy : y ≤ 1) :
    e.apply x ≤ e.apply y := by
  rw [Easing.apply_real e he, Easing.apply_real e he]
  cases e with
  | linear => exact hxy
  | inPowi p => exact pow_le_pow_left₀ hx hxy _
  | outPowi p =>
    have : (1 - y) ^ p.natAbs ≤ (1 - x) ^ p.natAbs := pow_le_pow_left₀ (by linarith) (by linarith) _
    simp only; linarith
  | inOutPowi p =>
    have hn : 0 < p.natAbs := by have := he.1; omega
    exact inOut_mono (powLike_natpow _ hn) x y hx hxy hy
  | inPowf p => exact Real.rpow_le_rpow hx hxy (le_of_lt he)
  | outPowf p =>
    have hp : 0 < p := he
    have : (1 - y) ^ p ≤ (1 - x) ^ p := Real.rpow_le_rpow (by linarith) (by linarith) hp.le
    simp only; linarith
  | inOutPowf p => exact inOut_mono (powLike_rpow _ he) x y hx hxy hy

theorem Easing.range (e : Easing ℝ) (he : e.PosPower) (x : ℝ) (hx : 0 ≤ x) (hx1 : x ≤ 1) :
    0 ≤ e.apply x ∧ e.apply x ≤ 1 := by
  have a := Easing.mono e he 0 x le_rfl hx hx1
  have b := Easing.mono e he x 1 hx hx1 le_rfl
  rw [(Easing.endpoints e he).1] at a; rw [(Easing.endpoints e he).2] at b
  exact ⟨a, b⟩

end K
