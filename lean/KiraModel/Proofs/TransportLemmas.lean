/-
  Helper lemmas for the transport (pure `Nat` arithmetic; core Lean only).
-/
import KiraModel.Model.Transport

namespace K

/-- closed form of `while p >= le { p -= le - ls }` for a valid region -/
def wrapDownCF (p ls le : Nat) : Nat := if p < le then p else ls + (p - ls) % (le - ls)

/-- closed form of `while p < b { p += le - ls }` for a valid region -/
def wrapUpCF (p b ls le : Nat) : Nat := if b ≤ p then p else p + ((b - p + (le - ls) - 1) / (le - ls)) * (le - ls)

theorem wrapDown_spec (ls le : Nat) (h : ls < le) :
    ∀ (fuel p : Nat), p < fuel → wrapDown fuel p ls le = .ok (wrapDownCF p ls le) := by
  intro fuel
  induction fuel with
  | zero => intro p hp; omega
  | succ fuel ih =>
    intro p hp
    unfold wrapDown
    by_cases hlt : p < le
    · simp [hlt, wrapDownCF]
    · have h1 : ¬ le < ls := by omega
      have h2 : ¬ le = ls := by omega
      simp only [hlt, if_false, h1, h2]
      have hp' : p - (le - ls) < fuel := by omega
      rw [ih (p - (le - ls)) hp']
      congr 1
      unfold wrapDownCF
      simp only [hlt, if_false]
      have hmod : (p - ls) % (le - ls) = (p - ls - (le - ls)) % (le - ls) :=
        Nat.mod_eq_sub_mod (by omega)
      have heq : p - (le - ls) - ls = p - ls - (le - ls) := by omega
      by_cases hlt' : p - (le - ls) < le
      · simp only [hlt', if_true]
        rw [hmod, ← heq, Nat.mod_eq_of_lt (by omega)]
        omega
      · simp only [hlt', if_false]
        rw [hmod, heq]

theorem wrapDownCF_range (p ls le : Nat) (h : ls < le) (hp : le ≤ p) :
    ls ≤ wrapDownCF p ls le ∧ wrapDownCF p ls le < le := by
  unfold wrapDownCF
  have : ¬ p < le := by omega
  simp only [this, if_false]
  have := Nat.mod_lt (p - ls) (show 0 < le - ls by omega)
  omega

theorem wrapDownCF_lt (p ls le : Nat) (h : ls < le) : wrapDownCF p ls le < le := by
  by_cases hp : p < le
  · simp [wrapDownCF, hp]
  · exact (wrapDownCF_range p ls le h (by omega)).2

theorem wrapDownCF_at_end (ls le : Nat) (_h : ls < le) : wrapDownCF le ls le = ls := by
  unfold wrapDownCF
  simp [Nat.mod_self]

theorem wrapUp_spec (ls le : Nat) (h : ls < le) :
    ∀ (fuel p b : Nat), b < fuel + p → wrapUp fuel p b ls le = .ok (wrapUpCF p b ls le) := by
  intro fuel
  induction fuel with
  | zero =>
    intro p b hb
    unfold wrapUp wrapUpCF
    have : b ≤ p := by omega
    simp [this]
  | succ fuel ih =>
    intro p b hb
    unfold wrapUp
    by_cases hle : b ≤ p
    · simp [hle, wrapUpCF]
    · have h1 : ¬ le < ls := by omega
      have h2 : ¬ le = ls := by omega
      simp only [hle, if_false, h1, h2]
      rw [ih (p + (le - ls)) b (by omega)]
      congr 1
      unfold wrapUpCF
      simp only [hle, if_false]
      have hd : 0 < le - ls := by omega
      by_cases hle' : b ≤ p + (le - ls)
      · simp only [hle', if_true]
        have : (b - p + (le - ls) - 1) / (le - ls) = 1 := by
          apply Nat.div_eq_of_lt_le <;> omega
        rw [this]; omega
      · simp only [hle', if_false]
        have : b - p + (le - ls) - 1 = (b - (p + (le - ls)) + (le - ls) - 1) + (le - ls) := by omega
        rw [this, Nat.add_div_right _ hd, Nat.succ_mul]
        omega

/-- the wrapped-up position is the first `p + k·(le − ls)` that reaches `b` -/
theorem wrapUpCF_range (p b ls le : Nat) (h : ls < le) (hp : p < b) :
    b ≤ wrapUpCF p b ls le ∧ wrapUpCF p b ls le < b + (le - ls) := by
  unfold wrapUpCF
  have hnp : ¬ b ≤ p := by omega
  simp only [hnp, if_false]
  have hd : 0 < le - ls := by omega
  generalize hx : b - p + (le - ls) - 1 = x
  have h1 := Nat.div_add_mod x (le - ls)
  have h2 := Nat.mod_lt x hd
  have h3 : (le - ls) * (x / (le - ls)) = x / (le - ls) * (le - ls) := Nat.mul_comm _ _
  omega

namespace Transport

/-- a loop region the code can handle: non-empty and inside the sound -/
def ValidLoop (t : Transport) (n : Nat) : Prop :=
  match t.loopRegion with
  | some (ls, le) => ls < le ∧ le ≤ n
  | none => True

/-- while playing, the play head is inside the sound -/
def Inside (t : Transport) (n : Nat) : Prop := t.playing = true → t.position < n

theorem increment_noLoop (t : Transport) (n : Nat) (hp : t.playing = true) (hl : t.loopRegion = none) :
    t.increment n = .ok { t with position := t.position + 1, playing := decide (t.position + 1 < n) } := by
  unfold increment incWrap; simp [hp, hl]

theorem increment_loop (t : Transport) (n ls le : Nat) (hp : t.playing = true)
    (hl : t.loopRegion = some (ls, le)) (h : ls < le) :
    t.increment n = .ok { t with position := wrapDownCF (t.position + 1) ls le,
                                 playing := decide (wrapDownCF (t.position + 1) ls le < n) } := by
  unfold increment incWrap
  simp only [hp, hl, Bool.not_true, Bool.false_eq_true, if_false]
  rw [wrapDown_spec ls le h _ _ (Nat.lt_succ_self _)]

theorem increment_stopped (t : Transport) (n : Nat) (hp : t.playing = false) : t.increment n = .ok t := by
  unfold increment; simp [hp]

theorem decrement_stopped (t : Transport) (hp : t.playing = false) : t.decrement = .ok t := by
  unfold decrement; simp [hp]

theorem decrement_noLoop (t : Transport) (hp : t.playing = true) (hl : t.loopRegion = none) :
    t.decrement = .ok (if t.position = 0 then { t with playing := false }
                       else { t with position := t.position - 1 }) := by
  unfold decrement decWrap
  simp only [hp, hl, Bool.not_true, Bool.false_eq_true, if_false]
  by_cases h0 : t.position = 0
  · simp [h0]
  · simp [h0]

theorem decrement_loop (t : Transport) (ls le : Nat) (hp : t.playing = true)
    (hl : t.loopRegion = some (ls, le)) (h : ls < le) :
    t.decrement = .ok { t with position := wrapUpCF t.position (ls + 1) ls le - 1 } := by
  unfold decrement decWrap
  simp only [hp, hl, Bool.not_true, Bool.false_eq_true, if_false]
  rw [wrapUp_spec ls le h _ _ _ (by omega)]
  have hpos : wrapUpCF t.position (ls + 1) ls le ≠ 0 := by
    unfold wrapUpCF
    by_cases hb : ls + 1 ≤ t.position
    · simp only [hb, if_true]; omega
    · have := (wrapUpCF_range t.position (ls + 1) ls le h (by omega)).1
      unfold wrapUpCF at this
      simp only [hb, if_false] at this ⊢
      omega
  simp [hpos]

theorem seekTo_noLoop (t : Transport) (p n : Nat) (hl : t.loopRegion = none) :
    t.seekTo p n = .ok { t with position := p, playing := if n ≤ p then false else t.playing } := by
  unfold seekTo seekWrap; simp [hl]

theorem seekTo_loop (t : Transport) (p n ls le : Nat) (hl : t.loopRegion = some (ls, le)) (h : ls < le) :
    t.seekTo p n = .ok { t with
      position := if t.position < p then wrapDownCF p ls le else wrapUpCF p ls ls le
      playing := if n ≤ (if t.position < p then wrapDownCF p ls le else wrapUpCF p ls ls le) then false
                 else t.playing } := by
  unfold seekTo seekWrap
  simp only [hl]
  by_cases hlt : t.position < p
  · simp only [hlt, if_true]
    rw [wrapDown_spec ls le h _ _ (Nat.lt_succ_self _)]
  · simp only [hlt, if_false]
    rw [wrapUp_spec ls le h _ _ _ (by omega)]

theorem seekTo_playing (t t' : Transport) (p n : Nat) (h : t.seekTo p n = .ok t') :
    t'.playing = (if n ≤ t'.position then false else t.playing) ∧ t'.loopRegion = t.loopRegion := by
  unfold seekTo at h
  cases hw : t.seekWrap p with
  | error f => simp [hw] at h
  | ok q => simp only [hw] at h; injection h with h; subst h; exact ⟨rfl, rfl⟩

theorem increment_total (t : Transport) (n : Nat) (hv : t.ValidLoop n) :
    ∃ t', t.increment n = .ok t' ∧ t'.loopRegion = t.loopRegion := by
  cases hp : t.playing with
  | false => exact ⟨t, increment_stopped t n hp, rfl⟩
  | true =>
    cases hl : t.loopRegion with
    | none => exact ⟨_, increment_noLoop t n hp hl, by simp [hl]⟩
    | some r =>
      obtain ⟨ls, le⟩ := r
      have hv' : ls < le ∧ le ≤ n := by simpa [ValidLoop, hl] using hv
      exact ⟨_, increment_loop t n ls le hp hl hv'.1, by simp [hl]⟩

theorem decrement_total (t : Transport) (n : Nat) (hv : t.ValidLoop n) :
    ∃ t', t.decrement = .ok t' ∧ t'.loopRegion = t.loopRegion := by
  cases hp : t.playing with
  | false => exact ⟨t, decrement_stopped t hp, rfl⟩
  | true =>
    cases hl : t.loopRegion with
    | none =>
      refine ⟨_, decrement_noLoop t hp hl, ?_⟩
      by_cases h0 : t.position = 0 <;> simp [h0, hl]
    | some r =>
      obtain ⟨ls, le⟩ := r
      have hv' : ls < le ∧ le ≤ n := by simpa [ValidLoop, hl] using hv
      exact ⟨_, decrement_loop t ls le hp hl hv'.1, by simp [hl]⟩

/-- a loop region the wrap loops can handle: non-empty (`ls < le`); it may reach past the end of the sound -/
def LoopOk (t : Transport) : Prop :=
  match t.loopRegion with
  | some (ls, le) => ls < le
  | none => True

theorem ValidLoop.loopOk {t : Transport} {n : Nat} (h : t.ValidLoop n) : t.LoopOk := by
  unfold ValidLoop at h; unfold LoopOk
  cases hl : t.loopRegion with
  | none => trivial
  | some r => obtain ⟨ls, le⟩ := r; simp only [hl] at h; exact h.1

/-- whatever region is requested, what `validLoop` keeps is non-empty -/
theorem loopOk_of_validLoop (lr : Option (Nat × Nat)) (p : Nat) (pl : Bool) :
    (⟨p, validLoop lr, pl⟩ : Transport).LoopOk := by
  unfold LoopOk
  cases lr with
  | none => simp
  | some r =>
    obtain ⟨a, b⟩ := r
    by_cases hab : a < b
    · simp [validLoop_some_of_lt a b hab, hab]
    · simp [validLoop_some_of_not_lt a b hab]

theorem increment_total' (t : Transport) (n : Nat) (hv : t.LoopOk) :
    ∃ t', t.increment n = .ok t' ∧ t'.loopRegion = t.loopRegion := by
  cases hp : t.playing with
  | false => exact ⟨t, increment_stopped t n hp, rfl⟩
  | true =>
    cases hl : t.loopRegion with
    | none => exact ⟨_, increment_noLoop t n hp hl, by simp [hl]⟩
    | some r =>
      obtain ⟨ls, le⟩ := r
      have hv' : ls < le := by simpa [LoopOk, hl] using hv
      exact ⟨_, increment_loop t n ls le hp hl hv', by simp [hl]⟩

theorem decrement_total' (t : Transport) (hv : t.LoopOk) :
    ∃ t', t.decrement = .ok t' ∧ t'.loopRegion = t.loopRegion := by
  cases hp : t.playing with
  | false => exact ⟨t, decrement_stopped t hp, rfl⟩
  | true =>
    cases hl : t.loopRegion with
    | none =>
      refine ⟨_, decrement_noLoop t hp hl, ?_⟩
      by_cases h0 : t.position = 0 <;> simp [h0, hl]
    | some r =>
      obtain ⟨ls, le⟩ := r
      have hv' : ls < le := by simpa [LoopOk, hl] using hv
      exact ⟨_, decrement_loop t ls le hp hl hv', by simp [hl]⟩

end Transport
end K
