/-
  Helper lemmas for the transport (pure `Nat` arithmetic; core Lean only).
-/
import KiraModel.Model.Transport

namespace K

/-- closed form of `while p >= le { p -= le - ls }` for a valid region -/
def wrapDownCF (p ls le : Nat) : Nat := if p < le then p else ls + (p - ls) % (le - ls)

/-- closed form of `while p < b { p += le - ls }` for a valid region -/
def wrapUpCF (p b ls le : Nat) : Nat := if b ≤ p then p else p + ((b - p + (le - ls) - 1) / (le - ls)) * (le - ls)

/-! ### the loops the code used to run (kept as the specification of the closed forms)

  Until the repair `Transport` wrapped a position into the loop region by repeated addition /
  subtraction; `seek_to(1e300)` made that loop run `usize::MAX / loop length` times on the audio thread.
  The loops are modelled with fuel (`hang` = fuel exhausted or a zero step); the model proper
  (`Model/Transport.lean`) now mirrors the modular arithmetic of the repaired code and has no fuel. -/

/-- `while p >= le { p -= le - ls }` — `le - ls` underflows when `le < ls`, never exits when `le = ls`.
    Each iteration lowers `p` by at least one, so `fuel = p + 1` always suffices. -/
def wrapDownLoop : Nat → Nat → Nat → Nat → Except Fault Nat
  | 0, p, _, le => if p < le then .ok p else .error .hang
  | fuel + 1, p, ls, le =>
    if p < le then .ok p
    else if le < ls then .error .overflow
    else if le = ls then .error .hang
    else wrapDownLoop fuel (p - (le - ls)) ls le

/-- `while p < b { p += le - ls }` (`b = ls + 1` in `decrement_position`, `b = ls` in `seek_to`);
    `fuel = b + 1` always suffices. -/
def wrapUpLoop : Nat → Nat → Nat → Nat → Nat → Except Fault Nat
  | 0, p, b, _, _ => if b ≤ p then .ok p else .error .hang
  | fuel + 1, p, b, ls, le =>
    if b ≤ p then .ok p
    else if le < ls then .error .overflow
    else if le = ls then .error .hang
    else wrapUpLoop fuel (p + (le - ls)) b ls le

theorem wrapDownLoop_spec (ls le : Nat) (h : ls < le) :
    ∀ (fuel p : Nat), p < fuel → wrapDownLoop fuel p ls le = .ok (wrapDownCF p ls le) := by
  intro fuel
  induction fuel with
  | zero => intro p hp; omega
  | succ fuel ih =>
    intro p hp
    unfold wrapDownLoop
    by_cases hlt : p < le
    · simp [hlt, wrapDownCF]
    · have h1 : ¬ le < ls := by omega
      have h2 : ¬ le = ls := by omega
      simp only [hlt, if_false, h1, h2]
      have hp' : p - (le - ls) < fuel := by omega
      rw [ih (p - (le - ls)) hp']
      congr 1
      unfold wrapDownCF
      simp only [hlt, if_false]
      have hmod : (p - ls) % (le - ls) = (p - ls - (le - ls)) % (le - ls) :=
        Nat.mod_eq_sub_mod (by omega)
      have heq : p - (le - ls) - ls = p - ls - (le - ls) := by omega
      by_cases hlt' : p - (le - ls) < le
      · simp only [hlt', if_true]
        rw [hmod, ← heq, Nat.mod_eq_of_lt (by omega)]
        omega
      · simp only [hlt', if_false]
        rw [hmod, heq]

/-- the modular arithmetic of the repaired code, for a non-empty region -/
theorem wrapDown_ok (p ls le : Nat) (h : ls < le) : wrapDown p ls le = .ok (wrapDownCF p ls le) := by
  unfold wrapDown wrapDownCF
  by_cases hlt : p < le
  · simp [hlt]
  · have h1 : ¬ le < ls := by omega
    have h2 : ¬ le = ls := by omega
    simp [hlt, h1, h2]

/-- **closed form = loop wherever the loop terminates** (any region, any fuel): if the old loop returns
    a position, the modular arithmetic returns the same one; for a non-empty region the loop does
    return with fuel `p + 1` (`wrapDownLoop_spec`), and the closed form needs no fuel at all. -/
theorem wrapDown_eq_loop : ∀ (fuel p ls le q : Nat), wrapDownLoop fuel p ls le = .ok q → wrapDown p ls le = .ok q := by
  intro fuel
  induction fuel with
  | zero =>
    intro p ls le q h
    unfold wrapDownLoop at h
    by_cases hlt : p < le
    · simp only [hlt, if_true] at h; unfold wrapDown; simp only [hlt, if_true]; exact h
    · simp [hlt] at h
  | succ fuel ih =>
    intro p ls le q h
    unfold wrapDownLoop at h
    by_cases hlt : p < le
    · simp only [hlt, if_true] at h; unfold wrapDown; simp only [hlt, if_true]; exact h
    · by_cases h1 : le < ls
      · simp [hlt, h1] at h
      · by_cases h2 : le = ls
        · subst h2; simp [hlt] at h
        · simp only [hlt, if_false, h1, h2] at h
          have hv : ls < le := by omega
          have hrec := ih _ _ _ _ h
          rw [wrapDown_ok _ ls le hv] at hrec ⊢
          rw [← hrec]
          congr 1
          -- one loop step does not change the closed form
          have hs := wrapDownLoop_spec ls le hv (p + 2) p (by omega)
          have hs' := wrapDownLoop_spec ls le hv (p + 1) (p - (le - ls)) (by omega)
          have : wrapDownLoop (p + 2) p ls le = wrapDownLoop (p + 1) (p - (le - ls)) ls le := by
            conv => lhs; unfold wrapDownLoop
            simp only [hlt, if_false, h1, h2]
          rw [hs, hs'] at this
          injection this

theorem wrapDownCF_range (p ls le : Nat) (h : ls < le) (hp : le ≤ p) :
    ls ≤ wrapDownCF p ls le ∧ wrapDownCF p ls le < le := by
  unfold wrapDownCF
  have : ¬ p < le := by omega
  simp only [this, if_false]
  have := Nat.mod_lt (p - ls) (show 0 < le - ls by omega)
  omega

theorem wrapDownCF_lt (p ls le : Nat) (h : ls < le) : wrapDownCF p ls le < le := by
  by_cases hp : p < le
  · simp [wrapDownCF, hp]
  · exact (wrapDownCF_range p ls le h (by omega)).2

theorem wrapDownCF_at_end (ls le : Nat) (_h : ls < le) : wrapDownCF le ls le = ls := by
  unfold wrapDownCF
  simp [Nat.mod_self]

theorem wrapUpLoop_spec (ls le : Nat) (h : ls < le) :
    ∀ (fuel p b : Nat), b < fuel + p → wrapUpLoop fuel p b ls le = .ok (wrapUpCF p b ls le) := by
  intro fuel
  induction fuel with
  | zero =>
    intro p b hb
    unfold wrapUpLoop wrapUpCF
    have : b ≤ p := by omega
    simp [this]
  | succ fuel ih =>
    intro p b hb
    unfold wrapUpLoop
    by_cases hle : b ≤ p
    · simp [hle, wrapUpCF]
    · have h1 : ¬ le < ls := by omega
      have h2 : ¬ le = ls := by omega
      simp only [hle, if_false, h1, h2]
      rw [ih (p + (le - ls)) b (by omega)]
      congr 1
      unfold wrapUpCF
      simp only [hle, if_false]
      have hd : 0 < le - ls := by omega
      by_cases hle' : b ≤ p + (le - ls)
      · simp only [hle', if_true]
        have : (b - p + (le - ls) - 1) / (le - ls) = 1 := by
          apply Nat.div_eq_of_lt_le <;> omega
        rw [this]; omega
      · simp only [hle', if_false]
        have : b - p + (le - ls) - 1 = (b - (p + (le - ls)) + (le - ls) - 1) + (le - ls) := by omega
        rw [this, Nat.add_div_right _ hd, Nat.succ_mul]
        omega

/-- `decrement_position`'s modular arithmetic, for a non-empty region: the first `p + k·(le − ls)` above `ls` -/
theorem wrapUpDec_ok (p ls le : Nat) (h : ls < le) : wrapUpDec p ls le = .ok (wrapUpCF p (ls + 1) ls le) := by
  unfold wrapUpDec wrapUpCF
  by_cases hlt : ls < p
  · have : ls + 1 ≤ p := by omega
    simp [hlt, this]
  · have h1 : ¬ le < ls := by omega
    have h2 : ¬ le = ls := by omega
    have h3 : ¬ ls + 1 ≤ p := by omega
    simp only [hlt, if_false, h1, h2, h3]
    congr 1
    have hd : 0 < le - ls := by omega
    have e : ls + 1 - p + (le - ls) - 1 = (ls - p) + (le - ls) := by omega
    rw [e, Nat.add_div_right _ hd, Nat.succ_mul]
    have h4 := Nat.div_add_mod (ls - p) (le - ls)
    have h5 : (le - ls) * ((ls - p) / (le - ls)) = (ls - p) / (le - ls) * (le - ls) := Nat.mul_comm _ _
    have h6 := Nat.mod_lt (ls - p) hd
    omega

/-- `seek_to`'s backward modular arithmetic, for a non-empty region: the first `p + k·(le − ls)` at or above `ls` -/
theorem wrapUpSeek_ok (p ls le : Nat) (h : ls < le) : wrapUpSeek p ls le = .ok (wrapUpCF p ls ls le) := by
  unfold wrapUpSeek wrapUpCF
  by_cases hlt : ls ≤ p
  · simp [hlt]
  · have h1 : ¬ le < ls := by omega
    have h2 : ¬ le = ls := by omega
    simp only [hlt, if_false, h1, h2]
    congr 1
    have hd : 0 < le - ls := by omega
    have e : ls - p + (le - ls) - 1 = (ls - p - 1) + (le - ls) := by omega
    rw [e, Nat.add_div_right _ hd, Nat.succ_mul]
    have h4 := Nat.div_add_mod (ls - p - 1) (le - ls)
    have h5 : (le - ls) * ((ls - p - 1) / (le - ls)) = (ls - p - 1) / (le - ls) * (le - ls) := Nat.mul_comm _ _
    have h6 := Nat.mod_lt (ls - p - 1) hd
    omega

/-- the loop `while p < b { p += le - ls }` returns a position only for a non-empty region or when it has
    nothing to do, and then it is `wrapUpCF` -/
theorem wrapUpLoop_ok : ∀ (fuel p b ls le q : Nat), wrapUpLoop fuel p b ls le = .ok q →
    (b ≤ p ∧ q = p) ∨ (ls < le ∧ q = wrapUpCF p b ls le) := by
  intro fuel
  induction fuel with
  | zero =>
    intro p b ls le q h
    unfold wrapUpLoop at h
    by_cases hle : b ≤ p
    · simp only [hle, if_true, Except.ok.injEq] at h; exact .inl ⟨hle, h.symm⟩
    · simp [hle] at h
  | succ fuel ih =>
    intro p b ls le q h
    unfold wrapUpLoop at h
    by_cases hle : b ≤ p
    · simp only [hle, if_true, Except.ok.injEq] at h; exact .inl ⟨hle, h.symm⟩
    · by_cases h1 : le < ls
      · simp [hle, h1] at h
      · by_cases h2 : le = ls
        · subst h2; simp [hle] at h
        · simp only [hle, if_false, h1, h2] at h
          have hv : ls < le := by omega
          refine .inr ⟨hv, ?_⟩
          have hs := wrapUpLoop_spec ls le hv (b + 2) p b (by omega)
          have hs' := wrapUpLoop_spec ls le hv (b + 1) (p + (le - ls)) b (by omega)
          have e : wrapUpLoop (b + 2) p b ls le = wrapUpLoop (b + 1) (p + (le - ls)) b ls le := by
            conv => lhs; unfold wrapUpLoop
            simp only [hle, if_false, h1, h2]
          rw [hs, hs'] at e
          injection e with e
          rcases ih _ _ _ _ _ h with ⟨hb, hq⟩ | ⟨_, hq⟩
          · rw [e, hq]; simp [wrapUpCF, hb]
          · rw [e, hq]

/-- **closed form = loop wherever the loop terminates** — `decrement_position` (`b = ls + 1`) -/
theorem wrapUpDec_eq_loop (fuel p ls le q : Nat) (h : wrapUpLoop fuel p (ls + 1) ls le = .ok q) :
    wrapUpDec p ls le = .ok q := by
  rcases wrapUpLoop_ok _ _ _ _ _ _ h with ⟨hb, hq⟩ | ⟨hv, hq⟩
  · unfold wrapUpDec; have : ls < p := by omega
    simp [this, hq]
  · rw [wrapUpDec_ok p ls le hv, hq]

/-- **closed form = loop wherever the loop terminates** — `seek_to` backwards (`b = ls`) -/
theorem wrapUpSeek_eq_loop (fuel p ls le q : Nat) (h : wrapUpLoop fuel p ls ls le = .ok q) :
    wrapUpSeek p ls le = .ok q := by
  rcases wrapUpLoop_ok _ _ _ _ _ _ h with ⟨hb, hq⟩ | ⟨hv, hq⟩
  · unfold wrapUpSeek; simp [hb, hq]
  · rw [wrapUpSeek_ok p ls le hv, hq]

/-- the wrapped-up position is the first `p + k·(le − ls)` that reaches `b` -/
theorem wrapUpCF_range (p b ls le : Nat) (h : ls < le) (hp : p < b) :
    b ≤ wrapUpCF p b ls le ∧ wrapUpCF p b ls le < b + (le - ls) := by
  unfold wrapUpCF
  have hnp : ¬ b ≤ p := by omega
  simp only [hnp, if_false]
  have hd : 0 < le - ls := by omega
  generalize hx : b - p + (le - ls) - 1 = x
  have h1 := Nat.div_add_mod x (le - ls)
  have h2 := Nat.mod_lt x hd
  have h3 : (le - ls) * (x / (le - ls)) = x / (le - ls) * (le - ls) := Nat.mul_comm _ _
  omega

namespace Transport

/-- a loop region the code can handle: non-empty and inside the sound -/
def ValidLoop (t : Transport) (n : Nat) : Prop :=
  match t.loopRegion with
  | some (ls, le) => ls < le ∧ le ≤ n
  | none => True

/-- while playing, the play head is inside the sound -/
def Inside (t : Transport) (n : Nat) : Prop := t.playing = true → t.position < n

theorem increment_noLoop (t : Transport) (n : Nat) (hp : t.playing = true) (hl : t.loopRegion = none) :
    t.increment n = .ok { t with position := t.position + 1, playing := decide (t.position + 1 < n) } := by
  unfold increment incWrap; simp [hp, hl]

theorem increment_loop (t : Transport) (n ls le : Nat) (hp : t.playing = true)
    (hl : t.loopRegion = some (ls, le)) (h : ls < le) :
    t.increment n = .ok { t with position := wrapDownCF (t.position + 1) ls le,
                                 playing := decide (wrapDownCF (t.position + 1) ls le < n) } := by
  unfold increment incWrap
  simp only [hp, hl, Bool.not_true, Bool.false_eq_true, if_false]
  rw [wrapDown_ok _ ls le h]

theorem increment_stopped (t : Transport) (n : Nat) (hp : t.playing = false) : t.increment n = .ok t := by
  unfold increment; simp [hp]

theorem decrement_stopped (t : Transport) (hp : t.playing = false) : t.decrement = .ok t := by
  unfold decrement; simp [hp]

theorem decrement_noLoop (t : Transport) (hp : t.playing = true) (hl : t.loopRegion = none) :
    t.decrement = .ok (if t.position = 0 then { t with playing := false }
                       else { t with position := t.position - 1 }) := by
  unfold decrement decWrap
  simp only [hp, hl, Bool.not_true, Bool.false_eq_true, if_false]
  by_cases h0 : t.position = 0
  · simp [h0]
  · simp [h0]

theorem decrement_loop (t : Transport) (ls le : Nat) (hp : t.playing = true)
    (hl : t.loopRegion = some (ls, le)) (h : ls < le) :
    t.decrement = .ok { t with position := wrapUpCF t.position (ls + 1) ls le - 1 } := by
  unfold decrement decWrap
  simp only [hp, hl, Bool.not_true, Bool.false_eq_true, if_false]
  rw [wrapUpDec_ok _ ls le h]
  have hpos : wrapUpCF t.position (ls + 1) ls le ≠ 0 := by
    unfold wrapUpCF
    by_cases hb : ls + 1 ≤ t.position
    · simp only [hb, if_true]; omega
    · have := (wrapUpCF_range t.position (ls + 1) ls le h (by omega)).1
      unfold wrapUpCF at this
      simp only [hb, if_false] at this ⊢
      omega
  simp [hpos]

theorem seekTo_noLoop (t : Transport) (p n : Nat) (hl : t.loopRegion = none) :
    t.seekTo p n = .ok { t with position := p, playing := if n ≤ p then false else t.playing } := by
  unfold seekTo seekWrap; simp [hl]

theorem seekTo_loop (t : Transport) (p n ls le : Nat) (hl : t.loopRegion = some (ls, le)) (h : ls < le) :
    t.seekTo p n = .ok { t with
      position := if t.position < p then wrapDownCF p ls le else wrapUpCF p ls ls le
      playing := if n ≤ (if t.position < p then wrapDownCF p ls le else wrapUpCF p ls ls le) then false
                 else t.playing } := by
  unfold seekTo seekWrap
  simp only [hl]
  by_cases hlt : t.position < p
  · simp only [hlt, if_true]
    rw [wrapDown_ok _ ls le h]
  · simp only [hlt, if_false]
    rw [wrapUpSeek_ok _ ls le h]

theorem seekTo_playing (t t' : Transport) (p n : Nat) (h : t.seekTo p n = .ok t') :
    t'.playing = (if n ≤ t'.position then false else t.playing) ∧ t'.loopRegion = t.loopRegion := by
  unfold seekTo at h
  cases hw : t.seekWrap p with
  | error f => simp [hw] at h
  | ok q => simp only [hw] at h; injection h with h; subst h; exact ⟨rfl, rfl⟩

theorem increment_total (t : Transport) (n : Nat) (hv : t.ValidLoop n) :
    ∃ t', t.increment n = .ok t' ∧ t'.loopRegion = t.loopRegion := by
  cases hp : t.playing with
  | false => exact ⟨t, increment_stopped t n hp, rfl⟩
  | true =>
    cases hl : t.loopRegion with
    | none => exact ⟨_, increment_noLoop t n hp hl, by simp [hl]⟩
    | some r =>
      obtain ⟨ls, le⟩ := r
      have hv' : ls < le ∧ le ≤ n := by simpa [ValidLoop, hl] using hv
      exact ⟨_, increment_loop t n ls le hp hl hv'.1, by simp [hl]⟩

theorem decrement_total (t : Transport) (n : Nat) (hv : t.ValidLoop n) :
    ∃ t', t.decrement = .ok t' ∧ t'.loopRegion = t.loopRegion := by
  cases hp : t.playing with
  | false => exact ⟨t, decrement_stopped t hp, rfl⟩
  | true =>
    cases hl : t.loopRegion with
    | none =>
      refine ⟨_, decrement_noLoop t hp hl, ?_⟩
      by_cases h0 : t.position = 0 <;> simp [h0, hl]
    | some r =>
      obtain ⟨ls, le⟩ := r
      have hv' : ls < le ∧ le ≤ n := by simpa [ValidLoop, hl] using hv
      exact ⟨_, decrement_loop t ls le hp hl hv'.1, by simp [hl]⟩

/-- a loop region the wrap loops can handle: non-empty (`ls < le`); it may reach past the end of the sound -/
def LoopOk (t : Transport) : Prop :=
  match t.loopRegion with
  | some (ls, le) => ls < le
  | none => True

theorem ValidLoop.loopOk {t : Transport} {n : Nat} (h : t.ValidLoop n) : t.LoopOk := by
  unfold ValidLoop at h; unfold LoopOk
  cases hl : t.loopRegion with
  | none => trivial
  | some r => obtain ⟨ls, le⟩ := r; simp only [hl] at h; exact h.1

/-- whatever region is requested, what `validLoop` keeps is non-empty -/
theorem loopOk_of_validLoop (lr : Option (Nat × Nat)) (p : Nat) (pl : Bool) :
    (⟨p, validLoop lr, pl⟩ : Transport).LoopOk := by
  unfold LoopOk
  cases lr with
  | none => simp
  | some r =>
    obtain ⟨a, b⟩ := r
    by_cases hab : a < b
    · simp [validLoop_some_of_lt a b hab, hab]
    · simp [validLoop_some_of_not_lt a b hab]

theorem increment_total' (t : Transport) (n : Nat) (hv : t.LoopOk) :
    ∃ t', t.increment n = .ok t' ∧ t'.loopRegion = t.loopRegion := by
  cases hp : t.playing with
  | false => exact ⟨t, increment_stopped t n hp, rfl⟩
  | true =>
    cases hl : t.loopRegion with
    | none => exact ⟨_, increment_noLoop t n hp hl, by simp [hl]⟩
    | some r =>
      obtain ⟨ls, le⟩ := r
      have hv' : ls < le := by simpa [LoopOk, hl] using hv
      exact ⟨_, increment_loop t n ls le hp hl hv', by simp [hl]⟩

theorem decrement_total' (t : Transport) (hv : t.LoopOk) :
    ∃ t', t.decrement = .ok t' ∧ t'.loopRegion = t.loopRegion := by
  cases hp : t.playing with
  | false => exact ⟨t, decrement_stopped t hp, rfl⟩
  | true =>
    cases hl : t.loopRegion with
    | none =>
      refine ⟨_, decrement_noLoop t hp hl, ?_⟩
      by_cases h0 : t.position = 0 <;> simp [h0, hl]
    | some r =>
      obtain ⟨ls, le⟩ := r
      have hv' : ls < le := by simpa [LoopOk, hl] using hv
      exact ⟨_, decrement_loop t ls le hp hl hv', by simp [hl]⟩

end Transport
end K
