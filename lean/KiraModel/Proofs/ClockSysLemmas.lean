/-
  Helper lemmas for the chunk-level model (Model/ClockSys.lean) over ℝ.
-/
import KiraModel.Proofs.ClockLemmas
import KiraModel.Model.ClockSys

namespace K

/-! ### the self-referential `for_each` -/

/-- if the update does not look at the arena, `for_each` is a plain map -/
theorem forEachSelfRef_indep {T : Type} (dummy : T) (f : T → (ℕ → Option T) → Option T) (g : T → T)
    (h : ∀ x view, f x view = some (g x)) :
    ∀ (l done : List (ℕ × T)),
      forEachSelfRef dummy f done l = some (done ++ l.map (fun p => (p.1, g p.2))) := by
  intro l
  induction l with
  | nil => intro done; simp [forEachSelfRef]
  | cons p rest ih =>
    intro done
    obtain ⟨k, x⟩ := p
    simp only [forEachSelfRef, h, ih, List.map_cons, List.append_assoc, List.singleton_append]

/-- an invariant of the entries that every update preserves *when the entry sees the dummy under
    its own key* is preserved by `for_each` -/
theorem forEachSelfRef_forall {T : Type} (dummy : T) (f : T → (ℕ → Option T) → Option T)
    (Q : ℕ → T → Prop)
    (hf : ∀ k x view x', view k = some dummy → Q k x → f x view = some x' → Q k x') :
    ∀ (l done out : List (ℕ × T)), (∀ p ∈ done, Q p.1 p.2) → (∀ p ∈ l, Q p.1 p.2) →
      forEachSelfRef dummy f done l = some out → ∀ p ∈ out, Q p.1 p.2 := by
  intro l
  induction l with
  | nil =>
    intro done out hd _ h
    simp only [forEachSelfRef, Option.some.injEq] at h
    subst h; exact hd
  | cons p rest ih =>
    intro done out hd hl h
    obtain ⟨k, x⟩ := p
    simp only [forEachSelfRef] at h
    split at h
    · exact absurd h (by simp)
    · rename_i x' hx
      refine ih (done ++ [(k, x')]) out ?_ (fun p hp => hl p (by simp [hp])) h
      intro p hp
      simp only [List.mem_append, List.mem_singleton] at hp
      rcases hp with hp | rfl
      · exact hd p hp
      · exact hf k x _ x' (by simp) (hl (k, x) (by simp)) hx

/-! ### waiters (clock-gated consumers of the mixer pass) -/

/-- the `(dt, Info seen by the mixer pass)` of every chunk event of a history, in order -/
noncomputable def Sys.mixTrace (fuel : ℕ) : Sys ℝ → List (Ev ℝ) → List (ℝ × Info ℝ)
  | _, [] => []
  | s, e :: rest =>
    match s.step fuel e with
    | none => []
    | some s' =>
      (match e with
        | .chunk dt => [(dt, s'.mixInfo)]
        | _ => []) ++ Sys.mixTrace fuel s' rest

/-- a waiter processed once per element of a trace -/
noncomputable def Waiter.runTrace (w : Waiter ℝ) : List (ℝ × Info ℝ) → Waiter ℝ
  | [] => w
  | p :: rest => Waiter.runTrace (w.process p.1 p.2) rest

theorem Sys.step_waiter (fuel : ℕ) (s s' : Sys ℝ) (e : Ev ℝ) (j : ℕ) (w : Waiter ℝ)
    (h : s.step fuel e = some s') (hw : s.waiters[j]? = some w) :
    s'.waiters[j]? = some (match e with
      | .chunk dt => w.process dt s'.mixInfo
      | _ => w) := by
  cases e with
  | chunk dt =>
    simp only [Sys.step, Sys.chunk] at h
    split at h
    · exact absurd h (by simp)
    · split at h
      · exact absurd h (by simp)
      · simp only [Option.some.injEq] at h
        subst h
        simp only [List.getElem?_map, hw, Option.map_some]
        rfl
  | startProcessing =>
    simp only [Sys.step, Option.some.injEq] at h
    subst h
    simp only [Sys.startProcessing]
    rw [List.getElem?_append_left]
    · exact hw
    · exact (List.getElem?_eq_some_iff.mp hw).1
  | addClock _ => simp only [Sys.step, Option.some.injEq] at h; subst h; exact hw
  | addTweener _ => simp only [Sys.step, Option.some.injEq] at h; subst h; exact hw
  | clockCmd _ _ => simp only [Sys.step, Option.some.injEq] at h; subst h; exact hw
  | tweenerSet _ _ _ => simp only [Sys.step, Option.some.injEq] at h; subst h; exact hw
  | tweenerDrop _ => simp only [Sys.step, Option.some.injEq] at h; subst h; exact hw
  | play _ => simp only [Sys.step, Option.some.injEq] at h; subst h; exact hw

/-- over any history a picked-up waiter is processed exactly once per chunk, with the `Info` the
    mixer pass of that chunk sees -/
theorem Sys.run_waiter (fuel : ℕ) :
    ∀ (evs : List (Ev ℝ)) (s s' : Sys ℝ) (j : ℕ) (w : Waiter ℝ),
      s.run fuel evs = some s' → s.waiters[j]? = some w →
      s'.waiters[j]? = some (w.runTrace (Sys.mixTrace fuel s evs)) := by
  intro evs
  induction evs with
  | nil =>
    intro s s' j w h hw
    simp only [Sys.run, Option.some.injEq] at h
    subst h; simpa [Sys.mixTrace, Waiter.runTrace] using hw
  | cons e rest ih =>
    intro s s' j w h hw
    simp only [Sys.run] at h
    cases hs : s.step fuel e with
    | none => rw [hs] at h; exact absurd h (by simp)
    | some s1 =>
      rw [hs] at h
      have h1 := Sys.step_waiter fuel s s1 e j w hs hw
      have h2 := ih s1 s' j _ h h1
      rw [h2]
      simp only [Sys.mixTrace, hs]
      cases e <;> simp [Waiter.runTrace]

/-- index of the first `Now` verdict provided every verdict before it is `Later` -/
def startIndex : List WhenToStart → Option ℕ
  | [] => none
  | .now :: _ => some 0
  | .never :: _ => none
  | .later :: r => (startIndex r).map (· + 1)

/-- index of the first `Never` verdict provided every verdict before it is `Later` -/
def cancelIndex : List WhenToStart → Option ℕ
  | [] => none
  | .now :: _ => none
  | .never :: _ => some 0
  | .later :: r => (cancelIndex r).map (· + 1)

theorem startIndex_spec : ∀ (ws : List WhenToStart) (k : ℕ),
    startIndex ws = some k ↔ ws[k]? = some .now ∧ ∀ i < k, ws[i]? = some .later := by
  intro ws
  induction ws with
  | nil => intro k; simp [startIndex]
  | cons w rest ih =>
    intro k
    cases w with
    | now =>
      simp only [startIndex, Option.some.injEq]
      constructor
      · intro h; subst h; simp
      · intro ⟨h1, h2⟩
        cases k with
        | zero => rfl
        | succ k => have := h2 0 (by omega); simp at this
    | never =>
      simp only [startIndex]
      constructor
      · intro h; exact absurd h (by simp)
      · intro ⟨h1, h2⟩
        cases k with
        | zero => simp at h1
        | succ k => have := h2 0 (by omega); simp at this
    | later =>
      simp only [startIndex, Option.map_eq_some_iff]
      constructor
      · rintro ⟨k', hk', rfl⟩
        obtain ⟨a, b⟩ := (ih k').mp hk'
        refine ⟨by simpa using a, ?_⟩
        intro i hi
        cases i with
        | zero => simp
        | succ i => simpa using b i (by omega)
      · intro ⟨h1, h2⟩
        cases k with
        | zero => simp at h1
        | succ k =>
          refine ⟨k, (ih k).mpr ⟨by simpa using h1, ?_⟩, rfl⟩
          intro i hi
          simpa using h2 (i + 1) (by omega)

theorem cancelIndex_spec : ∀ (ws : List WhenToStart) (k : ℕ),
    cancelIndex ws = some k ↔ ws[k]? = some .never ∧ ∀ i < k, ws[i]? = some .later := by
  intro ws
  induction ws with
  | nil => intro k; simp [cancelIndex]
  | cons w rest ih =>
    intro k
    cases w with
    | never =>
      simp only [cancelIndex, Option.some.injEq]
      constructor
      · intro h; subst h; simp
      · intro ⟨h1, h2⟩
        cases k with
        | zero => rfl
        | succ k => have := h2 0 (by omega); simp at this
    | now =>
      simp only [cancelIndex]
      constructor
      · intro h; exact absurd h (by simp)
      · intro ⟨h1, h2⟩
        cases k with
        | zero => simp at h1
        | succ k => have := h2 0 (by omega); simp at this
    | later =>
      simp only [cancelIndex, Option.map_eq_some_iff]
      constructor
      · rintro ⟨k', hk', rfl⟩
        obtain ⟨a, b⟩ := (ih k').mp hk'
        refine ⟨by simpa using a, ?_⟩
        intro i hi
        cases i with
        | zero => simp
        | succ i => simpa using b i (by omega)
      · intro ⟨h1, h2⟩
        cases k with
        | zero => simp at h1
        | succ k =>
          refine ⟨k, (ih k).mpr ⟨by simpa using h1, ?_⟩, rfl⟩
          intro i hi
          simpa using h2 (i + 1) (by omega)

theorem Waiter.process_started (dt : ℝ) (info : Info ℝ) :
    (⟨.immediate, false, true⟩ : Waiter ℝ).process dt info = ⟨.immediate, false, true⟩ := by
  simp [Waiter.process, StartTime.update, StartTime.isImmediate]

theorem Waiter.runTrace_started : ∀ (tr : List (ℝ × Info ℝ)),
    (⟨.immediate, false, true⟩ : Waiter ℝ).runTrace tr = ⟨.immediate, false, true⟩ := by
  intro tr
  induction tr with
  | nil => rfl
  | cons p rest ih => simp only [Waiter.runTrace, Waiter.process_started, ih]

theorem Waiter.runTrace_cancelled (st : StartTime ℝ) : ∀ (tr : List (ℝ × Info ℝ)),
    (⟨st, true, false⟩ : Waiter ℝ).runTrace tr = ⟨st, true, false⟩ := by
  intro tr
  induction tr with
  | nil => rfl
  | cons p rest ih =>
    have : (⟨st, true, false⟩ : Waiter ℝ).process p.1 p.2 = ⟨st, true, false⟩ := by
      simp [Waiter.process]
    simp only [Waiter.runTrace, this, ih]

/-- what becomes of a waiter: decided by the first verdict that is not `Later` -/
theorem Waiter.outcome (c : ℕ) (T : ClockTime ℝ) : ∀ (tr : List (ℝ × Info ℝ)),
    let ws := tr.map (fun p => p.2.whenToStart c T)
    let w' := (⟨.clockTime c T, false, false⟩ : Waiter ℝ).runTrace tr
    ((startIndex ws).isSome → w' = ⟨.immediate, false, true⟩)
    ∧ ((cancelIndex ws).isSome → w' = ⟨.clockTime c T, true, false⟩)
    ∧ ((startIndex ws).isSome = false → (cancelIndex ws).isSome = false →
          w' = ⟨.clockTime c T, false, false⟩) := by
  intro tr
  induction tr with
  | nil => simp [startIndex, cancelIndex, Waiter.runTrace]
  | cons p rest ih =>
    simp only [List.map_cons, Waiter.runTrace]
    cases hv : p.2.whenToStart c T with
    | now =>
      have : (⟨.clockTime c T, false, false⟩ : Waiter ℝ).process p.1 p.2 = ⟨.immediate, false, true⟩ := by
        simp [Waiter.process, StartTime.update, hv, StartTime.isImmediate]
      simp [this, startIndex, cancelIndex, Waiter.runTrace_started]
    | never =>
      have : (⟨.clockTime c T, false, false⟩ : Waiter ℝ).process p.1 p.2 = ⟨.clockTime c T, true, false⟩ := by
        simp [Waiter.process, StartTime.update, hv, StartTime.isImmediate]
      simp [this, startIndex, cancelIndex, Waiter.runTrace_cancelled]
    | later =>
      have : (⟨.clockTime c T, false, false⟩ : Waiter ℝ).process p.1 p.2 = ⟨.clockTime c T, false, false⟩ := by
        simp [Waiter.process, StartTime.update, hv, StartTime.isImmediate]
      simp only [this, startIndex, cancelIndex, Option.isSome_map]
      exact ih

end K
