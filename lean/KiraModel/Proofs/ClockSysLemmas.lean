/-
  Helper lemmas for the chunk-level model (Model/ClockSys.lean) over ℝ.
-/
import KiraModel.Proofs.ClockLemmas
import KiraModel.Props.C19
import KiraModel.Model.ClockSys

namespace K

/-! ### the self-referential `for_each` -/

/-- if the update does not look at the arena, `for_each` is a plain map -/
theorem forEachSelfRef_indep {T : Type} (dummy : T) (f : T → (ℕ → Option T) → Option T) (g : T → T)
    (h : ∀ x view, f x view = some (g x)) :
    ∀ (l done : List (ℕ × T)),
      forEachSelfRef dummy f done l = some (done ++ l.map (fun p => (p.1, g p.2))) := by
  intro l
  induction l with
  | nil => intro done; simp [forEachSelfRef]
  | cons p rest ih =>
    intro done
    obtain ⟨k, x⟩ := p
    simp only [forEachSelfRef, h, ih, List.map_cons, List.append_assoc, List.singleton_append]

/-- an invariant of the entries that every update preserves *when the entry sees the dummy under
    its own key* is preserved by `for_each` -/
theorem forEachSelfRef_forall {T : Type} (dummy : T) (f : T → (ℕ → Option T) → Option T)
    (Q : ℕ → T → Prop)
    (hf : ∀ k x view x', view k = some dummy → Q k x → f x view = some x' → Q k x') :
    ∀ (l done out : List (ℕ × T)), (∀ p ∈ done, Q p.1 p.2) → (∀ p ∈ l, Q p.1 p.2) →
      forEachSelfRef dummy f done l = some out → ∀ p ∈ out, Q p.1 p.2 := by
  intro l
  induction l with
  | nil =>
    intro done out hd _ h
    simp only [forEachSelfRef, Option.some.injEq] at h
    subst h; exact hd
  | cons p rest ih =>
    intro done out hd hl h
    obtain ⟨k, x⟩ := p
    simp only [forEachSelfRef] at h
    split at h
    · exact absurd h (by simp)
    · rename_i x' hx
      refine ih (done ++ [(k, x')]) out ?_ (fun p hp => hl p (by simp [hp])) h
      intro p hp
      simp only [List.mem_append, List.mem_singleton] at hp
      rcases hp with hp | rfl
      · exact hd p hp
      · exact hf k x _ x' (by simp) (hl (k, x) (by simp)) hx

/-! ### waiters (clock-gated consumers of the mixer pass) -/

/-- the `(dt, Info seen by the mixer pass)` of every chunk event of a history, in order -/
noncomputable def Sys.mixTrace : Sys ℝ → List (Ev ℝ) → List (ℝ × Info ℝ)
  | _, [] => []
  | s, e :: rest =>
    match s.step e with
    | none => []
    | some s' =>
      (match e with
        | .chunk dt => [(dt, s'.mixInfo)]
        | _ => []) ++ Sys.mixTrace s' rest

/-- a waiter processed once per element of a trace -/
noncomputable def Waiter.runTrace (w : Waiter ℝ) : List (ℝ × Info ℝ) → Waiter ℝ
  | [] => w
  | p :: rest => Waiter.runTrace (w.process p.1 p.2) rest

theorem Sys.step_waiter (s s' : Sys ℝ) (e : Ev ℝ) (j : ℕ) (w : Waiter ℝ)
    (h : s.step e = some s') (hw : s.waiters[j]? = some w) :
    s'.waiters[j]? = some (match e with
      | .chunk dt => w.process dt s'.mixInfo
      | _ => w) := by
  cases e with
  | chunk dt =>
    simp only [Sys.step, Sys.chunk] at h
    split at h
    · exact absurd h (by simp)
    · split at h
      · exact absurd h (by simp)
      · simp only [Option.some.injEq] at h
        subst h
        simp only [List.getElem?_map, hw, Option.map_some]
        rfl
  | startProcessing =>
    simp only [Sys.step, Option.some.injEq] at h
    subst h
    simp only [Sys.startProcessing]
    rw [List.getElem?_append_left]
    · exact hw
    · exact (List.getElem?_eq_some_iff.mp hw).1
  | addClock _ => simp only [Sys.step, Option.some.injEq] at h; subst h; exact hw
  | addTweener _ => simp only [Sys.step, Option.some.injEq] at h; subst h; exact hw
  | clockCmd _ _ => simp only [Sys.step, Option.some.injEq] at h; subst h; exact hw
  | tweenerSet _ _ _ => simp only [Sys.step, Option.some.injEq] at h; subst h; exact hw
  | tweenerDrop _ => simp only [Sys.step, Option.some.injEq] at h; subst h; exact hw
  | play _ => simp only [Sys.step, Option.some.injEq] at h; subst h; exact hw

/-- over any history a picked-up waiter is processed exactly once per chunk, with the `Info` the
    mixer pass of that chunk sees -/
theorem Sys.run_waiter :
    ∀ (evs : List (Ev ℝ)) (s s' : Sys ℝ) (j : ℕ) (w : Waiter ℝ),
      s.run evs = some s' → s.waiters[j]? = some w →
      s'.waiters[j]? = some (w.runTrace (Sys.mixTrace s evs)) := by
  intro evs
  induction evs with
  | nil =>
    intro s s' j w h hw
    simp only [Sys.run, Option.some.injEq] at h
    subst h; simpa [Sys.mixTrace, Waiter.runTrace] using hw
  | cons e rest ih =>
    intro s s' j w h hw
    simp only [Sys.run] at h
    cases hs : s.step e with
    | none => rw [hs] at h; exact absurd h (by simp)
    | some s1 =>
      rw [hs] at h
      have h1 := Sys.step_waiter s s1 e j w hs hw
      have h2 := ih s1 s' j _ h h1
      rw [h2]
      simp only [Sys.mixTrace, hs]
      cases e <;> simp [Waiter.runTrace]

/-- index of the first `Now` verdict provided every verdict before it is `Later` -/
def startIndex : List WhenToStart → Option ℕ
  | [] => none
  | .now :: _ => some 0
  | .never :: _ => none
  | .later :: r => (startIndex r).map (· + 1)

/-- index of the first `Never` verdict provided every verdict before it is `Later` -/
def cancelIndex : List WhenToStart → Option ℕ
  | [] => none
  | .now :: _ => none
  | .never :: _ => some 0
  | .later :: r => (cancelIndex r).map (· + 1)

theorem startIndex_spec : ∀ (ws : List WhenToStart) (k : ℕ),
    startIndex ws = some k ↔ ws[k]? = some .now ∧ ∀ i < k, ws[i]? = some .later := by
  intro ws
  induction ws with
  | nil => intro k; simp [startIndex]
  | cons w rest ih =>
    intro k
    cases w with
    | now =>
      simp only [startIndex, Option.some.injEq]
      constructor
      · intro h; subst h; simp
      · intro ⟨h1, h2⟩
        cases k with
        | zero => rfl
        | succ k => have := h2 0 (by omega); simp at this
    | never =>
      simp only [startIndex]
      constructor
      · intro h; exact absurd h (by simp)
      · intro ⟨h1, h2⟩
        cases k with
        | zero => simp at h1
        | succ k => have := h2 0 (by omega); simp at this
    | later =>
      simp only [startIndex, Option.map_eq_some_iff]
      constructor
      · rintro ⟨k', hk', rfl⟩
        obtain ⟨a, b⟩ := (ih k').mp hk'
        refine ⟨by simpa using a, ?_⟩
        intro i hi
        cases i with
        | zero => simp
        | succ i => simpa using b i (by omega)
      · intro ⟨h1, h2⟩
        cases k with
        | zero => simp at h1
        | succ k =>
          refine ⟨k, (ih k).mpr ⟨by simpa using h1, ?_⟩, rfl⟩
          intro i hi
          simpa using h2 (i + 1) (by omega)

theorem cancelIndex_spec : ∀ (ws : List WhenToStart) (k : ℕ),
    cancelIndex ws = some k ↔ ws[k]? = some .never ∧ ∀ i < k, ws[i]? = some .later := by
  intro ws
  induction ws with
  | nil => intro k; simp [cancelIndex]
  | cons w rest ih =>
    intro k
    cases w with
    | never =>
      simp only [cancelIndex, Option.some.injEq]
      constructor
      · intro h; subst h; simp
      · intro ⟨h1, h2⟩
        cases k with
        | zero => rfl
        | succ k => have := h2 0 (by omega); simp at this
    | now =>
      simp only [cancelIndex]
      constructor
      · intro h; exact absurd h (by simp)
      · intro ⟨h1, h2⟩
        cases k with
        | zero => simp at h1
        | succ k => have := h2 0 (by omega); simp at this
    | later =>
      simp only [cancelIndex, Option.map_eq_some_iff]
      constructor
      · rintro ⟨k', hk', rfl⟩
        obtain ⟨a, b⟩ := (ih k').mp hk'
        refine ⟨by simpa using a, ?_⟩
        intro i hi
        cases i with
        | zero => simp
        | succ i => simpa using b i (by omega)
      · intro ⟨h1, h2⟩
        cases k with
        | zero => simp at h1
        | succ k =>
          refine ⟨k, (ih k).mpr ⟨by simpa using h1, ?_⟩, rfl⟩
          intro i hi
          simpa using h2 (i + 1) (by omega)

theorem Waiter.process_started (dt : ℝ) (info : Info ℝ) :
    (⟨.immediate, false, true⟩ : Waiter ℝ).process dt info = ⟨.immediate, false, true⟩ := by
  simp [Waiter.process, StartTime.update, StartTime.isImmediate]

theorem Waiter.runTrace_started : ∀ (tr : List (ℝ × Info ℝ)),
    (⟨.immediate, false, true⟩ : Waiter ℝ).runTrace tr = ⟨.immediate, false, true⟩ := by
  intro tr
  induction tr with
  | nil => rfl
  | cons p rest ih => simp only [Waiter.runTrace, Waiter.process_started, ih]

theorem Waiter.runTrace_cancelled (st : StartTime ℝ) : ∀ (tr : List (ℝ × Info ℝ)),
    (⟨st, true, false⟩ : Waiter ℝ).runTrace tr = ⟨st, true, false⟩ := by
  intro tr
  induction tr with
  | nil => rfl
  | cons p rest ih =>
    have : (⟨st, true, false⟩ : Waiter ℝ).process p.1 p.2 = ⟨st, true, false⟩ := by
      simp [Waiter.process]
    simp only [Waiter.runTrace, this, ih]

/-- what becomes of a waiter: decided by the first verdict that is not `Later` -/
theorem Waiter.outcome (c : ℕ) (T : ClockTime ℝ) : ∀ (tr : List (ℝ × Info ℝ)),
    let ws := tr.map (fun p => p.2.whenToStart c T)
    let w' := (⟨.clockTime c T, false, false⟩ : Waiter ℝ).runTrace tr
    ((startIndex ws).isSome → w' = ⟨.immediate, false, true⟩)
    ∧ ((cancelIndex ws).isSome → w' = ⟨.clockTime c T, true, false⟩)
    ∧ ((startIndex ws).isSome = false → (cancelIndex ws).isSome = false →
          w' = ⟨.clockTime c T, false, false⟩) := by
  intro tr
  induction tr with
  | nil => simp [startIndex, cancelIndex, Waiter.runTrace]
  | cons p rest ih =>
    simp only [List.map_cons, Waiter.runTrace]
    cases hv : p.2.whenToStart c T with
    | now =>
      have : (⟨.clockTime c T, false, false⟩ : Waiter ℝ).process p.1 p.2 = ⟨.immediate, false, true⟩ := by
        simp [Waiter.process, StartTime.update, hv, StartTime.isImmediate]
      simp [this, startIndex, cancelIndex, Waiter.runTrace_started]
    | never =>
      have : (⟨.clockTime c T, false, false⟩ : Waiter ℝ).process p.1 p.2 = ⟨.clockTime c T, true, false⟩ := by
        simp [Waiter.process, StartTime.update, hv, StartTime.isImmediate]
      simp [this, startIndex, cancelIndex, Waiter.runTrace_cancelled]
    | later =>
      have : (⟨.clockTime c T, false, false⟩ : Waiter ℝ).process p.1 p.2 = ⟨.clockTime c T, false, false⟩ := by
        simp [Waiter.process, StartTime.update, hv, StartTime.isImmediate]
      simp only [this, startIndex, cancelIndex, Option.isSome_map]
      exact ih

/-! ### verdicts in terms of the clock -/

/-- `Now` means: the clock exists, is ticking, and its time is at or past the target -/
theorem whenToStart_now_iff (info : Info ℝ) (c : ℕ) (T : ClockTime ℝ) :
    info.whenToStart c T = .now ↔
      ∃ ci, info.clock c = some ci ∧ ci.ticking = true ∧ ClockTime.ge ci.time T = true := by
  unfold Info.whenToStart
  cases h : info.clock c with
  | none => simp
  | some ci =>
    by_cases hc : (ci.ticking && ClockTime.ge ci.time T) = true
    · simp only [hc, if_true, Option.some.injEq, exists_eq_left', true_iff]
      simpa using hc
    · simp only [hc, Bool.false_eq_true, if_false, Option.some.injEq, exists_eq_left']
      constructor
      · intro h'; exact absurd h' (by simp)
      · intro ⟨a, b⟩; exact absurd (by simp [a, b]) hc

/-- `Never` means: the clock does not exist -/
theorem whenToStart_never_iff (info : Info ℝ) (c : ℕ) (T : ClockTime ℝ) :
    info.whenToStart c T = .never ↔ info.clock c = none := by
  unfold Info.whenToStart
  cases h : info.clock c with
  | none => simp
  | some ci => by_cases hc : (ci.ticking && ClockTime.ge ci.time T) = true <;> simp [hc]

/-- for well-formed times `>=` is the order of `ticks + fraction` -/
theorem ge_iff_val (a b : ClockTime ℝ) (ha : ClockTime.WF a) (hb : ClockTime.WF b) :
    ClockTime.ge a b = true ↔ ClockTime.val b ≤ ClockTime.val a := by
  obtain ⟨h0, h1, h2, h3⟩ := C19_clocktime_order a b ha hb
  unfold ClockTime.ge
  simp only [Bool.or_eq_true, beq_iff_eq]
  constructor
  · rintro (h | h)
    · exact le_of_eq (h1.mp h).symm
    · exact le_of_lt (h2.mp h)
  · intro h
    rcases lt_or_eq_of_le h with h | h
    · exact Or.inr (h2.mpr h)
    · exact Or.inl (h1.mpr h.symm)

/-! ### modulators: processed before the clocks are updated -/

theorem ModTweener.update_congr (m : ModTweener ℝ) (dt : ℝ) (i1 i2 : Info ℝ)
    (h : ∀ c t, i1.whenToStart c t = i2.whenToStart c t) : m.update dt i1 = m.update dt i2 := by
  unfold ModTweener.update
  cases m.state with
  | idle => rfl
  | tweening a b time tween =>
    cases tween.startTime <;> simp [h]

theorem Sys.processMods_eq (s : Sys ℝ) (dt : ℝ) :
    s.processMods dt = some (s.mods.map (fun p => (p.1, p.2.update dt s.mixInfo))) := by
  unfold Sys.processMods
  rw [forEachSelfRef_indep (ModTweener.new (0.0 : ℝ)) _ (fun m => m.update dt s.mixInfo)]
  · simp
  · intro m view
    simp only [Option.some.injEq]
    exact ModTweener.update_congr m dt _ _ (fun c t => rfl)

theorem Sys.chunk_mods (s s' : Sys ℝ) (dt : ℝ) (h : s.chunk dt = some s') :
    s'.mods = s.mods.map (fun p => (p.1, p.2.update dt s.mixInfo)) := by
  unfold Sys.chunk at h
  rw [Sys.processMods_eq] at h
  simp only at h
  split at h
  · exact absurd h (by simp)
  · simp only [Option.some.injEq] at h
    subst h; rfl

/-- a tweener waiting for a clock time: it stays exactly as it is unless the verdict is `Now`, and
    with `Now` its tween starts in this very update -/
theorem ModTweener.update_waiting (m : ModTweener ℝ) (a b : ℝ) (D : ℕ) (e : Easing ℝ) (c : ℕ)
    (T : ClockTime ℝ) (dt : ℝ) (info : Info ℝ)
    (hs : m.state = .tweening a b 0 ⟨.clockTime c T, D, e⟩) :
    (info.whenToStart c T ≠ .now → m.update dt info = m)
    ∧ (info.whenToStart c T = .now →
        (m.update dt info).state = .idle
        ∨ (m.update dt info).state = .tweening a b (0 + dt) ⟨.clockTime c T, D, e⟩) := by
  constructor
  · intro h
    unfold ModTweener.update
    simp only [hs, h, decide_false, Bool.not_false, if_true]
    cases m; simp_all
  · intro h
    unfold ModTweener.update
    simp only [hs, h, decide_true, Bool.not_true, Bool.false_eq_true, if_false]
    by_cases hd : (durToSecs D : ℝ) ≤ dt
    · left; simp [hd]
    · right; simp [hd]

/-! ### a clock never sees itself -/

/-- generic-type version of C06's "holds until the clock start": while the verdict is not `Now`
    a tween waiting for a clock time keeps its state (tween time stays 0) -/
theorem Parameter.update_waiting_clock {τ : Type} (tw : Tweenable ℝ τ) (p : Parameter ℝ τ) (dt : ℝ)
    (info : Info ℝ) (start : τ) (target : Value ℝ τ) (c : ℕ) (ct : ClockTime ℝ) (D : ℕ) (e : Easing ℝ)
    (hs : p.state = .tweening start target 0 ⟨.clockTime c ct, D, e⟩) (hst : p.stagnant = false)
    (hw : info.whenToStart c ct ≠ .now) :
    (p.update tw dt info).1.state = p.state ∧ (p.update tw dt info).1.stagnant = false := by
  unfold Parameter.update
  simp only [hst, Bool.false_eq_true, if_false]
  unfold Parameter.updateTween
  simp only [hs, hw, decide_false, Bool.not_false, if_true]
  split <;> exact ⟨rfl, rfl⟩

/-- the stand-in clock is not ticking, so nothing scheduled on its time is ever due -/
theorem dummy_never_now (view : ℕ → Option (Clock ℝ)) (mv : ℕ → Option (ModTweener ℝ)) (k : ℕ)
    (T : ClockTime ℝ) (h : view k = some Clock.dummy) :
    (Sys.infoOf view mv).whenToStart k T = .later := by
  simp [Info.whenToStart, Sys.infoOf, h, Clock.info, Clock.dummy, Clock.new]

/-- a clock whose speed tween waits for the clock's *own* time, with no new speed command pending -/
def OwnWaiting (k : ℕ) (start : ClockSpeed ℝ) (target : Value ℝ (ClockSpeed ℝ)) (T : ClockTime ℝ) (D : ℕ)
    (e : Easing ℝ) (c : Clock ℝ) : Prop :=
  c.speed.state = .tweening start target 0 ⟨.clockTime k T, D, e⟩ ∧ c.speed.stagnant = false
    ∧ c.cmds.setSpeed = none

theorem OwnWaiting.update {k : ℕ} {start : ClockSpeed ℝ} {target : Value ℝ (ClockSpeed ℝ)}
    {T : ClockTime ℝ} {D : ℕ} {e : Easing ℝ} {c : Clock ℝ} (dt : ℝ)
    (view : ℕ → Option (Clock ℝ)) (mv : ℕ → Option (ModTweener ℝ))
    (h : OwnWaiting k start target T D e c) (hv : view k = some Clock.dummy) :
    OwnWaiting k start target T D e (c.update dt (Sys.infoOf view mv)).1 := by
  obtain ⟨h1, h2, h3⟩ := h
  obtain ⟨f1, _, f3, _⟩ := Clock.update_frame c dt (Sys.infoOf view mv)
  have hw : (Sys.infoOf view mv).whenToStart k T ≠ .now := by rw [dummy_never_now view mv k T hv]; simp
  obtain ⟨g1, g2⟩ := Parameter.update_waiting_clock twCs c.speed dt _ start target k T D e h1 h2 hw
  exact ⟨by rw [f1, g1, h1], by rw [f1, g2], by rw [f3, h3]⟩

theorem OwnWaiting.onStartProcessing {k : ℕ} {start : ClockSpeed ℝ} {target : Value ℝ (ClockSpeed ℝ)}
    {T : ClockTime ℝ} {D : ℕ} {e : Easing ℝ} {c : Clock ℝ}
    (h : OwnWaiting k start target T D e c) : OwnWaiting k start target T D e c.onStartProcessing := by
  obtain ⟨h1, h2, h3⟩ := h
  unfold Clock.onStartProcessing OwnWaiting
  simp only [h3]
  cases c.cmds.setTicking <;> by_cases hr : c.cmds.reset = true <;>
    simp [hr, Clock.updateShared, Clock.setTicking, Clock.reset, ClockCmds.empty, h1, h2]

/-- handle calls other than `set_speed` -/
def HCmd.notSetSpeed : HCmd ℝ → Prop
  | .setSpeed _ _ => False
  | _ => True

theorem OwnWaiting.cmd {k : ℕ} {start : ClockSpeed ℝ} {target : Value ℝ (ClockSpeed ℝ)}
    {T : ClockTime ℝ} {D : ℕ} {e : Easing ℝ} {c : Clock ℝ} (cmd : HCmd ℝ) (hc : cmd.notSetSpeed)
    (h : OwnWaiting k start target T D e c) : OwnWaiting k start target T D e (cmd.apply c) := by
  obtain ⟨h1, h2, h3⟩ := h
  cases cmd with
  | setSpeed _ _ => exact absurd hc (by simp [HCmd.notSetSpeed])
  | start => exact ⟨h1, h2, h3⟩
  | pause => exact ⟨h1, h2, h3⟩
  | stop => exact ⟨h1, h2, h3⟩
  | drop => exact ⟨h1, h2, h3⟩

theorem mem_mapKey {T : Type} (id : ℕ) (f : T → T) (l : List (ℕ × T)) (p : ℕ × T) :
    p ∈ mapKey id f l ↔ ∃ q ∈ l, p = if q.1 = id then (q.1, f q.2) else q := by
  unfold mapKey
  simp only [List.mem_map]
  constructor
  · rintro ⟨q, hq, rfl⟩; exact ⟨q, hq, rfl⟩
  · rintro ⟨q, hq, rfl⟩; exact ⟨q, hq, rfl⟩

/-- events that do not send a new speed command to clock `k` -/
def Ev.leavesSpeedOf (k : ℕ) : Ev ℝ → Prop
  | .clockCmd id cmd => id = k → cmd.notSetSpeed
  | _ => True

/-- the system invariant behind "never fires": every entry under key `k` is still waiting -/
def OwnInv (k : ℕ) (start : ClockSpeed ℝ) (target : Value ℝ (ClockSpeed ℝ)) (T : ClockTime ℝ) (D : ℕ)
    (e : Easing ℝ) (s : Sys ℝ) : Prop :=
  k < s.nextId ∧ (∀ p ∈ s.clocks, p.1 = k → OwnWaiting k start target T D e p.2)
    ∧ (∀ p ∈ s.newClocks, p.1 = k → OwnWaiting k start target T D e p.2)

theorem OwnInv.step {k : ℕ} {start : ClockSpeed ℝ} {target : Value ℝ (ClockSpeed ℝ)}
    {T : ClockTime ℝ} {D : ℕ} {e : Easing ℝ} (s s' : Sys ℝ) (ev : Ev ℝ)
    (h : OwnInv k start target T D e s) (hev : ev.leavesSpeedOf k) (hs : s.step ev = some s') :
    OwnInv k start target T D e s' := by
  obtain ⟨hk, hc, hn⟩ := h
  cases ev with
  | addClock sp =>
    simp only [Sys.step, Option.some.injEq] at hs; subst hs
    refine ⟨by simp only; omega, hc, ?_⟩
    intro p hp hpk
    simp only [List.mem_append, List.mem_singleton] at hp
    rcases hp with hp | rfl
    · exact hn p hp hpk
    · simp only at hpk; omega
  | addTweener v =>
    simp only [Sys.step, Option.some.injEq] at hs; subst hs
    exact ⟨by simp only; omega, hc, hn⟩
  | clockCmd id cmd =>
    simp only [Sys.step, Option.some.injEq] at hs; subst hs
    refine ⟨hk, ?_, ?_⟩
    · intro p hp hpk
      have hp' : p ∈ mapKey id (fun c => HCmd.apply c cmd) s.clocks := hp
      obtain ⟨q, hq, rfl⟩ := (mem_mapKey id _ _ p).mp hp'
      by_cases hqi : q.1 = id
      · simp only [hqi, if_true] at hpk ⊢
        exact OwnWaiting.cmd cmd (hev hpk) (hc q hq (by rw [hqi, hpk]))
      · simp only [hqi, if_false] at hpk ⊢
        exact hc q hq hpk
    · intro p hp hpk
      have hp' : p ∈ mapKey id (fun c => HCmd.apply c cmd) s.newClocks := hp
      obtain ⟨q, hq, rfl⟩ := (mem_mapKey id _ _ p).mp hp'
      by_cases hqi : q.1 = id
      · simp only [hqi, if_true] at hpk ⊢
        exact OwnWaiting.cmd cmd (hev hpk) (hn q hq (by rw [hqi, hpk]))
      · simp only [hqi, if_false] at hpk ⊢
        exact hn q hq hpk
  | tweenerSet _ _ _ => simp only [Sys.step, Option.some.injEq] at hs; subst hs; exact ⟨hk, hc, hn⟩
  | tweenerDrop _ => simp only [Sys.step, Option.some.injEq] at hs; subst hs; exact ⟨hk, hc, hn⟩
  | play _ => simp only [Sys.step, Option.some.injEq] at hs; subst hs; exact ⟨hk, hc, hn⟩
  | startProcessing =>
    simp only [Sys.step, Option.some.injEq] at hs; subst hs
    refine ⟨hk, ?_, by simp [Sys.startProcessing]⟩
    intro p hp hpk
    simp only [Sys.startProcessing, List.mem_map, List.mem_append, List.mem_filter] at hp
    obtain ⟨q, hq, rfl⟩ := hp
    rcases hq with ⟨hq, _⟩ | hq
    · exact OwnWaiting.onStartProcessing (hc q hq hpk)
    · exact OwnWaiting.onStartProcessing (hn q hq hpk)
  | chunk dt =>
    simp only [Sys.step, Sys.chunk] at hs
    split at hs
    · exact absurd hs (by simp)
    · rename_i mods _
      split at hs
      · exact absurd hs (by simp)
      · rename_i clocks hcl
        simp only [Option.some.injEq] at hs; subst hs
        refine ⟨hk, ?_, hn⟩
        intro p hp hpk
        have := forEachSelfRef_forall Clock.dummy _
          (fun k' c => k' = k → OwnWaiting k start target T D e c)
          (by
            intro k' x view x' hview hq hx hk'
            subst hk'
            simp only [Option.some.injEq] at hx
            subst hx
            exact OwnWaiting.update dt view _ (hq rfl) hview)
          s.clocks [] clocks (by simp) (fun p hp => hc p hp) hcl
        exact this p hp hpk

/-! ### no history can hang (the tick count is computed, not looped) -/

/-- `for_each` with updates that always return does return -/
theorem forEachSelfRef_total {T : Type} (dummy : T) (f : T → (ℕ → Option T) → Option T)
    (hf : ∀ x view, ∃ x', f x view = some x') :
    ∀ (l done : List (ℕ × T)), ∃ out, forEachSelfRef dummy f done l = some out := by
  intro l
  induction l with
  | nil => intro done; exact ⟨done, rfl⟩
  | cons p rest ih =>
    intro done
    obtain ⟨k, x⟩ := p
    obtain ⟨x', hx⟩ := hf x (fun j => if j = k then some dummy else (done ++ rest).lookup j)
    obtain ⟨out, ho⟩ := ih (done ++ [(k, x')])
    exact ⟨out, by simp only [forEachSelfRef, hx, ho]⟩

/-- every event of every history is processed: nothing in the clock system can fail to return -/
theorem Sys.step_total (s : Sys ℝ) (e : Ev ℝ) : ∃ s', s.step e = some s' := by
  cases e with
  | chunk dt =>
    obtain ⟨mods, hm⟩ := forEachSelfRef_total (ModTweener.new (0.0 : ℝ))
      (fun m view => some (m.update dt (Sys.infoOf (fun id => s.clocks.lookup id) view))) (fun _ _ => ⟨_, rfl⟩) s.mods []
    obtain ⟨clocks, hc⟩ := forEachSelfRef_total Clock.dummy
      (fun c view => some (c.update dt (Sys.infoOf view (fun id => mods.lookup id))).1) (fun _ _ => ⟨_, rfl⟩) s.clocks []
    simp only [Sys.step, Sys.chunk, Sys.processMods, Sys.updateClocks, hm, hc]
    exact ⟨_, rfl⟩
  | _ => exact ⟨_, rfl⟩

theorem Sys.run_total : ∀ (evs : List (Ev ℝ)) (s : Sys ℝ), ∃ s', s.run evs = some s' := by
  intro evs
  induction evs with
  | nil => intro s; exact ⟨s, rfl⟩
  | cons e rest ih =>
    intro s
    obtain ⟨s1, h1⟩ := Sys.step_total s e
    obtain ⟨s2, h2⟩ := ih s1
    exact ⟨s2, by simp only [Sys.run, h1, h2]⟩

end K
