/-
  Proofs/StoreLemmas.lean — well-formedness of the resource store (controller + arena + the two
  rings) and its preservation by every primitive step.  Core Lean only.
-/
import KiraModel.Model.Conc.ResourceHandshake

namespace K
variable {τ : Type}

namespace Store

/-- slot indices that are owned by somebody: reserved keys still in the creator's hands, keys
    travelling through the new-resource ring, occupied arena slots -/
def ownIdx (held : List Key) (s : Store τ) : List Nat :=
  held.map (·.index) ++ (s.newRing.items.map (·.1.index) ++ s.arena.order)

/-- Well-formedness of a store of capacity `cap` while the gameplay side holds the reserved,
    not-yet-pushed keys `held`. -/
structure WF (cap : Nat) (held : List Key) (s : Store τ) : Prop where
  cslots : s.ctrl.slots.length = cap
  aslots : s.arena.slots.length = cap
  ncap : s.newRing.cap = cap
  ucap : s.unused.cap = cap
  freeNodup : s.ctrl.freeList.Nodup
  freeOk : ∀ i ∈ s.ctrl.freeList, ∃ sl, s.ctrl.slots[i]? = some sl ∧ sl.free = true
  count : s.ctrl.freeList.length + s.ctrl.len = cap
  ownNodup : (ownIdx held s).Nodup
  ownOk : ∀ i ∈ ownIdx held s, ∃ sl, s.ctrl.slots[i]? = some sl ∧ sl.free = false
  ownCount : s.ctrl.len = (ownIdx held s).length
  occ : ∀ i : Nat, i ∈ s.arena.order ↔ ∃ sl, s.arena.slots[i]? = some sl ∧ sl.data.isSome = true
  gens : ∀ i : Nat, (s.arena.slots[i]?).map ASlot.generation = (s.ctrl.slots[i]?).map CSlot.generation
  heldGen : ∀ k ∈ held, s.ctrl.generation k.index = k.generation
  newGen : ∀ p ∈ s.newRing.items, s.ctrl.generation p.1.index = p.1.generation

theorem wf_new (cap : Nat) (h : 0 < cap) : WF cap [] (Store.new cap : Store τ) := by
  have hne : cap ≠ 0 := by omega
  refine ⟨by simp [Store.new, Controller.new], by simp [Store.new, Arena.new], rfl, rfl, ?_, ?_, ?_, ?_, ?_, ?_, ?_, ?_,
    by simp, by simp [Store.new, Ring.new]⟩
  · simp [Store.new, Controller.new, hne, List.nodup_range]
  · intro i hi
    simp [Store.new, Controller.new, hne, List.mem_range] at hi ⊢
    exact ⟨⟨true, 0⟩, by simp [hi], rfl⟩
  · simp [Store.new, Controller.new, hne, Controller.len, List.countP_replicate]
  · simp [ownIdx, Store.new, Ring.new, Arena.new]
  · simp [ownIdx, Store.new, Ring.new, Arena.new]
  · simp [ownIdx, Store.new, Ring.new, Arena.new, Controller.new, Controller.len, List.countP_replicate]
  · intro i
    simp [Store.new, Arena.new, List.getElem?_replicate]
  · intro i
    simp [Store.new, Arena.new, Controller.new, List.getElem?_replicate]

theorem getElem?_lt {α : Type} {l : List α} {i : Nat} {x : α} (h : l[i]? = some x) : i < l.length := by
  rcases Nat.lt_or_ge i l.length with h' | h'
  · exact h'
  · simp [List.getElem?_eq_none h'] at h

theorem len_set (c : Controller) (i : Nat) (sl sl' : CSlot) (h : c.slots[i]? = some sl) :
    (c.slots.set i sl').countP (fun s => !s.free)
      = (c.len - if !sl.free then 1 else 0) + if !sl'.free then 1 else 0 := by
  have hi := getElem?_lt h
  rw [List.countP_set hi]
  have : c.slots[i] = sl := by
    rw [List.getElem?_eq_getElem hi] at h; simpa using h
  simp [this, Controller.len]

/-- what a successful / unsuccessful `try_reserve` does to a well-formed store -/
def ReserveSpec (cap : Nat) (held : List Key) (s : Store τ) : Except SFault (Option Key × Store τ) → Prop
  | .error _ => False
  | .ok (none, s') => s' = s ∧ s.ctrl.len = cap
  | .ok (some k, s') =>
      WF cap (k :: held) s' ∧ s.ctrl.len < cap ∧ s'.ctrl.len = s.ctrl.len + 1 ∧ k.index < cap
      ∧ k.generation = s.ctrl.generation k.index ∧ (∀ j, s'.ctrl.generation j = s.ctrl.generation j)
      ∧ s'.arena = s.arena ∧ s'.newRing = s.newRing ∧ s'.unused = s.unused ∧ s'.dropped = s.dropped
      ∧ k.index ∉ ownIdx held s

theorem wf_tryReserve {cap : Nat} {held : List Key} {s : Store τ} (h : WF cap held s) :
    ReserveSpec cap held s s.tryReserve := by
  obtain ⟨cs, as, nc, uc, fn, fo, cnt, on, oo, oc, occ, gens, hg, ng⟩ := h
  cases hfl : s.ctrl.freeList with
  | nil =>
    simp [hfl] at cnt
    by_cases h0 : s.ctrl.capacity = 0
    · simp only [Controller.capacity] at h0
      simp [tryReserve, Controller.capacity, h0, ReserveSpec, cnt]
    · simp [tryReserve, Controller.tryReserve, hfl, ReserveSpec, cnt, h0]
  | cons i rest =>
    obtain ⟨sl, hsl, hfree⟩ := fo i (by simp [hfl])
    have hi : i < cap := by have := getElem?_lt hsl; omega
    have h0 : s.ctrl.capacity ≠ 0 := by simp only [Controller.capacity]; omega
    have hlen := len_set s.ctrl i sl { sl with free := false } hsl
    simp [hfree] at hlen
    simp [hfl] at cnt fn
    have hnot : i ∉ ownIdx held s := by
      intro hmem
      obtain ⟨sl2, h2, hf2⟩ := oo i hmem
      rw [hsl] at h2; cases h2; simp [hfree] at hf2
    simp only [tryReserve, h0, if_false, Controller.tryReserve, hfl, hsl, ReserveSpec]
    have hil := getElem?_lt hsl
    refine ⟨⟨?_, ?_, ?_, ?_, ?_, ?_, ?_, ?_, ?_, ?_, ?_, ?_, ?_, ?_⟩, by omega, ?_, hi, ?_, ?_, trivial, trivial, trivial, trivial, hnot⟩
    all_goals (simp only [Controller.len, Controller.generation, ownIdx, List.map_cons, List.cons_append, List.length_cons, List.length_set] at *)
    all_goals first | assumption | omega | grind


theorem own_length_le {cap : Nat} {held : List Key} {s : Store τ} (h : WF cap held s) :
    (ownIdx held s).length ≤ cap := by
  have := h.count; have := h.ownCount; omega

theorem wf_popUnused {cap : Nat} {held : List Key} {s s' : Store τ} (h : WF cap held s)
    (hs : s.popUnused = some s') : WF cap held s' ∧ s'.ctrl = s.ctrl ∧ s'.arena = s.arena ∧ s'.newRing = s.newRing
      ∧ s'.unused.items.length + 1 = s.unused.items.length := by
  obtain ⟨cs, as, nc, uc, fn, fo, cnt, on, oo, oc, occ, gens, hg, ng⟩ := h
  cases hit : s.unused.items with
  | nil => simp [popUnused, Ring.pop, hit] at hs
  | cons x r =>
    simp [popUnused, Ring.pop, hit] at hs
    subst hs
    exact ⟨⟨cs, as, nc, uc, fn, fo, cnt, on, oo, oc, occ, gens, hg, ng⟩, rfl, rfl, rfl, by simp⟩

theorem popUnused_none {s : Store τ} (hs : s.popUnused = none) : s.unused.items = [] := by
  cases hit : s.unused.items with
  | nil => rfl
  | cons x r => simp [popUnused, Ring.pop, hit] at hs

theorem wf_pushNew {cap : Nat} {k : Key} {held : List Key} {s : Store τ} (x : τ) (h : WF cap (k :: held) s) :
    ∃ s', s.pushNew k x = .ok s' ∧ WF cap held s' ∧ s'.ctrl = s.ctrl ∧ s'.arena = s.arena ∧ s'.unused = s.unused
      ∧ s'.dropped = s.dropped ∧ s'.newRing.items = s.newRing.items ++ [(k, x)] := by
  have hle := own_length_le h
  obtain ⟨cs, as, nc, uc, fn, fo, cnt, on, oo, oc, occ, gens, hg, ng⟩ := h
  have hlt : s.newRing.items.length < s.newRing.cap := by
    simp only [ownIdx, List.map_cons, List.cons_append, List.length_cons, List.length_append, List.length_map] at hle
    omega
  refine ⟨{ s with newRing := { s.newRing with items := s.newRing.items ++ [(k, x)] } }, ?_, ⟨?_, ?_, ?_, ?_, ?_, ?_, ?_, ?_, ?_, ?_, ?_, ?_, ?_, ?_⟩, rfl, rfl, rfl, rfl, rfl⟩
  · simp [pushNew, Ring.push, hlt]
  all_goals (simp only [Controller.len, Controller.generation, ownIdx, List.map_cons, List.cons_append, List.length_cons, List.length_append, List.map_append, List.length_map, List.mem_append, List.mem_cons, List.mem_map] at *)
  all_goals first | assumption | omega | grind


theorem nodup_erase_right {A B C : List Nat} {i : Nat} (h : (A ++ (B ++ C)).Nodup) (hi : i ∈ C) :
    (A ++ (B ++ C.erase i)).Nodup ∧ (A ++ (B ++ C.erase i)).length + 1 = (A ++ (B ++ C)).length
    ∧ (∀ j, j ∈ A ++ (B ++ C.erase i) ↔ j ≠ i ∧ j ∈ A ++ (B ++ C)) := by
  simp only [List.nodup_append, List.mem_append] at h
  obtain ⟨hA, ⟨hB, hC, hBC⟩, hAB⟩ := h
  have hCe := hC.erase i
  have hmem : ∀ j, j ∈ C.erase i ↔ j ≠ i ∧ j ∈ C := fun j => hC.mem_erase_iff
  refine ⟨?_, ?_, ?_⟩
  · simp only [List.nodup_append, List.mem_append]
    grind
  · simp only [List.length_append, List.length_erase_of_mem hi]
    have : 0 < C.length := List.length_pos_of_mem hi
    omega
  · intro j
    simp only [List.mem_append]
    grind


/-- what one drain visit of an occupied slot does -/
def VisitSpec (test : τ → Bool) (cap : Nat) (held : List Key) (s : Store τ) (i : Nat) :
    Except SFault (Option τ × Store τ) → Prop
  | .error _ => False
  | .ok (none, s') => s' = s ∧ ∃ sl d, s.arena.slots[i]? = some sl ∧ sl.data = some d ∧ test d = false
  | .ok (some x, s') =>
      WF cap held s' ∧ test x = true
      ∧ (∃ sl, s.arena.slots[i]? = some sl ∧ sl.data = some x)
      ∧ s'.arena.order = s.arena.order.erase i
      ∧ s'.ctrl.len + 1 = s.ctrl.len
      ∧ s'.newRing = s.newRing ∧ s'.unused = s.unused ∧ s'.dropped = s.dropped
      ∧ s'.ctrl.generation i = s.ctrl.generation i + 1
      ∧ (∀ j, j ≠ i → s'.ctrl.generation j = s.ctrl.generation j ∧ s'.arena.slots[j]? = s.arena.slots[j]?)
      ∧ (∃ sl, s'.arena.slots[i]? = some sl ∧ sl.data = none)

theorem wf_drainVisit (test : τ → Bool) {cap : Nat} {held : List Key} {s : Store τ} {i : Nat}
    (h : WF cap held s) (hi : i ∈ s.arena.order) : VisitSpec test cap held s i (s.drainVisit test i) := by
  have hown : i ∈ ownIdx held s := by simp [ownIdx, hi]
  obtain ⟨hn', hl', hm'⟩ := nodup_erase_right (A := held.map (·.index)) (B := s.newRing.items.map (·.1.index)) h.ownNodup hi
  obtain ⟨cs, as, nc, uc, fn, fo, cnt, on, oo, oc, occ, gens, hg, ng⟩ := h
  obtain ⟨sl, hsl, hd⟩ := (occ i).mp hi
  obtain ⟨csl, hcsl, hcf⟩ := oo i hown
  cases hdd : sl.data with
  | none => simp [hdd] at hd
  | some d =>
    have hlen := len_set s.ctrl i csl ⟨true, csl.generation + 1⟩ hcsl
    simp [hcf] at hlen
    have hpos : 0 < (ownIdx held s).length := List.length_pos_of_mem hown
    have hil := getElem?_lt hcsl
    have hial := getElem?_lt hsl
    by_cases ht : test d = true
    · simp only [drainVisit, hsl, hdd, ht, Arena.removeFromSlot, Controller.free, hcsl, VisitSpec, if_true]
      refine ⟨⟨?_, ?_, ?_, ?_, ?_, ?_, ?_, ?_, ?_, ?_, ?_, ?_, ?_, ?_⟩, trivial, ?_, trivial, ?_, trivial, trivial, trivial, ?_, ?_, ?_⟩
      all_goals (simp only [Controller.len, Controller.generation, ownIdx, List.length_cons, List.length_append, List.length_map, List.mem_append, List.mem_cons, List.mem_map, List.length_set] at *)
      all_goals first | assumption | omega | grind
    · simp only [drainVisit, hsl, hdd, ht, VisitSpec]
      simp
      exact ⟨d, hdd, by simpa using ht⟩


/-- what one iteration of the pop-new loop does -/
def PopNewSpec (cap : Nat) (held : List Key) (s : Store τ) : Except SFault (Option Key × Store τ) → Prop
  | .error _ => False
  | .ok (none, s') => s' = s ∧ s.newRing.items = []
  | .ok (some k, s') =>
      WF cap held s' ∧ s'.ctrl = s.ctrl ∧ s'.unused = s.unused ∧ s'.dropped = s.dropped
      ∧ s'.arena.order = k.index :: s.arena.order
      ∧ ∃ x rest, s.newRing.items = (k, x) :: rest ∧ s'.newRing.items = rest
          ∧ s'.arena.slots[k.index]? = some ⟨some x, k.generation⟩
          ∧ (∀ j, j ≠ k.index → s'.arena.slots[j]? = s.arena.slots[j]?)
          ∧ s.arena.slots[k.index]? = some ⟨none, k.generation⟩

theorem wf_popNewInsert {cap : Nat} {held : List Key} {s : Store τ} (h : WF cap held s) :
    PopNewSpec cap held s s.popNewInsert := by
  obtain ⟨cs, as, nc, uc, fn, fo, cnt, on, oo, oc, occ, gens, hg, ng⟩ := h
  cases hit : s.newRing.items with
  | nil => simp [popNewInsert, Ring.pop, hit, PopNewSpec]
  | cons p rest =>
    obtain ⟨k, x⟩ := p
    have hown : k.index ∈ ownIdx held s := by simp [ownIdx, hit]
    obtain ⟨csl, hcsl, hcf⟩ := oo _ hown
    have hil := getElem?_lt hcsl
    have hial : k.index < s.arena.slots.length := by omega
    have hgen := ng (k, x) (by simp [hit])
    have hg2 := gens k.index
    obtain ⟨sl, hsl⟩ : ∃ sl, s.arena.slots[k.index]? = some sl := ⟨_, List.getElem?_eq_getElem hial⟩
    have hnot : k.index ∉ s.arena.order := by
      simp only [ownIdx, hit, List.map_cons, List.nodup_append, List.mem_append, List.mem_cons] at on
      grind
    have hdata : sl.data = none := by
      cases hd : sl.data with
      | none => rfl
      | some d => exact absurd ((occ k.index).mpr ⟨sl, hsl, by simp [hd]⟩) hnot
    have hslg : sl.generation = k.generation := by
      simp [hsl, hcsl, Controller.generation] at hg2 hgen; omega
    simp only [popNewInsert, Ring.pop, hit, Arena.insertWithKey, hsl, hslg, hdata, PopNewSpec]
    simp
    have hsl0 : sl = ⟨none, k.generation⟩ := by cases sl; simp_all
    have hsl1 : s.arena.slots[k.index]? = some ⟨none, k.generation⟩ := by rw [hsl, hsl0]
    refine ⟨⟨?_, ?_, ?_, ?_, ?_, ?_, ?_, ?_, ?_, ?_, ?_, ?_, ?_, ?_⟩, ?_, ?_⟩
    all_goals (simp only [Controller.len, Controller.generation, ownIdx, List.length_cons, List.length_append, List.length_map, List.mem_append, List.mem_cons, List.mem_map, List.length_set, hit, List.map_cons, List.nodup_append, List.nodup_cons] at *)
    all_goals first | assumption | omega | grind

theorem wf_pushUnused {cap : Nat} {held : List Key} {s s' : Store τ} (x : τ) (h : WF cap held s)
    (hs : s.pushUnused x = .ok s') :
    WF cap held s' ∧ s'.ctrl = s.ctrl ∧ s'.arena = s.arena ∧ s'.newRing = s.newRing
      ∧ s'.dropped = s.dropped ∧ s'.unused.items = s.unused.items ++ [x] ∧ s.unused.items.length < cap := by
  obtain ⟨cs, as, nc, uc, fn, fo, cnt, on, oo, oc, occ, gens, hg, ng⟩ := h
  by_cases hlt : s.unused.items.length < s.unused.cap
  · simp [pushUnused, Ring.push, hlt] at hs
    subst hs
    exact ⟨⟨cs, as, nc, uc, fn, fo, cnt, on, oo, oc, occ, gens, hg, ng⟩, rfl, rfl, rfl, rfl, rfl, by omega⟩
  · simp [pushUnused, Ring.push, hlt] at hs

theorem pushUnused_ok {s : Store τ} (x : τ) (h : s.unused.items.length < s.unused.cap) :
    ∃ s', s.pushUnused x = .ok s' := by
  simp [pushUnused, Ring.push, h]

theorem pushUnused_full {s : Store τ} (x : τ) (h : s.unused.cap ≤ s.unused.items.length) :
    s.pushUnused x = .error .queueFull := by
  have : ¬ s.unused.items.length < s.unused.cap := by omega
  simp [pushUnused, Ring.push, this]

theorem order_nodup' {cap : Nat} {held : List Key} {s : Store τ} (h : WF cap held s) : s.arena.order.Nodup := by
  have := h.ownNodup
  simp only [ownIdx, List.nodup_append] at this
  exact this.2.1.2.1

/-- the whole drain loop (no interleaving): well-formedness is kept, the new ring is untouched,
    slots outside the visited list are untouched, and every visited slot whose resource passes the
    test ends up free with a bumped generation -/
theorem wf_drainLoop (test : τ → Bool) {cap : Nat} {held : List Key} :
    ∀ (l : List Nat) (s s1 : Store τ), WF cap held s → l.Nodup → (∀ i ∈ l, i ∈ s.arena.order) →
      drainLoop test l s = .ok s1 →
      WF cap held s1 ∧ s1.newRing = s.newRing
      ∧ (∀ j, j ∉ l → s1.arena.slots[j]? = s.arena.slots[j]? ∧ s1.ctrl.generation j = s.ctrl.generation j)
      ∧ (∀ j, s.ctrl.generation j ≤ s1.ctrl.generation j)
      ∧ (∀ i ∈ l, ∀ sl d, s.arena.slots[i]? = some sl → sl.data = some d → test d = true →
            s.ctrl.generation i < s1.ctrl.generation i)
      ∧ (∀ j, j ∈ s1.arena.order → j ∈ s.arena.order) := by
  intro l
  induction l with
  | nil =>
    intro s s1 wf _ _ hs
    simp [drainLoop] at hs; subst hs
    exact ⟨wf, rfl, fun j _ => ⟨rfl, rfl⟩, fun j => Nat.le_refl _, by simp, fun j h => h⟩
  | cons i rest ih =>
    intro s s1 wf hnd hall hs
    have hnd' := List.nodup_cons.mp hnd
    have hi : i ∈ s.arena.order := hall i (by simp)
    have spec := wf_drainVisit test wf hi
    simp only [drainLoop] at hs
    cases hv : s.drainVisit test i with
    | error e => simp [hv, VisitSpec] at spec
    | ok p =>
      obtain ⟨xo, st⟩ := p
      cases xo with
      | none =>
        simp only [hv, VisitSpec] at spec hs
        obtain ⟨rfl, sl0, d0, hsl0, hd0, ht0⟩ := spec
        obtain ⟨wf1, hn1, hsame, hmono, hrem, hsub⟩ := ih st s1 wf hnd'.2 (fun j hj => hall j (by simp [hj])) hs
        refine ⟨wf1, hn1, fun j hj => hsame j (by simp at hj; exact hj.2), hmono, ?_, hsub⟩
        intro j hj sl d hsl hd ht
        simp only [List.mem_cons] at hj
        rcases hj with rfl | hj
        · rw [hsl0] at hsl; cases hsl; rw [hd0] at hd; cases hd; rw [ht0] at ht; cases ht
        · exact hrem j hj sl d hsl hd ht
      | some x =>
        simp only [hv, VisitSpec] at spec hs
        obtain ⟨wf', htx, ⟨sl, hsl, hdx⟩, hord, hlen, hn, hu, hdr, hgi, hoth, _⟩ := spec
        cases hp : st.pushUnused x with
        | error e => simp [hp] at hs
        | ok st2 =>
          simp only [hp] at hs
          obtain ⟨wf2, hc2, ha2, hn2, hd2, hit2, _⟩ := wf_pushUnused x wf' hp
          have hond := order_nodup' wf
          have hall2 : ∀ j ∈ rest, j ∈ st2.arena.order := by
            intro j hj
            rw [ha2, hord]
            have hne : j ≠ i := by intro e; rw [e] at hj; exact hnd'.1 hj
            exact (List.mem_erase_of_ne hne).mpr (hall j (by simp [hj]))
          obtain ⟨wf1, hn1, hsame, hmono, hrem, hsub⟩ := ih st2 s1 wf2 hnd'.2 hall2 hs
          have hgm : ∀ j, s.ctrl.generation j ≤ st2.ctrl.generation j := by
            intro j; rw [hc2]; by_cases hj : j = i
            · rw [hj, hgi]; omega
            · rw [(hoth j hj).1]; exact Nat.le_refl _
          refine ⟨wf1, by rw [hn1, hn2, hn], ?_, fun j => Nat.le_trans (hgm j) (hmono j), ?_, ?_⟩
          · intro j hj
            simp only [List.mem_cons, not_or] at hj
            obtain ⟨h1, h2⟩ := hsame j hj.2
            rw [h1, h2, ha2, hc2]
            exact ⟨(hoth j hj.1).2, (hoth j hj.1).1⟩
          · intro j hj slj d hslj hd ht
            simp only [List.mem_cons] at hj
            rcases hj with rfl | hj
            · have := hmono j; rw [hc2, hgi] at this; omega
            · have hne : j ≠ i := by intro e; rw [e] at hj; exact hnd'.1 hj
              have := hrem j hj slj d (by rw [ha2, (hoth j hne).2]; exact hslj) hd ht
              rw [hc2, (hoth j hne).1] at this; exact this
          · intro j hj
            have := hsub j hj
            rw [ha2, hord] at this
            exact List.mem_of_mem_erase this

/-- the whole insert loop: every (key, resource) that was in the new ring resolves in the arena afterwards -/
theorem wf_addItems {cap : Nat} {held : List Key} :
    ∀ (items : List (Key × τ)) (s s1 : Store τ) (ks : List Key), WF cap held s → s.newRing.items = items →
      addItems items s = .ok (s1, ks) →
      WF cap held s1 ∧ s1.newRing.items = [] ∧ s1.ctrl = s.ctrl ∧ s1.unused = s.unused ∧ s1.dropped = s.dropped
      ∧ ks = items.map (·.1)
      ∧ s1.arena.order = (items.map (·.1.index)).reverse ++ s.arena.order
      ∧ (∀ p ∈ items, s1.arena.slots[p.1.index]? = some ⟨some p.2, p.1.generation⟩)
      ∧ (∀ j, j ∉ items.map (·.1.index) → s1.arena.slots[j]? = s.arena.slots[j]?) := by
  intro items
  induction items with
  | nil =>
    intro s s1 ks wf hit hs
    simp [addItems] at hs
    obtain ⟨rfl, rfl⟩ := hs
    exact ⟨wf, hit, rfl, rfl, rfl, rfl, by simp, by simp, fun j _ => rfl⟩
  | cons p rest ih =>
    intro s s1 ks wf hit hs
    have spec := wf_popNewInsert wf
    simp only [addItems] at hs
    cases hp : s.popNewInsert with
    | error e => simp [hp, PopNewSpec] at spec
    | ok q =>
      obtain ⟨ko, st⟩ := q
      cases ko with
      | none =>
        simp only [hp, PopNewSpec] at spec
        rw [hit] at spec; simp at spec
      | some k =>
        simp only [hp, PopNewSpec] at spec hs
        obtain ⟨wf', hc, hu, hd, hord, x, rest', hit0, hit', hslk, hoth, hbefore⟩ := spec
        rw [hit] at hit0; cases hit0
        cases hr : addItems rest st with
        | error e => simp [hr] at hs
        | ok q2 =>
          obtain ⟨s2, ks2⟩ := q2
          simp [hr] at hs
          obtain ⟨rfl, rfl⟩ := hs
          obtain ⟨wf1, he1, hc1, hu1, hd1, hks, hord1, hin1, hout1⟩ := ih st s2 ks2 wf' hit' hr
          have hnd := wf.ownNodup
          have hknot : ∀ q ∈ rest, q.1.index ≠ k.index := by
            intro q hq
            simp only [ownIdx, hit, List.map_cons, List.nodup_append, List.nodup_cons, List.mem_map] at hnd
            intro e
            exact hnd.2.1.1.1 ⟨q, hq, e⟩
          refine ⟨wf1, he1, by rw [hc1, hc], by rw [hu1, hu], by rw [hd1, hd], by simp [hks], ?_, ?_, ?_⟩
          · rw [hord1, hord]; simp
          · intro q hq
            simp only [List.mem_cons] at hq
            rcases hq with rfl | hq
            · rw [(hout1 k.index (by simp only [List.mem_map, not_exists, not_and]; intro q hq e; exact hknot q hq e))]
              exact hslk
            · exact hin1 q hq
          · intro j hj
            simp only [List.map_cons, List.mem_cons, not_or] at hj
            rw [hout1 j hj.2, hoth j hj.1]

end Store
end K
