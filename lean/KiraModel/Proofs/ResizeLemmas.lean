/-
  ResizeLemmas.lean — the internal buffer size is only a scratch capacity (C11): a mixer whose scratch
  buffers have `k` frames instead of `ibs` renders the same signal flow and reaches the same state
  (up to the capacity of its scratch buffers).  Over ℝ.
-/
import KiraModel.Proofs.PartitionLemmas

set_option linter.unusedSectionVars false

namespace K

section
variable {S E P X : Type} (C : Comps ℝ S E P) (V : EnvOps ℝ X)

mutual
/-- the same tree with scratch buffers of `k` frames -/
def Trk.resize (k : Nat) : Trk ℝ S E P → Trk ℝ S E P
  | .node d children pending => .node { d with temp := zeros k } (Trk.resizeList k children) (Trk.resizeList k pending)
def Trk.resizeList (k : Nat) : List (Trk ℝ S E P) → List (Trk ℝ S E P)
  | [] => []
  | t :: ts => Trk.resize k t :: Trk.resizeList k ts
end

def SendTrk.resize (k : Nat) (s : SendTrk ℝ E) : SendTrk ℝ E := { s with input := zeros k }

/-- the same mixer built with internal buffer size `k` -/
def Mixer.resize (k : Nat) (m : Mixer ℝ S E P) : Mixer ℝ S E P :=
  { m with temp := zeros k, main := { m.main with temp := zeros k },
           subTracks := Trk.resizeList k m.subTracks, pendingSubTracks := Trk.resizeList k m.pendingSubTracks,
           sendTracks := m.sendTracks.map (SendTrk.resize k),
           pendingSendTracks := m.pendingSendTracks.map (SendTrk.resize k) }

/-- the same renderer built with internal buffer size `k` -/
def Renderer.resize (k : Nat) (r : Renderer ℝ S E P X) : Renderer ℝ S E P X :=
  { r with ibs := k, temp := zeros k, mixer := Mixer.resize k r.mixer }

theorem Trk.resize_clean (k : Nat) (t : Trk ℝ S E P) : Trk.Clean k (Trk.resize k t) := by
  refine Trk.rec (motive_1 := fun t => Trk.Clean k (Trk.resize k t))
    (motive_2 := fun ts => Trk.CleanList k (Trk.resizeList k ts)) ?_ ?_ ?_ t
  · intro d c p ihc ihp; rw [Trk.resize]; exact ⟨rfl, ihc, ihp⟩
  · simp [Trk.resizeList, Trk.CleanList]
  · intro t ts iht ihts; rw [Trk.resizeList]; exact ⟨iht, ihts⟩

theorem Trk.resizeList_clean (k : Nat) (ts : List (Trk ℝ S E P)) : Trk.CleanList k (Trk.resizeList k ts) := by
  induction ts with
  | nil => simp [Trk.resizeList, Trk.CleanList]
  | cons t ts ih => rw [Trk.resizeList]; exact ⟨Trk.resize_clean k t, ih⟩

theorem Trk.resize_settled (k : Nat) (t : Trk ℝ S E P) : Trk.Settled t → Trk.Settled (Trk.resize k t) := by
  refine Trk.rec (motive_1 := fun t => Trk.Settled t → Trk.Settled (Trk.resize k t))
    (motive_2 := fun ts => Trk.SettledList ts → Trk.SettledList (Trk.resizeList k ts)) ?_ ?_ ?_ t
  · intro d c p ihc _ h; rw [Trk.resize]; exact ⟨h.1, ihc h.2⟩
  · intro _; simp [Trk.resizeList, Trk.SettledList]
  · intro t ts iht ihts h; rw [Trk.resizeList]; exact ⟨iht h.1, ihts h.2⟩

theorem Trk.resizeList_settled (k : Nat) (ts : List (Trk ℝ S E P)) (h : Trk.SettledList ts) :
    Trk.SettledList (Trk.resizeList k ts) := by
  induction ts with
  | nil => simp [Trk.resizeList, Trk.SettledList]
  | cons t ts ih => rw [Trk.resizeList]; exact ⟨Trk.resize_settled k t h.1, ih h.2⟩

theorem Mixer.resize_clean (k : Nat) (m : Mixer ℝ S E P) : Mixer.Clean k (Mixer.resize k m) :=
  ⟨rfl, rfl, Trk.resizeList_clean k _, Trk.resizeList_clean k _,
    by intro s hs; simp only [Mixer.resize, List.mem_map] at hs; obtain ⟨_, _, rfl⟩ := hs; rfl,
    by intro s hs; simp only [Mixer.resize, List.mem_map] at hs; obtain ⟨_, _, rfl⟩ := hs; rfl⟩

theorem Mixer.resize_settled (k : Nat) (m : Mixer ℝ S E P) (h : Mixer.Settled m) : Mixer.Settled (Mixer.resize k m) :=
  ⟨Trk.resizeList_settled k _ h.subs, h.main,
    by intro s hs; simp only [Mixer.resize, List.mem_map] at hs; obtain ⟨s0, hs0, rfl⟩ := hs; exact h.sends s0 hs0⟩

theorem Renderer.resize_quiet (k : Nat) (r : Renderer ℝ S E P X) (h : r.Quiet) : (Renderer.resize k r).Quiet :=
  ⟨⟨rfl, Mixer.resize_clean k r.mixer⟩, Mixer.resize_settled k r.mixer h.2⟩

/-! ### the specification never looks at a scratch buffer -/

theorem Trk.preUpdate_setTemp (dt : ℝ) (info : Info ℝ) (n : Nat) (d : TrkData ℝ S E P) (x : List (Frame ℝ)) :
    Trk.preUpdate dt info n { d with temp := x } = { Trk.preUpdate dt info n d with temp := x } := by
  unfold Trk.preUpdate Trk.publish; dsimp only; split <;> rfl

theorem Trk.spec_resize (k : Nat) (t : Trk ℝ S E P) :
    ∀ (dt : ℝ) (pinfo : Info ℝ) (n : Nat) (sends : List (SendTrk ℝ E)),
      Trk.spec C dt pinfo n (Trk.resize k t) sends
        = (Trk.resize k (Trk.spec C dt pinfo n t sends).1, (Trk.spec C dt pinfo n t sends).2.1,
            (Trk.spec C dt pinfo n t sends).2.2) := by
  refine Trk.rec
    (motive_1 := fun t => ∀ (dt : ℝ) (pinfo : Info ℝ) (n : Nat) (sends : List (SendTrk ℝ E)),
      Trk.spec C dt pinfo n (Trk.resize k t) sends
        = (Trk.resize k (Trk.spec C dt pinfo n t sends).1, (Trk.spec C dt pinfo n t sends).2.1,
            (Trk.spec C dt pinfo n t sends).2.2))
    (motive_2 := fun ts => ∀ (dt : ℝ) (info : Info ℝ) (n : Nat) (sends : List (SendTrk ℝ E)),
      Trk.specChildren C dt info n (Trk.resizeList k ts) sends
        = (Trk.resizeList k (Trk.specChildren C dt info n ts sends).1, (Trk.specChildren C dt info n ts sends).2.1,
            (Trk.specChildren C dt info n ts sends).2.2)) ?_ ?_ ?_ t
  · intro d children pending ihc _ dt pinfo n sends
    rw [Trk.resize, Trk.spec, Trk.spec]
    have hinfo : Trk.trackInfo C { d with temp := zeros k } pinfo = Trk.trackInfo C d pinfo := rfl
    simp only [hinfo, Trk.preUpdate_setTemp]
    have hadv : Trk.advancing ({ Trk.preUpdate dt (Trk.trackInfo C d pinfo) n d with temp := zeros k } : TrkData ℝ S E P)
        = Trk.advancing (Trk.preUpdate dt (Trk.trackInfo C d pinfo) n d) := rfl
    rw [hadv]
    split
    · simp [Trk.resize]
    · rw [ihc]
      unfold Trk.specPost
      simp [Trk.resize, Trk.frameGain]
  · intro dt info n sends; simp [Trk.specChildren, Trk.resizeList]
  · intro t ts iht ihts dt info n sends
    rw [Trk.resizeList, Trk.specChildren, Trk.specChildren, iht]
    dsimp only
    rw [ihts]
    simp [Trk.resizeList]

theorem Trk.specChildren_resize (k : Nat) (ts : List (Trk ℝ S E P)) (dt : ℝ) (info : Info ℝ) (n : Nat)
    (sends : List (SendTrk ℝ E)) :
    Trk.specChildren C dt info n (Trk.resizeList k ts) sends
      = (Trk.resizeList k (Trk.specChildren C dt info n ts sends).1, (Trk.specChildren C dt info n ts sends).2.1,
          (Trk.specChildren C dt info n ts sends).2.2) := by
  induction ts generalizing sends with
  | nil => simp [Trk.specChildren, Trk.resizeList]
  | cons t ts ih =>
    rw [Trk.resizeList, Trk.specChildren, Trk.specChildren, Trk.spec_resize]
    dsimp only
    rw [ih]
    simp [Trk.resizeList]

/-! ### send inputs of different capacity hold the same routed signal -/

/-- two send tracks that differ at most in their input buffers, which agree on the first `n` frames -/
def InpRel (n : Nat) (s1 s2 : SendTrk ℝ E) : Prop :=
  SendTrk.core s1 = SendTrk.core s2 ∧ n ≤ s1.input.length ∧ n ≤ s2.input.length
    ∧ s1.input.take n = s2.input.take n

theorem sendsAddInput_inpRel (n : Nat) (s1 s2 : List (SendTrk ℝ E)) (h : List.Forall₂ (InpRel n) s1 s2)
    (id : Nat) (y : List (Frame ℝ)) (hy : y.length = n) (v : ℝ) :
    List.Forall₂ (InpRel n) (sendsAddInput s1 id y v) (sendsAddInput s2 id y v) := by
  induction h with
  | nil => simp [sendsAddInput]
  | @cons a b as bs hab _ ih =>
    simp only [sendsAddInput, List.map_cons] at ih ⊢
    refine List.Forall₂.cons ?_ ih
    obtain ⟨hc, l1, l2, ht⟩ := hab
    have hid : a.id = b.id := by have := congrArg SendTrk.id hc; simpa [SendTrk.core] using this
    by_cases ha : a.id = id
    · have hb : b.id = id := hid ▸ ha
      simp only [ha, hb, if_true]
      refine ⟨?_, by simpa [SendTrk.addInput] using l1, by simpa [SendTrk.addInput] using l2, ?_⟩
      · simpa [SendTrk.core, SendTrk.addInput] using hc
      · simp only [SendTrk.addInput]
        rw [take_addInto _ _ n (by simp [hy]) l1, take_addInto _ _ n (by simp [hy]) l2, ht]
    · have hb : ¬ b.id = id := hid ▸ ha
      simp only [ha, hb, if_false]
      exact ⟨hc, l1, l2, ht⟩

theorem feedSends_inpRel (n : Nat) (routes : List (Route ℝ)) (s1 s2 : List (SendTrk ℝ E))
    (h : List.Forall₂ (InpRel n) s1 s2) (y : List (Frame ℝ)) (hy : y.length = n) :
    List.Forall₂ (InpRel n) (feedSends routes y s1) (feedSends routes y s2) := by
  unfold feedSends
  induction routes generalizing s1 s2 with
  | nil => simpa using h
  | cons r rs ih => simp only [List.foldl_cons]; exact ih _ _ (sendsAddInput_inpRel n s1 s2 h r.to y hy _)

theorem Trk.spec_length (hC : C.LenPres) (dt : ℝ) (pinfo : Info ℝ) (n : Nat) (t : Trk ℝ S E P)
    (sends : List (SendTrk ℝ E)) : (Trk.spec C dt pinfo n t sends).2.1.length = n := by
  cases t with
  | node d c p =>
    rw [Trk.spec]; dsimp only
    split
    · simp
    · exact length_specPost C hC dt _ n _ _ _ _ (by simp) _

/-- what a track renders, and what it becomes, does not depend on the send tracks; what it feeds them
    depends only on the first `n` frames of their input buffers -/
theorem Trk.spec_inpRel (hC : C.LenPres) (t : Trk ℝ S E P) :
    ∀ (dt : ℝ) (pinfo : Info ℝ) (n : Nat) (s1 s2 : List (SendTrk ℝ E)), List.Forall₂ (InpRel n) s1 s2 →
      (Trk.spec C dt pinfo n t s1).1 = (Trk.spec C dt pinfo n t s2).1
        ∧ (Trk.spec C dt pinfo n t s1).2.1 = (Trk.spec C dt pinfo n t s2).2.1
        ∧ List.Forall₂ (InpRel n) (Trk.spec C dt pinfo n t s1).2.2 (Trk.spec C dt pinfo n t s2).2.2 := by
  refine Trk.rec
    (motive_1 := fun t => ∀ (dt : ℝ) (pinfo : Info ℝ) (n : Nat) (s1 s2 : List (SendTrk ℝ E)),
      List.Forall₂ (InpRel n) s1 s2 →
      (Trk.spec C dt pinfo n t s1).1 = (Trk.spec C dt pinfo n t s2).1
        ∧ (Trk.spec C dt pinfo n t s1).2.1 = (Trk.spec C dt pinfo n t s2).2.1
        ∧ List.Forall₂ (InpRel n) (Trk.spec C dt pinfo n t s1).2.2 (Trk.spec C dt pinfo n t s2).2.2)
    (motive_2 := fun ts => ∀ (dt : ℝ) (info : Info ℝ) (n : Nat) (s1 s2 : List (SendTrk ℝ E)),
      List.Forall₂ (InpRel n) s1 s2 →
      (Trk.specChildren C dt info n ts s1).1 = (Trk.specChildren C dt info n ts s2).1
        ∧ (Trk.specChildren C dt info n ts s1).2.1 = (Trk.specChildren C dt info n ts s2).2.1
        ∧ List.Forall₂ (InpRel n) (Trk.specChildren C dt info n ts s1).2.2 (Trk.specChildren C dt info n ts s2).2.2)
    ?_ ?_ ?_ t
  · intro d children pending ihc _ dt pinfo n s1 s2 h
    obtain ⟨c1, c2, c3⟩ := ihc dt (Trk.trackInfo C d pinfo) n s1 s2 h
    have hlen := Trk.spec_length C hC dt pinfo n (.node d children pending) s2
    rw [Trk.spec] at hlen ⊢
    rw [Trk.spec]
    dsimp only at hlen ⊢
    split
    · exact ⟨rfl, rfl, h⟩
    · rename_i hadv
      simp only [hadv, if_false] at hlen
      rw [c1, c2]
      unfold Trk.specPost at hlen ⊢
      dsimp only at hlen ⊢
      exact ⟨rfl, rfl, feedSends_inpRel n _ _ _ c3 _ hlen⟩
  · intro dt info n s1 s2 h; exact ⟨rfl, rfl, h⟩
  · intro t ts iht ihts dt info n s1 s2 h
    obtain ⟨t1, t2, t3⟩ := iht dt info n s1 s2 h
    obtain ⟨l1, l2, l3⟩ := ihts dt info n _ _ t3
    simp only [Trk.specChildren]
    exact ⟨by rw [t1, l1], by rw [t2, l2], l3⟩

theorem Trk.specChildren_inpRel (hC : C.LenPres) (ts : List (Trk ℝ S E P)) (dt : ℝ) (info : Info ℝ) (n : Nat)
    (s1 s2 : List (SendTrk ℝ E)) (h : List.Forall₂ (InpRel n) s1 s2) :
    (Trk.specChildren C dt info n ts s1).1 = (Trk.specChildren C dt info n ts s2).1
      ∧ (Trk.specChildren C dt info n ts s1).2.1 = (Trk.specChildren C dt info n ts s2).2.1
      ∧ List.Forall₂ (InpRel n) (Trk.specChildren C dt info n ts s1).2.2 (Trk.specChildren C dt info n ts s2).2.2 := by
  induction ts generalizing s1 s2 with
  | nil => exact ⟨rfl, rfl, h⟩
  | cons t ts ih =>
    obtain ⟨t1, t2, t3⟩ := Trk.spec_inpRel C hC t dt info n s1 s2 h
    obtain ⟨l1, l2, l3⟩ := ih _ _ t3
    simp only [Trk.specChildren]
    exact ⟨by rw [t1, l1], by rw [t2, l2], l3⟩

/-- the send pass reads only the first `n` frames of each input buffer -/
theorem specSends_inpRel (dt : ℝ) (info : Info ℝ) (n k : Nat) (s1 s2 : List (SendTrk ℝ E))
    (h : List.Forall₂ (InpRel n) s1 s2) (hk : ∀ s ∈ s2, s.input.length = k) :
    (specSends C dt info n s2).1 = (specSends C dt info n s1).1.map (SendTrk.resize k)
      ∧ (specSends C dt info n s2).2 = (specSends C dt info n s1).2 := by
  induction h with
  | nil => simp [specSends]
  | @cons a b as bs hab _ ih =>
    obtain ⟨i1, i2⟩ := ih (fun s hs => hk s (by simp [hs]))
    obtain ⟨hc, l1, l2, ht⟩ := hab
    have hb : b.input.length = k := hk b (by simp)
    have hfields : a.volume = b.volume ∧ a.effects = b.effects ∧ a.id = b.id ∧ a.marked = b.marked ∧ a.cmdVolume = b.cmdVolume := by
      simp only [SendTrk.core, SendTrk.mk.injEq] at hc; tauto
    have hproc : (b.process C (zeros n) dt info).1 = SendTrk.resize k (a.process C (zeros n) dt info).1
        ∧ (b.process C (zeros n) dt info).2 = (a.process C (zeros n) dt info).2 := by
      unfold SendTrk.process SendTrk.resize
      simp only [length_zeros, addInto_zeros_left_take _ n l1, addInto_zeros_left_take _ n l2, ht, hfields.1, hfields.2.1,
        fillZero, hb]
      cases a; cases b; simp_all
    simp only [specSends, List.map_cons] at i1 i2 ⊢
    exact ⟨by rw [hproc.1, i1], by rw [hproc.2, i2]⟩

theorem MainTrk.spec_setTemp (t : MainTrk ℝ S E) (x bus : List (Frame ℝ)) (dt : ℝ) (info : Info ℝ) :
    MainTrk.spec C { t with temp := x } bus dt info
      = ({ (MainTrk.spec C t bus dt info).1 with temp := x }, (MainTrk.spec C t bus dt info).2) := rfl

/-- **the internal buffer size is only a capacity**: the mixer built with buffer size `k` renders the
    same chunk and becomes the same mixer (built with buffer size `k`) -/
theorem Mixer.spec_resize (hC : C.LenPres) (ibs k : Nat) (m : Mixer ℝ S E P) (hm : Mixer.Clean ibs m)
    (n : Nat) (hn : n ≤ ibs) (hk : n ≤ k) (dt : ℝ) (info : Info ℝ) :
    Mixer.spec C (Mixer.resize k m) n dt info
      = (Mixer.resize k (Mixer.spec C m n dt info).1, (Mixer.spec C m n dt info).2) := by
  have hrel0 : List.Forall₂ (InpRel n) m.sendTracks (m.sendTracks.map (SendTrk.resize k)) := by
    have : ∀ l : List (SendTrk ℝ E), (∀ s ∈ l, s.input = zeros ibs) →
        List.Forall₂ (InpRel n) l (l.map (SendTrk.resize k)) := by
      intro l hl
      induction l with
      | nil => exact List.Forall₂.nil
      | cons s ss ih =>
        refine List.Forall₂.cons ⟨rfl, ?_, ?_, ?_⟩ (ih (fun x hx => hl x (by simp [hx])))
        · rw [hl s (by simp)]; simpa using hn
        · simpa [SendTrk.resize] using hk
        · rw [hl s (by simp)]
          show (zeros ibs : List (Frame ℝ)).take n = (zeros k : List (Frame ℝ)).take n
          rw [take_zeros (α := ℝ) n ibs hn, take_zeros (α := ℝ) n k hk]
    exact this _ hm.sends
  obtain ⟨c1, c2, c3⟩ := Trk.specChildren_inpRel C hC m.subTracks dt info n _ _ hrel0
  have hlenk : ∀ s ∈ (Trk.specChildren C dt info n m.subTracks (m.sendTracks.map (SendTrk.resize k))).2.2,
      s.input.length = k :=
    Trk.specChildren_sendsLen C k m.subTracks dt info n _
      (fun s hs => by simp only [List.mem_map] at hs; obtain ⟨_, _, rfl⟩ := hs; simp [SendTrk.resize])
  obtain ⟨s1, s2⟩ := specSends_inpRel C dt info n k _ _ c3 hlenk
  unfold Mixer.spec
  simp only [Mixer.resize, Trk.specChildren_resize, MainTrk.spec_setTemp]
  rw [s1, s2, ← c1, ← c2]

end
end K

namespace K
section
variable {S E P X : Type} (C : Comps ℝ S E P) (V : EnvOps ℝ X)

theorem Renderer.specChunks_resize (hC : C.LenPres) (k ch : Nat) (ns : List Nat) :
    ∀ (r : Renderer ℝ S E P X), r.Clean → (∀ n ∈ ns, n ≤ r.ibs ∧ n ≤ k) →
      Renderer.specChunks C V ch (Renderer.resize k r) ns
        = (Renderer.resize k (Renderer.specChunks C V ch r ns).1, (Renderer.specChunks C V ch r ns).2) := by
  induction ns with
  | nil => intro r _ _; simp [Renderer.specChunks]
  | cons n ns ih =>
    intro r hr hns
    obtain ⟨hn1, hn2⟩ := hns n (by simp)
    have hstep : (Renderer.resize k r).specChunk C V n ch
        = (Renderer.resize k (r.specChunk C V n ch).1, (r.specChunk C V n ch).2) := by
      unfold Renderer.specChunk Renderer.resize
      simp only [Mixer.spec_resize C hC r.ibs k r.mixer hr.2 n hn1 hn2]
    have hclean := (Renderer.processChunk_spec C V hC r hr n ch hn1).2
    simp only [Renderer.specChunks, hstep]
    rw [ih (r.specChunk C V n ch).1 hclean (fun m hm => hns m (by simp [hm]))]

end
end K
