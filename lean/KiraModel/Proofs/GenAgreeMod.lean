/-
  GenAgreeMod.lean — agreement of the GENERATED layer (KiraModel/Gen.lean, KiraModel/GenFn.lean; regenerated from
  the Rust source by tools/gen_lean.py on every check run) with the hand-written model of playback states and of
  the LFO modulator.  See Proofs/GenAgree.lean for how these theorems are used.  Imports the model only.
-/
import KiraModel.Model.Psm
import KiraModel.Model.Lfo

set_option linter.unusedSectionVars false

namespace K

variable {α : Type} [Add α] [Sub α] [Mul α] [Div α] [Neg α] [LT α] [LE α]
  [DecidableLT α] [DecidableLE α] [OfScientific α] [KOps α]

/-! ### LFO -/

namespace Pinned
/-- modulator/lfo.rs::Waveform::value -/
def waveformValue (w : Waveform α) (phase : α) : α :=
  match w with
  | .sine => KOps.sin (phase * tau)
  | .triangle => KOps.abs (fract (phase + (0.75 : α)) - (0.5 : α)) * (4.0 : α) - (1.0 : α)
  | .saw => fract (phase + (0.5 : α)) * (2.0 : α) - (1.0 : α)
  | .pulse width => if phase < width then (1.0 : α) else -(1.0 : α)
/-- sound.rs::PlaybackState::is_advancing -/
def isAdvancing : PlaybackState → Bool
  | .playing => true
  | .pausing => true
  | .paused => false
  | .waitingToResume => false
  | .resuming => true
  | .stopping => true
  | .stopped => false
end Pinned

/-- `Waveform::value` -/
theorem Gen.waveformValue_eq (w : Waveform α) (phase : α) :
    Gen.waveformValue w phase = Pinned.waveformValue w phase ∧ w.value phase = Pinned.waveformValue w phase := by
  cases w <;> exact ⟨rfl, rfl⟩

def Waveform.toShape : Waveform α → Gen.Shape.Waveform α
  | .sine => .sine | .triangle => .triangle | .saw => .saw | .pulse w => .pulse w
def Waveform.ofShape : Gen.Shape.Waveform α → Waveform α
  | .sine => .sine | .triangle => .triangle | .saw => .saw | .pulse w => .pulse w
theorem Waveform.shape_roundtrip (e : Waveform α) : Waveform.ofShape e.toShape = e := by cases e <;> rfl
theorem Waveform.shape_roundtrip' (s : Gen.Shape.Waveform α) : (Waveform.ofShape s).toShape = s := by cases s <;> rfl
theorem Waveform.shape_order (e : Waveform α) : e.ctorIdx = e.toShape.ctorIdx := by cases e <;> rfl

/-- hand `PlaybackState` ↔ `enum PlaybackState` of sound.rs (fieldless: a bijection that keeps the order,
    hence the `as u8` discriminants) -/
def PlaybackState.toTag : PlaybackState → Gen.Shape.PlaybackStateTag
  | .playing => .playing | .pausing => .pausing | .paused => .paused | .waitingToResume => .waitingToResume
  | .resuming => .resuming | .stopping => .stopping | .stopped => .stopped
def PlaybackState.ofTag : Gen.Shape.PlaybackStateTag → PlaybackState
  | .playing => .playing | .pausing => .pausing | .paused => .paused | .waitingToResume => .waitingToResume
  | .resuming => .resuming | .stopping => .stopping | .stopped => .stopped
theorem PlaybackState.tag_roundtrip (s : PlaybackState) : PlaybackState.ofTag s.toTag = s := by cases s <;> rfl
theorem PlaybackState.tag_roundtrip' (t : Gen.Shape.PlaybackStateTag) : (PlaybackState.ofTag t).toTag = t := by
  cases t <;> rfl
theorem PlaybackState.tag_order (s : PlaybackState) : s.toNat = s.toTag.ctorIdx := by cases s <;> rfl
/-- `PlaybackState::is_advancing` -/
theorem Gen.playbackStateIsAdvancing_eq (s : PlaybackState) :
    Gen.playbackStateIsAdvancing s = Pinned.isAdvancing s ∧ s.isAdvancing = Pinned.isAdvancing s := by
  cases s <;> exact ⟨rfl, rfl⟩

/-! ### defaults -/

/-- `LfoBuilder::default()` and the raw values `Lfo::new` gives its three parameters -/
theorem Gen.lfoDefaults_eq : (LfoBuilder.default : LfoBuilder α)
      = ⟨.sine, .fixed (2.0 : α), .fixed (1.0 : α), .fixed (0.0 : α), (0.0 : α)⟩
    ∧ (Gen.lfoDefaultWaveform : Waveform α) = .sine ∧ (Gen.lfoBuilderDefaultFrequency : α) = (2.0 : α)
    ∧ (Gen.lfoBuilderDefaultAmplitude : α) = (1.0 : α) ∧ (Gen.lfoBuilderDefaultOffset : α) = (0.0 : α)
    ∧ (Gen.lfoBuilderDefaultStartingPhase : α) = (0.0 : α)
    ∧ (Gen.lfoDefaultFrequency : α) = (2.0 : α) ∧ (Gen.lfoDefaultAmplitude : α) = (1.0 : α)
    ∧ (Gen.lfoDefaultOffset : α) = (0.0 : α)
    ∧ ∀ b : LfoBuilder α, (Lfo.new b).frequency = Parameter.new b.frequency (2.0 : α)
        ∧ (Lfo.new b).amplitude = Parameter.new b.amplitude (1.0 : α)
        ∧ (Lfo.new b).offset = Parameter.new b.offset (0.0 : α) :=
  ⟨rfl, rfl, rfl, rfl, rfl, rfl, rfl, rfl, rfl, fun _ => ⟨rfl, rfl, rfl⟩⟩

theorem Gen.decibelsIdentity_eq : (Gen.decibelsIdentity : α) = Psm.identityDb ∧ (Psm.identityDb : α) = (0.0 : α) := ⟨rfl, rfl⟩

end K
