/-
  EffectsBReverbBound.lean — an invariant bound for the whole reverb network with fixed parameters:
  every comb slot/store within `Bc`, the all-pass stages within `2Y, 6Y, 18Y, …` ⇒ outputs bounded, for ever.
  Helper lemmas for C13_reverb_bounded_partial.
-/
import KiraModel.Proofs.EffectsBLines
import KiraModel.Proofs.EffectsBReverbLinear

namespace K

namespace Comb

/-- store and every slot within `B` -/
def Within (c : Comb ℝ) (B : ℝ) : Prop := |c.store| ≤ B ∧ ∀ e ∈ c.buffer.toList, |e| ≤ B

theorem process_within (c : Comb ℝ) (x fb dp X B : ℝ) (hdp0 : 0 ≤ dp) (hdp1 : dp ≤ 1) (hB0 : 0 ≤ B)
    (hB : X + |fb| * B ≤ B) (hx : |x| ≤ X) (hc : c.Within B) r (h : c.process x fb dp = .ok r) :
    r.1.Within B ∧ |r.2| ≤ B := by
  have hw := wf_of_ok c _ _ _ _ h
  obtain ⟨c', h1, _, e, _⟩ := process_fifo c hw x fb dp
  rw [h1] at h
  cases h
  obtain ⟨a, b, d⟩ := fifoStep_bounded fb dp X B hdp0 hdp1 hB0 hB (c.fifo, c.store) x hx hc.1
    (fun e he => hc.2 e ((mem_fifo c e).mp he))
  have e1 : c'.store = (fifoStep fb dp (c.fifo, c.store) x).1.2 := by rw [← e]
  have e2 : c'.fifo = (fifoStep fb dp (c.fifo, c.store) x).1.1 := by rw [← e]
  refine ⟨⟨by rw [e1]; exact a, ?_⟩, d⟩
  intro y hy
  exact b y (by rw [← e2]; exact (mem_fifo c' y).mpr hy)

theorem new_within (n : ℕ) (B : ℝ) (hB : 0 ≤ B) : (Comb.new n : Comb ℝ).Within B := by
  refine ⟨by simpa [new] using hB, ?_⟩
  intro e he
  simp [new] at he
  rw [he.2]; simpa using hB

end Comb

namespace AllPass

def Within (a : AllPass ℝ) (B : ℝ) : Prop := ∀ e ∈ a.buffer.toList, |e| ≤ B

theorem process_within (a : AllPass ℝ) (x X B : ℝ) (hX : 0 ≤ X) (hB : 2 * X ≤ B) (hx : |x| ≤ X)
    (ha : a.Within B) r (h : a.process x = .ok r) : r.1.Within B ∧ |r.2| ≤ X + B := by
  have hw := wf_of_ok a _ _ h
  obtain ⟨a', h1, _, e, _⟩ := process_fifo a hw x
  rw [h1] at h
  cases h
  obtain ⟨b, d⟩ := fifoStep_bounded X B hX hB a.fifo x hx (fun e he => ha e ((mem_fifo a e).mp he))
  refine ⟨?_, d⟩
  intro y hy
  exact b y (by rw [← e]; exact (mem_fifo a' y).mpr hy)

theorem new_within (n : ℕ) (B : ℝ) (hB : 0 ≤ B) : (AllPass.new n : AllPass ℝ).Within B := by
  intro e he
  simp [new] at he
  rw [he.2]; simpa using hB

end AllPass

namespace ReverbLines

theorem combBank_within (x fb dp X B : ℝ) (hdp0 : 0 ≤ dp) (hdp1 : dp ≤ 1) (hB0 : 0 ≤ B)
    (hB : X + |fb| * B ≤ B) (hx : |x| ≤ X) :
    ∀ (cs : List (Comb ℝ × Comb ℝ)) (acc : Frame ℝ) (A : ℝ) r,
      (∀ p ∈ cs, p.1.Within B ∧ p.2.Within B) → |acc.left| ≤ A → |acc.right| ≤ A →
      combBank x fb dp cs acc = .ok r →
      (∀ p ∈ r.1, p.1.Within B ∧ p.2.Within B) ∧ |r.2.left| ≤ A + cs.length * B
        ∧ |r.2.right| ≤ A + cs.length * B := by
  intro cs
  induction cs with
  | nil => intro acc A r _ hl hr h; simp only [combBank] at h; cases h; simp [hl, hr]
  | cons p ps ih =>
    intro acc A r hs hl hr h
    obtain ⟨l, rr⟩ := p
    rw [combBank] at h
    split at h
    · cases h
    · rename_i l' ol hpl
      split at h
      · cases h
      · rename_i r' or hpr
        split at h
        · cases h
        · rename_i rest out hrest
          obtain ⟨a1, a2⟩ := Comb.process_within l x fb dp X B hdp0 hdp1 hB0 hB hx (hs (l, rr) (by simp)).1 _ hpl
          obtain ⟨b1, b2⟩ := Comb.process_within rr x fb dp X B hdp0 hdp1 hB0 hB hx (hs (l, rr) (by simp)).2 _ hpr
          simp only at a2 b2
          have hl' : |(⟨KOps.r32 (acc.left + ol), KOps.r32 (acc.right + or)⟩ : Frame ℝ).left| ≤ A + B := by
            simp only [r32_real]
            exact le_trans (abs_add_le _ _) (add_le_add hl a2)
          have hr' : |(⟨KOps.r32 (acc.left + ol), KOps.r32 (acc.right + or)⟩ : Frame ℝ).right| ≤ A + B := by
            simp only [r32_real]
            exact le_trans (abs_add_le _ _) (add_le_add hr b2)
          obtain ⟨c1, c2, c3⟩ := ih _ (A + B) _ (fun q hq => hs q (by simp [hq])) hl' hr' hrest
          cases h
          refine ⟨?_, ?_, ?_⟩
          · intro q hq
            simp only [List.mem_cons] at hq
            rcases hq with rfl | hq
            · exact ⟨a1, b1⟩
            · exact c1 q hq
          · simp only [List.length_cons, Nat.cast_add, Nat.cast_one]; linarith
          · simp only [List.length_cons, Nat.cast_add, Nat.cast_one]; linarith

/-- the all-pass stages are within `2Y`, `2·3Y`, `2·9Y`, … (stage `k` sees inputs within `3ᵏ·Y`) -/
def ApsWithin : List (AllPass ℝ × AllPass ℝ) → ℝ → Prop
  | [], _ => True
  | p :: rest, Y => p.1.Within (2 * Y) ∧ p.2.Within (2 * Y) ∧ ApsWithin rest (3 * Y)

theorem allPassChain_within : ∀ (as : List (AllPass ℝ × AllPass ℝ)) (acc : Frame ℝ) (Y : ℝ) r, 0 ≤ Y →
    ApsWithin as Y → |acc.left| ≤ Y → |acc.right| ≤ Y → allPassChain as acc = .ok r →
    ApsWithin r.1 Y ∧ |r.2.left| ≤ 3 ^ as.length * Y ∧ |r.2.right| ≤ 3 ^ as.length * Y := by
  intro as
  induction as with
  | nil => intro acc Y r _ _ hl hr h; simp only [allPassChain] at h; cases h; simp [ApsWithin, hl, hr]
  | cons p ps ih =>
    intro acc Y r hY hs hl hr h
    obtain ⟨l, rr⟩ := p
    obtain ⟨s1, s2, s3⟩ := hs
    rw [allPassChain] at h
    split at h
    · cases h
    · rename_i l' ol hpl
      split at h
      · cases h
      · rename_i r' or hpr
        split at h
        · cases h
        · rename_i rest out hrest
          obtain ⟨a1, a2⟩ := AllPass.process_within l _ Y (2 * Y) hY (le_refl _) hl s1 _ hpl
          obtain ⟨b1, b2⟩ := AllPass.process_within rr _ Y (2 * Y) hY (le_refl _) hr s2 _ hpr
          simp only at a2 b2
          obtain ⟨c1, c2, c3⟩ := ih ⟨ol, or⟩ (3 * Y) _ (by linarith) s3 (by simpa using (by linarith : |ol| ≤ 3 * Y))
            (by simpa using (by linarith : |or| ≤ 3 * Y)) hrest
          cases h
          refine ⟨⟨a1, b1, c1⟩, ?_, ?_⟩
          · simp only [List.length_cons, pow_succ]; linarith
          · simp only [List.length_cons, pow_succ]; linarith

theorem apsWithin_init (sr : ℕ) : ∀ (ts : List (ℕ × ℕ)) (Y : ℝ), 0 ≤ Y →
    ApsWithin (ts.map (fun t => ((AllPass.new (adjust ℝ sr t.1) : AllPass ℝ), (AllPass.new (adjust ℝ sr t.2) : AllPass ℝ)))) Y := by
  intro ts
  induction ts with
  | nil => intro Y _; trivial
  | cons t ts ih =>
    intro Y hY
    exact ⟨AllPass.new_within _ _ (by linarith), AllPass.new_within _ _ (by linarith), ih (3 * Y) (by linarith)⟩

/-- the invariant of the whole network: combs within `Bc`, all-pass stages within `2Y, 6Y, …` where
    `Y = (number of combs)·Bc` bounds the comb sum -/
def Within (ls : ReverbLines ℝ) (Bc : ℝ) : Prop :=
  (∀ p ∈ ls.combs, p.1.Within Bc ∧ p.2.Within Bc) ∧ ApsWithin ls.allPasses (ls.combs.length * Bc)

theorem combBank_length (x fb dp : ℝ) : ∀ (cs : List (Comb ℝ × Comb ℝ)) (acc : Frame ℝ) r,
    combBank x fb dp cs acc = .ok r → r.1.length = cs.length := by
  intro cs
  induction cs with
  | nil => intro acc r h; simp only [combBank] at h; cases h; rfl
  | cons p ps ih =>
    intro acc r h
    obtain ⟨l, rr⟩ := p
    rw [combBank] at h
    split at h
    · cases h
    · split at h
      · cases h
      · split at h
        · cases h
        · rename_i rest out hrest
          have := ih _ _ hrest
          cases h
          simp only at this
          simp [this]

theorem allPassChain_length : ∀ (as : List (AllPass ℝ × AllPass ℝ)) (acc : Frame ℝ) r,
    allPassChain as acc = .ok r → r.1.length = as.length := by
  intro as
  induction as with
  | nil => intro acc r h; simp only [allPassChain] at h; cases h; rfl
  | cons p ps ih =>
    intro acc r h
    obtain ⟨l, rr⟩ := p
    rw [allPassChain] at h
    split at h
    · cases h
    · split at h
      · cases h
      · split at h
        · cases h
        · rename_i rest out hrest
          have := ih _ _ hrest
          cases h
          simp only at this
          simp [this]

/-- one frame keeps the invariant and is bounded by `3^(all-pass stages) · (combs) · Bc` -/
theorem frame_within (ls : ReverbLines ℝ) (x : Frame ℝ) (fb dp X Bc : ℝ) (hdp0 : 0 ≤ dp) (hdp1 : dp ≤ 1)
    (hB0 : 0 ≤ Bc) (hX : 0 ≤ X) (hB : 2 * X * (Gen.reverbGain : ℝ) + |fb| * Bc ≤ Bc)
    (hxl : |x.left| ≤ X) (hxr : |x.right| ≤ X) (hs : ls.Within Bc) r (h : ls.frame x fb dp = .ok r) :
    r.1.Within Bc ∧ r.1.combs.length = ls.combs.length ∧ r.1.allPasses.length = ls.allPasses.length
      ∧ |r.2.left| ≤ 3 ^ ls.allPasses.length * (ls.combs.length * Bc)
      ∧ |r.2.right| ≤ 3 ^ ls.allPasses.length * (ls.combs.length * Bc) := by
  obtain ⟨cs, as⟩ := ls
  obtain ⟨hs1, hs2⟩ := hs
  simp only at hs1 hs2
  have hg : (0 : ℝ) ≤ (Gen.reverbGain : ℝ) := by norm_num [Gen.reverbGain]
  have hmono : |(x.left + x.right) * (Gen.reverbGain : ℝ)| ≤ 2 * X * (Gen.reverbGain : ℝ) := by
    rw [abs_mul, abs_of_nonneg hg]
    apply mul_le_mul_of_nonneg_right _ hg
    calc |x.left + x.right| ≤ |x.left| + |x.right| := abs_add_le _ _
      _ ≤ 2 * X := by linarith
  simp only [frame, r32_real] at h
  split at h
  · cases h
  · rename_i cs' o1 hb
    split at h
    · cases h
    · rename_i as' o2 hp
      obtain ⟨a1, a2, a3⟩ := combBank_within _ fb dp _ Bc hdp0 hdp1 hB0 hB hmono cs Frame.zero 0 _ hs1
        (by simp) (by simp) hb
      simp only [zero_add] at a2 a3
      have hY : (0 : ℝ) ≤ cs.length * Bc := mul_nonneg (Nat.cast_nonneg _) hB0
      obtain ⟨b1, b2, b3⟩ := allPassChain_within as o1 _ _ hY hs2 a2 a3 hp
      have hl1 := combBank_length _ _ _ _ _ _ hb
      have hl2 := allPassChain_length _ _ _ hp
      cases h
      simp only at hl1 hl2
      refine ⟨⟨a1, ?_⟩, hl1, hl2, b2, b3⟩
      simp only [hl1]
      exact b1

theorem init_within (sr : ℕ) (Bc : ℝ) (hB : 0 ≤ Bc) : (ReverbLines.init sr : ReverbLines ℝ).Within Bc := by
  constructor
  · intro p hp
    simp only [init, List.mem_map] at hp
    obtain ⟨t, _, rfl⟩ := hp
    exact ⟨Comb.new_within _ _ hB, Comb.new_within _ _ hB⟩
  · exact apsWithin_init sr _ _ (mul_nonneg (Nat.cast_nonneg _) hB)

end ReverbLines

namespace Reverb
open LineFx

theorem widen_bound (o : Frame ℝ) (sw Y : ℝ) (hsw0 : 0 ≤ sw) (hsw1 : sw ≤ 1) (hl : |o.left| ≤ Y) (hr : |o.right| ≤ Y) :
    |(widen o sw).left| ≤ Y ∧ |(widen o sw).right| ≤ Y := by
  have h1 : (0 : ℝ) ≤ sw / 2 + 1 / 2 := by linarith
  have h2 : (0 : ℝ) ≤ (1 - sw) / 2 := by linarith
  constructor
  · simp only [widen, r32_real, lit_2, lit_half, lit_1]
    calc |o.left * (sw / 2 + 1 / 2) + o.right * ((1 - sw) / 2)|
        ≤ |o.left * (sw / 2 + 1 / 2)| + |o.right * ((1 - sw) / 2)| := abs_add_le _ _
      _ = |o.left| * (sw / 2 + 1 / 2) + |o.right| * ((1 - sw) / 2) := by
          rw [abs_mul, abs_mul, abs_of_nonneg h1, abs_of_nonneg h2]
      _ ≤ Y * (sw / 2 + 1 / 2) + Y * ((1 - sw) / 2) :=
          add_le_add (mul_le_mul_of_nonneg_right hl h1) (mul_le_mul_of_nonneg_right hr h2)
      _ = Y := by ring
  · simp only [widen, r32_real, lit_2, lit_half, lit_1]
    calc |o.right * (sw / 2 + 1 / 2) + o.left * ((1 - sw) / 2)|
        ≤ |o.right * (sw / 2 + 1 / 2)| + |o.left * ((1 - sw) / 2)| := abs_add_le _ _
      _ = |o.right| * (sw / 2 + 1 / 2) + |o.left| * ((1 - sw) / 2) := by
          rw [abs_mul, abs_mul, abs_of_nonneg h1, abs_of_nonneg h2]
      _ ≤ Y * (sw / 2 + 1 / 2) + Y * ((1 - sw) / 2) :=
          add_le_add (mul_le_mul_of_nonneg_right hr h1) (mul_le_mul_of_nonneg_right hl h2)
      _ = Y := by ring

theorem blend_bound (w d : Frame ℝ) (m Y X : ℝ) (hm0 : 0 ≤ m) (hm1 : m ≤ 1) (hY : 0 ≤ Y) (hX : 0 ≤ X)
    (hwl : |w.left| ≤ Y) (hwr : |w.right| ≤ Y) (hdl : |d.left| ≤ X) (hdr : |d.right| ≤ X) :
    |(blend w d m).left| ≤ Y + X ∧ |(blend w d m).right| ≤ Y + X := by
  have s1 : Real.sqrt m ≤ 1 := by
    calc Real.sqrt m ≤ Real.sqrt 1 := Real.sqrt_le_sqrt hm1
      _ = 1 := Real.sqrt_one
  have s2 : Real.sqrt (1 - m) ≤ 1 := by
    calc Real.sqrt (1 - m) ≤ Real.sqrt 1 := Real.sqrt_le_sqrt (by linarith)
      _ = 1 := Real.sqrt_one
  have p1 := Real.sqrt_nonneg m
  have p2 := Real.sqrt_nonneg (1 - m)
  rw [blend_real]
  constructor
  · simp only [FrameB.add_left, FrameB.scale_left]
    calc |w.left * Real.sqrt m + d.left * Real.sqrt (1 - m)|
        ≤ |w.left * Real.sqrt m| + |d.left * Real.sqrt (1 - m)| := abs_add_le _ _
      _ = |w.left| * Real.sqrt m + |d.left| * Real.sqrt (1 - m) := by
          rw [abs_mul, abs_mul, abs_of_nonneg p1, abs_of_nonneg p2]
      _ ≤ Y * 1 + X * 1 :=
          add_le_add (mul_le_mul hwl s1 p1 hY) (mul_le_mul hdl s2 p2 hX)
      _ = Y + X := by ring
  · simp only [FrameB.add_right, FrameB.scale_right]
    calc |w.right * Real.sqrt m + d.right * Real.sqrt (1 - m)|
        ≤ |w.right * Real.sqrt m| + |d.right * Real.sqrt (1 - m)| := abs_add_le _ _
      _ = |w.right| * Real.sqrt m + |d.right| * Real.sqrt (1 - m) := by
          rw [abs_mul, abs_mul, abs_of_nonneg p1, abs_of_nonneg p2]
      _ ≤ Y * 1 + X * 1 :=
          add_le_add (mul_le_mul hwr s1 p1 hY) (mul_le_mul hdr s2 p2 hX)
      _ = Y + X := by ring

theorem framesC_within (sw m fb dp X Bc : ℝ) (hsw0 : 0 ≤ sw) (hsw1 : sw ≤ 1) (hm0 : 0 ≤ m) (hm1 : m ≤ 1)
    (hdp0 : 0 ≤ dp) (hdp1 : dp ≤ 1) (hB0 : 0 ≤ Bc) (hX : 0 ≤ X)
    (hB : 2 * X * (Gen.reverbGain : ℝ) + |fb| * Bc ≤ Bc) :
    ∀ (xs : List (Frame ℝ)) (ls : ReverbLines ℝ) r, (∀ x ∈ xs, |x.left| ≤ X ∧ |x.right| ≤ X) → ls.Within Bc →
      framesC sw m fb dp ls xs = .ok r →
      r.1.Within Bc ∧ r.1.combs.length = ls.combs.length ∧ r.1.allPasses.length = ls.allPasses.length
        ∧ ∀ y ∈ r.2, |y.left| ≤ 3 ^ ls.allPasses.length * (ls.combs.length * Bc) + X
            ∧ |y.right| ≤ 3 ^ ls.allPasses.length * (ls.combs.length * Bc) + X := by
  intro xs
  induction xs with
  | nil => intro ls r _ hs h; simp only [framesC] at h; cases h; exact ⟨hs, rfl, rfl, by simp⟩
  | cons x xs ih =>
    intro ls r hx hs h
    rw [framesC] at h
    split at h
    · cases h
    · rename_i ls1 o hf
      split at h
      · cases h
      · rename_i ls2 ys hr
        obtain ⟨a1, a2, a3, a4, a5⟩ := ReverbLines.frame_within ls x fb dp X Bc hdp0 hdp1 hB0 hX hB
          (hx x (by simp)).1 (hx x (by simp)).2 hs _ hf
        obtain ⟨b1, b2, b3, b4⟩ := ih ls1 _ (fun y hy => hx y (by simp [hy])) a1 hr
        simp only at a2 a3 b2 b3 b4
        cases h
        have hY : (0 : ℝ) ≤ 3 ^ ls.allPasses.length * (ls.combs.length * Bc) :=
          mul_nonneg (by positivity) (mul_nonneg (Nat.cast_nonneg _) hB0)
        refine ⟨b1, by rw [b2, a2], by rw [b3, a3], ?_⟩
        intro y hy
        simp only [List.mem_cons] at hy
        rcases hy with rfl | hy
        · obtain ⟨w1, w2⟩ := widen_bound o sw _ hsw0 hsw1 a4 a5
          exact blend_bound _ _ _ _ _ hm0 hm1 hY hX w1 w2 (hx x (by simp)).1 (hx x (by simp)).2
        · have := b4 y hy
          rw [a2, a3] at this
          exact this

end Reverb
end K
