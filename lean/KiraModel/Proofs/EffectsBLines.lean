/-
  EffectsBLines.lean — the comb and all-pass ring buffers as FIFO delay lines; BIBO bounds and the
  geometric decay of the comb.  Helper lemmas for C13_comb_bounded, C13_allpass_bounded, C14_comb_decays.
-/
import KiraModel.Proofs.EffectsBReverb
import Mathlib.Tactic.Linarith
import Mathlib.Tactic.Ring
import Mathlib.Tactic.Positivity

namespace K

/-! ### list helpers -/

theorem set_mid {α : Type} (A : List α) (y v : α) (Z : List α) : (A ++ y :: Z).set A.length v = A ++ v :: Z := by
  induction A with
  | nil => rfl
  | cons a A ih => simp [ih]

theorem drop_mid {α : Type} (A : List α) (v : α) (Z : List α) : (A ++ v :: Z).drop (A.length + 1) = Z := by
  induction A with
  | nil => rfl
  | cons a A ih => simpa using ih

theorem take_mid {α : Type} (A : List α) (v : α) (Z : List α) : (A ++ v :: Z).take (A.length + 1) = A ++ [v] := by
  induction A with
  | nil => rfl
  | cons a A ih => simpa using ih

/-- the ring `l` read from `idx`: oldest slot first -/
def ringFifo {α : Type} (l : List α) (idx : ℕ) : List α := l.drop idx ++ l.take idx

/-- writing the slot under the index and advancing it cyclically = pop the oldest, push the new value -/
theorem ringFifo_step {α : Type} (l : List α) (idx : ℕ) (h : idx < l.length) (v : α) :
    ringFifo l idx = l[idx] :: (l.drop (idx + 1) ++ l.take idx)
      ∧ ringFifo (l.set idx v) ((idx + 1) % l.length) = (l.drop (idx + 1) ++ l.take idx) ++ [v] := by
  have hl : l = l.take idx ++ l[idx] :: l.drop (idx + 1) := by
    rw [← List.drop_eq_getElem_cons h, List.take_append_drop]
  have hA : (l.take idx).length = idx := by simp; omega
  constructor
  · unfold ringFifo
    rw [List.drop_eq_getElem_cons h, List.cons_append]
  · generalize hAe : l.take idx = A at hl hA
    generalize hZe : l.drop (idx + 1) = Z at hl
    generalize l[idx] = y at hl
    subst hl
    subst hA
    rw [set_mid]
    simp only [List.length_append, List.length_cons]
    by_cases hz : Z = []
    · subst hz
      simp [ringFifo]
    · have hlt : A.length + 1 < A.length + (Z.length + 1) := by
        have : 0 < Z.length := List.length_pos_iff.mpr hz
        omega
      rw [Nat.mod_eq_of_lt hlt]
      simp only [ringFifo, drop_mid, take_mid, List.append_assoc]

/-! ### the comb as a FIFO machine -/

namespace Comb

/-- oldest slot first -/
def fifo (c : Comb ℝ) : List ℝ := ringFifo c.buffer.toList c.idx

/-- one step of Freeverb's comb on (fifo, store): returns the new state and the output -/
noncomputable def fifoStep (fb dp : ℝ) (st : List ℝ × ℝ) (x : ℝ) : (List ℝ × ℝ) × ℝ :=
  match st.1 with
  | [] => (st, 0)
  | y :: rest => ((rest ++ [x + (y * (1 - dp) + st.2 * dp) * fb], y * (1 - dp) + st.2 * dp), y)

theorem process_fifo (c : Comb ℝ) (h : c.WF) (x fb dp : ℝ) :
    ∃ c', c.process x fb dp = .ok (c', (fifoStep fb dp (c.fifo, c.store) x).2)
      ∧ c'.WF ∧ (c'.fifo, c'.store) = (fifoStep fb dp (c.fifo, c.store) x).1
      ∧ c'.buffer.size = c.buffer.size := by
  have hw := process_wf c h x fb dp _ (process_ok c h x fb dp)
  have hl : c.idx < c.buffer.toList.length := by have := h; unfold WF at this; simpa using this
  have hy : c.buffer.toList[c.idx]'hl = c.buffer[c.idx]'h := by
    rw [Array.getElem_toList]; rfl
  refine ⟨_, ?_, hw.1, ?_, hw.2⟩
  · rw [process_ok c h]
    have := (ringFifo_step c.buffer.toList c.idx hl 0).1
    simp only [fifoStep, fifo, this, hy]
  · obtain ⟨h1, h2⟩ := ringFifo_step c.buffer.toList c.idx hl (x + c.nextStore dp h * fb)
    have hs : c.buffer.size = c.buffer.toList.length := by simp
    simp only [fifo, fifoStep, h1, Array.toList_setIfInBounds]
    rw [hs, h2]
    simp only [nextStore, hy]

/-- iterate the model's `CombFilter::process` over a list of inputs (constant feedback / damping) -/
noncomputable def run (fb dp : ℝ) : Comb ℝ → List ℝ → Except FxFault (Comb ℝ × List ℝ)
  | c, [] => .ok (c, [])
  | c, x :: xs =>
    match c.process x fb dp with
    | .error e => .error e
    | .ok (c1, y) =>
      match run fb dp c1 xs with
      | .error e => .error e
      | .ok (c2, ys) => .ok (c2, y :: ys)

noncomputable def fifoRun (fb dp : ℝ) : List ℝ × ℝ → List ℝ → (List ℝ × ℝ) × List ℝ
  | st, [] => (st, [])
  | st, x :: xs =>
    let r := fifoStep fb dp st x
    let r' := fifoRun fb dp r.1 xs
    (r'.1, r.2 :: r'.2)

/-- the ring-buffer comb run equals the FIFO machine run (and never faults on a non-empty line) -/
theorem run_fifo (fb dp : ℝ) : ∀ (xs : List ℝ) (c : Comb ℝ), c.WF →
    ∃ c', run fb dp c xs = .ok (c', (fifoRun fb dp (c.fifo, c.store) xs).2)
      ∧ c'.WF ∧ (c'.fifo, c'.store) = (fifoRun fb dp (c.fifo, c.store) xs).1 := by
  intro xs
  induction xs with
  | nil => intro c h; exact ⟨c, rfl, h, rfl⟩
  | cons x xs ih =>
    intro c h
    obtain ⟨c1, h1, w1, e1, _⟩ := process_fifo c h x fb dp
    obtain ⟨c2, h2, w2, e2⟩ := ih c1 w1
    refine ⟨c2, ?_, w2, ?_⟩
    · simp only [run, h1, h2, fifoRun, e1]
    · simp only [fifoRun, ← e1, e2]

theorem mem_fifo (c : Comb ℝ) (e : ℝ) : e ∈ c.fifo ↔ e ∈ c.buffer.toList := by
  unfold fifo ringFifo
  rw [List.mem_append]
  constructor
  · rintro (h | h)
    · exact List.mem_of_mem_drop h
    · exact List.mem_of_mem_take h
  · intro h
    rw [← List.take_append_drop c.idx c.buffer.toList, List.mem_append] at h
    exact h.symm

theorem fifo_length (c : Comb ℝ) : c.fifo.length = c.buffer.size := by
  unfold fifo ringFifo
  simp only [List.length_append, List.length_drop, List.length_take, Array.length_toList]
  omega

/-! ### BIBO: a bound that the comb keeps for ever -/

theorem fifoStep_bounded (fb dp X B : ℝ) (hdp0 : 0 ≤ dp) (hdp1 : dp ≤ 1) (hB0 : 0 ≤ B)
    (hB : X + |fb| * B ≤ B) (st : List ℝ × ℝ) (x : ℝ) (hx : |x| ≤ X) (hs : |st.2| ≤ B)
    (hf : ∀ e ∈ st.1, |e| ≤ B) :
    |(fifoStep fb dp st x).1.2| ≤ B ∧ (∀ e ∈ (fifoStep fb dp st x).1.1, |e| ≤ B)
      ∧ |(fifoStep fb dp st x).2| ≤ B := by
  obtain ⟨l, s⟩ := st
  cases l with
  | nil => simp [fifoStep, hB0]; exact hs
  | cons y rest =>
    have hy : |y| ≤ B := hf y (by simp)
    have hs' : |y * (1 - dp) + s * dp| ≤ B := by
      calc |y * (1 - dp) + s * dp| ≤ |y * (1 - dp)| + |s * dp| := abs_add_le _ _
        _ = |y| * (1 - dp) + |s| * dp := by
            rw [abs_mul, abs_mul, abs_of_nonneg (by linarith : 0 ≤ 1 - dp), abs_of_nonneg hdp0]
        _ ≤ B * (1 - dp) + B * dp := by
            apply add_le_add
            · exact mul_le_mul_of_nonneg_right hy (by linarith)
            · exact mul_le_mul_of_nonneg_right hs hdp0
        _ = B := by ring
    have hw : |x + (y * (1 - dp) + s * dp) * fb| ≤ B := by
      calc |x + (y * (1 - dp) + s * dp) * fb| ≤ |x| + |(y * (1 - dp) + s * dp) * fb| := abs_add_le _ _
        _ = |x| + |y * (1 - dp) + s * dp| * |fb| := by rw [abs_mul]
        _ ≤ X + B * |fb| := by
            apply add_le_add hx
            exact mul_le_mul_of_nonneg_right hs' (abs_nonneg _)
        _ ≤ B := by linarith
    simp only [fifoStep]
    refine ⟨hs', ?_, hy⟩
    intro e he
    simp only [List.mem_append, List.mem_singleton] at he
    rcases he with he | rfl
    · exact hf e (by simp [he])
    · exact hw

theorem fifoRun_bounded (fb dp X B : ℝ) (hdp0 : 0 ≤ dp) (hdp1 : dp ≤ 1) (hB0 : 0 ≤ B)
    (hB : X + |fb| * B ≤ B) : ∀ (xs : List ℝ) (st : List ℝ × ℝ), (∀ x ∈ xs, |x| ≤ X) → |st.2| ≤ B →
    (∀ e ∈ st.1, |e| ≤ B) →
    |(fifoRun fb dp st xs).1.2| ≤ B ∧ (∀ e ∈ (fifoRun fb dp st xs).1.1, |e| ≤ B)
      ∧ ∀ y ∈ (fifoRun fb dp st xs).2, |y| ≤ B := by
  intro xs
  induction xs with
  | nil => intro st _ hs hf; exact ⟨hs, hf, by simp [fifoRun]⟩
  | cons x xs ih =>
    intro st hx hs hf
    obtain ⟨a, b, c⟩ := fifoStep_bounded fb dp X B hdp0 hdp1 hB0 hB st x (hx x (by simp)) hs hf
    obtain ⟨a', b', c'⟩ := ih (fifoStep fb dp st x).1 (fun y hy => hx y (by simp [hy])) a b
    refine ⟨a', b', ?_⟩
    intro y hy
    simp only [fifoRun, List.mem_cons] at hy
    rcases hy with rfl | hy
    · exact c
    · exact c' y hy

/-! ### geometric decay with zero input: per cycle of `N` frames the bound shrinks by
    `q = fb + dp·(1 − fb)` -/

/-- the invariant inside a cycle: `old` = slots not yet re-written in this cycle, `new` = re-written ones -/
structure CycInv (fb A T S : ℝ) (old new : List ℝ) (s : ℝ) : Prop where
  hold : ∀ e ∈ old, |e| ≤ A
  hnew : ∀ e ∈ new, |e| ≤ fb * S
  hs : |s| ≤ if new = [] then T else S

theorem fifoRun_decay (fb dp : ℝ) (hfb0 : 0 ≤ fb) (hfb1 : fb ≤ 1) (hdp0 : 0 ≤ dp) (hdp1 : dp ≤ 1) (N : ℕ) :
    ∀ (n : ℕ) (A T S : ℝ) (old new : List ℝ) (s : ℝ), 0 ≤ A → 0 ≤ T → S = (1 - dp) * A + dp * T → A ≤ S →
      old ≠ [] → old.length + new.length = N → CycInv fb A T S old new s →
      ∀ i, i < n → ∃ y, (fifoRun fb dp (old ++ new, s) (List.replicate n 0)).2[i]? = some y
        ∧ |y| ≤ (if i < old.length then A else fb * S * (fb + dp * (1 - fb)) ^ ((i - old.length) / N)) := by
  intro n
  induction n with
  | zero => intro A T S old new s _ _ _ _ _ _ _ i hi; omega
  | succ n ih =>
    intro A T S old new s hA hT hS hAS hne hlen hinv i hi
    cases old with
    | nil => exact absurd rfl hne
    | cons y old' =>
      have hS0 : 0 ≤ S := le_trans hA hAS
      have hy : |y| ≤ A := hinv.hold y (by simp)
      have hsS : |s| * dp ≤ (if new = [] then T else S) * dp := mul_le_mul_of_nonneg_right hinv.hs hdp0
      have hs' : |y * (1 - dp) + s * dp| ≤ S := by
        have h1 : |y * (1 - dp) + s * dp| ≤ |y| * (1 - dp) + |s| * dp := by
          calc |y * (1 - dp) + s * dp| ≤ |y * (1 - dp)| + |s * dp| := abs_add_le _ _
            _ = |y| * (1 - dp) + |s| * dp := by
                rw [abs_mul, abs_mul, abs_of_nonneg (by linarith : 0 ≤ 1 - dp), abs_of_nonneg hdp0]
        have h2 : |y| * (1 - dp) ≤ A * (1 - dp) := mul_le_mul_of_nonneg_right hy (by linarith)
        by_cases hn : new = []
        · simp only [hn, if_true] at hsS
          rw [hS]; nlinarith
        · simp only [hn, if_false] at hsS
          have : A * (1 - dp) ≤ S * (1 - dp) := mul_le_mul_of_nonneg_right hAS (by linarith)
          nlinarith
      have hw : |0 + (y * (1 - dp) + s * dp) * fb| ≤ fb * S := by
        rw [zero_add, abs_mul, abs_of_nonneg hfb0, mul_comm]
        exact mul_le_mul_of_nonneg_left hs' hfb0
      have hstep : fifoStep fb dp (y :: (old' ++ new), s) 0
          = ((old' ++ (new ++ [0 + (y * (1 - dp) + s * dp) * fb]), y * (1 - dp) + s * dp), y) := by
        simp [fifoStep, List.append_assoc]
      cases i with
      | zero =>
        refine ⟨y, ?_, ?_⟩
        · simp only [List.replicate_succ, List.cons_append, fifoRun, hstep]
          rfl
        · simpa using hy
      | succ i =>
        simp only [List.replicate_succ, List.cons_append, fifoRun, hstep, List.getElem?_cons_succ]
        by_cases hold' : old' = []
        · -- the cycle is complete: every slot has been re-written; start the next cycle
          subst hold'
          simp only [List.nil_append, List.length_cons, List.length_nil, Nat.zero_add] at hlen ⊢
          have hNpos : 0 < N := by omega
          have hq : fb ≤ fb + dp * (1 - fb) := by nlinarith
          have hinv' : CycInv fb (fb * S) S ((fb + dp * (1 - fb)) * S)
              (new ++ [0 + (y * (1 - dp) + s * dp) * fb]) [] (y * (1 - dp) + s * dp) := by
            refine ⟨?_, by simp, by simpa using hs'⟩
            intro e he
            simp only [List.mem_append, List.mem_singleton] at he
            rcases he with he | rfl
            · exact hinv.hnew e he
            · exact hw
          obtain ⟨y', hy1, hy2⟩ := ih (fb * S) S ((fb + dp * (1 - fb)) * S)
            (new ++ [0 + (y * (1 - dp) + s * dp) * fb]) [] (y * (1 - dp) + s * dp)
            (mul_nonneg hfb0 hS0) hS0 (by ring) (mul_le_mul_of_nonneg_right hq hS0) (by simp)
            (by simp; omega) hinv' i (by omega)
          rw [List.append_nil] at hy1
          refine ⟨y', hy1, ?_⟩
          have hlen' : (new ++ [0 + (y * (1 - dp) + s * dp) * fb]).length = N := by simp; omega
          rw [hlen'] at hy2
          have h1 : ¬ i + 1 < 1 := by omega
          simp only [h1, if_false, Nat.add_sub_cancel]
          by_cases hiN : i < N
          · simp only [hiN, if_true] at hy2
            rw [Nat.div_eq_of_lt hiN, pow_zero, mul_one]
            exact hy2
          · simp only [hiN, if_false] at hy2
            have hdiv : i / N = (i - N) / N + 1 := by
              have : i = (i - N) + N := by omega
              conv_lhs => rw [this]
              rw [Nat.add_div_right _ hNpos]
            rw [hdiv, pow_succ]
            calc |y'| ≤ fb * ((fb + dp * (1 - fb)) * S) * (fb + dp * (1 - fb)) ^ ((i - N) / N) := hy2
              _ = fb * S * ((fb + dp * (1 - fb)) ^ ((i - N) / N) * (fb + dp * (1 - fb))) := by ring
        · have hinv' : CycInv fb A T S old' (new ++ [0 + (y * (1 - dp) + s * dp) * fb])
              (y * (1 - dp) + s * dp) := by
            refine ⟨fun e he => hinv.hold e (by simp [he]), ?_, by simpa using hs'⟩
            intro e he
            simp only [List.mem_append, List.mem_singleton] at he
            rcases he with he | rfl
            · exact hinv.hnew e he
            · exact hw
          obtain ⟨y', hy1, hy2⟩ := ih A T S old' (new ++ [0 + (y * (1 - dp) + s * dp) * fb])
            (y * (1 - dp) + s * dp) hA hT hS hAS hold' (by simp at hlen ⊢; omega) hinv' i (by omega)
          refine ⟨y', hy1, ?_⟩
          simp only [List.length_cons]
          have e2 : i + 1 - (old'.length + 1) = i - old'.length := by omega
          rw [e2]
          by_cases hi' : i < old'.length
          · have : i + 1 < old'.length + 1 := by omega
            simp only [hi', this, if_true] at hy2 ⊢
            exact hy2
          · have : ¬ i + 1 < old'.length + 1 := by omega
            simp only [hi', this, if_false] at hy2 ⊢
            exact hy2

end Comb

/-! ### the all-pass as a FIFO machine; BIBO -/

namespace AllPass

def fifo (a : AllPass ℝ) : List ℝ := ringFifo a.buffer.toList a.idx

/-- one step of Freeverb's all-pass on its fifo -/
noncomputable def fifoStep (st : List ℝ) (x : ℝ) : List ℝ × ℝ :=
  match st with
  | [] => (st, 0)
  | y :: rest => (rest ++ [x + y * (1 / 2)], -x + y)

theorem process_fifo (a : AllPass ℝ) (h : a.WF) (x : ℝ) :
    ∃ a', a.process x = .ok (a', (fifoStep a.fifo x).2) ∧ a'.WF ∧ a'.fifo = (fifoStep a.fifo x).1
      ∧ a'.buffer.size = a.buffer.size := by
  have hw := process_wf a h x _ (process_ok a h x)
  have hl : a.idx < a.buffer.toList.length := by have := h; unfold WF at this; simpa using this
  have hy : a.buffer.toList[a.idx]'hl = a.buffer[a.idx]'h := by
    rw [Array.getElem_toList]; rfl
  have hg : (Gen.allPassFeedback : ℝ) = 1 / 2 := by norm_num [Gen.allPassFeedback]
  refine ⟨_, ?_, hw.1, ?_, hw.2⟩
  · rw [process_ok a h]
    have := (ringFifo_step a.buffer.toList a.idx hl 0).1
    simp only [fifoStep, fifo, this, hy]
  · obtain ⟨h1, h2⟩ := ringFifo_step a.buffer.toList a.idx hl (x + a.buffer[a.idx]'h * (Gen.allPassFeedback : ℝ))
    have hs : a.buffer.size = a.buffer.toList.length := by simp
    simp only [fifo, fifoStep, h1, Array.toList_setIfInBounds]
    rw [hs, h2]
    simp only [hy, hg]

/-- iterate the model's `AllPassFilter::process` over a list of inputs -/
noncomputable def run : AllPass ℝ → List ℝ → Except FxFault (AllPass ℝ × List ℝ)
  | a, [] => .ok (a, [])
  | a, x :: xs =>
    match a.process x with
    | .error e => .error e
    | .ok (a1, y) =>
      match run a1 xs with
      | .error e => .error e
      | .ok (a2, ys) => .ok (a2, y :: ys)

noncomputable def fifoRun : List ℝ → List ℝ → List ℝ × List ℝ
  | st, [] => (st, [])
  | st, x :: xs =>
    let r := fifoStep st x
    let r' := fifoRun r.1 xs
    (r'.1, r.2 :: r'.2)

theorem run_fifo : ∀ (xs : List ℝ) (a : AllPass ℝ), a.WF →
    ∃ a', run a xs = .ok (a', (fifoRun a.fifo xs).2) ∧ a'.WF ∧ a'.fifo = (fifoRun a.fifo xs).1 := by
  intro xs
  induction xs with
  | nil => intro a h; exact ⟨a, rfl, h, rfl⟩
  | cons x xs ih =>
    intro a h
    obtain ⟨a1, h1, w1, e1, _⟩ := process_fifo a h x
    obtain ⟨a2, h2, w2, e2⟩ := ih a1 w1
    refine ⟨a2, ?_, w2, ?_⟩
    · simp only [run, h1, h2, fifoRun, e1]
    · simp only [fifoRun, ← e1, e2]

theorem mem_fifo (a : AllPass ℝ) (e : ℝ) : e ∈ a.fifo ↔ e ∈ a.buffer.toList := by
  unfold fifo ringFifo
  rw [List.mem_append]
  constructor
  · rintro (h | h)
    · exact List.mem_of_mem_drop h
    · exact List.mem_of_mem_take h
  · intro h
    rw [← List.take_append_drop a.idx a.buffer.toList, List.mem_append] at h
    exact h.symm

theorem fifoStep_bounded (X B : ℝ) (hX : 0 ≤ X) (hB : 2 * X ≤ B) (st : List ℝ) (x : ℝ) (hx : |x| ≤ X)
    (hf : ∀ e ∈ st, |e| ≤ B) :
    (∀ e ∈ (fifoStep st x).1, |e| ≤ B) ∧ |(fifoStep st x).2| ≤ X + B := by
  cases st with
  | nil => simp only [fifoStep, abs_zero]; exact ⟨hf, by linarith⟩
  | cons y rest =>
    have hy : |y| ≤ B := hf y (by simp)
    simp only [fifoStep]
    constructor
    · intro e he
      simp only [List.mem_append, List.mem_singleton] at he
      rcases he with he | rfl
      · exact hf e (by simp [he])
      · calc |x + y * (1 / 2)| ≤ |x| + |y * (1 / 2)| := abs_add_le _ _
          _ = |x| + |y| * (1 / 2) := by rw [abs_mul, abs_of_nonneg (by norm_num : (0 : ℝ) ≤ 1 / 2)]
          _ ≤ B := by linarith
    · calc |-x + y| ≤ |-x| + |y| := abs_add_le _ _
        _ = |x| + |y| := by rw [abs_neg]
        _ ≤ X + B := by linarith

theorem fifoRun_bounded (X B : ℝ) (hX : 0 ≤ X) (hB : 2 * X ≤ B) : ∀ (xs : List ℝ) (st : List ℝ),
    (∀ x ∈ xs, |x| ≤ X) → (∀ e ∈ st, |e| ≤ B) →
    (∀ e ∈ (fifoRun st xs).1, |e| ≤ B) ∧ ∀ y ∈ (fifoRun st xs).2, |y| ≤ X + B := by
  intro xs
  induction xs with
  | nil => intro st _ hf; exact ⟨hf, by simp [fifoRun]⟩
  | cons x xs ih =>
    intro st hx hf
    obtain ⟨b, c⟩ := fifoStep_bounded X B hX hB st x (hx x (by simp)) hf
    obtain ⟨b', c'⟩ := ih (fifoStep st x).1 (fun y hy => hx y (by simp [hy])) b
    refine ⟨b', ?_⟩
    intro y hy
    simp only [fifoRun, List.mem_cons] at hy
    rcases hy with rfl | hy
    · exact c
    · exact c' y hy

end AllPass
end K
