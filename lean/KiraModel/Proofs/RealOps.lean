/-
  RealOps.lean — the ideal-arithmetic interpretation of the model (`KOps ℝ`).
  `r32 = id`; libm functions are Mathlib's real functions; `isNaN = false`.
  Every law the property proofs use about these is proved from Mathlib (no axioms).
-/
import Mathlib.Analysis.SpecialFunctions.Pow.Real
import Mathlib.Analysis.SpecialFunctions.Trigonometric.Basic
import Mathlib.Analysis.SpecialFunctions.Log.Base
import Mathlib.Algebra.Order.Floor.Ring
import Mathlib.Algebra.Order.Round
import KiraModel.Num

noncomputable instance : KOps ℝ where
  r32 := id
  sqrt := Real.sqrt
  pow := fun a b => a ^ b
  pow32 := fun a b => a ^ b
  tan := Real.tan
  exp := Real.exp
  sin := Real.sin
  log10_32 := Real.logb 10
  exp32 := Real.exp
  floor := fun x => (⌊x⌋ : ℝ)
  ceil := fun x => (⌈x⌉ : ℝ)
  abs := fun x => |x|
  isNaN := fun _ => false
  ofNat := fun n => (n : ℝ)
  toNatSat := fun x => ⌊x⌋₊
  durFromSecs := fun x => ⌊x * 1000000000 + 1 / 2⌋₊
  pi := Real.pi
  sqrt2_32 := Real.sqrt 2
  sin32 := Real.sin
  cos32 := Real.cos
  isFinite := fun _ => true

namespace K

/-! scientific literals of the model, normalised for `simp` -/
@[simp] theorem lit_0 : (0.0 : ℝ) = 0 := by norm_num
@[simp] theorem lit_1 : (1.0 : ℝ) = 1 := by norm_num
@[simp] theorem lit_2 : (2.0 : ℝ) = 2 := by norm_num
@[simp] theorem lit_half : (0.5 : ℝ) = 1 / 2 := by norm_num
@[simp] theorem lit_10 : (10.0 : ℝ) = 10 := by norm_num
@[simp] theorem lit_12 : (12.0 : ℝ) = 12 := by norm_num
@[simp] theorem lit_20 : (20.0 : ℝ) = 20 := by norm_num
@[simp] theorem lit_60 : (60.0 : ℝ) = 60 := by norm_num
@[simp] theorem lit_1e9 : (1000000000.0 : ℝ) = 1000000000 := by norm_num
@[simp] theorem lit_1_5 : (1.5 : ℝ) = 3 / 2 := by norm_num
@[simp] theorem lit_2_5 : (2.5 : ℝ) = 5 / 2 := by norm_num

@[simp] theorem r32_real (x : ℝ) : KOps.r32 x = x := rfl
@[simp] theorem sqrt_real (x : ℝ) : KOps.sqrt x = Real.sqrt x := rfl
@[simp] theorem pow_real (a b : ℝ) : KOps.pow a b = a ^ b := rfl
@[simp] theorem pow32_real (a b : ℝ) : KOps.pow32 a b = a ^ b := rfl
@[simp] theorem floor_real (x : ℝ) : KOps.floor x = (⌊x⌋ : ℝ) := rfl
@[simp] theorem ceil_real (x : ℝ) : KOps.ceil x = (⌈x⌉ : ℝ) := rfl
@[simp] theorem abs_real (x : ℝ) : KOps.abs x = |x| := rfl
@[simp] theorem isNaN_real (x : ℝ) : KOps.isNaN x = false := rfl
@[simp] theorem ofNat_real (n : ℕ) : (KOps.ofNat n : ℝ) = (n : ℝ) := rfl
@[simp] theorem toNatSat_real (x : ℝ) : KOps.toNatSat x = ⌊x⌋₊ := rfl
@[simp] theorem sqrt2_real : (KOps.sqrt2_32 : ℝ) = Real.sqrt 2 := rfl
@[simp] theorem pi_real : (KOps.pi : ℝ) = Real.pi := rfl
@[simp] theorem sin_real (x : ℝ) : KOps.sin x = Real.sin x := rfl
@[simp] theorem tan_real (x : ℝ) : KOps.tan x = Real.tan x := rfl
@[simp] theorem exp_real (x : ℝ) : KOps.exp x = Real.exp x := rfl
@[simp] theorem exp32_real (x : ℝ) : KOps.exp32 x = Real.exp x := rfl
@[simp] theorem log10_real (x : ℝ) : KOps.log10_32 x = Real.logb 10 x := rfl
@[simp] theorem sin32_real (x : ℝ) : KOps.sin32 x = Real.sin x := rfl
@[simp] theorem cos32_real (x : ℝ) : KOps.cos32 x = Real.cos x := rfl
@[simp] theorem isFinite_real (x : ℝ) : KOps.isFinite x = true := rfl
@[simp] theorem satU64_real (n : ℕ) : KOps.satU64 (α := ℝ) n = n := rfl

@[simp] theorem feq_real (x y : ℝ) : feq x y = decide (x = y) := by
  unfold feq
  by_cases h : x = y
  · subst h; simp
  · have : ¬ (x ≤ y ∧ y ≤ x) := fun ⟨a, b⟩ => h (le_antisymm a b)
    simp only [h, decide_false]
    by_cases h1 : x ≤ y
    · have : ¬ y ≤ x := fun b => h (le_antisymm h1 b)
      simp [h1, this]
    · simp [h1]

@[simp] theorem nanToZero_real (x : ℝ) : nanToZero x = x := by unfold nanToZero; simp

theorem fmax_real (x y : ℝ) : fmax x y = max x y := by
  unfold fmax; simp only [isNaN_real]; simp only [Bool.false_eq_true, if_false]
  split
  · rw [max_eq_right (le_of_lt ‹_›)]
  · rw [max_eq_left (not_lt.mp ‹_›)]

theorem fmin_real (x y : ℝ) : fmin x y = min x y := by
  unfold fmin; simp only [isNaN_real]; simp only [Bool.false_eq_true, if_false]
  split
  · rw [min_eq_right (le_of_lt ‹_›)]
  · rw [min_eq_left (not_lt.mp ‹_›)]

theorem clamp_real (x lo hi : ℝ) (h : lo ≤ hi) : clamp x lo hi = max lo (min x hi) := by
  unfold clamp
  split
  · rename_i h1; rw [max_eq_left]; exact le_trans (min_le_left _ _) (le_of_lt h1)
  · rename_i h1
    split
    · rename_i h2; rw [min_eq_right (le_of_lt h2), max_eq_right h]
    · rename_i h2; rw [min_eq_left (not_lt.mp h2), max_eq_right (not_lt.mp h1)]

theorem clamp_mem (x lo hi : ℝ) (h : lo ≤ hi) : lo ≤ clamp x lo hi ∧ clamp x lo hi ≤ hi := by
  rw [clamp_real x lo hi h]
  exact ⟨le_max_left _ _, max_le h (min_le_right _ _)⟩

theorem trunc_nonneg (x : ℝ) (h : 0 ≤ x) : trunc x = (⌊x⌋ : ℝ) := by
  unfold trunc
  have : ¬ x < (0 : ℝ) := not_lt.mpr h
  simp [this]

theorem trunc_neg (x : ℝ) (h : x < 0) : trunc x = (⌈x⌉ : ℝ) := by
  unfold trunc
  simp [h]

end K
