/-
  Helper lemmas for the static sound model over ℝ.
-/
import KiraModel.Proofs.RealOps
import KiraModel.Proofs.ParameterLemmas
import KiraModel.Proofs.TransportLemmas
import KiraModel.Model.StaticSound
import Mathlib.Tactic.Linarith
import Mathlib.Tactic.Ring
import Mathlib.Tactic.NormNum
import Mathlib.Algebra.Order.Floor.Semiring

namespace K

theorem Frame.ext' {a b : Frame ℝ} (hl : a.left = b.left) (hr : a.right = b.right) : a = b := by
  cases a; cases b; simp_all

/-- over ℝ, `x.is_sign_negative()` is `x < 0` -/
theorem signNeg_real (x : ℝ) : signNeg x = decide (x < 0) := by
  unfold signNeg
  by_cases h : x < 0
  · simp [h]
  · by_cases h0 : x = 0
    · subst h0; simp
    · simp [h, h0]

/-! ### Hermite interpolation -/

theorem interpolateFrame_zero (p c n1 n2 : Frame ℝ) : interpolateFrame p c n1 n2 0 = c := by
  apply Frame.ext' <;>
    simp [interpolateFrame, Frame.add, Frame.sub, Frame.scale]

theorem interpolateFrame_one (p c n1 n2 : Frame ℝ) : interpolateFrame p c n1 n2 1 = n1 := by
  apply Frame.ext' <;>
    · simp [interpolateFrame, Frame.add, Frame.sub, Frame.scale]; ring

/-- the interpolation polynomial, channel by channel -/
noncomputable def hermite (p c n1 n2 x : ℝ) : ℝ :=
  ((((n2 - p) * (1 / 2) + (c - n1) * (3 / 2)) * x + (p - c * (5 / 2) + n1 * 2 - n2 * (1 / 2))) * x
    + (n1 - p) * (1 / 2)) * x + c

theorem interpolateFrame_eq (p c n1 n2 : Frame ℝ) (x : ℝ) :
    interpolateFrame p c n1 n2 x
      = ⟨hermite p.left c.left n1.left n2.left x, hermite p.right c.right n1.right n2.right x⟩ := by
  apply Frame.ext' <;>
    simp [interpolateFrame, Frame.add, Frame.sub, Frame.scale, hermite]

/-! ### neutral volume / fade / panning -/

/-- a parameter that sits on a fixed value: `raw = prev = v`, nothing left to do -/
def Parameter.Rests (p : Parameter ℝ ℝ) (v : ℝ) : Prop := p.raw = v ∧ p.prev = v ∧ p.stagnant = true

theorem Parameter.Rests.update {p : Parameter ℝ ℝ} {v : ℝ} (h : p.Rests v) (tw : Tweenable ℝ ℝ) (dt : ℝ)
    (info : Info ℝ) : (p.update tw dt info).1 = p ∧ (p.update tw dt info).2 = false := by
  obtain ⟨h1, h2, h3⟩ := h
  rw [Parameter.update_stagnant tw p dt info h3]
  refine ⟨?_, rfl⟩
  cases p; simp_all

theorem Parameter.Rests.interp {p : Parameter ℝ ℝ} {v : ℝ} (h : p.Rests v) (t : ℝ) :
    p.interpolatedValue tw32 t = v ∧ p.interpolatedValue tw64 t = v := by
  obtain ⟨h1, h2, _⟩ := h
  simp [Parameter.interpolatedValue, tw32, tw64, lerp32, lerp64, h1, h2]

theorem Parameter.new_fixed_rests (v d : ℝ) : (Parameter.new (.fixed v) d : Parameter ℝ ℝ).Rests v := by
  simp [Parameter.new, Parameter.Rests, Value.isFixed]

theorem asAmplitude_zero : asAmplitude (0 : ℝ) = 1 := by unfold asAmplitude; simp

theorem Frame.scale_one (f : Frame ℝ) : f.scale 1 = f := by
  apply Frame.ext' <;> simp [Frame.scale]

theorem Frame.panned_zero (f : Frame ℝ) : f.panned 0 = f := by unfold Frame.panned; simp

namespace StaticSound

/-- volume 0 dB, fade 0 dB, centre panning, all at rest: the sound's gain stage is the identity -/
def NeutralGain (s : StaticSound ℝ) : Prop :=
  s.volume.Rests 0 ∧ s.panning.Rests 0 ∧ s.core.psm.fade.Rests 0

theorem shade_neutral (s : StaticSound ℝ) (h : s.NeutralGain) (t : ℝ) (f : Frame ℝ) : s.shade t f = f := by
  obtain ⟨hv, hp, hf⟩ := h
  unfold shade Psm.interpolatedFadeVolume
  rw [(hv.interp t).1, (hp.interp t).1, (hf.interp t).1, asAmplitude_zero]
  simp only [Frame.scale_one, Frame.panned_zero]

/-! ### `update_position` touches only resampler, transport and the life-cycle core -/

def setFrac (x : ℝ) (s : StaticSound ℝ) : StaticSound ℝ := { s with frac := x }

theorem pushFrame_setFrac (x : ℝ) (s : StaticSound ℝ) :
    (setFrac x s).pushFrameToResampler = (s.pushFrameToResampler).map (setFrac x) := by
  unfold pushFrameToResampler setFrac
  by_cases hp : s.transport.playing
  · simp only [hp, if_true]
    cases frameAtIndex s.transport.position s.frames s.slice <;> rfl
  · simp only [hp]; rfl

theorem updatePosition_setFrac (x : ℝ) (s : StaticSound ℝ) :
    (setFrac x s).updatePosition = (s.updatePosition).map (setFrac x) := by
  unfold updatePosition
  rw [pushFrame_setFrac]
  cases h1 : s.pushFrameToResampler with
  | error f => rfl
  | ok s1 =>
    simp only [Except.map]
    have : (setFrac x s1).moveTransport = s1.moveTransport := rfl
    rw [this]
    cases h2 : s1.moveTransport with
    | error f => rfl
    | ok t =>
      simp only []
      by_cases hc : (!t.playing && ({ s1 with transport := t } : StaticSound ℝ).resampler.empty) = true
      · have hc' : (!t.playing && ({ setFrac x s1 with transport := t } : StaticSound ℝ).resampler.empty) = true := hc
        simp only [hc, hc', if_true]; rfl
      · have hc' : ¬ (!t.playing && ({ setFrac x s1 with transport := t } : StaticSound ℝ).resampler.empty) = true := hc
        simp only [hc, hc']; rfl

/-- `k` position steps -/
noncomputable def updN : Nat → StaticSound ℝ → Except Fault (StaticSound ℝ)
  | 0, s => .ok s
  | k + 1, s =>
    match s.updatePosition with
    | .error f => .error f
    | .ok s' => updN k s'

theorem updN_succ (k : Nat) (s : StaticSound ℝ) :
    updN (k + 1) s = (match s.updatePosition with | .error f => .error f | .ok s' => updN k s') := rfl

theorem updN_setFrac (x : ℝ) : ∀ (k : Nat) (s : StaticSound ℝ),
    updN k (setFrac x s) = (updN k s).map (setFrac x) := by
  intro k
  induction k with
  | zero => intro s; rfl
  | succ k ih =>
    intro s
    rw [updN_succ, updN_succ, updatePosition_setFrac]
    cases h : s.updatePosition with
    | error f => rfl
    | ok s' => simp only [Except.map]; exact ih s'

theorem updN_add : ∀ (a b : Nat) (s : StaticSound ℝ),
    updN (a + b) s = (match updN a s with | .error f => .error f | .ok s' => updN b s') := by
  intro a
  induction a with
  | zero => intro b s; simp [updN]
  | succ a ih =>
    intro b s
    have : a + 1 + b = (a + b) + 1 := by omega
    rw [this, updN_succ, updN_succ]
    cases h : s.updatePosition with
    | error f => rfl
    | ok s' => exact ih b s'

theorem setFrac_self (s : StaticSound ℝ) : setFrac s.frac s = s := by cases s; rfl

theorem setFrac_setFrac (x y : ℝ) (s : StaticSound ℝ) : setFrac y (setFrac x s) = setFrac y s := rfl

theorem Except.map_map' {ε α β γ : Type} (f : α → β) (g : β → γ) (x : Except ε α) :
    (x.map f).map g = x.map (fun a => g (f a)) := by cases x <;> rfl

theorem stepPos_succ (fuel : Nat) (s : StaticSound ℝ) :
    stepPos (fuel + 1) s = (if (1.0 : ℝ) ≤ s.frac then
      (match updatePosition { s with frac := s.frac - (1.0 : ℝ) } with
        | .error f => .error f
        | .ok s' => stepPos fuel s')
      else .ok s) := by
  rw [stepPos]
  split
  · cases updatePosition { s with frac := s.frac - (1.0 : ℝ) } <;> rfl
  · rfl

/-- the `while fractional_position >= 1.0` loop performs exactly `⌊frac⌋` position steps and leaves
    the fractional part — for every fuel that is large enough -/
theorem stepPos_spec : ∀ (fuel : Nat) (s : StaticSound ℝ), 0 ≤ s.frac → ⌊s.frac⌋₊ < fuel →
    stepPos fuel s = (updN ⌊s.frac⌋₊ s).map (setFrac (s.frac - (⌊s.frac⌋₊ : ℝ))) := by
  intro fuel
  induction fuel with
  | zero => intro s _ h; omega
  | succ fuel ih =>
    intro s h0 hf
    rw [stepPos_succ]
    by_cases h1 : (1 : ℝ) ≤ s.frac
    · have hm : ⌊s.frac⌋₊ = ⌊s.frac - 1⌋₊ + 1 := by
        have := Nat.floor_sub_one s.frac
        have h1' : 1 ≤ ⌊s.frac⌋₊ := Nat.le_floor (by simpa using h1)
        omega
      simp only [lit_1, h1, if_true]
      have hs : ({ s with frac := s.frac - 1 } : StaticSound ℝ) = setFrac (s.frac - 1) s := rfl
      rw [hs, updatePosition_setFrac, hm, updN_succ]
      cases hu : s.updatePosition with
      | error f => rfl
      | ok s1 =>
        simp only [Except.map]
        have h0' : 0 ≤ (setFrac (s.frac - 1) s1).frac := by simp [setFrac]; linarith
        have hf' : ⌊(setFrac (s.frac - 1) s1).frac⌋₊ < fuel := by simp only [setFrac]; omega
        rw [ih _ h0' hf']
        simp only [setFrac]
        have : (updN ⌊s.frac - 1⌋₊ { s1 with frac := s.frac - 1 })
            = (updN ⌊s.frac - 1⌋₊ s1).map (setFrac (s.frac - 1)) := updN_setFrac _ _ _
        rw [this, Except.map_map']
        congr 1
        funext a
        simp only [setFrac]
        congr 1
        push_cast; ring
    · have hz : ⌊s.frac⌋₊ = 0 := Nat.floor_eq_zero.mpr (not_le.mp h1)
      simp only [lit_1, h1, if_false, hz, updN, Except.map]
      simp [setFrac_self]

/-! ### what `update_position` changes -/

theorem pushFrame_shape (s s1 : StaticSound ℝ) (h : s.pushFrameToResampler = .ok s1) :
    ∃ fo : Option (Frame ℝ), s1 = { s with resampler := s.resampler.pushFrame fo s.transport.position } := by
  unfold pushFrameToResampler at h
  by_cases hp : s.transport.playing
  · simp only [hp, if_true] at h
    cases hf : frameAtIndex s.transport.position s.frames s.slice with
    | error f => simp [hf] at h
    | ok fo => simp only [hf] at h; injection h with h; exact ⟨_, h.symm⟩
  · simp only [hp] at h; injection h with h; exact ⟨_, h.symm⟩

theorem updatePosition_shape (s s' : StaticSound ℝ) (h : s.updatePosition = .ok s') :
    ∃ (fo : Option (Frame ℝ)) (t : Transport) (c : SoundCore ℝ), (c = s.core ∨ c = s.core.markStopped) ∧
      s' = { s with resampler := s.resampler.pushFrame fo s.transport.position, transport := t, core := c } := by
  unfold updatePosition at h
  cases h1 : s.pushFrameToResampler with
  | error f => simp [h1] at h
  | ok s1 =>
    obtain ⟨fo, rfl⟩ := pushFrame_shape s s1 h1
    simp only [h1] at h
    cases h2 : moveTransport { s with resampler := s.resampler.pushFrame fo s.transport.position } with
    | error f => simp [h2] at h
    | ok t =>
      simp only [h2] at h
      split at h
      · injection h with h; exact ⟨fo, t, _, Or.inr rfl, h.symm⟩
      · injection h with h; exact ⟨fo, t, _, Or.inl rfl, h.symm⟩

/-- the fields `update_position` never touches -/
structure SameConfig (s s' : StaticSound ℝ) : Prop where
  cmds : s'.cmds = s.cmds
  sampleRate : s'.sampleRate = s.sampleRate
  frames : s'.frames = s.frames
  slice : s'.slice = s.slice
  reverse : s'.reverse = s.reverse
  frac : s'.frac = s.frac
  volume : s'.volume = s.volume
  playbackRate : s'.playbackRate = s.playbackRate
  panning : s'.panning = s.panning
  sharedPosition : s'.sharedPosition = s.sharedPosition
  fade : s'.core.psm.fade = s.core.psm.fade
  startTime : s'.core.startTime = s.core.startTime

theorem SameConfig.refl (s : StaticSound ℝ) : SameConfig s s := by constructor <;> rfl

theorem SameConfig.trans {a b c : StaticSound ℝ} (h1 : SameConfig a b) (h2 : SameConfig b c) : SameConfig a c := by
  constructor
  · rw [h2.cmds, h1.cmds]
  · rw [h2.sampleRate, h1.sampleRate]
  · rw [h2.frames, h1.frames]
  · rw [h2.slice, h1.slice]
  · rw [h2.reverse, h1.reverse]
  · rw [h2.frac, h1.frac]
  · rw [h2.volume, h1.volume]
  · rw [h2.playbackRate, h1.playbackRate]
  · rw [h2.panning, h1.panning]
  · rw [h2.sharedPosition, h1.sharedPosition]
  · rw [h2.fade, h1.fade]
  · rw [h2.startTime, h1.startTime]

theorem updatePosition_sameConfig (s s' : StaticSound ℝ) (h : s.updatePosition = .ok s') : SameConfig s s' := by
  obtain ⟨fo, t, c, hc, rfl⟩ := updatePosition_shape s s' h
  rcases hc with rfl | rfl <;> constructor <;> rfl

theorem updN_sameConfig : ∀ (k : Nat) (s s' : StaticSound ℝ), updN k s = .ok s' → SameConfig s s' := by
  intro k
  induction k with
  | zero => intro s s' h; injection h with h; subst h; exact SameConfig.refl s
  | succ k ih =>
    intro s s' h
    rw [updN_succ] at h
    cases hu : s.updatePosition with
    | error f => simp [hu] at h
    | ok s1 =>
      simp only [hu] at h
      exact (updatePosition_sameConfig s s1 hu).trans (ih s1 s' h)

theorem shade_sameConfig {s s' : StaticSound ℝ} (h : SameConfig s s') (t : ℝ) (f : Frame ℝ) :
    s'.shade t f = s.shade t f := by
  unfold shade Psm.interpolatedFadeVolume
  rw [h.volume, h.panning, h.fade]

theorem fracStep_sameConfig {s s' : StaticSound ℝ} (h : SameConfig s s') (t dt : ℝ) :
    s'.fracStep t dt = s.fracStep t dt := by
  unfold fracStep
  rw [h.sampleRate, h.playbackRate]

/-- one iteration of the render loop: emit the Hermite interpolation of the window at the current
    fraction, then take `⌊frac + step⌋` position steps and keep the fractional part -/
theorem renderFrame_spec (fuel : Nat) (s : StaticSound ℝ) (t dt : ℝ) (h0 : 0 ≤ s.frac + s.fracStep t dt)
    (hf : ⌊s.frac + s.fracStep t dt⌋₊ < fuel) :
    renderFrame fuel s t dt
      = (updN ⌊s.frac + s.fracStep t dt⌋₊ s).map (fun s' =>
          (setFrac (s.frac + s.fracStep t dt - (⌊s.frac + s.fracStep t dt⌋₊ : ℝ)) s',
           s.shade t (s.resampler.get s.frac))) := by
  unfold renderFrame
  have hs : ({ s with frac := s.frac + s.fracStep t dt } : StaticSound ℝ)
      = setFrac (s.frac + s.fracStep t dt) s := rfl
  rw [hs, stepPos_spec fuel _ (by simpa [setFrac] using h0) (by simpa [setFrac] using hf)]
  simp only [setFrac, r32_real]
  have := updN_setFrac (s.frac + s.fracStep t dt) ⌊s.frac + s.fracStep t dt⌋₊ s
  simp only [setFrac] at this
  rw [this]
  cases updN ⌊s.frac + s.fracStep t dt⌋₊ s <;> rfl

theorem renderLoop_succ (fuel : Nat) (dt : ℝ) (len k i : Nat) (s : StaticSound ℝ) :
    renderLoop fuel dt len (k + 1) i s
      = (match renderFrame fuel s (((i + 1 : Nat) : ℝ) / (len : ℝ)) dt with
         | .error f => .error f
         | .ok r => (match renderLoop fuel dt len k (i + 1) r.1 with
            | .error f => .error f
            | .ok r' => .ok (r'.1, r.2 :: r'.2))) := by
  rw [renderLoop]
  simp only [ofNat_real]
  cases renderFrame fuel s (((i + 1 : Nat) : ℝ) / (len : ℝ)) dt with
  | error f => rfl
  | ok r =>
    obtain ⟨s1, f⟩ := r
    simp only []
    cases renderLoop fuel dt len k (i + 1) s1 with
    | error f => rfl
    | ok r' => rfl

theorem floor_frac_bounds (x : ℝ) (hx : 0 ≤ x) : 0 ≤ x - (⌊x⌋₊ : ℝ) ∧ x - (⌊x⌋₊ : ℝ) < 1 := by
  have h1 := Nat.floor_le hx
  have h2 := Nat.lt_floor_add_one x
  constructor <;> linarith

/-- **position accumulation**: with a constant per-frame step `c ≥ 0`, `k` iterations of the render
    loop perform exactly `⌊frac + k·c⌋` position steps and leave the fractional part — faults
    included (both sides fail with the same fault at the same position step). -/
theorem renderLoop_steps (fuel : Nat) (dt : ℝ) (len : Nat) (c : ℝ) (hc : 0 ≤ c) :
    ∀ (k i : Nat) (s : StaticSound ℝ), (∀ t, s.fracStep t dt = c) → 0 ≤ s.frac → s.frac < 1 →
      ⌊s.frac + k * c⌋₊ < fuel →
      (renderLoop fuel dt len k i s).map Prod.fst
        = (updN ⌊s.frac + k * c⌋₊ s).map (setFrac (s.frac + k * c - (⌊s.frac + k * c⌋₊ : ℝ))) := by
  intro k
  induction k with
  | zero =>
    intro i s _ h0 h1 _
    have hz : ⌊s.frac⌋₊ = 0 := Nat.floor_eq_zero.mpr h1
    simp [renderLoop, hz, updN, Except.map, setFrac_self]
  | succ k ih =>
    intro i s hstep h0 h1 hfuel
    have hkc : 0 ≤ (k : ℝ) * c := mul_nonneg (Nat.cast_nonneg k) hc
    have hx0 : 0 ≤ s.frac + c := by positivity
    have hmono : ⌊s.frac + c⌋₊ ≤ ⌊s.frac + ((k + 1 : Nat) : ℝ) * c⌋₊ := by
      apply Nat.floor_mono; push_cast; nlinarith
    rw [renderLoop_succ, renderFrame_spec fuel s _ dt (by rw [hstep]; exact hx0) (by rw [hstep]; omega)]
    rw [hstep]
    -- split the position steps: ⌊frac + (k+1) c⌋ = ⌊x⌋ + ⌊(x - ⌊x⌋) + k c⌋ with x = frac + c
    have hb := floor_frac_bounds (s.frac + c) hx0
    have hsplit : ⌊s.frac + ((k + 1 : Nat) : ℝ) * c⌋₊
        = ⌊s.frac + c⌋₊ + ⌊(s.frac + c - (⌊s.frac + c⌋₊ : ℝ)) + k * c⌋₊ := by
      have : s.frac + ((k + 1 : Nat) : ℝ) * c
          = ((s.frac + c - (⌊s.frac + c⌋₊ : ℝ)) + k * c) + (⌊s.frac + c⌋₊ : ℝ) := by
        push_cast; ring
      rw [this, Nat.floor_add_natCast (by linarith [hb.1])]
      omega
    rw [hsplit, updN_add]
    cases hu : updN ⌊s.frac + c⌋₊ s with
    | error f => rfl
    | ok u1 =>
      simp only [Except.map]
      have hsc := updN_sameConfig _ _ _ hu
      have hstep1 : ∀ t, (setFrac (s.frac + c - (⌊s.frac + c⌋₊ : ℝ)) u1).fracStep t dt = c := by
        intro t
        have : (setFrac (s.frac + c - (⌊s.frac + c⌋₊ : ℝ)) u1).fracStep t dt = u1.fracStep t dt := rfl
        rw [this, fracStep_sameConfig hsc, hstep]
      have hih := ih (i + 1) (setFrac (s.frac + c - (⌊s.frac + c⌋₊ : ℝ)) u1) hstep1
        (by simpa [setFrac] using hb.1) (by simpa [setFrac] using hb.2) (by simp only [setFrac]; omega)
      rw [updN_setFrac] at hih
      have hfr : (setFrac (s.frac + c - (⌊s.frac + c⌋₊ : ℝ)) u1).frac = s.frac + c - (⌊s.frac + c⌋₊ : ℝ) := rfl
      rw [hfr] at hih
      cases hr : renderLoop fuel dt len k (i + 1) (setFrac (s.frac + c - (⌊s.frac + c⌋₊ : ℝ)) u1) with
      | error f =>
        rw [hr] at hih
        cases hu2 : updN ⌊s.frac + c - (⌊s.frac + c⌋₊ : ℝ) + k * c⌋₊ u1 with
        | error f2 => rw [hu2] at hih; simp only [Except.map] at hih ⊢; exact hih
        | ok u2 => rw [hu2] at hih; simp [Except.map] at hih
      | ok r' =>
        rw [hr] at hih
        cases hu2 : updN ⌊s.frac + c - (⌊s.frac + c⌋₊ : ℝ) + k * c⌋₊ u1 with
        | error f2 => rw [hu2] at hih; simp [Except.map] at hih
        | ok u2 =>
          rw [hu2] at hih
          simp only [Except.map] at hih ⊢
          injection hih with hih
          rw [hih]
          simp only [setFrac]
          congr 2
          push_cast; ring

/-! ### rate 1 on a device running at the sound's sample rate -/

/-- `k` position steps, collecting what the listener hears (window slot 1) before each step -/
noncomputable def walkOut : Nat → StaticSound ℝ → Except Fault (StaticSound ℝ × List (Frame ℝ))
  | 0, s => .ok (s, [])
  | k + 1, s =>
    match s.updatePosition with
    | .error f => .error f
    | .ok s' =>
      match walkOut k s' with
      | .error f => .error f
      | .ok r => .ok (r.1, s.resampler.f1.frame :: r.2)

theorem walkOut_succ (k : Nat) (s : StaticSound ℝ) :
    walkOut (k + 1) s = (match s.updatePosition with
      | .error f => .error f
      | .ok s' => (match walkOut k s' with
        | .error f => .error f
        | .ok r => .ok (r.1, s.resampler.f1.frame :: r.2))) := by
  rw [walkOut]

theorem neutralGain_sameConfig {s s' : StaticSound ℝ} (h : SameConfig s s') (hn : s.NeutralGain) : s'.NeutralGain := by
  unfold NeutralGain at *
  rw [h.volume, h.panning, h.fade]; exact hn

theorem resampler_get_zero (r : Resampler ℝ) : r.get 0 = r.f1.frame := by
  unfold Resampler.get; exact interpolateFrame_zero _ _ _ _

theorem renderLoop_rate1 (fuel : Nat) (hfuel : 2 ≤ fuel) (dt : ℝ) (len : Nat) :
    ∀ (k i : Nat) (s : StaticSound ℝ), s.NeutralGain → (∀ t, s.fracStep t dt = 1) → s.frac = 0 →
      renderLoop fuel dt len k i s = walkOut k s := by
  intro k
  induction k with
  | zero => intro i s _ _ _; rfl
  | succ k ih =>
    intro i s hn hstep hfr
    have h1 : ⌊s.frac + 1⌋₊ = 1 := by rw [hfr]; norm_num
    rw [renderLoop_succ, walkOut_succ,
      renderFrame_spec fuel s _ dt (by rw [hstep, hfr]; norm_num) (by rw [hstep, h1]; omega)]
    rw [hstep, h1, updN_succ]
    cases hu : s.updatePosition with
    | error f => rfl
    | ok u1 =>
      simp only [updN, Except.map]
      have hsc := updatePosition_sameConfig s u1 hu
      have hz : setFrac (s.frac + 1 - ((1 : ℕ) : ℝ)) u1 = u1 := by
        have : s.frac + 1 - ((1 : ℕ) : ℝ) = u1.frac := by rw [hsc.frac, hfr]; norm_num
        rw [this, setFrac_self]
      rw [hz, shade_neutral s hn, hfr, resampler_get_zero]
      have hstep1 : ∀ t, u1.fracStep t dt = 1 := fun t => by rw [fracStep_sameConfig hsc, hstep]
      rw [ih (i + 1) u1 (neutralGain_sameConfig hsc hn) hstep1 (by rw [hsc.frac, hfr])]

/-- the state of a sound that plays at a constant rate `r` with neutral gain, is in state Playing
    with an immediate start, and sits on a frame boundary -/
structure NeutralPlaying (s : StaticSound ℝ) (r : ℝ) : Prop where
  gain : s.NeutralGain
  rate : s.playbackRate.Rests r
  state : s.core.psm.state = .playing
  start : s.core.startTime = .immediate
  frac : s.frac = 0

theorem fracStep_rests (s : StaticSound ℝ) (r t dt : ℝ) (h : s.playbackRate.Rests r) :
    s.fracStep t dt = (s.sampleRate : ℝ) * |r| * dt := by
  unfold fracStep
  rw [(h.interp t).2]; simp

theorem gate_neutral (c : SoundCore ℝ) (dtc : ℝ) (info : Info ℝ) (hf : c.psm.fade.Rests 0)
    (hs : c.psm.state = .playing) (hst : c.startTime = .immediate) : c.gate dtc info = (c, true) := by
  obtain ⟨psm, st, sh⟩ := c
  obtain ⟨state, fade⟩ := psm
  simp only at hf hs hst
  subst hs hst
  unfold SoundCore.gate Psm.update
  simp only [(hf.update tw32 dtc info).1, StartTime.update]
  simp [StartTime.isImmediate, Psm.playbackState, PlaybackState.isAdvancing]

/-- **one `process` call at rate ±1, device rate = sound rate**: the buffer receives exactly what
    `len` position steps make audible (window slot 1 before each step), nothing else changes. -/
theorem process_rate1 (fuel : Nat) (hfuel : 2 ≤ fuel) (s : StaticSound ℝ) (r dt : ℝ) (len : Nat) (info : Info ℝ)
    (h : s.NeutralPlaying r) (hunit : (s.sampleRate : ℝ) * |r| * dt = 1) :
    s.process fuel len dt info = walkOut len s := by
  unfold process
  have hg := gate_neutral s.core (dt * KOps.ofNat len) info h.gain.2.2 h.state h.start
  have hv := (h.gain.1.update tw32 (dt * KOps.ofNat len) info).1
  have hp := (h.gain.2.1.update tw32 (dt * KOps.ofNat len) info).1
  have hr := (h.rate.update tw64 (dt * KOps.ofNat len) info).1
  simp only [hg, hv, hp, hr, if_true]
  exact renderLoop_rate1 fuel hfuel dt len len 0 s h.gain
    (fun t => by rw [fracStep_rests s r t dt h.rate, hunit]) h.frac

end StaticSound
end K
