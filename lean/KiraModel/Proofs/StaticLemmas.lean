/-
  Helper lemmas for the static sound model over ℝ.
-/
import KiraModel.Proofs.RealOps
import KiraModel.Proofs.ParameterLemmas
import KiraModel.Proofs.TransportLemmas
import KiraModel.Model.StaticSound
import Mathlib.Tactic.Linarith
import Mathlib.Tactic.Ring
import Mathlib.Tactic.NormNum
import Mathlib.Algebra.Order.Floor.Semiring

namespace K

theorem Frame.ext' {a b : Frame ℝ} (hl : a.left = b.left) (hr : a.right = b.right) : a = b := by
  cases a; cases b; simp_all

/-- over ℝ, `x.is_sign_negative()` is `x < 0` -/
theorem signNeg_real (x : ℝ) : signNeg x = decide (x < 0) := by
  unfold signNeg
  by_cases h : x < 0
  · simp [h]
  · by_cases h0 : x = 0
    · subst h0; simp
    · simp [h, h0]

/-! ### Hermite interpolation -/

theorem interpolateFrame_zero (p c n1 n2 : Frame ℝ) : interpolateFrame p c n1 n2 0 = c := by
  apply Frame.ext' <;>
    simp [interpolateFrame, Frame.add, Frame.sub, Frame.scale]

theorem interpolateFrame_one (p c n1 n2 : Frame ℝ) : interpolateFrame p c n1 n2 1 = n1 := by
  apply Frame.ext' <;>
    · simp [interpolateFrame, Frame.add, Frame.sub, Frame.scale]; ring

/-- the interpolation polynomial, channel by channel -/
noncomputable def hermite (p c n1 n2 x : ℝ) : ℝ :=
  ((((n2 - p) * (1 / 2) + (c - n1) * (3 / 2)) * x + (p - c * (5 / 2) + n1 * 2 - n2 * (1 / 2))) * x
    + (n1 - p) * (1 / 2)) * x + c

theorem interpolateFrame_eq (p c n1 n2 : Frame ℝ) (x : ℝ) :
    interpolateFrame p c n1 n2 x
      = ⟨hermite p.left c.left n1.left n2.left x, hermite p.right c.right n1.right n2.right x⟩ := by
  apply Frame.ext' <;>
    simp [interpolateFrame, Frame.add, Frame.sub, Frame.scale, hermite]

/-! ### neutral volume / fade / panning -/

/-- a parameter that sits on a fixed value: `raw = prev = v`, nothing left to do -/
def Parameter.Rests (p : Parameter ℝ ℝ) (v : ℝ) : Prop := p.raw = v ∧ p.prev = v ∧ p.stagnant = true

theorem Parameter.Rests.update {p : Parameter ℝ ℝ} {v : ℝ} (h : p.Rests v) (tw : Tweenable ℝ ℝ) (dt : ℝ)
    (info : Info ℝ) : (p.update tw dt info).1 = p ∧ (p.update tw dt info).2 = false := by
  obtain ⟨h1, h2, h3⟩ := h
  rw [Parameter.update_stagnant tw p dt info h3]
  refine ⟨?_, rfl⟩
  cases p; simp_all

theorem Parameter.Rests.interp {p : Parameter ℝ ℝ} {v : ℝ} (h : p.Rests v) (t : ℝ) :
    p.interpolatedValue tw32 t = v ∧ p.interpolatedValue tw64 t = v := by
  obtain ⟨h1, h2, _⟩ := h
  simp [Parameter.interpolatedValue, tw32, tw64, lerp32, lerp64, h1, h2]

theorem Parameter.new_fixed_rests (v d : ℝ) : (Parameter.new (.fixed v) d : Parameter ℝ ℝ).Rests v := by
  simp [Parameter.new, Parameter.Rests, Value.isFixed]

theorem asAmplitude_zero : asAmplitude (0 : ℝ) = 1 := by unfold asAmplitude; simp

theorem Frame.scale_one (f : Frame ℝ) : f.scale 1 = f := by
  apply Frame.ext' <;> simp [Frame.scale]

theorem Frame.panned_zero (f : Frame ℝ) : f.panned 0 = f := by unfold Frame.panned; simp

namespace StaticSound

/-- volume 0 dB, fade 0 dB, centre panning, all at rest: the sound's gain stage is the identity -/
def NeutralGain (s : StaticSound ℝ) : Prop :=
  s.volume.Rests 0 ∧ s.panning.Rests 0 ∧ s.core.psm.fade.Rests 0

theorem shade_neutral (s : StaticSound ℝ) (h : s.NeutralGain) (t : ℝ) (f : Frame ℝ) : s.shade t f = f := by
  obtain ⟨hv, hp, hf⟩ := h
  unfold shade Psm.interpolatedFadeVolume
  rw [(hv.interp t).1, (hp.interp t).1, (hf.interp t).1, asAmplitude_zero]
  simp only [Frame.scale_one, Frame.panned_zero]

/-! ### `update_position` touches only resampler, transport and the life-cycle core -/

def setFrac (x : ℝ) (s : StaticSound ℝ) : StaticSound ℝ := { s with frac := x }

theorem pushFrame_setFrac (x : ℝ) (s : StaticSound ℝ) :
    (setFrac x s).pushFrameToResampler = (s.pushFrameToResampler).map (setFrac x) := by
  unfold pushFrameToResampler setFrac
  by_cases hp : s.transport.playing
  · simp only [hp, if_true]
    cases frameAtIndex s.transport.position s.frames s.slice <;> rfl
  · simp only [hp]; rfl

theorem updatePosition_setFrac (x : ℝ) (s : StaticSound ℝ) :
    (setFrac x s).updatePosition = (s.updatePosition).map (setFrac x) := by
  unfold updatePosition
  rw [pushFrame_setFrac]
  cases h1 : s.pushFrameToResampler with
  | error f => rfl
  | ok s1 =>
    simp only [Except.map]
    have : (setFrac x s1).moveTransport = s1.moveTransport := rfl
    rw [this]
    cases h2 : s1.moveTransport with
    | error f => rfl
    | ok t =>
      simp only []
      by_cases hc : (!t.playing && ({ s1 with transport := t } : StaticSound ℝ).resampler.empty) = true
      · have hc' : (!t.playing && ({ setFrac x s1 with transport := t } : StaticSound ℝ).resampler.empty) = true := hc
        simp only [hc, hc', if_true]; rfl
      · have hc' : ¬ (!t.playing && ({ setFrac x s1 with transport := t } : StaticSound ℝ).resampler.empty) = true := hc
        simp only [hc, hc']; rfl

/-- `k` position steps -/
noncomputable def updN : Nat → StaticSound ℝ → Except Fault (StaticSound ℝ)
  | 0, s => .ok s
  | k + 1, s =>
    match s.updatePosition with
    | .error f => .error f
    | .ok s' => updN k s'

theorem updN_succ (k : Nat) (s : StaticSound ℝ) :
    updN (k + 1) s = (match s.updatePosition with | .error f => .error f | .ok s' => updN k s') := rfl

theorem updN_setFrac (x : ℝ) : ∀ (k : Nat) (s : StaticSound ℝ),
    updN k (setFrac x s) = (updN k s).map (setFrac x) := by
  intro k
  induction k with
  | zero => intro s; rfl
  | succ k ih =>
    intro s
    rw [updN_succ, updN_succ, updatePosition_setFrac]
    cases h : s.updatePosition with
    | error f => rfl
    | ok s' => simp only [Except.map]; exact ih s'

theorem updN_add : ∀ (a b : Nat) (s : StaticSound ℝ),
    updN (a + b) s = (match updN a s with | .error f => .error f | .ok s' => updN b s') := by
  intro a
  induction a with
  | zero => intro b s; simp [updN]
  | succ a ih =>
    intro b s
    have : a + 1 + b = (a + b) + 1 := by omega
    rw [this, updN_succ, updN_succ]
    cases h : s.updatePosition with
    | error f => rfl
    | ok s' => exact ih b s'

theorem setFrac_self (s : StaticSound ℝ) : setFrac s.frac s = s := by cases s; rfl

theorem setFrac_setFrac (x y : ℝ) (s : StaticSound ℝ) : setFrac y (setFrac x s) = setFrac y s := rfl

theorem Except.map_map' {ε α β γ : Type} (f : α → β) (g : β → γ) (x : Except ε α) :
    (x.map f).map g = x.map (fun a => g (f a)) := by cases x <;> rfl

theorem stepPos_succ (fuel : Nat) (s : StaticSound ℝ) :
    stepPos (fuel + 1) s = (if (1.0 : ℝ) ≤ s.frac then
      (match updatePosition { s with frac := s.frac - (1.0 : ℝ) } with
        | .error f => .error f
        | .ok s' => stepPos fuel s')
      else .ok s) := by
  rw [stepPos]
  split
  · cases updatePosition { s with frac := s.frac - (1.0 : ℝ) } <;> rfl
  · rfl

/-- the `while fractional_position >= 1.0` loop performs exactly `⌊frac⌋` position steps and leaves
    the fractional part — for every fuel that is large enough -/
theorem stepPos_spec : ∀ (fuel : Nat) (s : StaticSound ℝ), 0 ≤ s.frac → ⌊s.frac⌋₊ < fuel →
    stepPos fuel s = (updN ⌊s.frac⌋₊ s).map (setFrac (s.frac - (⌊s.frac⌋₊ : ℝ))) := by
  intro fuel
  induction fuel with
  | zero => intro s _ h; omega
  | succ fuel ih =>
    intro s h0 hf
    rw [stepPos_succ]
    by_cases h1 : (1 : ℝ) ≤ s.frac
    · have hm : ⌊s.frac⌋₊ = ⌊s.frac - 1⌋₊ + 1 := by
        have := Nat.floor_sub_one s.frac
        have h1' : 1 ≤ ⌊s.frac⌋₊ := Nat.le_floor (by simpa using h1)
        omega
      simp only [lit_1, h1, if_true]
      have hs : ({ s with frac := s.frac - 1 } : StaticSound ℝ) = setFrac (s.frac - 1) s := rfl
      rw [hs, updatePosition_setFrac, hm, updN_succ]
      cases hu : s.updatePosition with
      | error f => rfl
      | ok s1 =>
        simp only [Except.map]
        have h0' : 0 ≤ (setFrac (s.frac - 1) s1).frac := by simp [setFrac]; linarith
        have hf' : ⌊(setFrac (s.frac - 1) s1).frac⌋₊ < fuel := by simp only [setFrac]; omega
        rw [ih _ h0' hf']
        simp only [setFrac]
        have : (updN ⌊s.frac - 1⌋₊ { s1 with frac := s.frac - 1 })
            = (updN ⌊s.frac - 1⌋₊ s1).map (setFrac (s.frac - 1)) := updN_setFrac _ _ _
        rw [this, Except.map_map']
        congr 1
        funext a
        simp only [setFrac]
        congr 1
        push_cast; ring
    · have hz : ⌊s.frac⌋₊ = 0 := Nat.floor_eq_zero.mpr (not_le.mp h1)
      simp only [lit_1, h1, if_false, hz, updN, Except.map]
      simp [setFrac_self]

/-! ### what `update_position` changes -/

theorem pushFrame_shape (s s1 : StaticSound ℝ) (h : s.pushFrameToResampler = .ok s1) :
    ∃ fo : Option (Frame ℝ), s1 = { s with resampler := s.resampler.pushFrame fo s.transport.position } := by
  unfold pushFrameToResampler at h
  by_cases hp : s.transport.playing
  · simp only [hp, if_true] at h
    cases hf : frameAtIndex s.transport.position s.frames s.slice with
    | error f => simp [hf] at h
    | ok fo => simp only [hf] at h; injection h with h; exact ⟨_, h.symm⟩
  · simp only [hp] at h; injection h with h; exact ⟨_, h.symm⟩

theorem updatePosition_shape (s s' : StaticSound ℝ) (h : s.updatePosition = .ok s') :
    ∃ (fo : Option (Frame ℝ)) (t : Transport) (c : SoundCore ℝ), (c = s.core ∨ c = s.core.markStopped) ∧
      s' = { s with resampler := s.resampler.pushFrame fo s.transport.position, transport := t, core := c } := by
  unfold updatePosition at h
  cases h1 : s.pushFrameToResampler with
  | error f => simp [h1] at h
  | ok s1 =>
    obtain ⟨fo, rfl⟩ := pushFrame_shape s s1 h1
    simp only [h1] at h
    cases h2 : moveTransport { s with resampler := s.resampler.pushFrame fo s.transport.position } with
    | error f => simp [h2] at h
    | ok t =>
      simp only [h2] at h
      split at h
      · injection h with h; exact ⟨fo, t, _, Or.inr rfl, h.symm⟩
      · injection h with h; exact ⟨fo, t, _, Or.inl rfl, h.symm⟩

/-- the fields `update_position` never touches -/
structure SameConfig (s s' : StaticSound ℝ) : Prop where
  cmds : s'.cmds = s.cmds
  sampleRate : s'.sampleRate = s.sampleRate
  frames : s'.frames = s.frames
  slice : s'.slice = s.slice
  reverse : s'.reverse = s.reverse
  frac : s'.frac = s.frac
  volume : s'.volume = s.volume
  playbackRate : s'.playbackRate = s.playbackRate
  panning : s'.panning = s.panning
  sharedPosition : s'.sharedPosition = s.sharedPosition
  fade : s'.core.psm.fade = s.core.psm.fade
  startTime : s'.core.startTime = s.core.startTime

theorem SameConfig.refl (s : StaticSound ℝ) : SameConfig s s := by constructor <;> rfl

theorem SameConfig.trans {a b c : StaticSound ℝ} (h1 : SameConfig a b) (h2 : SameConfig b c) : SameConfig a c := by
  constructor
  · rw [h2.cmds, h1.cmds]
  · rw [h2.sampleRate, h1.sampleRate]
  · rw [h2.frames, h1.frames]
  · rw [h2.slice, h1.slice]
  · rw [h2.reverse, h1.reverse]
  · rw [h2.frac, h1.frac]
  · rw [h2.volume, h1.volume]
  · rw [h2.playbackRate, h1.playbackRate]
  · rw [h2.panning, h1.panning]
  · rw [h2.sharedPosition, h1.sharedPosition]
  · rw [h2.fade, h1.fade]
  · rw [h2.startTime, h1.startTime]

theorem updatePosition_sameConfig (s s' : StaticSound ℝ) (h : s.updatePosition = .ok s') : SameConfig s s' := by
  obtain ⟨fo, t, c, hc, rfl⟩ := updatePosition_shape s s' h
  rcases hc with rfl | rfl <;> constructor <;> rfl

theorem updN_sameConfig : ∀ (k : Nat) (s s' : StaticSound ℝ), updN k s = .ok s' → SameConfig s s' := by
  intro k
  induction k with
  | zero => intro s s' h; injection h with h; subst h; exact SameConfig.refl s
  | succ k ih =>
    intro s s' h
    rw [updN_succ] at h
    cases hu : s.updatePosition with
    | error f => simp [hu] at h
    | ok s1 =>
      simp only [hu] at h
      exact (updatePosition_sameConfig s s1 hu).trans (ih s1 s' h)

theorem shade_sameConfig {s s' : StaticSound ℝ} (h : SameConfig s s') (t : ℝ) (f : Frame ℝ) :
    s'.shade t f = s.shade t f := by
  unfold shade Psm.interpolatedFadeVolume
  rw [h.volume, h.panning, h.fade]

theorem fracStep_sameConfig {s s' : StaticSound ℝ} (h : SameConfig s s') (t dt : ℝ) :
    s'.fracStep t dt = s.fracStep t dt := by
  unfold fracStep
  rw [h.sampleRate, h.playbackRate]

/-- one iteration of the render loop: emit the Hermite interpolation of the window at the current
    fraction, then take `⌊frac + step⌋` position steps and keep the fractional part -/
theorem renderFrame_spec (fuel : Nat) (s : StaticSound ℝ) (t dt : ℝ) (h0 : 0 ≤ s.frac + s.fracStep t dt)
    (hf : ⌊s.frac + s.fracStep t dt⌋₊ < fuel) :
    renderFrame fuel s t dt
      = (updN ⌊s.frac + s.fracStep t dt⌋₊ s).map (fun s' =>
          (setFrac (s.frac + s.fracStep t dt - (⌊s.frac + s.fracStep t dt⌋₊ : ℝ)) s',
           s.shade t (s.resampler.get s.frac))) := by
  unfold renderFrame
  have hs : ({ s with frac := s.frac + s.fracStep t dt } : StaticSound ℝ)
      = setFrac (s.frac + s.fracStep t dt) s := rfl
  rw [hs, stepPos_spec fuel _ (by simpa [setFrac] using h0) (by simpa [setFrac] using hf)]
  simp only [setFrac, r32_real]
  have := updN_setFrac (s.frac + s.fracStep t dt) ⌊s.frac + s.fracStep t dt⌋₊ s
  simp only [setFrac] at this
  rw [this]
  cases updN ⌊s.frac + s.fracStep t dt⌋₊ s <;> rfl

theorem renderLoop_succ (fuel : Nat) (dt : ℝ) (len k i : Nat) (s : StaticSound ℝ) :
    renderLoop fuel dt len (k + 1) i s
      = (match renderFrame fuel s (((i + 1 : Nat) : ℝ) / (len : ℝ)) dt with
         | .error f => .error f
         | .ok r => (match renderLoop fuel dt len k (i + 1) r.1 with
            | .error f => .error f
            | .ok r' => .ok (r'.1, r.2 :: r'.2))) := by
  rw [renderLoop]
  simp only [ofNat_real]
  cases renderFrame fuel s (((i + 1 : Nat) : ℝ) / (len : ℝ)) dt with
  | error f => rfl
  | ok r =>
    obtain ⟨s1, f⟩ := r
    simp only []
    cases renderLoop fuel dt len k (i + 1) s1 with
    | error f => rfl
    | ok r' => rfl

theorem floor_frac_bounds (x : ℝ) (hx : 0 ≤ x) : 0 ≤ x - (⌊x⌋₊ : ℝ) ∧ x - (⌊x⌋₊ : ℝ) < 1 := by
  have h1 := Nat.floor_le hx
  have h2 := Nat.lt_floor_add_one x
  constructor <;> linarith

/-- **position accumulation**: with a constant per-frame step `c ≥ 0`, `k` iterations of the render
    loop perform exactly `⌊frac + k·c⌋` position steps and leave the fractional part — faults
    included (both sides fail with the same fault at the same position step). -/
theorem renderLoop_steps (fuel : Nat) (dt : ℝ) (len : Nat) (c : ℝ) (hc : 0 ≤ c) :
    ∀ (k i : Nat) (s : StaticSound ℝ), (∀ t, s.fracStep t dt = c) → 0 ≤ s.frac → s.frac < 1 →
      ⌊s.frac + k * c⌋₊ < fuel →
      (renderLoop fuel dt len k i s).map Prod.fst
        = (updN ⌊s.frac + k * c⌋₊ s).map (setFrac (s.frac + k * c - (⌊s.frac + k * c⌋₊ : ℝ))) := by
  intro k
  induction k with
  | zero =>
    intro i s _ h0 h1 _
    have hz : ⌊s.frac⌋₊ = 0 := Nat.floor_eq_zero.mpr h1
    simp [renderLoop, hz, updN, Except.map, setFrac_self]
  | succ k ih =>
    intro i s hstep h0 h1 hfuel
    have hkc : 0 ≤ (k : ℝ) * c := mul_nonneg (Nat.cast_nonneg k) hc
    have hx0 : 0 ≤ s.frac + c := by positivity
    have hmono : ⌊s.frac + c⌋₊ ≤ ⌊s.frac + ((k + 1 : Nat) : ℝ) * c⌋₊ := by
      apply Nat.floor_mono; push_cast; nlinarith
    rw [renderLoop_succ, renderFrame_spec fuel s _ dt (by rw [hstep]; exact hx0) (by rw [hstep]; omega)]
    rw [hstep]
    -- split the position steps: ⌊frac + (k+1) c⌋ = ⌊x⌋ + ⌊(x - ⌊x⌋) + k c⌋ with x = frac + c
    have hb := floor_frac_bounds (s.frac + c) hx0
    have hsplit : ⌊s.frac + ((k + 1 : Nat) : ℝ) * c⌋₊
        = ⌊s.frac + c⌋₊ + ⌊(s.frac + c - (⌊s.frac + c⌋₊ : ℝ)) + k * c⌋₊ := by
      have : s.frac + ((k + 1 : Nat) : ℝ) * c
          = ((s.frac + c - (⌊s.frac + c⌋₊ : ℝ)) + k * c) + (⌊s.frac + c⌋₊ : ℝ) := by
        push_cast; ring
      rw [this, Nat.floor_add_natCast (by linarith [hb.1])]
      omega
    rw [hsplit, updN_add]
    cases hu : updN ⌊s.frac + c⌋₊ s with
    | error f => rfl
    | ok u1 =>
      simp only [Except.map]
      have hsc := updN_sameConfig _ _ _ hu
      have hstep1 : ∀ t, (setFrac (s.frac + c - (⌊s.frac + c⌋₊ : ℝ)) u1).fracStep t dt = c := by
        intro t
        have : (setFrac (s.frac + c - (⌊s.frac + c⌋₊ : ℝ)) u1).fracStep t dt = u1.fracStep t dt := rfl
        rw [this, fracStep_sameConfig hsc, hstep]
      have hih := ih (i + 1) (setFrac (s.frac + c - (⌊s.frac + c⌋₊ : ℝ)) u1) hstep1
        (by simpa [setFrac] using hb.1) (by simpa [setFrac] using hb.2) (by simp only [setFrac]; omega)
      rw [updN_setFrac] at hih
      have hfr : (setFrac (s.frac + c - (⌊s.frac + c⌋₊ : ℝ)) u1).frac = s.frac + c - (⌊s.frac + c⌋₊ : ℝ) := rfl
      rw [hfr] at hih
      cases hr : renderLoop fuel dt len k (i + 1) (setFrac (s.frac + c - (⌊s.frac + c⌋₊ : ℝ)) u1) with
      | error f =>
        rw [hr] at hih
        cases hu2 : updN ⌊s.frac + c - (⌊s.frac + c⌋₊ : ℝ) + k * c⌋₊ u1 with
        | error f2 => rw [hu2] at hih; simp only [Except.map] at hih ⊢; exact hih
        | ok u2 => rw [hu2] at hih; simp [Except.map] at hih
      | ok r' =>
        rw [hr] at hih
        cases hu2 : updN ⌊s.frac + c - (⌊s.frac + c⌋₊ : ℝ) + k * c⌋₊ u1 with
        | error f2 => rw [hu2] at hih; simp [Except.map] at hih
        | ok u2 =>
          rw [hu2] at hih
          simp only [Except.map] at hih ⊢
          injection hih with hih
          rw [hih]
          simp only [setFrac]
          congr 2
          push_cast; ring

/-! ### rate 1 on a device running at the sound's sample rate -/

/-- `k` position steps, collecting what the listener hears (window slot 1) before each step -/
noncomputable def walkOut : Nat → StaticSound ℝ → Except Fault (StaticSound ℝ × List (Frame ℝ))
  | 0, s => .ok (s, [])
  | k + 1, s =>
    match s.updatePosition with
    | .error f => .error f
    | .ok s' =>
      match walkOut k s' with
      | .error f => .error f
      | .ok r => .ok (r.1, s.resampler.f1.frame :: r.2)

theorem walkOut_succ (k : Nat) (s : StaticSound ℝ) :
    walkOut (k + 1) s = (match s.updatePosition with
      | .error f => .error f
      | .ok s' => (match walkOut k s' with
        | .error f => .error f
        | .ok r => .ok (r.1, s.resampler.f1.frame :: r.2))) := by
  rw [walkOut]

theorem neutralGain_sameConfig {s s' : StaticSound ℝ} (h : SameConfig s s') (hn : s.NeutralGain) : s'.NeutralGain := by
  unfold NeutralGain at *
  rw [h.volume, h.panning, h.fade]; exact hn

theorem resampler_get_zero (r : Resampler ℝ) : r.get 0 = r.f1.frame := by
  unfold Resampler.get; exact interpolateFrame_zero _ _ _ _

theorem renderLoop_rate1 (fuel : Nat) (hfuel : 2 ≤ fuel) (dt : ℝ) (len : Nat) :
    ∀ (k i : Nat) (s : StaticSound ℝ), s.NeutralGain → (∀ t, s.fracStep t dt = 1) → s.frac = 0 →
      renderLoop fuel dt len k i s = walkOut k s := by
  intro k
  induction k with
  | zero => intro i s _ _ _; rfl
  | succ k ih =>
    intro i s hn hstep hfr
    have h1 : ⌊s.frac + 1⌋₊ = 1 := by rw [hfr]; norm_num
    rw [renderLoop_succ, walkOut_succ,
      renderFrame_spec fuel s _ dt (by rw [hstep, hfr]; norm_num) (by rw [hstep, h1]; omega)]
    rw [hstep, h1, updN_succ]
    cases hu : s.updatePosition with
    | error f => rfl
    | ok u1 =>
      simp only [updN, Except.map]
      have hsc := updatePosition_sameConfig s u1 hu
      have hz : setFrac (s.frac + 1 - ((1 : ℕ) : ℝ)) u1 = u1 := by
        have : s.frac + 1 - ((1 : ℕ) : ℝ) = u1.frac := by rw [hsc.frac, hfr]; norm_num
        rw [this, setFrac_self]
      rw [hz, shade_neutral s hn, hfr, resampler_get_zero]
      have hstep1 : ∀ t, u1.fracStep t dt = 1 := fun t => by rw [fracStep_sameConfig hsc, hstep]
      rw [ih (i + 1) u1 (neutralGain_sameConfig hsc hn) hstep1 (by rw [hsc.frac, hfr])]

/-- the state of a sound that plays at a constant rate `r` with neutral gain, is in state Playing
    with an immediate start, and sits on a frame boundary -/
structure NeutralPlaying (s : StaticSound ℝ) (r : ℝ) : Prop where
  gain : s.NeutralGain
  rate : s.playbackRate.Rests r
  state : s.core.psm.state = .playing
  start : s.core.startTime = .immediate
  frac : s.frac = 0

theorem fracStep_rests (s : StaticSound ℝ) (r t dt : ℝ) (h : s.playbackRate.Rests r) :
    s.fracStep t dt = (s.sampleRate : ℝ) * |r| * dt := by
  unfold fracStep
  rw [(h.interp t).2]; simp

theorem gate_neutral (c : SoundCore ℝ) (dtc : ℝ) (info : Info ℝ) (hf : c.psm.fade.Rests 0)
    (hs : c.psm.state = .playing) (hst : c.startTime = .immediate) : c.gate dtc info = (c, true) := by
  obtain ⟨psm, st, sh⟩ := c
  obtain ⟨state, fade⟩ := psm
  simp only at hf hs hst
  subst hs hst
  unfold SoundCore.gate SoundCore.gateStart SoundCore.gatePsm Psm.update
  simp only [(hf.update tw32 dtc info).1, StartTime.update]
  simp [StartTime.isImmediate, Psm.playbackState, PlaybackState.isAdvancing]

/-- **one `process` call at rate ±1, device rate = sound rate**: the buffer receives exactly what
    `len` position steps make audible (window slot 1 before each step), nothing else changes. -/
theorem process_rate1 (fuel : Nat) (hfuel : 2 ≤ fuel) (s : StaticSound ℝ) (r dt : ℝ) (len : Nat) (info : Info ℝ)
    (h : s.NeutralPlaying r) (hunit : (s.sampleRate : ℝ) * |r| * dt = 1) :
    s.process fuel len dt info = walkOut len s := by
  unfold process
  have hg := gate_neutral s.core (dt * KOps.ofNat len) info h.gain.2.2 h.state h.start
  have hv := (h.gain.1.update tw32 (dt * KOps.ofNat len) info).1
  have hp := (h.gain.2.1.update tw32 (dt * KOps.ofNat len) info).1
  have hr := (h.rate.update tw64 (dt * KOps.ofNat len) info).1
  simp only [hg, hv, hp, hr, if_true]
  exact renderLoop_rate1 fuel hfuel dt len len 0 s h.gain
    (fun t => by rw [fracStep_rests s r t dt h.rate, hunit]) h.frac

/-! ### what is heard: the frames pushed into the window, in order -/

/-- the frame `push_frame_to_resampler` appends in state `s` (zero if it faults) -/
noncomputable def pushedFrame (s : StaticSound ℝ) : Frame ℝ :=
  match s.pushFrameToResampler with
  | .ok s1 => s1.resampler.f3.frame
  | .error _ => Frame.zero

/-- the `j`-th frame a listener hears from state `s` on (at rate ±1): the three frames already in
    the window, then whatever is pushed in the following states -/
noncomputable def heardAt (s : StaticSound ℝ) : Nat → Frame ℝ
  | 0 => s.resampler.f1.frame
  | 1 => s.resampler.f2.frame
  | 2 => s.resampler.f3.frame
  | j + 3 => match updN j s with
    | .ok sj => pushedFrame sj
    | .error _ => Frame.zero

theorem updatePosition_window (s s' : StaticSound ℝ) (h : s.updatePosition = .ok s') :
    s'.resampler.f0 = s.resampler.f1 ∧ s'.resampler.f1 = s.resampler.f2 ∧ s'.resampler.f2 = s.resampler.f3
      ∧ s'.resampler.f3.frame = pushedFrame s := by
  unfold updatePosition at h
  unfold pushedFrame
  cases h1 : s.pushFrameToResampler with
  | error f => simp [h1] at h
  | ok s1 =>
    obtain ⟨fo, rfl⟩ := pushFrame_shape s s1 h1
    simp only [h1] at h
    cases h2 : moveTransport { s with resampler := s.resampler.pushFrame fo s.transport.position } with
    | error f => simp [h2] at h
    | ok t =>
      simp only [h2] at h
      split at h <;> (injection h with h; subst h; exact ⟨rfl, rfl, rfl, rfl⟩)

theorem heardAt_step (s s' : StaticSound ℝ) (h : s.updatePosition = .ok s') (j : Nat) :
    heardAt s' j = heardAt s (j + 1) := by
  obtain ⟨_, w1, w2, w3⟩ := updatePosition_window s s' h
  match j with
  | 0 => simp [heardAt, w1]
  | 1 => simp [heardAt, w2]
  | 2 => simp [heardAt, w3, updN]
  | j + 3 =>
    show (match updN j s' with | .ok sj => pushedFrame sj | .error _ => Frame.zero)
      = (match updN (j + 1) s with | .ok sj => pushedFrame sj | .error _ => Frame.zero)
    rw [updN_succ, h]

/-- `walkOut` emits `heardAt s 0, heardAt s 1, …` -/
theorem walkOut_heard : ∀ (k : Nat) (s s' : StaticSound ℝ) (outs : List (Frame ℝ)),
    walkOut k s = .ok (s', outs) →
      updN k s = .ok s' ∧ outs.length = k ∧ ∀ j, j < k → outs[j]? = some (heardAt s j) := by
  intro k
  induction k with
  | zero =>
    intro s s' outs h
    simp only [walkOut] at h
    injection h with h; injection h with h1 h2
    subst h1 h2
    exact ⟨rfl, rfl, fun j hj => by omega⟩
  | succ k ih =>
    intro s s' outs h
    rw [walkOut_succ] at h
    cases hu : s.updatePosition with
    | error f => simp [hu] at h
    | ok s1 =>
      simp only [hu] at h
      cases hw : walkOut k s1 with
      | error f => simp [hw] at h
      | ok r =>
        obtain ⟨s2, outs'⟩ := r
        simp only [hw] at h
        injection h with h; injection h with h1 h2
        subst h1 h2
        obtain ⟨a, b, c⟩ := ih s1 s2 outs' hw
        refine ⟨by rw [updN_succ, hu]; exact a, by simp [b], ?_⟩
        intro j hj
        match j with
        | 0 => simp [heardAt]
        | j + 1 =>
          simp only [List.getElem?_cons_succ]
          rw [c j (by omega), heardAt_step s s1 hu]

/-- a freshly primed sound (three position steps from `init`) makes audible exactly the frames
    pushed from the initial transport position on — no latency -/
theorem heardAt_primed (s0 s : StaticSound ℝ) (h : updN 3 s0 = .ok s) (j : Nat) :
    heardAt s j = (match updN j s0 with | .ok sj => pushedFrame sj | .error _ => Frame.zero) := by
  have h3 : updN 3 s0 = (match s0.updatePosition with
      | .error f => .error f
      | .ok a => (match a.updatePosition with
        | .error f => .error f
        | .ok b => (match b.updatePosition with
          | .error f => .error f
          | .ok c => .ok c))) := by
    rw [updN_succ]
    cases s0.updatePosition with
    | error f => rfl
    | ok a =>
      simp only []
      rw [updN_succ]
      cases a.updatePosition with
      | error f => rfl
      | ok b =>
        simp only []
        rw [updN_succ]
        cases b.updatePosition with
        | error f => rfl
        | ok c => rfl
  rw [h3] at h
  cases ha : s0.updatePosition with
  | error f => simp [ha] at h
  | ok a =>
    simp only [ha] at h
    cases hb : a.updatePosition with
    | error f => simp [hb] at h
    | ok b =>
      simp only [hb] at h
      cases hc : b.updatePosition with
      | error f => simp [hc] at h
      | ok c =>
        simp only [hc] at h
        injection h with h; subst h
        rw [heardAt_step b c hc, heardAt_step a b hb, heardAt_step s0 a ha]
        show (match updN j s0 with | .ok sj => pushedFrame sj | .error _ => Frame.zero) = _
        rfl

theorem heardAt_updN : ∀ (k : Nat) (s s' : StaticSound ℝ), updN k s = .ok s' → ∀ j, heardAt s' j = heardAt s (j + k) := by
  intro k
  induction k with
  | zero => intro s s' h j; injection h with h; subst h; rfl
  | succ k ih =>
    intro s s' h j
    rw [updN_succ] at h
    cases hu : s.updatePosition with
    | error f => simp [hu] at h
    | ok s1 =>
      simp only [hu] at h
      rw [ih s1 s' h j, heardAt_step s s1 hu]
      congr 1

/-! ### the window holds zeros once it has drained -/

/-- the last `4 − time_until_empty` pushes were "no frame": those slots hold zeros -/
structure ResDrained (r : Resampler ℝ) : Prop where
  le4 : r.timeUntilEmpty ≤ 4
  s3 : r.timeUntilEmpty ≤ 3 → r.f3.frame = Frame.zero
  s2 : r.timeUntilEmpty ≤ 2 → r.f2.frame = Frame.zero
  s1 : r.timeUntilEmpty ≤ 1 → r.f1.frame = Frame.zero
  s0 : r.timeUntilEmpty = 0 → r.f0.frame = Frame.zero

theorem new_drained (i : Nat) : ResDrained (Resampler.new i : Resampler ℝ) := by
  constructor <;> simp [Resampler.new]

theorem pushFrame_drained (r : Resampler ℝ) (h : ResDrained r) (fo : Option (Frame ℝ)) (i : Nat) :
    ResDrained (r.pushFrame fo i) := by
  cases fo with
  | some f => constructor <;> simp [Resampler.pushFrame]
  | none =>
    have := h.le4
    constructor
    · simp [Resampler.pushFrame]; omega
    · intro _; simp [Resampler.pushFrame]
    · intro hh; simp only [Resampler.pushFrame] at hh ⊢; exact h.s3 (by omega)
    · intro hh; simp only [Resampler.pushFrame] at hh ⊢; exact h.s2 (by omega)
    · intro hh; simp only [Resampler.pushFrame] at hh ⊢; exact h.s1 (by omega)

/-- life-cycle invariant of a sound that is only ever stopped by its natural end -/
structure EndInv (s : StaticSound ℝ) : Prop where
  drained : ResDrained s.resampler
  state : s.core.psm.state = .playing ∨ s.core.psm.state = .stopped
  dead : s.core.psm.state = .stopped → s.transport.playing = false ∧ s.resampler.timeUntilEmpty = 0

theorem moveTransport_stopped (s : StaticSound ℝ) (t : Transport) (hp : s.transport.playing = false)
    (h : s.moveTransport = .ok t) : t = s.transport := by
  unfold moveTransport at h
  split at h
  · rw [Transport.decrement_stopped _ hp] at h; injection h with h; exact h.symm
  · cases hn : numFrames s.frames.size s.slice with
    | error f => simp [hn] at h
    | ok n => simp only [hn] at h; rw [Transport.increment_stopped _ _ hp] at h; injection h with h; exact h.symm

theorem updatePosition_endInv (s s' : StaticSound ℝ) (hi : s.EndInv) (h : s.updatePosition = .ok s') : s'.EndInv := by
  unfold updatePosition at h
  cases h1 : s.pushFrameToResampler with
  | error f => simp [h1] at h
  | ok s1 =>
    obtain ⟨fo, rfl⟩ := pushFrame_shape s s1 h1
    simp only [h1] at h
    cases h2 : moveTransport { s with resampler := s.resampler.pushFrame fo s.transport.position } with
    | error f => simp [h2] at h
    | ok t =>
      simp only [h2] at h
      have hd := pushFrame_drained s.resampler hi.drained fo s.transport.position
      by_cases hc : (!t.playing && (s.resampler.pushFrame fo s.transport.position).empty) = true
      · have hc' := hc
        simp only [Bool.and_eq_true, Bool.not_eq_true', Resampler.empty, beq_iff_eq] at hc'
        simp only [hc, if_true] at h
        injection h with h; subst h
        exact ⟨hd, Or.inr rfl, fun _ => ⟨hc'.1, hc'.2⟩⟩
      · simp only [hc] at h
        injection h with h; subst h
        refine ⟨hd, hi.state, fun hst => ?_⟩
        -- already stopped before: nothing was playing, the push was "no frame", so the test above holds
        exfalso
        obtain ⟨hp, he⟩ := hi.dead hst
        have hfo : fo = none := by
          unfold pushFrameToResampler at h1
          simp only [hp] at h1
          injection h1 with h1
          have : (s.resampler.pushFrame none s.transport.position) = (s.resampler.pushFrame fo s.transport.position) := by
            have := congrArg StaticSound.resampler h1; simpa using this
          cases fo with
          | none => rfl
          | some f => have := congrArg Resampler.timeUntilEmpty this; simp [Resampler.pushFrame, he] at this
        have ht := moveTransport_stopped _ t (by simpa using hp) h2
        apply hc
        simp [ht, hp, hfo, Resampler.pushFrame, Resampler.empty, he]

theorem updN_endInv : ∀ (k : Nat) (s s' : StaticSound ℝ), s.EndInv → updN k s = .ok s' → s'.EndInv := by
  intro k
  induction k with
  | zero => intro s s' hi h; injection h with h; subst h; exact hi
  | succ k ih =>
    intro s s' hi h
    rw [updN_succ] at h
    cases hu : s.updatePosition with
    | error f => simp [hu] at h
    | ok s1 => simp only [hu] at h; exact ih s1 s' (updatePosition_endInv s s1 hi hu) h

/-- a drained, ended sound: silence for ever -/
theorem heardAt_dead (s : StaticSound ℝ) (hi : s.EndInv) (hp : s.transport.playing = false)
    (he : s.resampler.timeUntilEmpty = 0) : ∀ j, heardAt s j = Frame.zero := by
  have hstay : ∀ (k : Nat) (a b : StaticSound ℝ), a.transport.playing = false → updN k a = .ok b →
      b.transport.playing = false := by
    intro k
    induction k with
    | zero => intro a b ha h; injection h with h; subst h; exact ha
    | succ k ih =>
      intro a b ha h
      rw [updN_succ] at h
      cases hu : a.updatePosition with
      | error f => simp [hu] at h
      | ok a1 =>
        simp only [hu] at h
        refine ih a1 b ?_ h
        unfold updatePosition at hu
        cases h1 : a.pushFrameToResampler with
        | error f => simp [h1] at hu
        | ok a2 =>
          obtain ⟨fo, rfl⟩ := pushFrame_shape a a2 h1
          simp only [h1] at hu
          cases h2 : moveTransport { a with resampler := a.resampler.pushFrame fo a.transport.position } with
          | error f => simp [h2] at hu
          | ok t =>
            simp only [h2] at hu
            have ht := moveTransport_stopped _ t (by simpa using ha) h2
            split at hu <;> (injection hu with hu; subst hu; simp [ht, ha])
  intro j
  match j with
  | 0 => exact hi.drained.s1 (by omega)
  | 1 => exact hi.drained.s2 (by omega)
  | 2 => exact hi.drained.s3 (by omega)
  | j + 3 =>
    show (match updN j s with | .ok sj => pushedFrame sj | .error _ => Frame.zero) = Frame.zero
    cases hu : updN j s with
    | error f => rfl
    | ok sj =>
      have := hstay j s sj hp hu
      simp only [pushedFrame, pushFrameToResampler, this]
      simp [Resampler.pushFrame]

/-! ### any chunk partition at rate ±1 -/

/-- a sequence of `process` calls with the given buffer lengths -/
def chunkOps (dt : ℝ) (info : Info ℝ) (lens : List Nat) : List (Op ℝ) := lens.map (fun L => .process L dt info)

theorem gate_stopped (c : SoundCore ℝ) (dtc : ℝ) (info : Info ℝ) (hf : c.psm.fade.Rests 0)
    (hs : c.psm.state = .stopped) (hst : c.startTime = .immediate) : c.gate dtc info = (c, false) := by
  obtain ⟨psm, st, sh⟩ := c
  obtain ⟨state, fade⟩ := psm
  simp only at hf hs hst
  subst hs hst
  unfold SoundCore.gate SoundCore.gateStart SoundCore.gatePsm Psm.update
  simp only [(hf.update tw32 dtc info).1, StartTime.update]
  simp [StartTime.isImmediate, Psm.playbackState, PlaybackState.isAdvancing]

theorem process_stopped (fuel : Nat) (s : StaticSound ℝ) (r dt : ℝ) (len : Nat) (info : Info ℝ)
    (hg : s.NeutralGain) (hr : s.playbackRate.Rests r) (hs : s.core.psm.state = .stopped)
    (hst : s.core.startTime = .immediate) :
    s.process fuel len dt info = .ok (s, List.replicate len Frame.zero) := by
  unfold process
  have hgate := gate_stopped s.core (dt * KOps.ofNat len) info hg.2.2 hs hst
  have hv := (hg.1.update tw32 (dt * KOps.ofNat len) info).1
  have hp := (hg.2.1.update tw32 (dt * KOps.ofNat len) info).1
  have hr' := (hr.update tw64 (dt * KOps.ofNat len) info).1
  simp only [hgate, hv, hp, hr']
  simp

theorem run_cons (fuel : Nat) (s : StaticSound ℝ) (op : Op ℝ) (ops : List (Op ℝ)) :
    s.run fuel (op :: ops) = (match s.step fuel op with
      | .error f => .error f
      | .ok r => (match run fuel r.1 ops with
        | .error f => .error f
        | .ok r' => .ok (r'.1, r.2 ++ r'.2))) := by
  rw [run]
  cases s.step fuel op with
  | error f => rfl
  | ok r =>
    obtain ⟨a, b⟩ := r
    simp only []
    cases run fuel a ops with
    | error f => rfl
    | ok r' => rfl

/-- **rate ±1, device rate = sound rate, any partition into buffers**: the `j`-th frame written is
    `heardAt s j` — the window content, then the frames pushed at the following transport
    positions; after the natural end exact zeros. -/
theorem rate1_run (fuel : Nat) (hfuel : 2 ≤ fuel) (r dt : ℝ) (info : Info ℝ) :
    ∀ (lens : List Nat) (s s' : StaticSound ℝ) (outs : List (Frame ℝ)),
      s.NeutralGain → s.playbackRate.Rests r → s.core.startTime = .immediate → s.frac = 0 → s.EndInv →
      (s.sampleRate : ℝ) * |r| * dt = 1 →
      s.run fuel (chunkOps dt info lens) = .ok (s', outs) →
      outs.length = lens.sum ∧ ∀ j, j < lens.sum → outs[j]? = some (heardAt s j) := by
  intro lens
  induction lens with
  | nil =>
    intro s s' outs _ _ _ _ _ _ h
    simp only [chunkOps, List.map_nil, run] at h
    injection h with h; injection h with h1 h2; subst h2
    exact ⟨rfl, fun j hj => by simp at hj⟩
  | cons L lens ih =>
    intro s s' outs hg hr hst hfr hi hunit h
    simp only [chunkOps, List.map_cons] at h
    rw [run_cons] at h
    simp only [step] at h
    -- the first buffer
    have key : ∃ s1 o1, s.process fuel L dt info = .ok (s1, o1) ∧ o1.length = L
        ∧ (∀ j, j < L → o1[j]? = some (heardAt s j))
        ∧ (∀ j, heardAt s1 j = heardAt s (j + L))
        ∧ s1.NeutralGain ∧ s1.playbackRate.Rests r ∧ s1.core.startTime = .immediate ∧ s1.frac = 0 ∧ s1.EndInv
        ∧ s1.sampleRate = s.sampleRate := by
      rcases hi.state with hpl | hstop
      · rw [process_rate1 fuel hfuel s r dt L info ⟨hg, hr, hpl, hst, hfr⟩ hunit] at h ⊢
        cases hw : walkOut L s with
        | error f => simp [hw] at h
        | ok r1 =>
          obtain ⟨s1, o1⟩ := r1
          obtain ⟨hu, hl, hh⟩ := walkOut_heard L s s1 o1 hw
          have hsc := updN_sameConfig L s s1 hu
          refine ⟨s1, o1, rfl, hl, hh, heardAt_updN L s s1 hu, neutralGain_sameConfig hsc hg, ?_, ?_, ?_,
            updN_endInv L s s1 hi hu, hsc.sampleRate⟩
          · rw [hsc.playbackRate]; exact hr
          · rw [hsc.startTime]; exact hst
          · rw [hsc.frac]; exact hfr
      · obtain ⟨hp, he⟩ := hi.dead hstop
        have hz := heardAt_dead s hi hp he
        refine ⟨s, List.replicate L Frame.zero, process_stopped fuel s r dt L info hg hr hstop hst, by simp, ?_,
          fun j => by rw [hz j, hz (j + L)], hg, hr, hst, hfr, hi, rfl⟩
        intro j hj
        rw [hz j]; simp [hj]
    obtain ⟨s1, o1, hp1, hl1, hh1, hshift, hg1, hr1, hst1, hfr1, hi1, hsr1⟩ := key
    rw [hp1] at h
    simp only [] at h
    cases hrest : run fuel s1 (chunkOps dt info lens) with
    | error f => simp [chunkOps] at hrest; simp [hrest] at h
    | ok r2 =>
      obtain ⟨s2, o2⟩ := r2
      have hrest' := hrest
      simp only [chunkOps] at hrest'
      simp only [hrest'] at h
      injection h with h; injection h with h1 h2; subst h1 h2
      obtain ⟨hl2, hh2⟩ := ih s1 s2 o2 hg1 hr1 hst1 hfr1 hi1 (by rw [hsr1]; exact hunit) hrest
      refine ⟨by simp [hl1, hl2], ?_⟩
      intro j hj
      by_cases hjL : j < L
      · rw [List.getElem?_append_left (by omega)]; exact hh1 j hjL
      · rw [List.getElem?_append_right (by omega), hl1, hh2 (j - L) (by simp at hj; omega), hshift]
        congr 2; omega

/-! ### what is pushed: the source frame under the play head -/

/-- `num_frames` of the sound: the frames of the slice that exist (the slice clamped to the data; an
    inverted slice, or one that starts at or past the end of the data, has none) -/
def nFrames (s : StaticSound ℝ) : Nat :=
  match s.slice with
  | some (a, b) => min b s.frames.size - a
  | none => s.frames.size

/-- first frame of the slice in the data -/
def sliceStart (s : StaticSound ℝ) : Nat :=
  match s.slice with
  | some (a, _) => a
  | none => 0

/-- `num_frames` never fails, whatever the slice -/
theorem numFrames_ok (s : StaticSound ℝ) : numFrames s.frames.size s.slice = .ok s.nFrames := by
  unfold numFrames nFrames
  cases hs : s.slice with
  | none => rfl
  | some ab => obtain ⟨a, b⟩ := ab; rfl

/-- the sound lies inside the data, whatever the slice: `slice start + num_frames ≤ frames.len()` (or
    the sound is empty) -/
theorem nFrames_inside (s : StaticSound ℝ) (i : Nat) (hi : i < s.nFrames) : i + s.sliceStart < s.frames.size := by
  unfold nFrames sliceStart at *
  cases hs : s.slice with
  | none => simp only [hs] at hi ⊢; omega
  | some ab => obtain ⟨a, b⟩ := ab; simp only [hs] at hi ⊢; omega

/-- **never outside the slice**: for ANY slice a lookup never faults, returns a frame only for an index
    inside the sound, and that frame is the data frame at `slice start + index`, which lies inside the
    data and in `[slice start, slice end)`. -/
theorem frameAtIndex_ok (s : StaticSound ℝ) (i : Nat) :
    (i < s.nFrames → ∃ f, frameAtIndex i s.frames s.slice = .ok (some f) ∧ s.frames[i + s.sliceStart]? = some f
        ∧ i + s.sliceStart < s.frames.size)
    ∧ (s.nFrames ≤ i → frameAtIndex i s.frames s.slice = .ok none) := by
  unfold frameAtIndex
  rw [numFrames_ok s]
  unfold nFrames sliceStart
  cases hs : s.slice with
  | none =>
    simp only []
    constructor
    · intro hi
      have hnot : ¬ s.frames.size ≤ i := by omega
      simp only [hnot, if_false]
      exact ⟨s.frames[i], by simp [hi], by simp [hi], by omega⟩
    · intro hi; simp [hi]
  | some ab =>
    obtain ⟨a, b⟩ := ab
    simp only []
    constructor
    · intro hi
      have hnot : ¬ min b s.frames.size - a ≤ i := by omega
      have hlt : i + a < s.frames.size := by omega
      simp only [hnot, if_false]
      exact ⟨s.frames[i + a], by simp [hlt], by simp [hlt], hlt⟩
    · intro hi; simp [hi]

/-- the source frame under the play head `t` (zero once the transport has ended or when the index
    is not inside the sound) -/
noncomputable def sourceAt (s : StaticSound ℝ) (t : Transport) : Frame ℝ :=
  if t.playing ∧ t.position < s.nFrames then (s.frames[t.position + s.sliceStart]?).getD Frame.zero
  else Frame.zero

theorem pushedFrame_eq (s : StaticSound ℝ) : pushedFrame s = sourceAt s s.transport := by
  unfold pushedFrame pushFrameToResampler sourceAt
  by_cases hp : s.transport.playing = true
  · simp only [hp, if_true, true_and]
    by_cases hi : s.transport.position < s.nFrames
    · obtain ⟨f, hf, hg, _⟩ := (frameAtIndex_ok s s.transport.position).1 hi
      simp [hf, hi, hg, Resampler.pushFrame]
    · have := (frameAtIndex_ok s s.transport.position).2 (by omega)
      simp [this, hi, Resampler.pushFrame]
  · simp [hp, Resampler.pushFrame]

/-- one step of the play head in the sound's direction of travel -/
def stepDir (bw : Bool) (n : Nat) (t : Transport) : Except Fault Transport :=
  if bw then t.decrement else t.increment n

/-- `k` steps of the play head -/
def walk (bw : Bool) (n : Nat) : Nat → Transport → Except Fault Transport
  | 0, t => .ok t
  | k + 1, t => match stepDir bw n t with
    | .error f => .error f
    | .ok t' => walk bw n k t'

theorem updatePosition_transport (s s' : StaticSound ℝ) (h : s.updatePosition = .ok s') :
    stepDir s.isPlayingBackwards s.nFrames s.transport = .ok s'.transport := by
  unfold updatePosition at h
  cases h1 : s.pushFrameToResampler with
  | error f => simp [h1] at h
  | ok s1 =>
    obtain ⟨fo, rfl⟩ := pushFrame_shape s s1 h1
    simp only [h1] at h
    have hm : moveTransport { s with resampler := s.resampler.pushFrame fo s.transport.position }
        = stepDir s.isPlayingBackwards s.nFrames s.transport := by
      unfold moveTransport stepDir
      have : isPlayingBackwards { s with resampler := s.resampler.pushFrame fo s.transport.position }
          = s.isPlayingBackwards := rfl
      rw [this]
      simp only [numFrames_ok s]
    rw [hm] at h
    cases h2 : stepDir s.isPlayingBackwards s.nFrames s.transport with
    | error f => simp [h2] at h
    | ok t =>
      simp only [h2] at h
      split at h <;> (injection h with h; subst h; rfl)

theorem updN_transport : ∀ (k : Nat) (s s' : StaticSound ℝ), updN k s = .ok s' →
    walk s.isPlayingBackwards s.nFrames k s.transport = .ok s'.transport := by
  intro k
  induction k with
  | zero => intro s s' h; injection h with h; subst h; rfl
  | succ k ih =>
    intro s s' h
    rw [updN_succ] at h
    cases hu : s.updatePosition with
    | error f => simp [hu] at h
    | ok s1 =>
      simp only [hu] at h
      have hsc := updatePosition_sameConfig s s1 hu
      have hbw : s1.isPlayingBackwards = s.isPlayingBackwards := by
        unfold isPlayingBackwards; rw [hsc.playbackRate, hsc.reverse]
      have hn : s1.nFrames = s.nFrames := by unfold nFrames; rw [hsc.slice, hsc.frames]
      have := ih s1 s' h
      rw [hbw, hn] at this
      rw [walk, updatePosition_transport s s1 hu]
      exact this

/-! ### in-domain sounds never fault -/

/-- a valid (or no) loop region — ANY slice, any start position, either direction (an empty or inverted
    loop region is dropped by `Transport::new` / `set_loop_region`: `Transport.validLoop`) -/
def InDomain (s : StaticSound ℝ) : Prop := s.transport.ValidLoop s.nFrames

theorem stepDir_total (bw : Bool) (n : Nat) (t : Transport) (hv : t.ValidLoop n) :
    ∃ t', stepDir bw n t = .ok t' ∧ t'.ValidLoop n := by
  unfold stepDir
  cases bw with
  | true =>
    obtain ⟨t', h1, h2⟩ := Transport.decrement_total t n hv
    exact ⟨t', by simpa using h1, by unfold Transport.ValidLoop; rw [h2]; exact hv⟩
  | false =>
    obtain ⟨t', h1, h2⟩ := Transport.increment_total t n hv
    exact ⟨t', by simpa using h1, by unfold Transport.ValidLoop; rw [h2]; exact hv⟩

theorem pushFrame_total (s : StaticSound ℝ) : ∃ s1, s.pushFrameToResampler = .ok s1 := by
  unfold pushFrameToResampler
  by_cases hp : s.transport.playing = true
  · simp only [hp, if_true]
    by_cases hi : s.transport.position < s.nFrames
    · obtain ⟨f, hf, _, _⟩ := (frameAtIndex_ok s s.transport.position).1 hi
      simp [hf]
    · have := (frameAtIndex_ok s s.transport.position).2 (by omega)
      simp [this]
  · simp [hp]

theorem updatePosition_total (s : StaticSound ℝ) (h : s.InDomain) : ∃ s', s.updatePosition = .ok s' ∧ s'.InDomain := by
  have hv : s.transport.ValidLoop s.nFrames := h
  obtain ⟨s1, h1⟩ := pushFrame_total s
  obtain ⟨fo, rfl⟩ := pushFrame_shape s s1 h1
  obtain ⟨t', ht, hv'⟩ := stepDir_total s.isPlayingBackwards s.nFrames s.transport hv
  have hm : moveTransport { s with resampler := s.resampler.pushFrame fo s.transport.position } = .ok t' := by
    unfold moveTransport
    have : isPlayingBackwards { s with resampler := s.resampler.pushFrame fo s.transport.position }
        = s.isPlayingBackwards := rfl
    rw [this]
    simp only [numFrames_ok s]
    exact ht
  unfold updatePosition
  simp only [h1, hm]
  split
  · exact ⟨_, rfl, hv'⟩
  · exact ⟨_, rfl, hv'⟩

theorem updN_total : ∀ (k : Nat) (s : StaticSound ℝ), s.InDomain → ∃ s', updN k s = .ok s' ∧ s'.InDomain := by
  intro k
  induction k with
  | zero => intro s h; exact ⟨s, rfl, h⟩
  | succ k ih =>
    intro s h
    obtain ⟨s1, h1, hd1⟩ := updatePosition_total s h
    obtain ⟨s2, h2, hd2⟩ := ih s1 hd1
    exact ⟨s2, by rw [updN_succ, h1]; exact h2, hd2⟩

/-! ### every sound that can be built plays without a fault -/

theorem stepDir_total' (bw : Bool) (n : Nat) (t : Transport) (hv : t.LoopOk) :
    ∃ t', stepDir bw n t = .ok t' ∧ t'.LoopOk := by
  unfold stepDir
  cases bw with
  | true =>
    obtain ⟨t', h1, h2⟩ := Transport.decrement_total' t hv
    exact ⟨t', by simpa using h1, by unfold Transport.LoopOk; rw [h2]; exact hv⟩
  | false =>
    obtain ⟨t', h1, h2⟩ := Transport.increment_total' t n hv
    exact ⟨t', by simpa using h1, by unfold Transport.LoopOk; rw [h2]; exact hv⟩

theorem updatePosition_total' (s : StaticSound ℝ) (hv : s.transport.LoopOk) :
    ∃ s', s.updatePosition = .ok s' ∧ s'.transport.LoopOk := by
  obtain ⟨s1, h1⟩ := pushFrame_total s
  obtain ⟨fo, rfl⟩ := pushFrame_shape s s1 h1
  obtain ⟨t', ht, hv'⟩ := stepDir_total' s.isPlayingBackwards s.nFrames s.transport hv
  have hm : moveTransport { s with resampler := s.resampler.pushFrame fo s.transport.position } = .ok t' := by
    unfold moveTransport
    have : isPlayingBackwards { s with resampler := s.resampler.pushFrame fo s.transport.position }
        = s.isPlayingBackwards := rfl
    rw [this]
    simp only [numFrames_ok s]
    exact ht
  unfold updatePosition
  simp only [h1, hm]
  split
  · exact ⟨_, rfl, hv'⟩
  · exact ⟨_, rfl, hv'⟩

theorem updN_total' : ∀ (k : Nat) (s : StaticSound ℝ), s.transport.LoopOk →
    ∃ s', updN k s = .ok s' ∧ s'.transport.LoopOk := by
  intro k
  induction k with
  | zero => intro s h; exact ⟨s, rfl, h⟩
  | succ k ih =>
    intro s h
    obtain ⟨s1, h1, hd1⟩ := updatePosition_total' s h
    obtain ⟨s2, h2, hd2⟩ := ih s1 hd1
    exact ⟨s2, by rw [updN_succ, h1]; exact h2, hd2⟩

/-! ### the natural end -/

theorem updatePosition_playing (s : StaticSound ℝ) (hp : s.transport.playing = true)
    (t' : Transport) (ht : stepDir s.isPlayingBackwards s.nFrames s.transport = .ok t') :
    ∃ f, s.updatePosition = .ok { s with resampler := s.resampler.pushFrame (some f) s.transport.position,
                                         transport := t' } := by
  obtain ⟨s1, h1⟩ := pushFrame_total s
  have h1' := h1
  unfold pushFrameToResampler at h1'
  simp only [hp, if_true] at h1'
  cases hf : frameAtIndex s.transport.position s.frames s.slice with
  | error f => simp [hf] at h1'
  | ok fo =>
    simp only [hf] at h1'
    injection h1' with h1'
    refine ⟨fo.getD Frame.zero, ?_⟩
    unfold updatePosition
    rw [h1, ← h1']
    have hm : moveTransport { s with resampler := s.resampler.pushFrame (some (fo.getD Frame.zero)) s.transport.position }
        = .ok t' := by
      unfold moveTransport
      have : isPlayingBackwards { s with resampler := s.resampler.pushFrame (some (fo.getD Frame.zero)) s.transport.position }
          = s.isPlayingBackwards := rfl
      rw [this]
      simp only [numFrames_ok s]
      exact ht
    simp only [hm]
    simp [Resampler.pushFrame, Resampler.empty]

theorem updatePosition_ended (s : StaticSound ℝ) (hp : s.transport.playing = false) :
    s.updatePosition = .ok (if s.resampler.timeUntilEmpty - 1 = 0
      then { s with resampler := s.resampler.pushFrame none s.transport.position, core := s.core.markStopped }
      else { s with resampler := s.resampler.pushFrame none s.transport.position }) := by
  have ht : stepDir s.isPlayingBackwards s.nFrames s.transport = .ok s.transport := by
    unfold stepDir
    split
    · exact Transport.decrement_stopped _ hp
    · exact Transport.increment_stopped _ _ hp
  unfold updatePosition pushFrameToResampler
  simp only [hp]
  have hm : moveTransport { s with resampler := s.resampler.pushFrame none s.transport.position } = .ok s.transport := by
    unfold moveTransport
    have : isPlayingBackwards { s with resampler := s.resampler.pushFrame none s.transport.position }
        = s.isPlayingBackwards := rfl
    rw [this]
    simp only [numFrames_ok s]
    exact ht
  simp only [Bool.false_eq_true, if_false, hm, hp]
  by_cases he : s.resampler.timeUntilEmpty - 1 = 0
  · simp [he, Resampler.pushFrame, Resampler.empty]
  · simp [he, Resampler.pushFrame, Resampler.empty]

/-- the state is Stopped -/
def IsStopped (s : StaticSound ℝ) : Prop := s.core.psm.state = .stopped ∧ s.core.shared = .stopped

theorem markStopped_isStopped (c : SoundCore ℝ) : c.markStopped.psm.state = .stopped ∧ c.markStopped.shared = .stopped := by
  simp [SoundCore.markStopped, SoundCore.syncShared, Psm.markAsStopped, Psm.playbackState]

/-- **draining**: once the transport has ended with `e ≥ 1` frames still in the window, the sound
    keeps its state for `e − 1` more position steps and is Stopped after exactly `e`. -/
theorem drain : ∀ (e : Nat) (s : StaticSound ℝ), s.transport.playing = false →
    s.resampler.timeUntilEmpty = e → 1 ≤ e →
    (∃ s', updN e s = .ok s' ∧ s'.IsStopped) ∧ ∀ j, j < e → ∃ sj, updN j s = .ok sj ∧ sj.core = s.core := by
  intro e
  induction e with
  | zero => intro s _ _ h; omega
  | succ e ih =>
    intro s hp he _
    have hu := updatePosition_ended s hp
    by_cases h0 : e = 0
    · subst h0
      simp only [he] at hu
      simp only [if_true] at hu
      refine ⟨⟨{ s with resampler := s.resampler.pushFrame none s.transport.position, core := s.core.markStopped },
        by rw [updN_succ, hu]; rfl, markStopped_isStopped s.core⟩, fun j hj => ?_⟩
      have : j = 0 := by omega
      subst this; exact ⟨s, rfl, rfl⟩
    · have hne : ¬ (s.resampler.timeUntilEmpty - 1 = 0) := by omega
      simp only [hne, if_false] at hu
      have := ih { s with resampler := s.resampler.pushFrame none s.transport.position } hp
        (by simp [Resampler.pushFrame, he]) (by omega)
      obtain ⟨⟨s', h1, h2⟩, h3⟩ := this
      refine ⟨⟨s', by rw [updN_succ, hu]; exact h1, h2⟩, fun j hj => ?_⟩
      match j with
      | 0 => exact ⟨s, rfl, rfl⟩
      | j + 1 =>
        obtain ⟨sj, h4, h5⟩ := h3 j (by omega)
        exact ⟨sj, by rw [updN_succ, hu]; exact h4, h5⟩

/-- **forwards without a loop**: from play-head position `p` the transport ends after
    `max (n − p) 1` steps, and the sound is Stopped exactly 4 steps later — not earlier. -/
theorem forward_ends : ∀ (m : Nat) (s : StaticSound ℝ), s.transport.playing = true →
    s.transport.loopRegion = none → s.isPlayingBackwards = false →
    m = max (s.nFrames - s.transport.position) 1 →
    (∃ s', updN (m + 4) s = .ok s' ∧ s'.IsStopped) ∧ ∀ j, j < m + 4 → ∃ sj, updN j s = .ok sj ∧ sj.core = s.core := by
  intro m
  induction m with
  | zero => intro s _ _ _ h; omega
  | succ m ih =>
    intro s hp hl hbw hm
    have ht : stepDir s.isPlayingBackwards s.nFrames s.transport
        = .ok { s.transport with position := s.transport.position + 1,
                                 playing := decide (s.transport.position + 1 < s.nFrames) } := by
      unfold stepDir; simp only [hbw]; exact Transport.increment_noLoop _ _ hp hl
    obtain ⟨f, hu⟩ := updatePosition_playing s hp _ ht
    by_cases hend : s.transport.position + 1 < s.nFrames
    · -- still playing
      have hm' : m = max (s.nFrames - (s.transport.position + 1)) 1 := by omega
      have := ih { s with resampler := s.resampler.pushFrame (some f) s.transport.position,
                          transport := { s.transport with position := s.transport.position + 1,
                                                          playing := decide (s.transport.position + 1 < s.nFrames) } }
        (by simp [hend]) hl hbw hm'
      obtain ⟨⟨s', h1, h2⟩, h3⟩ := this
      refine ⟨⟨s', by rw [show m + 1 + 4 = (m + 4) + 1 by omega, updN_succ, hu]; exact h1, h2⟩, fun j hj => ?_⟩
      match j with
      | 0 => exact ⟨s, rfl, rfl⟩
      | j + 1 =>
        obtain ⟨sj, h4, h5⟩ := h3 j (by omega)
        exact ⟨sj, by rw [updN_succ, hu]; exact h4, h5⟩
    · -- this was the last frame: the transport has ended, 4 frames are in the window
      have hm0 : m = 0 := by omega
      subst hm0
      have := drain 4 { s with resampler := s.resampler.pushFrame (some f) s.transport.position,
                               transport := { s.transport with position := s.transport.position + 1,
                                                               playing := decide (s.transport.position + 1 < s.nFrames) } }
        (by simp [hend]) (by simp [Resampler.pushFrame]) (by omega)
      obtain ⟨⟨s', h1, h2⟩, h3⟩ := this
      refine ⟨⟨s', by rw [show 0 + 1 + 4 = 4 + 1 by omega, updN_succ, hu]; exact h1, h2⟩, fun j hj => ?_⟩
      match j with
      | 0 => exact ⟨s, rfl, rfl⟩
      | j + 1 =>
        obtain ⟨sj, h4, h5⟩ := h3 j (by omega)
        exact ⟨sj, by rw [updN_succ, hu]; exact h4, h5⟩

/-- **backwards without a loop**: from play-head position `p` the transport ends after `p + 1`
    steps (frame 0 is played), and the sound is Stopped exactly 4 steps later. -/
theorem backward_ends : ∀ (p : Nat) (s : StaticSound ℝ), s.transport.playing = true →
    s.transport.loopRegion = none → s.isPlayingBackwards = true → s.transport.position = p →
    (∃ s', updN (p + 1 + 4) s = .ok s' ∧ s'.IsStopped) ∧ ∀ j, j < p + 1 + 4 → ∃ sj, updN j s = .ok sj ∧ sj.core = s.core := by
  intro p
  induction p with
  | zero =>
    intro s hp hl hbw hpos
    have ht : stepDir s.isPlayingBackwards s.nFrames s.transport = .ok { s.transport with playing := false } := by
      unfold stepDir; simp only [hbw, if_true]
      rw [Transport.decrement_noLoop _ hp hl]; simp [hpos]
    obtain ⟨f, hu⟩ := updatePosition_playing s hp _ ht
    have := drain 4 { s with resampler := s.resampler.pushFrame (some f) s.transport.position,
                             transport := { s.transport with playing := false } }
      rfl (by simp [Resampler.pushFrame]) (by omega)
    obtain ⟨⟨s', h1, h2⟩, h3⟩ := this
    refine ⟨⟨s', by rw [show 0 + 1 + 4 = 4 + 1 by omega, updN_succ, hu]; exact h1, h2⟩, fun j hj => ?_⟩
    match j with
    | 0 => exact ⟨s, rfl, rfl⟩
    | j + 1 =>
      obtain ⟨sj, h4, h5⟩ := h3 j (by omega)
      exact ⟨sj, by rw [updN_succ, hu]; exact h4, h5⟩
  | succ p ih =>
    intro s hp hl hbw hpos
    have ht : stepDir s.isPlayingBackwards s.nFrames s.transport = .ok { s.transport with position := p } := by
      unfold stepDir; simp only [hbw, if_true]
      rw [Transport.decrement_noLoop _ hp hl]; simp [hpos]
    obtain ⟨f, hu⟩ := updatePosition_playing s hp _ ht
    have := ih { s with resampler := s.resampler.pushFrame (some f) s.transport.position,
                        transport := { s.transport with position := p } } hp hl hbw rfl
    obtain ⟨⟨s', h1, h2⟩, h3⟩ := this
    refine ⟨⟨s', by rw [show p + 1 + 1 + 4 = (p + 1 + 4) + 1 by omega, updN_succ, hu]; exact h1, h2⟩, fun j hj => ?_⟩
    match j with
    | 0 => exact ⟨s, rfl, rfl⟩
    | j + 1 =>
      obtain ⟨sj, h4, h5⟩ := h3 j (by omega)
      exact ⟨sj, by rw [updN_succ, hu]; exact h4, h5⟩

theorem updN_isStopped : ∀ (k : Nat) (s s' : StaticSound ℝ), s.IsStopped → updN k s = .ok s' → s'.IsStopped := by
  intro k
  induction k with
  | zero => intro s s' h hu; injection hu with hu; subst hu; exact h
  | succ k ih =>
    intro s s' h hu
    rw [updN_succ] at hu
    cases h1 : s.updatePosition with
    | error f => rw [h1] at hu; simp at hu
    | ok s1 =>
      rw [h1] at hu
      refine ih s1 s' ?_ hu
      obtain ⟨fo, t, c, hc, rfl⟩ := updatePosition_shape s s1 h1
      rcases hc with rfl | rfl
      · exact h
      · exact markStopped_isStopped s.core

/-- at a constant rate, once `k` output frames amount to at least `N` position steps and the sound
    is Stopped after `N` steps, it is Stopped after these `k` frames -/
theorem renderLoop_reaches_stopped (fuel : Nat) (dt : ℝ) (len : Nat) (c : ℝ) (hc : 0 ≤ c) (k i N : Nat)
    (s s' sN : StaticSound ℝ) (outs : List (Frame ℝ)) (hstep : ∀ t, s.fracStep t dt = c) (h0 : 0 ≤ s.frac)
    (h1 : s.frac < 1) (hfuel : ⌊s.frac + k * c⌋₊ < fuel) (hN : updN N s = .ok sN) (hst : sN.IsStopped)
    (hk : (N : ℝ) ≤ k * c) (h : renderLoop fuel dt len k i s = .ok (s', outs)) : s'.IsStopped := by
  have hsteps := renderLoop_steps fuel dt len c hc k i s hstep h0 h1 hfuel
  rw [h] at hsteps
  simp only [Except.map] at hsteps
  have hle : N ≤ ⌊s.frac + k * c⌋₊ := Nat.le_floor (by linarith)
  obtain ⟨d, hd⟩ := Nat.exists_eq_add_of_le hle
  rw [hd, updN_add, hN] at hsteps
  simp only [] at hsteps
  cases hu : updN d sN with
  | error f => rw [hu] at hsteps; simp [Except.map] at hsteps
  | ok s2 =>
    rw [hu] at hsteps
    simp only [Except.map] at hsteps
    injection hsteps with hsteps
    rw [hsteps]
    exact updN_isStopped d sN s2 hst hu

/-! ### a freshly built sound -/

/-- settings that leave the source untouched: 0 dB, centre, no fade-in, immediate start, fixed rate `r` -/
structure NeutralSettings (d : StaticSoundData ℝ) (r : ℝ) : Prop where
  volume : d.settings.volume = .fixed 0
  panning : d.settings.panning = .fixed 0
  rate : d.settings.playbackRate = .fixed r
  fadeIn : d.settings.fadeInTween = none
  start : d.settings.startTime = .immediate

theorem init_shape (d : StaticSoundData ℝ) (s0 : StaticSound ℝ) (h : init d = .ok s0) :
    ∃ n t, numFrames d.frames.size d.slice = .ok n
      ∧ Transport.new (d.settings.startPosition.intoSamples d.sampleRate)
          (d.settings.loopRegion.map (fun r => r.toSamples d.sampleRate n)) d.settings.reverse n = .ok t
      ∧ s0.transport = t ∧ s0.frames = d.frames ∧ s0.slice = d.slice ∧ s0.sampleRate = d.sampleRate
      ∧ s0.reverse = d.settings.reverse ∧ s0.frac = 0
      ∧ s0.resampler = Resampler.new t.position
      ∧ s0.core = SoundCore.new d.settings.startTime d.settings.fadeInTween
      ∧ s0.volume = Parameter.new d.settings.volume 0
      ∧ s0.playbackRate = Parameter.new d.settings.playbackRate 1
      ∧ s0.panning = Parameter.new d.settings.panning 0
      ∧ s0.sharedPosition = (t.position : ℝ) / (d.sampleRate : ℝ) := by
  unfold init at h
  cases hn : numFrames d.frames.size d.slice with
  | error f => simp [hn] at h
  | ok n =>
    simp only [hn] at h
    cases ht : Transport.new (d.settings.startPosition.intoSamples d.sampleRate)
        (d.settings.loopRegion.map (fun r => r.toSamples d.sampleRate n)) d.settings.reverse n with
    | error f => simp [ht] at h
    | ok t =>
      simp only [ht] at h
      injection h with h; subst h
      refine ⟨n, t, rfl, ht, rfl, rfl, rfl, rfl, rfl, by simp, rfl, rfl, ?_, ?_, ?_, by simp⟩
      · simp [Psm.identityDb]
      · simp
      · simp

theorem init_neutral (d : StaticSoundData ℝ) (r : ℝ) (hn : NeutralSettings d r) (s0 : StaticSound ℝ)
    (h : init d = .ok s0) :
    s0.NeutralGain ∧ s0.playbackRate.Rests r ∧ s0.core.startTime = .immediate ∧ s0.frac = 0 ∧ s0.EndInv := by
  obtain ⟨n, t, _, _, _, _, _, _, _, hfr, hres, hcore, hv, hr, hp, _⟩ := init_shape d s0 h
  refine ⟨⟨?_, ?_, ?_⟩, ?_, ?_, hfr, ⟨?_, ?_, ?_⟩⟩
  · rw [hv, hn.volume]; exact Parameter.new_fixed_rests 0 0
  · rw [hp, hn.panning]; exact Parameter.new_fixed_rests 0 0
  · rw [hcore, hn.fadeIn]
    simp only [SoundCore.new, Psm.new, Psm.identityDb, lit_0]
    exact Parameter.new_fixed_rests 0 0
  · rw [hr, hn.rate]; exact Parameter.new_fixed_rests r 1
  · rw [hcore, hn.start]; rfl
  · rw [hres]; exact new_drained _
  · rw [hcore]; left; rfl
  · rw [hcore]; intro hst; simp [SoundCore.new, Psm.new] at hst

theorem new_eq_updN (d : StaticSoundData ℝ) (s0 s : StaticSound ℝ) (h0 : init d = .ok s0) (h : StaticSound.new d = .ok s) :
    updN 3 s0 = .ok s := by
  unfold StaticSound.new at h
  simp only [h0] at h
  rw [updN_succ]
  cases ha : s0.updatePosition with
  | error f => simp [ha] at h
  | ok a =>
    simp only [ha] at h ⊢
    rw [updN_succ]
    cases hb : a.updatePosition with
    | error f => simp [hb] at h
    | ok b =>
      simp only [hb] at h ⊢
      rw [updN_succ]
      cases hc : b.updatePosition with
      | error f => simp [hc] at h
      | ok c => simp only [hc] at h ⊢; injection h with h; subst h; rfl

/-- `StaticSound::new` before the priming never fails, for ANY data (any slice, start position,
    direction, loop region; empty data included), and starts with a non-empty loop region or none -/
theorem init_total (d : StaticSoundData ℝ) : ∃ s0, init d = .ok s0 ∧ s0.transport.LoopOk := by
  have hn : ∃ n, numFrames d.frames.size d.slice = .ok n := by
    unfold numFrames
    cases d.slice with
    | none => exact ⟨_, rfl⟩
    | some ab => obtain ⟨a, b⟩ := ab; exact ⟨_, rfl⟩
  obtain ⟨n, hn⟩ := hn
  unfold init
  simp only [hn, Transport.new]
  exact ⟨_, rfl, Transport.loopOk_of_validLoop _ _ _⟩

/-- `StaticSound::new` (three priming steps included) never fails, for ANY data -/
theorem new_total (d : StaticSoundData ℝ) :
    ∃ s0 s, init d = .ok s0 ∧ StaticSound.new d = .ok s ∧ updN 3 s0 = .ok s ∧ s.transport.LoopOk := by
  obtain ⟨s0, h0, hv⟩ := init_total d
  obtain ⟨s, h3, hv3⟩ := updN_total' 3 s0 hv
  refine ⟨s0, s, h0, ?_, h3, hv3⟩
  unfold StaticSound.new
  simp only [h0]
  rw [updN_succ] at h3
  cases ha : s0.updatePosition with
  | error f => simp [ha] at h3
  | ok a =>
    simp only [ha] at h3 ⊢
    rw [updN_succ] at h3
    cases hb : a.updatePosition with
    | error f => simp [hb] at h3
    | ok b =>
      simp only [hb] at h3 ⊢
      rw [updN_succ] at h3
      cases hc : b.updatePosition with
      | error f => simp [hc] at h3
      | ok c => simp only [hc] at h3 ⊢; exact h3

end StaticSound
end K
