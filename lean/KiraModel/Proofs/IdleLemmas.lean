/-
  IdleLemmas.lean — "no commands in flight" (C11): when nothing is pending (no command written, no
  resource in a ring, no handle dropped, no sound finished) and `on_start_processing` of the components
  does not change their audio state, `Renderer::on_start_processing` does nothing — so whole device
  callbacks (on_start_processing + process) are as partition-independent as the chunk loop.  Over ℝ.
-/
import KiraModel.Proofs.ResizeLemmas
import KiraModel.Proofs.TrackLifeLemmas

set_option linter.unusedSectionVars false

namespace K

theorem map_id_of {β : Type} (f : β → β) (l : List β) (h : ∀ x ∈ l, f x = x) : l.map f = l := by
  induction l with
  | nil => rfl
  | cons x xs ih => simp [h x (by simp), ih (fun y hy => h y (by simp [hy]))]

@[simp] theorem readCommand_none (p : Parameter ℝ ℝ) : readCommand p none = p := rfl

section
variable {S E P X : Type} (C : Comps ℝ S E P) (V : EnvOps ℝ X)

/-- `on_start_processing` of sounds / effects leaves them as they are, and no sound finishes -/
structure Comps.StartNeutral (C : Comps ℝ S E P) : Prop where
  snd : ∀ s, C.sndStart s = s
  fx : ∀ e, C.fxStart e = e
  never : ∀ s, C.sndFinished s = false

/-- `on_start_processing` leaves the sounds satisfying `IS` / the effects satisfying `IE` as they are, and no
    such sound is finished (the invariant-relative form of `StartNeutral`) -/
structure Comps.StartNeutralOn (C : Comps ℝ S E P) (IS : S → Prop) (IE : E → Prop) : Prop where
  snd : ∀ s, IS s → C.sndStart s = s
  fx : ∀ e, IE e → C.fxStart e = e
  never : ∀ s, IS s → C.sndFinished s = false

theorem Comps.StartNeutral.on (h : C.StartNeutral) : C.StartNeutralOn (fun _ => True) (fun _ => True) :=
  ⟨fun s _ => h.snd s, fun e _ => h.fx e, fun s _ => h.never s⟩

/-- no command written, no sound in the ring, handle alive -/
def TrkData.Idle (d : TrkData ℝ S E P) : Prop :=
  d.cmdVolume = none ∧ d.cmdPause = none ∧ d.cmdResume = none ∧ (∀ r ∈ d.routes, r.cmd = none)
    ∧ d.pendingSounds = [] ∧ d.marked = false

mutual
def Trk.Idle : Trk ℝ S E P → Prop
  | .node d children pending => d.Idle ∧ pending = [] ∧ Trk.IdleList children
def Trk.IdleList : List (Trk ℝ S E P) → Prop
  | [] => True
  | t :: ts => Trk.Idle t ∧ Trk.IdleList ts
end

/-! ### scenes without spatial tracks

  The spatial part of `Track::read_commands` is the hook `Comps.spStart` (run by `Trk.onStart`) and the
  spatialisation is `Comps.spStep`: the C11 statements are about scenes WITHOUT spatial tracks
  (`TrkData.Settled` demands `spatial = none`; with a moving listener buffer-size invariance is false bit-wise,
  see notes/C15.md), so the hooks never run.  `NoSpatial` is that exclusion on its own: it is kept by
  rendering and by `on_start_processing`, whatever else happens to the tracks. -/

mutual
/-- no track of the subtree (the track, its children in the arena) is a spatial track -/
def Trk.NoSpatial : Trk ℝ S E P → Prop
  | .node d children _ => d.spatial = none ∧ Trk.NoSpatialList children
def Trk.NoSpatialList : List (Trk ℝ S E P) → Prop
  | [] => True
  | t :: ts => Trk.NoSpatial t ∧ Trk.NoSpatialList ts
end

/-- no sub-track in the arena, at any depth, is a spatial track -/
def Mixer.NoSpatial (m : Mixer ℝ S E P) : Prop := Trk.NoSpatialList m.subTracks

theorem Trk.Settled.noSpatial (t : Trk ℝ S E P) : Trk.Settled t → Trk.NoSpatial t := by
  refine Trk.rec (motive_1 := fun t => Trk.Settled t → Trk.NoSpatial t)
    (motive_2 := fun ts => Trk.SettledList ts → Trk.NoSpatialList ts) ?_ ?_ ?_ t
  · intro d c p ihc _ h; exact ⟨h.1.2.2.2, ihc h.2⟩
  · intro _; trivial
  · intro t ts iht ihts h; exact ⟨iht h.1, ihts h.2⟩

theorem Trk.SettledList.noSpatial (ts : List (Trk ℝ S E P)) (h : Trk.SettledList ts) : Trk.NoSpatialList ts := by
  induction ts with
  | nil => trivial
  | cons t ts ih => exact ⟨Trk.Settled.noSpatial t h.1, ih h.2⟩

/-- a settled mixer (`Mixer.Settled`, part of `Renderer.Quiet`) has no spatial track -/
theorem Mixer.Settled.noSpatial {m : Mixer ℝ S E P} (h : Mixer.Settled m) : Mixer.NoSpatial m :=
  Trk.SettledList.noSpatial _ h.subs

theorem Trk.readCommands_idle (d : TrkData ℝ S E P) (h : d.Idle) : Trk.readCommands d = d := by
  obtain ⟨h1, h2, h3, h4, _, _⟩ := h
  have hr : d.routes.map (fun (r : Route ℝ) => ({ r with volume := readCommand r.volume r.cmd, cmd := none } : Route ℝ)) = d.routes := by
    apply map_id_of
    intro r hr
    have := h4 r hr
    cases r; simp only at this; subst this; rfl
  unfold Trk.readCommands
  rw [hr, h1]
  simp only [readCommand_none, h2, h3]
  cases d; simp_all

theorem Trk.idle_not_removable (t : Trk ℝ S E P) (h : Trk.Idle t) : Trk.shouldBeRemoved t = false := by
  cases t with
  | node d c p =>
    cases hr : Trk.shouldBeRemoved (.node d c p) with
    | false => rfl
    | true =>
      have := ((Trk.shouldBeRemoved_iff d c p).mp hr).1
      rw [h.1.2.2.2.2.2] at this; cases this

theorem filter_not_finished_on {IS : S → Prop} (fin : S → Bool) (l : List S) (h : ∀ s ∈ l, IS s)
    (hf : ∀ s, IS s → fin s = false) : l.filter (fun x => !fin x) = l := by
  rw [List.filter_eq_self]; intro s hs; simp [hf s (h s hs)]

theorem Trk.onStart_idle_on {IS : S → Prop} {IE : E → Prop} (hN : C.StartNeutralOn IS IE) (t : Trk ℝ S E P) :
    Trk.Idle t → Trk.NoSpatial t → Trk.CompsOk IS IE t → Trk.onStart C t = t := by
  refine Trk.rec (motive_1 := fun t => Trk.Idle t → Trk.NoSpatial t → Trk.CompsOk IS IE t → Trk.onStart C t = t)
    (motive_2 := fun ts => Trk.IdleList ts → Trk.NoSpatialList ts → Trk.CompsOkList IS IE ts →
      Trk.onStartKept C ts = ts) ?_ ?_ ?_ t
  · intro d children pending ihc _ h hns hc
    obtain ⟨hd, hp, hcl⟩ := h
    obtain ⟨hdc, hcc⟩ := hc
    subst hp
    rw [Trk.onStart, Trk.readCommands_idle d hd, ihc hcl hns.2 hcc]
    have hs : (removeAndAdd C.sndFinished d.sounds d.pendingSounds).map C.sndStart = d.sounds := by
      rw [hd.2.2.2.2.1]
      simp only [removeAndAdd, List.reverse_nil, List.nil_append]
      rw [filter_not_finished_on C.sndFinished d.sounds hdc.1 hN.never]
      exact map_id_of _ _ (fun s hs => hN.snd s (hdc.1 s hs))
    have he : d.effects.map C.fxStart = d.effects := map_id_of _ _ (fun e he => hN.fx e (hdc.2 e he))
    rw [hs, he]
    have hps := hd.2.2.2.2.1
    have hsp : d.spatial.map C.spStart = d.spatial := by rw [hns.1]; rfl
    rw [hsp]
    simp only [Trk.onStartList, List.reverse_nil, List.nil_append]
    cases d; simp_all
  · intro _ _ _; simp [Trk.onStartKept]
  · intro t ts iht ihts h hns hc
    rw [Trk.onStartKept, Trk.idle_not_removable t h.1]
    simp [iht h.1 hns.1 hc.1, ihts h.2 hns.2 hc.2]

theorem Trk.onStartKept_idle_on {IS : S → Prop} {IE : E → Prop} (hN : C.StartNeutralOn IS IE) (ts : List (Trk ℝ S E P))
    (h : Trk.IdleList ts) (hns : Trk.NoSpatialList ts) (hc : Trk.CompsOkList IS IE ts) : Trk.onStartKept C ts = ts := by
  induction ts with
  | nil => simp [Trk.onStartKept]
  | cons t ts ih =>
    rw [Trk.onStartKept, Trk.idle_not_removable t h.1]
    simp [Trk.onStart_idle_on C hN t h.1 hns.1 hc.1, ih h.2 hns.2 hc.2]

theorem Trk.onStart_idle (hN : C.StartNeutral) (t : Trk ℝ S E P) (h : Trk.Idle t) (hns : Trk.NoSpatial t) :
    Trk.onStart C t = t :=
  Trk.onStart_idle_on C (Comps.StartNeutral.on C hN) t h hns (Trk.compsOk_true t)

theorem Trk.onStartKept_idle (hN : C.StartNeutral) (ts : List (Trk ℝ S E P)) (h : Trk.IdleList ts)
    (hns : Trk.NoSpatialList ts) : Trk.onStartKept C ts = ts :=
  Trk.onStartKept_idle_on C (Comps.StartNeutral.on C hN) ts h hns (Trk.compsOkList_true ts)

/-- nothing in flight anywhere in the mixer -/
structure Mixer.Idle (m : Mixer ℝ S E P) : Prop where
  subs : Trk.IdleList m.subTracks
  pending : m.pendingSubTracks = []
  pendingSends : m.pendingSendTracks = []
  sends : ∀ s ∈ m.sendTracks, s.marked = false ∧ s.cmdVolume = none
  main : m.main.cmdVolume = none ∧ m.main.pendingSounds = []

/-- **`on_start_processing` does nothing when nothing is in flight** (invariant-relative) -/
theorem Mixer.onStart_idle_on {IS : S → Prop} {IE : E → Prop} (hN : C.StartNeutralOn IS IE) (m : Mixer ℝ S E P)
    (h : Mixer.Idle m) (hns : Mixer.NoSpatial m) (hc : Mixer.CompsOk IS IE m) : m.onStart C = m := by
  unfold Mixer.onStart
  have h1 : (Trk.onStartList C m.pendingSubTracks).reverse ++ Trk.onStartKept C m.subTracks = m.subTracks := by
    rw [h.pending, Trk.onStartKept_idle_on C hN _ h.subs hns hc.subs]; simp [Trk.onStartList]
  have h2 : (removeAndAdd (fun s : SendTrk ℝ E => s.marked) m.sendTracks m.pendingSendTracks).map (SendTrk.onStart C)
      = m.sendTracks := by
    rw [h.pendingSends]
    simp only [removeAndAdd, List.reverse_nil, List.nil_append]
    have : m.sendTracks.filter (fun x => !x.marked) = m.sendTracks := by
      rw [List.filter_eq_self]; intro s hs; simp [(h.sends s hs).1]
    rw [this]
    conv => rhs; rw [← List.map_id m.sendTracks]
    apply List.map_congr_left
    intro s hs
    unfold SendTrk.onStart
    have he : s.effects.map C.fxStart = s.effects := map_id_of _ _ (fun e he => hN.fx e (hc.sends s hs e he))
    have hcm := (h.sends s hs).2
    rw [he, hcm]
    cases s; simp_all
  have h3 : m.main.onStart C = m.main := by
    unfold MainTrk.onStart
    have hs : (removeAndAdd C.sndFinished m.main.sounds m.main.pendingSounds).map C.sndStart = m.main.sounds := by
      rw [h.main.2]
      simp only [removeAndAdd, List.reverse_nil, List.nil_append]
      rw [filter_not_finished_on C.sndFinished m.main.sounds hc.mainS hN.never]
      exact map_id_of _ _ (fun s hs => hN.snd s (hc.mainS s hs))
    have he : m.main.effects.map C.fxStart = m.main.effects := map_id_of _ _ (fun e he => hN.fx e (hc.mainE e he))
    have hcm := h.main.1
    have hp := h.main.2
    rw [hs, he, hcm]
    cases hm : m.main; simp_all
  rw [h1, h2, h3]
  have hp := h.pending
  have hps := h.pendingSends
  cases m; simp_all

/-- **`on_start_processing` does nothing when nothing is in flight** -/
theorem Mixer.onStart_idle (hN : C.StartNeutral) (m : Mixer ℝ S E P) (h : Mixer.Idle m) (hns : Mixer.NoSpatial m) :
    m.onStart C = m :=
  Mixer.onStart_idle_on C (Comps.StartNeutral.on C hN) m h hns (Mixer.compsOk_true m)

/-! rendering keeps "nothing in flight" -/

theorem Trk.preUpdate_idle (dt : ℝ) (info : Info ℝ) (n : Nat) (d : TrkData ℝ S E P) (h : d.Idle) :
    (Trk.preUpdate dt info n d).Idle := by
  obtain ⟨h1, h2, h3, h4, h5, h6⟩ := h
  unfold Trk.preUpdate Trk.publish; dsimp only
  split <;> refine ⟨h1, h2, h3, ?_, h5, h6⟩ <;>
  · intro r hr
    simp only [List.mem_map] at hr
    obtain ⟨r0, hr0, rfl⟩ := hr
    exact h4 r0 hr0

theorem Trk.spec_idle (t : Trk ℝ S E P) :
    ∀ (dt : ℝ) (pinfo : Info ℝ) (n : Nat) (sends : List (SendTrk ℝ E)), Trk.Idle t →
      Trk.Idle (Trk.spec C dt pinfo n t sends).1 := by
  refine Trk.rec
    (motive_1 := fun t => ∀ (dt : ℝ) (pinfo : Info ℝ) (n : Nat) (sends : List (SendTrk ℝ E)), Trk.Idle t →
      Trk.Idle (Trk.spec C dt pinfo n t sends).1)
    (motive_2 := fun ts => ∀ (dt : ℝ) (info : Info ℝ) (n : Nat) (sends : List (SendTrk ℝ E)), Trk.IdleList ts →
      Trk.IdleList (Trk.specChildren C dt info n ts sends).1) ?_ ?_ ?_ t
  · intro d children pending ihc _ dt pinfo n sends h
    obtain ⟨hd, hp, hc⟩ := h
    have hd2 := Trk.preUpdate_idle dt (Trk.trackInfo C d pinfo) n d hd
    rw [Trk.spec]; dsimp only
    split
    · exact ⟨hd2, hp, hc⟩
    · unfold Trk.specPost; exact ⟨hd2, hp, ihc dt _ n sends hc⟩
  · intro dt info n sends _; simp [Trk.specChildren, Trk.IdleList]
  · intro t ts iht ihts dt info n sends h
    rw [Trk.specChildren]; exact ⟨iht dt info n sends h.1, ihts dt info n _ h.2⟩

theorem Trk.specChildren_idle (ts : List (Trk ℝ S E P)) (dt : ℝ) (info : Info ℝ) (n : Nat)
    (sends : List (SendTrk ℝ E)) (h : Trk.IdleList ts) : Trk.IdleList (Trk.specChildren C dt info n ts sends).1 := by
  induction ts generalizing sends with
  | nil => simp [Trk.specChildren, Trk.IdleList]
  | cons t ts ih => rw [Trk.specChildren]; exact ⟨Trk.spec_idle C t dt info n sends h.1, ih _ h.2⟩

theorem Mixer.spec_idle (m : Mixer ℝ S E P) (n : Nat) (dt : ℝ) (info : Info ℝ) (h : Mixer.Idle m) :
    Mixer.Idle (Mixer.spec C m n dt info).1 := by
  have hcore := Trk.specChildren_core C m.subTracks dt info n m.sendTracks
  refine ⟨Trk.specChildren_idle C _ dt info n _ h.subs, h.pending, h.pendingSends, ?_, h.main⟩
  intro s hs
  simp only [Mixer.spec, specSends, List.map_map, List.mem_map] at hs
  obtain ⟨s0, hs0, rfl⟩ := hs
  have hmem : SendTrk.core s0 ∈ m.sendTracks.map SendTrk.core := by rw [← hcore]; exact List.mem_map_of_mem hs0
  obtain ⟨s1, hs1, e⟩ := List.mem_map.mp hmem
  have e1 : s0.marked = s1.marked := by have := congrArg SendTrk.marked e; simpa [SendTrk.core] using this.symm
  have e2 : s0.cmdVolume = s1.cmdVolume := by have := congrArg SendTrk.cmdVolume e; simpa [SendTrk.core] using this.symm
  simp only [Function.comp, SendTrk.process]
  exact ⟨by rw [e1]; exact (h.sends s1 hs1).1, by rw [e2]; exact (h.sends s1 hs1).2⟩

/-! rendering keeps "no spatial track" -/

theorem Trk.preUpdate_spatial (dt : ℝ) (info : Info ℝ) (n : Nat) (d : TrkData ℝ S E P) :
    (Trk.preUpdate dt info n d).spatial = d.spatial := by
  unfold Trk.preUpdate Trk.publish; dsimp only
  split <;> rfl

theorem Trk.spec_noSpatial (t : Trk ℝ S E P) :
    ∀ (dt : ℝ) (pinfo : Info ℝ) (n : Nat) (sends : List (SendTrk ℝ E)), Trk.NoSpatial t →
      Trk.NoSpatial (Trk.spec C dt pinfo n t sends).1 := by
  refine Trk.rec
    (motive_1 := fun t => ∀ (dt : ℝ) (pinfo : Info ℝ) (n : Nat) (sends : List (SendTrk ℝ E)), Trk.NoSpatial t →
      Trk.NoSpatial (Trk.spec C dt pinfo n t sends).1)
    (motive_2 := fun ts => ∀ (dt : ℝ) (info : Info ℝ) (n : Nat) (sends : List (SendTrk ℝ E)), Trk.NoSpatialList ts →
      Trk.NoSpatialList (Trk.specChildren C dt info n ts sends).1) ?_ ?_ ?_ t
  · intro d children pending ihc _ dt pinfo n sends h
    obtain ⟨hd, hc⟩ := h
    have hd2 : (Trk.preUpdate dt (Trk.trackInfo C d pinfo) n d).spatial = none := by
      rw [Trk.preUpdate_spatial]; exact hd
    rw [Trk.spec]; dsimp only
    split
    · exact ⟨hd2, hc⟩
    · unfold Trk.specPost
      refine ⟨?_, ihc dt _ n sends hc⟩
      show (Trk.spatialStage C dt _ n (Trk.preUpdate dt (Trk.trackInfo C d pinfo) n d).spatial _).1 = none
      rw [hd2]; rfl
  · intro dt info n sends _; simp [Trk.specChildren, Trk.NoSpatialList]
  · intro t ts iht ihts dt info n sends h
    rw [Trk.specChildren]; exact ⟨iht dt info n sends h.1, ihts dt info n _ h.2⟩

theorem Trk.specChildren_noSpatial (ts : List (Trk ℝ S E P)) (dt : ℝ) (info : Info ℝ) (n : Nat)
    (sends : List (SendTrk ℝ E)) (h : Trk.NoSpatialList ts) :
    Trk.NoSpatialList (Trk.specChildren C dt info n ts sends).1 := by
  induction ts generalizing sends with
  | nil => simp [Trk.specChildren, Trk.NoSpatialList]
  | cons t ts ih => rw [Trk.specChildren]; exact ⟨Trk.spec_noSpatial C t dt info n sends h.1, ih _ h.2⟩

theorem Mixer.spec_noSpatial (m : Mixer ℝ S E P) (n : Nat) (dt : ℝ) (info : Info ℝ) (h : Mixer.NoSpatial m) :
    Mixer.NoSpatial (Mixer.spec C m n dt info).1 :=
  Trk.specChildren_noSpatial C _ dt info n _ h

theorem Trk.resize_noSpatial (k : Nat) (t : Trk ℝ S E P) : Trk.NoSpatial t → Trk.NoSpatial (Trk.resize k t) := by
  refine Trk.rec (motive_1 := fun t => Trk.NoSpatial t → Trk.NoSpatial (Trk.resize k t))
    (motive_2 := fun ts => Trk.NoSpatialList ts → Trk.NoSpatialList (Trk.resizeList k ts)) ?_ ?_ ?_ t
  · intro d c p ihc _ h; rw [Trk.resize]; exact ⟨h.1, ihc h.2⟩
  · intro _; simp [Trk.resizeList, Trk.NoSpatialList]
  · intro t ts iht ihts h; rw [Trk.resizeList]; exact ⟨iht h.1, ihts h.2⟩

theorem Trk.resize_idle (k : Nat) (t : Trk ℝ S E P) : Trk.Idle t → Trk.Idle (Trk.resize k t) := by
  refine Trk.rec (motive_1 := fun t => Trk.Idle t → Trk.Idle (Trk.resize k t))
    (motive_2 := fun ts => Trk.IdleList ts → Trk.IdleList (Trk.resizeList k ts)) ?_ ?_ ?_ t
  · intro d c p ihc _ h
    obtain ⟨hd, hp, hc⟩ := h
    subst hp
    rw [Trk.resize]; exact ⟨hd, by simp [Trk.resizeList], ihc hc⟩
  · intro _; simp [Trk.resizeList, Trk.IdleList]
  · intro t ts iht ihts h; rw [Trk.resizeList]; exact ⟨iht h.1, ihts h.2⟩

theorem Mixer.resize_idle (k : Nat) (m : Mixer ℝ S E P) (h : Mixer.Idle m) : Mixer.Idle (Mixer.resize k m) := by
  have hl : ∀ ts : List (Trk ℝ S E P), Trk.IdleList ts → Trk.IdleList (Trk.resizeList k ts) := by
    intro ts hts
    induction ts with
    | nil => simp [Trk.resizeList, Trk.IdleList]
    | cons t ts ih => rw [Trk.resizeList]; exact ⟨Trk.resize_idle k t hts.1, ih hts.2⟩
  refine ⟨hl _ h.subs, by simp [Mixer.resize, h.pending, Trk.resizeList], by simp [Mixer.resize, h.pendingSends], ?_, h.main⟩
  intro s hs
  simp only [Mixer.resize, List.mem_map] at hs
  obtain ⟨s0, hs0, rfl⟩ := hs
  exact h.sends s0 hs0

/-! whole device callbacks -/

/-- a sequence of whole device callbacks: `on_start_processing`, then `process` -/
noncomputable def Renderer.runDeviceCallbacks (ch : Nat) : Renderer ℝ S E P X → List Nat → Renderer ℝ S E P X × List ℝ
  | r, [] => (r, [])
  | r, f :: fs =>
    let c := Renderer.processLoop C V ch f (r.onStart C V) f
    let rest := Renderer.runDeviceCallbacks ch c.1 fs
    (rest.1, c.2 ++ rest.2)

theorem Renderer.specChunks_idle (hC : C.LenPres) (ch : Nat) (ns : List Nat) :
    ∀ (r : Renderer ℝ S E P X), Mixer.Idle r.mixer → Mixer.Idle (Renderer.specChunks C V ch r ns).1.mixer := by
  induction ns with
  | nil => intro r h; exact h
  | cons n ns ih =>
    intro r h
    simp only [Renderer.specChunks]
    exact ih _ (Mixer.spec_idle C r.mixer n r.dt _ h)

theorem Renderer.specChunks_noSpatial (ch : Nat) (ns : List Nat) :
    ∀ (r : Renderer ℝ S E P X), Mixer.NoSpatial r.mixer → Mixer.NoSpatial (Renderer.specChunks C V ch r ns).1.mixer := by
  induction ns with
  | nil => intro r h; exact h
  | cons n ns ih =>
    intro r h
    simp only [Renderer.specChunks]
    exact ih _ (Mixer.spec_noSpatial C r.mixer n r.dt _ h)

/-- with nothing in flight, whole device callbacks are just the `process` calls (invariant-relative) -/
theorem Renderer.runDeviceCallbacks_eq_on {IS : S → Prop} {IE : E → Prop} {IX : X → Prop} {B : Nat} {dt : ℝ}
    (hC : C.LenPres) (hH : C.ChunkHomOn IS IE B dt) (hV : V.StaticOn IX)
    (hVs : ∀ e, IX e → V.start e = e) (hN : C.StartNeutralOn IS IE) (ch : Nat) (cbs : List Nat) :
    ∀ (r : Renderer ℝ S E P X), r.QuietOn IS IE IX B dt → Mixer.Idle r.mixer →
      Renderer.runDeviceCallbacks C V ch r cbs = Renderer.runCallbacks C V ch r cbs := by
  induction cbs with
  | nil => intro r _ _; rfl
  | cons f fs ih =>
    intro r hq hi
    have hos : r.onStart C V = r := by
      unfold Renderer.onStart; rw [Mixer.onStart_idle_on C hN r.mixer hi hq.quiet.2.noSpatial hq.comps, hVs _ hq.env]
    have hb := chunkSizes_bound f r.ibs f
    obtain ⟨h1, _⟩ := Renderer.runChunks_spec C V hC ch r hq.quiet.1 _ (fun n hn => (hb n hn).1)
    have q := Renderer.specChunks_quiet_on C V hC hH hV ch _ r hq (fun n hn => (hb n hn).1)
    have hi' := Renderer.specChunks_idle C V hC ch (chunkSizes f r.ibs f) r hi
    simp only [Renderer.runDeviceCallbacks, Renderer.runCallbacks, hos]
    have hloop : Renderer.processLoop C V ch f r f = Renderer.specChunks C V ch r (chunkSizes f r.ibs f) := by
      rw [Renderer.processLoop_eq, h1]
    rw [ih _ (hloop ▸ q) (hloop ▸ hi')]

/-- with nothing in flight, whole device callbacks are just the `process` calls -/
theorem Renderer.runDeviceCallbacks_eq (hC : C.LenPres) (hH : ∀ dt, C.ChunkHom dt) (hV : V.Static)
    (hVs : ∀ e, V.start e = e) (hN : C.StartNeutral) (ch : Nat) (cbs : List Nat)
    (r : Renderer ℝ S E P X) (hq : r.Quiet) (hi : Mixer.Idle r.mixer) :
      Renderer.runDeviceCallbacks C V ch r cbs = Renderer.runCallbacks C V ch r cbs :=
  Renderer.runDeviceCallbacks_eq_on C V hC (Comps.ChunkHom.on C (hH r.dt) r.ibs) (EnvOps.Static.on V hV)
    (fun e _ => hVs e) (Comps.StartNeutral.on C hN) ch cbs r (Renderer.Quiet.on r hq) hi

end
end K
