/-
  PartitionLemmas.lean — from the chunk homomorphism to partition invariance of the renderer (C11):
  any two lists of chunk lengths with the same total render the same samples and reach the same state.
-/
import KiraModel.Proofs.ChunkLemmas

set_option linter.unusedSectionVars false

namespace K

section
variable {S E P X : Type} (C : Comps ℝ S E P) (V : EnvOps ℝ X)

/-- nothing in the environment moves (no clock ticking, no modulator, no listener): "all parameters
    constant" -/
def EnvOps.Static (V : EnvOps ℝ X) : Prop := ∀ e x, V.step e x = e

/-- the renderer invariant of C11: clean scratch buffers, every parameter settled -/
def Renderer.Quiet (r : Renderer ℝ S E P X) : Prop := r.Clean ∧ Mixer.Settled r.mixer

theorem Renderer.specChunk_static (hV : V.Static) (r : Renderer ℝ S E P X) (n ch : Nat) :
    r.specChunk C V n ch
      = ({ r with mixer := (Mixer.spec C r.mixer n r.dt (V.info r.env)).1 },
         ((Mixer.spec C r.mixer n r.dt (V.info r.env)).2.map (frameToChannels ch)).flatten) := by
  unfold Renderer.specChunk
  simp only [hV r.env]

theorem Renderer.specChunk_quiet (hC : C.LenPres) (hH : ∀ dt, C.ChunkHom dt) (hV : V.Static)
    (r : Renderer ℝ S E P X) (hq : r.Quiet) (n ch : Nat) (hn : n ≤ r.ibs) :
    (r.specChunk C V n ch).1.Quiet ∧ (r.specChunk C V n ch).1.ibs = r.ibs := by
  refine ⟨⟨(Renderer.processChunk_spec C V hC r hq.1 n ch hn).2, ?_⟩, rfl⟩
  rw [Renderer.specChunk_static C V hV]
  exact (Mixer.spec_hom C hC r.dt (hH r.dt) (V.info r.env) r.ibs r.mixer hq.1.2 hq.2 n 0 (by omega)).2

/-- one chunk of `a + b` frames = a chunk of `a` frames followed by a chunk of `b` frames -/
theorem Renderer.specChunks_split (hC : C.LenPres) (hH : ∀ dt, C.ChunkHom dt) (hV : V.Static)
    (r : Renderer ℝ S E P X) (hq : r.Quiet) (ch a b : Nat) (hab : a + b ≤ r.ibs) (ns : List Nat) :
    Renderer.specChunks C V ch r ((a + b) :: ns) = Renderer.specChunks C V ch r (a :: b :: ns) := by
  obtain ⟨h1, _⟩ := Mixer.spec_hom C hC r.dt (hH r.dt) (V.info r.env) r.ibs r.mixer hq.1.2 hq.2 a b hab
  simp only [Renderer.specChunks, Renderer.specChunk_static C V hV]
  rw [h1]
  simp [List.append_assoc]

theorem Renderer.specChunks_cons (ch : Nat) (r : Renderer ℝ S E P X) (n : Nat) (ns : List Nat) :
    Renderer.specChunks C V ch r (n :: ns)
      = ((Renderer.specChunks C V ch (r.specChunk C V n ch).1 ns).1,
         (r.specChunk C V n ch).2 ++ (Renderer.specChunks C V ch (r.specChunk C V n ch).1 ns).2) := rfl

/-- every list of chunk lengths (each between 1 and `ibs`) renders like single-frame chunks -/
theorem Renderer.specChunks_ones (hC : C.LenPres) (hH : ∀ dt, C.ChunkHom dt) (hV : V.Static) (ch : Nat)
    (ns : List Nat) : ∀ (r : Renderer ℝ S E P X), r.Quiet → (∀ n ∈ ns, 1 ≤ n ∧ n ≤ r.ibs) →
      Renderer.specChunks C V ch r ns = Renderer.specChunks C V ch r (List.replicate ns.sum 1) := by
  induction ns with
  | nil => intro r _ _; simp [Renderer.specChunks]
  | cons n ns ih =>
    -- inner induction on the length of the first chunk
    have key : ∀ (k : Nat) (r : Renderer ℝ S E P X), r.Quiet → 1 ≤ k → k ≤ r.ibs → (∀ n ∈ ns, 1 ≤ n ∧ n ≤ r.ibs) →
        Renderer.specChunks C V ch r (k :: ns) = Renderer.specChunks C V ch r (List.replicate (k + ns.sum) 1) := by
      intro k
      induction k with
      | zero => intro r _ h; omega
      | succ j ihj =>
        intro r hq _ hk hns
        have hq1 := Renderer.specChunk_quiet C V hC hH hV r hq 1 ch (by omega)
        have hrep : List.replicate (j + 1 + ns.sum) 1 = 1 :: List.replicate (j + ns.sum) 1 := by
          rw [show j + 1 + ns.sum = (j + ns.sum) + 1 by omega, List.replicate_succ]
        by_cases hj : j = 0
        · subst hj
          rw [hrep]
          simp only [Renderer.specChunks, Nat.zero_add]
          rw [ih (r.specChunk C V 1 ch).1 hq1.1 (fun n hn => by rw [hq1.2]; exact hns n hn)]
        · rw [hrep, show j + 1 = 1 + j by omega, Renderer.specChunks_split C V hC hH hV r hq ch 1 j (by omega) ns]
          have := ihj (r.specChunk C V 1 ch).1 hq1.1 (by omega) (by rw [hq1.2]; omega)
            (fun n hn => by rw [hq1.2]; exact hns n hn)
          rw [Renderer.specChunks_cons C V ch r 1 (j :: ns), Renderer.specChunks_cons C V ch r 1 (List.replicate _ 1), this]
    intro r hq hns
    rw [List.sum_cons]
    exact key n r hq (hns n (by simp)).1 (hns n (by simp)).2 (fun m hm => hns m (by simp [hm]))

/-- **partition invariance of the chunk loop**: two lists of chunk lengths with the same total -/
theorem Renderer.specChunks_partition (hC : C.LenPres) (hH : ∀ dt, C.ChunkHom dt) (hV : V.Static) (ch : Nat)
    (r : Renderer ℝ S E P X) (hq : r.Quiet) (ns1 ns2 : List Nat) (h1 : ∀ n ∈ ns1, 1 ≤ n ∧ n ≤ r.ibs)
    (h2 : ∀ n ∈ ns2, 1 ≤ n ∧ n ≤ r.ibs) (hsum : ns1.sum = ns2.sum) :
    Renderer.specChunks C V ch r ns1 = Renderer.specChunks C V ch r ns2 := by
  rw [Renderer.specChunks_ones C V hC hH hV ch ns1 r hq h1, Renderer.specChunks_ones C V hC hH hV ch ns2 r hq h2, hsum]

/-! ### callbacks -/

/-- a sequence of `Renderer::process` calls (device callbacks of the given sizes, `channels` fixed):
    final renderer and the concatenated device samples -/
noncomputable def Renderer.runCallbacks (ch : Nat) : Renderer ℝ S E P X → List Nat → Renderer ℝ S E P X × List ℝ
  | r, [] => (r, [])
  | r, f :: fs =>
    let c := Renderer.processLoop C V ch f r f
    let rest := Renderer.runCallbacks ch c.1 fs
    (rest.1, c.2 ++ rest.2)

/-- the chunk lengths of a sequence of callbacks -/
def callbackChunks (ibs : Nat) (cbs : List Nat) : List Nat := cbs.flatMap (fun f => chunkSizes f ibs f)

theorem Renderer.specChunks_append (ch : Nat) (r : Renderer ℝ S E P X) (ns ms : List Nat) :
    Renderer.specChunks C V ch r (ns ++ ms)
      = ((Renderer.specChunks C V ch (Renderer.specChunks C V ch r ns).1 ms).1,
         (Renderer.specChunks C V ch r ns).2 ++ (Renderer.specChunks C V ch (Renderer.specChunks C V ch r ns).1 ms).2) := by
  induction ns generalizing r with
  | nil => simp [Renderer.specChunks]
  | cons n ns ih => simp [Renderer.specChunks, ih, List.append_assoc]

theorem Renderer.specChunks_quiet (hC : C.LenPres) (hH : ∀ dt, C.ChunkHom dt) (hV : V.Static) (ch : Nat)
    (ns : List Nat) : ∀ (r : Renderer ℝ S E P X), r.Quiet → (∀ n ∈ ns, n ≤ r.ibs) →
      (Renderer.specChunks C V ch r ns).1.Quiet ∧ (Renderer.specChunks C V ch r ns).1.ibs = r.ibs := by
  induction ns with
  | nil => intro r hq _; exact ⟨hq, rfl⟩
  | cons n ns ih =>
    intro r hq hns
    obtain ⟨q1, e1⟩ := Renderer.specChunk_quiet C V hC hH hV r hq n ch (hns n (by simp))
    obtain ⟨q2, e2⟩ := ih (r.specChunk C V n ch).1 q1 (fun m hm => by rw [e1]; exact hns m (by simp [hm]))
    exact ⟨q2, by rw [← e1, ← e2]; rfl⟩

/-- a sequence of callbacks is the chunk loop over the concatenated chunk lengths -/
theorem Renderer.runCallbacks_spec (hC : C.LenPres) (hH : ∀ dt, C.ChunkHom dt) (hV : V.Static) (ch : Nat)
    (cbs : List Nat) : ∀ (r : Renderer ℝ S E P X), r.Quiet →
      Renderer.runCallbacks C V ch r cbs = Renderer.specChunks C V ch r (callbackChunks r.ibs cbs) := by
  induction cbs with
  | nil => intro r _; simp [Renderer.runCallbacks, callbackChunks, Renderer.specChunks]
  | cons f fs ih =>
    intro r hq
    have hb := chunkSizes_bound f r.ibs f
    obtain ⟨h1, _⟩ := Renderer.runChunks_spec C V hC ch r hq.1 _ (fun n hn => (hb n hn).1)
    obtain ⟨q, e⟩ := Renderer.specChunks_quiet C V hC hH hV ch _ r hq (fun n hn => (hb n hn).1)
    simp only [Renderer.runCallbacks, callbackChunks, List.flatMap_cons]
    rw [Renderer.processLoop_eq, h1, Renderer.specChunks_append, ih _ q, e]
    rfl

theorem callbackChunks_sum (ibs : Nat) (hibs : 0 < ibs) (cbs : List Nat) : (callbackChunks ibs cbs).sum = cbs.sum := by
  induction cbs with
  | nil => simp [callbackChunks]
  | cons f fs ih =>
    simp only [callbackChunks, List.flatMap_cons, List.sum_append, List.sum_cons] at ih ⊢
    rw [ih, chunkSizes_sum f ibs f hibs (Nat.le_refl _)]

theorem callbackChunks_bound (ibs : Nat) (hibs : 0 < ibs) (cbs : List Nat) :
    ∀ n ∈ callbackChunks ibs cbs, 1 ≤ n ∧ n ≤ ibs := by
  intro n hn
  simp only [callbackChunks, List.mem_flatMap] at hn
  obtain ⟨f, _, hf⟩ := hn
  exact ⟨chunkSizes_pos f ibs f hibs n hf, (chunkSizes_bound f ibs f n hf).1⟩

end
end K
