/-
  PartitionLemmas.lean — from the chunk homomorphism to partition invariance of the renderer (C11):
  any two lists of chunk lengths with the same total render the same samples and reach the same state.
-/
import KiraModel.Proofs.ChunkLemmas

set_option linter.unusedSectionVars false

namespace K

section
variable {S E P X : Type} (C : Comps ℝ S E P) (V : EnvOps ℝ X)

/-- nothing in the environment moves (no clock ticking, no modulator, no listener): "all parameters
    constant" -/
def EnvOps.Static (V : EnvOps ℝ X) : Prop := ∀ e x, V.step e x = e

/-- nothing in the environment moves, on the environments satisfying `IX` (e.g. no clock is ticking and
    there is no modulator) -/
def EnvOps.StaticOn (IX : X → Prop) (V : EnvOps ℝ X) : Prop := ∀ e x, IX e → V.step e x = e

theorem EnvOps.Static.on (hV : V.Static) : V.StaticOn (fun _ => True) := fun e x _ => hV e x

/-- the renderer invariant of C11: clean scratch buffers, every parameter settled -/
def Renderer.Quiet (r : Renderer ℝ S E P X) : Prop := r.Clean ∧ Mixer.Settled r.mixer

/-- the invariant-relative renderer invariant of C11: quiet, every processed sound / effect satisfies
    its component invariant, the environment satisfies `IX`, and the renderer has the internal buffer
    size (at most `B`) and the `dt` the component invariants were stated for -/
structure Renderer.QuietOn (IS : S → Prop) (IE : E → Prop) (IX : X → Prop) (B : Nat) (dt : ℝ)
    (r : Renderer ℝ S E P X) : Prop where
  quiet : r.Quiet
  comps : Mixer.CompsOk IS IE r.mixer
  env : IX r.env
  ibs : r.ibs ≤ B
  dt : r.dt = dt

theorem Renderer.Quiet.on (r : Renderer ℝ S E P X) (hq : r.Quiet) :
    Renderer.QuietOn (fun _ => True) (fun _ => True) (fun _ => True) r.ibs r.dt r :=
  ⟨hq, Mixer.compsOk_true _, trivial, Nat.le_refl _, rfl⟩

variable {IS : S → Prop} {IE : E → Prop} {IX : X → Prop} {B : Nat} {dt : ℝ}

theorem Renderer.specChunk_static_on (hV : V.StaticOn IX) (r : Renderer ℝ S E P X) (hx : IX r.env) (n ch : Nat) :
    r.specChunk C V n ch
      = ({ r with mixer := (Mixer.spec C r.mixer n r.dt (V.info r.env)).1 },
         ((Mixer.spec C r.mixer n r.dt (V.info r.env)).2.map (frameToChannels ch)).flatten) := by
  unfold Renderer.specChunk
  simp only [hV r.env _ hx]

theorem Renderer.specChunk_static (hV : V.Static) (r : Renderer ℝ S E P X) (n ch : Nat) :
    r.specChunk C V n ch
      = ({ r with mixer := (Mixer.spec C r.mixer n r.dt (V.info r.env)).1 },
         ((Mixer.spec C r.mixer n r.dt (V.info r.env)).2.map (frameToChannels ch)).flatten) :=
  Renderer.specChunk_static_on C V (EnvOps.Static.on V hV) r trivial n ch

theorem Renderer.specChunk_quiet_on (hC : C.LenPres) (hH : C.ChunkHomOn IS IE B dt) (hV : V.StaticOn IX)
    (r : Renderer ℝ S E P X) (hq : r.QuietOn IS IE IX B dt) (n ch : Nat) (hn : n ≤ r.ibs) :
    (r.specChunk C V n ch).1.QuietOn IS IE IX B dt ∧ (r.specChunk C V n ch).1.ibs = r.ibs := by
  have hclean := (Renderer.processChunk_spec C V hC r hq.quiet.1 n ch hn).2
  rw [Renderer.specChunk_static_on C V hV r hq.env] at hclean ⊢
  obtain ⟨_, h2, h3⟩ := Mixer.spec_hom_on C hC r.dt (hq.dt ▸ hH) (V.info r.env) r.ibs hq.ibs r.mixer hq.quiet.1.2
    hq.quiet.2 hq.comps n 0 (by omega)
  exact ⟨⟨⟨hclean, h2⟩, h3, hq.env, hq.ibs, hq.dt⟩, rfl⟩

/-- one chunk of `a + b` frames = a chunk of `a` frames followed by a chunk of `b` frames -/
theorem Renderer.specChunks_split_on (hC : C.LenPres) (hH : C.ChunkHomOn IS IE B dt) (hV : V.StaticOn IX)
    (r : Renderer ℝ S E P X) (hq : r.QuietOn IS IE IX B dt) (ch a b : Nat) (hab : a + b ≤ r.ibs) (ns : List Nat) :
    Renderer.specChunks C V ch r ((a + b) :: ns) = Renderer.specChunks C V ch r (a :: b :: ns) := by
  obtain ⟨h1, _⟩ := Mixer.spec_hom_on C hC r.dt (hq.dt ▸ hH) (V.info r.env) r.ibs hq.ibs r.mixer hq.quiet.1.2
    hq.quiet.2 hq.comps a b hab
  have hqa := (Renderer.specChunk_quiet_on C V hC hH hV r hq a ch (by omega)).1
  simp only [Renderer.specChunks]
  rw [Renderer.specChunk_static_on C V hV _ hqa.env]
  simp only [Renderer.specChunk_static_on C V hV r hq.env]
  rw [h1]
  simp [List.append_assoc]

theorem Renderer.specChunks_cons (ch : Nat) (r : Renderer ℝ S E P X) (n : Nat) (ns : List Nat) :
    Renderer.specChunks C V ch r (n :: ns)
      = ((Renderer.specChunks C V ch (r.specChunk C V n ch).1 ns).1,
         (r.specChunk C V n ch).2 ++ (Renderer.specChunks C V ch (r.specChunk C V n ch).1 ns).2) := rfl

/-- every list of chunk lengths (each between 1 and `ibs`) renders like single-frame chunks -/
theorem Renderer.specChunks_ones_on (hC : C.LenPres) (hH : C.ChunkHomOn IS IE B dt) (hV : V.StaticOn IX) (ch : Nat)
    (ns : List Nat) : ∀ (r : Renderer ℝ S E P X), r.QuietOn IS IE IX B dt → (∀ n ∈ ns, 1 ≤ n ∧ n ≤ r.ibs) →
      Renderer.specChunks C V ch r ns = Renderer.specChunks C V ch r (List.replicate ns.sum 1) := by
  induction ns with
  | nil => intro r _ _; simp [Renderer.specChunks]
  | cons n ns ih =>
    -- inner induction on the length of the first chunk
    have key : ∀ (k : Nat) (r : Renderer ℝ S E P X), r.QuietOn IS IE IX B dt → 1 ≤ k → k ≤ r.ibs →
        (∀ n ∈ ns, 1 ≤ n ∧ n ≤ r.ibs) →
        Renderer.specChunks C V ch r (k :: ns) = Renderer.specChunks C V ch r (List.replicate (k + ns.sum) 1) := by
      intro k
      induction k with
      | zero => intro r _ h; omega
      | succ j ihj =>
        intro r hq _ hk hns
        have hq1 := Renderer.specChunk_quiet_on C V hC hH hV r hq 1 ch (by omega)
        have hrep : List.replicate (j + 1 + ns.sum) 1 = 1 :: List.replicate (j + ns.sum) 1 := by
          rw [show j + 1 + ns.sum = (j + ns.sum) + 1 by omega, List.replicate_succ]
        by_cases hj : j = 0
        · subst hj
          rw [hrep]
          simp only [Renderer.specChunks, Nat.zero_add]
          rw [ih (r.specChunk C V 1 ch).1 hq1.1 (fun n hn => by rw [hq1.2]; exact hns n hn)]
        · rw [hrep, show j + 1 = 1 + j by omega, Renderer.specChunks_split_on C V hC hH hV r hq ch 1 j (by omega) ns]
          have := ihj (r.specChunk C V 1 ch).1 hq1.1 (by omega) (by rw [hq1.2]; omega)
            (fun n hn => by rw [hq1.2]; exact hns n hn)
          rw [Renderer.specChunks_cons C V ch r 1 (j :: ns), Renderer.specChunks_cons C V ch r 1 (List.replicate _ 1), this]
    intro r hq hns
    rw [List.sum_cons]
    exact key n r hq (hns n (by simp)).1 (hns n (by simp)).2 (fun m hm => hns m (by simp [hm]))

/-- **partition invariance of the chunk loop**: two lists of chunk lengths with the same total -/
theorem Renderer.specChunks_partition_on (hC : C.LenPres) (hH : C.ChunkHomOn IS IE B dt) (hV : V.StaticOn IX) (ch : Nat)
    (r : Renderer ℝ S E P X) (hq : r.QuietOn IS IE IX B dt) (ns1 ns2 : List Nat) (h1 : ∀ n ∈ ns1, 1 ≤ n ∧ n ≤ r.ibs)
    (h2 : ∀ n ∈ ns2, 1 ≤ n ∧ n ≤ r.ibs) (hsum : ns1.sum = ns2.sum) :
    Renderer.specChunks C V ch r ns1 = Renderer.specChunks C V ch r ns2 := by
  rw [Renderer.specChunks_ones_on C V hC hH hV ch ns1 r hq h1, Renderer.specChunks_ones_on C V hC hH hV ch ns2 r hq h2, hsum]

/-! the unconditional versions: the special case of trivial invariants -/

theorem Renderer.specChunk_quiet (hC : C.LenPres) (hH : ∀ dt, C.ChunkHom dt) (hV : V.Static)
    (r : Renderer ℝ S E P X) (hq : r.Quiet) (n ch : Nat) (hn : n ≤ r.ibs) :
    (r.specChunk C V n ch).1.Quiet ∧ (r.specChunk C V n ch).1.ibs = r.ibs := by
  obtain ⟨h1, h2⟩ := Renderer.specChunk_quiet_on C V hC (Comps.ChunkHom.on C (hH r.dt) r.ibs) (EnvOps.Static.on V hV) r
    (Renderer.Quiet.on r hq) n ch hn
  exact ⟨h1.quiet, h2⟩

/-- one chunk of `a + b` frames = a chunk of `a` frames followed by a chunk of `b` frames -/
theorem Renderer.specChunks_split (hC : C.LenPres) (hH : ∀ dt, C.ChunkHom dt) (hV : V.Static)
    (r : Renderer ℝ S E P X) (hq : r.Quiet) (ch a b : Nat) (hab : a + b ≤ r.ibs) (ns : List Nat) :
    Renderer.specChunks C V ch r ((a + b) :: ns) = Renderer.specChunks C V ch r (a :: b :: ns) :=
  Renderer.specChunks_split_on C V hC (Comps.ChunkHom.on C (hH r.dt) r.ibs) (EnvOps.Static.on V hV) r
    (Renderer.Quiet.on r hq) ch a b hab ns

/-- every list of chunk lengths (each between 1 and `ibs`) renders like single-frame chunks -/
theorem Renderer.specChunks_ones (hC : C.LenPres) (hH : ∀ dt, C.ChunkHom dt) (hV : V.Static) (ch : Nat)
    (ns : List Nat) (r : Renderer ℝ S E P X) (hq : r.Quiet) (hns : ∀ n ∈ ns, 1 ≤ n ∧ n ≤ r.ibs) :
      Renderer.specChunks C V ch r ns = Renderer.specChunks C V ch r (List.replicate ns.sum 1) :=
  Renderer.specChunks_ones_on C V hC (Comps.ChunkHom.on C (hH r.dt) r.ibs) (EnvOps.Static.on V hV) ch ns r
    (Renderer.Quiet.on r hq) hns

/-- **partition invariance of the chunk loop**: two lists of chunk lengths with the same total -/
theorem Renderer.specChunks_partition (hC : C.LenPres) (hH : ∀ dt, C.ChunkHom dt) (hV : V.Static) (ch : Nat)
    (r : Renderer ℝ S E P X) (hq : r.Quiet) (ns1 ns2 : List Nat) (h1 : ∀ n ∈ ns1, 1 ≤ n ∧ n ≤ r.ibs)
    (h2 : ∀ n ∈ ns2, 1 ≤ n ∧ n ≤ r.ibs) (hsum : ns1.sum = ns2.sum) :
    Renderer.specChunks C V ch r ns1 = Renderer.specChunks C V ch r ns2 := by
  rw [Renderer.specChunks_ones C V hC hH hV ch ns1 r hq h1, Renderer.specChunks_ones C V hC hH hV ch ns2 r hq h2, hsum]

/-! ### callbacks -/

/-- a sequence of `Renderer::process` calls (device callbacks of the given sizes, `channels` fixed):
    final renderer and the concatenated device samples -/
noncomputable def Renderer.runCallbacks (ch : Nat) : Renderer ℝ S E P X → List Nat → Renderer ℝ S E P X × List ℝ
  | r, [] => (r, [])
  | r, f :: fs =>
    let c := Renderer.processLoop C V ch f r f
    let rest := Renderer.runCallbacks ch c.1 fs
    (rest.1, c.2 ++ rest.2)

/-- the chunk lengths of a sequence of callbacks -/
def callbackChunks (ibs : Nat) (cbs : List Nat) : List Nat := cbs.flatMap (fun f => chunkSizes f ibs f)

theorem Renderer.specChunks_append (ch : Nat) (r : Renderer ℝ S E P X) (ns ms : List Nat) :
    Renderer.specChunks C V ch r (ns ++ ms)
      = ((Renderer.specChunks C V ch (Renderer.specChunks C V ch r ns).1 ms).1,
         (Renderer.specChunks C V ch r ns).2 ++ (Renderer.specChunks C V ch (Renderer.specChunks C V ch r ns).1 ms).2) := by
  induction ns generalizing r with
  | nil => simp [Renderer.specChunks]
  | cons n ns ih => simp [Renderer.specChunks, ih, List.append_assoc]

theorem Renderer.specChunks_ibs (ch : Nat) (ns : List Nat) :
    ∀ (r : Renderer ℝ S E P X), (Renderer.specChunks C V ch r ns).1.ibs = r.ibs := by
  induction ns with
  | nil => intro r; rfl
  | cons n ns ih => intro r; simp only [Renderer.specChunks]; rw [ih]; rfl

theorem Renderer.specChunks_quiet_on (hC : C.LenPres) (hH : C.ChunkHomOn IS IE B dt) (hV : V.StaticOn IX) (ch : Nat)
    (ns : List Nat) : ∀ (r : Renderer ℝ S E P X), r.QuietOn IS IE IX B dt → (∀ n ∈ ns, n ≤ r.ibs) →
      (Renderer.specChunks C V ch r ns).1.QuietOn IS IE IX B dt := by
  induction ns with
  | nil => intro r hq _; exact hq
  | cons n ns ih =>
    intro r hq hns
    obtain ⟨q1, e1⟩ := Renderer.specChunk_quiet_on C V hC hH hV r hq n ch (hns n (by simp))
    exact ih (r.specChunk C V n ch).1 q1 (fun m hm => by rw [e1]; exact hns m (by simp [hm]))

theorem Renderer.specChunks_quiet (hC : C.LenPres) (hH : ∀ dt, C.ChunkHom dt) (hV : V.Static) (ch : Nat)
    (ns : List Nat) (r : Renderer ℝ S E P X) (hq : r.Quiet) (hns : ∀ n ∈ ns, n ≤ r.ibs) :
      (Renderer.specChunks C V ch r ns).1.Quiet ∧ (Renderer.specChunks C V ch r ns).1.ibs = r.ibs :=
  ⟨(Renderer.specChunks_quiet_on C V hC (Comps.ChunkHom.on C (hH r.dt) r.ibs) (EnvOps.Static.on V hV) ch ns r
    (Renderer.Quiet.on r hq) hns).quiet, Renderer.specChunks_ibs C V ch ns r⟩

/-- a sequence of callbacks is the chunk loop over the concatenated chunk lengths (clean scratch buffers
    are all this needs) -/
theorem Renderer.runCallbacks_spec_clean (hC : C.LenPres) (ch : Nat)
    (cbs : List Nat) : ∀ (r : Renderer ℝ S E P X), r.Clean →
      Renderer.runCallbacks C V ch r cbs = Renderer.specChunks C V ch r (callbackChunks r.ibs cbs)
        ∧ (Renderer.specChunks C V ch r (callbackChunks r.ibs cbs)).1.Clean := by
  induction cbs with
  | nil => intro r hr; simp [Renderer.runCallbacks, callbackChunks, Renderer.specChunks, hr]
  | cons f fs ih =>
    intro r hr
    have hb := chunkSizes_bound f r.ibs f
    obtain ⟨h1, h2⟩ := Renderer.runChunks_spec C V hC ch r hr _ (fun n hn => (hb n hn).1)
    have e := Renderer.specChunks_ibs C V ch (chunkSizes f r.ibs f) r
    obtain ⟨i1, i2⟩ := ih _ h2
    simp only [Renderer.runCallbacks, callbackChunks, List.flatMap_cons]
    rw [Renderer.processLoop_eq, h1, Renderer.specChunks_append, i1, e]
    refine ⟨rfl, ?_⟩
    rw [e] at i2
    exact i2

/-- a sequence of callbacks is the chunk loop over the concatenated chunk lengths -/
theorem Renderer.runCallbacks_spec (hC : C.LenPres) (hH : ∀ dt, C.ChunkHom dt) (hV : V.Static) (ch : Nat)
    (cbs : List Nat) (r : Renderer ℝ S E P X) (hq : r.Quiet) :
      Renderer.runCallbacks C V ch r cbs = Renderer.specChunks C V ch r (callbackChunks r.ibs cbs) :=
  (Renderer.runCallbacks_spec_clean C V hC ch cbs r hq.1).1

theorem callbackChunks_sum (ibs : Nat) (hibs : 0 < ibs) (cbs : List Nat) : (callbackChunks ibs cbs).sum = cbs.sum := by
  induction cbs with
  | nil => simp [callbackChunks]
  | cons f fs ih =>
    simp only [callbackChunks, List.flatMap_cons, List.sum_append, List.sum_cons] at ih ⊢
    rw [ih, chunkSizes_sum f ibs f hibs (Nat.le_refl _)]

theorem callbackChunks_bound (ibs : Nat) (hibs : 0 < ibs) (cbs : List Nat) :
    ∀ n ∈ callbackChunks ibs cbs, 1 ≤ n ∧ n ≤ ibs := by
  intro n hn
  simp only [callbackChunks, List.mem_flatMap] at hn
  obtain ⟨f, _, hf⟩ := hn
  exact ⟨chunkSizes_pos f ibs f hibs n hf, (chunkSizes_bound f ibs f n hf).1⟩

end
end K
