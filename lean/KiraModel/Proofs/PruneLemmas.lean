/-
  PruneLemmas.lean — finished sounds (C11, whole device callbacks with real components).

  A sound that has ended renders silence for ever; `on_start_processing` removes it from its arena at the next
  callback boundary — which does depend on the callback partition, although the audio does not.  To compare runs
  that remove dead sounds at different times, sound lists are compared after `canonS dead nrm` = drop the dead
  sounds, normalise the others; `Trk/Mixer/Renderer.mapSounds g` applies a function `g` to every sound arena.

  * generic facts about `mapSounds` (composition, congruence on invariants, the structural invariants `Clean`,
    `Settled`, `Idle`, `CompsOk`, commutation with `resize` and with effect maps);
  * with nothing in flight, `on_start_processing` IS `mapSounds (drop the finished sounds, then sndStart)`;
  * `Comps.PruneOn D T dead nrm …`: a dead sound renders silence and stays dead under `D`; a step of `T` on a
    normalised sound is the normalised step of `D`; same effects.  Then the specification of the mixer under `T` on
    the canonical scene renders what the mixer under `D` renders on the original scene, and the results have the
    same canonical form (`Mixer.spec_prune`), hence (binary form) two scenes with the same canonical form render
    the same audio under `D₁`, `D₂` and keep the same canonical form.
  Over ℝ.
-/
import KiraModel.Proofs.SimLemmas

set_option linter.unusedSectionVars false

namespace K

section
variable {S E P X : Type}

/-! ### applying a function to every sound arena -/

mutual
/-- apply `g` to the sound arena of every track of the subtree that is in an arena (rings are left alone) -/
def Trk.mapSounds (g : List S → List S) : Trk ℝ S E P → Trk ℝ S E P
  | .node d children pending => .node { d with sounds := g d.sounds } (Trk.mapSoundsList g children) pending
def Trk.mapSoundsList (g : List S → List S) : List (Trk ℝ S E P) → List (Trk ℝ S E P)
  | [] => []
  | t :: ts => Trk.mapSounds g t :: Trk.mapSoundsList g ts
end

def Mixer.mapSounds (g : List S → List S) (m : Mixer ℝ S E P) : Mixer ℝ S E P :=
  { m with main := { m.main with sounds := g m.main.sounds }, subTracks := Trk.mapSoundsList g m.subTracks }

def Renderer.mapSounds (g : List S → List S) (r : Renderer ℝ S E P X) : Renderer ℝ S E P X :=
  { r with mixer := Mixer.mapSounds g r.mixer }

/-- a scheme for statements `∀ t, A t → B (mapSounds …)` proved by the two-motive recursor -/
theorem Trk.mapSounds_mapSounds (g1 g2 : List S → List S) (t : Trk ℝ S E P) :
    Trk.mapSounds g1 (Trk.mapSounds g2 t) = Trk.mapSounds (fun ss => g1 (g2 ss)) t := by
  refine Trk.rec (motive_1 := fun t => Trk.mapSounds g1 (Trk.mapSounds g2 t) = Trk.mapSounds (fun ss => g1 (g2 ss)) t)
    (motive_2 := fun ts => Trk.mapSoundsList g1 (Trk.mapSoundsList g2 ts) = Trk.mapSoundsList (fun ss => g1 (g2 ss)) ts)
    ?_ ?_ ?_ t
  · intro d c p ihc _; rw [Trk.mapSounds, Trk.mapSounds, Trk.mapSounds, ihc]
  · simp [Trk.mapSoundsList]
  · intro t ts iht ihts; rw [Trk.mapSoundsList, Trk.mapSoundsList, Trk.mapSoundsList, iht, ihts]

theorem Trk.mapSoundsList_mapSoundsList (g1 g2 : List S → List S) (ts : List (Trk ℝ S E P)) :
    Trk.mapSoundsList g1 (Trk.mapSoundsList g2 ts) = Trk.mapSoundsList (fun ss => g1 (g2 ss)) ts := by
  induction ts with
  | nil => simp [Trk.mapSoundsList]
  | cons t ts ih => rw [Trk.mapSoundsList, Trk.mapSoundsList, Trk.mapSoundsList, Trk.mapSounds_mapSounds, ih]

theorem Mixer.mapSounds_mapSounds (g1 g2 : List S → List S) (m : Mixer ℝ S E P) :
    Mixer.mapSounds g1 (Mixer.mapSounds g2 m) = Mixer.mapSounds (fun ss => g1 (g2 ss)) m := by
  simp [Mixer.mapSounds, Trk.mapSoundsList_mapSoundsList]

/-- two functions that agree on the sound lists satisfying the invariant give the same tree -/
theorem Trk.mapSounds_congr {IS : S → Prop} {IE : E → Prop} (g1 g2 : List S → List S)
    (h : ∀ ss, (∀ s ∈ ss, IS s) → g1 ss = g2 ss) (t : Trk ℝ S E P) :
    Trk.CompsOk IS IE t → Trk.mapSounds g1 t = Trk.mapSounds g2 t := by
  refine Trk.rec (motive_1 := fun t => Trk.CompsOk IS IE t → Trk.mapSounds g1 t = Trk.mapSounds g2 t)
    (motive_2 := fun ts => Trk.CompsOkList IS IE ts → Trk.mapSoundsList g1 ts = Trk.mapSoundsList g2 ts) ?_ ?_ ?_ t
  · intro d c p ihc _ hc; rw [Trk.mapSounds, Trk.mapSounds, ihc hc.2, h d.sounds hc.1.1]
  · intro _; simp [Trk.mapSoundsList]
  · intro t ts iht ihts hc; rw [Trk.mapSoundsList, Trk.mapSoundsList, iht hc.1, ihts hc.2]

theorem Trk.mapSoundsList_congr {IS : S → Prop} {IE : E → Prop} (g1 g2 : List S → List S)
    (h : ∀ ss, (∀ s ∈ ss, IS s) → g1 ss = g2 ss) (ts : List (Trk ℝ S E P)) (hc : Trk.CompsOkList IS IE ts) :
    Trk.mapSoundsList g1 ts = Trk.mapSoundsList g2 ts := by
  induction ts with
  | nil => simp [Trk.mapSoundsList]
  | cons t ts ih => rw [Trk.mapSoundsList, Trk.mapSoundsList, Trk.mapSounds_congr g1 g2 h t hc.1, ih hc.2]

theorem Mixer.mapSounds_congr {IS : S → Prop} {IE : E → Prop} (g1 g2 : List S → List S)
    (h : ∀ ss, (∀ s ∈ ss, IS s) → g1 ss = g2 ss) (m : Mixer ℝ S E P) (hc : Mixer.CompsOk IS IE m) :
    Mixer.mapSounds g1 m = Mixer.mapSounds g2 m := by
  unfold Mixer.mapSounds
  rw [Trk.mapSoundsList_congr g1 g2 h _ hc.subs, h _ hc.mainS]

/-! the structural invariants do not look at sound arenas -/

theorem Trk.mapSounds_clean (g : List S → List S) (k : Nat) (t : Trk ℝ S E P) :
    Trk.Clean k t → Trk.Clean k (Trk.mapSounds g t) := by
  refine Trk.rec (motive_1 := fun t => Trk.Clean k t → Trk.Clean k (Trk.mapSounds g t))
    (motive_2 := fun ts => Trk.CleanList k ts → Trk.CleanList k (Trk.mapSoundsList g ts)) ?_ ?_ ?_ t
  · intro d c p ihc _ h; rw [Trk.mapSounds]; exact ⟨h.1, ihc h.2.1, h.2.2⟩
  · intro _; simp [Trk.mapSoundsList, Trk.CleanList]
  · intro t ts iht ihts h; rw [Trk.mapSoundsList]; exact ⟨iht h.1, ihts h.2⟩

theorem Trk.mapSoundsList_clean (g : List S → List S) (k : Nat) (ts : List (Trk ℝ S E P)) (h : Trk.CleanList k ts) :
    Trk.CleanList k (Trk.mapSoundsList g ts) := by
  induction ts with
  | nil => simp [Trk.mapSoundsList, Trk.CleanList]
  | cons t ts ih => rw [Trk.mapSoundsList]; exact ⟨Trk.mapSounds_clean g k t h.1, ih h.2⟩

theorem Mixer.mapSounds_clean (g : List S → List S) (k : Nat) (m : Mixer ℝ S E P) (h : Mixer.Clean k m) :
    Mixer.Clean k (Mixer.mapSounds g m) :=
  ⟨h.temp, h.main, Trk.mapSoundsList_clean g k _ h.subs, h.pending, h.sends, h.pendingSends⟩

theorem Trk.mapSounds_settled (g : List S → List S) (t : Trk ℝ S E P) :
    Trk.Settled (Trk.mapSounds g t) ↔ Trk.Settled t := by
  refine Trk.rec (motive_1 := fun t => Trk.Settled (Trk.mapSounds g t) ↔ Trk.Settled t)
    (motive_2 := fun ts => Trk.SettledList (Trk.mapSoundsList g ts) ↔ Trk.SettledList ts) ?_ ?_ ?_ t
  · intro d c p ihc _; rw [Trk.mapSounds]
    exact ⟨fun h => ⟨h.1, ihc.mp h.2⟩, fun h => ⟨h.1, ihc.mpr h.2⟩⟩
  · simp [Trk.mapSoundsList, Trk.SettledList]
  · intro t ts iht ihts; rw [Trk.mapSoundsList]
    exact ⟨fun h => ⟨iht.mp h.1, ihts.mp h.2⟩, fun h => ⟨iht.mpr h.1, ihts.mpr h.2⟩⟩

theorem Trk.mapSoundsList_settled (g : List S → List S) (ts : List (Trk ℝ S E P)) :
    Trk.SettledList (Trk.mapSoundsList g ts) ↔ Trk.SettledList ts := by
  induction ts with
  | nil => simp [Trk.mapSoundsList, Trk.SettledList]
  | cons t ts ih =>
    rw [Trk.mapSoundsList]
    exact ⟨fun h => ⟨(Trk.mapSounds_settled g t).mp h.1, ih.mp h.2⟩, fun h => ⟨(Trk.mapSounds_settled g t).mpr h.1, ih.mpr h.2⟩⟩

theorem Mixer.mapSounds_settled (g : List S → List S) (m : Mixer ℝ S E P) :
    Mixer.Settled (Mixer.mapSounds g m) ↔ Mixer.Settled m :=
  ⟨fun h => ⟨(Trk.mapSoundsList_settled g _).mp h.subs, h.main, h.sends⟩,
   fun h => ⟨(Trk.mapSoundsList_settled g _).mpr h.subs, h.main, h.sends⟩⟩

theorem Trk.mapSounds_idle (g : List S → List S) (t : Trk ℝ S E P) : Trk.Idle t → Trk.Idle (Trk.mapSounds g t) := by
  refine Trk.rec (motive_1 := fun t => Trk.Idle t → Trk.Idle (Trk.mapSounds g t))
    (motive_2 := fun ts => Trk.IdleList ts → Trk.IdleList (Trk.mapSoundsList g ts)) ?_ ?_ ?_ t
  · intro d c p ihc _ h; rw [Trk.mapSounds]; exact ⟨h.1, h.2.1, ihc h.2.2⟩
  · intro _; simp [Trk.mapSoundsList, Trk.IdleList]
  · intro t ts iht ihts h; rw [Trk.mapSoundsList]; exact ⟨iht h.1, ihts h.2⟩

theorem Trk.mapSoundsList_idle (g : List S → List S) (ts : List (Trk ℝ S E P)) (h : Trk.IdleList ts) :
    Trk.IdleList (Trk.mapSoundsList g ts) := by
  induction ts with
  | nil => simp [Trk.mapSoundsList, Trk.IdleList]
  | cons t ts ih => rw [Trk.mapSoundsList]; exact ⟨Trk.mapSounds_idle g t h.1, ih h.2⟩

theorem Mixer.mapSounds_idle (g : List S → List S) (m : Mixer ℝ S E P) (h : Mixer.Idle m) :
    Mixer.Idle (Mixer.mapSounds g m) :=
  ⟨Trk.mapSoundsList_idle g _ h.subs, h.pending, h.pendingSends, h.sends, h.main⟩

theorem Trk.mapSounds_noSpatial (g : List S → List S) (t : Trk ℝ S E P) :
    Trk.NoSpatial t → Trk.NoSpatial (Trk.mapSounds g t) := by
  refine Trk.rec (motive_1 := fun t => Trk.NoSpatial t → Trk.NoSpatial (Trk.mapSounds g t))
    (motive_2 := fun ts => Trk.NoSpatialList ts → Trk.NoSpatialList (Trk.mapSoundsList g ts)) ?_ ?_ ?_ t
  · intro d c p ihc _ h; rw [Trk.mapSounds]; exact ⟨h.1, ihc h.2⟩
  · intro _; simp [Trk.mapSoundsList, Trk.NoSpatialList]
  · intro t ts iht ihts h; rw [Trk.mapSoundsList]; exact ⟨iht h.1, ihts h.2⟩

theorem Trk.mapSoundsList_noSpatial (g : List S → List S) (ts : List (Trk ℝ S E P)) (h : Trk.NoSpatialList ts) :
    Trk.NoSpatialList (Trk.mapSoundsList g ts) := by
  induction ts with
  | nil => simp [Trk.mapSoundsList, Trk.NoSpatialList]
  | cons t ts ih => rw [Trk.mapSoundsList]; exact ⟨Trk.mapSounds_noSpatial g t h.1, ih h.2⟩

theorem Mixer.mapSounds_noSpatial (g : List S → List S) (m : Mixer ℝ S E P) (h : Mixer.NoSpatial m) :
    Mixer.NoSpatial (Mixer.mapSounds g m) :=
  Trk.mapSoundsList_noSpatial g _ h

theorem Trk.mapSounds_compsOk {IS IS2 : S → Prop} {IE : E → Prop} (g : List S → List S)
    (hg : ∀ ss, (∀ s ∈ ss, IS s) → ∀ s ∈ g ss, IS2 s) (t : Trk ℝ S E P) :
    Trk.CompsOk IS IE t → Trk.CompsOk IS2 IE (Trk.mapSounds g t) := by
  refine Trk.rec (motive_1 := fun t => Trk.CompsOk IS IE t → Trk.CompsOk IS2 IE (Trk.mapSounds g t))
    (motive_2 := fun ts => Trk.CompsOkList IS IE ts → Trk.CompsOkList IS2 IE (Trk.mapSoundsList g ts)) ?_ ?_ ?_ t
  · intro d c p ihc _ h; rw [Trk.mapSounds]; exact ⟨⟨hg _ h.1.1, h.1.2⟩, ihc h.2⟩
  · intro _; simp [Trk.mapSoundsList, Trk.CompsOkList]
  · intro t ts iht ihts h; rw [Trk.mapSoundsList]; exact ⟨iht h.1, ihts h.2⟩

theorem Trk.mapSoundsList_compsOk {IS IS2 : S → Prop} {IE : E → Prop} (g : List S → List S)
    (hg : ∀ ss, (∀ s ∈ ss, IS s) → ∀ s ∈ g ss, IS2 s) (ts : List (Trk ℝ S E P)) (h : Trk.CompsOkList IS IE ts) :
    Trk.CompsOkList IS2 IE (Trk.mapSoundsList g ts) := by
  induction ts with
  | nil => simp [Trk.mapSoundsList, Trk.CompsOkList]
  | cons t ts ih => rw [Trk.mapSoundsList]; exact ⟨Trk.mapSounds_compsOk g hg t h.1, ih h.2⟩

theorem Mixer.mapSounds_compsOk {IS IS2 : S → Prop} {IE : E → Prop} (g : List S → List S)
    (hg : ∀ ss, (∀ s ∈ ss, IS s) → ∀ s ∈ g ss, IS2 s) (m : Mixer ℝ S E P) (h : Mixer.CompsOk IS IE m) :
    Mixer.CompsOk IS2 IE (Mixer.mapSounds g m) :=
  ⟨Trk.mapSoundsList_compsOk g hg _ h.subs, hg _ h.mainS, h.mainE, h.sends⟩

theorem Trk.compsOk_mono {IS IS2 : S → Prop} {IE IE2 : E → Prop} (hs : ∀ s, IS s → IS2 s) (he : ∀ e, IE e → IE2 e)
    (t : Trk ℝ S E P) : Trk.CompsOk IS IE t → Trk.CompsOk IS2 IE2 t := by
  refine Trk.rec (motive_1 := fun t => Trk.CompsOk IS IE t → Trk.CompsOk IS2 IE2 t)
    (motive_2 := fun ts => Trk.CompsOkList IS IE ts → Trk.CompsOkList IS2 IE2 ts) ?_ ?_ ?_ t
  · intro d c p ihc _ h; exact ⟨⟨fun s hm => hs s (h.1.1 s hm), fun e hm => he e (h.1.2 e hm)⟩, ihc h.2⟩
  · intro _; trivial
  · intro t ts iht ihts h; exact ⟨iht h.1, ihts h.2⟩

theorem Mixer.compsOk_mono {IS IS2 : S → Prop} {IE IE2 : E → Prop} (hs : ∀ s, IS s → IS2 s) (he : ∀ e, IE e → IE2 e)
    (m : Mixer ℝ S E P) (h : Mixer.CompsOk IS IE m) : Mixer.CompsOk IS2 IE2 m := by
  have hl : ∀ ts : List (Trk ℝ S E P), Trk.CompsOkList IS IE ts → Trk.CompsOkList IS2 IE2 ts := by
    intro ts hts
    induction ts with
    | nil => trivial
    | cons t ts ih => exact ⟨Trk.compsOk_mono hs he t hts.1, ih hts.2⟩
  exact ⟨hl _ h.subs, fun s hm => hs s (h.mainS s hm), fun e hm => he e (h.mainE e hm),
    fun s hm e hme => he e (h.sends s hm e hme)⟩

/-! commutation with resizing and with effect maps -/

theorem Trk.mapSounds_resize (g : List S → List S) (k : Nat) (t : Trk ℝ S E P) :
    Trk.mapSounds g (Trk.resize k t) = Trk.resize k (Trk.mapSounds g t) := by
  refine Trk.rec (motive_1 := fun t => Trk.mapSounds g (Trk.resize k t) = Trk.resize k (Trk.mapSounds g t))
    (motive_2 := fun ts => Trk.mapSoundsList g (Trk.resizeList k ts) = Trk.resizeList k (Trk.mapSoundsList g ts)) ?_ ?_ ?_ t
  · intro d c p ihc _; rw [Trk.resize, Trk.mapSounds, Trk.mapSounds, Trk.resize, ihc]
  · simp [Trk.mapSoundsList, Trk.resizeList]
  · intro t ts iht ihts; rw [Trk.resizeList, Trk.mapSoundsList, Trk.mapSoundsList, Trk.resizeList, iht, ihts]

theorem Trk.mapSoundsList_resize (g : List S → List S) (k : Nat) (ts : List (Trk ℝ S E P)) :
    Trk.mapSoundsList g (Trk.resizeList k ts) = Trk.resizeList k (Trk.mapSoundsList g ts) := by
  induction ts with
  | nil => simp [Trk.mapSoundsList, Trk.resizeList]
  | cons t ts ih => rw [Trk.resizeList, Trk.mapSoundsList, Trk.mapSoundsList, Trk.resizeList, Trk.mapSounds_resize, ih]

theorem Renderer.mapSounds_resize (g : List S → List S) (k : Nat) (r : Renderer ℝ S E P X) :
    Renderer.mapSounds g (Renderer.resize k r) = Renderer.resize k (Renderer.mapSounds g r) := by
  simp [Renderer.mapSounds, Renderer.resize, Mixer.mapSounds, Mixer.resize, Trk.mapSoundsList_resize]

theorem Trk.mapSounds_mapFx (g : List S → List S) (fe : E → E) (t : Trk ℝ S E P) :
    Trk.mapSounds g (Trk.mapComps (fun s => s) fe t) = Trk.mapComps (fun s => s) fe (Trk.mapSounds g t) := by
  refine Trk.rec
    (motive_1 := fun t => Trk.mapSounds g (Trk.mapComps (fun s => s) fe t) = Trk.mapComps (fun s => s) fe (Trk.mapSounds g t))
    (motive_2 := fun ts => Trk.mapSoundsList g (Trk.mapCompsList (fun s => s) fe ts)
      = Trk.mapCompsList (fun s => s) fe (Trk.mapSoundsList g ts)) ?_ ?_ ?_ t
  · intro d c p ihc _; rw [Trk.mapComps, Trk.mapSounds, Trk.mapSounds, Trk.mapComps, ihc]; simp
  · simp [Trk.mapSoundsList, Trk.mapCompsList]
  · intro t ts iht ihts; rw [Trk.mapCompsList, Trk.mapSoundsList, Trk.mapSoundsList, Trk.mapCompsList, iht, ihts]

theorem Trk.mapSoundsList_mapFx (g : List S → List S) (fe : E → E) (ts : List (Trk ℝ S E P)) :
    Trk.mapSoundsList g (Trk.mapCompsList (fun s => s) fe ts) = Trk.mapCompsList (fun s => s) fe (Trk.mapSoundsList g ts) := by
  induction ts with
  | nil => simp [Trk.mapSoundsList, Trk.mapCompsList]
  | cons t ts ih => rw [Trk.mapCompsList, Trk.mapSoundsList, Trk.mapSoundsList, Trk.mapCompsList, Trk.mapSounds_mapFx, ih]

theorem Renderer.mapSounds_mapFx (g : List S → List S) (fe : E → E) (r : Renderer ℝ S E P X) :
    Renderer.mapSounds g (Renderer.mapComps (fun s => s) fe r) = Renderer.mapComps (fun s => s) fe (Renderer.mapSounds g r) := by
  simp [Renderer.mapSounds, Renderer.mapComps, Mixer.mapSounds, Mixer.mapComps, Trk.mapSoundsList_mapFx]

/-! ### `on_start_processing` with nothing in flight only touches the sound arenas -/

/-- what `on_start_processing` does to a sound arena when no sound is waiting in its ring:
    the finished sounds are dropped, the others get their `on_start_processing` -/
def startSounds (C : Comps ℝ S E P) (ss : List S) : List S := (ss.filter (fun s => !C.sndFinished s)).map C.sndStart

theorem Trk.onStart_idle_sounds (C : Comps ℝ S E P) {IS : S → Prop} {IE : E → Prop} (hfx : ∀ e, IE e → C.fxStart e = e)
    (t : Trk ℝ S E P) : Trk.Idle t → Trk.NoSpatial t → Trk.CompsOk IS IE t →
      Trk.onStart C t = Trk.mapSounds (startSounds C) t := by
  refine Trk.rec (motive_1 := fun t => Trk.Idle t → Trk.NoSpatial t → Trk.CompsOk IS IE t →
      Trk.onStart C t = Trk.mapSounds (startSounds C) t)
    (motive_2 := fun ts => Trk.IdleList ts → Trk.NoSpatialList ts → Trk.CompsOkList IS IE ts →
      Trk.onStartKept C ts = Trk.mapSoundsList (startSounds C) ts) ?_ ?_ ?_ t
  · intro d children pending ihc _ h hns hc
    obtain ⟨hd, hp, hcl⟩ := h
    obtain ⟨hdc, hcc⟩ := hc
    subst hp
    have hsp : d.spatial.map C.spStart = d.spatial := by rw [hns.1]; rfl
    rw [Trk.onStart, Trk.readCommands_idle d hd, ihc hcl hns.2 hcc, Trk.mapSounds, hsp]
    have hs : (removeAndAdd C.sndFinished d.sounds d.pendingSounds).map C.sndStart = startSounds C d.sounds := by
      rw [hd.2.2.2.2.1]; simp [removeAndAdd, startSounds]
    have he : d.effects.map C.fxStart = d.effects := map_id_of _ _ (fun e he => hfx e (hdc.2 e he))
    rw [hs, he]
    have hps := hd.2.2.2.2.1
    simp only [Trk.onStartList, List.reverse_nil, List.nil_append]
    cases d; simp_all
  · intro _ _ _; simp [Trk.onStartKept, Trk.mapSoundsList]
  · intro t ts iht ihts h hns hc
    rw [Trk.onStartKept, Trk.idle_not_removable t h.1, Trk.mapSoundsList]
    simp [iht h.1 hns.1 hc.1, ihts h.2 hns.2 hc.2]

theorem Trk.onStartKept_idle_sounds (C : Comps ℝ S E P) {IS : S → Prop} {IE : E → Prop}
    (hfx : ∀ e, IE e → C.fxStart e = e) (ts : List (Trk ℝ S E P)) (h : Trk.IdleList ts) (hns : Trk.NoSpatialList ts)
    (hc : Trk.CompsOkList IS IE ts) :
    Trk.onStartKept C ts = Trk.mapSoundsList (startSounds C) ts := by
  induction ts with
  | nil => simp [Trk.onStartKept, Trk.mapSoundsList]
  | cons t ts ih =>
    rw [Trk.onStartKept, Trk.idle_not_removable t h.1, Trk.mapSoundsList]
    simp [Trk.onStart_idle_sounds C hfx t h.1 hns.1 hc.1, ih h.2 hns.2 hc.2]

/-- **with nothing in flight (and no spatial track: the spatial command readers `Comps.spStart` are not run)
    `on_start_processing` drops the finished sounds, starts the others, and does nothing else** -/
theorem Mixer.onStart_idle_sounds (C : Comps ℝ S E P) {IS : S → Prop} {IE : E → Prop} (hfx : ∀ e, IE e → C.fxStart e = e)
    (m : Mixer ℝ S E P) (h : Mixer.Idle m) (hns : Mixer.NoSpatial m) (hc : Mixer.CompsOk IS IE m) :
    m.onStart C = Mixer.mapSounds (startSounds C) m := by
  unfold Mixer.onStart Mixer.mapSounds
  have h1 : (Trk.onStartList C m.pendingSubTracks).reverse ++ Trk.onStartKept C m.subTracks
      = Trk.mapSoundsList (startSounds C) m.subTracks := by
    rw [h.pending, Trk.onStartKept_idle_sounds C hfx _ h.subs hns hc.subs]; simp [Trk.onStartList]
  have h2 : (removeAndAdd (fun s : SendTrk ℝ E => s.marked) m.sendTracks m.pendingSendTracks).map (SendTrk.onStart C)
      = m.sendTracks := by
    rw [h.pendingSends]
    simp only [removeAndAdd, List.reverse_nil, List.nil_append]
    have : m.sendTracks.filter (fun x => !x.marked) = m.sendTracks := by
      rw [List.filter_eq_self]; intro s hs; simp [(h.sends s hs).1]
    rw [this]
    conv => rhs; rw [← List.map_id m.sendTracks]
    apply List.map_congr_left
    intro s hs
    unfold SendTrk.onStart
    have he : s.effects.map C.fxStart = s.effects := map_id_of _ _ (fun e he => hfx e (hc.sends s hs e he))
    have hcm := (h.sends s hs).2
    rw [he, hcm]
    cases s; simp_all
  have h3 : m.main.onStart C = { m.main with sounds := startSounds C m.main.sounds } := by
    unfold MainTrk.onStart
    have hs : (removeAndAdd C.sndFinished m.main.sounds m.main.pendingSounds).map C.sndStart = startSounds C m.main.sounds := by
      rw [h.main.2]; simp [removeAndAdd, startSounds]
    have he : m.main.effects.map C.fxStart = m.main.effects := map_id_of _ _ (fun e he => hfx e (hc.mainE e he))
    have hcm := h.main.1
    have hp := h.main.2
    rw [hs, he, hcm]
    cases hm : m.main; simp_all
  rw [h1, h2, h3]
  have hp := h.pending
  have hps := h.pendingSends
  cases m; simp_all

/-! ### dead sounds: silent for ever, dropped sooner or later -/

/-- drop the dead sounds, normalise the others -/
def canonS (dead : S → Bool) (nrm : S → S) (ss : List S) : List S := (ss.filter (fun s => !dead s)).map nrm

theorem canonS_cons (dead : S → Bool) (nrm : S → S) (s : S) (ss : List S) :
    canonS dead nrm (s :: ss) = if dead s then canonS dead nrm ss else nrm s :: canonS dead nrm ss := by
  unfold canonS
  by_cases h : dead s <;> simp [h]

theorem canonS_idem (dead : S → Bool) (nrm : S → S) (h1 : ∀ s, dead (nrm s) = dead s) (h2 : ∀ s, nrm (nrm s) = nrm s)
    (ss : List S) : canonS dead nrm (canonS dead nrm ss) = canonS dead nrm ss := by
  induction ss with
  | nil => simp [canonS]
  | cons s ss ih =>
    rw [canonS_cons]
    by_cases h : dead s
    · simp only [h, if_true]; exact ih
    · simp only [h, Bool.false_eq_true, if_false]
      rw [canonS_cons, h1, ih, h2]
      simp [h]

theorem addInto_zeros_right (bus : List (Frame ℝ)) : addInto bus (zeros bus.length) = bus := by
  induction bus with
  | nil => simp [addInto, zeros]
  | cons x xs ih =>
    have : (zeros (x :: xs).length : List (Frame ℝ)) = Frame.zero :: zeros xs.length := by
      simp [zeros, List.replicate_succ]
    rw [this, addInto, ih]
    congr 1
    cases x; simp [Frame.add, Frame.zero]

variable (D T : Comps ℝ S E P)

/-- `T` is `D` seen through the normalisation `nrm`, and the sounds that are `dead` render silence and stay
    dead, on the invariants `IS`, `IE` (preserved by `D`), for slices of at most `N` frames -/
structure Comps.PruneOn (D T : Comps ℝ S E P) (dead : S → Bool) (nrm : S → S) (IS : S → Prop) (IE : E → Prop)
    (N : Nat) (dt : ℝ) : Prop where
  live : ∀ s info n, IS s → n ≤ N →
    T.sndStep (nrm s) (zeros n) dt info = (nrm (D.sndStep s (zeros n) dt info).1, (D.sndStep s (zeros n) dt info).2)
  deadStep : ∀ s info n, IS s → dead s = true → n ≤ N →
    (D.sndStep s (zeros n) dt info).2 = zeros n ∧ dead (D.sndStep s (zeros n) dt info).1 = true
  sndInv : ∀ s info n, IS s → n ≤ N → IS (D.sndStep s (zeros n) dt info).1
  fxInv : ∀ e info xs, IE e → xs.length ≤ N → IE (D.fxStep e xs dt info).1
  deadNrm : ∀ s, dead (nrm s) = dead s
  nrmIdem : ∀ s, nrm (nrm s) = nrm s
  fx : T.fxStep = D.fxStep
  spStep : T.spStep = D.spStep
  spInfo : T.spInfo = D.spInfo

variable {dead : S → Bool} {nrm : S → S} {IS : S → Prop} {IE : E → Prop} {N : Nat} {dt : ℝ}

theorem specSounds_cons (C : Comps ℝ S E P) (dtt : ℝ) (info : Info ℝ) (n : Nat) (s : S) (ss : List S) :
    specSounds C dtt info n (s :: ss)
      = ((C.sndStep s (zeros n) dtt info).1 :: (specSounds C dtt info n ss).1,
         (C.sndStep s (zeros n) dtt info).2 :: (specSounds C dtt info n ss).2) := by
  simp [specSounds]

/-- the sound loop under `T` on the canonical list adds to the bus what the loop under `D` adds on the original
    list, and the resulting lists have the same canonical form -/
theorem specSounds_prune (hD : D.LenPres) (hP : Comps.PruneOn D T dead nrm IS IE N dt) (info : Info ℝ) (n : Nat) (hn : n ≤ N)
    (ss : List S) : ∀ (bus : List (Frame ℝ)), bus.length = n → (∀ s ∈ ss, IS s) →
      mixInto bus (specSounds T dt info n (canonS dead nrm ss)).2 = mixInto bus (specSounds D dt info n ss).2
      ∧ canonS dead nrm (specSounds T dt info n (canonS dead nrm ss)).1 = canonS dead nrm (specSounds D dt info n ss).1
      ∧ ∀ s ∈ (specSounds D dt info n ss).1, IS s := by
  induction ss with
  | nil => intro bus _ _; simp [specSounds, canonS]
  | cons s ss ih =>
    intro bus hb hss
    have hs := hss s (by simp)
    have hinv := hP.sndInv s info n hs hn
    rw [specSounds_cons D, canonS_cons]
    by_cases hd : dead s = true
    · obtain ⟨z1, z2⟩ := hP.deadStep s info n hs hd hn
      obtain ⟨i1, i2, i3⟩ := ih bus hb (fun x hx => hss x (by simp [hx]))
      simp only [hd, if_true]
      refine ⟨?_, ?_, ?_⟩
      · rw [i1, z1]
        simp only [mixInto, List.foldl_cons]
        rw [← hb, addInto_zeros_right]
      · rw [i2, canonS_cons, z2]; simp
      · intro x hx
        rcases List.mem_cons.mp hx with rfl | hx
        · exact hinv
        · exact i3 x hx
    · have hd' : dead s = false := by simpa using hd
      have hlen : (D.sndStep s (zeros n) dt info).2.length = n := by rw [hD.snd]; simp
      obtain ⟨i1, i2, i3⟩ := ih (addInto bus (D.sndStep s (zeros n) dt info).2) (by simp [hb])
        (fun x hx => hss x (by simp [hx]))
      simp only [hd', Bool.false_eq_true, if_false]
      rw [specSounds_cons T, hP.live s info n hs hn]
      refine ⟨?_, ?_, ?_⟩
      · simp only [mixInto, List.foldl_cons] at i1 ⊢
        exact i1
      · rw [canonS_cons, canonS_cons, hP.deadNrm, hP.nrmIdem, i2]
      · intro x hx
        rcases List.mem_cons.mp hx with rfl | hx
        · exact hinv
        · exact i3 x hx

theorem runEffects_congr (h : T.fxStep = D.fxStep) (dtt : ℝ) (info : Info ℝ) (es : List E) (xs : List (Frame ℝ)) :
    runEffects T dtt info es xs = runEffects D dtt info es xs := by
  induction es generalizing xs with
  | nil => simp [runEffects]
  | cons e es ih => simp only [runEffects, h, ih]

theorem runEffects_inv_of (hD : D.LenPres) (hI : ∀ e info xs, IE e → xs.length ≤ N → IE (D.fxStep e xs dt info).1)
    (info : Info ℝ) (es : List E) (hes : ∀ e ∈ es, IE e) (xs : List (Frame ℝ)) (hl : xs.length ≤ N) :
    ∀ e ∈ (runEffects D dt info es xs).1, IE e := by
  induction es generalizing xs with
  | nil => intro e he; simp [runEffects] at he
  | cons e0 es ih =>
    intro e he
    simp only [runEffects, List.mem_cons] at he
    rcases he with rfl | he
    · exact hI e0 info xs (hes e0 (by simp)) hl
    · exact ih (fun x hx => hes x (by simp [hx])) _ (by rw [hD.fx]; exact hl) e he

theorem Trk.preUpdate_setSounds (dtt : ℝ) (info : Info ℝ) (n : Nat) (d : TrkData ℝ S E P) (a : List S) :
    Trk.preUpdate dtt info n { d with sounds := a } = { Trk.preUpdate dtt info n d with sounds := a } := by
  unfold Trk.preUpdate Trk.publish; dsimp only; split <;> rfl

/-- **a sub-track under `T` on the canonical subtree renders what it renders under `D` on the original subtree**,
    feeds the sends alike, and the two resulting subtrees have the same canonical form -/
theorem Trk.spec_prune (hD : D.LenPres) (hP : Comps.PruneOn D T dead nrm IS IE N dt) (t : Trk ℝ S E P) :
    Trk.CompsOk IS IE t → ∀ (pinfo : Info ℝ) (n : Nat) (sends : List (SendTrk ℝ E)), n ≤ N →
      (Trk.spec T dt pinfo n (Trk.mapSounds (canonS dead nrm) t) sends).2 = (Trk.spec D dt pinfo n t sends).2
      ∧ Trk.mapSounds (canonS dead nrm) (Trk.spec T dt pinfo n (Trk.mapSounds (canonS dead nrm) t) sends).1
          = Trk.mapSounds (canonS dead nrm) (Trk.spec D dt pinfo n t sends).1
      ∧ Trk.CompsOk IS IE (Trk.spec D dt pinfo n t sends).1 := by
  refine Trk.rec
    (motive_1 := fun t => Trk.CompsOk IS IE t → ∀ (pinfo : Info ℝ) (n : Nat) (sends : List (SendTrk ℝ E)), n ≤ N →
      (Trk.spec T dt pinfo n (Trk.mapSounds (canonS dead nrm) t) sends).2 = (Trk.spec D dt pinfo n t sends).2
      ∧ Trk.mapSounds (canonS dead nrm) (Trk.spec T dt pinfo n (Trk.mapSounds (canonS dead nrm) t) sends).1
          = Trk.mapSounds (canonS dead nrm) (Trk.spec D dt pinfo n t sends).1
      ∧ Trk.CompsOk IS IE (Trk.spec D dt pinfo n t sends).1)
    (motive_2 := fun ts => Trk.CompsOkList IS IE ts → ∀ (info : Info ℝ) (n : Nat) (sends : List (SendTrk ℝ E)), n ≤ N →
      (Trk.specChildren T dt info n (Trk.mapSoundsList (canonS dead nrm) ts) sends).2 = (Trk.specChildren D dt info n ts sends).2
      ∧ Trk.mapSoundsList (canonS dead nrm) (Trk.specChildren T dt info n (Trk.mapSoundsList (canonS dead nrm) ts) sends).1
          = Trk.mapSoundsList (canonS dead nrm) (Trk.specChildren D dt info n ts sends).1
      ∧ Trk.CompsOkList IS IE (Trk.specChildren D dt info n ts sends).1) ?_ ?_ ?_ t
  · intro d children pending ihc _ hc pinfo n sends hn
    obtain ⟨hdc, hcc⟩ := hc
    rw [Trk.mapSounds, Trk.spec, Trk.spec]
    have hinfo : Trk.trackInfo T ({ d with sounds := canonS dead nrm d.sounds } : TrkData ℝ S E P) pinfo
        = Trk.trackInfo D d pinfo := by
      simp only [Trk.trackInfo, hP.spInfo]
    simp only [hinfo, Trk.preUpdate_setSounds]
    obtain ⟨f1, _, f3, _⟩ := Trk.preUpdate_fields dt (Trk.trackInfo D d pinfo) n d
    have hadv : ∀ (a : List S), Trk.advancing
        ({ Trk.preUpdate dt (Trk.trackInfo D d pinfo) n d with sounds := a } : TrkData ℝ S E P)
        = Trk.advancing (Trk.preUpdate dt (Trk.trackInfo D d pinfo) n d) := fun _ => rfl
    rw [hadv]
    have hd2c : (Trk.preUpdate dt (Trk.trackInfo D d pinfo) n d).CompsOk IS IE := by
      unfold TrkData.CompsOk; rw [f1, f3]; exact hdc
    split
    · refine ⟨rfl, ?_, hd2c, hcc⟩
      rw [Trk.mapSounds, Trk.mapSounds, Trk.mapSoundsList_mapSoundsList]
      dsimp only
      rw [canonS_idem dead nrm hP.deadNrm hP.nrmIdem, f1]
      have : (fun ss => canonS dead nrm (canonS dead nrm ss)) = canonS dead nrm := by
        funext ss; exact canonS_idem dead nrm hP.deadNrm hP.nrmIdem ss
      rw [this]
    · obtain ⟨ic1, ic2, ic3⟩ := ihc hcc (Trk.trackInfo D d pinfo) n sends hn
      have ic1a := congrArg Prod.fst ic1
      have ic1b := congrArg Prod.snd ic1
      unfold Trk.specPost
      dsimp only
      rw [ic1a, ic1b]
      obtain ⟨ss1, ss2, ss3⟩ := specSounds_prune D T hD hP (Trk.trackInfo D d pinfo) n hn
        (Trk.preUpdate dt (Trk.trackInfo D d pinfo) n d).sounds
        (mixInto (zeros n) (Trk.specChildren D dt (Trk.trackInfo D d pinfo) n children sends).2.1) (by simp) hd2c.1
      rw [f1] at ss1 ss2 ss3
      rw [f1, f3, ss1, runEffects_congr D T hP.fx]
      have hsp : ∀ (sp : Option P) (buf : List (Frame ℝ)) (i : Info ℝ),
          Trk.spatialStage T dt i n sp buf = Trk.spatialStage D dt i n sp buf := by
        intro sp buf i; unfold Trk.spatialStage; rw [hP.spStep]
      rw [hsp]
      have ee2 := runEffects_inv_of D hD hP.fxInv (Trk.trackInfo D d pinfo) d.effects hdc.2
        (mixInto (mixInto (zeros n) (Trk.specChildren D dt (Trk.trackInfo D d pinfo) n children sends).2.1)
          (specSounds D dt (Trk.trackInfo D d pinfo) n d.sounds).2) (by simp only [length_mixInto, length_zeros]; exact hn)
      refine ⟨rfl, ?_, ⟨ss3, ee2⟩, ic3⟩
      rw [Trk.mapSounds, Trk.mapSounds]
      dsimp only
      rw [ss2, ic2]
  · intro _ info n sends _; exact ⟨rfl, by simp [Trk.specChildren, Trk.mapSoundsList], trivial⟩
  · intro t ts iht ihts hc info n sends hn
    obtain ⟨t1, t2, t3⟩ := iht hc.1 info n sends hn
    have t1a := congrArg Prod.fst t1
    have t1b := congrArg Prod.snd t1
    obtain ⟨l1, l2, l3⟩ := ihts hc.2 info n (Trk.spec D dt info n t sends).2.2 hn
    have l1a := congrArg Prod.fst l1
    have l1b := congrArg Prod.snd l1
    rw [Trk.mapSoundsList, Trk.specChildren, Trk.specChildren]
    dsimp only
    rw [t1b, t1a, l1a, l1b]
    refine ⟨rfl, ?_, t3, l3⟩
    rw [Trk.mapSoundsList, Trk.mapSoundsList, t2, l2]

theorem Trk.specChildren_prune (hD : D.LenPres) (hP : Comps.PruneOn D T dead nrm IS IE N dt) (ts : List (Trk ℝ S E P))
    (hc : Trk.CompsOkList IS IE ts) (info : Info ℝ) (n : Nat) (sends : List (SendTrk ℝ E)) (hn : n ≤ N) :
    (Trk.specChildren T dt info n (Trk.mapSoundsList (canonS dead nrm) ts) sends).2 = (Trk.specChildren D dt info n ts sends).2
      ∧ Trk.mapSoundsList (canonS dead nrm) (Trk.specChildren T dt info n (Trk.mapSoundsList (canonS dead nrm) ts) sends).1
          = Trk.mapSoundsList (canonS dead nrm) (Trk.specChildren D dt info n ts sends).1
      ∧ Trk.CompsOkList IS IE (Trk.specChildren D dt info n ts sends).1 := by
  induction ts generalizing sends with
  | nil => exact ⟨rfl, by simp [Trk.specChildren, Trk.mapSoundsList], trivial⟩
  | cons t ts ih =>
    obtain ⟨t1, t2, t3⟩ := Trk.spec_prune D T hD hP t hc.1 info n sends hn
    have t1a := congrArg Prod.fst t1
    have t1b := congrArg Prod.snd t1
    obtain ⟨l1, l2, l3⟩ := ih hc.2 (Trk.spec D dt info n t sends).2.2
    have l1a := congrArg Prod.fst l1
    have l1b := congrArg Prod.snd l1
    rw [Trk.mapSoundsList, Trk.specChildren, Trk.specChildren]
    dsimp only
    rw [t1b, t1a, l1a, l1b]
    refine ⟨rfl, ?_, t3, l3⟩
    rw [Trk.mapSoundsList, Trk.mapSoundsList, t2, l2]

theorem specSends_congr (h : T.fxStep = D.fxStep) (dtt : ℝ) (info : Info ℝ) (n : Nat) (ss : List (SendTrk ℝ E)) :
    specSends T dtt info n ss = specSends D dtt info n ss := by
  unfold specSends SendTrk.process
  simp only [runEffects_congr D T h]

/-- **the mixer under `T` on the canonical scene renders what the mixer under `D` renders on the original scene**,
    and the two resulting mixers have the same canonical form -/
theorem Mixer.spec_prune (hD : D.LenPres) (hP : Comps.PruneOn D T dead nrm IS IE N dt) (m : Mixer ℝ S E P)
    (hc : Mixer.CompsOk IS IE m) (n : Nat) (hn : n ≤ N) (info : Info ℝ) :
    (Mixer.spec T (Mixer.mapSounds (canonS dead nrm) m) n dt info).2 = (Mixer.spec D m n dt info).2
      ∧ Mixer.mapSounds (canonS dead nrm) (Mixer.spec T (Mixer.mapSounds (canonS dead nrm) m) n dt info).1
          = Mixer.mapSounds (canonS dead nrm) (Mixer.spec D m n dt info).1
      ∧ Mixer.CompsOk IS IE (Mixer.spec D m n dt info).1 := by
  obtain ⟨c1, c2, c3⟩ := Trk.specChildren_prune D T hD hP m.subTracks hc.subs info n m.sendTracks hn
  have c1a := congrArg Prod.fst c1
  have c1b := congrArg Prod.snd c1
  have hcore := Trk.specChildren_core D m.subTracks dt info n m.sendTracks
  have hveA : ∀ s ∈ (Trk.specChildren D dt info n m.subTracks m.sendTracks).2.2, ∀ e ∈ s.effects, IE e := by
    intro s hs'
    have hmem : SendTrk.core s ∈ m.sendTracks.map SendTrk.core := by rw [← hcore]; exact List.mem_map_of_mem hs'
    obtain ⟨s0, hs0, e⟩ := List.mem_map.mp hmem
    have : s.effects = s0.effects := by
      have := congrArg SendTrk.effects e; simpa [SendTrk.core] using this.symm
    rw [this]; exact hc.sends s0 hs0
  have hsendsInv : ∀ s ∈ (specSends D dt info n (Trk.specChildren D dt info n m.subTracks m.sendTracks).2.2).1,
      ∀ e ∈ s.effects, IE e := by
    intro s hs
    simp only [specSends, List.map_map, List.mem_map] at hs
    obtain ⟨s0, hs0, rfl⟩ := hs
    simp only [Function.comp, SendTrk.process]
    exact runEffects_inv_of D hD hP.fxInv info s0.effects (hveA s0 hs0) _
      (by simp only [length_addInto, length_zeros]; exact hn)
  obtain ⟨ss1, ss2, ss3⟩ := specSounds_prune D T hD hP info n hn m.main.sounds
    (mixInto (mixInto (zeros n) (Trk.specChildren D dt info n m.subTracks m.sendTracks).2.1)
      (specSends D dt info n (Trk.specChildren D dt info n m.subTracks m.sendTracks).2.2).2) (by simp) hc.mainS
  have hmE := runEffects_inv_of D hD hP.fxInv info m.main.effects hc.mainE
    (mixInto (mixInto (mixInto (zeros n) (Trk.specChildren D dt info n m.subTracks m.sendTracks).2.1)
      (specSends D dt info n (Trk.specChildren D dt info n m.subTracks m.sendTracks).2.2).2)
      (specSounds D dt info n m.main.sounds).2) (by simp only [length_mixInto, length_zeros]; exact hn)
  unfold Mixer.spec Mixer.mapSounds MainTrk.spec
  dsimp only
  simp only [length_mixInto, length_zeros] at ss1 ss2 ss3 hmE ⊢
  rw [c1a, c1b, specSends_congr D T hP.fx, ss1, runEffects_congr D T hP.fx]
  refine ⟨rfl, ?_, ⟨c3, ss3, hmE, hsendsInv⟩⟩
  rw [c2, ss2]

/-! ### two scenes with the same canonical form -/

theorem Renderer.mapSounds_eq_iff (g : List S → List S) (r1 r2 : Renderer ℝ S E P X) :
    Renderer.mapSounds g r1 = Renderer.mapSounds g r2
      ↔ r1.dt = r2.dt ∧ r1.env = r2.env ∧ r1.ibs = r2.ibs ∧ r1.temp = r2.temp
          ∧ Mixer.mapSounds g r1.mixer = Mixer.mapSounds g r2.mixer := by
  cases r1; cases r2
  simp only [Renderer.mapSounds, Renderer.mk.injEq]
  tauto

variable (D1 D2 : Comps ℝ S E P) (V : EnvOps ℝ X)

/-- **two mixers with the same canonical form render the same chunk** under `D1` and `D2` (both seen through the
    same normalised components `T`), and keep the same canonical form -/
theorem Mixer.spec_prune2 (hD1 : D1.LenPres) (hD2 : D2.LenPres) (h1 : Comps.PruneOn D1 T dead nrm IS IE N dt)
    (h2 : Comps.PruneOn D2 T dead nrm IS IE N dt) (m1 m2 : Mixer ℝ S E P) (hc1 : Mixer.CompsOk IS IE m1)
    (hc2 : Mixer.CompsOk IS IE m2) (he : Mixer.mapSounds (canonS dead nrm) m1 = Mixer.mapSounds (canonS dead nrm) m2)
    (n : Nat) (hn : n ≤ N) (info : Info ℝ) :
    (Mixer.spec D1 m1 n dt info).2 = (Mixer.spec D2 m2 n dt info).2
      ∧ Mixer.mapSounds (canonS dead nrm) (Mixer.spec D1 m1 n dt info).1
          = Mixer.mapSounds (canonS dead nrm) (Mixer.spec D2 m2 n dt info).1
      ∧ Mixer.CompsOk IS IE (Mixer.spec D1 m1 n dt info).1 ∧ Mixer.CompsOk IS IE (Mixer.spec D2 m2 n dt info).1 := by
  obtain ⟨a1, a2, a3⟩ := Mixer.spec_prune D1 T hD1 h1 m1 hc1 n hn info
  obtain ⟨b1, b2, b3⟩ := Mixer.spec_prune D2 T hD2 h2 m2 hc2 n hn info
  rw [he] at a1 a2
  exact ⟨a1.symm.trans b1, a2.symm.trans b2, a3, b3⟩

/-- the chunk loop, binary form -/
theorem Renderer.specChunks_prune2 (hD1 : D1.LenPres) (hD2 : D2.LenPres) (ch : Nat) (ns : List Nat) :
    ∀ (r1 r2 : Renderer ℝ S E P X), Comps.PruneOn D1 T dead nrm IS IE N r1.dt → Comps.PruneOn D2 T dead nrm IS IE N r1.dt →
      Mixer.CompsOk IS IE r1.mixer → Mixer.CompsOk IS IE r2.mixer →
      Renderer.mapSounds (canonS dead nrm) r1 = Renderer.mapSounds (canonS dead nrm) r2 → (∀ n ∈ ns, n ≤ N) →
      (Renderer.specChunks D1 V ch r1 ns).2 = (Renderer.specChunks D2 V ch r2 ns).2
        ∧ Renderer.mapSounds (canonS dead nrm) (Renderer.specChunks D1 V ch r1 ns).1
            = Renderer.mapSounds (canonS dead nrm) (Renderer.specChunks D2 V ch r2 ns).1
        ∧ Mixer.CompsOk IS IE (Renderer.specChunks D1 V ch r1 ns).1.mixer
        ∧ Mixer.CompsOk IS IE (Renderer.specChunks D2 V ch r2 ns).1.mixer := by
  induction ns with
  | nil => intro r1 r2 _ _ hc1 hc2 he _; exact ⟨rfl, he, hc1, hc2⟩
  | cons n ns ih =>
    intro r1 r2 h1 h2 hc1 hc2 he hns
    obtain ⟨e1, e2, e3, e4, e5⟩ := (Renderer.mapSounds_eq_iff _ r1 r2).mp he
    obtain ⟨a1, a2, a3, a4⟩ := Mixer.spec_prune2 T D1 D2 hD1 hD2 h1 h2 r1.mixer r2.mixer hc1 hc2 e5 n (hns n (by simp))
      (V.info (V.step r1.env (r1.dt * (KOps.ofNat n : ℝ))))
    have he' : Renderer.mapSounds (canonS dead nrm) (r1.specChunk D1 V n ch).1
        = Renderer.mapSounds (canonS dead nrm) (r2.specChunk D2 V n ch).1 := by
      rw [Renderer.mapSounds_eq_iff]
      unfold Renderer.specChunk
      dsimp only
      rw [← e1, ← e2]
      exact ⟨rfl, rfl, e3, e4, a2⟩
    have hout : (r1.specChunk D1 V n ch).2 = (r2.specChunk D2 V n ch).2 := by
      unfold Renderer.specChunk
      dsimp only
      rw [← e1, ← e2, a1]
    have hc1' : Mixer.CompsOk IS IE (r1.specChunk D1 V n ch).1.mixer := a3
    have hc2' : Mixer.CompsOk IS IE (r2.specChunk D2 V n ch).1.mixer := by
      unfold Renderer.specChunk; dsimp only; rw [← e1, ← e2]; exact a4
    obtain ⟨i1, i2, i3, i4⟩ := ih (r1.specChunk D1 V n ch).1 (r2.specChunk D2 V n ch).1 h1 h2 hc1' hc2' he'
      (fun m hm => hns m (by simp [hm]))
    simp only [Renderer.specChunks]
    exact ⟨by rw [hout, i1], i2, i3, i4⟩

/-- what `on_start_processing` of `D` must satisfy to be invisible after `canonS`: a sound is finished iff it is
    dead, starting keeps deadness, the normal form and the invariant; effects with nothing pending do not change -/
structure Comps.StartPrune (D : Comps ℝ S E P) (dead : S → Bool) (nrm : S → S) (IS : S → Prop) (IE : E → Prop) : Prop where
  fin : ∀ s, IS s → D.sndFinished s = dead s
  startDead : ∀ s, IS s → dead (D.sndStart s) = dead s
  startNrm : ∀ s, IS s → nrm (D.sndStart s) = nrm s
  startInv : ∀ s, IS s → IS (D.sndStart s)
  fxStart : ∀ e, IE e → D.fxStart e = e

theorem canonS_startSounds (hS : Comps.StartPrune D dead nrm IS IE) (ss : List S) (hss : ∀ s ∈ ss, IS s) :
    canonS dead nrm (startSounds D ss) = canonS dead nrm ss := by
  induction ss with
  | nil => simp [canonS, startSounds]
  | cons s ss ih =>
    have hs := hss s (by simp)
    have ih := ih (fun x hx => hss x (by simp [hx]))
    have hcons : startSounds D (s :: ss) = if D.sndFinished s then startSounds D ss else D.sndStart s :: startSounds D ss := by
      unfold startSounds
      by_cases h : D.sndFinished s <;> simp [h]
    rw [hcons, hS.fin s hs, canonS_cons]
    by_cases hd : dead s = true
    · simp only [hd, if_true]; exact ih
    · have hd' : dead s = false := by simpa using hd
      simp only [hd', Bool.false_eq_true, if_false]
      rw [canonS_cons, hS.startDead s hs, hd', hS.startNrm s hs, ih]
      simp

theorem startSounds_inv (hS : Comps.StartPrune D dead nrm IS IE) (ss : List S) (hss : ∀ s ∈ ss, IS s) :
    ∀ s ∈ startSounds D ss, IS s := by
  intro s hs
  simp only [startSounds, List.mem_map, List.mem_filter] at hs
  obtain ⟨s0, ⟨hs0, _⟩, rfl⟩ := hs
  exact hS.startInv s0 (hss s0 hs0)

/-- **Whole device callbacks under `D` against plain `process` calls under `T`.**  `rD` runs whole device
    callbacks (`on_start_processing`, which drops the finished sounds, then `process`) with the components `D`;
    `rT` runs only the `process` calls with the normalised components `T` and never drops a sound.  If the two
    scenes have the same canonical form, nothing is in flight in `rD` (which has no spatial track), and the
    environment is idle, they render the same device samples and end with the same canonical form. -/
theorem Renderer.runDeviceCallbacks_prune {IX : X → Prop} (hD : D.LenPres) (hT : T.LenPres)
    (hVs : ∀ e, IX e → V.start e = e) (hVi : ∀ e x, IX e → IX (V.step e x))
    (hS : Comps.StartPrune D dead nrm IS IE) (ch : Nat) (cbs : List Nat) :
    ∀ (rD rT : Renderer ℝ S E P X), Comps.PruneOn D T dead nrm IS IE rD.ibs rD.dt → Comps.PruneOn T T dead nrm IS IE rD.ibs rD.dt →
      rD.Clean → rT.Clean → Mixer.Idle rD.mixer → Mixer.NoSpatial rD.mixer → IX rD.env →
      Mixer.CompsOk IS IE rD.mixer → Mixer.CompsOk IS IE rT.mixer →
      Renderer.mapSounds (canonS dead nrm) rD = Renderer.mapSounds (canonS dead nrm) rT →
      (Renderer.runDeviceCallbacks D V ch rD cbs).2 = (Renderer.runCallbacks T V ch rT cbs).2
        ∧ Renderer.mapSounds (canonS dead nrm) (Renderer.runDeviceCallbacks D V ch rD cbs).1
            = Renderer.mapSounds (canonS dead nrm) (Renderer.runCallbacks T V ch rT cbs).1
        ∧ (Renderer.runDeviceCallbacks D V ch rD cbs).1.Clean ∧ Mixer.Idle (Renderer.runDeviceCallbacks D V ch rD cbs).1.mixer
        ∧ Mixer.CompsOk IS IE (Renderer.runDeviceCallbacks D V ch rD cbs).1.mixer
        ∧ IX (Renderer.runDeviceCallbacks D V ch rD cbs).1.env
        ∧ (Renderer.runDeviceCallbacks D V ch rD cbs).1.ibs = rD.ibs
        ∧ (Renderer.runDeviceCallbacks D V ch rD cbs).1.dt = rD.dt := by
  induction cbs with
  | nil => intro rD rT _ _ hcD _ hi _ hx hc1 _ he; exact ⟨rfl, he, hcD, hi, hc1, hx, rfl, rfl⟩
  | cons f fs ih =>
    intro rD rT h1 h2 hcD hcT hi hns hx hc1 hc2 he
    obtain ⟨e1, e2, e3, e4, e5⟩ := (Renderer.mapSounds_eq_iff _ rD rT).mp he
    -- `on_start_processing` is invisible after `canonS`
    have hos : rD.onStart D V = { rD with mixer := Mixer.mapSounds (startSounds D) rD.mixer } := by
      unfold Renderer.onStart
      rw [Mixer.onStart_idle_sounds D hS.fxStart rD.mixer hi hns hc1, hVs _ hx]
    set rD' : Renderer ℝ S E P X := { rD with mixer := Mixer.mapSounds (startSounds D) rD.mixer } with hrD'
    have hcD' : rD'.Clean := ⟨hcD.1, Mixer.mapSounds_clean _ rD.ibs rD.mixer hcD.2⟩
    have hi' : Mixer.Idle rD'.mixer := Mixer.mapSounds_idle _ rD.mixer hi
    have hns' : Mixer.NoSpatial rD'.mixer := Mixer.mapSounds_noSpatial _ rD.mixer hns
    have hc1' : Mixer.CompsOk IS IE rD'.mixer :=
      Mixer.mapSounds_compsOk _ (fun ss hss => startSounds_inv D hS ss hss) rD.mixer hc1
    have he' : Renderer.mapSounds (canonS dead nrm) rD' = Renderer.mapSounds (canonS dead nrm) rT := by
      rw [Renderer.mapSounds_eq_iff]
      refine ⟨e1, e2, e3, e4, ?_⟩
      rw [← e5]
      show Mixer.mapSounds (canonS dead nrm) (Mixer.mapSounds (startSounds D) rD.mixer) = _
      rw [Mixer.mapSounds_mapSounds]
      exact Mixer.mapSounds_congr _ _ (fun ss hss => canonS_startSounds D hS ss hss) rD.mixer hc1
    -- the chunk loops
    have hbD := chunkSizes_bound f rD'.ibs f
    have hbT := chunkSizes_bound f rT.ibs f
    obtain ⟨g1, g2⟩ := Renderer.runChunks_spec D V hD ch rD' hcD' _ (fun n hn => (hbD n hn).1)
    obtain ⟨k1, k2⟩ := Renderer.runChunks_spec T V hT ch rT hcT _ (fun n hn => (hbT n hn).1)
    have hibs : rD'.ibs = rT.ibs := e3
    obtain ⟨p1, p2, p3, p4⟩ := Renderer.specChunks_prune2 T D T V hD hT ch (chunkSizes f rD'.ibs f) rD' rT h1 h2 hc1' hc2 he'
      (fun n hn => (hbD n hn).1)
    have hloopD : Renderer.processLoop D V ch f rD' f = Renderer.specChunks D V ch rD' (chunkSizes f rD'.ibs f) := by
      rw [Renderer.processLoop_eq, g1]
    have hloopT : Renderer.processLoop T V ch f rT f = Renderer.specChunks T V ch rT (chunkSizes f rD'.ibs f) := by
      rw [Renderer.processLoop_eq, k1, hibs]
    have hiD := Renderer.specChunks_idle D V hD ch (chunkSizes f rD'.ibs f) rD' hi'
    have hnsD := Renderer.specChunks_noSpatial D V ch (chunkSizes f rD'.ibs f) rD' hns'
    -- the environment stays idle, `dt` and `ibs` stay
    have henv : ∀ (C : Comps ℝ S E P) (ns : List Nat) (r : Renderer ℝ S E P X), IX r.env →
        IX (Renderer.specChunks C V ch r ns).1.env ∧ (Renderer.specChunks C V ch r ns).1.dt = r.dt := by
      intro C ns
      induction ns with
      | nil => intro r hr; exact ⟨hr, rfl⟩
      | cons n ns ihn =>
        intro r hr
        simp only [Renderer.specChunks]
        obtain ⟨q1, q2⟩ := ihn (r.specChunk C V n ch).1 (hVi _ _ hr)
        exact ⟨q1, q2⟩
    obtain ⟨hx2, hdt2⟩ := henv D (chunkSizes f rD'.ibs f) rD' hx
    have hibs2 := Renderer.specChunks_ibs D V ch (chunkSizes f rD'.ibs f) rD'
    have hk2 : (Renderer.specChunks T V ch rT (chunkSizes f rD'.ibs f)).1.Clean := by rw [hibs]; exact k2
    simp only [Renderer.runDeviceCallbacks, Renderer.runCallbacks, hos]
    rw [hloopD, hloopT]
    obtain ⟨i1, i2, i3, i4, i5, i6, i7, i8⟩ := ih (Renderer.specChunks D V ch rD' (chunkSizes f rD'.ibs f)).1
      (Renderer.specChunks T V ch rT (chunkSizes f rD'.ibs f)).1
      (by rw [hibs2, hdt2]; exact h1) (by rw [hibs2, hdt2]; exact h2) g2 hk2 hiD hnsD hx2 p3 p4 p2
    exact ⟨by rw [p1, i1], i2, i3, i4, i5, i6, by rw [i7, hibs2], by rw [i8, hdt2]⟩

end
end K
