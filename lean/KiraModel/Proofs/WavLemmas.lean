/-
  WavLemmas.lean — byte-level lemmas for the PCM-WAV model (core Lean only, no Mathlib).
-/
import KiraModel.Model.Decoder

namespace K
namespace Wav

theorem leBytes_length (k v : Nat) : (leBytes k v).length = k := by
  induction k generalizing v with
  | zero => rfl
  | succ k ih => simp [leBytes, ih]

theorem leVal_leBytes (k v : Nat) : leVal (leBytes k v) = v % 256 ^ k := by
  induction k generalizing v with
  | zero => simp [leBytes, leVal, Nat.mod_one]
  | succ k ih =>
    simp only [leBytes, leVal, ih]
    have h : (UInt8.ofNat (v % 256)).toNat = v % 256 := by
      simp
    rw [h, Nat.pow_succ, Nat.mul_comm (256 ^ k) 256, Nat.mod_mul]

theorem splitN_append {a r : List UInt8} {n : Nat} (h : a.length = n) :
    splitN n (a ++ r) = some (a, r) := by
  subst h
  simp [splitN]


theorem Fmt.ofTagBits_self (f : Fmt) : Fmt.ofTagBits f.tag f.bits = some f := by
  cases f <;> rfl

theorem Fmt.bytes_pos (f : Fmt) : 0 < f.bytes := by cases f <;> decide
theorem Fmt.bytes_le (f : Fmt) : f.bytes ≤ 8 := by cases f <;> decide
theorem Fmt.tag_lt (f : Fmt) : f.tag < 65536 := by cases f <;> decide
theorem Fmt.bits_lt (f : Fmt) : f.bits < 65536 := by cases f <;> decide
theorem Fmt.tag_cases (f : Fmt) : f.tag = 1 ∨ f.tag = 3 := by cases f <;> simp [Fmt.tag]

/-- the `fmt ` chunk the canonical header describes -/
def Spec.chunk (s : Spec) : FmtChunk := ⟨s.fmt, s.channels, s.rate, s.channels * s.fmt.bytes⟩

/-- what the demuxer model is expected to accept (beyond the field widths): Symphonia maps at
    most 26 channel positions and needs a non-zero sample rate -/
def Spec.Decodable (s : Spec) : Prop := s.Valid ∧ s.channels ≤ 26 ∧ 0 < s.rate

theorem le2 (v : Nat) (h : v < 65536) :
    leVal [UInt8.ofNat (v % 256), UInt8.ofNat (v / 256 % 256)] = v := by
  simp [leVal]; omega

theorem le4 (v : Nat) (h : v < 4294967296) :
    leVal [UInt8.ofNat (v % 256), UInt8.ofNat (v / 256 % 256), UInt8.ofNat (v / 256 / 256 % 256),
      UInt8.ofNat (v / 256 / 256 / 256 % 256)] = v := by
  simp [leVal]; omega


theorem parse_cons (l0 l1 l2 l3 : UInt8) (rest : List UInt8) :
    parse (0x52 :: 0x49 :: 0x46 :: 0x46 :: l0 :: l1 :: l2 :: l3 :: 0x57 :: 0x41 :: 0x56 :: 0x45 :: rest)
      = chunkLoop (rest.length + 13) (leVal [l0, l1, l2, l3]) 0 none rest := by
  simp [parse, splitN, tagRIFF, tagWAVE]

theorem chunkLoop_fmt16 (fuel riffLen consumed : Nat) (fmt : Option FmtChunk) (rest : List UInt8)
    (hev : consumed % 2 = 0) (h1 : consumed + 24 ≤ riffLen) (hr : riffLen < 4294967296) :
    chunkLoop (fuel + 1) riffLen consumed fmt (0x66 :: 0x6d :: 0x74 :: 0x20 :: 16 :: 0 :: 0 :: 0 :: rest)
      = match parseFmt 16 rest with
        | .error e => .error e
        | .ok (fc, rest') => chunkLoop fuel riffLen (consumed + 24) (some fc) rest' := by
  have hlen : leVal [(16 : UInt8), 0, 0, 0] = 16 := by decide
  have h2 : ¬ (consumed + 8 > riffLen) := by omega
  have h3 : ¬ (riffLen - (consumed + 8) < 16) := by omega
  have h4 : min (consumed + 8 + 16) 4294967295 = consumed + 24 := by omega
  conv => lhs; unfold chunkLoop
  simp only [hev, splitN]
  simp [h2, hlen, h3, tagFmt, h4]
  generalize parseFmt 16 rest = r
  rcases r with e | ⟨fc, rest'⟩ <;> rfl

theorem chunkLoop_data (fuel riffLen consumed : Nat) (fmt : Option FmtChunk) (d0 d1 d2 d3 : UInt8)
    (rest : List UInt8) (hev : consumed % 2 = 0) (h1 : consumed + 8 + leVal [d0, d1, d2, d3] ≤ riffLen) :
    chunkLoop (fuel + 1) riffLen consumed fmt (0x64 :: 0x61 :: 0x74 :: 0x61 :: d0 :: d1 :: d2 :: d3 :: rest)
      = .ok ⟨fmt, leVal [d0, d1, d2, d3], rest⟩ := by
  have h2 : ¬ (consumed + 8 > riffLen) := by omega
  have h3 : ¬ (riffLen - (consumed + 8) < leVal [d0, d1, d2, d3]) := by omega
  conv => lhs; unfold chunkLoop
  simp only [hev, splitN]
  simp [h2, h3, tagFmt, tagData]

/-- the `fmt ` chunk body: 16 explicit bytes -/
theorem parseFmt_canonical (t0 t1 c0 c1 r0 r1 r2 r3 a0 a1 a2 a3 b0 b1 x0 x1 : UInt8) (rest : List UInt8)
    (f : Fmt) (htag : leVal [t0, t1] = 1 ∨ leVal [t0, t1] = 3)
    (hf : Fmt.ofTagBits (leVal [t0, t1]) (leVal [x0, x1]) = some f)
    (hc1 : 1 ≤ leVal [c0, c1]) (hc26 : leVal [c0, c1] ≤ 26) (hr0 : 0 < leVal [r0, r1, r2, r3]) :
    parseFmt 16 (t0 :: t1 :: c0 :: c1 :: r0 :: r1 :: r2 :: r3 :: a0 :: a1 :: a2 :: a3 :: b0 :: b1 :: x0 :: x1 :: rest)
      = .ok (⟨f, leVal [c0, c1], leVal [r0, r1, r2, r3], leVal [b0, b1]⟩, rest) := by
  unfold parseFmt
  simp only [splitN]
  have h1 : ¬ (leVal [t0, t1] ≠ 1 ∧ leVal [t0, t1] ≠ 3) := by omega
  have h2 : ¬ (leVal [c0, c1] < 1 ∨ 26 < leVal [c0, c1]) := by omega
  have h3 : ¬ (leVal [r0, r1, r2, r3] = 0) := by omega
  simp [h1, hf, h3]
  omega

/-- **header parse**: the demuxer model reads back exactly what the encoder's header says,
    and is left positioned on the bytes that follow the header -/
theorem parse_header (s : Spec) (hs : s.Decodable) (L : Nat) (hL : 36 + L + L % 2 < 4294967296)
    (rest : List UInt8) :
    parse (header s L ++ rest) = .ok ⟨some s.chunk, L, rest⟩ := by
  obtain ⟨⟨hc1, hc2, hr⟩, hc26, hr0⟩ := hs
  have hch : s.channels < 65536 := by
    have := Fmt.bytes_pos s.fmt
    calc s.channels ≤ s.channels * s.fmt.bytes := Nat.le_mul_of_pos_right _ this
      _ < 65536 := hc2
  have htag := Fmt.tag_lt s.fmt
  have hbits := Fmt.bits_lt s.fmt
  have htc := Fmt.tag_cases s.fmt
  simp only [header, leBytes, tagRIFF, tagWAVE, tagFmt, tagData, List.cons_append, List.nil_append]
  rw [parse_cons]
  have hriff := le4 (36 + L + L % 2) hL
  have hLL := le4 L (by omega)
  have e16 : UInt8.ofNat (16 % 256) = 16 ∧ UInt8.ofNat (16 / 256 % 256) = 0
      ∧ UInt8.ofNat (16 / 256 / 256 % 256) = 0 ∧ UInt8.ofNat (16 / 256 / 256 / 256 % 256) = 0 := by decide
  simp only [e16.1, e16.2.1, e16.2.2.1, e16.2.2.2, hriff]
  rw [chunkLoop_fmt16 _ _ 0 none _ (by rfl) (by omega) hL]
  rw [parseFmt_canonical (f := s.fmt) (htag := by rw [le2 _ htag]; exact htc)
        (hf := by rw [le2 _ htag, le2 _ hbits]; exact Fmt.ofTagBits_self _)
        (hc1 := by rw [le2 _ hch]; exact hc1) (hc26 := by rw [le2 _ hch]; exact hc26)
        (hr0 := by rw [le4 _ hr]; exact hr0)]
  simp only []
  rw [chunkLoop_data _ _ _ _ _ _ _ _ _ (by rfl) (by rw [hLL]; omega)]
  rw [hLL, le2 _ hch, le4 _ hr, le2 _ hc2]
  rfl

/-! ## sample data -/

theorem encodeData_length (f : Fmt) (cs : List Nat) : (encodeData f cs).length = cs.length * f.bytes := by
  induction cs with
  | nil => simp [encodeData]
  | cons c cs ih => simp [encodeData, leBytes_length, ih, Nat.add_mul, Nat.add_comm]

theorem encodeData_append (f : Fmt) (a b : List Nat) :
    encodeData f (a ++ b) = encodeData f a ++ encodeData f b := by
  induction a with
  | nil => simp [encodeData]
  | cons c cs ih => simp [encodeData, ih]

/-- codes fit the sample width -/
def InRange (f : Fmt) (cs : List Nat) : Prop := ∀ c ∈ cs, c < 256 ^ f.bytes

/-- **sample round trip**: reading `n` samples back from the encoded bytes (whatever follows) -/
theorem readSamples_encodeData (f : Fmt) (cs : List Nat) (rest : List UInt8) (h : InRange f cs) :
    readSamples f.bytes cs.length (encodeData f cs ++ rest) = cs := by
  induction cs with
  | nil => simp [readSamples]
  | cons c cs ih =>
    have hc : c < 256 ^ f.bytes := h c (by simp)
    have ih' := ih (fun x hx => h x (by simp [hx]))
    simp only [encodeData, List.length_cons, readSamples, List.append_assoc]
    rw [List.take_left' (leBytes_length _ _), List.drop_left' (leBytes_length _ _)]
    simp [leBytes_length, leVal_leBytes, Nat.mod_eq_of_lt hc, ih']

/-! ## the static loader's packet loop -/

section Loop
variable {α σ π : Type}

/-- a run of the demuxer from state `s`: it yields the packets `ps` and then its first error
    (`true` = end of stream `IoError(UnexpectedEof)`, `false` = any other error) -/
inductive Run (next : σ → Except Bool (π × σ)) : σ → List π → Bool → Prop where
  | stop {s : σ} {e : Bool} : next s = .error e → Run next s [] e
  | more {s s' : σ} {p : π} {ps : List π} {e : Bool} :
      next s = .ok (p, s') → Run next s' ps e → Run next s (p :: ps) e

/-- decode the packets in order, stopping at the first decode/convert error -/
def decodeAll (dec : π → Except Err (List (Frame α))) : List π → Except Err (List (Frame α))
  | [] => .ok []
  | p :: ps =>
    match dec p with
    | .error e => .error e
    | .ok a =>
      match decodeAll dec ps with
      | .error e => .error e
      | .ok b => .ok (a ++ b)

/-- **the packet loop, as coded**: if the demuxer yields packets `ps` and then its first error,
    the loop (with any fuel larger than the number of packets: it does not hang) stops there and
    returns the first decode error if there is one, otherwise — on end-of-stream — all frames
    decoded so far, in order, otherwise the error. -/
theorem loadLoop_run (next : σ → Except Bool (π × σ)) (dec : π → Except Err (List (Frame α)))
    {s : σ} {ps : List π} {e : Bool} (hrun : Run next s ps e) :
    ∀ (fuel : Nat) (acc : List (Frame α)), ps.length < fuel →
      loadLoop next dec fuel s acc =
        match decodeAll dec ps with
        | .error err => .error err
        | .ok fs => if e then .ok (acc ++ fs) else .error .sym := by
  induction hrun with
  | @stop s0 e0 h =>
    intro fuel acc hf
    cases fuel with
    | zero => simp at hf
    | succ fuel => cases e0 <;> simp [loadLoop, h, decodeAll]
  | more h _ ih =>
    intro fuel acc hf
    cases fuel with
    | zero => simp at hf
    | succ fuel =>
      simp only [loadLoop, h, decodeAll]
      cases hd : dec _ with
      | error err => rfl
      | ok a =>
        simp only []
        rw [ih fuel (acc ++ a) (by simpa using hf)]
        cases decodeAll dec _ with
        | error err => rfl
        | ok b => simp [List.append_assoc]

end Loop

/-! ## frames: grouping, packets, the whole static load -/

/-- `q` frames of `ch` codes each -/
def groupFrames (ch : Nat) : Nat → List Nat → List (List Nat)
  | 0, _ => []
  | q + 1, cs => cs.take ch :: groupFrames ch q (cs.drop ch)

theorem groupFrames_length_mem (ch : Nat) : ∀ (q : Nat) (cs : List Nat), cs.length = q * ch →
    ∀ g ∈ groupFrames ch q cs, g.length = ch := by
  intro q
  induction q with
  | zero => intro cs _ g hg; simp [groupFrames] at hg
  | succ q ih =>
    intro cs hlen g hg
    simp only [groupFrames, List.mem_cons] at hg
    have h1 : ch ≤ cs.length := by rw [hlen, Nat.succ_mul]; omega
    rcases hg with rfl | hg
    · simp [List.length_take, h1]
    · exact ih (cs.drop ch) (by rw [List.length_drop, hlen, Nat.succ_mul]; omega) g hg

theorem groupFrames_split (ch : Nat) : ∀ (q r : Nat) (cs : List Nat),
    groupFrames ch (q + r) cs = groupFrames ch q (cs.take (q * ch)) ++ groupFrames ch r (cs.drop (q * ch)) := by
  intro q
  induction q with
  | zero => intro r cs; simp [groupFrames]
  | succ q ih =>
    intro r cs
    have e : q + 1 + r = (q + r) + 1 := by omega
    rw [e]
    simp only [groupFrames, List.cons_append]
    rw [ih r (cs.drop ch)]
    have e2 : (q + 1) * ch = ch + q * ch := by rw [Nat.succ_mul]; omega
    rw [e2, List.take_take, List.drop_take, List.drop_drop]
    simp [Nat.min_eq_left (Nat.le_add_right ch (q * ch))]

theorem InRange.take {f : Fmt} {cs : List Nat} (h : InRange f cs) (n : Nat) : InRange f (cs.take n) :=
  fun c hc => h c (List.mem_of_mem_take hc)
theorem InRange.drop {f : Fmt} {cs : List Nat} (h : InRange f cs) (n : Nat) : InRange f (cs.drop n) :=
  fun c hc => h c (List.mem_of_mem_drop hc)

/-- **packet decode**: the PCM codec model reads the encoded frames back, grouped per frame -/
theorem readFrames_encodeData (f : Fmt) (ch : Nat) (hch : 0 < ch) :
    ∀ (q N : Nat) (cs : List Nat), cs.length = q * ch → q ≤ N → InRange f cs →
      readFrames f.bytes ch N (encodeData f cs) = groupFrames ch q cs := by
  have hk := Fmt.bytes_pos f
  have hB : 0 < ch * f.bytes := Nat.mul_pos hch hk
  intro q
  induction q with
  | zero =>
    intro N cs hlen _ _
    have : cs = [] := List.length_eq_zero_iff.mp (by simpa using hlen)
    subst this
    cases N with
    | zero => rfl
    | succ N => simp [readFrames, encodeData, groupFrames]; omega
  | succ q ih =>
    intro N cs hlen hN hr
    cases N with
    | zero => omega
    | succ N =>
      have h1 : ch ≤ cs.length := by rw [hlen, Nat.succ_mul]; omega
      have hsplit : cs = cs.take ch ++ cs.drop ch := (List.take_append_drop ch cs).symm
      have hla : (cs.take ch).length = ch := by simp [List.length_take, h1]
      have hea : (encodeData f (cs.take ch)).length = ch * f.bytes := by rw [encodeData_length, hla]
      have henc : encodeData f cs = encodeData f (cs.take ch) ++ encodeData f (cs.drop ch) := by
        rw [← encodeData_append, ← hsplit]
      simp only [readFrames, groupFrames]
      rw [henc, List.take_left' hea, List.drop_left' hea]
      have hnot : ¬ (encodeData f (cs.take ch)).length < ch * f.bytes := by omega
      simp only [hnot, if_false]
      have hrs := readSamples_encodeData f (cs.take ch) [] (hr.take ch)
      rw [List.append_nil, hla] at hrs
      rw [hrs, ih N (cs.drop ch) (by rw [List.length_drop, hlen, Nat.succ_mul]; omega) (by omega) (hr.drop ch)]

section Load
variable {α : Type} [Add α] [Sub α] [Mul α] [Div α] [Neg α] [LT α] [LE α]
  [DecidableLT α] [DecidableLE α] [OfScientific α] [KOps α]

/-- the frame kira builds from the codes of one file frame: mono duplicated, stereo paired -/
def frameOfCodes (fd : FloatDec α) (f : Fmt) (ch : Nat) (xs : List Nat) : Frame α :=
  if ch = 1 then ⟨convSample fd f (xs.headD 0), convSample fd f (xs.headD 0)⟩
  else ⟨convSample fd f (xs.headD 0), convSample fd f (xs.getD 1 0)⟩

theorem assembleFrame_codes (fd : FloatDec α) (f : Fmt) (ch : Nat) (hch : ch = 1 ∨ ch = 2)
    (xs : List Nat) (hx : xs.length = ch) :
    assembleFrame ch (xs.map (convSample fd f)) = .ok (frameOfCodes fd f ch xs) := by
  rcases hch with rfl | rfl
  · match xs, hx with
    | [m], _ => simp [assembleFrame, frameOfCodes]
  · match xs, hx with
    | [l, r], _ => simp [assembleFrame, frameOfCodes]

theorem mapM_ok {β γ : Type} (g : β → Except Err γ) (h : β → γ) :
    ∀ (l : List β), (∀ x ∈ l, g x = .ok (h x)) → l.mapM g = .ok (l.map h) := by
  intro l
  induction l with
  | nil => intro _; rfl
  | cons x xs ih =>
    intro hx
    rw [List.mapM_cons, hx x (by simp), ih (fun y hy => hx y (by simp [hy]))]
    rfl

/-- **one packet**: decoding the encoded bytes of `q ≤ 1152` whole frames (1 or 2 channels) gives
    their frames -/
theorem decodePacket_encodeData (fd : FloatDec α) (f : Fmt) (ch rate ba : Nat) (hch : ch = 1 ∨ ch = 2)
    (q : Nat) (hq : q ≤ maxFramesPerPacket) (cs : List Nat) (hlen : cs.length = q * ch) (hr : InRange f cs) :
    decodePacket fd ⟨f, ch, rate, ba⟩ (encodeData f cs)
      = .ok ((groupFrames ch q cs).map (frameOfCodes fd f ch)) := by
  have hpos : 0 < ch := by omega
  unfold decodePacket assemble
  simp only [hch, if_true]
  rw [readFrames_encodeData f ch hpos q maxFramesPerPacket cs hlen hq hr, List.mapM_map]
  exact mapM_ok _ _ _ (fun g hg =>
    assembleFrame_codes fd f ch hch g (groupFrames_length_mem ch q cs hlen g hg))

/-- one step of the demuxer model on a file whose data chunk holds `pre` followed by the encoded
    frames `rem` (`r > 0` whole frames): it yields the next `min r 1152` frames -/
theorem nextPacket_encodeData (f : Fmt) (ch : Nat) (hch : 0 < ch) (r : Nat) (hr : 0 < r)
    (rem : List Nat) (hlen : rem.length = r * ch) (pre padd : List UInt8) :
    nextPacket (ch * f.bytes) (pre.length + r * (ch * f.bytes)) (pre ++ (encodeData f rem ++ padd)) pre.length
      = .packet (encodeData f (rem.take (min r maxFramesPerPacket * ch)))
          ((pre ++ encodeData f (rem.take (min r maxFramesPerPacket * ch))).length) := by
  have hk := Fmt.bytes_pos f
  have hB : 0 < ch * f.bytes := Nat.mul_pos hch hk
  have hq : 0 < min r maxFramesPerPacket := by
    simp only [maxFramesPerPacket]; omega
  have hqr : min r maxFramesPerPacket ≤ r := Nat.min_le_left _ _
  generalize hqd : min r maxFramesPerPacket = q at hq hqr
  have hB0 : ¬ (ch * f.bytes = 0) := by omega
  have hlt : pre.length < pre.length + r * (ch * f.bytes) := by
    have := Nat.mul_pos hr hB; omega
  have hdiv : (pre.length + r * (ch * f.bytes) - pre.length) / (ch * f.bytes) = r := by
    rw [Nat.add_sub_cancel_left, Nat.mul_div_cancel _ hB]
  have hr0 : ¬ (r = 0) := by omega
  -- the packet bytes
  have hsplit : rem = rem.take (q * ch) ++ rem.drop (q * ch) := (List.take_append_drop _ rem).symm
  have hla : (rem.take (q * ch)).length = q * ch := by
    rw [List.length_take, hlen]; exact Nat.min_eq_left (Nat.mul_le_mul_right ch hqr)
  have hea : (encodeData f (rem.take (q * ch))).length = q * (ch * f.bytes) := by
    rw [encodeData_length, hla, Nat.mul_assoc]
  have henc : encodeData f rem = encodeData f (rem.take (q * ch)) ++ encodeData f (rem.drop (q * ch)) := by
    rw [← encodeData_append, ← hsplit]
  have hne : (encodeData f (rem.take (q * ch))).isEmpty = false := by
    have : 0 < (encodeData f (rem.take (q * ch))).length := by rw [hea]; exact Nat.mul_pos hq hB
    cases h : encodeData f (rem.take (q * ch)) with
    | nil => rw [h] at this; simp at this
    | cons _ _ => rfl
  unfold nextPacket
  simp only [hB0, if_false, hlt, if_true, hdiv, hr0, hqd]
  rw [List.drop_left' rfl, henc, List.append_assoc, List.take_left' hea]
  simp only [hne, Bool.false_eq_true, if_false, List.length_append]

/-- **the packet loop on an encoded file**: from the byte offset reached after `pre`, the static
    loader appends exactly the remaining frames and stops (any fuel > number of frames left) -/
theorem loadLoop_encodeData (fd : FloatDec α) (f : Fmt) (ch rate : Nat) (hch : ch = 1 ∨ ch = 2)
    (fmt? : Option FmtChunk) (padd : List UInt8) :
    ∀ (r : Nat) (rem : List Nat) (pre : List UInt8) (fuel : Nat) (acc : List (Frame α)),
      rem.length = r * ch → InRange f rem → r < fuel →
      loadLoop (wavNext ⟨f, ch, rate, ch * f.bytes⟩
                  ⟨fmt?, pre.length + r * (ch * f.bytes), pre ++ (encodeData f rem ++ padd)⟩)
               (decodePacket fd ⟨f, ch, rate, ch * f.bytes⟩) fuel pre.length acc
        = .ok (acc ++ (groupFrames ch r rem).map (frameOfCodes fd f ch)) := by
  have hpos : 0 < ch := by omega
  intro r
  induction r using Nat.strongRecOn with
  | _ r ih =>
    intro rem pre fuel acc hlen hrng hfuel
    cases fuel with
    | zero => omega
    | succ fuel =>
      by_cases hr : r = 0
      · subst hr
        have : rem = [] := List.length_eq_zero_iff.mp (by simpa using hlen)
        subst this
        have hB0 : ¬ (ch * f.bytes = 0) := by have := Fmt.bytes_pos f; have := Nat.mul_pos hpos this; omega
        simp [loadLoop, wavNext, nextPacket, hB0, groupFrames]
      · have hr' : 0 < r := Nat.pos_of_ne_zero hr
        have hnp := nextPacket_encodeData f ch hpos r hr' rem hlen pre padd
        have hqr : min r maxFramesPerPacket ≤ r := Nat.min_le_left _ _
        have hq : 0 < min r maxFramesPerPacket := by simp only [maxFramesPerPacket]; omega
        have hq2 : min r maxFramesPerPacket ≤ maxFramesPerPacket := Nat.min_le_right _ _
        generalize hqd : min r maxFramesPerPacket = q at hnp hq hqr hq2
        have hla : (rem.take (q * ch)).length = q * ch := by
          rw [List.length_take, hlen]; exact Nat.min_eq_left (Nat.mul_le_mul_right ch hqr)
        have hdec := decodePacket_encodeData fd f ch rate (ch * f.bytes) hch q hq2 (rem.take (q * ch)) hla
          (hrng.take _)
        have hsplit : rem = rem.take (q * ch) ++ rem.drop (q * ch) := (List.take_append_drop _ rem).symm
        have henc : encodeData f rem = encodeData f (rem.take (q * ch)) ++ encodeData f (rem.drop (q * ch)) := by
          rw [← encodeData_append, ← hsplit]
        have hea : (encodeData f (rem.take (q * ch))).length = q * (ch * f.bytes) := by
          rw [encodeData_length, hla, Nat.mul_assoc]
        -- the reader seen from the new offset
        have hdata : pre ++ (encodeData f rem ++ padd)
            = (pre ++ encodeData f (rem.take (q * ch))) ++ (encodeData f (rem.drop (q * ch)) ++ padd) := by
          rw [henc]; simp [List.append_assoc]
        have hdl : pre.length + r * (ch * f.bytes)
            = (pre ++ encodeData f (rem.take (q * ch))).length + (r - q) * (ch * f.bytes) := by
          rw [List.length_append, hea, Nat.add_assoc, ← Nat.add_mul, Nat.add_sub_cancel' hqr]
        have hlen' : (rem.drop (q * ch)).length = (r - q) * ch := by
          rw [List.length_drop, hlen, Nat.sub_mul]
        have ih' := ih (r - q) (by omega) (rem.drop (q * ch)) (pre ++ encodeData f (rem.take (q * ch))) fuel
          (acc ++ (groupFrames ch q (rem.take (q * ch))).map (frameOfCodes fd f ch)) hlen' (hrng.drop _)
          (by omega)
        rw [← hdata, ← hdl] at ih'
        simp only [loadLoop, wavNext, hnp, hdec]
        rw [ih']
        have hg := groupFrames_split ch q (r - q) rem
        rw [Nat.add_sub_cancel' hqr] at hg
        rw [hg, List.map_append, List.append_assoc]

/-- the RIFF size field can hold a file with `L` data bytes -/
def FitsRiff (L : Nat) : Prop := 36 + L + L % 2 < 4294967296

/-- **static load of an encoded file (1 or 2 channels)**: exactly the encoded frames, in order,
    with the header's sample rate -/
theorem loadStatic_encode (fd : FloatDec α) (s : Spec) (hs : s.Decodable)
    (hch : s.channels = 1 ∨ s.channels = 2) (m : Nat) (codes : List Nat)
    (hlen : codes.length = m * s.channels) (hr : InRange s.fmt codes)
    (hL : FitsRiff (codes.length * s.fmt.bytes)) :
    loadStatic fd (encode s codes)
      = .ok (s.rate, (groupFrames s.channels m codes).map (frameOfCodes fd s.fmt s.channels)) := by
  unfold loadStatic encode
  rw [encodeData_length, parse_header s hs _ hL]
  simp only [Spec.chunk]
  have hdl : codes.length * s.fmt.bytes = ([] : List UInt8).length + m * (s.channels * s.fmt.bytes) := by
    rw [hlen, Nat.mul_assoc]; simp
  have hdata : encodeData s.fmt codes ++ pad (codes.length * s.fmt.bytes)
      = [] ++ (encodeData s.fmt codes ++ pad (codes.length * s.fmt.bytes)) := rfl
  have hfuel : m < (encodeData s.fmt codes ++ pad (codes.length * s.fmt.bytes)).length + 2 := by
    rw [List.length_append, encodeData_length, hlen]
    have := Fmt.bytes_pos s.fmt
    have h1 : m ≤ m * s.channels := Nat.le_mul_of_pos_right _ (by omega)
    have h2 : m * s.channels ≤ m * s.channels * s.fmt.bytes := Nat.le_mul_of_pos_right _ this
    omega
  have := loadLoop_encodeData fd s.fmt s.channels s.rate hch (some ⟨s.fmt, s.channels, s.rate, s.channels * s.fmt.bytes⟩)
    (pad (codes.length * s.fmt.bytes)) m codes [] _ [] hlen hr hfuel
  rw [← hdata, ← hdl] at this
  simp only [List.length_nil] at this
  rw [this]
  simp

/-- **more than two channels are rejected** as soon as there is one whole frame to decode -/
theorem loadStatic_encode_multichannel (fd : FloatDec α) (s : Spec) (hs : s.Decodable)
    (hch : 3 ≤ s.channels) (m : Nat) (hm : 0 < m) (codes : List Nat)
    (hlen : codes.length = m * s.channels) (hL : FitsRiff (codes.length * s.fmt.bytes)) :
    loadStatic fd (encode s codes) = .error .chan := by
  unfold loadStatic encode
  rw [encodeData_length, parse_header s hs _ hL]
  simp only [Spec.chunk]
  have hdl : codes.length * s.fmt.bytes = ([] : List UInt8).length + m * (s.channels * s.fmt.bytes) := by
    rw [hlen, Nat.mul_assoc]; simp
  have hnp := nextPacket_encodeData s.fmt s.channels (by omega) m hm codes hlen [] (pad (codes.length * s.fmt.bytes))
  rw [← hdl] at hnp
  simp only [List.nil_append, List.length_nil] at hnp
  have hne : ¬ (s.channels = 1 ∨ s.channels = 2) := by omega
  simp only [loadLoop, wavNext, hnp, decodePacket, assemble, hne, if_false]

end Load

end Wav
end K
