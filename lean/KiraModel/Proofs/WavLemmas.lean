/-
  WavLemmas.lean — byte-level lemmas for the PCM-WAV model (core Lean only, no Mathlib).
-/
import KiraModel.Model.Decoder

namespace K
namespace Wav

theorem leBytes_length (k v : Nat) : (leBytes k v).length = k := by
  induction k generalizing v with
  | zero => rfl
  | succ k ih => simp [leBytes, ih]

theorem leVal_leBytes (k v : Nat) : leVal (leBytes k v) = v % 256 ^ k := by
  induction k generalizing v with
  | zero => simp [leBytes, leVal, Nat.mod_one]
  | succ k ih =>
    simp only [leBytes, leVal, ih]
    have h : (UInt8.ofNat (v % 256)).toNat = v % 256 := by
      simp
    rw [h, Nat.pow_succ, Nat.mul_comm (256 ^ k) 256, Nat.mod_mul]

theorem splitN_append {a r : List UInt8} {n : Nat} (h : a.length = n) :
    splitN n (a ++ r) = some (a, r) := by
  subst h
  simp [splitN]


theorem Fmt.ofTagBits_self (f : Fmt) : Fmt.ofTagBits f.tag f.bits = some f := by
  cases f <;> rfl

theorem Fmt.bytes_pos (f : Fmt) : 0 < f.bytes := by cases f <;> decide
theorem Fmt.bytes_le (f : Fmt) : f.bytes ≤ 8 := by cases f <;> decide
theorem Fmt.tag_lt (f : Fmt) : f.tag < 65536 := by cases f <;> decide
theorem Fmt.bits_lt (f : Fmt) : f.bits < 65536 := by cases f <;> decide
theorem Fmt.tag_cases (f : Fmt) : f.tag = 1 ∨ f.tag = 3 := by cases f <;> simp [Fmt.tag]

/-- the `fmt ` chunk the canonical header describes -/
def Spec.chunk (s : Spec) : FmtChunk := ⟨s.fmt, s.channels, s.rate, s.channels * s.fmt.bytes⟩

/-- what the demuxer model is expected to accept (beyond the field widths): Symphonia maps at
    most 26 channel positions and needs a non-zero sample rate -/
def Spec.Decodable (s : Spec) : Prop := s.Valid ∧ s.channels ≤ 26 ∧ 0 < s.rate

theorem le2 (v : Nat) (h : v < 65536) :
    leVal [UInt8.ofNat (v % 256), UInt8.ofNat (v / 256 % 256)] = v := by
  simp [leVal]; omega

theorem le4 (v : Nat) (h : v < 4294967296) :
    leVal [UInt8.ofNat (v % 256), UInt8.ofNat (v / 256 % 256), UInt8.ofNat (v / 256 / 256 % 256),
      UInt8.ofNat (v / 256 / 256 / 256 % 256)] = v := by
  simp [leVal]; omega


theorem parse_cons (l0 l1 l2 l3 : UInt8) (rest : List UInt8) :
    parse (0x52 :: 0x49 :: 0x46 :: 0x46 :: l0 :: l1 :: l2 :: l3 :: 0x57 :: 0x41 :: 0x56 :: 0x45 :: rest)
      = chunkLoop (rest.length + 13) (leVal [l0, l1, l2, l3]) 0 none rest := by
  simp [parse, splitN, tagRIFF, tagWAVE]

theorem chunkLoop_fmt16 (fuel riffLen consumed : Nat) (fmt : Option FmtChunk) (rest : List UInt8)
    (hev : consumed % 2 = 0) (h1 : consumed + 24 ≤ riffLen) (hr : riffLen < 4294967296) :
    chunkLoop (fuel + 1) riffLen consumed fmt (0x66 :: 0x6d :: 0x74 :: 0x20 :: 16 :: 0 :: 0 :: 0 :: rest)
      = match parseFmt 16 rest with
        | .error e => .error e
        | .ok (fc, rest') => chunkLoop fuel riffLen (consumed + 24) (some fc) rest' := by
  have hlen : leVal [(16 : UInt8), 0, 0, 0] = 16 := by decide
  have h2 : ¬ (consumed + 8 > riffLen) := by omega
  have h3 : ¬ (riffLen - (consumed + 8) < 16) := by omega
  have h4 : min (consumed + 8 + 16) 4294967295 = consumed + 24 := by omega
  conv => lhs; unfold chunkLoop
  simp only [hev, splitN]
  simp [h2, hlen, h3, tagFmt, h4]
  generalize parseFmt 16 rest = r
  rcases r with e | ⟨fc, rest'⟩ <;> rfl

theorem chunkLoop_data (fuel riffLen consumed : Nat) (fmt : Option FmtChunk) (d0 d1 d2 d3 : UInt8)
    (rest : List UInt8) (hev : consumed % 2 = 0) (h1 : consumed + 8 + leVal [d0, d1, d2, d3] ≤ riffLen) :
    chunkLoop (fuel + 1) riffLen consumed fmt (0x64 :: 0x61 :: 0x74 :: 0x61 :: d0 :: d1 :: d2 :: d3 :: rest)
      = .ok ⟨fmt, leVal [d0, d1, d2, d3], rest⟩ := by
  have h2 : ¬ (consumed + 8 > riffLen) := by omega
  have h3 : ¬ (riffLen - (consumed + 8) < leVal [d0, d1, d2, d3]) := by omega
  conv => lhs; unfold chunkLoop
  simp only [hev, splitN]
  simp [h2, h3, tagFmt, tagData]

/-- the `fmt ` chunk body: 16 explicit bytes -/
theorem parseFmt_canonical (t0 t1 c0 c1 r0 r1 r2 r3 a0 a1 a2 a3 b0 b1 x0 x1 : UInt8) (rest : List UInt8)
    (f : Fmt) (htag : leVal [t0, t1] = 1 ∨ leVal [t0, t1] = 3)
    (hf : Fmt.ofTagBits (leVal [t0, t1]) (leVal [x0, x1]) = some f)
    (hc1 : 1 ≤ leVal [c0, c1]) (hc26 : leVal [c0, c1] ≤ 26) (hr0 : 0 < leVal [r0, r1, r2, r3]) :
    parseFmt 16 (t0 :: t1 :: c0 :: c1 :: r0 :: r1 :: r2 :: r3 :: a0 :: a1 :: a2 :: a3 :: b0 :: b1 :: x0 :: x1 :: rest)
      = .ok (⟨f, leVal [c0, c1], leVal [r0, r1, r2, r3], leVal [b0, b1]⟩, rest) := by
  unfold parseFmt
  simp only [splitN]
  have h1 : ¬ (leVal [t0, t1] ≠ 1 ∧ leVal [t0, t1] ≠ 3) := by omega
  have h2 : ¬ (leVal [c0, c1] < 1 ∨ 26 < leVal [c0, c1]) := by omega
  have h3 : ¬ (leVal [r0, r1, r2, r3] = 0) := by omega
  simp [h1, hf, h3]
  omega

/-- **header parse**: the demuxer model reads back exactly what the encoder's header says,
    and is left positioned on the bytes that follow the header -/
theorem parse_header (s : Spec) (hs : s.Decodable) (L : Nat) (hL : 36 + L + L % 2 < 4294967296)
    (rest : List UInt8) :
    parse (header s L ++ rest) = .ok ⟨some s.chunk, L, rest⟩ := by
  obtain ⟨⟨hc1, hc2, hr⟩, hc26, hr0⟩ := hs
  have hch : s.channels < 65536 := by
    have := Fmt.bytes_pos s.fmt
    calc s.channels ≤ s.channels * s.fmt.bytes := Nat.le_mul_of_pos_right _ this
      _ < 65536 := hc2
  have htag := Fmt.tag_lt s.fmt
  have hbits := Fmt.bits_lt s.fmt
  have htc := Fmt.tag_cases s.fmt
  simp only [header, leBytes, tagRIFF, tagWAVE, tagFmt, tagData, List.cons_append, List.nil_append]
  rw [parse_cons]
  have hriff := le4 (36 + L + L % 2) hL
  have hLL := le4 L (by omega)
  have e16 : UInt8.ofNat (16 % 256) = 16 ∧ UInt8.ofNat (16 / 256 % 256) = 0
      ∧ UInt8.ofNat (16 / 256 / 256 % 256) = 0 ∧ UInt8.ofNat (16 / 256 / 256 / 256 % 256) = 0 := by decide
  simp only [e16.1, e16.2.1, e16.2.2.1, e16.2.2.2, hriff]
  rw [chunkLoop_fmt16 _ _ 0 none _ (by rfl) (by omega) hL]
  rw [parseFmt_canonical (f := s.fmt) (htag := by rw [le2 _ htag]; exact htc)
        (hf := by rw [le2 _ htag, le2 _ hbits]; exact Fmt.ofTagBits_self _)
        (hc1 := by rw [le2 _ hch]; exact hc1) (hc26 := by rw [le2 _ hch]; exact hc26)
        (hr0 := by rw [le4 _ hr]; exact hr0)]
  simp only []
  rw [chunkLoop_data _ _ _ _ _ _ _ _ _ (by rfl) (by rw [hLL]; omega)]
  rw [hLL, le2 _ hch, le4 _ hr, le2 _ hc2]
  rfl

/-! ## sample data -/

theorem encodeData_length (f : Fmt) (cs : List Nat) : (encodeData f cs).length = cs.length * f.bytes := by
  induction cs with
  | nil => simp [encodeData]
  | cons c cs ih => simp [encodeData, leBytes_length, ih, Nat.add_mul, Nat.add_comm]

theorem encodeData_append (f : Fmt) (a b : List Nat) :
    encodeData f (a ++ b) = encodeData f a ++ encodeData f b := by
  induction a with
  | nil => simp [encodeData]
  | cons c cs ih => simp [encodeData, ih]

/-- codes fit the sample width -/
def InRange (f : Fmt) (cs : List Nat) : Prop := ∀ c ∈ cs, c < 256 ^ f.bytes

/-- **sample round trip**: reading `n` samples back from the encoded bytes (whatever follows) -/
theorem readSamples_encodeData (f : Fmt) (cs : List Nat) (rest : List UInt8) (h : InRange f cs) :
    readSamples f.bytes cs.length (encodeData f cs ++ rest) = cs := by
  induction cs with
  | nil => simp [readSamples]
  | cons c cs ih =>
    have hc : c < 256 ^ f.bytes := h c (by simp)
    have ih' := ih (fun x hx => h x (by simp [hx]))
    simp only [encodeData, List.length_cons, readSamples, List.append_assoc]
    rw [List.take_left' (leBytes_length _ _), List.drop_left' (leBytes_length _ _)]
    simp [leBytes_length, leVal_leBytes, Nat.mod_eq_of_lt hc, ih']

/-! ## the static loader's packet loop -/

section Loop
variable {α σ π : Type}

/-- a run of the demuxer from state `s`: it yields the packets `ps` and then its first error
    (`true` = end of stream `IoError(UnexpectedEof)`, `false` = any other error) -/
inductive Run (next : σ → Except Bool (π × σ)) : σ → List π → Bool → Prop where
  | stop {s : σ} {e : Bool} : next s = .error e → Run next s [] e
  | more {s s' : σ} {p : π} {ps : List π} {e : Bool} :
      next s = .ok (p, s') → Run next s' ps e → Run next s (p :: ps) e

/-- decode the packets in order, stopping at the first decode/convert error -/
def decodeAll (dec : π → Except Err (List (Frame α))) : List π → Except Err (List (Frame α))
  | [] => .ok []
  | p :: ps =>
    match dec p with
    | .error e => .error e
    | .ok a =>
      match decodeAll dec ps with
      | .error e => .error e
      | .ok b => .ok (a ++ b)

/-- **the packet loop, as coded**: if the demuxer yields packets `ps` and then its first error,
    the loop (with any fuel larger than the number of packets: it does not hang) stops there and
    returns the first decode error if there is one, otherwise — on end-of-stream — all frames
    decoded so far, in order, otherwise the error. -/
theorem loadLoop_run (next : σ → Except Bool (π × σ)) (dec : π → Except Err (List (Frame α)))
    {s : σ} {ps : List π} {e : Bool} (hrun : Run next s ps e) :
    ∀ (fuel : Nat) (acc : List (Frame α)), ps.length < fuel →
      loadLoop next dec fuel s acc =
        match decodeAll dec ps with
        | .error err => .error err
        | .ok fs => if e then .ok (acc ++ fs) else .error .sym := by
  induction hrun with
  | @stop s0 e0 h =>
    intro fuel acc hf
    cases fuel with
    | zero => simp at hf
    | succ fuel => cases e0 <;> simp [loadLoop, h, decodeAll]
  | more h _ ih =>
    intro fuel acc hf
    cases fuel with
    | zero => simp at hf
    | succ fuel =>
      simp only [loadLoop, h, decodeAll]
      cases hd : dec _ with
      | error err => rfl
      | ok a =>
        simp only []
        rw [ih fuel (acc ++ a) (by simpa using hf)]
        cases decodeAll dec _ with
        | error err => rfl
        | ok b => simp [List.append_assoc]

end Loop

end Wav
end K
