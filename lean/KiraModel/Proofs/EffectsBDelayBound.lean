/-
  EffectsBDelayBound.lean — BIBO bound for the delay line with stagnant parameters and a feedback chain
  whose gain is bounded on a set of states.  Helper lemmas for C13_delay_bounded.
-/
import KiraModel.Proofs.EffectsBReverbBound

namespace K

/-- both samples within `B` -/
def Frame.Within (f : Frame ℝ) (B : ℝ) : Prop := |f.left| ≤ B ∧ |f.right| ≤ B

theorem asAmplitude_nonneg (db : ℝ) : 0 ≤ asAmplitude db := by
  unfold asAmplitude
  split
  · norm_num
  · split
    · norm_num
    · simp only [pow32_real, r32_real, lit_10]
      exact Real.rpow_nonneg (by norm_num) _

namespace Delay
open LineFx
variable {φ : Type}

/-- a set `Q` of feedback-effect states on which the chain maps frames within `B` to frames within `G·B` -/
def BoundedChain (C : FxChain ℝ φ) (dt : ℝ) (info : Info ℝ) (Q : φ → Prop) (G B : ℝ) : Prop :=
  ∀ s xs, Q s → (∀ x ∈ xs, Frame.Within x B) →
    Q (C.process s xs dt info).1 ∧ ∀ y ∈ (C.process s xs dt info).2, Frame.Within y (G * B)

theorem framesC_bounded (C : FxChain ℝ φ) (amp m dt : ℝ) (info : Info ℝ) (hC : C.Good dt info)
    (Q : φ → Prop) (G B X : ℝ) (hQ : BoundedChain C dt info Q G B) (ha : 0 ≤ amp) (hm0 : 0 ≤ m) (hm1 : m ≤ 1)
    (hX : 0 ≤ X) (hG : 0 ≤ G) (hB0 : 0 ≤ B) (hB : X + amp * (G * B) ≤ B) :
    ∀ (xs : List (Frame ℝ)) (buf : List (Frame ℝ)) (s : φ), 1 ≤ buf.length → Q s →
      (∀ b ∈ buf, Frame.Within b B) → (∀ x ∈ xs, Frame.Within x X) →
      (∀ b ∈ (framesC C amp m dt info (buf, s) xs).1.1, Frame.Within b B)
        ∧ Q (framesC C amp m dt info (buf, s) xs).1.2
        ∧ ∀ y ∈ (framesC C amp m dt info (buf, s) xs).2, Frame.Within y (amp * (G * B) + X) := by
  intro xs
  induction xs with
  | nil => intro buf s _ hs hb _; exact ⟨hb, hs, by simp [framesC]⟩
  | cons x xs ih =>
    intro buf s hl hs hb hx
    cases buf with
    | nil => simp at hl
    | cons b rest =>
      have hbB : Frame.Within b B := hb b (by simp)
      obtain ⟨q1, q2⟩ := hQ s [b] hs (by intro y hy; simp at hy; rw [hy]; exact hbB)
      have hlen1 : (C.process s [b] dt info).2.length = 1 := by rw [hC.len]; rfl
      obtain ⟨t, ht⟩ : ∃ t, (C.process s [b] dt info).2 = [t] := by
        match h : (C.process s [b] dt info).2, hlen1 with
        | [t], _ => exact ⟨t, rfl⟩
      have htG : Frame.Within t (G * B) := q2 t (by rw [ht]; simp)
      have hGB : 0 ≤ G * B := mul_nonneg hG hB0
      have hts : Frame.Within (t.scale amp) (amp * (G * B)) := by
        constructor
        · simp only [FrameB.scale_left, abs_mul, abs_of_nonneg ha]
          rw [mul_comm]; exact mul_le_mul_of_nonneg_left htG.1 ha
        · simp only [FrameB.scale_right, abs_mul, abs_of_nonneg ha]
          rw [mul_comm]; exact mul_le_mul_of_nonneg_left htG.2 ha
      have hxX : Frame.Within x X := hx x (by simp)
      have hnew : Frame.Within (Frame.add x (t.scale amp)) B := by
        constructor
        · simp only [FrameB.add_left]
          exact le_trans (abs_add_le _ _) (by linarith [hxX.1, hts.1])
        · simp only [FrameB.add_right]
          exact le_trans (abs_add_le _ _) (by linarith [hxX.2, hts.2])
      have hstep : chunkC C amp m dt info (b :: rest, s) [x]
          = ((rest ++ [Frame.add x (t.scale amp)], (C.process s [b] dt info).1), [blend (t.scale amp) x m]) := by
        simp [chunkC, ht]
      have hb' : ∀ c ∈ rest ++ [Frame.add x (t.scale amp)], Frame.Within c B := by
        intro c hc
        simp only [List.mem_append, List.mem_singleton] at hc
        rcases hc with hc | rfl
        · exact hb c (by simp [hc])
        · exact hnew
      obtain ⟨r1, r2, r3⟩ := ih (rest ++ [Frame.add x (t.scale amp)]) (C.process s [b] dt info).1 (by simp) q1 hb'
        (fun y hy => hx y (by simp [hy]))
      simp only [framesC, hstep]
      refine ⟨r1, r2, ?_⟩
      intro y hy
      simp only [List.cons_append, List.nil_append, List.mem_cons] at hy
      rcases hy with rfl | hy
      · exact Reverb.blend_bound _ _ _ _ _ hm0 hm1 (mul_nonneg ha hGB) hX hts.1 hts.2 hxX.1 hxX.2
      · exact r3 y hy

end Delay
end K
