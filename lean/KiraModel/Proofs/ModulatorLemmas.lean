/-
  Helper lemmas for the modulators (LFO, tweener) and the modulator store over ℝ.
-/
import KiraModel.Proofs.ParameterLemmas
import KiraModel.Proofs.ClockTimeLemmas
import KiraModel.Model.ModulatorChunk
import Mathlib.Tactic.Linarith
import Mathlib.Tactic.Ring
import Mathlib.Tactic.NormNum
import Mathlib.Tactic.Positivity

namespace K

/-! ### numerics -/

@[simp] theorem lit_075 : (0.75 : ℝ) = 3 / 4 := by norm_num
@[simp] theorem lit_4 : (4.0 : ℝ) = 4 := by norm_num

theorem tau_real : (tau : ℝ) = 2 * Real.pi := by
  unfold tau; simp

theorem tau_pos : (0 : ℝ) < tau := by
  rw [tau_real]; positivity

/-- over ℝ, `x % 1.0` is `x - trunc x` -/
theorem rem1_real (x : ℝ) : rem1 x = fract x := by
  unfold rem1 fract
  by_cases h : x - trunc x = 0
  · simp [h]
  · simp [h]

theorem rem1_nonneg (x : ℝ) (hx : 0 ≤ x) : rem1 x = Int.fract x := by
  rw [rem1_real, ClockTime.fract_nonneg_real x hx]

/-- over ℝ, `rem_euclid(1.0)` is the Euclidean fractional part `x − ⌊x⌋ ∈ [0, 1)`, for every sign of `x` -/
theorem remEuclid1_real (x : ℝ) : remEuclid1 x = Int.fract x := by
  unfold remEuclid1
  simp only [rem1_real, lit_0, lit_1]
  by_cases hx : 0 ≤ x
  · rw [ClockTime.fract_nonneg_real x hx, if_neg (not_lt.mpr (Int.fract_nonneg x))]
  · have hx' : x < 0 := lt_of_not_ge hx
    have hfr : fract x = x - (⌈x⌉ : ℝ) := by unfold fract; rw [trunc_neg x hx']
    rw [hfr]
    by_cases hz : Int.fract x = 0
    · -- a whole number: the remainder is 0, nothing is added
      have hxf : x = (⌊x⌋ : ℝ) := by
        have := Int.floor_add_fract x; rw [hz, add_zero] at this; exact this.symm
      have hc : (⌈x⌉ : ℝ) = x := by
        have h : ⌈x⌉ = ⌊x⌋ := by rw [hxf, Int.ceil_intCast, Int.floor_intCast]
        rw [h]; exact hxf.symm
      rw [hc, sub_self, if_neg (lt_irrefl _), hz]
    · -- not whole: ⌈x⌉ = ⌊x⌋ + 1, the remainder x − ⌈x⌉ is negative, adding 1 gives x − ⌊x⌋
      have hpos : 0 < Int.fract x := lt_of_le_of_ne (Int.fract_nonneg x) (Ne.symm hz)
      have hc : ⌈x⌉ = ⌊x⌋ + 1 := by
        rw [Int.ceil_eq_iff]
        have h1 := Int.floor_le x
        have h2 := Int.lt_floor_add_one x
        have h3 : x - (⌊x⌋ : ℝ) = Int.fract x := rfl
        push_cast
        constructor <;> linarith
      have hc' : (⌈x⌉ : ℝ) = (⌊x⌋ : ℝ) + 1 := by rw [hc]; push_cast; rfl
      have h3 : x - (⌊x⌋ : ℝ) = Int.fract x := rfl
      have hlt : x - (⌈x⌉ : ℝ) < 0 := by
        have := Int.fract_lt_one x; rw [hc']; linarith
      rw [if_pos hlt, hc']; linarith

/-- `fract (fract a + b) = fract (a + b)` -/
theorem intFract_fract_add (a b : ℝ) : Int.fract (Int.fract a + b) = Int.fract (a + b) := by
  have : Int.fract a + b = a + b - (⌊a⌋ : ℝ) := by
    have := Int.floor_add_fract a; linarith
  rw [this, Int.fract_sub_intCast]

/-! ### waveforms -/

theorem Waveform.value_range (w : Waveform ℝ) (p : ℝ) (hp : 0 ≤ p) :
    -1 ≤ w.value p ∧ w.value p ≤ 1 := by
  cases w with
  | sine =>
    simp only [Waveform.value, sin_real]
    exact ⟨Real.neg_one_le_sin _, Real.sin_le_one _⟩
  | triangle =>
    simp only [Waveform.value, abs_real, lit_075, lit_half, lit_4, lit_1]
    have h0 : (0 : ℝ) ≤ p + 3 / 4 := by linarith
    rw [ClockTime.fract_nonneg_real _ h0]
    have a := Int.fract_nonneg (p + 3 / 4)
    have b := Int.fract_lt_one (p + 3 / 4)
    have h1 : |Int.fract (p + 3 / 4) - 1 / 2| ≤ 1 / 2 := by
      rw [abs_le]; constructor <;> linarith
    have h2 := abs_nonneg (Int.fract (p + 3 / 4) - 1 / 2)
    constructor <;> linarith
  | saw =>
    simp only [Waveform.value, lit_half, lit_2, lit_1]
    have h0 : (0 : ℝ) ≤ p + 1 / 2 := by linarith
    rw [ClockTime.fract_nonneg_real _ h0]
    have a := Int.fract_nonneg (p + 1 / 2)
    have b := Int.fract_lt_one (p + 1 / 2)
    constructor <;> linarith
  | pulse width =>
    simp only [Waveform.value, lit_1]
    split <;> constructor <;> norm_num

/-! ### LFO -/

namespace Lfo

theorem update_value (l : Lfo ℝ) (dt : ℝ) (info : Info ℝ) :
    (l.update dt info).value
      = (l.update dt info).offset.raw
        + (l.update dt info).amplitude.raw * (l.update dt info).waveform.value (l.update dt info).phase := rfl

theorem update_phase (l : Lfo ℝ) (dt : ℝ) (info : Info ℝ) :
    (l.update dt info).phase = Int.fract (l.phase + dt * (l.update dt info).frequency.raw) :=
  remEuclid1_real _

/-- after every update the phase is in [0, 1), whatever it was before and whatever the sign of the advance -/
theorem update_phase_unit (l : Lfo ℝ) (dt : ℝ) (info : Info ℝ) :
    0 ≤ (l.update dt info).phase ∧ (l.update dt info).phase < 1 := by
  rw [update_phase]; exact ⟨Int.fract_nonneg _, Int.fract_lt_one _⟩

theorem update_waveform (l : Lfo ℝ) (dt : ℝ) (info : Info ℝ) :
    (l.update dt info).waveform = l.waveform := rfl

theorem update_frequency (l : Lfo ℝ) (dt : ℝ) (info : Info ℝ) :
    (l.update dt info).frequency = (l.frequency.update tw64 dt info).1 := rfl

/-- the accumulated phase advance `Σ dtᵢ · fᵢ` of a run (`fᵢ` = the frequency parameter's value in update `i`) -/
noncomputable def advance (l : Lfo ℝ) (info : Info ℝ) : List ℝ → ℝ
  | [] => 0
  | dt :: rest => dt * (l.update dt info).frequency.raw + advance (l.update dt info) info rest

theorem run_phase_unit (info : Info ℝ) : ∀ (dts : List ℝ) (l : Lfo ℝ), 0 ≤ l.phase → l.phase < 1 →
    (l.run info dts).phase = Int.fract (l.phase + advance l info dts) := by
  intro dts
  induction dts with
  | nil =>
    intro l h0 h1
    simp only [run, advance, add_zero]
    exact (Int.fract_eq_self.mpr ⟨h0, h1⟩).symm
  | cons dt rest ih =>
    intro l _ _
    have hph := update_phase l dt info
    have := ih (l.update dt info) (update_phase_unit l dt info).1 (update_phase_unit l dt info).2
    simp only [run, advance]
    rw [this, hph, intFract_fract_add, add_assoc]

theorem run_phase (info : Info ℝ) (l : Lfo ℝ) (dt : ℝ) (dts : List ℝ) :
    (l.run info (dt :: dts)).phase = Int.fract (l.phase + advance l info (dt :: dts)) := by
  have hph := update_phase l dt info
  have := run_phase_unit info dts (l.update dt info) (update_phase_unit l dt info).1 (update_phase_unit l dt info).2
  simp only [run, advance]
  rw [this, hph, intFract_fract_add, add_assoc]

/-- a frequency that is a fixed value (the parameter is stagnant) stays what it is -/
theorem update_frequency_stagnant (l : Lfo ℝ) (dt : ℝ) (info : Info ℝ) (hs : l.frequency.stagnant = true) :
    (l.update dt info).frequency.raw = l.frequency.raw ∧ (l.update dt info).frequency.stagnant = true := by
  rw [update_frequency, Parameter.update_stagnant _ _ _ _ hs]
  exact ⟨rfl, hs⟩

theorem advance_fixed (info : Info ℝ) : ∀ (dts : List ℝ) (l : Lfo ℝ), l.frequency.stagnant = true →
    advance l info dts = l.frequency.raw * dts.sum := by
  intro dts
  induction dts with
  | nil => intro l _; simp [advance]
  | cons dt rest ih =>
    intro l hs
    obtain ⟨h1, h2⟩ := update_frequency_stagnant l dt info hs
    simp only [advance, List.sum_cons]
    rw [ih _ h2, h1]; ring

end Lfo

/-! ### tweener ≡ parameter with fixed targets -/

/-- the tweener `t` and the parameter `p` are in step -/
def TwSim (t : Tweener ℝ) (p : Parameter ℝ ℝ) : Prop :=
  t.value = p.raw ∧
  match t.state with
  | .idle => p.stagnant = true
  | .tweening v0 v1 time tween =>
    p.state = .tweening v0 (.fixed v1) time tween ∧ p.stagnant = false ∧ tween.easing.PosPower ∧ 0 ≤ time
      ∧ (tween.durationNs = 0
          ∨ t.value = v0 + (v1 - v0) * tween.easing.apply (time / durToSecs tween.durationNs))

theorem TwSim.new (v : ℝ) : TwSim (Tweener.new v) (Parameter.new (.fixed v) v) := by
  unfold TwSim Tweener.new Parameter.new
  simp [Value.isFixed]

theorem TwSim.set {t : Tweener ℝ} {p : Parameter ℝ ℝ} (h : TwSim t p) (target : ℝ) (tw : Tween ℝ)
    (he : tw.easing.PosPower) : TwSim (t.set target tw) (p.set (.fixed target) tw) := by
  obtain ⟨hv, _⟩ := h
  unfold TwSim Tweener.set Parameter.set
  refine ⟨hv, ?_⟩
  simp only [lit_0]
  refine ⟨by rw [hv], trivial, he, le_refl _, Or.inr ?_⟩
  simp [(Easing.endpoints _ he).1]


theorem calcRaw_idle_fixed (v : ℝ) (info : Info ℝ) :
    Parameter.calcRaw tw64 (.idle (.fixed v)) info = some v := rfl

theorem calcRaw_tweening_fixed (v0 v1 time : ℝ) (st : StartTime ℝ) (D : ℕ) (e : Easing ℝ) (info : Info ℝ) :
    Parameter.calcRaw tw64 (.tweening v0 (.fixed v1) time ⟨st, D, e⟩) info
      = if D = 0 then none else some (v0 + (v1 - v0) * e.apply (time / durToSecs D)) := by
  unfold Parameter.calcRaw
  by_cases hD : D = 0
  · simp [hD]
  · simp only [hD, if_false, Value.rawValue, Option.map_some, Tween.value, tweenValue, tw64, lerp64]

theorem TwSim.update {t : Tweener ℝ} {p : Parameter ℝ ℝ} (h : TwSim t p) (dt : ℝ) (hdt : 0 ≤ dt)
    (info : Info ℝ) : TwSim (t.update dt info) (p.update tw64 dt info).1 := by
  obtain ⟨hv, hs⟩ := h
  cases hts : t.state with
  | idle =>
    rw [hts] at hs
    simp only at hs
    rw [Parameter.update_stagnant _ _ _ _ hs]
    unfold TwSim Tweener.update
    simp only [hts]
    exact ⟨hv, hs⟩
  | tweening v0 v1 time tween =>
    rw [hts] at hs
    simp only at hs
    obtain ⟨hps, hst, he, htime, hinv⟩ := hs
    obtain ⟨st, D, e⟩ := tween
    simp only at he hinv
    unfold Tweener.update Parameter.update
    simp only [hts, hst, Bool.false_eq_true, if_false]
    unfold Parameter.updateTween
    simp only [hps]
    have hgo : ¬ (durToSecs D : ℝ) ≤ time + dt → D ≠ 0 := by
      intro hle h0; apply hle; rw [h0, durToSecs_zero]; linarith
    cases st with
    | immediate =>
      simp only [Bool.not_true, Bool.false_eq_true, if_false]
      by_cases hle : (durToSecs D : ℝ) ≤ time + dt
      · simp only [hle, if_true, Value.isFixed, calcRaw_idle_fixed]
        exact ⟨rfl, rfl⟩
      · simp only [hle, if_false, calcRaw_tweening_fixed, hgo hle]
        exact ⟨rfl, rfl, rfl, he, by linarith, Or.inr rfl⟩
    | delayed ns =>
      by_cases hns : ns = 0
      · subst hns
        simp only [if_true, Bool.not_true, Bool.false_eq_true, if_false]
        by_cases hle : (durToSecs D : ℝ) ≤ time + dt
        · simp only [hle, if_true, Value.isFixed, calcRaw_idle_fixed]
          exact ⟨rfl, rfl⟩
        · simp only [hle, if_false, calcRaw_tweening_fixed, hgo hle]
          exact ⟨rfl, rfl, rfl, he, by linarith, Or.inr rfl⟩
      · simp only [hns, if_false, Bool.not_false, if_true, calcRaw_tweening_fixed]
        by_cases hD : D = 0
        · simp only [hD, if_true]
          exact ⟨hv, rfl, rfl, he, htime, Or.inl rfl⟩
        · simp only [hD, if_false]
          rcases hinv with h0 | h1
          · exact absurd h0 hD
          · exact ⟨h1, rfl, rfl, he, htime, Or.inr h1⟩
    | clockTime c ct =>
      by_cases hw : info.whenToStart c ct = .now
      · simp only [hw, decide_true, Bool.not_true, Bool.false_eq_true, if_false]
        by_cases hle : (durToSecs D : ℝ) ≤ time + dt
        · simp only [hle, if_true, Value.isFixed, calcRaw_idle_fixed]
          exact ⟨rfl, rfl⟩
        · simp only [hle, if_false, calcRaw_tweening_fixed, hgo hle]
          exact ⟨rfl, rfl, rfl, he, by linarith, Or.inr rfl⟩
      · simp only [hw, decide_false, Bool.not_false, if_true, calcRaw_tweening_fixed]
        by_cases hD : D = 0
        · simp only [hD, if_true]
          exact ⟨hv, rfl, rfl, he, htime, Or.inl rfl⟩
        · simp only [hD, if_false]
          rcases hinv with h0 | h1
          · exact absurd h0 hD
          · exact ⟨h1, rfl, rfl, he, htime, Or.inr h1⟩

/-- a history is admissible: easings of the sets have positive power, update steps are non-negative -/
def TwOpsOK : List (TwOp ℝ) → Prop
  | [] => True
  | .set _ tw :: rest => tw.easing.PosPower ∧ TwOpsOK rest
  | .update dt _ :: rest => 0 ≤ dt ∧ TwOpsOK rest

theorem TwSim.runOps : ∀ (ops : List (TwOp ℝ)) (t : Tweener ℝ) (p : Parameter ℝ ℝ), TwSim t p → TwOpsOK ops →
    TwSim (t.runOps ops) (p.runTwOps ops) := by
  intro ops
  induction ops with
  | nil => intro t p h _; exact h
  | cons op rest ih =>
    intro t p h hok
    cases op with
    | set target tw =>
      obtain ⟨he, hr⟩ := hok
      exact ih _ _ (h.set target tw he) hr
    | update dt info =>
      obtain ⟨hdt, hr⟩ := hok
      exact ih _ _ (h.update dt hdt info) hr

theorem TwSim.run (info : Info ℝ) : ∀ (dts : List ℝ) (t : Tweener ℝ)
    (p : Parameter ℝ ℝ), TwSim t p → (∀ dt ∈ dts, 0 ≤ dt) →
    TwSim (t.run info dts) (p.run tw64 info dts).1 := by
  intro dts
  induction dts with
  | nil => intro t p h _; exact h
  | cons dt rest ih =>
    intro t p h hnn
    simp only [Tweener.run, Parameter.run]
    exact ih _ _ (h.update dt (hnn dt (by simp)) info) (fun x hx => hnn x (by simp [hx]))


/-! ### the modulator store -/

section Store
variable {μ : Type} (ops : ModOps μ ℝ)

theorem valueOf_none_of_not_mem : ∀ (s : ModStore μ) (id : ℕ), id ∉ s.map Prod.fst →
    ModStore.valueOf ops s id = none := by
  intro s
  induction s with
  | nil => intro id _; rfl
  | cons e rest ih =>
    intro id h
    obtain ⟨k, m⟩ := e
    simp only [List.map_cons, List.mem_cons, not_or] at h
    have hk : ¬ k = id := fun h' => h.1 h'.symm
    simp only [ModStore.valueOf, hk, if_false]
    exact ih id h.2

theorem valueOf_isSome_of_mem : ∀ (s : ModStore μ) (id : ℕ), id ∈ s.map Prod.fst →
    ∃ v, ModStore.valueOf ops s id = some v := by
  intro s
  induction s with
  | nil => intro id h; simp at h
  | cons e rest ih =>
    intro id h
    obtain ⟨k, m⟩ := e
    by_cases hk : k = id
    · exact ⟨ops.value m, by simp [ModStore.valueOf, hk]⟩
    · simp only [List.map_cons, List.mem_cons] at h
      rcases h with h | h
      · exact absurd h.symm hk
      · obtain ⟨v, hv⟩ := ih id h
        exact ⟨v, by simp only [ModStore.valueOf, hk, if_false]; exact hv⟩

theorem valueOf_append_of_mem : ∀ (a b : ModStore μ) (id : ℕ), id ∈ a.map Prod.fst →
    ModStore.valueOf ops (a ++ b) id = ModStore.valueOf ops a id := by
  intro a
  induction a with
  | nil => intro b id h; simp at h
  | cons e rest ih =>
    intro b id h
    obtain ⟨k, m⟩ := e
    by_cases hk : k = id
    · simp [ModStore.valueOf, hk]
    · simp only [List.map_cons, List.mem_cons] at h
      rcases h with h | h
      · exact absurd h.symm hk
      · simp only [List.cons_append, ModStore.valueOf, hk, if_false]
        exact ih b id h

theorem valueOf_append_of_not_mem : ∀ (a b : ModStore μ) (id : ℕ), id ∉ a.map Prod.fst →
    ModStore.valueOf ops (a ++ b) id = ModStore.valueOf ops b id := by
  intro a
  induction a with
  | nil => intro b id _; rfl
  | cons e rest ih =>
    intro b id h
    obtain ⟨k, m⟩ := e
    simp only [List.map_cons, List.mem_cons, not_or] at h
    have hk : ¬ k = id := fun h' => h.1 h'.symm
    simp only [List.cons_append, ModStore.valueOf, hk, if_false]
    exact ih b id h.2

theorem valueOf_cons_self (k : ℕ) (m : μ) (rest : ModStore μ) :
    ModStore.valueOf ops ((k, m) :: rest) k = some (ops.value m) := by
  simp [ModStore.valueOf]

/-- `for_each` keeps the already updated prefix and the keys, and calls `update` in list order -/
theorem processFrom_keys (dt : ℝ) (base : Info ℝ) : ∀ (todo done : ModStore μ),
    ∃ x : ModStore μ, (processFrom ops dt base done todo).1 = done ++ x ∧ x.map Prod.fst = todo.map Prod.fst
      ∧ (processFrom ops dt base done todo).2 = todo.map Prod.fst := by
  intro todo
  induction todo with
  | nil => intro done; exact ⟨[], by simp [processFrom], rfl, rfl⟩
  | cons e rest ih =>
    intro done
    obtain ⟨k, m⟩ := e
    obtain ⟨x, h1, h2, h3⟩ := ih (done ++ [(k, ops.update m dt (modInfo ops base (done ++ rest) k))])
    refine ⟨(k, ops.update m dt (modInfo ops base (done ++ rest) k)) :: x, ?_, ?_, ?_⟩
    · simp only [processFrom]; rw [h1]; simp
    · simp [h2]
    · simp only [processFrom]; rw [h3]; simp

/-- The state a modulator is given in its update: everything before it in insertion order already has
    its value of this chunk (`pre'`), everything after it still has the previous chunk's (`post`). -/
theorem processFrom_split (dt : ℝ) (base : Info ℝ) : ∀ (pre done : ModStore μ) (k : ℕ) (m : μ) (post : ModStore μ),
    ∃ pre' post' : ModStore μ,
      (processFrom ops dt base done (pre ++ (k, m) :: post)).1
          = done ++ pre' ++ (k, ops.update m dt (modInfo ops base (done ++ pre' ++ post) k)) :: post'
        ∧ pre'.map Prod.fst = pre.map Prod.fst ∧ post'.map Prod.fst = post.map Prod.fst := by
  intro pre
  induction pre with
  | nil =>
    intro done k m post
    obtain ⟨x, h1, h2, _⟩ := processFrom_keys ops dt base post
      (done ++ [(k, ops.update m dt (modInfo ops base (done ++ post) k))])
    refine ⟨[], x, ?_, rfl, h2⟩
    simp only [List.nil_append, processFrom, List.append_nil]
    rw [h1]; simp
  | cons e pre1 ih =>
    intro done k m post
    obtain ⟨k0, m0⟩ := e
    obtain ⟨pre1', post', h1, h2, h3⟩ :=
      ih (done ++ [(k0, ops.update m0 dt (modInfo ops base (done ++ (pre1 ++ (k, m) :: post)) k0))]) k m post
    refine ⟨(k0, ops.update m0 dt (modInfo ops base (done ++ (pre1 ++ (k, m) :: post)) k0)) :: pre1', post', ?_, ?_, h3⟩
    · simp only [List.cons_append, processFrom]
      rw [h1]; simp
    · simp [h2]

end Store

/-! ### linked parameters, readers, witnesses' building blocks -/

theorem Parameter.linked_value {τ : Type} (tw : Tweenable ℝ τ) (p : Parameter ℝ τ) (id : ℕ) (m : Mapping ℝ τ)
    (dt : ℝ) (info : Info ℝ) (v : ℝ) (hs : p.state = .idle (.fromModulator id m)) (hst : p.stagnant = false)
    (hv : info.modulator id = some v) :
    (p.update tw dt info).1.raw = m.map tw v ∧ (p.update tw dt info).1.state = p.state
      ∧ (p.update tw dt info).1.stagnant = false := by
  unfold Parameter.update
  simp only [hst, Bool.false_eq_true, if_false]
  unfold Parameter.updateTween
  simp only [hs]
  unfold Parameter.calcRaw
  simp only [Value.rawValue, hv, Option.map_some]
  exact ⟨trivial, trivial, trivial⟩


theorem Parameter.linked_from_new {τ : Type} (id : ℕ) (m : Mapping ℝ τ) (d : τ) :
    (Parameter.new (.fromModulator id m) d : Parameter ℝ τ).state = .idle (.fromModulator id m)
      ∧ (Parameter.new (.fromModulator id m) d : Parameter ℝ τ).stagnant = false
      ∧ (Parameter.new (.fromModulator id m) d : Parameter ℝ τ).raw = d := by
  simp [Parameter.new, Value.isFixed]


/-- what one reader sees: a reader updated with the `Info` of a later stage -/
theorem linked_reader {μ : Type} (ops : ModOps μ ℝ) (base : Info ℝ) (mods' : ModStore μ) (dt : ℝ)
    (ps : List (Reader ℝ)) (i : ℕ) (tw : Tweenable ℝ ℝ) (p : Parameter ℝ ℝ) (id : ℕ) (m : Mapping ℝ ℝ) (v : ℝ)
    (hr : ps[i]? = some (tw, p)) (hs : p.state = .idle (.fromModulator id m)) (hst : p.stagnant = false)
    (hv : ModStore.valueOf ops mods' id = some v) :
    ∃ p', (updateReaders dt (readerInfo ops base mods') ps)[i]? = some (tw, p') ∧ p'.raw = m.map tw v := by
  refine ⟨(p.update tw dt (readerInfo ops base mods')).1, ?_, ?_⟩
  · unfold updateReaders; rw [List.getElem?_map, hr]; rfl
  · exact (Parameter.linked_value tw p id m dt _ v hs hst (by simpa [readerInfo] using hv)).1


theorem modOps_update_lfo (l : Lfo ℝ) (dt : ℝ) (info : Info ℝ) :
    (Mod.ops : ModOps (Mod ℝ) ℝ).update (.lfo l) dt info = .lfo (l.update dt info) := rfl
theorem modOps_update_tweener (t : Tweener ℝ) (dt : ℝ) (info : Info ℝ) :
    (Mod.ops : ModOps (Mod ℝ) ℝ).update (.tweener t) dt info = .tweener (t.update dt info) := rfl
theorem modOps_value_lfo (l : Lfo ℝ) : (Mod.ops : ModOps (Mod ℝ) ℝ).value (.lfo l) = l.value := rfl
theorem modOps_value_tweener (t : Tweener ℝ) : (Mod.ops : ModOps (Mod ℝ) ℝ).value (.tweener t) = t.value := rfl

theorem valueOf_cons_ne {μ : Type} (ops : ModOps μ ℝ) (k : ℕ) (m : μ) (rest : ModStore μ) (id : ℕ) (h : k ≠ id) :
    ModStore.valueOf ops ((k, m) :: rest) id = ModStore.valueOf ops rest id := by
  simp [ModStore.valueOf, h]

/-- the identity mapping of [0, 1] -/
noncomputable def idMapping : Mapping ℝ ℝ := ⟨0, 1, 0, 1, .linear⟩
/-- an LFO that outputs exactly its offset (amplitude 0), the offset linked to modulator `src` -/
noncomputable def followerLfo (src : ℕ) (m : Mapping ℝ ℝ) : Lfo ℝ :=
  Lfo.new ⟨.sine, .fixed 0, .fixed 0, .fromModulator src m, 0⟩
/-- a tweener half-way through nothing yet: going 0 → 1 linearly in one second, at time 0 -/
noncomputable def risingTweener : Tweener ℝ := (Tweener.new 0).set 1 ⟨.immediate, 1000000000, .linear⟩

theorem followerLfo_update (src : ℕ) (m : Mapping ℝ ℝ) (dt : ℝ) (info : Info ℝ) (v : ℝ)
    (hv : info.modulator src = some v) : ((followerLfo src m).update dt info).value = m.map64 v := by
  rw [Lfo.update_value]
  have hoff := (Parameter.linked_value tw64 (Parameter.new (.fromModulator src m) (0.0 : ℝ)) src m dt info v
    (Parameter.linked_from_new src m _).1 (Parameter.linked_from_new src m _).2.1 hv).1
  have hamp : ((followerLfo src m).update dt info).amplitude.raw = 0 := by
    simp [followerLfo, Lfo.update, Lfo.new, Parameter.new, Parameter.update, Value.isFixed]
  have hoff' : ((followerLfo src m).update dt info).offset.raw = m.map64 v := by
    simpa [followerLfo, Lfo.update, Lfo.new, Mapping.map64] using hoff
  rw [hamp, hoff']; ring


end K
