/-
  WavTruncLemmas.lean — a file cut inside its data chunk loads as the prefix of whole frames
  (model of Symphonia's short last packet + kira's EOF handling; core Lean only).
-/
import KiraModel.Proofs.WavDecoderLemmas

namespace K
namespace Wav

/-- packet decode with trailing bytes shorter than a frame (a cut frame is dropped) -/
theorem readFrames_encodeData_tail (f : Fmt) (ch : Nat) (hch : 0 < ch) (tail : List UInt8)
    (htail : tail.length < ch * f.bytes) :
    ∀ (q N : Nat) (cs : List Nat), cs.length = q * ch → q ≤ N → InRange f cs →
      readFrames f.bytes ch N (encodeData f cs ++ tail) = groupFrames ch q cs := by
  intro q
  induction q with
  | zero =>
    intro N cs hlen _ _
    have : cs = [] := List.length_eq_zero_iff.mp (by simpa using hlen)
    subst this
    cases N with
    | zero => rfl
    | succ N =>
      have : (tail.take (ch * f.bytes)).length < ch * f.bytes := by
        rw [List.length_take]; omega
      simp only [readFrames, encodeData, groupFrames, List.nil_append, this, if_true]
  | succ q ih =>
    intro N cs hlen hN hr
    cases N with
    | zero => omega
    | succ N =>
      have h1 : ch ≤ cs.length := by rw [hlen, Nat.succ_mul]; omega
      have hsplit : cs = cs.take ch ++ cs.drop ch := (List.take_append_drop ch cs).symm
      have hla : (cs.take ch).length = ch := by simp [List.length_take, h1]
      have hea : (encodeData f (cs.take ch)).length = ch * f.bytes := by rw [encodeData_length, hla]
      have henc : encodeData f cs ++ tail
          = encodeData f (cs.take ch) ++ (encodeData f (cs.drop ch) ++ tail) := by
        rw [← List.append_assoc, ← encodeData_append, ← hsplit]
      simp only [readFrames, groupFrames]
      rw [henc, List.take_left' hea, List.drop_left' hea]
      have hnot : ¬ (encodeData f (cs.take ch)).length < ch * f.bytes := by omega
      simp only [hnot, if_false]
      have hrs := readSamples_encodeData f (cs.take ch) [] (hr.take ch)
      rw [List.append_nil, hla] at hrs
      rw [hrs, ih N (cs.drop ch) (by rw [List.length_drop, hlen, Nat.succ_mul]; omega) (by omega) (hr.drop ch)]

section Load
variable {α : Type} [Add α] [Sub α] [Mul α] [Div α] [Neg α] [LT α] [LE α]
  [DecidableLT α] [DecidableLE α] [OfScientific α] [KOps α]

theorem decodePacket_encodeData_tail (fd : FloatDec α) (f : Fmt) (ch rate ba : Nat) (hch : ch = 1 ∨ ch = 2)
    (tail : List UInt8) (htail : tail.length < ch * f.bytes)
    (q : Nat) (hq : q ≤ maxFramesPerPacket) (cs : List Nat) (hlen : cs.length = q * ch) (hr : InRange f cs) :
    decodePacket fd ⟨f, ch, rate, ba⟩ (encodeData f cs ++ tail)
      = .ok ((groupFrames ch q cs).map (frameOfCodes fd f ch)) := by
  have hpos : 0 < ch := by omega
  unfold decodePacket assemble
  simp only [hch, if_true]
  rw [readFrames_encodeData_tail f ch hpos tail htail q maxFramesPerPacket cs hlen hq hr, List.mapM_map]
  exact mapM_ok _ _ _ (fun g hg =>
    assembleFrame_codes fd f ch hch g (groupFrames_length_mem ch q cs hlen g hg))

/-- at the physical end of the file the demuxer reports end of stream -/
theorem nextPacket_at_end (B dataLen : Nat) (hB : B ≠ 0) (data : List UInt8) :
    nextPacket B dataLen data data.length = .eof := by
  unfold nextPacket
  simp only [hB, if_false, List.drop_length, List.take_nil, List.isEmpty_nil, if_true]
  split <;> simp

/-- **the packet loop on a file cut inside its data**: the data chunk is declared to hold
    `r` more frames after `pre`, but only the first `a ≤ r` of them are wholly present, followed by
    `tail` (a cut frame: shorter than a frame, unless nothing is missing).  The loop appends
    exactly the `a` whole frames and stops at end of stream. -/
theorem loadLoop_truncated (fd : FloatDec α) (f : Fmt) (ch rate : Nat) (hch : ch = 1 ∨ ch = 2)
    (fmt? : Option FmtChunk) (tail : List UInt8) :
    ∀ (a : Nat) (r : Nat) (avail : List Nat) (pre : List UInt8) (fuel : Nat) (acc : List (Frame α)),
      avail.length = a * ch → InRange f avail → a ≤ r → (a = r ∨ tail.length < ch * f.bytes) → a + 1 < fuel →
      loadLoop (wavNext ⟨f, ch, rate, ch * f.bytes⟩
                  ⟨fmt?, pre.length + r * (ch * f.bytes), pre ++ (encodeData f avail ++ tail)⟩)
               (decodePacket fd ⟨f, ch, rate, ch * f.bytes⟩) fuel pre.length acc
        = .ok (acc ++ (groupFrames ch a avail).map (frameOfCodes fd f ch)) := by
  have hpos : 0 < ch := by omega
  have hk := Fmt.bytes_pos f
  have hB : 0 < ch * f.bytes := Nat.mul_pos hpos hk
  have hB0 : ¬ (ch * f.bytes = 0) := by omega
  intro a
  induction a using Nat.strongRecOn with
  | _ a ih =>
    intro r avail pre fuel acc hlen hrng har htl hfuel
    cases fuel with
    | zero => omega
    | succ fuel =>
      by_cases hr : r = 0
      · -- nothing declared any more: end of stream
        subst hr
        have ha : a = 0 := by omega
        subst ha
        have : avail = [] := List.length_eq_zero_iff.mp (by simpa using hlen)
        subst this
        simp [loadLoop, wavNext, nextPacket, hB0, groupFrames]
      · have hr' : 0 < r := Nat.pos_of_ne_zero hr
        have hlt : pre.length < pre.length + r * (ch * f.bytes) := by
          have := Nat.mul_pos hr' hB; omega
        have hdiv : (pre.length + r * (ch * f.bytes) - pre.length) / (ch * f.bytes) = r := by
          rw [Nat.add_sub_cancel_left, Nat.mul_div_cancel _ hB]
        have hqr : min r maxFramesPerPacket ≤ r := Nat.min_le_left _ _
        have hq : 0 < min r maxFramesPerPacket := by simp only [maxFramesPerPacket]; omega
        have hq2 : min r maxFramesPerPacket ≤ maxFramesPerPacket := Nat.min_le_right _ _
        generalize hqd : min r maxFramesPerPacket = q at hq hqr hq2
        by_cases haq : q ≤ a
        · -- a full packet of q frames is present
          have hla : (avail.take (q * ch)).length = q * ch := by
            rw [List.length_take, hlen]; exact Nat.min_eq_left (Nat.mul_le_mul_right ch haq)
          have hsplit : avail = avail.take (q * ch) ++ avail.drop (q * ch) := (List.take_append_drop _ avail).symm
          have henc : encodeData f avail = encodeData f (avail.take (q * ch)) ++ encodeData f (avail.drop (q * ch)) := by
            rw [← encodeData_append, ← hsplit]
          have hea : (encodeData f (avail.take (q * ch))).length = q * (ch * f.bytes) := by
            rw [encodeData_length, hla, Nat.mul_assoc]
          have hne : (encodeData f (avail.take (q * ch))).isEmpty = false := by
            have : 0 < (encodeData f (avail.take (q * ch))).length := by rw [hea]; exact Nat.mul_pos hq hB
            cases h : encodeData f (avail.take (q * ch)) with
            | nil => rw [h] at this; simp at this
            | cons _ _ => rfl
          have hnp : nextPacket (ch * f.bytes) (pre.length + r * (ch * f.bytes))
              (pre ++ (encodeData f avail ++ tail)) pre.length
              = .packet (encodeData f (avail.take (q * ch)))
                  ((pre ++ encodeData f (avail.take (q * ch))).length) := by
            unfold nextPacket
            simp only [hB0, if_false, hlt, if_true, hdiv, hr, hqd]
            rw [List.drop_left' rfl, henc, List.append_assoc, List.take_left' hea]
            simp only [hne, Bool.false_eq_true, if_false, List.length_append]
          have hdec := decodePacket_encodeData fd f ch rate (ch * f.bytes) hch q hq2 (avail.take (q * ch)) hla
            (hrng.take _)
          have hdata : pre ++ (encodeData f avail ++ tail)
              = (pre ++ encodeData f (avail.take (q * ch))) ++ (encodeData f (avail.drop (q * ch)) ++ tail) := by
            rw [henc]; simp [List.append_assoc]
          have hdl : pre.length + r * (ch * f.bytes)
              = (pre ++ encodeData f (avail.take (q * ch))).length + (r - q) * (ch * f.bytes) := by
            rw [List.length_append, hea, Nat.add_assoc, ← Nat.add_mul, Nat.add_sub_cancel' hqr]
          have hlen' : (avail.drop (q * ch)).length = (a - q) * ch := by
            rw [List.length_drop, hlen, Nat.sub_mul]
          have ih' := ih (a - q) (by omega) (r - q) (avail.drop (q * ch)) (pre ++ encodeData f (avail.take (q * ch)))
            fuel (acc ++ (groupFrames ch q (avail.take (q * ch))).map (frameOfCodes fd f ch)) hlen' (hrng.drop _)
            (by omega) (htl.elim (fun h => Or.inl (by omega)) Or.inr) (by omega)
          rw [← hdata, ← hdl] at ih'
          simp only [loadLoop, wavNext, hnp, hdec]
          rw [ih']
          have hg := groupFrames_split ch q (a - q) avail
          rw [Nat.add_sub_cancel' haq] at hg
          rw [hg, List.map_append, List.append_assoc]
        · -- fewer than q whole frames are left in the file: one short packet (or none), then EOF
          have haq' : a < q := Nat.lt_of_not_le haq
          have hatl : tail.length < ch * f.bytes := by
            rcases htl with h | h
            · omega
            · exact h
          have hXlen : (encodeData f avail ++ tail).length < q * (ch * f.bytes) := by
            rw [List.length_append, encodeData_length, hlen, Nat.mul_assoc]
            calc a * (ch * f.bytes) + tail.length < a * (ch * f.bytes) + ch * f.bytes := by omega
              _ = (a + 1) * (ch * f.bytes) := by rw [Nat.succ_mul]
              _ ≤ q * (ch * f.bytes) := Nat.mul_le_mul_right _ haq'
          have htake : (encodeData f avail ++ tail).take (q * (ch * f.bytes)) = encodeData f avail ++ tail :=
            List.take_of_length_le (Nat.le_of_lt hXlen)
          by_cases hX : (encodeData f avail ++ tail).isEmpty = true
          · -- nothing left at all
            have hXe : encodeData f avail ++ tail = [] := List.isEmpty_iff.mp hX
            have ha0 : a = 0 := by
              have h1 := congrArg List.length hXe
              rw [List.length_append, encodeData_length, hlen, Nat.mul_assoc] at h1
              simp only [List.length_nil] at h1
              rcases Nat.eq_zero_or_pos a with h | h
              · exact h
              · have := Nat.mul_pos h hB; omega
            subst ha0
            have hnp : nextPacket (ch * f.bytes) (pre.length + r * (ch * f.bytes))
                (pre ++ (encodeData f avail ++ tail)) pre.length = .eof := by
              unfold nextPacket
              simp only [hB0, if_false, hlt, if_true, hdiv, hr, hqd]
              rw [List.drop_left' rfl, htake]
              simp only [hX, if_true]
            simp [loadLoop, wavNext, hnp, groupFrames]
          · have hXf : (encodeData f avail ++ tail).isEmpty = false := by
              cases h : (encodeData f avail ++ tail).isEmpty <;> simp_all
            have hnp : nextPacket (ch * f.bytes) (pre.length + r * (ch * f.bytes))
                (pre ++ (encodeData f avail ++ tail)) pre.length
                = .packet (encodeData f avail ++ tail) ((pre ++ (encodeData f avail ++ tail)).length) := by
              unfold nextPacket
              simp only [hB0, if_false, hlt, if_true, hdiv, hr, hqd]
              rw [List.drop_left' rfl, htake]
              simp only [hXf, Bool.false_eq_true, if_false, List.length_append]
            have hdec := decodePacket_encodeData_tail fd f ch rate (ch * f.bytes) hch tail hatl a
              (by omega) avail hlen hrng
            cases fuel with
            | zero => omega
            | succ fuel =>
              have hend := nextPacket_at_end (ch * f.bytes) (pre.length + r * (ch * f.bytes)) hB0
                (pre ++ (encodeData f avail ++ tail))
              simp only [loadLoop, wavNext, hnp, hdec, hend]

theorem header_length (s : Spec) (L : Nat) : (header s L).length = 44 := by
  simp [header, leBytes_length, tagRIFF, tagWAVE, tagFmt, tagData]

/-- **a file cut anywhere at or after the end of its header** loads as the prefix made of the
    frames that are wholly present (the cut frame is dropped), with the header's sample rate -/
theorem loadStatic_truncated (fd : FloatDec α) (s : Spec) (hs : s.Decodable)
    (hch : s.channels = 1 ∨ s.channels = 2) (m : Nat) (codes : List Nat)
    (hlen : codes.length = m * s.channels) (hr : InRange s.fmt codes)
    (hL : FitsRiff (codes.length * s.fmt.bytes)) (t : Nat) (ht : 44 ≤ t) :
    loadStatic fd ((encode s codes).take t)
      = .ok (s.rate, (fileFrames fd s m codes).take ((t - 44) / (s.channels * s.fmt.bytes))) := by
  have hpos : 0 < s.channels := by omega
  have hk := Fmt.bytes_pos s.fmt
  have hB : 0 < s.channels * s.fmt.bytes := Nat.mul_pos hpos hk
  have hLB : codes.length * s.fmt.bytes = m * (s.channels * s.fmt.bytes) := by rw [hlen, Nat.mul_assoc]
  obtain ⟨u, rfl⟩ : ∃ u, t = 44 + u := ⟨t - 44, by omega⟩
  rw [Nat.add_sub_cancel_left]
  unfold encode
  rw [← header_length s (encodeData s.fmt codes).length, List.take_length_add_append]
  unfold loadStatic
  rw [encodeData_length, parse_header s hs _ hL]
  simp only [Spec.chunk]
  by_cases hu : codes.length * s.fmt.bytes ≤ u
  · -- only (part of) the pad byte is missing: every frame is present
    have htake : (encodeData s.fmt codes ++ pad (codes.length * s.fmt.bytes)).take u
        = encodeData s.fmt codes ++ (pad (codes.length * s.fmt.bytes)).take (u - codes.length * s.fmt.bytes) := by
      rw [List.take_append, encodeData_length, List.take_of_length_le (by rw [encodeData_length]; exact hu)]
    rw [htake]
    have hdl : codes.length * s.fmt.bytes = ([] : List UInt8).length + m * (s.channels * s.fmt.bytes) := by
      rw [hLB]; simp
    have hfuel : m + 1 < (encodeData s.fmt codes ++
        (pad (codes.length * s.fmt.bytes)).take (u - codes.length * s.fmt.bytes)).length + 2 := by
      rw [List.length_append, encodeData_length, hLB]
      have : m ≤ m * (s.channels * s.fmt.bytes) := Nat.le_mul_of_pos_right _ hB
      omega
    have := loadLoop_truncated fd s.fmt s.channels s.rate hch
      (some ⟨s.fmt, s.channels, s.rate, s.channels * s.fmt.bytes⟩)
      ((pad (codes.length * s.fmt.bytes)).take (u - codes.length * s.fmt.bytes)) m m codes [] _ []
      hlen hr (Nat.le_refl _) (Or.inl rfl) hfuel
    simp only [List.nil_append, List.length_nil] at this
    rw [Nat.zero_add, ← hLB] at this
    rw [this]
    have hge : m ≤ u / (s.channels * s.fmt.bytes) := by
      rw [Nat.le_div_iff_mul_le hB, ← hLB]; exact hu
    rw [List.take_of_length_le (by simp [fileFrames, groupFrames_length]; exact hge)]
    rfl
  · -- the cut is inside the sample data
    have hu' : u < m * (s.channels * s.fmt.bytes) := by rw [← hLB]; omega
    generalize hB' : s.channels * s.fmt.bytes = B at *
    have ham : u / B < m := (Nat.div_lt_iff_lt_mul hB).mpr hu'
    generalize ha : u / B = a at *
    have hua : u = a * B + u % B := by rw [← ha, Nat.mul_comm]; exact (Nat.div_add_mod u B).symm
    have hmod : u % B < B := Nat.mod_lt _ hB
    have hal : a * s.channels ≤ codes.length := by rw [hlen]; exact Nat.mul_le_mul_right _ (Nat.le_of_lt ham)
    have hla : (codes.take (a * s.channels)).length = a * s.channels := by
      rw [List.length_take]; exact Nat.min_eq_left hal
    have hsplit : codes = codes.take (a * s.channels) ++ codes.drop (a * s.channels) :=
      (List.take_append_drop _ codes).symm
    have henc : encodeData s.fmt codes
        = encodeData s.fmt (codes.take (a * s.channels)) ++ encodeData s.fmt (codes.drop (a * s.channels)) := by
      rw [← encodeData_append, ← hsplit]
    have hea : (encodeData s.fmt (codes.take (a * s.channels))).length = a * B := by
      rw [encodeData_length, hla, Nat.mul_assoc, hB']
    have htake : (encodeData s.fmt codes ++ pad (codes.length * s.fmt.bytes)).take u
        = encodeData s.fmt (codes.take (a * s.channels)) ++
            (encodeData s.fmt (codes.drop (a * s.channels)) ++ pad (codes.length * s.fmt.bytes)).take (u % B) := by
      rw [henc, List.append_assoc]
      conv => lhs; rw [hua, ← hea]
      rw [List.take_length_add_append]
    rw [htake]
    have htl : ((encodeData s.fmt (codes.drop (a * s.channels)) ++ pad (codes.length * s.fmt.bytes)).take (u % B)).length
        < B := by
      rw [List.length_take]; omega
    have hdl : codes.length * s.fmt.bytes = ([] : List UInt8).length + m * B := by rw [hLB]; simp
    have hfuel : a + 1 < (encodeData s.fmt (codes.take (a * s.channels)) ++
        (encodeData s.fmt (codes.drop (a * s.channels)) ++ pad (codes.length * s.fmt.bytes)).take (u % B)).length + 2 := by
      rw [List.length_append, hea]
      have : a ≤ a * B := Nat.le_mul_of_pos_right _ hB
      omega
    have := loadLoop_truncated fd s.fmt s.channels s.rate hch
      (some ⟨s.fmt, s.channels, s.rate, s.channels * s.fmt.bytes⟩)
      ((encodeData s.fmt (codes.drop (a * s.channels)) ++ pad (codes.length * s.fmt.bytes)).take (u % B))
      a m (codes.take (a * s.channels)) [] _ [] hla (hr.take _) (Nat.le_of_lt ham)
      (Or.inr (by rw [hB']; exact htl)) hfuel
    simp only [List.nil_append, List.length_nil, hB'] at this
    rw [Nat.zero_add, ← hLB] at this
    rw [this]
    have hg := groupFrames_split s.channels a (m - a) codes
    rw [Nat.add_sub_cancel' (Nat.le_of_lt ham)] at hg
    unfold fileFrames
    rw [hg, List.map_append, List.take_left' (by simp [groupFrames_length])]

end Load
end Wav
end K
