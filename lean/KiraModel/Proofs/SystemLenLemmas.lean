/-
  SystemLenLemmas.lean — the REAL components cannot resize the slice they are lent (`Comps.LenPres` for
  `sysComps`): `StaticSound::process` and each of the eight effects' `process` return exactly as many frames
  as they were given (on success; a latched panic returns the slice untouched).
  Generic in the number type `α`: these are facts about list structure, not arithmetic, so they hold for the
  Float twin as well as over ℝ.
-/
import KiraModel.Proofs.MixerLemmas
import KiraModel.Model.System

set_option linter.unusedSectionVars false

namespace K

variable {α : Type} [Add α] [Sub α] [Mul α] [Div α] [Neg α] [LT α] [LE α]
  [DecidableLT α] [DecidableLE α] [OfScientific α] [KOps α]

/-! ### the six per-frame effects -/

theorem frameLoop_length {σ : Type} (body : α → σ → Frame α → σ × Frame α) (n i : Nat) (s : σ)
    (xs : List (Frame α)) : (frameLoop body n i s xs).2.length = xs.length := by
  induction xs generalizing i s with
  | nil => simp [frameLoop]
  | cons f fs ih => simp [frameLoop, ih]

theorem VolumeControl.process_length (s : VolumeControl α) (xs : List (Frame α)) (dt : α) (info : Info α) :
    (s.process xs dt info).2.length = xs.length := by simp [VolumeControl.process, frameLoop_length]
theorem PanningControl.process_length (s : PanningControl α) (xs : List (Frame α)) (dt : α) (info : Info α) :
    (s.process xs dt info).2.length = xs.length := by simp [PanningControl.process, frameLoop_length]
theorem Filter.process_length (s : Filter α) (xs : List (Frame α)) (dt : α) (info : Info α) :
    (s.process xs dt info).2.length = xs.length := by simp [Filter.process, frameLoop_length]
theorem EqFilter.process_length (s : EqFilter α) (xs : List (Frame α)) (dt : α) (info : Info α) :
    (s.process xs dt info).2.length = xs.length := by simp [EqFilter.process, frameLoop_length]
theorem Distortion.process_length (s : Distortion α) (xs : List (Frame α)) (dt : α) (info : Info α) :
    (s.process xs dt info).2.length = xs.length := by simp [Distortion.process, frameLoop_length]
theorem Compressor.process_length (s : Compressor α) (xs : List (Frame α)) (dt : α) (info : Info α) :
    (s.process xs dt info).2.length = xs.length := by simp [Compressor.process, frameLoop_length]

/-! ### reverb -/

theorem Reverb.frames_length (sw mx : Parameter α α) (fb dp : α) (n i : Nat) (ls : ReverbLines α)
    (xs : List (Frame α)) (r : ReverbLines α × List (Frame α))
    (h : Reverb.frames sw mx fb dp n i ls xs = .ok r) : r.2.length = xs.length := by
  induction xs generalizing i ls r with
  | nil => simp only [Reverb.frames, Except.ok.injEq] at h; subst h; rfl
  | cons x xs ih =>
    simp only [Reverb.frames] at h
    split at h
    · cases h
    · rename_i ls1 o _
      split at h
      · cases h
      · rename_i ls2 ys hys
        simp only [Except.ok.injEq] at h; subst h
        simp [ih _ _ _ hys]

theorem Reverb.process_length (s : Reverb α) (xs : List (Frame α)) (dt : α) (info : Info α)
    (r : Reverb α × List (Frame α)) (h : s.process xs dt info = .ok r) : r.2.length = xs.length := by
  unfold Reverb.process at h
  split at h
  · cases h
  · dsimp only at h
    split at h
    · cases h
    · rename_i ls' out hf
      simp only [Except.ok.injEq] at h; subst h
      exact Reverb.frames_length _ _ _ _ _ _ _ _ _ hf

/-! ### the base sum -/

theorem BaseFx.process_length (e : BaseFx α) (xs : List (Frame α)) (dt : α) (info : Info α)
    (r : BaseFx α × List (Frame α)) (h : e.process xs dt info = .ok r) : r.2.length = xs.length := by
  cases e with
  | filter s => simp only [BaseFx.process, Except.ok.injEq] at h; subst h; exact Filter.process_length ..
  | eq s => simp only [BaseFx.process, Except.ok.injEq] at h; subst h; exact EqFilter.process_length ..
  | dist s => simp only [BaseFx.process, Except.ok.injEq] at h; subst h; exact Distortion.process_length ..
  | comp s => simp only [BaseFx.process, Except.ok.injEq] at h; subst h; exact Compressor.process_length ..
  | reverb s =>
    simp only [BaseFx.process] at h
    split at h
    · rename_i r' hr
      simp only [Except.ok.injEq] at h; subst h
      exact Reverb.process_length s xs dt info r' hr
    · cases h
  | vol s => simp only [BaseFx.process, Except.ok.injEq] at h; subst h; exact VolumeControl.process_length ..
  | pan s => simp only [BaseFx.process, Except.ok.injEq] at h; subst h; exact PanningControl.process_length ..

/-! ### delay (any length-preserving feedback chain) -/

/-- `FxOps.process`, when it succeeds, keeps the slice length -/
def FxOps.LenOk {φ : Type} (o : FxOps α φ) : Prop :=
  ∀ e xs dt info r, o.process e xs dt info = .ok r → r.2.length = xs.length

theorem chainRun_length {φ : Type} (o : FxOps α φ) (ho : o.LenOk) (es : List φ) (xs : List (Frame α)) (dt : α)
    (info : Info α) (r : List φ × List (Frame α)) (h : chainRun o es xs dt info = .ok r) :
    r.2.length = xs.length := by
  induction es generalizing xs r with
  | nil => simp only [chainRun, Except.ok.injEq] at h; subst h; rfl
  | cons e es ih =>
    simp only [chainRun] at h
    split at h
    · cases h
    · rename_i e' ys he
      split at h
      · cases h
      · rename_i es' zs hes
        simp only [Except.ok.injEq] at h; subst h
        rw [ih _ _ hes, ho _ _ _ _ _ he]

/-- the feedback chain built from length-preserving effects is length preserving (a latched panic leaves
    the slice as it is) -/
theorem chainOf_length {φ : Type} (o : FxOps α φ) (ho : o.LenOk) (s : ChainSt φ) (xs : List (Frame α)) (dt : α)
    (info : Info α) : ((chainOf o).process s xs dt info).2.length = xs.length := by
  simp only [chainOf]
  split
  · rfl
  · split
    · rename_i es out hr
      exact chainRun_length o ho _ _ _ _ _ hr
    · rfl

namespace Delay
variable {φ : Type}
open LineFx

theorem scaleFb_len (p : Parameter α α) (n i : Nat) (fs : List (Frame α)) : (scaleFb p n i fs).length = fs.length := by
  induction fs generalizing i with
  | nil => rfl
  | cons f fs ih => simp [scaleFb, ih]

theorem mixOut_len (p : Parameter α α) (n i : Nat) (ts xs : List (Frame α)) :
    (mixOut p n i ts xs).length = min ts.length xs.length := by
  induction ts generalizing i xs with
  | nil => simp [mixOut]
  | cons t ts ih =>
    cases xs with
    | nil => simp [mixOut]
    | cons x xs => simp [mixOut, ih, Nat.succ_min_succ]

/-- one sub-chunk no longer than the line: the output has the sub-chunk's length, the line keeps its length -/
theorem chunkPure_len (C : FxChain α φ) (hC : ∀ s xs dt info, (C.process s xs dt info).2.length = xs.length)
    (fb mx : Parameter α α) (dt : α) (info : Info α) (st : List (Frame α) × φ) (xs : List (Frame α))
    (hx : xs.length ≤ st.1.length) :
    (chunkPure C fb mx dt info st xs).2.length = xs.length
      ∧ (chunkPure C fb mx dt info st xs).1.1.length = st.1.length := by
  simp only [chunkPure, mixOut_len, scaleFb_len, hC, List.length_take, List.length_append, List.length_drop,
    List.length_zipWith]
  omega

theorem chunks_len (C : FxChain α φ) (hC : ∀ s xs dt info, (C.process s xs dt info).2.length = xs.length)
    (fb mx : Parameter α α) (dt : α) (info : Info α) (tempLen L : Nat) (hL : 0 < L) (fuel : Nat)
    (st : List (Frame α) × φ) (hst : st.1.length = L) (xs : List (Frame α))
    (r : (List (Frame α) × φ) × List (Frame α))
    (h : chunks C fb mx dt info tempLen L fuel st xs = .ok r) : r.2.length = xs.length := by
  induction fuel generalizing st xs r with
  | zero =>
    cases xs with
    | nil => simp only [chunks, Except.ok.injEq] at h; subst h; rfl
    | cons x xs => simp [chunks] at h
  | succ fuel ih =>
    cases xs with
    | nil => simp only [chunks, Except.ok.injEq] at h; subst h; rfl
    | cons x xs =>
      simp only [chunks] at h
      split at h
      · cases h
      · have hc : ((x :: xs).take L).length ≤ st.1.length := by rw [hst, List.length_take]; omega
        obtain ⟨h1, h2⟩ := chunkPure_len C hC fb mx dt info st ((x :: xs).take L) hc
        split at h
        · rename_i st2 o2 hrec
          simp only [Except.ok.injEq] at h; subst h
          have := ih _ (by rw [h2, hst]) _ _ hrec
          simp only [List.length_append, h1, this, List.length_take, List.length_drop]
          omega
        · cases h

/-- `Delay::process`, when it succeeds, returns as many frames as it was given -/
theorem process_length (C : FxChain α φ) (hC : ∀ s xs dt info, (C.process s xs dt info).2.length = xs.length)
    (d : Delay α φ) (xs : List (Frame α)) (dt : α) (info : Info α) (r : Delay α φ × List (Frame α))
    (h : d.process C xs dt info = .ok r) : r.2.length = xs.length := by
  unfold Delay.process at h
  dsimp only at h
  split at h
  · cases h
  · rename_i hL
    split at h
    · rename_i st out hch
      simp only [Except.ok.injEq] at h; subst h
      exact chunks_len C hC _ _ dt info _ _ (Nat.pos_of_ne_zero hL) _ _ rfl _ _ hch
    · cases h

end Delay

/-! ### the depth-indexed sum -/

theorem FxOver.ops_lenOk {φ : Type} (o : FxOps α φ) (ho : o.LenOk) : (FxOver.ops o).LenOk := by
  intro e xs dt info r h
  cases e with
  | base b =>
    simp only [FxOver.ops, FxOver.process] at h
    split at h
    · rename_i r' hr
      simp only [Except.ok.injEq] at h; subst h
      exact BaseFx.process_length b xs dt info r' hr
    · cases h
  | delay d =>
    simp only [FxOver.ops, FxOver.process] at h
    split at h
    · cases h
    · rename_i r' hr
      split at h
      · cases h
      · simp only [Except.ok.injEq] at h; subst h
        exact Delay.process_length (chainOf o) (chainOf_length o ho) d xs dt info r' hr

theorem emptyFxOps_lenOk : (emptyFxOps : FxOps α Empty).LenOk := fun e => nomatch e

/-- every effect of the depth-`n` sum type keeps the length of its slice -/
theorem fxOpsN_lenOk : ∀ n : Nat, (fxOpsN n : FxOps α (FxN α n)).LenOk
  | 0 => FxOver.ops_lenOk _ emptyFxOps_lenOk
  | n + 1 => FxOver.ops_lenOk _ (fxOpsN_lenOk n)

theorem SysFx.step_length {n : Nat} (e : SysFx α n) (xs : List (Frame α)) (dt : α) (info : Info α) :
    (e.step xs dt info).2.length = xs.length := by
  unfold SysFx.step
  split
  · rfl
  · split
    · rename_i r hr
      exact fxOpsN_lenOk n _ _ _ _ _ hr
    · rfl

/-! ### the static sound -/

theorem StaticSound.renderLoop_length (fuel : Nat) (dt : α) (len k i : Nat) (s : StaticSound α)
    (r : StaticSound α × List (Frame α)) (h : StaticSound.renderLoop fuel dt len k i s = .ok r) :
    r.2.length = k := by
  induction k generalizing i s r with
  | zero => simp only [StaticSound.renderLoop, Except.ok.injEq] at h; subst h; rfl
  | succ k ih =>
    simp only [StaticSound.renderLoop] at h
    split at h
    · cases h
    · rename_i s' f _
      split at h
      · cases h
      · rename_i s'' fs hrec
        simp only [Except.ok.injEq] at h; subst h
        simp [ih _ _ _ hrec]

/-- `StaticSound::process` on `len` frames, when it succeeds, writes exactly `len` frames -/
theorem StaticSound.process_length (fuel : Nat) (s : StaticSound α) (len : Nat) (dt : α) (info : Info α)
    (r : StaticSound α × List (Frame α)) (h : s.process fuel len dt info = .ok r) : r.2.length = len := by
  unfold StaticSound.process at h
  dsimp only at h
  split at h
  · exact StaticSound.renderLoop_length fuel dt len len 0 _ r h
  · simp only [Except.ok.injEq] at h; subst h; simp

theorem SysSnd.step_length (fuel : Nat) (s : SysSnd α) (out : List (Frame α)) (dt : α) (info : Info α) :
    (s.step fuel out dt info).2.length = out.length := by
  unfold SysSnd.step
  split
  · rfl
  · split
    · rename_i r hr
      exact StaticSound.process_length fuel _ _ _ _ r hr
    · rfl

/-- **The real components are length preserving**: the hypothesis every C02 / C11 / C12 theorem makes about
    the abstract components holds for static sounds and the eight built-in effects (any nesting depth). -/
theorem SpatialData.chunkOut_length (sd : SpatialData α) (li : Option (ListenerInfo α)) (n i : Nat)
    (buf : List (Frame α)) : (sd.chunkOut li n i buf).length = buf.length := by
  induction buf generalizing i with
  | nil => rfl
  | cons f fs ih => simp [SpatialData.chunkOut, ih]

/-- the spatialisation loop writes every frame of the slice it is given, no more, no fewer -/
theorem SysSpatial.step_length (p : SysSpatial α) (buf : List (Frame α)) (dtn : α) (info : Info α) :
    (p.step buf dtn info).2.length = buf.length := by
  simp [SysSpatial.step, SpatialData.chunkOut_length]

theorem sysComps_lenPres (fuel n : Nat) : (sysComps fuel n : Comps α (SysSnd α) (SysFx α n) (SysSpatial α)).LenPres :=
  ⟨fun s buf dt info => SysSnd.step_length fuel s buf dt info,
   fun e buf dt info => SysFx.step_length e buf dt info,
   fun p buf dt info => SysSpatial.step_length p buf dt info⟩

end K
