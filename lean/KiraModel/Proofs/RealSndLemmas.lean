/-
  The REAL static-sound component of the whole-system model (`SysSnd`, Model/System.lean) is
  chunk-homomorphic — up to a normalisation of state that is dead after the sound has ended —
  relative to the invariant "all parameters settled, no command in flight, in its documented domain".
-/
import KiraModel.Proofs.StaticLemmas
import KiraModel.Proofs.SystemLenLemmas
import KiraModel.Proofs.EffectsACommon
import KiraModel.Proofs.LifecycleLemmas

namespace K

open StaticSound

/-! ### the gate with a settled fade -/

theorem gate_settled (c : SoundCore ℝ) (dtc : ℝ) (info : Info ℝ) (hf : Parameter.Settled c.psm.fade)
    (hst : c.startTime = .immediate)
    (hs : c.psm.state = .playing ∨ c.psm.state = .paused ∨ c.psm.state = .stopped) :
    c.gate dtc info = (c, c.psm.playbackState.isAdvancing) := by
  obtain ⟨psm, st, sh⟩ := c
  obtain ⟨state, fade⟩ := psm
  simp only at hf hs hst
  subst hst
  have hu := Parameter.settled_update tw32 fade dtc info hf
  unfold SoundCore.gate SoundCore.gateStart SoundCore.gatePsm Psm.update
  rcases hs with rfl | rfl | rfl <;>
    simp [hu, StartTime.update, StartTime.isImmediate, Psm.playbackState, PlaybackState.isAdvancing]

namespace StaticSound

/-- all four parameters settled, the sound's own start time has come -/
structure Quiet (s : StaticSound ℝ) : Prop where
  vol : Parameter.Settled s.volume
  rate : Parameter.Settled s.playbackRate
  pan : Parameter.Settled s.panning
  fade : Parameter.Settled s.core.psm.fade
  start : s.core.startTime = .immediate

theorem Quiet.of_sameConfig {s s' : StaticSound ℝ} (h : SameConfig s s') (hq : s.Quiet) : s'.Quiet := by
  constructor
  · rw [h.volume]; exact hq.vol
  · rw [h.playbackRate]; exact hq.rate
  · rw [h.panning]; exact hq.pan
  · rw [h.fade]; exact hq.fade
  · rw [h.startTime]; exact hq.start

/-- with settled parameters `process` leaves parameters and core alone: it is the render loop when
    the state advances and silence otherwise -/
theorem process_quiet (fuel : Nat) (s : StaticSound ℝ) (len : Nat) (dt : ℝ) (info : Info ℝ) (hq : s.Quiet)
    (hs : s.core.psm.state = .playing ∨ s.core.psm.state = .paused ∨ s.core.psm.state = .stopped) :
    s.process fuel len dt info
      = if s.core.psm.playbackState.isAdvancing then renderLoop fuel dt len len 0 s
        else .ok (s, List.replicate len Frame.zero) := by
  unfold process
  have hg := gate_settled s.core (dt * KOps.ofNat len) info hq.fade hq.start hs
  have hv := Parameter.settled_update tw32 s.volume (dt * KOps.ofNat len) info hq.vol
  have hp := Parameter.settled_update tw32 s.panning (dt * KOps.ofNat len) info hq.pan
  have hr := Parameter.settled_update tw64 s.playbackRate (dt * KOps.ofNat len) info hq.rate
  simp only [hg, hv, hp, hr]

theorem shade_quiet (s : StaticSound ℝ) (hq : s.Quiet) (t : ℝ) (f : Frame ℝ) : s.shade t f = s.shade 0 f := by
  unfold shade Psm.interpolatedFadeVolume
  rw [Parameter.settled_interp32 _ t hq.vol, Parameter.settled_interp32 _ 0 hq.vol,
    Parameter.settled_interp32 _ t hq.pan, Parameter.settled_interp32 _ 0 hq.pan,
    Parameter.settled_interp32 _ t hq.fade, Parameter.settled_interp32 _ 0 hq.fade]

/-- per-frame increment of the fractional position with a settled playback rate -/
noncomputable def cstep (s : StaticSound ℝ) (dt : ℝ) : ℝ := (s.sampleRate : ℝ) * |s.playbackRate.raw| * dt

theorem fracStep_quiet (s : StaticSound ℝ) (hq : s.Quiet) (t dt : ℝ) : s.fracStep t dt = cstep s dt := by
  unfold fracStep cstep
  rw [Parameter.settled_interp64 _ t hq.rate]; simp

/-! ### `sharedPosition` is never read -/

def setShared (x : ℝ) (s : StaticSound ℝ) : StaticSound ℝ := { s with sharedPosition := x }

theorem pushFrame_setShared (x : ℝ) (s : StaticSound ℝ) :
    (setShared x s).pushFrameToResampler = (s.pushFrameToResampler).map (setShared x) := by
  unfold pushFrameToResampler setShared
  by_cases hp : s.transport.playing
  · simp only [hp, if_true]
    cases frameAtIndex s.transport.position s.frames s.slice <;> rfl
  · simp only [hp]; rfl

theorem updatePosition_setShared (x : ℝ) (s : StaticSound ℝ) :
    (setShared x s).updatePosition = (s.updatePosition).map (setShared x) := by
  unfold updatePosition
  rw [pushFrame_setShared]
  cases h1 : s.pushFrameToResampler with
  | error f => rfl
  | ok s1 =>
    simp only [Except.map]
    have : (setShared x s1).moveTransport = s1.moveTransport := rfl
    rw [this]
    cases h2 : s1.moveTransport with
    | error f => rfl
    | ok t =>
      simp only []
      by_cases hc : (!t.playing && ({ s1 with transport := t } : StaticSound ℝ).resampler.empty) = true
      · have hc' : (!t.playing && ({ setShared x s1 with transport := t } : StaticSound ℝ).resampler.empty) = true := hc
        simp only [hc, hc', if_true]; rfl
      · have hc' : ¬ (!t.playing && ({ setShared x s1 with transport := t } : StaticSound ℝ).resampler.empty) = true := hc
        simp only [hc, hc']; rfl

theorem stepPos_setShared (x : ℝ) : ∀ (fuel : Nat) (s : StaticSound ℝ),
    stepPos fuel (setShared x s) = (stepPos fuel s).map (setShared x) := by
  intro fuel
  induction fuel with
  | zero =>
    intro s
    rw [stepPos, stepPos]
    have : (setShared x s).frac = s.frac := rfl
    rw [this]
    split <;> rfl
  | succ fuel ih =>
    intro s
    rw [stepPos_succ, stepPos_succ]
    have hfr : (setShared x s).frac = s.frac := rfl
    have hs : ({ setShared x s with frac := (setShared x s).frac - (1.0 : ℝ) } : StaticSound ℝ)
        = setShared x { s with frac := s.frac - (1.0 : ℝ) } := rfl
    rw [hs, hfr, updatePosition_setShared]
    split
    · cases updatePosition { s with frac := s.frac - (1.0 : ℝ) } with
      | error f => rfl
      | ok s1 => simp only [Except.map]; exact ih s1
    · rfl

theorem renderFrame_setShared (x : ℝ) (fuel : Nat) (s : StaticSound ℝ) (t dt : ℝ) :
    renderFrame fuel (setShared x s) t dt = (renderFrame fuel s t dt).map (fun r => (setShared x r.1, r.2)) := by
  unfold renderFrame
  have h1 : ({ setShared x s with frac := (setShared x s).frac + (setShared x s).fracStep t dt } : StaticSound ℝ)
      = setShared x { s with frac := s.frac + s.fracStep t dt } := rfl
  have h2 : (setShared x s).shade t ((setShared x s).resampler.get (KOps.r32 (setShared x s).frac))
      = s.shade t (s.resampler.get (KOps.r32 s.frac)) := rfl
  simp only [h1, h2]
  rw [stepPos_setShared]
  cases stepPos fuel { s with frac := s.frac + s.fracStep t dt } <;> rfl

theorem renderLoop_setShared (x : ℝ) (fuel : Nat) (dt : ℝ) (len : Nat) : ∀ (k i : Nat) (s : StaticSound ℝ),
    renderLoop fuel dt len k i (setShared x s)
      = (renderLoop fuel dt len k i s).map (fun r => (setShared x r.1, r.2)) := by
  intro k
  induction k with
  | zero => intro i s; rfl
  | succ k ih =>
    intro i s
    rw [renderLoop_succ, renderLoop_succ, renderFrame_setShared]
    cases renderFrame fuel s (((i + 1 : Nat) : ℝ) / (len : ℝ)) dt with
    | error f => rfl
    | ok r =>
      simp only [Except.map]
      rw [ih]
      cases renderLoop fuel dt len k (i + 1) r.1 <;> rfl

/-! ### the render loop is an `Except`-monad fold: appending -/

theorem renderLoop_add (fuel : Nat) (dt : ℝ) (len : Nat) : ∀ (a b i : Nat) (s : StaticSound ℝ),
    renderLoop fuel dt len (a + b) i s
      = (match renderLoop fuel dt len a i s with
         | .error f => .error f
         | .ok r => (match renderLoop fuel dt len b (i + a) r.1 with
            | .error f => .error f
            | .ok r' => .ok (r'.1, r.2 ++ r'.2))) := by
  intro a
  induction a with
  | zero =>
    intro b i s
    have h0 : renderLoop fuel dt len 0 i s = .ok (s, []) := rfl
    rw [Nat.zero_add, h0]
    simp only [Nat.add_zero, List.nil_append]
    cases renderLoop fuel dt len b i s <;> rfl
  | succ a ih =>
    intro b i s
    have : a + 1 + b = (a + b) + 1 := by omega
    rw [this, renderLoop_succ, renderLoop_succ]
    cases renderFrame fuel s (((i + 1 : Nat) : ℝ) / (len : ℝ)) dt with
    | error f => rfl
    | ok r =>
      simp only []
      rw [ih]
      have hi : i + 1 + a = i + (a + 1) := by omega
      rw [hi]
      cases renderLoop fuel dt len a (i + 1) r.1 with
      | error f => rfl
      | ok r1 =>
        simp only []
        cases renderLoop fuel dt len b (i + (a + 1)) r1.1 <;> rfl

/-! ### the loop invariant -/

/-- what every iteration of the render loop of a settled, in-domain sound preserves -/
structure Run (fuel : Nat) (dt : ℝ) (s : StaticSound ℝ) : Prop where
  quiet : s.Quiet
  endInv : s.EndInv
  dom : s.InDomain
  frac0 : 0 ≤ s.frac
  frac1 : s.frac < 1
  dt0 : 0 ≤ dt
  fuel : cstep s dt + 1 ≤ (fuel : ℝ)
  live : s.core.psm.state = .playing ∨ s.IsStopped

theorem updN_live : ∀ (k : Nat) (s s' : StaticSound ℝ), (s.core.psm.state = .playing ∨ s.IsStopped) →
    updN k s = .ok s' → (s'.core.psm.state = .playing ∨ s'.IsStopped) := by
  intro k
  induction k with
  | zero => intro s s' h hu; injection hu with hu; subst hu; exact h
  | succ k ih =>
    intro s s' h hu
    rw [updN_succ] at hu
    cases h1 : s.updatePosition with
    | error f => rw [h1] at hu; simp at hu
    | ok s1 =>
      rw [h1] at hu
      refine ih s1 s' ?_ hu
      obtain ⟨fo, t, c, hc, rfl⟩ := updatePosition_shape s s1 h1
      rcases hc with rfl | rfl
      · exact h
      · exact Or.inr (markStopped_isStopped s.core)

theorem Run.setShared {fuel : Nat} {dt : ℝ} {s : StaticSound ℝ} (h : Run fuel dt s) (x : ℝ) :
    Run fuel dt (setShared x s) :=
  { quiet := ⟨h.quiet.vol, h.quiet.rate, h.quiet.pan, h.quiet.fade, h.quiet.start⟩
    endInv := ⟨h.endInv.drained, h.endInv.state, h.endInv.dead⟩
    dom := h.dom, frac0 := h.frac0, frac1 := h.frac1, dt0 := h.dt0, fuel := h.fuel, live := h.live }

/-- one iteration from a state satisfying the loop invariant: no fault, the invariant again, and the
    result does not depend on the chunk time `t` -/
theorem renderFrame_run (fuel : Nat) (dt : ℝ) (s : StaticSound ℝ) (h : Run fuel dt s) :
    ∃ u : StaticSound ℝ, updN ⌊s.frac + cstep s dt⌋₊ s = .ok u ∧
      Run fuel dt (setFrac (s.frac + cstep s dt - (⌊s.frac + cstep s dt⌋₊ : ℝ)) u) ∧
      ∀ t, renderFrame fuel s t dt
        = .ok (setFrac (s.frac + cstep s dt - (⌊s.frac + cstep s dt⌋₊ : ℝ)) u,
               s.shade 0 (s.resampler.get s.frac)) := by
  have hc : 0 ≤ cstep s dt := mul_nonneg (mul_nonneg (Nat.cast_nonneg _) (abs_nonneg _)) h.dt0
  have hx0 : 0 ≤ s.frac + cstep s dt := add_nonneg h.frac0 hc
  have hfl : ⌊s.frac + cstep s dt⌋₊ < fuel := by
    have h1 := Nat.floor_le hx0
    have : ((⌊s.frac + cstep s dt⌋₊ : ℕ) : ℝ) < (fuel : ℝ) := by linarith [h.frac1, h.fuel]
    exact_mod_cast this
  obtain ⟨u, hu, hdom⟩ := updN_total ⌊s.frac + cstep s dt⌋₊ s h.dom
  have hsc := updN_sameConfig _ _ _ hu
  have hq := Quiet.of_sameConfig hsc h.quiet
  have he := updN_endInv _ _ _ h.endInv hu
  have hb := floor_frac_bounds _ hx0
  have hl := updN_live _ _ _ h.live hu
  refine ⟨u, hu, ?_, ?_⟩
  · exact
      { quiet := ⟨hq.vol, hq.rate, hq.pan, hq.fade, hq.start⟩
        endInv := ⟨he.drained, he.state, he.dead⟩
        dom := hdom
        frac0 := hb.1
        frac1 := hb.2
        dt0 := h.dt0
        fuel := by
          show (u.sampleRate : ℝ) * |u.playbackRate.raw| * dt + 1 ≤ (fuel : ℝ)
          rw [hsc.sampleRate, hsc.playbackRate]; exact h.fuel
        live := hl }
  · intro t
    rw [renderFrame_spec fuel s t dt (by rw [fracStep_quiet s h.quiet]; exact hx0)
      (by rw [fracStep_quiet s h.quiet]; exact hfl)]
    rw [fracStep_quiet s h.quiet t dt, hu, shade_quiet s h.quiet t]
    rfl

/-- the whole loop from a state satisfying the invariant: no fault, the invariant again, `k` frames,
    and neither the buffer length nor the frame index matters -/
theorem renderLoop_run (fuel : Nat) (dt : ℝ) : ∀ (k : Nat) (s : StaticSound ℝ), Run fuel dt s →
    ∃ (s' : StaticSound ℝ) (o : List (Frame ℝ)), Run fuel dt s' ∧ o.length = k
      ∧ ∀ len i, renderLoop fuel dt len k i s = .ok (s', o) := by
  intro k
  induction k with
  | zero => intro s h; exact ⟨s, [], h, rfl, fun _ _ => rfl⟩
  | succ k ih =>
    intro s h
    obtain ⟨u, _, hr1, hf⟩ := renderFrame_run fuel dt s h
    obtain ⟨s2, o2, hr2, hl2, hloop⟩ := ih _ hr1
    refine ⟨s2, s.shade 0 (s.resampler.get s.frac) :: o2, hr2, by simp [hl2], ?_⟩
    intro len i
    rw [renderLoop_succ, hf]
    simp only []
    rw [hloop]

/-! ### the dead loop: after the natural end -/

theorem markStopped_of_stopped (c : SoundCore ℝ) (h1 : c.psm.state = .stopped) (h2 : c.shared = .stopped) :
    c.markStopped = c := by
  obtain ⟨psm, st, sh⟩ := c
  obtain ⟨state, fade⟩ := psm
  simp only at h1 h2
  subst h1 h2
  rfl

/-- the state with the fields that are dead after the end cleared -/
noncomputable def deadCore (s : StaticSound ℝ) : StaticSound ℝ :=
  { s with frac := 0, resampler := Resampler.new 0, sharedPosition := 0 }

theorem updatePosition_dead (s : StaticSound ℝ) (he : s.EndInv) (hst : s.IsStopped) :
    s.updatePosition = .ok { s with resampler := s.resampler.pushFrame none s.transport.position } := by
  obtain ⟨hp, h0⟩ := he.dead hst.1
  rw [updatePosition_ended s hp]
  simp only [h0, if_true]
  rw [markStopped_of_stopped _ hst.1 hst.2]

theorem updN_dead : ∀ (k : Nat) (s u : StaticSound ℝ), s.EndInv → s.IsStopped →
    updN k s = .ok u → deadCore u = deadCore s := by
  intro k
  induction k with
  | zero => intro s u _ _ hu; injection hu with hu; subst hu; rfl
  | succ k ih =>
    intro s u he hst hu
    have h1 := updatePosition_dead s he hst
    rw [updN_succ, h1] at hu
    have he1 := updatePosition_endInv s _ he h1
    exact ih { s with resampler := s.resampler.pushFrame none s.transport.position } u he1 hst hu

theorem get_dead (s : StaticSound ℝ) (he : s.EndInv) (hst : s.core.psm.state = .stopped) (x : ℝ) :
    s.resampler.get x = Frame.zero := by
  obtain ⟨_, h0⟩ := he.dead hst
  have d := he.drained
  unfold Resampler.get
  rw [d.s0 h0, d.s1 (by omega), d.s2 (by omega), d.s3 (by omega), interpolateFrame_eq]
  simp [Frame.zero, hermite]

theorem shade_zero (s : StaticSound ℝ) (t : ℝ) : s.shade t Frame.zero = Frame.zero := by
  unfold shade
  simp only [Frame.scale, Frame.zero, lit_0, zero_mul, r32_real]
  unfold Frame.panned
  split
  · rfl
  · simp

theorem renderLoop_dead (fuel : Nat) (dt : ℝ) : ∀ (k : Nat) (s : StaticSound ℝ), Run fuel dt s → s.IsStopped →
    ∃ s' : StaticSound ℝ, deadCore s' = deadCore s ∧ s'.IsStopped
      ∧ ∀ len i, renderLoop fuel dt len k i s = .ok (s', List.replicate k Frame.zero) := by
  intro k
  induction k with
  | zero => intro s h hst; exact ⟨s, rfl, hst, fun _ _ => rfl⟩
  | succ k ih =>
    intro s h hst
    obtain ⟨u, hu, hr1, hf⟩ := renderFrame_run fuel dt s h
    have hd : deadCore u = deadCore s := updN_dead _ s u h.endInv hst hu
    have hst1 : u.IsStopped := updN_isStopped _ s u hst hu
    obtain ⟨s2, hd2, hst2, hloop⟩ := ih _ hr1 hst1
    refine ⟨s2, hd2.trans hd, hst2, ?_⟩
    intro len i
    rw [renderLoop_succ, hf]
    simp only []
    rw [hloop, get_dead s h.endInv hst.1, shade_zero]
    rfl

end StaticSound

/-! ### the sound component of the whole-system model -/

/-- forget the fields that no longer matter: `sharedPosition` always; `frac` and the resampler window once Stopped -/
noncomputable def SysSnd.norm (s : SysSnd ℝ) : SysSnd ℝ :=
  match s.snd.core.psm.state with
  | .stopped => { s with snd := { s.snd with frac := 0, resampler := Resampler.new 0, sharedPosition := 0 } }
  | _ => { s with snd := { s.snd with sharedPosition := 0 } }

/-- "all parameters constant, no command in flight, in its documented domain" for a sound in an arena -/
def SysSnd.Inv (fuel : Nat) (dt : ℝ) (s : SysSnd ℝ) : Prop :=
  s.fault = none
  ∧ Parameter.Settled s.snd.volume ∧ Parameter.Settled s.snd.playbackRate ∧ Parameter.Settled s.snd.panning
  ∧ Parameter.Settled s.snd.core.psm.fade ∧ s.snd.core.startTime = .immediate
  ∧ ( (s.snd.core.psm.state = .paused ∨ s.snd.core.psm.state = .stopped)      -- frozen: gated, renders silence
      ∨ ( s.snd.core.psm.state = .playing ∧ s.snd.EndInv ∧ s.snd.InDomain
          ∧ 0 ≤ s.snd.frac ∧ s.snd.frac < 1 ∧ 0 ≤ dt
          ∧ (s.snd.sampleRate : ℝ) * |s.snd.playbackRate.raw| * dt + 1 ≤ (fuel : ℝ) ) )   -- enough loop fuel per frame

/-- the step followed by normalisation -/
noncomputable def SysSnd.stepN (fuel : Nat) (s : SysSnd ℝ) (out : List (Frame ℝ)) (dt : ℝ) (info : Info ℝ) :
    SysSnd ℝ × List (Frame ℝ) :=
  (SysSnd.norm (SysSnd.step fuel s out dt info).1, (SysSnd.step fuel s out dt info).2)

theorem SysSnd.norm_stopped (s : SysSnd ℝ) (h : s.snd.core.psm.state = .stopped) :
    SysSnd.norm s = { s with snd := deadCore s.snd } := by
  unfold SysSnd.norm
  split
  · rfl
  · next hne => exact absurd h hne

theorem SysSnd.norm_live (s : SysSnd ℝ) (h : s.snd.core.psm.state ≠ .stopped) :
    SysSnd.norm s = { s with snd := setShared 0 s.snd } := by
  unfold SysSnd.norm
  split
  · next heq => exact absurd heq h
  · rfl

theorem SysSnd.norm_state (s : SysSnd ℝ) : (SysSnd.norm s).snd.core = s.snd.core := by
  unfold SysSnd.norm
  split <;> rfl

theorem SysSnd.norm_idem (s : SysSnd ℝ) : SysSnd.norm (SysSnd.norm s) = SysSnd.norm s := by
  by_cases h : s.snd.core.psm.state = .stopped
  · have h' : (SysSnd.norm s).snd.core.psm.state = .stopped := by rw [SysSnd.norm_state]; exact h
    rw [SysSnd.norm_stopped _ h', SysSnd.norm_stopped s h]
    rfl
  · have h' : (SysSnd.norm s).snd.core.psm.state ≠ .stopped := by rw [SysSnd.norm_state]; exact h
    rw [SysSnd.norm_live _ h', SysSnd.norm_live s h]
    rfl

/-- `norm` forgets `sharedPosition` -/
theorem SysSnd.norm_setShared (id : Nat) (x : StaticSound ℝ) (f : Option Fault) (v : ℝ) :
    SysSnd.norm ⟨id, setShared v x, f⟩ = SysSnd.norm ⟨id, x, f⟩ := by
  by_cases h : x.core.psm.state = .stopped
  · rw [SysSnd.norm_stopped _ (show (setShared v x).core.psm.state = .stopped from h),
      SysSnd.norm_stopped ⟨id, x, f⟩ h]
    rfl
  · rw [SysSnd.norm_live _ (show (setShared v x).core.psm.state ≠ .stopped from h),
      SysSnd.norm_live ⟨id, x, f⟩ h]
    rfl

/-- two Stopped states that agree outside the dead fields have the same normal form -/
theorem SysSnd.norm_dead (id : Nat) (x y : StaticSound ℝ) (f : Option Fault) (hx : x.core.psm.state = .stopped)
    (hy : y.core.psm.state = .stopped) (h : deadCore x = deadCore y) :
    SysSnd.norm ⟨id, x, f⟩ = SysSnd.norm ⟨id, y, f⟩ := by
  rw [SysSnd.norm_stopped ⟨id, x, f⟩ hx, SysSnd.norm_stopped ⟨id, y, f⟩ hy]
  show (⟨id, deadCore x, f⟩ : SysSnd ℝ) = ⟨id, deadCore y, f⟩
  rw [h]

theorem SysSnd.Inv.quiet {fuel : Nat} {dt : ℝ} {s : SysSnd ℝ} (h : SysSnd.Inv fuel dt s) : s.snd.Quiet :=
  ⟨h.2.1, h.2.2.1, h.2.2.2.1, h.2.2.2.2.1, h.2.2.2.2.2.1⟩

theorem SysSnd.Inv.run {fuel : Nat} {dt : ℝ} {s : SysSnd ℝ} (h : SysSnd.Inv fuel dt s)
    (hp : s.snd.core.psm.state = .playing) : Run fuel dt s.snd := by
  have hq := h.quiet
  rcases h.2.2.2.2.2.2 with hf | ⟨_, he, hd, f0, f1, d0, hfuel⟩
  · rw [hp] at hf
    rcases hf with hf | hf <;> cases hf
  · exact ⟨hq, he, hd, f0, f1, d0, hfuel, Or.inl hp⟩

theorem SysSnd.inv_of_run {fuel : Nat} {dt : ℝ} (id : Nat) (x : StaticSound ℝ) (h : Run fuel dt x) :
    SysSnd.Inv fuel dt ⟨id, x, none⟩ := by
  refine ⟨rfl, h.quiet.vol, h.quiet.rate, h.quiet.pan, h.quiet.fade, h.quiet.start, ?_⟩
  rcases h.live with hp | hst
  · exact Or.inr ⟨hp, h.endInv, h.dom, h.frac0, h.frac1, h.dt0, h.fuel⟩
  · exact Or.inl (Or.inr hst.1)

theorem SysSnd.norm_inv (fuel : Nat) (dt : ℝ) (s : SysSnd ℝ) (h : SysSnd.Inv fuel dt s) :
    SysSnd.Inv fuel dt (SysSnd.norm s) := by
  obtain ⟨id, snd, fault⟩ := s
  obtain rfl : fault = none := h.1
  by_cases hst : snd.core.psm.state = .stopped
  · rw [SysSnd.norm_stopped _ hst]
    exact ⟨rfl, h.2.1, h.2.2.1, h.2.2.2.1, h.2.2.2.2.1, h.2.2.2.2.2.1, Or.inl (Or.inr hst)⟩
  · rw [SysSnd.norm_live _ hst]
    refine ⟨rfl, h.2.1, h.2.2.1, h.2.2.2.1, h.2.2.2.2.1, h.2.2.2.2.2.1, ?_⟩
    rcases h.2.2.2.2.2.2 with hf | ⟨hp, he, hd, f0, f1, d0, hfuel⟩
    · exact Or.inl hf
    · exact Or.inr ⟨hp, ⟨he.drained, he.state, he.dead⟩, hd, f0, f1, d0, hfuel⟩

/-- a frozen (paused / stopped) sound renders silence and does not change -/
theorem SysSnd.step_frozen (fuel : Nat) (dt : ℝ) (s : SysSnd ℝ) (h : SysSnd.Inv fuel dt s)
    (hf : s.snd.core.psm.state = .paused ∨ s.snd.core.psm.state = .stopped) (n : Nat) (info : Info ℝ) :
    SysSnd.step fuel s (zeros n) dt info = (s, zeros n) := by
  have hq := h.quiet
  obtain ⟨id, snd, fault⟩ := s
  obtain rfl : fault = none := h.1
  have hadv : snd.core.psm.playbackState.isAdvancing = false := by
    rcases hf with hf | hf <;>
      (simp only at hf; simp [Psm.playbackState, hf, PlaybackState.isAdvancing])
  unfold SysSnd.step
  simp only [zeros, List.length_replicate]
  rw [process_quiet fuel snd n dt info hq (Or.inr hf), hadv]
  rfl

/-- a playing sound: the step is the render loop -/
theorem SysSnd.step_playing (fuel : Nat) (dt : ℝ) (id : Nat) (snd : StaticSound ℝ)
    (h : SysSnd.Inv fuel dt ⟨id, snd, none⟩) (hp : snd.core.psm.state = .playing) (n : Nat) (info : Info ℝ)
    (s' : StaticSound ℝ) (o : List (Frame ℝ)) (hl : renderLoop fuel dt n n 0 snd = .ok (s', o)) :
    SysSnd.step fuel ⟨id, snd, none⟩ (zeros n) dt info = (⟨id, s', none⟩, o) := by
  have hq : snd.Quiet := h.quiet
  have hadv : snd.core.psm.playbackState.isAdvancing = true := by
    simp [Psm.playbackState, hp, PlaybackState.isAdvancing]
  unfold SysSnd.step
  simp only [zeros, List.length_replicate]
  rw [process_quiet fuel snd n dt info hq (Or.inl hp), hadv, if_pos rfl, hl]

/-- no fault, invariant kept, by the plain step -/
theorem SysSnd.step_inv (fuel : Nat) (dt : ℝ) (s : SysSnd ℝ) (h : SysSnd.Inv fuel dt s) (n : Nat) (info : Info ℝ) :
    SysSnd.Inv fuel dt (SysSnd.step fuel s (zeros n) dt info).1 := by
  by_cases hp : s.snd.core.psm.state = .playing
  · obtain ⟨id, snd, fault⟩ := s
    obtain rfl : fault = none := h.1
    obtain ⟨s', o, hr, _, hloop⟩ := renderLoop_run fuel dt n snd (h.run hp)
    rw [SysSnd.step_playing fuel dt id snd h hp n info s' o (hloop n 0)]
    exact SysSnd.inv_of_run id s' hr
  · have hf : s.snd.core.psm.state = .paused ∨ s.snd.core.psm.state = .stopped := by
      rcases h.2.2.2.2.2.2 with hf | hpl
      · exact hf
      · exact absurd hpl.1 hp
    rw [SysSnd.step_frozen fuel dt s h hf n info]
    exact h

theorem SysSnd.stepN_inv (fuel : Nat) (dt : ℝ) (s : SysSnd ℝ) (h : SysSnd.Inv fuel dt s) (n : Nat) (info : Info ℝ) :
    SysSnd.Inv fuel dt (SysSnd.stepN fuel s (zeros n) dt info).1 :=
  SysSnd.norm_inv fuel dt _ (SysSnd.step_inv fuel dt s h n info)

theorem SysSnd.Inv.frozen_of_not_playing {fuel : Nat} {dt : ℝ} {s : SysSnd ℝ} (h : SysSnd.Inv fuel dt s)
    (hp : ¬ s.snd.core.psm.state = .playing) :
    s.snd.core.psm.state = .paused ∨ s.snd.core.psm.state = .stopped := by
  rcases h.2.2.2.2.2.2 with hf | hpl
  · exact hf
  · exact absurd hpl.1 hp

/-- the normalised step simulates the plain step through `norm` -/
theorem SysSnd.stepN_norm (fuel : Nat) (dt : ℝ) (s : SysSnd ℝ) (h : SysSnd.Inv fuel dt s) (n : Nat) (info : Info ℝ) :
    SysSnd.stepN fuel (SysSnd.norm s) (zeros n) dt info
      = (SysSnd.norm (SysSnd.step fuel s (zeros n) dt info).1, (SysSnd.step fuel s (zeros n) dt info).2) := by
  have hn := SysSnd.norm_inv fuel dt s h
  unfold SysSnd.stepN
  by_cases hp : s.snd.core.psm.state = .playing
  · obtain ⟨id, snd, fault⟩ := s
    obtain rfl : fault = none := h.1
    obtain ⟨s', o, hr, _, hloop⟩ := renderLoop_run fuel dt n snd (h.run hp)
    have hlive : snd.core.psm.state ≠ .stopped := by
      simp only at hp; rw [hp]; intro hc; cases hc
    rw [SysSnd.step_playing fuel dt id snd h hp n info s' o (hloop n 0)]
    rw [SysSnd.norm_live ⟨id, snd, none⟩ hlive] at hn ⊢
    have hl2 : renderLoop fuel dt n n 0 (setShared 0 snd) = .ok (setShared 0 s', o) := by
      rw [renderLoop_setShared, hloop n 0]; rfl
    rw [SysSnd.step_playing fuel dt id (setShared 0 snd) hn hp n info (setShared 0 s') o hl2]
    simp only [SysSnd.norm_setShared]
  · have hf := h.frozen_of_not_playing hp
    have hf' : (SysSnd.norm s).snd.core.psm.state = .paused ∨ (SysSnd.norm s).snd.core.psm.state = .stopped := by
      rw [SysSnd.norm_state]; exact hf
    rw [SysSnd.step_frozen fuel dt s h hf n info, SysSnd.step_frozen fuel dt _ hn hf' n info]
    simp only [SysSnd.norm_idem]

theorem zeros_add (a b : Nat) : (zeros (a + b) : List (Frame ℝ)) = zeros a ++ zeros b := by
  simp only [zeros, List.replicate_add]

/-- chunk homomorphism of the normalised step -/
theorem SysSnd.stepN_chunk (fuel : Nat) (dt : ℝ) (s : SysSnd ℝ) (h : SysSnd.Inv fuel dt s) (info : Info ℝ) (a b : Nat) :
    SysSnd.stepN fuel s (zeros (a + b)) dt info
      = ((SysSnd.stepN fuel (SysSnd.stepN fuel s (zeros a) dt info).1 (zeros b) dt info).1,
         (SysSnd.stepN fuel s (zeros a) dt info).2 ++ (SysSnd.stepN fuel (SysSnd.stepN fuel s (zeros a) dt info).1 (zeros b) dt info).2) := by
  have hstep : ∀ n, SysSnd.stepN fuel s (zeros n) dt info
      = (SysSnd.norm (SysSnd.step fuel s (zeros n) dt info).1, (SysSnd.step fuel s (zeros n) dt info).2) :=
    fun n => rfl
  rw [hstep a]
  simp only []
  rw [SysSnd.stepN_norm fuel dt _ (SysSnd.step_inv fuel dt s h a info) b info, hstep (a + b)]
  simp only []
  by_cases hp : s.snd.core.psm.state = .playing
  · obtain ⟨id, snd, fault⟩ := s
    obtain rfl : fault = none := h.1
    have hrun := h.run hp
    obtain ⟨s1, o1, hr1, _, hloop1⟩ := renderLoop_run fuel dt a snd hrun
    obtain ⟨s2, o2, hr2, _, hloop2⟩ := renderLoop_run fuel dt b s1 hr1
    have hab : renderLoop fuel dt (a + b) (a + b) 0 snd = .ok (s2, o1 ++ o2) := by
      rw [renderLoop_add, hloop1 (a + b) 0]
      simp only []
      rw [hloop2 (a + b) (0 + a)]
    rw [SysSnd.step_playing fuel dt id snd h hp (a + b) info s2 (o1 ++ o2) hab,
      SysSnd.step_playing fuel dt id snd h hp a info s1 o1 (hloop1 a 0)]
    simp only []
    have h1 := SysSnd.inv_of_run id s1 hr1
    rcases hr1.live with hp1 | hst1
    · rw [SysSnd.step_playing fuel dt id s1 h1 hp1 b info s2 o2 (hloop2 b 0)]
    · rw [SysSnd.step_frozen fuel dt ⟨id, s1, none⟩ h1 (Or.inr hst1.1) b info]
      obtain ⟨s2d, hd, hst2, hloopd⟩ := renderLoop_dead fuel dt b s1 hr1 hst1
      have heq := (hloop2 b 0).symm.trans (hloopd b 0)
      injection heq with heq
      injection heq with hs2 ho2
      subst hs2 ho2
      simp only []
      rw [SysSnd.norm_dead id s2 s1 none hst2.1 hst1.1 hd]
      rfl
  · have hf := h.frozen_of_not_playing hp
    rw [SysSnd.step_frozen fuel dt s h hf (a + b) info, SysSnd.step_frozen fuel dt s h hf a info]
    simp only []
    rw [SysSnd.step_frozen fuel dt s h hf b info, zeros_add]

/-! ### `on_start_processing`, `finished`, the command block -/

theorem StaticSound.onStartProcessing_idle (s : StaticSound ℝ) (hc : s.cmds = {}) :
    s.onStartProcessing
      = .ok (setShared ((s.resampler.currentFrameIndex : ℝ) / (s.sampleRate : ℝ)) s) := by
  obtain ⟨cmds, sr, frames, slice, rev, core, res, tr, frac, vol, rate, pan, sp⟩ := s
  simp only at hc
  subst hc
  simp [onStartProcessing, readCommands, readLoopCmd, readParamCmds, readParam, readLifeCmds, readSeekCmds,
    applyOpt, applyOptE, andThen, setShared]

theorem SysSnd.inv_setShared {fuel : Nat} {dt : ℝ} (id : Nat) (x : StaticSound ℝ) (v : ℝ)
    (h : SysSnd.Inv fuel dt ⟨id, x, none⟩) : SysSnd.Inv fuel dt ⟨id, setShared v x, none⟩ := by
  refine ⟨rfl, h.2.1, h.2.2.1, h.2.2.2.1, h.2.2.2.2.1, h.2.2.2.2.2.1, ?_⟩
  rcases h.2.2.2.2.2.2 with hf | ⟨hp, he, hd, f0, f1, d0, hfuel⟩
  · exact Or.inl hf
  · exact Or.inr ⟨hp, ⟨he.drained, he.state, he.dead⟩, hd, f0, f1, d0, hfuel⟩

/-- `on_start_processing` with an empty command block only rewrites `sharedPosition` -/
theorem SysSnd.start_norm (fuel : Nat) (dt : ℝ) (s : SysSnd ℝ) (h : SysSnd.Inv fuel dt s) (hc : s.snd.cmds = {}) :
    SysSnd.norm (SysSnd.start s) = SysSnd.norm s ∧ SysSnd.Inv fuel dt (SysSnd.start s)
      ∧ (SysSnd.start s).snd.cmds = {} := by
  obtain ⟨id, snd, fault⟩ := s
  obtain rfl : fault = none := h.1
  have hs : SysSnd.start ⟨id, snd, none⟩
      = ⟨id, setShared ((snd.resampler.currentFrameIndex : ℝ) / (snd.sampleRate : ℝ)) snd, none⟩ := by
    unfold SysSnd.start
    simp only [StaticSound.onStartProcessing_idle snd hc]
  rw [hs]
  exact ⟨SysSnd.norm_setShared id snd none _, SysSnd.inv_setShared id snd _ h, hc⟩

theorem StaticSound.stepPos_cmds : ∀ (fuel : Nat) (s s' : StaticSound ℝ), stepPos fuel s = .ok s' → s'.cmds = s.cmds := by
  intro fuel
  induction fuel with
  | zero =>
    intro s s' h
    rw [stepPos] at h
    split at h
    · cases h
    · injection h with h; subst h; rfl
  | succ fuel ih =>
    intro s s' h
    rw [stepPos_succ] at h
    split at h
    · revert h
      cases hu : updatePosition { s with frac := s.frac - (1.0 : ℝ) } with
      | error f => intro h; cases h
      | ok s1 =>
        intro h
        rw [ih s1 s' h, (updatePosition_sameConfig _ s1 hu).cmds]
    · injection h with h; subst h; rfl

theorem StaticSound.renderFrame_cmds (fuel : Nat) (s s' : StaticSound ℝ) (t dt : ℝ) (f : Frame ℝ)
    (h : renderFrame fuel s t dt = .ok (s', f)) : s'.cmds = s.cmds := by
  unfold renderFrame at h
  cases hs : stepPos fuel { s with frac := s.frac + s.fracStep t dt } with
  | error e => simp [hs] at h
  | ok s1 =>
    simp only [hs] at h
    injection h with h; injection h with h1 h2; subst h1
    have := StaticSound.stepPos_cmds fuel _ s1 hs
    exact this

theorem StaticSound.renderLoop_cmds (fuel : Nat) (dt : ℝ) (len : Nat) : ∀ (k i : Nat) (s s' : StaticSound ℝ)
    (outs : List (Frame ℝ)), renderLoop fuel dt len k i s = .ok (s', outs) → s'.cmds = s.cmds := by
  intro k
  induction k with
  | zero =>
    intro i s s' outs h
    simp only [renderLoop] at h
    injection h with h; injection h with h1 h2; subst h1; rfl
  | succ k ih =>
    intro i s s' outs h
    rw [renderLoop_succ] at h
    cases hr : renderFrame fuel s (((i + 1 : Nat) : ℝ) / (len : ℝ)) dt with
    | error e => rw [hr] at h; simp at h
    | ok r =>
      obtain ⟨s1, f⟩ := r
      rw [hr] at h
      simp only [] at h
      cases hl : renderLoop fuel dt len k (i + 1) s1 with
      | error e => rw [hl] at h; simp at h
      | ok r' =>
        obtain ⟨s2, fs⟩ := r'
        rw [hl] at h
        simp only [] at h
        injection h with h; injection h with h1 h2; subst h1
        rw [ih (i + 1) s1 s2 fs hl]
        exact StaticSound.renderFrame_cmds fuel s s1 _ dt f hr

theorem StaticSound.process_cmds (fuel : Nat) (s s' : StaticSound ℝ) (len : Nat) (dt : ℝ) (info : Info ℝ)
    (outs : List (Frame ℝ)) (h : s.process fuel len dt info = .ok (s', outs)) : s'.cmds = s.cmds := by
  unfold process at h
  simp only [ofNat_real] at h
  cases hg : (s.core.gate (dt * (len : ℝ)) info).2 with
  | false =>
    simp only [hg] at h
    injection h with h; injection h with h1 h2; subst h1; rfl
  | true =>
    simp only [hg, if_true] at h
    have := StaticSound.renderLoop_cmds fuel dt len len 0 _ s' outs h
    exact this

/-- `process` never touches the command block -/
theorem SysSnd.step_cmds (fuel : Nat) (s : SysSnd ℝ) (out : List (Frame ℝ)) (dt : ℝ) (info : Info ℝ) :
    (SysSnd.step fuel s out dt info).1.snd.cmds = s.snd.cmds := by
  unfold SysSnd.step
  split
  · rfl
  · split
    · next r hr => exact StaticSound.process_cmds fuel s.snd r.1 out.length dt info r.2 hr
    · rfl

theorem SysSnd.finished_iff (s : SysSnd ℝ) : SysSnd.finished s = true ↔ s.snd.core.psm.state = .stopped := by
  unfold SysSnd.finished StaticSound.finished SoundCore.finished Psm.playbackState
  cases h : s.snd.core.psm.state <;> simp

/-! ### a freshly built sound -/

theorem Transport.new_loopRegion (sp : Nat) (lr : Option (Nat × Nat)) (rev : Bool) (n : Nat) (t : Transport)
    (h : Transport.new sp lr rev n = .ok t) : t.loopRegion = Transport.validLoop lr := by
  unfold Transport.new at h
  injection h with h; subst h; rfl

/-- a loop region ends inside the sound (ANY slice: since kira's `fix: slice clamped to the data` the slice
    is total — clamped to the data, empty when inverted — so it is no longer part of the domain) -/
structure StaticSoundData.InDomain (d : StaticSoundData ℝ) : Prop where
  loop : ∀ n r, numFrames d.frames.size d.slice = .ok n → d.settings.loopRegion = some r →
    (r.toSamples d.sampleRate n).2 ≤ n

theorem StaticSound.init_inDomain (d : StaticSoundData ℝ) (s0 : StaticSound ℝ) (h0 : init d = .ok s0)
    (hd : d.InDomain) : s0.InDomain := by
  obtain ⟨n, t, hn, ht, htr, hfr, hsl, _, _, _, _, _, _, _, _, _⟩ := init_shape d s0 h0
  show s0.transport.ValidLoop s0.nFrames
  have hn' : s0.nFrames = n := by
    have := numFrames_ok s0
    rw [hfr, hsl, hn] at this
    injection this with this; exact this.symm
  rw [hn', htr]
  unfold Transport.ValidLoop
  rw [Transport.new_loopRegion _ _ _ _ t ht]
  cases hl : d.settings.loopRegion with
  | none => simp
  | some r =>
    have hle := hd.loop n r hn hl
    simp only [Option.map_some]
    by_cases hlt : (r.toSamples d.sampleRate n).1 < (r.toSamples d.sampleRate n).2
    · rw [show r.toSamples d.sampleRate n = ((r.toSamples d.sampleRate n).1, (r.toSamples d.sampleRate n).2) from rfl,
        Transport.validLoop_some_of_lt _ _ hlt]
      exact ⟨hlt, hle⟩
    · rw [show r.toSamples d.sampleRate n = ((r.toSamples d.sampleRate n).1, (r.toSamples d.sampleRate n).2) from rfl,
        Transport.validLoop_some_of_not_lt _ _ hlt]
      trivial

/-- in-domain data whose `init` succeeds can be primed: `new` does not fault
    (`StaticSound.new_total`, Proofs/StaticLemmas.lean, now shows this for ANY data) -/
theorem StaticSound.new_total_of_inDomain (d : StaticSoundData ℝ) (s0 : StaticSound ℝ) (h0 : init d = .ok s0)
    (hd : d.InDomain) : ∃ snd, StaticSound.new d = .ok snd := by
  obtain ⟨a, ha, da⟩ := updatePosition_total s0 (StaticSound.init_inDomain d s0 h0 hd)
  obtain ⟨b, hb, db⟩ := updatePosition_total a da
  obtain ⟨c, hc, _⟩ := updatePosition_total b db
  refine ⟨c, ?_⟩
  unfold StaticSound.new
  simp only [h0, ha, hb, hc]

/-- a sound made by `StaticSound.new` from in-domain data with fixed settings satisfies the invariant -/
theorem SysSnd.new_inv (fuel : Nat) (dt : ℝ) (id : Nat) (d : StaticSoundData ℝ) (snd : StaticSound ℝ)
    (hnew : StaticSound.new d = .ok snd)
    (hv : ∃ v, d.settings.volume = .fixed v) (vr : ℝ) (hr : d.settings.playbackRate = .fixed vr)
    (hp : ∃ v, d.settings.panning = .fixed v)
    (hst : d.settings.startTime = .immediate) (hfade : d.settings.fadeInTween = none)
    (hdom : d.InDomain)
    (hdt : 0 ≤ dt) (hfuel : (d.sampleRate : ℝ) * |vr| * dt + 1 ≤ (fuel : ℝ)) :
    SysSnd.Inv fuel dt ⟨id, snd, none⟩ := by
  obtain ⟨vv, hv⟩ := hv
  obtain ⟨vp, hp⟩ := hp
  cases h0 : init d with
  | error f => unfold StaticSound.new at hnew; simp [h0] at hnew
  | ok s0 =>
    have hu := new_eq_updN d s0 snd h0 hnew
    have hd0 := StaticSound.init_inDomain d s0 h0 hdom
    obtain ⟨n, t, _, _, _, _, _, hsr, _, hfr, hres, hcore, hvol, hrate, hpan, _⟩ := init_shape d s0 h0
    have hq0 : s0.Quiet := by
      refine ⟨?_, ?_, ?_, ?_, ?_⟩
      · rw [hvol, hv]; exact Parameter.new_fixed_settled _ _
      · rw [hrate, hr]; exact Parameter.new_fixed_settled _ _
      · rw [hpan, hp]; exact Parameter.new_fixed_settled _ _
      · rw [hcore, hfade]
        exact Parameter.new_fixed_settled (Psm.identityDb : ℝ) (Psm.identityDb : ℝ)
      · rw [hcore, hst]; rfl
    have he0 : s0.EndInv := by
      refine ⟨?_, ?_, ?_⟩
      · rw [hres]; exact new_drained _
      · rw [hcore]; left; rfl
      · rw [hcore]; intro hst; simp [SoundCore.new, Psm.new] at hst
    obtain ⟨s', hu', hd⟩ := updN_total 3 s0 hd0
    rw [hu] at hu'
    injection hu' with hu'
    subst hu'
    have hsc := updN_sameConfig 3 s0 snd hu
    have hq := Quiet.of_sameConfig hsc hq0
    have he := updN_endInv 3 s0 snd he0 hu
    refine ⟨rfl, hq.vol, hq.rate, hq.pan, hq.fade, hq.start, ?_⟩
    rcases he.state with hpl | hstop
    · refine Or.inr ⟨hpl, he, hd, ?_, ?_, hdt, ?_⟩
      · show 0 ≤ snd.frac
        rw [hsc.frac, hfr]
      · show snd.frac < 1
        rw [hsc.frac, hfr]; norm_num
      · show (snd.sampleRate : ℝ) * |snd.playbackRate.raw| * dt + 1 ≤ (fuel : ℝ)
        rw [hsc.sampleRate, hsc.playbackRate, hsr, hrate, hr]
        exact hfuel
    · exact Or.inl (Or.inr hstop)

/-- a concrete instance: four frames at 4 Hz, fixed settings, rendered at 4 Hz -/
noncomputable def exSnd4 : StaticSoundData ℝ :=
  { sampleRate := 4
    frames := #[⟨1, 1⟩, ⟨2, 2⟩, ⟨3, 3⟩, ⟨4, 4⟩]
    slice := none
    settings := { startTime := .immediate, startPosition := .samples 0, loopRegion := none, reverse := false
                  volume := .fixed 0, playbackRate := .fixed 1, panning := .fixed 0, fadeInTween := none } }

theorem exSnd4_inDomain : exSnd4.InDomain :=
  ⟨fun n r _ hl => by simp [exSnd4] at hl⟩

example : ∃ snd, StaticSound.new exSnd4 = .ok snd ∧ SysSnd.Inv 2 (1 / 4) ⟨0, snd, none⟩ := by
  obtain ⟨_, snd, _, hnew, _, _⟩ := StaticSound.new_total exSnd4
  refine ⟨snd, hnew, ?_⟩
  refine SysSnd.new_inv 2 (1 / 4) 0 exSnd4 snd hnew ⟨0, rfl⟩ 1 rfl ⟨0, rfl⟩ rfl rfl exSnd4_inDomain (by norm_num) ?_
  simp [exSnd4]
  norm_num

end K
