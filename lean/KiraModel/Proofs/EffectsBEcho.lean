/-
  EffectsBEcho.lean — the impulse response of the per-frame delay line with a memoryless feedback map.
  Helper lemmas for C14_delay_echoes.
-/
import KiraModel.Proofs.EffectsBDelay
import Mathlib.Logic.Function.Iterate

namespace K
namespace Delay
open LineFx

variable {φ : Type}

/-- the per-frame delay line with a memoryless feedback map `h` (feedback effects then feedback gain):
    returns the final line and the wet signal (what is read back, after `h`) -/
noncomputable def lineRun (h : Frame ℝ → Frame ℝ) : List (Frame ℝ) → List (Frame ℝ) → List (Frame ℝ) × List (Frame ℝ)
  | buf, [] => (buf, [])
  | [], _ :: _ => ([], [])
  | b :: rest, x :: xs =>
    let r := lineRun h (rest ++ [Frame.add x (h b)]) xs
    (r.1, h b :: r.2)

theorem framesC_memoryless (C : FxChain ℝ φ) (g : Frame ℝ → Frame ℝ) (amp m dt : ℝ) (info : Info ℝ)
    (hC : ∀ s xs, (C.process s xs dt info).2 = xs.map g) :
    ∀ (xs buf : List (Frame ℝ)) (s : φ), 1 ≤ buf.length →
      (framesC C amp m dt info (buf, s) xs).1.1 = (lineRun (fun f => (g f).scale amp) buf xs).1
      ∧ (framesC C amp m dt info (buf, s) xs).2
        = List.zipWith (fun t x => blend t x m) (lineRun (fun f => (g f).scale amp) buf xs).2 xs := by
  intro xs
  induction xs with
  | nil => intro buf s _; simp [framesC, lineRun]
  | cons x xs ih =>
    intro buf s hb
    cases buf with
    | nil => simp at hb
    | cons b rest =>
      have hlen : 1 ≤ (rest ++ [Frame.add x ((g b).scale amp)]).length := by simp
      have := ih (rest ++ [Frame.add x ((g b).scale amp)]) (C.process s [b] dt info).1 hlen
      simp only [framesC, chunkC, hC, List.length_cons, List.length_nil, Nat.zero_add, List.take_succ_cons,
        List.take_zero, List.map_cons, List.map_nil, List.drop_succ_cons, List.drop_zero, List.zipWith_cons_cons,
        List.zipWith_nil_right, lineRun]
      exact ⟨this.1, by rw [this.2]; simp⟩

/-- the wet sample `t` frames after a line `0^a · v · 0^j` (length `L = a+1+j`) starts receiving silence -/
noncomputable def echoAt (h : Frame ℝ → Frame ℝ) (v : Frame ℝ) (a L t : ℕ) : Frame ℝ :=
  if a ≤ t ∧ (t - a) % L = 0 then h^[(t - a) / L + 1] v else Frame.zero

theorem lineRun_echo (h : Frame ℝ → Frame ℝ) (h0 : h Frame.zero = Frame.zero) :
    ∀ (n a j : ℕ) (v : Frame ℝ) (t : ℕ), t < n →
      (lineRun h (List.replicate a Frame.zero ++ v :: List.replicate j Frame.zero)
        (List.replicate n Frame.zero)).2[t]? = some (echoAt h v a (a + 1 + j) t) := by
  intro n
  induction n with
  | zero => intro a j v t ht; omega
  | succ n ih =>
    intro a j v t ht
    cases a with
    | zero =>
      simp only [List.replicate_zero, List.nil_append, List.replicate_succ, lineRun, FrameB.zero_add]
      cases t with
      | zero => simp [echoAt]
      | succ t =>
        have := ih j 0 (h v) t (by omega)
        simp only [List.replicate_zero] at this
        simp only [List.getElem?_cons_succ, this]
        congr 1
        unfold echoAt
        have hL : 0 + 1 + j = j + 1 := by omega
        have hL' : j + 1 + 0 = j + 1 := by omega
        rw [hL, hL']
        by_cases hjt : j ≤ t
        · have e1 : t + 1 - 0 = (t - j) + (j + 1) := by omega
          rw [e1, Nat.add_mod_right, Nat.add_div_right _ (by omega : 0 < j + 1)]
          by_cases hm : (t - j) % (j + 1) = 0
          · simp only [hjt, hm, and_self, Nat.zero_le, if_true]
            simp only [Function.iterate_succ_apply]
          · simp [hm]
        · have hlt : t + 1 < j + 1 := by omega
          have : (t + 1 - 0) % (j + 1) ≠ 0 := by
            rw [Nat.sub_zero, Nat.mod_eq_of_lt hlt]; omega
          rw [Nat.sub_zero] at this
          simp [hjt, this]
    | succ a =>
      simp only [List.replicate_succ, List.cons_append, lineRun, h0, FrameB.add_zero]
      have hb : (List.replicate a (Frame.zero : Frame ℝ) ++ v :: List.replicate j Frame.zero) ++ [Frame.zero]
          = List.replicate a Frame.zero ++ v :: List.replicate (j + 1) Frame.zero := by
        simp [List.replicate_succ', List.append_assoc]
      cases t with
      | zero => simp [echoAt]
      | succ t =>
        have := ih a (j + 1) v t (by omega)
        simp only [List.getElem?_cons_succ]
        rw [hb, this]
        congr 1
        unfold echoAt
        have hL : a + 1 + (j + 1) = a + 1 + 1 + j := by omega
        rw [hL]
        have e : t + 1 - (a + 1) = t - a := by omega
        rw [e]
        by_cases hat : a ≤ t
        · simp [hat]
        · simp [hat]

/-- the wet sample at frame `t` of the impulse response of a fresh line of `L` frames:
    echo `k` at frame `k·L` is the impulse passed `k` times through `h`; zero elsewhere -/
noncomputable def delayEcho (h : Frame ℝ → Frame ℝ) (x0 : Frame ℝ) (L t : ℕ) : Frame ℝ :=
  if 0 < t ∧ t % L = 0 then h^[t / L] x0 else Frame.zero

theorem echoAt_eq_delayEcho (h : Frame ℝ → Frame ℝ) (x0 : Frame ℝ) (L' t : ℕ) :
    echoAt h x0 L' (L' + 1) t = delayEcho h x0 (L' + 1) (t + 1) := by
  unfold echoAt delayEcho
  by_cases hjt : L' ≤ t
  · have e1 : t + 1 = (t - L') + (L' + 1) := by omega
    rw [e1, Nat.add_mod_right, Nat.add_div_right _ (by omega : 0 < L' + 1)]
    simp [hjt]
  · have hlt : t + 1 < L' + 1 := by omega
    have : (t + 1) % (L' + 1) ≠ 0 := by rw [Nat.mod_eq_of_lt hlt]; omega
    simp [hjt, this]

/-- the wet signal of a fresh line fed an impulse then silence -/
theorem lineRun_impulse (h : Frame ℝ → Frame ℝ) (h0 : h Frame.zero = Frame.zero) (L' n : ℕ) (x0 : Frame ℝ)
    (t : ℕ) (ht : t ≤ n) :
    (lineRun h (List.replicate (L' + 1) Frame.zero) (x0 :: List.replicate n Frame.zero)).2[t]?
      = some (delayEcho h x0 (L' + 1) t) := by
  simp only [List.replicate_succ, lineRun, h0, FrameB.add_zero]
  cases t with
  | zero => simp [delayEcho]
  | succ t =>
    have := lineRun_echo h h0 n L' 0 x0 t (by omega)
    simp only [List.replicate_zero, Nat.add_zero] at this
    simp only [List.getElem?_cons_succ, this, echoAt_eq_delayEcho]

end Delay
end K
