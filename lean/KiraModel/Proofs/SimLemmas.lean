/-
  SimLemmas.lean — component maps that commute with `process` commute with the whole mixer (C11).

  `Comps.SimOn C C' fs fe IS IE N dt`: on the sound states satisfying `IS` / effect states satisfying `IE`,
  for slices of at most `N` frames, one step of the components `C'` on the mapped state `fs s` / `fe e`
  is the map of one step of `C` on `s` / `e`, with the same output.  Then the signal-flow specification of
  the mixer built from the mapped components (`Mixer.mapComps fs fe`, Model/System.lean) is the map of the
  specification of the original mixer, with the same output: tree induction, send pass, main track,
  chunk loop.  Two uses:
  * `C' = C`, `fe` = "resize the scratch buffer of every delay": the internal buffer size is only a
    capacity also for the effects that own scratch buffers;
  * `C'` = the components followed by a normalisation `fs` of dead state (a static sound that has ended).
  Over ℝ.
-/
import KiraModel.Proofs.IdleLemmas
import KiraModel.Proofs.SystemLemmas

set_option linter.unusedSectionVars false

namespace K

section
variable {S E P X : Type} (C C' : Comps ℝ S E P) (V : EnvOps ℝ X)
variable (fs : S → S) (fe : E → E) {IS : S → Prop} {IE : E → Prop} {N : Nat} {dt : ℝ}

/-- the steps of `C'` on mapped states are the maps of the steps of `C` (same outputs), on the invariants
    `IS`, `IE` (preserved by the steps of `C`), for slices of at most `N` frames; same spatial hook -/
structure Comps.SimOn (C C' : Comps ℝ S E P) (fs : S → S) (fe : E → E) (IS : S → Prop) (IE : E → Prop)
    (N : Nat) (dt : ℝ) : Prop where
  snd : ∀ s info n, IS s → n ≤ N →
    C'.sndStep (fs s) (zeros n) dt info = (fs (C.sndStep s (zeros n) dt info).1, (C.sndStep s (zeros n) dt info).2)
  sndInv : ∀ s info n, IS s → n ≤ N → IS (C.sndStep s (zeros n) dt info).1
  fx : ∀ e info xs, IE e → xs.length ≤ N →
    C'.fxStep (fe e) xs dt info = (fe (C.fxStep e xs dt info).1, (C.fxStep e xs dt info).2)
  fxInv : ∀ e info xs, IE e → xs.length ≤ N → IE (C.fxStep e xs dt info).1
  spStep : C'.spStep = C.spStep
  spInfo : C'.spInfo = C.spInfo

/-- a send track with its effects mapped -/
def SendTrk.mapFx (fe : E → E) (s : SendTrk ℝ E) : SendTrk ℝ E := { s with effects := s.effects.map fe }

theorem specSounds_sim (hS : Comps.SimOn C C' fs fe IS IE N dt) (info : Info ℝ) (n : Nat) (hn : n ≤ N)
    (ss : List S) (hss : ∀ s ∈ ss, IS s) :
    specSounds C' dt info n (ss.map fs)
      = ((specSounds C dt info n ss).1.map fs, (specSounds C dt info n ss).2)
      ∧ ∀ s ∈ (specSounds C dt info n ss).1, IS s := by
  induction ss with
  | nil => simp [specSounds]
  | cons s ss ih =>
    obtain ⟨i1, i2⟩ := ih (fun x hx => hss x (by simp [hx]))
    simp only [specSounds, List.map_cons, Prod.mk.injEq, List.map_map] at i1 ⊢
    rw [hS.snd s info n (hss s (by simp)) hn]
    refine ⟨⟨by simp [i1.1], by simp [i1.2]⟩, ?_⟩
    intro x hx
    rcases List.mem_cons.mp hx with rfl | hx
    · exact hS.sndInv s info n (hss s (by simp)) hn
    · exact i2 x (by simpa [specSounds, List.map_map] using hx)

theorem runEffects_sim (hC : C.LenPres) (hS : Comps.SimOn C C' fs fe IS IE N dt) (info : Info ℝ)
    (es : List E) (hes : ∀ e ∈ es, IE e) (xs : List (Frame ℝ)) (hl : xs.length ≤ N) :
    runEffects C' dt info (es.map fe) xs
      = ((runEffects C dt info es xs).1.map fe, (runEffects C dt info es xs).2)
      ∧ ∀ e ∈ (runEffects C dt info es xs).1, IE e := by
  induction es generalizing xs with
  | nil => simp [runEffects]
  | cons e es ih =>
    obtain ⟨i1, i2⟩ := ih (fun x hx => hes x (by simp [hx])) (C.fxStep e xs dt info).2 (by rw [hC.fx]; exact hl)
    simp only [runEffects, List.map_cons]
    rw [hS.fx e info xs (hes e (by simp)) hl]
    dsimp only
    rw [i1]
    refine ⟨rfl, ?_⟩
    intro x hx
    rcases List.mem_cons.mp hx with rfl | hx
    · exact hS.fxInv e info xs (hes e (by simp)) hl
    · exact i2 x hx

theorem sendsAddInput_mapFx (sends : List (SendTrk ℝ E)) (id : Nat) (buf : List (Frame ℝ)) (v : ℝ) :
    sendsAddInput (sends.map (SendTrk.mapFx fe)) id buf v = (sendsAddInput sends id buf v).map (SendTrk.mapFx fe) := by
  unfold sendsAddInput
  rw [List.map_map, List.map_map]
  apply List.map_congr_left
  intro s _
  simp only [Function.comp, SendTrk.mapFx]
  split <;> simp [SendTrk.addInput, *]

theorem feedSends_mapFx (routes : List (Route ℝ)) (out : List (Frame ℝ)) (sends : List (SendTrk ℝ E)) :
    feedSends routes out (sends.map (SendTrk.mapFx fe)) = (feedSends routes out sends).map (SendTrk.mapFx fe) := by
  unfold feedSends
  induction routes generalizing sends with
  | nil => simp
  | cons r rs ih => simp only [List.foldl_cons]; rw [sendsAddInput_mapFx, ih]

theorem Trk.preUpdate_mapData (dtt : ℝ) (info : Info ℝ) (n : Nat) (d : TrkData ℝ S E P) (a b : List S) (c : List E) :
    Trk.preUpdate dtt info n { d with sounds := a, pendingSounds := b, effects := c }
      = { Trk.preUpdate dtt info n d with sounds := a, pendingSounds := b, effects := c } := by
  unfold Trk.preUpdate Trk.publish; dsimp only; split <;> rfl

/-- the specification of a sub-track commutes with the component map -/
theorem Trk.spec_mapComps (hC : C.LenPres) (hS : Comps.SimOn C C' fs fe IS IE N dt) (t : Trk ℝ S E P) :
    Trk.CompsOk IS IE t → ∀ (pinfo : Info ℝ) (n : Nat) (sends : List (SendTrk ℝ E)), n ≤ N →
      Trk.spec C' dt pinfo n (Trk.mapComps fs fe t) (sends.map (SendTrk.mapFx fe))
        = (Trk.mapComps fs fe (Trk.spec C dt pinfo n t sends).1, (Trk.spec C dt pinfo n t sends).2.1,
            (Trk.spec C dt pinfo n t sends).2.2.map (SendTrk.mapFx fe))
      ∧ Trk.CompsOk IS IE (Trk.spec C dt pinfo n t sends).1 := by
  refine Trk.rec
    (motive_1 := fun t => Trk.CompsOk IS IE t → ∀ (pinfo : Info ℝ) (n : Nat) (sends : List (SendTrk ℝ E)), n ≤ N →
      Trk.spec C' dt pinfo n (Trk.mapComps fs fe t) (sends.map (SendTrk.mapFx fe))
        = (Trk.mapComps fs fe (Trk.spec C dt pinfo n t sends).1, (Trk.spec C dt pinfo n t sends).2.1,
            (Trk.spec C dt pinfo n t sends).2.2.map (SendTrk.mapFx fe))
      ∧ Trk.CompsOk IS IE (Trk.spec C dt pinfo n t sends).1)
    (motive_2 := fun ts => Trk.CompsOkList IS IE ts → ∀ (info : Info ℝ) (n : Nat) (sends : List (SendTrk ℝ E)), n ≤ N →
      Trk.specChildren C' dt info n (Trk.mapCompsList fs fe ts) (sends.map (SendTrk.mapFx fe))
        = (Trk.mapCompsList fs fe (Trk.specChildren C dt info n ts sends).1, (Trk.specChildren C dt info n ts sends).2.1,
            (Trk.specChildren C dt info n ts sends).2.2.map (SendTrk.mapFx fe))
      ∧ Trk.CompsOkList IS IE (Trk.specChildren C dt info n ts sends).1) ?_ ?_ ?_ t
  · intro d children pending ihc _ hc pinfo n sends hn
    obtain ⟨hdc, hcc⟩ := hc
    rw [Trk.mapComps, Trk.spec, Trk.spec]
    have hinfo : Trk.trackInfo C'
        ({ d with sounds := d.sounds.map fs, pendingSounds := d.pendingSounds.map fs, effects := d.effects.map fe } : TrkData ℝ S E P)
        pinfo = Trk.trackInfo C d pinfo := by
      simp only [Trk.trackInfo, hS.spInfo]
    simp only [hinfo, Trk.preUpdate_mapData]
    obtain ⟨f1, _, f3, _⟩ := Trk.preUpdate_fields dt (Trk.trackInfo C d pinfo) n d
    have hadv : ∀ (a b : List S) (c : List E), Trk.advancing
        ({ Trk.preUpdate dt (Trk.trackInfo C d pinfo) n d with sounds := a, pendingSounds := b, effects := c } : TrkData ℝ S E P)
        = Trk.advancing (Trk.preUpdate dt (Trk.trackInfo C d pinfo) n d) := fun _ _ _ => rfl
    rw [hadv]
    have hd2c : (Trk.preUpdate dt (Trk.trackInfo C d pinfo) n d).CompsOk IS IE := by
      unfold TrkData.CompsOk; rw [f1, f3]; exact hdc
    split
    · refine ⟨?_, hd2c, hcc⟩
      rw [Trk.mapComps]
      simp only [Prod.mk.injEq, and_true]
      obtain ⟨_, f2, _⟩ := Trk.preUpdate_fields dt (Trk.trackInfo C d pinfo) n d
      rw [f1, f2, f3]
    · obtain ⟨ic1, ic2⟩ := ihc hcc (Trk.trackInfo C d pinfo) n sends hn
      rw [ic1]
      unfold Trk.specPost
      dsimp only
      obtain ⟨ss1, ss2⟩ := specSounds_sim C C' fs fe hS (Trk.trackInfo C d pinfo) n hn
        (Trk.preUpdate dt (Trk.trackInfo C d pinfo) n d).sounds hd2c.1
      obtain ⟨_, f2, _⟩ := Trk.preUpdate_fields dt (Trk.trackInfo C d pinfo) n d
      rw [f1] at ss1 ss2
      obtain ⟨ee1, ee2⟩ := runEffects_sim C C' fs fe hC hS (Trk.trackInfo C d pinfo)
        (Trk.preUpdate dt (Trk.trackInfo C d pinfo) n d).effects hd2c.2
        (mixInto (mixInto (zeros n) (Trk.specChildren C dt (Trk.trackInfo C d pinfo) n children sends).2.1)
          (specSounds C dt (Trk.trackInfo C d pinfo) n d.sounds).2) (by simp only [length_mixInto, length_zeros]; exact hn)
      rw [f3] at ee1 ee2
      rw [f1, f3, ss1]
      dsimp only
      rw [ee1]
      dsimp only
      have hsp : ∀ (sp : Option P) (buf : List (Frame ℝ)) (i : Info ℝ),
          Trk.spatialStage C' dt i n sp buf = Trk.spatialStage C dt i n sp buf := by
        intro sp buf i; unfold Trk.spatialStage; rw [hS.spStep]
      rw [hsp, feedSends_mapFx]
      refine ⟨?_, ⟨ss2, ee2⟩, ic2⟩
      rw [Trk.mapComps]
      simp only [Prod.mk.injEq, and_true, true_and]
      rw [f2]
  · intro _ info n sends _; exact ⟨by simp [Trk.specChildren, Trk.mapCompsList], trivial⟩
  · intro t ts iht ihts hc info n sends hn
    obtain ⟨t1, t2⟩ := iht hc.1 info n sends hn
    obtain ⟨l1, l2⟩ := ihts hc.2 info n (Trk.spec C dt info n t sends).2.2 hn
    rw [Trk.mapCompsList, Trk.specChildren, Trk.specChildren, t1]
    dsimp only
    rw [l1]
    exact ⟨by simp [Trk.mapCompsList], t2, l2⟩

theorem Trk.specChildren_mapComps (hC : C.LenPres) (hS : Comps.SimOn C C' fs fe IS IE N dt) (ts : List (Trk ℝ S E P))
    (hc : Trk.CompsOkList IS IE ts) (info : Info ℝ) (n : Nat) (sends : List (SendTrk ℝ E)) (hn : n ≤ N) :
    Trk.specChildren C' dt info n (Trk.mapCompsList fs fe ts) (sends.map (SendTrk.mapFx fe))
        = (Trk.mapCompsList fs fe (Trk.specChildren C dt info n ts sends).1, (Trk.specChildren C dt info n ts sends).2.1,
            (Trk.specChildren C dt info n ts sends).2.2.map (SendTrk.mapFx fe))
      ∧ Trk.CompsOkList IS IE (Trk.specChildren C dt info n ts sends).1 := by
  induction ts generalizing sends with
  | nil => exact ⟨by simp [Trk.specChildren, Trk.mapCompsList], trivial⟩
  | cons t ts ih =>
    obtain ⟨t1, t2⟩ := Trk.spec_mapComps C C' fs fe hC hS t hc.1 info n sends hn
    obtain ⟨l1, l2⟩ := ih hc.2 (Trk.spec C dt info n t sends).2.2
    rw [Trk.mapCompsList, Trk.specChildren, Trk.specChildren, t1]
    dsimp only
    rw [l1]
    exact ⟨by simp [Trk.mapCompsList], t2, l2⟩

/-- the send pass commutes with the effect map -/
theorem specSends_sim (hC : C.LenPres) (hS : Comps.SimOn C C' fs fe IS IE N dt) (info : Info ℝ) (n : Nat) (hn : n ≤ N)
    (ss : List (SendTrk ℝ E)) (hve : ∀ s ∈ ss, ∀ e ∈ s.effects, IE e) :
    specSends C' dt info n (ss.map (SendTrk.mapFx fe))
      = ((specSends C dt info n ss).1.map (SendTrk.mapFx fe), (specSends C dt info n ss).2)
      ∧ ∀ s ∈ (specSends C dt info n ss).1, ∀ e ∈ s.effects, IE e := by
  induction ss with
  | nil => simp [specSends]
  | cons s ss ih =>
    obtain ⟨i1, i2⟩ := ih (fun x hx => hve x (by simp [hx]))
    obtain ⟨e1, e2⟩ := runEffects_sim C C' fs fe hC hS info s.effects (hve s (by simp))
      (addInto (zeros n) s.input) (by simp only [length_addInto, length_zeros]; exact hn)
    have hp : (SendTrk.mapFx fe s).process C' (zeros n) dt info
        = (SendTrk.mapFx fe (s.process C (zeros n) dt info).1, (s.process C (zeros n) dt info).2) := by
      unfold SendTrk.process SendTrk.mapFx
      dsimp only
      rw [e1]
    simp only [specSends, List.map_cons, Prod.mk.injEq, List.map_map] at i1 ⊢
    rw [hp]
    refine ⟨⟨by simp [i1.1], by simp [i1.2]⟩, ?_⟩
    intro x hx
    rcases List.mem_cons.mp hx with rfl | hx
    · simpa [SendTrk.process] using e2
    · exact i2 x (by simpa [specSends, List.map_map] using hx)

/-- the main track with its components mapped -/
def MainTrk.mapComps (fs : S → S) (fe : E → E) (t : MainTrk ℝ S E) : MainTrk ℝ S E :=
  { t with sounds := t.sounds.map fs, pendingSounds := t.pendingSounds.map fs, effects := t.effects.map fe }

theorem MainTrk.spec_sim (hC : C.LenPres) (hS : Comps.SimOn C C' fs fe IS IE N dt) (info : Info ℝ) (t : MainTrk ℝ S E)
    (hsS : ∀ s ∈ t.sounds, IS s) (hsE : ∀ e ∈ t.effects, IE e) (bus : List (Frame ℝ)) (hl : bus.length ≤ N) :
    MainTrk.spec C' (MainTrk.mapComps fs fe t) bus dt info
      = (MainTrk.mapComps fs fe (MainTrk.spec C t bus dt info).1, (MainTrk.spec C t bus dt info).2)
      ∧ (∀ s ∈ (MainTrk.spec C t bus dt info).1.sounds, IS s)
      ∧ (∀ e ∈ (MainTrk.spec C t bus dt info).1.effects, IE e) := by
  obtain ⟨s1, s2⟩ := specSounds_sim C C' fs fe hS info bus.length hl t.sounds hsS
  obtain ⟨e1, e2⟩ := runEffects_sim C C' fs fe hC hS info t.effects hsE
    (mixInto bus (specSounds C dt info bus.length t.sounds).2) (by simp only [length_mixInto]; exact hl)
  unfold MainTrk.spec MainTrk.mapComps
  dsimp only
  rw [s1]
  dsimp only
  rw [e1]
  exact ⟨rfl, s2, e2⟩

theorem Mixer.mapComps_eq (m : Mixer ℝ S E P) :
    Mixer.mapComps fs fe m
      = { m with main := MainTrk.mapComps fs fe m.main,
                 subTracks := Trk.mapCompsList fs fe m.subTracks,
                 pendingSubTracks := Trk.mapCompsList fs fe m.pendingSubTracks,
                 sendTracks := m.sendTracks.map (SendTrk.mapFx fe),
                 pendingSendTracks := m.pendingSendTracks.map (SendTrk.mapFx fe) } := rfl

/-- **the mixer's specification commutes with the component map** -/
theorem Mixer.spec_mapComps (hC : C.LenPres) (hS : Comps.SimOn C C' fs fe IS IE N dt) (m : Mixer ℝ S E P)
    (hc : Mixer.CompsOk IS IE m) (n : Nat) (hn : n ≤ N) (info : Info ℝ) :
    Mixer.spec C' (Mixer.mapComps fs fe m) n dt info
      = (Mixer.mapComps fs fe (Mixer.spec C m n dt info).1, (Mixer.spec C m n dt info).2)
      ∧ Mixer.CompsOk IS IE (Mixer.spec C m n dt info).1 := by
  obtain ⟨c1, c2⟩ := Trk.specChildren_mapComps C C' fs fe hC hS m.subTracks hc.subs info n m.sendTracks hn
  have hcore := Trk.specChildren_core C m.subTracks dt info n m.sendTracks
  have hveA : ∀ s ∈ (Trk.specChildren C dt info n m.subTracks m.sendTracks).2.2, ∀ e ∈ s.effects, IE e := by
    intro s hs'
    have hmem : SendTrk.core s ∈ m.sendTracks.map SendTrk.core := by rw [← hcore]; exact List.mem_map_of_mem hs'
    obtain ⟨s0, hs0, e⟩ := List.mem_map.mp hmem
    have : s.effects = s0.effects := by
      have := congrArg SendTrk.effects e; simpa [SendTrk.core] using this.symm
    rw [this]; exact hc.sends s0 hs0
  obtain ⟨s1, s2⟩ := specSends_sim C C' fs fe hC hS info n hn _ hveA
  obtain ⟨m1, m2, m3⟩ := MainTrk.spec_sim C C' fs fe hC hS info m.main hc.mainS hc.mainE
    (mixInto (mixInto (zeros n) (Trk.specChildren C dt info n m.subTracks m.sendTracks).2.1)
      (specSends C dt info n (Trk.specChildren C dt info n m.subTracks m.sendTracks).2.2).2)
    (by simp only [length_mixInto, length_zeros]; exact hn)
  refine ⟨?_, ⟨c2, m2, m3, s2⟩⟩
  rw [Mixer.mapComps_eq, Mixer.mapComps_eq]
  unfold Mixer.spec
  dsimp only
  rw [c1]
  dsimp only
  rw [s1]
  dsimp only
  rw [m1]

/-- the renderer with every component mapped -/
def Renderer.mapComps (fs : S → S) (fe : E → E) (r : Renderer ℝ S E P X) : Renderer ℝ S E P X :=
  { r with mixer := Mixer.mapComps fs fe r.mixer }

/-- **the chunk loop commutes with the component map** -/
theorem Renderer.specChunks_mapComps (hC : C.LenPres) (ch : Nat) (ns : List Nat) :
    ∀ (r : Renderer ℝ S E P X), Comps.SimOn C C' fs fe IS IE N r.dt → Mixer.CompsOk IS IE r.mixer → (∀ n ∈ ns, n ≤ N) →
      Renderer.specChunks C' V ch (Renderer.mapComps fs fe r) ns
        = (Renderer.mapComps fs fe (Renderer.specChunks C V ch r ns).1, (Renderer.specChunks C V ch r ns).2)
      ∧ Mixer.CompsOk IS IE (Renderer.specChunks C V ch r ns).1.mixer := by
  induction ns with
  | nil => intro r _ hc _; exact ⟨by simp [Renderer.specChunks], hc⟩
  | cons n ns ih =>
    intro r hS hc hns
    obtain ⟨h1, h2⟩ := Mixer.spec_mapComps C C' fs fe hC hS r.mixer hc n (hns n (by simp))
      (V.info (V.step r.env (r.dt * (KOps.ofNat n : ℝ))))
    have hstep : (Renderer.mapComps fs fe r).specChunk C' V n ch
        = (Renderer.mapComps fs fe (r.specChunk C V n ch).1, (r.specChunk C V n ch).2) := by
      unfold Renderer.specChunk Renderer.mapComps
      dsimp only
      rw [h1]
    obtain ⟨i1, i2⟩ := ih (r.specChunk C V n ch).1 hS h2 (fun m hm => hns m (by simp [hm]))
    simp only [Renderer.specChunks, hstep]
    rw [i1]
    exact ⟨rfl, i2⟩

/-- **a sequence of `Renderer::process` calls commutes with the component map** -/
theorem Renderer.runCallbacks_mapComps (hC : C.LenPres) (hC' : C'.LenPres) (ch : Nat) (cbs : List Nat)
    (r : Renderer ℝ S E P X) (hr : r.Clean) (hS : Comps.SimOn C C' fs fe IS IE r.ibs r.dt)
    (hc : Mixer.CompsOk IS IE r.mixer) (hr' : (Renderer.mapComps fs fe r).Clean) :
    Renderer.runCallbacks C' V ch (Renderer.mapComps fs fe r) cbs
        = (Renderer.mapComps fs fe (Renderer.runCallbacks C V ch r cbs).1, (Renderer.runCallbacks C V ch r cbs).2)
      ∧ Mixer.CompsOk IS IE (Renderer.runCallbacks C V ch r cbs).1.mixer := by
  have hibs : (Renderer.mapComps fs fe r).ibs = r.ibs := rfl
  rw [(Renderer.runCallbacks_spec_clean C V hC ch cbs r hr).1,
    (Renderer.runCallbacks_spec_clean C' V hC' ch cbs _ hr').1, hibs]
  refine Renderer.specChunks_mapComps C C' V fs fe hC ch _ r hS hc ?_
  intro n hn
  simp only [callbackChunks, List.mem_flatMap] at hn
  obtain ⟨f, _, hf⟩ := hn
  exact (chunkSizes_bound f r.ibs f n hf).1

end

/-! ### the structural invariants survive the component map -/

section
variable {S E P X : Type}
variable (fs : S → S) (fe : E → E)

theorem Trk.mapComps_settled (t : Trk ℝ S E P) : Trk.Settled t → Trk.Settled (Trk.mapComps fs fe t) := by
  refine Trk.rec (motive_1 := fun t => Trk.Settled t → Trk.Settled (Trk.mapComps fs fe t))
    (motive_2 := fun ts => Trk.SettledList ts → Trk.SettledList (Trk.mapCompsList fs fe ts)) ?_ ?_ ?_ t
  · intro d c p ihc _ h; rw [Trk.mapComps]; exact ⟨h.1, ihc h.2⟩
  · intro _; simp [Trk.mapCompsList, Trk.SettledList]
  · intro t ts iht ihts h; rw [Trk.mapCompsList]; exact ⟨iht h.1, ihts h.2⟩

theorem Trk.mapCompsList_settled (ts : List (Trk ℝ S E P)) (h : Trk.SettledList ts) :
    Trk.SettledList (Trk.mapCompsList fs fe ts) := by
  induction ts with
  | nil => simp [Trk.mapCompsList, Trk.SettledList]
  | cons t ts ih => rw [Trk.mapCompsList]; exact ⟨Trk.mapComps_settled fs fe t h.1, ih h.2⟩

theorem Mixer.mapComps_settled (m : Mixer ℝ S E P) (h : Mixer.Settled m) : Mixer.Settled (Mixer.mapComps fs fe m) :=
  ⟨Trk.mapCompsList_settled fs fe _ h.subs, h.main,
    by intro s hs; simp only [Mixer.mapComps, List.mem_map] at hs; obtain ⟨s0, hs0, rfl⟩ := hs; exact h.sends s0 hs0⟩

theorem Renderer.mapComps_quiet (r : Renderer ℝ S E P X) (h : r.Quiet) : (Renderer.mapComps fs fe r).Quiet :=
  ⟨⟨h.1.1, Mixer.mapComps_clean r.ibs fs fe r.mixer h.1.2⟩, Mixer.mapComps_settled fs fe r.mixer h.2⟩

theorem Trk.mapComps_idle (t : Trk ℝ S E P) : Trk.Idle t → Trk.Idle (Trk.mapComps fs fe t) := by
  refine Trk.rec (motive_1 := fun t => Trk.Idle t → Trk.Idle (Trk.mapComps fs fe t))
    (motive_2 := fun ts => Trk.IdleList ts → Trk.IdleList (Trk.mapCompsList fs fe ts)) ?_ ?_ ?_ t
  · intro d c p ihc _ h
    obtain ⟨hd, hp, hc⟩ := h
    subst hp
    rw [Trk.mapComps]
    refine ⟨?_, by simp [Trk.mapCompsList], ihc hc⟩
    obtain ⟨h1, h2, h3, h4, h5, h6⟩ := hd
    exact ⟨h1, h2, h3, h4, by simp [h5], h6⟩
  · intro _; simp [Trk.mapCompsList, Trk.IdleList]
  · intro t ts iht ihts h; rw [Trk.mapCompsList]; exact ⟨iht h.1, ihts h.2⟩

theorem Mixer.mapComps_idle (m : Mixer ℝ S E P) (h : Mixer.Idle m) : Mixer.Idle (Mixer.mapComps fs fe m) := by
  have hl : ∀ ts : List (Trk ℝ S E P), Trk.IdleList ts → Trk.IdleList (Trk.mapCompsList fs fe ts) := by
    intro ts hts
    induction ts with
    | nil => simp [Trk.mapCompsList, Trk.IdleList]
    | cons t ts ih => rw [Trk.mapCompsList]; exact ⟨Trk.mapComps_idle fs fe t hts.1, ih hts.2⟩
  refine ⟨hl _ h.subs, by simp [Mixer.mapComps, h.pending, Trk.mapCompsList], by simp [Mixer.mapComps, h.pendingSends], ?_,
    ⟨h.main.1, by simp [Mixer.mapComps, h.main.2]⟩⟩
  intro s hs
  simp only [Mixer.mapComps, List.mem_map] at hs
  obtain ⟨s0, hs0, rfl⟩ := hs
  exact h.sends s0 hs0

/-- mapped components satisfy the mapped invariants -/
theorem Trk.mapComps_compsOk {IS IS2 : S → Prop} {IE IE2 : E → Prop} (hfs : ∀ s, IS s → IS2 (fs s))
    (hfe : ∀ e, IE e → IE2 (fe e)) (t : Trk ℝ S E P) :
    Trk.CompsOk IS IE t → Trk.CompsOk IS2 IE2 (Trk.mapComps fs fe t) := by
  refine Trk.rec (motive_1 := fun t => Trk.CompsOk IS IE t → Trk.CompsOk IS2 IE2 (Trk.mapComps fs fe t))
    (motive_2 := fun ts => Trk.CompsOkList IS IE ts → Trk.CompsOkList IS2 IE2 (Trk.mapCompsList fs fe ts)) ?_ ?_ ?_ t
  · intro d c p ihc _ h
    rw [Trk.mapComps]
    refine ⟨⟨?_, ?_⟩, ihc h.2⟩
    · intro s hs; simp only [List.mem_map] at hs; obtain ⟨s0, hs0, rfl⟩ := hs; exact hfs s0 (h.1.1 s0 hs0)
    · intro e he; simp only [List.mem_map] at he; obtain ⟨e0, he0, rfl⟩ := he; exact hfe e0 (h.1.2 e0 he0)
  · intro _; simp [Trk.mapCompsList, Trk.CompsOkList]
  · intro t ts iht ihts h; rw [Trk.mapCompsList]; exact ⟨iht h.1, ihts h.2⟩

theorem Mixer.mapComps_compsOk {IS IS2 : S → Prop} {IE IE2 : E → Prop} (hfs : ∀ s, IS s → IS2 (fs s))
    (hfe : ∀ e, IE e → IE2 (fe e)) (m : Mixer ℝ S E P) (h : Mixer.CompsOk IS IE m) :
    Mixer.CompsOk IS2 IE2 (Mixer.mapComps fs fe m) := by
  have hl : ∀ ts : List (Trk ℝ S E P), Trk.CompsOkList IS IE ts → Trk.CompsOkList IS2 IE2 (Trk.mapCompsList fs fe ts) := by
    intro ts hts
    induction ts with
    | nil => simp [Trk.mapCompsList, Trk.CompsOkList]
    | cons t ts ih => rw [Trk.mapCompsList]; exact ⟨Trk.mapComps_compsOk fs fe hfs hfe t hts.1, ih hts.2⟩
  refine ⟨hl _ h.subs, ?_, ?_, ?_⟩
  · intro s hs; simp only [Mixer.mapComps, List.mem_map] at hs; obtain ⟨s0, hs0, rfl⟩ := hs; exact hfs s0 (h.mainS s0 hs0)
  · intro e he; simp only [Mixer.mapComps, List.mem_map] at he; obtain ⟨e0, he0, rfl⟩ := he; exact hfe e0 (h.mainE e0 he0)
  · intro s hs e he
    simp only [Mixer.mapComps, List.mem_map] at hs
    obtain ⟨s0, hs0, rfl⟩ := hs
    simp only [List.mem_map] at he
    obtain ⟨e0, he0, rfl⟩ := he
    exact hfe e0 (h.sends s0 hs0 e0 he0)

/-- resizing scratch buffers does not touch the components -/
theorem Trk.resize_compsOk {IS : S → Prop} {IE : E → Prop} (k : Nat) (t : Trk ℝ S E P) :
    Trk.CompsOk IS IE t → Trk.CompsOk IS IE (Trk.resize k t) := by
  refine Trk.rec (motive_1 := fun t => Trk.CompsOk IS IE t → Trk.CompsOk IS IE (Trk.resize k t))
    (motive_2 := fun ts => Trk.CompsOkList IS IE ts → Trk.CompsOkList IS IE (Trk.resizeList k ts)) ?_ ?_ ?_ t
  · intro d c p ihc _ h; rw [Trk.resize]; exact ⟨h.1, ihc h.2⟩
  · intro _; simp [Trk.resizeList, Trk.CompsOkList]
  · intro t ts iht ihts h; rw [Trk.resizeList]; exact ⟨iht h.1, ihts h.2⟩

theorem Mixer.resize_compsOk {IS : S → Prop} {IE : E → Prop} (k : Nat) (m : Mixer ℝ S E P) (h : Mixer.CompsOk IS IE m) :
    Mixer.CompsOk IS IE (Mixer.resize k m) := by
  have hl : ∀ ts : List (Trk ℝ S E P), Trk.CompsOkList IS IE ts → Trk.CompsOkList IS IE (Trk.resizeList k ts) := by
    intro ts hts
    induction ts with
    | nil => simp [Trk.resizeList, Trk.CompsOkList]
    | cons t ts ih => rw [Trk.resizeList]; exact ⟨Trk.resize_compsOk k t hts.1, ih hts.2⟩
  refine ⟨hl _ h.subs, h.mainS, h.mainE, ?_⟩
  intro s hs
  simp only [Mixer.resize, List.mem_map] at hs
  obtain ⟨s0, hs0, rfl⟩ := hs
  exact h.sends s0 hs0

/-- the component map commutes with resizing the scratch buffers -/
theorem Trk.mapComps_resize (k : Nat) (t : Trk ℝ S E P) :
    Trk.mapComps fs fe (Trk.resize k t) = Trk.resize k (Trk.mapComps fs fe t) := by
  refine Trk.rec (motive_1 := fun t => Trk.mapComps fs fe (Trk.resize k t) = Trk.resize k (Trk.mapComps fs fe t))
    (motive_2 := fun ts => Trk.mapCompsList fs fe (Trk.resizeList k ts) = Trk.resizeList k (Trk.mapCompsList fs fe ts))
    ?_ ?_ ?_ t
  · intro d c p ihc ihp; rw [Trk.resize, Trk.mapComps, Trk.mapComps, Trk.resize, ihc, ihp]
  · simp [Trk.mapCompsList, Trk.resizeList]
  · intro t ts iht ihts; rw [Trk.resizeList, Trk.mapCompsList, Trk.mapCompsList, Trk.resizeList, iht, ihts]

theorem Trk.mapCompsList_resize (k : Nat) (ts : List (Trk ℝ S E P)) :
    Trk.mapCompsList fs fe (Trk.resizeList k ts) = Trk.resizeList k (Trk.mapCompsList fs fe ts) := by
  induction ts with
  | nil => simp [Trk.mapCompsList, Trk.resizeList]
  | cons t ts ih => rw [Trk.resizeList, Trk.mapCompsList, Trk.mapCompsList, Trk.resizeList, Trk.mapComps_resize, ih]

theorem Renderer.mapComps_resize (k : Nat) (r : Renderer ℝ S E P X) :
    Renderer.mapComps fs fe (Renderer.resize k r) = Renderer.resize k (Renderer.mapComps fs fe r) := by
  simp [Renderer.mapComps, Renderer.resize, Mixer.mapComps, Mixer.resize, Trk.mapCompsList_resize, SendTrk.resize,
    Function.comp_def]

/-- two component maps compose -/
theorem Trk.mapComps_mapComps (fs2 : S → S) (fe2 : E → E) (t : Trk ℝ S E P) :
    Trk.mapComps fs fe (Trk.mapComps fs2 fe2 t) = Trk.mapComps (fun s => fs (fs2 s)) (fun e => fe (fe2 e)) t := by
  refine Trk.rec
    (motive_1 := fun t => Trk.mapComps fs fe (Trk.mapComps fs2 fe2 t)
      = Trk.mapComps (fun s => fs (fs2 s)) (fun e => fe (fe2 e)) t)
    (motive_2 := fun ts => Trk.mapCompsList fs fe (Trk.mapCompsList fs2 fe2 ts)
      = Trk.mapCompsList (fun s => fs (fs2 s)) (fun e => fe (fe2 e)) ts) ?_ ?_ ?_ t
  · intro d c p ihc ihp
    rw [Trk.mapComps, Trk.mapComps, Trk.mapComps, ihc, ihp]
    simp [List.map_map, Function.comp_def]
  · simp [Trk.mapCompsList]
  · intro t ts iht ihts; rw [Trk.mapCompsList, Trk.mapCompsList, Trk.mapCompsList, iht, ihts]

theorem Trk.mapCompsList_mapCompsList (fs2 : S → S) (fe2 : E → E) (ts : List (Trk ℝ S E P)) :
    Trk.mapCompsList fs fe (Trk.mapCompsList fs2 fe2 ts)
      = Trk.mapCompsList (fun s => fs (fs2 s)) (fun e => fe (fe2 e)) ts := by
  induction ts with
  | nil => simp [Trk.mapCompsList]
  | cons t ts ih => rw [Trk.mapCompsList, Trk.mapCompsList, Trk.mapCompsList, Trk.mapComps_mapComps, ih]

theorem Renderer.mapComps_mapComps (fs2 : S → S) (fe2 : E → E) (r : Renderer ℝ S E P X) :
    Renderer.mapComps fs fe (Renderer.mapComps fs2 fe2 r)
      = Renderer.mapComps (fun s => fs (fs2 s)) (fun e => fe (fe2 e)) r := by
  simp [Renderer.mapComps, Mixer.mapComps, Trk.mapCompsList_mapCompsList, List.map_map, Function.comp_def]

/-- mapping with the identity changes nothing -/
theorem Trk.mapComps_id (t : Trk ℝ S E P) : Trk.mapComps (fun s => s) (fun e => e) t = t := by
  refine Trk.rec (motive_1 := fun t => Trk.mapComps (fun s => s) (fun e => e) t = t)
    (motive_2 := fun ts => Trk.mapCompsList (fun s => s) (fun e => e) ts = ts) ?_ ?_ ?_ t
  · intro d c p ihc ihp; rw [Trk.mapComps, ihc, ihp]; simp
  · simp [Trk.mapCompsList]
  · intro t ts iht ihts; rw [Trk.mapCompsList, iht, ihts]

theorem Trk.mapCompsList_id (ts : List (Trk ℝ S E P)) : Trk.mapCompsList (fun s => s) (fun e => e) ts = ts := by
  induction ts with
  | nil => simp [Trk.mapCompsList]
  | cons t ts ih => rw [Trk.mapCompsList, Trk.mapComps_id, ih]

theorem Renderer.mapComps_id (r : Renderer ℝ S E P X) : Renderer.mapComps (fun s => s) (fun e => e) r = r := by
  simp [Renderer.mapComps, Mixer.mapComps, Trk.mapCompsList_id]

end
/-! ### partition and buffer-size invariance of a sequence of `Renderer::process` calls, invariant-relative -/

section
variable {S E P X : Type} (C : Comps ℝ S E P) (V : EnvOps ℝ X)

/-- see `C11_render_partition_invariant_on` (Props/C11.lean) for the statement in words -/
theorem Renderer.runCallbacks_partition_on {IS IS2 : S → Prop} {IE IE2 : E → Prop} {IX : X → Prop}
    (hC : C.LenPres) (hV : V.StaticOn IX)
    (r : Renderer ℝ S E P X) (hibs : 1 ≤ r.ibs) (k : Nat) (hk : 1 ≤ k)
    (hH : C.ChunkHomOn IS IE r.ibs r.dt) (hq : r.QuietOn IS IE IX r.ibs r.dt)
    (fs : S → S) (fe : E → E) (hH2 : C.ChunkHomOn IS2 IE2 k r.dt)
    (hfs : ∀ s, IS s → IS2 (fs s)) (hfe : ∀ e, IE e → IE2 (fe e))
    (hsim : Comps.SimOn C C fs fe IS IE 1 r.dt)
    (ch : Nat) (cbs1 cbs2 : List Nat) (hsum : cbs1.sum = cbs2.sum) :
    (Renderer.runCallbacks C V ch (Renderer.resize k (Renderer.mapComps fs fe r)) cbs2).2
        = (Renderer.runCallbacks C V ch r cbs1).2
      ∧ (Renderer.runCallbacks C V ch (Renderer.resize k (Renderer.mapComps fs fe r)) cbs2).1
          = Renderer.resize k (Renderer.mapComps fs fe (Renderer.runCallbacks C V ch r cbs1).1) := by
  have hq2 : (Renderer.resize k (Renderer.mapComps fs fe r)).QuietOn IS2 IE2 IX k r.dt :=
    ⟨Renderer.resize_quiet k _ (Renderer.mapComps_quiet fs fe r hq.quiet),
      Mixer.resize_compsOk k _ (Mixer.mapComps_compsOk fs fe hfs hfe r.mixer hq.comps), hq.env, Nat.le_refl _, rfl⟩
  have hibs' : (Renderer.resize k (Renderer.mapComps fs fe r)).ibs = k := rfl
  -- both runs are chunk loops; both chunk lists reduce to single-frame chunks
  rw [(Renderer.runCallbacks_spec_clean C V hC ch cbs1 r hq.quiet.1).1,
    (Renderer.runCallbacks_spec_clean C V hC ch cbs2 _ hq2.quiet.1).1, hibs']
  rw [Renderer.specChunks_ones_on C V hC hH hV ch _ r hq (callbackChunks_bound r.ibs hibs cbs1),
    Renderer.specChunks_ones_on C V hC hH2 hV ch _ _ hq2 (by rw [hibs']; exact callbackChunks_bound k hk cbs2),
    callbackChunks_sum r.ibs hibs, callbackChunks_sum k hk, hsum]
  -- the same single-frame chunks on the two capacities, then on the mapped components
  rw [Renderer.specChunks_resize C V hC k ch _ (Renderer.mapComps fs fe r)
    ⟨hq.quiet.1.1, Mixer.mapComps_clean r.ibs fs fe r.mixer hq.quiet.1.2⟩
    (fun n hn => by rw [List.eq_of_mem_replicate hn]; exact ⟨hibs, hk⟩)]
  obtain ⟨h1, _⟩ := Renderer.specChunks_mapComps C C V fs fe hC ch (List.replicate cbs2.sum 1) r hsim hq.comps
    (fun n hn => by rw [List.eq_of_mem_replicate hn])
  rw [h1]
  exact ⟨rfl, rfl⟩

end

end K
